/-
Structural invariant `SInv`: holds after ANY sequence of requests, incoming packets and `clean`s.
-/
import Proofs.Lemmas.ClientBasic
namespace Client
open Client.Spec

structure SInv (s : State) : Prop where
  lenPub : s.outgoingPub.length = s.upperLimit + 1
  lenRel : s.outgoingRel.length = s.upperLimit + 1
  lenOrd : s.outgoingOrder.length = s.upperLimit + 1
  slotId : ∀ (i : Nat) (p : Pub), s.outgoingPub[i]? = some (some p) → p.pkid = i ∧ p.qos ≠ 0
  colQos : ∀ c : Pub, s.collision = some c → c.qos ≠ 0
  counter : occ s.outgoingPub + relCount s.outgoingRel ≤ s.inflight

@[simp] theorem pushEv_fields (s : State) (e : Event) :
    (s.pushEv e).ver = s.ver ∧ (s.pushEv e).outgoingPub = s.outgoingPub ∧ (s.pushEv e).outgoingRel = s.outgoingRel ∧
    (s.pushEv e).inflight = s.inflight ∧ (s.pushEv e).collision = s.collision ∧ (s.pushEv e).upperLimit = s.upperLimit ∧
    (s.pushEv e).outgoingOrder = s.outgoingOrder ∧ (s.pushEv e).lastPkid = s.lastPkid ∧ (s.pushEv e).maxInflight = s.maxInflight ∧
    (s.pushEv e).incomingPub = s.incomingPub ∧ (s.pushEv e).manualAcks = s.manualAcks ∧
    (s.pushEv e).awaitPingresp = s.awaitPingresp ∧ (s.pushEv e).events = s.events ++ [e] := by
  simp [State.pushEv]

/-- the fields `SInv` talks about -/
def SFrame (s s' : State) : Prop :=
  s'.outgoingPub = s.outgoingPub ∧ s'.outgoingRel = s.outgoingRel ∧ s'.upperLimit = s.upperLimit ∧
  s'.collision = s.collision ∧ s'.inflight = s.inflight ∧ s'.outgoingOrder = s.outgoingOrder

theorem SInv.congr {s s' : State} (h : SInv s) (f : SFrame s s') : SInv s' := by
  obtain ⟨a, b, c, d, e', g⟩ := h
  obtain ⟨f1, f2, f3, f4, f5, f6⟩ := f
  exact ⟨by rw [f1, f3]; exact a, by rw [f2, f3]; exact b, by rw [f6, f3]; exact c, by rw [f1]; exact d,
    by rw [f4]; exact e', by rw [f1, f2, f5]; exact g⟩

theorem SInv.pushEv {s : State} (h : SInv s) (e : Event) : SInv (s.pushEv e) :=
  h.congr ⟨rfl, rfl, rfl, rfl, rfl, rfl⟩

theorem SInv.pushOut {s : State} (h : SInv s) (o : Outgoing) : SInv (s.pushOut o) := h.pushEv _

theorem SInv.new (ver : Version) (max : Nat) (m : Bool) : SInv (State.new ver max m) := by
  refine ⟨by simp [State.new], by simp [State.new], by simp [State.new], ?_, by simp [State.new], ?_⟩
  · intro i p h
    simp [State.new, List.getElem?_replicate] at h
  · simp [State.new, occ_replicate, relCount_replicate]

theorem nextPkidSt_sframe (s : State) : SFrame s (nextPkidSt s) := by
  unfold nextPkidSt SFrame; split <;> simp

theorem SInv.nextPkidSt {s : State} (h : SInv s) : SInv (nextPkidSt s) := h.congr (nextPkidSt_sframe s)

theorem getElem?_lt_of_some {α} {l : List α} {i : Nat} {a : α} (h : l[i]? = some a) : i < l.length := by
  rcases Nat.lt_or_ge i l.length with h' | h'
  · exact h'
  · simp [List.getElem?_eq_none h'] at h

/-- storing a publish with a non-zero QoS in the empty slot of its id -/
theorem SInv.storePub {s : State} (h : SInv s) (p : Pub) (hq : p.qos ≠ 0)
    (hslot : s.outgoingPub[p.pkid]? = some none) : SInv (storePub s p) := by
  obtain ⟨a, b, c, d, e', f⟩ := h
  refine ⟨by simpa [Client.storePub] using a, b, by simpa [Client.storePub] using c, ?_, e', ?_⟩
  · intro i q hi
    simp only [Client.storePub, List.getElem?_set] at hi
    split at hi
    · split at hi
      · simp at hi; subst hi; rename_i h1 _; exact ⟨h1, hq⟩
      · simp at hi
    · exact d i q hi
  · simp only [Client.storePub, occ_set_some _ _ _ hslot]; omega

theorem SInv.freeSlot {s : State} (h : SInv s) (i : Nat) (x : Pub) (hslot : s.outgoingPub[i]? = some (some x))
    (dec : Bool) :
    SInv { s with outgoingPub := s.outgoingPub.set i none, inflight := if dec then s.inflight - 1 else s.inflight } := by
  have hocc := occ_set_none _ _ _ hslot
  obtain ⟨a, b, c, d, e', f⟩ := h
  refine ⟨by simpa using a, b, c, ?_, e', ?_⟩
  · intro j q hj
    simp only [List.getElem?_set] at hj
    split at hj
    · first | (split at hj <;> simp at hj) | simp at hj
    · exact d j q hj
  · simp only; split <;> omega

theorem SInv.publishWithId {s : State} (h : SInv s) (p : Pub) (hq : p.qos ≠ 0) : SInv (publishWithId s p).1 := by
  unfold Client.publishWithId
  split
  · exact h
  · rename_i slot hslot
    split
    · apply SInv.pushOut
      obtain ⟨a, b, c, d, e', f⟩ := h
      exact ⟨a, b, c, d, by intro c hc; simp at hc; subst hc; exact hq, f⟩
    · rename_i hfree
      split
      · exact h
      · have hs : s.outgoingPub[p.pkid]? = some none := by
          cases slot with
          | none => exact hslot
          | some x => simp at hfree
        exact (h.storePub p hq hs).pushOut _

theorem SInv.outgoingPublish {s : State} (h : SInv s) (p : Pub) : SInv (outgoingPublish s p).1 := by
  unfold Client.outgoingPublish
  split
  · exact h
  · split
    · exact h.pushOut _
    · rename_i hq
      split
      · split
        · exact h
        · exact h.nextPkidSt.publishWithId _ hq
      · exact h.publishWithId _ hq

theorem SInv.pubrelWithId {s : State} (h : SInv s) (i : Nat) : SInv (pubrelWithId s i).1 := by
  unfold Client.pubrelWithId
  split
  · rename_i hi
    split
    · exact h
    · apply SInv.pushOut
      obtain ⟨a, b, c, d, e', f⟩ := h
      refine ⟨a, by simpa using b, c, d, e', ?_⟩
      simp only
      cases hb : s.outgoingRel[i]? with
      | none => simp at hb; omega
      | some v =>
        cases v with
        | true => rw [relCount_set_true_same _ _ hb]; omega
        | false => rw [relCount_set_true _ _ hb]; omega
  · exact h

theorem outgoingPing_frame (s : State) : SFrame s (outgoingPing s).1 := by
  unfold Client.outgoingPing SFrame
  simp only
  split <;> split <;> (try split) <;> simp [State.pushOut, State.pushEv]

theorem SInv.handleOutgoing {s : State} (h : SInv s) (r : Request) : SInv (handleOutgoing s r).1 := by
  unfold Client.handleOutgoing
  cases r with
  | publish p => exact h.outgoingPublish p
  | pubrel i =>
    simp only [Client.outgoingPubrel]
    split
    · split
      · exact h
      · exact h.nextPkidSt.pubrelWithId _
    · exact h.pubrelWithId _
  | subscribe n =>
    simp only [Client.outgoingSubscribe]
    split
    · exact h
    · split
      · exact h
      · exact h.nextPkidSt.pushOut _
  | unsubscribe =>
    simp only [Client.outgoingUnsubscribe]
    split
    · exact h
    · exact h.nextPkidSt.pushOut _
  | pingreq => exact h.congr (outgoingPing_frame s)
  | disconnect => exact h.pushOut _
  | puback i => exact h.pushOut _
  | pubrec i => exact h.pushOut _
  | other => exact h

/-- the id `i` has just been freed (slot `i` empty): releasing the parked publish keeps `SInv` -/
theorem SInv.release {s : State} (h : SInv s) (i : Nat) (hs : s.outgoingPub[i]? = some none) :
    SInv (release s i).1 := by
  unfold Client.release
  split
  · rename_i c hc
    split
    · rename_i hci
      apply SInv.pushOut
      have h1 : SInv { s with collision := none, collisionPingCount := 0 } := by
        obtain ⟨a, b, c', d, e', f⟩ := h
        exact ⟨a, b, c', d, by simp, f⟩
      exact h1.storePub c (h.colQos c hc) (by rw [hci]; exact hs)
    · exact h
  · exact h

theorem set_none_getElem? {l : List (Option Pub)} {i : Nat} (hi : i < l.length) : (l.set i none)[i]? = some none := by
  simp [hi]

theorem SInv.handlePuback {s : State} (h : SInv s) (i : Nat) : SInv (handlePuback s i).1 := by
  unfold Client.handlePuback
  split
  · exact h
  · exact h
  · rename_i x hslot
    split
    · exact h
    · have h2 := h.freeSlot i x hslot true
      simp only [if_true] at h2
      exact h2.release i (set_none_getElem? (getElem?_lt_of_some hslot))

theorem SInv.handlePubrec {s : State} (h : SInv s) (i r : Nat) : SInv (handlePubrec s i r).1 := by
  unfold Client.handlePubrec
  split
  · exact h
  · exact h
  · rename_i x hslot
    have hlt := getElem?_lt_of_some hslot
    have hocc := occ_set_none _ _ _ hslot
    have h1 := h.freeSlot i x hslot false
    simp only [Bool.false_eq_true, if_false] at h1
    simp only
    split
    · split
      · exact h1
      · have h2 := h.freeSlot i x hslot true
        simp only [if_true] at h2
        exact h2.release i (set_none_getElem? hlt)
    · split
      · rename_i hrl
        have hrl' : i < s.outgoingRel.length := hrl
        have hc0 := h.counter
        apply SInv.pushOut
        obtain ⟨a, b, c, d, e', f⟩ := h1
        refine ⟨a, by simpa using b, c, d, e', ?_⟩
        simp only at f ⊢
        cases hb : s.outgoingRel[i]? with
        | none => simp at hb; omega
        | some v =>
          cases v with
          | true => rw [relCount_set_true_same _ _ hb]; omega
          | false => rw [relCount_set_true _ _ hb]; omega
      · exact h1

theorem SInv.handlePubrel {s : State} (h : SInv s) (i : Nat) : SInv (handlePubrel s i).1 := by
  unfold Client.handlePubrel
  split
  · exact (h.congr (s' := { s with incomingPub := s.incomingPub.filter (· != i) }) ⟨rfl, rfl, rfl, rfl, rfl, rfl⟩).pushOut _
  · exact h

theorem SInv.handlePubcomp {s : State} (h : SInv s) (i : Nat) : SInv (handlePubcomp s i).1 := by
  unfold Client.handlePubcomp
  split
  · rename_i hc
    have hb := (relContains_eq s i).mp hc
    have hcnt := relCount_set_false _ _ hb
    split
    · obtain ⟨a, b, c, d, e', f⟩ := h
      exact ⟨a, by simpa using b, c, d, e', by simp only; omega⟩
    · have h1 : SInv { s with outgoingRel := s.outgoingRel.set i false, inflight := s.inflight - 1 } := by
        obtain ⟨a, b, c, d, e', f⟩ := h
        exact ⟨a, by simpa using b, c, d, e', by simp only; omega⟩
      -- the slot of `i` may still be occupied when an arbitrary caller reused the id; storing
      -- over whatever it holds keeps the structural facts
      have hl1 := h.lenPub; have hl2 := h.lenRel
      have hil := getElem?_lt_of_some hb
      unfold Client.release
      split
      · rename_i c hcol
        have hcol' : s.collision = some c := hcol
        split
        · rename_i hci
          apply SInv.pushOut
          have hlt : c.pkid < s.outgoingPub.length := by rw [hci]; omega
          obtain ⟨a, b, c', d, e', f⟩ := h1
          simp only at a b c' d e' f
          refine ⟨by simpa [Client.storePub] using a, by simpa [Client.storePub] using b,
            by simpa [Client.storePub] using c', ?_, by simp [Client.storePub], ?_⟩
          · intro j q hj
            simp only [Client.storePub, List.getElem?_set] at hj
            by_cases hcj : c.pkid = j
            · simp only [hcj, if_true] at hj
              subst hcj
              simp only [hlt, if_true, Option.some.injEq] at hj
              subst hj
              exact ⟨rfl, h.colQos c hcol'⟩
            · simp only [hcj, if_false] at hj
              exact d j q hj
          · simp only [Client.storePub]
            cases hsl : s.outgoingPub[c.pkid]? with
            | none => simp at hsl; omega
            | some v =>
              cases v with
              | none => rw [occ_set_some _ _ _ hsl]; omega
              | some y => rw [occ_set_same _ _ y c hsl]; omega
        · exact h1
      · exact h1
  · exact h

theorem publishAlias_frame {s s1 : State} {p : InPub} (h : publishAlias s p = some s1) : SFrame s s1 := by
  unfold Client.publishAlias at h
  unfold SFrame
  split at h
  · cases h; simp
  · split at h
    · cases h; simp
    · split at h
      · cases h; split <;> simp
      · split at h
        · cases h; simp
        · cases h

theorem SInv.handlePublish {s : State} (h : SInv s) (p : InPub) : SInv (handlePublish s p).1 := by
  unfold Client.handlePublish
  split
  · exact h.pushOut _
  · rename_i s1 hs1
    have h1 := h.congr (publishAlias_frame hs1)
    split
    · exact h1
    · split
      · split
        · exact h1.pushOut _
        · exact h1
      · simp only
        have h2 : SInv (if s1.incomingPub.contains p.pkid = true then s1 else { s1 with incomingPub := p.pkid :: s1.incomingPub }) := by
          split
          · exact h1
          · exact h1.congr ⟨rfl, rfl, rfl, rfl, rfl, rfl⟩
        generalize (if s1.incomingPub.contains p.pkid = true then s1 else { s1 with incomingPub := p.pkid :: s1.incomingPub }) = s2 at h2
        split
        · exact h2.pushOut _
        · exact h2

theorem handleConnack_frame (s : State) (ok : Bool) (rm am : Option Nat) : SFrame s (handleConnack s ok rm am).1 := by
  unfold Client.handleConnack SFrame
  split
  · simp
  · cases rm <;> cases am <;> simp

theorem SInv.handleIncoming {s : State} (h : SInv s) (p : Incoming) : SInv (handleIncoming s p).1 := by
  unfold Client.handleIncoming
  have h0 := h.pushEv (.incoming p)
  generalize s.pushEv (.incoming p) = s0 at h0
  simp only
  cases p with
  | pingresp => exact h0.congr ⟨rfl, rfl, rfl, rfl, rfl, rfl⟩
  | publish q => exact h0.handlePublish q
  | suback _ => exact h0
  | unsuback _ => exact h0
  | puback i r => exact h0.handlePuback i
  | pubrec i r => exact h0.handlePubrec i r
  | pubrel i r => exact h0.handlePubrel i
  | pubcomp i r => exact h0.handlePubcomp i
  | connack ok sp rm am =>
    simp only
    split
    · exact h0
    · exact h0.congr (handleConnack_frame s0 ok rm am)
  | disconnect _ => simp only; split <;> exact h0
  | connect => exact h0
  | subscribe => exact h0
  | unsubscribe => exact h0
  | pingreq => exact h0
  | auth => exact h0

theorem SInv.cleanState {s : State} (h : SInv s) : SInv (cleanState s) := by
  obtain ⟨a, b, c, d, e', f⟩ := h
  refine ⟨by simpa [Client.cleanState] using a, by simpa [Client.cleanState] using b, c, ?_, by simp [Client.cleanState], ?_⟩
  · intro i p hp
    simp [Client.cleanState, List.getElem?_map] at hp
  · simp [Client.cleanState, occ_map_none, relCount_map_false]

theorem SInv.drainEvents {s : State} (h : SInv s) : SInv (drainEvents s) := h.congr ⟨rfl, rfl, rfl, rfl, rfl, rfl⟩

theorem SInv.sstepSt {s : State} (h : SInv s) (op : SOp) : SInv (sstepSt s op) := by
  unfold Client.sstepSt
  cases op with
  | out r => exact (h.handleOutgoing r).drainEvents
  | inc p => exact (h.handleIncoming p).drainEvents
  | clean => simp only; split; exact h; exact h.cleanState
  | drop => exact h
  | inflight => exact h

theorem SInv.cleanPanics {s : State} (_ : SInv s) : cleanPanics s = false := rfl

end Client
