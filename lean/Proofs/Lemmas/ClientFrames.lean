/-
Frame facts: which tables each handler leaves alone. Used by the ghost-coupling invariants.
-/
import Proofs.Lemmas.ClientInv0
namespace Client
open Client.Spec

/-- fields untouched by requests that do not go through `save_pubrel` -/
theorem user_frame (s : State) (u : UserReq) :
    (handleOutgoing s u.toRequest).1.outgoingRel = s.outgoingRel ∧
    (handleOutgoing s u.toRequest).1.incomingPub = s.incomingPub ∧
    (handleOutgoing s u.toRequest).1.maxInflight = s.maxInflight ∧
    (handleOutgoing s u.toRequest).1.upperLimit = s.upperLimit ∧
    (handleOutgoing s u.toRequest).1.ver = s.ver ∧
    (handleOutgoing s u.toRequest).1.manualAcks = s.manualAcks ∧
    (handleOutgoing s u.toRequest).1.lastPuback = s.lastPuback := by
  cases u with
  | publish q t =>
    simp only [UserReq.toRequest, handleOutgoing, outgoingPublish]
    split
    · simp [publishTail, State.pushOut, State.pushEv]
    · simp only [if_true]
      split
      · simp
      · unfold publishWithId nextPkidSt
        split <;> (try split) <;> (try split) <;> simp [publishTail, State.pushOut, State.pushEv]
  | subscribe n =>
    simp only [UserReq.toRequest, handleOutgoing, outgoingSubscribe, nextPkidSt]
    split <;> (try split) <;> (try split) <;> simp [State.pushOut, State.pushEv]
  | unsubscribe =>
    simp only [UserReq.toRequest, handleOutgoing, outgoingUnsubscribe, nextPkidSt]
    split <;> (try split) <;> simp [State.pushOut, State.pushEv]
  | disconnect => simp [UserReq.toRequest, handleOutgoing, outgoingDisconnect, State.pushOut, State.pushEv]
  | puback i => simp [UserReq.toRequest, handleOutgoing, outgoingPuback, State.pushOut, State.pushEv]
  | pubrec i => simp [UserReq.toRequest, handleOutgoing, outgoingPubrec, State.pushOut, State.pushEv]

theorem ping_frame (s : State) :
    (handleOutgoing s .pingreq).1.outgoingRel = s.outgoingRel ∧
    (handleOutgoing s .pingreq).1.outgoingPub = s.outgoingPub ∧
    (handleOutgoing s .pingreq).1.incomingPub = s.incomingPub ∧
    (handleOutgoing s .pingreq).1.maxInflight = s.maxInflight ∧
    (handleOutgoing s .pingreq).1.upperLimit = s.upperLimit ∧
    (handleOutgoing s .pingreq).1.ver = s.ver ∧
    (handleOutgoing s .pingreq).1.manualAcks = s.manualAcks ∧
    (handleOutgoing s .pingreq).1.collision = s.collision ∧
    (handleOutgoing s .pingreq).1.inflight = s.inflight ∧
    (handleOutgoing s .pingreq).1.lastPuback = s.lastPuback ∧
    (handleOutgoing s .pingreq).1.lastPkid = s.lastPkid := by
  simp only [handleOutgoing, outgoingPing]
  split <;> (try split) <;> (try split) <;> simp [State.pushOut, State.pushEv]

theorem ping_outcome (s : State) : ∀ q, (handleOutgoing s .pingreq).2 ≠ .ok (some (.publish q)) ∧
    ∀ j, (handleOutgoing s .pingreq).2 ≠ .ok (some (.pubrel j)) := by
  intro q
  simp only [handleOutgoing, outgoingPing]
  split <;> (try split) <;> (try split) <;> simp

theorem publishAlias_fields (s : State) (p : InPub) :
    (publishAlias s p).upperLimit = s.upperLimit ∧ (publishAlias s p).ver = s.ver ∧
    (publishAlias s p).manualAcks = s.manualAcks ∧ (publishAlias s p).lastPkid = s.lastPkid ∧
    (publishAlias s p).incomingPub = s.incomingPub ∧ (publishAlias s p).outgoingRel = s.outgoingRel ∧
    (publishAlias s p).outgoingPub = s.outgoingPub ∧ (publishAlias s p).maxInflight = s.maxInflight ∧
    (publishAlias s p).collision = s.collision ∧ (publishAlias s p).inflight = s.inflight ∧
    (publishAlias s p).lastPuback = s.lastPuback := by
  unfold publishAlias
  split
  · simp
  · split
    · simp
    · split
      · split <;> simp
      · split <;> simp [State.pushOut, State.pushEv]

theorem handlePublish_fields (s : State) (p : InPub) :
    (handlePublish s p).1.upperLimit = s.upperLimit ∧ (handlePublish s p).1.ver = s.ver ∧
    (handlePublish s p).1.manualAcks = s.manualAcks ∧ (handlePublish s p).1.lastPkid = s.lastPkid ∧
    (handlePublish s p).1.outgoingRel = s.outgoingRel ∧
    (handlePublish s p).1.outgoingPub = s.outgoingPub ∧ (handlePublish s p).1.maxInflight = s.maxInflight ∧
    (handlePublish s p).1.collision = s.collision ∧ (handlePublish s p).1.inflight = s.inflight ∧
    (handlePublish s p).1.lastPuback = s.lastPuback := by
  obtain ⟨a1, a2, a3, a4, a5, a6, a7, a8, a9, a10, a11⟩ := publishAlias_fields s p
  unfold handlePublish
  generalize publishAlias s p = s1 at *
  simp only [outgoingPuback, outgoingPubrec]
  (repeat' split) <;> simp_all [State.pushOut, State.pushEv]

theorem pubcompTakeCollision_fields (s : State) (i : Nat) :
    (pubcompTakeCollision s i).upperLimit = s.upperLimit ∧ (pubcompTakeCollision s i).ver = s.ver ∧
    (pubcompTakeCollision s i).manualAcks = s.manualAcks ∧ (pubcompTakeCollision s i).lastPkid = s.lastPkid ∧
    (pubcompTakeCollision s i).incomingPub = s.incomingPub ∧ (pubcompTakeCollision s i).outgoingRel = s.outgoingRel ∧
    (pubcompTakeCollision s i).outgoingPub = s.outgoingPub ∧ (pubcompTakeCollision s i).maxInflight = s.maxInflight ∧
    (pubcompTakeCollision s i).inflight = s.inflight ∧ (pubcompTakeCollision s i).lastPuback = s.lastPuback := by
  unfold pubcompTakeCollision
  split
  · split <;> simp [State.pushOut, State.pushEv]
  · simp

theorem handlePubcomp_fields (s : State) (i r : Nat) :
    (handlePubcomp s i r).1.upperLimit = s.upperLimit ∧ (handlePubcomp s i r).1.ver = s.ver ∧
    (handlePubcomp s i r).1.manualAcks = s.manualAcks ∧ (handlePubcomp s i r).1.lastPkid = s.lastPkid ∧
    (handlePubcomp s i r).1.incomingPub = s.incomingPub ∧
    (handlePubcomp s i r).1.outgoingPub = s.outgoingPub ∧ (handlePubcomp s i r).1.maxInflight = s.maxInflight ∧
    (handlePubcomp s i r).1.lastPuback = s.lastPuback := by
  unfold handlePubcomp
  split
  · unfold handlePubcompV4
    split
    · split
      · simp
      · simp only
        split
        · split <;> simp [State.pushOut, State.pushEv]
        · simp
    · simp
  · obtain ⟨a1, a2, a3, a4, a5, a6, a7, a8, a9, a10⟩ := pubcompTakeCollision_fields s i
    unfold handlePubcompV5
    generalize pubcompTakeCollision s i = s1 at *
    simp only
    (repeat' split) <;> simp_all

/-- fields no incoming packet touches -/
theorem incoming_frame (s : State) (p : Incoming) :
    (handleIncoming s p).1.upperLimit = s.upperLimit ∧
    (handleIncoming s p).1.ver = s.ver ∧
    (handleIncoming s p).1.manualAcks = s.manualAcks ∧
    (handleIncoming s p).1.lastPkid = s.lastPkid := by
  unfold handleIncoming
  simp only
  cases p with
  | pingresp => simp [State.pushEv]
  | publish q =>
    obtain ⟨a1, a2, a3, a4, _⟩ := handlePublish_fields (s.pushEv (.incoming (.publish q))) q
    exact ⟨a1, a2, a3, a4⟩
  | suback _ => simp [State.pushEv]
  | unsuback _ => simp [State.pushEv]
  | puback i r =>
    simp only [handlePuback, pubackCollision]
    (repeat' split) <;> simp_all [State.pushOut, State.pushEv]
  | pubrec i r =>
    simp only [handlePubrec]
    (repeat' split) <;> simp [State.pushOut, State.pushEv]
  | pubrel i r =>
    simp only [handlePubrel]
    (repeat' split) <;> simp [State.pushOut, State.pushEv]
  | pubcomp i r =>
    obtain ⟨a1, a2, a3, a4, _⟩ := handlePubcomp_fields (s.pushEv (.incoming (.pubcomp i r))) i r
    exact ⟨a1, a2, a3, a4⟩
  | connack ok sp rm am =>
    simp only [handleConnack]
    (repeat' split) <;> simp [State.pushEv]
  | disconnect _ => simp only; split <;> simp [State.pushEv]
  | connect => simp [State.pushEv]
  | subscribe => simp [State.pushEv]
  | unsubscribe => simp [State.pushEv]
  | pingreq => simp [State.pushEv]
  | auth => simp [State.pushEv]

end Client
