/-
Frame facts: which tables each handler leaves alone. Used by the ghost-coupling invariants.
-/
import Proofs.Lemmas.ClientInv0
namespace Client
open Client.Spec

theorem publishWithId_fields (s : State) (p : Pub) :
    (publishWithId s p).1.outgoingRel = s.outgoingRel ∧
    (publishWithId s p).1.incomingPub = s.incomingPub ∧
    (publishWithId s p).1.maxInflight = s.maxInflight ∧
    (publishWithId s p).1.upperLimit = s.upperLimit ∧
    (publishWithId s p).1.ver = s.ver ∧
    (publishWithId s p).1.manualAcks = s.manualAcks ∧
    (publishWithId s p).1.aliases = s.aliases ∧
    (publishWithId s p).1.lastPkid = s.lastPkid := by
  unfold publishWithId
  split
  · simp
  · split
    · simp [State.pushOut, State.pushEv]
    · split
      · simp
      · simp [publishTail, storePub, State.pushOut, State.pushEv]

theorem nextPkidSt_fields (s : State) :
    (nextPkidSt s).outgoingRel = s.outgoingRel ∧
    (nextPkidSt s).incomingPub = s.incomingPub ∧
    (nextPkidSt s).maxInflight = s.maxInflight ∧
    (nextPkidSt s).upperLimit = s.upperLimit ∧
    (nextPkidSt s).ver = s.ver ∧
    (nextPkidSt s).manualAcks = s.manualAcks ∧
    (nextPkidSt s).aliases = s.aliases := by
  unfold nextPkidSt; split <;> simp

/-- fields untouched by requests that do not go through `save_pubrel` -/
theorem user_frame (s : State) (u : UserReq) :
    (handleOutgoing s u.toRequest).1.outgoingRel = s.outgoingRel ∧
    (handleOutgoing s u.toRequest).1.incomingPub = s.incomingPub ∧
    (handleOutgoing s u.toRequest).1.maxInflight = s.maxInflight ∧
    (handleOutgoing s u.toRequest).1.upperLimit = s.upperLimit ∧
    (handleOutgoing s u.toRequest).1.ver = s.ver ∧
    (handleOutgoing s u.toRequest).1.manualAcks = s.manualAcks ∧
    (handleOutgoing s u.toRequest).1.aliases = s.aliases := by
  cases u with
  | publish q t =>
    simp only [UserReq.toRequest]
    by_cases hq : q = 0
    · subst hq; rw [eff_publish_qos0]; simp [State.pushOut, State.pushEv]
    · by_cases hp : nextPkidPanics s = true
      · simp [handleOutgoing, outgoingPublish, aliasTooLarge, hq, hp]
      · rw [eff_publish_fresh s _ rfl hq rfl (by simpa using hp)]
        obtain ⟨a1, a2, a3, a4, a5, a6, a7, _⟩ := publishWithId_fields (nextPkidSt s) { qos := q, pkid := nextPkidVal s, tag := t }
        obtain ⟨b1, b2, b3, b4, b5, b6, b7⟩ := nextPkidSt_fields s
        exact ⟨a1.trans b1, a2.trans b2, a3.trans b3, a4.trans b4, a5.trans b5, a6.trans b6, a7.trans b7⟩
  | subscribe n =>
    simp only [UserReq.toRequest, handleOutgoing, outgoingSubscribe, nextPkidSt]
    split <;> (try split) <;> (try split) <;> simp [State.pushOut, State.pushEv]
  | unsubscribe =>
    simp only [UserReq.toRequest, handleOutgoing, outgoingUnsubscribe, nextPkidSt]
    split <;> (try split) <;> simp [State.pushOut, State.pushEv]
  | disconnect => simp [UserReq.toRequest, handleOutgoing, outgoingDisconnect, State.pushOut, State.pushEv]
  | puback i => simp [UserReq.toRequest, handleOutgoing, outgoingPuback, State.pushOut, State.pushEv]
  | pubrec i => simp [UserReq.toRequest, handleOutgoing, outgoingPubrec, State.pushOut, State.pushEv]

theorem ping_frame (s : State) :
    (handleOutgoing s .pingreq).1.outgoingRel = s.outgoingRel ∧
    (handleOutgoing s .pingreq).1.outgoingPub = s.outgoingPub ∧
    (handleOutgoing s .pingreq).1.incomingPub = s.incomingPub ∧
    (handleOutgoing s .pingreq).1.maxInflight = s.maxInflight ∧
    (handleOutgoing s .pingreq).1.upperLimit = s.upperLimit ∧
    (handleOutgoing s .pingreq).1.ver = s.ver ∧
    (handleOutgoing s .pingreq).1.manualAcks = s.manualAcks ∧
    (handleOutgoing s .pingreq).1.collision = s.collision ∧
    (handleOutgoing s .pingreq).1.inflight = s.inflight ∧
    (handleOutgoing s .pingreq).1.aliases = s.aliases ∧
    (handleOutgoing s .pingreq).1.lastPkid = s.lastPkid ∧
    (handleOutgoing s .pingreq).1.outgoingOrder = s.outgoingOrder ∧
    (handleOutgoing s .pingreq).1.outgoingCount = s.outgoingCount := by
  simp only [handleOutgoing, outgoingPing]
  split <;> (try split) <;> (try split) <;> simp [State.pushOut, State.pushEv]

theorem ping_outcome (s : State) : ∀ q, (handleOutgoing s .pingreq).2 ≠ .ok (some (.publish q)) ∧
    ∀ j, (handleOutgoing s .pingreq).2 ≠ .ok (some (.pubrel j)) := by
  intro q
  simp only [handleOutgoing, outgoingPing]
  split <;> (try split) <;> (try split) <;> simp

/-- the alias prefix of `handle_incoming_publish` only touches the alias map -/
theorem publishAlias_fields {s s1 : State} {p : InPub} (h : publishAlias s p = some s1) :
    s1.upperLimit = s.upperLimit ∧ s1.ver = s.ver ∧
    s1.manualAcks = s.manualAcks ∧ s1.lastPkid = s.lastPkid ∧
    s1.incomingPub = s.incomingPub ∧ s1.outgoingRel = s.outgoingRel ∧
    s1.outgoingPub = s.outgoingPub ∧ s1.maxInflight = s.maxInflight ∧
    s1.collision = s.collision ∧ s1.inflight = s.inflight ∧
    s1.outgoingOrder = s.outgoingOrder ∧ s1.outgoingCount = s.outgoingCount ∧ s1.events = s.events := by
  unfold publishAlias at h
  split at h
  · cases h; simp
  · split at h
    · cases h; simp
    · split at h
      · cases h; split <;> simp
      · split at h
        · cases h; simp
        · cases h

theorem handlePublish_fields (s : State) (p : InPub) :
    (handlePublish s p).1.upperLimit = s.upperLimit ∧ (handlePublish s p).1.ver = s.ver ∧
    (handlePublish s p).1.manualAcks = s.manualAcks ∧ (handlePublish s p).1.lastPkid = s.lastPkid ∧
    (handlePublish s p).1.outgoingRel = s.outgoingRel ∧
    (handlePublish s p).1.outgoingPub = s.outgoingPub ∧ (handlePublish s p).1.maxInflight = s.maxInflight ∧
    (handlePublish s p).1.collision = s.collision ∧ (handlePublish s p).1.inflight = s.inflight ∧
    (handlePublish s p).1.outgoingOrder = s.outgoingOrder ∧ (handlePublish s p).1.outgoingCount = s.outgoingCount := by
  unfold handlePublish
  split
  · simp [outgoingDisconnect, State.pushOut, State.pushEv]
  · rename_i s1 hal
    obtain ⟨a1, a2, a3, a4, a5, a6, a7, a8, a9, a10, a11, a12, a13⟩ := publishAlias_fields hal
    simp only [outgoingPuback, outgoingPubrec]
    (repeat' split) <;> simp_all [State.pushOut, State.pushEv]

theorem release_fields (s : State) (i : Nat) :
    (release s i).1.upperLimit = s.upperLimit ∧ (release s i).1.ver = s.ver ∧
    (release s i).1.manualAcks = s.manualAcks ∧ (release s i).1.lastPkid = s.lastPkid ∧
    (release s i).1.incomingPub = s.incomingPub ∧ (release s i).1.maxInflight = s.maxInflight ∧
    (release s i).1.outgoingRel = s.outgoingRel ∧ (release s i).1.aliases = s.aliases ∧
    (∀ j, (release s i).2 ≠ .ok (some (.pubrel j))) := by
  unfold release
  split
  · split <;> simp [storePub, State.pushOut, State.pushEv]
  · simp

theorem handlePuback_fields (s : State) (i : Nat) :
    (handlePuback s i).1.upperLimit = s.upperLimit ∧ (handlePuback s i).1.ver = s.ver ∧
    (handlePuback s i).1.manualAcks = s.manualAcks ∧ (handlePuback s i).1.lastPkid = s.lastPkid ∧
    (handlePuback s i).1.incomingPub = s.incomingPub ∧ (handlePuback s i).1.maxInflight = s.maxInflight ∧
    (handlePuback s i).1.outgoingRel = s.outgoingRel ∧ (handlePuback s i).1.aliases = s.aliases ∧
    (∀ j, (handlePuback s i).2 ≠ .ok (some (.pubrel j))) := by
  unfold handlePuback
  split
  · simp
  · simp
  · split
    · simp
    · exact release_fields _ i

theorem handlePubrec_fields (s : State) (i r : Nat) :
    (handlePubrec s i r).1.upperLimit = s.upperLimit ∧ (handlePubrec s i r).1.ver = s.ver ∧
    (handlePubrec s i r).1.manualAcks = s.manualAcks ∧ (handlePubrec s i r).1.lastPkid = s.lastPkid ∧
    (handlePubrec s i r).1.incomingPub = s.incomingPub ∧ (handlePubrec s i r).1.maxInflight = s.maxInflight ∧
    (handlePubrec s i r).1.aliases = s.aliases := by
  unfold handlePubrec
  split
  · simp
  · simp
  · simp only
    split
    · split
      · simp
      · obtain ⟨a1, a2, a3, a4, a5, a6, a7, a8, a9⟩ := release_fields
          { s with outgoingPub := s.outgoingPub.set i none, inflight := s.inflight - 1 } i
        exact ⟨a1, a2, a3, a4, a5, a6, a8⟩
    · split <;> simp [State.pushOut, State.pushEv]

theorem handlePubcomp_fields (s : State) (i : Nat) :
    (handlePubcomp s i).1.upperLimit = s.upperLimit ∧ (handlePubcomp s i).1.ver = s.ver ∧
    (handlePubcomp s i).1.manualAcks = s.manualAcks ∧ (handlePubcomp s i).1.lastPkid = s.lastPkid ∧
    (handlePubcomp s i).1.incomingPub = s.incomingPub ∧ (handlePubcomp s i).1.maxInflight = s.maxInflight ∧
    (handlePubcomp s i).1.aliases = s.aliases ∧
    (∀ j, (handlePubcomp s i).2 ≠ .ok (some (.pubrel j))) := by
  unfold handlePubcomp
  split
  · split
    · simp
    · obtain ⟨a1, a2, a3, a4, a5, a6, a7, a8, a9⟩ := release_fields
        { s with outgoingRel := s.outgoingRel.set i false, inflight := s.inflight - 1 } i
      exact ⟨a1, a2, a3, a4, a5, a6, a8, a9⟩
  · simp

/-- fields no incoming packet touches -/
theorem incoming_frame (s : State) (p : Incoming) :
    (handleIncoming s p).1.upperLimit = s.upperLimit ∧
    (handleIncoming s p).1.ver = s.ver ∧
    (handleIncoming s p).1.manualAcks = s.manualAcks ∧
    (handleIncoming s p).1.lastPkid = s.lastPkid := by
  unfold handleIncoming
  simp only
  cases p with
  | pingresp => simp [State.pushEv]
  | publish q =>
    obtain ⟨a1, a2, a3, a4, _⟩ := handlePublish_fields (s.pushEv (.incoming (.publish q))) q
    exact ⟨a1, a2, a3, a4⟩
  | suback _ => simp [State.pushEv]
  | unsuback _ => simp [State.pushEv]
  | puback i r =>
    obtain ⟨a1, a2, a3, a4, _⟩ := handlePuback_fields (s.pushEv (.incoming (.puback i r))) i
    exact ⟨a1, a2, a3, a4⟩
  | pubrec i r =>
    obtain ⟨a1, a2, a3, a4, _⟩ := handlePubrec_fields (s.pushEv (.incoming (.pubrec i r))) i r
    exact ⟨a1, a2, a3, a4⟩
  | pubrel i r =>
    simp only [handlePubrel]
    (repeat' split) <;> simp [State.pushOut, State.pushEv]
  | pubcomp i r =>
    obtain ⟨a1, a2, a3, a4, _⟩ := handlePubcomp_fields (s.pushEv (.incoming (.pubcomp i r))) i
    exact ⟨a1, a2, a3, a4⟩
  | connack ok sp rm am =>
    simp only [handleConnack]
    (repeat' split) <;> simp [State.pushEv]
  | disconnect _ => simp only; split <;> simp [State.pushEv]
  | connect => simp [State.pushEv]
  | subscribe => simp [State.pushEv]
  | unsubscribe => simp [State.pushEv]
  | pingreq => simp [State.pushEv]
  | auth => simp [State.pushEv]

end Client
