/-
Helper lemmas for C20: `Notification -> Packet -> Protocol::write` (`Model/Encode.lean`).
-/
import Model.Encode
import Proofs.Lemmas.Codec.V4
import Proofs.Lemmas.Codec.V5
import Proofs.Lemmas.Topic

deriving instance DecidableEq for Except

namespace Codec.V5

/-! ### `normalize`: membership and idempotence -/

/-- the part of a normalised property list that belongs to one field of the struct -/
def block (e : Nat × Kind × Bool) (ps : Props) : Props :=
  if e.2.2 then ps.filter (fun p => p.id == e.1) else
  match (ps.filter (fun p => p.id == e.1)).getLast? with
  | some x => [x]
  | none => []

theorem normalize_eq_block (spec : PropSpec) (ps : Props) :
    normalize spec ps = spec.flatMap (fun e => block e ps) := by
  rfl

theorem normalize_cons (e : Nat × Kind × Bool) (spec : PropSpec) (ps : Props) :
    normalize (e :: spec) ps = block e ps ++ normalize spec ps := by
  simp [normalize_eq_block]

theorem mem_block {e : Nat × Kind × Bool} {ps : Props} {q : Property} (h : q ∈ block e ps) :
    q ∈ ps ∧ q.id = e.1 := by
  unfold block at h
  split at h
  · simpa using h
  · split at h
    · next x hx =>
      have := List.mem_of_getLast? hx
      simp at h; subst h
      simpa using this
    · simp at h

theorem mem_normalize {spec : PropSpec} {ps : Props} {q : Property} (h : q ∈ normalize spec ps) :
    q ∈ ps ∧ ∃ e ∈ spec, q.id = e.1 := by
  rw [normalize_eq_block, List.mem_flatMap] at h
  obtain ⟨e, he, hq⟩ := h
  exact ⟨(mem_block hq).1, e, he, (mem_block hq).2⟩

theorem block_congr (e : Nat × Kind × Bool) (ps qs : Props)
    (h : ps.filter (fun p => p.id == e.1) = qs.filter (fun p => p.id == e.1)) :
    block e ps = block e qs := by
  simp only [block, h]

theorem filter_block_self (e : Nat × Kind × Bool) (ps : Props) :
    (block e ps).filter (fun p => p.id == e.1) = block e ps := by
  rw [List.filter_eq_self]
  intro q hq
  simp [(mem_block hq).2]

theorem filter_block_other (e : Nat × Kind × Bool) (i : Nat) (ps : Props) (h : e.1 ≠ i) :
    (block e ps).filter (fun p => p.id == i) = [] := by
  rw [List.filter_eq_nil_iff]
  intro q hq
  have := (mem_block hq).2
  simp; omega

theorem block_block (e : Nat × Kind × Bool) (ps : Props) : block e (block e ps) = block e ps := by
  by_cases hv : e.2.2 = true
  · simp [block, hv]
  · cases hx : (ps.filter (fun p => p.id == e.1)).getLast? with
    | none => simp [block, hv, hx]
    | some x =>
      have hm := List.mem_of_getLast? hx
      have hid : x.id = e.1 := by simpa using (List.mem_filter.mp hm).2
      simp [block, hv, hx, hid]

theorem filter_normalize_other (spec : PropSpec) (i : Nat) (ps : Props)
    (h : ∀ e ∈ spec, e.1 ≠ i) : (normalize spec ps).filter (fun p => p.id == i) = [] := by
  rw [List.filter_eq_nil_iff]
  intro q hq
  obtain ⟨_, e, he, hid⟩ := mem_normalize hq
  have := h e he
  simp; omega

theorem filter_normalize (spec : PropSpec) (ps : Props)
    (hd : spec.Pairwise (fun a b => a.1 ≠ b.1)) :
    ∀ e ∈ spec, (normalize spec ps).filter (fun p => p.id == e.1) = block e ps := by
  induction spec with
  | nil => intro e he; cases he
  | cons e0 rest ih =>
    intro e he
    rw [List.pairwise_cons] at hd
    rw [normalize_cons, List.filter_append]
    rcases List.mem_cons.mp he with h | h
    · subst h
      rw [filter_block_self, filter_normalize_other rest e.1 ps (fun e' he' => (hd.1 e' he').symm)]
      simp
    · rw [filter_block_other e0 e.1 ps (hd.1 e h), ih hd.2 e h]
      simp

theorem flatMap_congr' {α β} (l : List α) (f g : α → List β) (h : ∀ a ∈ l, f a = g a) :
    l.flatMap f = l.flatMap g := by
  induction l with
  | nil => rfl
  | cons a l ih =>
    simp only [List.flatMap_cons]
    rw [h a (by simp), ih (fun b hb => h b (by simp [hb]))]

/-- `normalize` is idempotent for a struct description without repeated identifiers -/
theorem normalize_idem (spec : PropSpec) (ps : Props)
    (hd : spec.Pairwise (fun a b => a.1 ≠ b.1)) :
    normalize spec (normalize spec ps) = normalize spec ps := by
  rw [normalize_eq_block spec (normalize spec ps), normalize_eq_block spec ps]
  apply flatMap_congr'
  intro e he
  rw [← normalize_eq_block, ← block_block e ps]
  apply block_congr
  rw [filter_normalize spec ps hd e he, filter_block_self]

theorem publishSpec_pairwise : publishSpec.Pairwise (fun a b => a.1 ≠ b.1) := by
  simp [publishSpec]

theorem all_normalize (spec : PropSpec) (ps : Props) (f : Property → Bool)
    (h : ps.all f = true) : (normalize spec ps).all f = true := by
  rw [List.all_eq_true] at h ⊢
  intro q hq
  exact h q (mem_normalize hq).1

end Codec.V5

namespace Encode
open Codec
open Admission (Version)

/-- an all-empty properties struct is the same wire value as no properties -/
def normProps : Option Props → Option Props
  | some [] => none
  | x => x

theorem qosOf_q0 (n : Nat) : qosOf n = .q0 ↔ n = 0 := by
  unfold qosOf
  split <;> simp_all

/-- the properties of a forward before they are put into struct order -/
def fwdList (p : Router.Pub) (extra : Props) : Props :=
  extra ++ (match p.alias with | some a => [⟨35, .u16 a⟩] | none => [])
        ++ p.subIds.map (fun i => ⟨11, .var i⟩)

theorem forwardProps_eq (p : Router.Pub) (extra : Props) :
    forwardProps p extra =
      if p.hasProps then some (V5.normalize V5.publishSpec (fwdList p extra)) else none := rfl

structure PubFacts (p : Router.Pub) (extra : Props) : Prop where
  qos : p.qos ≤ 2
  pkid : p.pkid < 65536
  pkid0 : p.qos ≠ 0 → p.pkid ≠ 0
  topic : p.topic.length ≤ 65535
  alias : ∀ a, p.alias = some a → a < 65536
  subIds : ∀ i ∈ p.subIds, i ≤ remainingLimit
  xok : extraOk extra = true
  len : V5.publishLen (qosOf p.qos) p.topic p.pkid p.payload (forwardProps p extra) ≤ remainingLimit

theorem pubOk_facts {p : Router.Pub} {extra : Props} (h : pubOk p extra = true) :
    PubFacts p extra := by
  simp only [pubOk, Bool.and_eq_true, decide_eq_true_eq, List.all_eq_true] at h
  obtain ⟨⟨⟨⟨⟨⟨⟨⟨h1, h2⟩, h3⟩, h4⟩, h5⟩, h6⟩, _⟩, h8⟩, h9⟩ := h
  refine ⟨h1, h2, h3, h4, ?_, h6, h8, h9⟩
  intro a ha
  rw [ha] at h5
  simpa using h5

theorem extraOk_all {extra : Props} (h : extraOk extra = true) :
    extra.all (V5.propOk V5.publishSpec) = true := by
  simp only [extraOk, Bool.and_eq_true, List.all_eq_true] at h
  rw [List.all_eq_true]
  intro q hq
  exact (h.1 q hq).1.1

theorem fwdList_all {p : Router.Pub} {extra : Props} (h : PubFacts p extra) :
    (fwdList p extra).all (V5.propOk V5.publishSpec) = true := by
  simp only [fwdList, List.all_append, Bool.and_eq_true]
  refine ⟨⟨extraOk_all h.xok, ?_⟩, ?_⟩
  · cases ha : p.alias with
    | none => rfl
    | some a =>
      have := h.alias a ha
      simp [V5.propOk, V5.kindOf, V5.publishSpec, PVal.kind, this]
  · rw [List.all_eq_true]
    intro q hq
    obtain ⟨i, hi, rfl⟩ := List.mem_map.mp hq
    have := h.subIds i hi
    simp [V5.propOk, V5.kindOf, V5.publishSpec, PVal.kind, this]

theorem forwardProps_propsOk {p : Router.Pub} {extra : Props} (h : PubFacts p extra) :
    V5.propsOk V5.publishSpec (normProps (forwardProps p extra)) = true := by
  have hlen := h.len
  rw [forwardProps_eq] at hlen ⊢
  by_cases hp : p.hasProps = true
  · simp only [hp, if_true] at hlen ⊢
    have hall := V5.all_normalize V5.publishSpec _ _ (fwdList_all h)
    have hid := V5.normalize_idem V5.publishSpec (fwdList p extra) V5.publishSpec_pairwise
    generalize V5.normalize V5.publishSpec (fwdList p extra) = N at hall hid hlen
    cases N with
    | nil => rfl
    | cons a l =>
      simp only [normProps, V5.propsOk, Bool.and_eq_true, decide_eq_true_eq]
      refine ⟨⟨⟨by simp, hall⟩, hid⟩, ?_⟩
      simp only [V5.publishLen, V5.propsLen] at hlen
      omega
  · simp only [hp] at hlen ⊢
    rfl

theorem encProps_normProps (o : Option Props) :
    V5.encProps (normProps o) = V5.encProps o ∧ V5.propsLen (normProps o) = V5.propsLen o := by
  cases o with
  | none => exact ⟨rfl, rfl⟩
  | some ps =>
    cases ps with
    | nil =>
      simp [normProps, V5.encProps, V5.propListLen, V5.varsFit, V5.propsLen, lenLen,
        encVarintLoop_lt128, V5.encPropList]
    | cons a l => exact ⟨rfl, rfl⟩

/-- for QoS 0 the v5 writer ignores the packet id; `Some(empty struct)` is written like `None` -/
theorem v5_encode_publish_norm (k : Copy) (dup : Bool) (qos : QoS) (retain : Bool) (topic : Bytes)
    (pkid : Nat) (payload : Bytes) (o : Option Props) :
    V5.encode k (.publish dup qos retain topic pkid payload o) =
      V5.encode k (.publish dup qos retain topic (if qos = .q0 then 0 else pkid) payload
        (normProps o)) := by
  simp only [V5.encode, V5.encodeRet, V5.encParts, V5.encPublish, V5.publishLen,
    (encProps_normProps o).1, (encProps_normProps o).2]
  cases qos <;> simp

/-- for QoS 0 the v4 writer ignores the packet id -/
theorem v4_encode_publish_norm (k : Copy) (dup : Bool) (qos : QoS) (retain : Bool) (topic : Bytes)
    (pkid : Nat) (payload : Bytes) :
    V4.encode k (.publish dup qos retain topic pkid payload none) =
      V4.encode k (.publish dup qos retain topic (if qos = .q0 then 0 else pkid) payload none) := by
  simp only [V4.encode, V4.encParts, V4.encPublish, V4.publishLen]
  cases qos <;> cases k <;> simp

theorem pkid_norm (p : Router.Pub) :
    (if qosOf p.qos = .q0 then 0 else p.pkid) = (if p.qos = 0 then 0 else p.pkid) := by
  simp [qosOf_q0]

/-- the normalised v5 PUBLISH of a forward is a well-formed packet (both copies: `V5.wf` of a
    PUBLISH does not depend on the copy) -/
theorem forward_wf_v5 (k : Copy) {p : Router.Pub} {extra : Props} (h : PubFacts p extra) :
    V5.wf k (.publish p.dup (qosOf p.qos) p.retain p.topic (if p.qos = 0 then 0 else p.pkid)
      p.payload (normProps (forwardProps p extra))) = true := by
  have hq := qosOf_q0 p.qos
  have hlen := h.len
  have hpk := h.pkid
  have hpk0 := h.pkid0
  simp only [V5.wf, Bool.and_eq_true, decide_eq_true_eq]
  refine ⟨⟨⟨⟨?_, ?_⟩, ?_⟩, forwardProps_propsOk h⟩, ?_⟩
  · split <;> omega
  · rw [hq]; split <;> simp_all
  · simp [V4.strOk, h.topic]
  · simp only [V5.publishLen, (encProps_normProps _).2] at hlen ⊢
    by_cases h0 : p.qos = 0
    · simp_all
    · simp_all

/-- the broker's `V4::write` drops the MQTT 5 properties of a PUBLISH (`Packet::Publish(publish, _)`) -/
theorem v4_encode_broker_drops_props (dup : Bool) (qos : QoS) (retain : Bool) (topic : Bytes)
    (pkid : Nat) (payload : Bytes) (props : Option Props) :
    V4.encode .broker (.publish dup qos retain topic pkid payload props) =
      V4.encode .broker (.publish dup qos retain topic pkid payload none) := by
  cases props <;> simp [V4.encode, V4.encParts]

/-- the property-less v4 PUBLISH of a forward is a well-formed packet, whether or not the forward
    carries properties (the v5 length bound of `PubFacts` counts at least one byte for them) -/
theorem forward_wf_v4 (k : Copy) {p : Router.Pub} {extra : Props} (h : PubFacts p extra)
    (hutf : k = .client → validUtf8 p.topic = true) :
    V4.wf k (.publish p.dup (qosOf p.qos) p.retain p.topic (if p.qos = 0 then 0 else p.pkid)
      p.payload none) = true := by
  have hq := qosOf_q0 p.qos
  have hlen := h.len
  have hpk := h.pkid
  have hpk0 := h.pkid0
  have hpl := V5.propsLen_pos (forwardProps p extra)
  simp only [V4.wf, Bool.and_eq_true, decide_eq_true_eq]
  refine ⟨⟨⟨⟨rfl, ?_⟩, ?_⟩, ?_⟩, ?_⟩
  · split <;> omega
  · rw [hq]; split <;> simp_all
  · cases k <;> simp_all [V4.strOk, h.topic]
  · simp only [V5.publishLen] at hlen
    cases k <;> simp only [V4.publishLen] <;> by_cases h0 : p.qos = 0 <;> simp_all <;> omega

/-- what the broker's v4 link writes for a forward: the bytes of the property-less PUBLISH with the
    packet id normalised for QoS 0 -/
theorem v4_write_forward (extra : Props) (p : Router.Pub) (c : Option Router.Cursor) :
    write .v4 (ofNotif extra (.forward p c)) =
      V4.encode .broker (.publish p.dup (qosOf p.qos) p.retain p.topic
        (if p.qos = 0 then 0 else p.pkid) p.payload none) := by
  simp only [ofNotif, write, DNotif.toPacket, protocolWrite]
  rw [v4_encode_broker_drops_props, v4_encode_publish_norm, pkid_norm]

/-! ### pass-through properties -/

theorem filter_fwdList (p : Router.Pub) (extra : Props) (i : Nat) (h35 : i ≠ 35) (h11 : i ≠ 11) :
    (fwdList p extra).filter (fun q => q.id == i) = extra.filter (fun q => q.id == i) := by
  simp only [fwdList, List.filter_append]
  have h1 : List.filter (fun q : Property => q.id == i) (match p.alias with
      | some a => [(⟨35, .u16 a⟩ : Property)] | none => []) = [] := by
    cases p.alias <;> simp <;> omega
  have h2 : List.filter (fun q : Property => q.id == i)
      (p.subIds.map (fun i => (⟨11, .var i⟩ : Property))) = [] := by
    rw [List.filter_eq_nil_iff]
    intro q hq
    obtain ⟨j, _, rfl⟩ := List.mem_map.mp hq
    simp; omega
  rw [h1, h2]; simp

theorem mem_fwdList {p : Router.Pub} {extra : Props} {q : Property} (h : q ∈ fwdList p extra) :
    q ∈ extra ∨ q.id = 35 ∨ q.id = 11 := by
  simp only [fwdList, List.mem_append] at h
  rcases h with (h | h) | h
  · exact .inl h
  · cases ha : p.alias <;> simp [ha] at h
    subst h; exact .inr (.inl rfl)
  · obtain ⟨j, _, rfl⟩ := List.mem_map.mp h
    exact .inr (.inr rfl)

theorem extra_mem_normalize {p : Router.Pub} {extra : Props} (hx : extraOk extra = true)
    {q : Property} (hq : q ∈ extra) : q ∈ V5.normalize V5.publishSpec (fwdList p extra) := by
  simp only [extraOk, Bool.and_eq_true, List.all_eq_true, decide_eq_true_eq] at hx
  obtain ⟨hall, hnorm⟩ := hx
  have hq' := hq
  rw [← hnorm, V5.normalize_eq_block, List.mem_flatMap] at hq'
  obtain ⟨e, he, hb⟩ := hq'
  have hid := (V5.mem_block hb).2
  have hne := hall q hq
  simp only [bne_iff_ne, ne_eq] at hne
  rw [V5.normalize_eq_block, List.mem_flatMap]
  refine ⟨e, he, ?_⟩
  rw [V5.block_congr e (fwdList p extra) extra
    (filter_fwdList p extra e.1 (by omega) (by omega))]
  exact hb

/-! ### encodability of acknowledgements and disconnects -/

theorem encodable_of_ok {v : Version} {n : DNotif} {out : Bytes} (h : write v n = .ok out) :
    encodable v n = true := by
  simp [encodable, h]

theorem v5_subCodeByte_subCodeOf (c : Nat) :
    ∃ b, V5.subCodeByte .broker (subCodeOf c) = some b := by
  unfold subCodeOf
  split <;> simp [V5.subCodeByte]

theorem v4_subCodeByte_subCodeOf (c : Nat) :
    ∃ b, V4.subCodeByte .broker (subCodeOf c) = some b := by
  unfold subCodeOf
  split <;> simp [V4.subCodeByte]

theorem v5_encCodes_subCodeOf (codes : List Nat) :
    ∃ bs, V5.encCodes .broker (codes.map subCodeOf) = some bs := by
  induction codes with
  | nil => exact ⟨[], rfl⟩
  | cons c cs ih =>
    obtain ⟨bs, hbs⟩ := ih
    obtain ⟨b, hb⟩ := v5_subCodeByte_subCodeOf c
    exact ⟨u8 b :: bs, by simp only [List.map_cons, V5.encCodes, hbs, hb]⟩

theorem v4_encCodes_subCodeOf (codes : List Nat) :
    ∃ bs, V4.encCodes .broker (codes.map subCodeOf) = some bs := by
  induction codes with
  | nil => exact ⟨[], rfl⟩
  | cons c cs ih =>
    obtain ⟨bs, hbs⟩ := ih
    obtain ⟨b, hb⟩ := v4_subCodeByte_subCodeOf c
    exact ⟨u8 b :: bs, by simp only [List.map_cons, V4.encCodes, hbs, hb]⟩

theorem ack_ok_v5 (a : Router.Ack) (h : ackOk a = true) :
    ∃ out, V5.encode .broker (ofAck a).toPacket = .ok out := by
  cases a with
  | connack id sp =>
    simp [ofAck, DAck.toPacket, V5.encode, V5.encodeRet, V5.encParts, V5.encConnAck,
      V5.connCodeByte, V5.encProps, V5.propListLen, V5.pvalLen, V5.varsFit, V5.propsLen, lenLen,
      encVarint, remainingLimit]
  | puback k | pubrec k | pubrel k | pubcomp k =>
    simp [ofAck, DAck.toPacket, V5.encode, V5.encodeRet, V5.encParts, V5.encAck, encVarint,
      remainingLimit]
  | suback k codes =>
    obtain ⟨bs, hbs⟩ := v5_encCodes_subCodeOf codes
    simp only [ackOk, Bool.and_eq_true, decide_eq_true_eq] at h
    have : ¬ (2 + codes.length + 1 > remainingLimit) := by omega
    simp [ofAck, DAck.toPacket, V5.encode, V5.encodeRet, V5.encParts, V5.encSubAck, hbs,
      V5.encProps, V5.propsLen, encVarint, this]
  | unsuback k rs =>
    simp only [ackOk, Bool.and_eq_true, decide_eq_true_eq] at h
    have : ¬ (2 + rs.length + 1 > remainingLimit) := by omega
    simp [ofAck, DAck.toPacket, V5.encode, V5.encodeRet, V5.encParts, V5.encUnsubAck,
      V5.encProps, V5.propsLen, encVarint, this]
  | pingresp =>
    simp [ofAck, DAck.toPacket, V5.encode, V5.encodeRet, V5.encParts, encVarint, remainingLimit]

theorem ack_ok_v4 (a : Router.Ack) (h : ackOk a = true) :
    ∃ out, V4.encode .broker (ofAck a).toPacket = .ok out := by
  cases a with
  | connack id sp =>
    simp [ofAck, DAck.toPacket, V4.encode, V4.encParts, V4.encConnAck, V4.connCodeByte, frame,
      encVarint, remainingLimit]
  | puback k | pubrec k | pubrel k | pubcomp k =>
    simp [ofAck, DAck.toPacket, V4.encode, V4.encParts, V4.encAck, frame, encVarint,
      remainingLimit]
  | suback k codes =>
    obtain ⟨bs, hbs⟩ := v4_encCodes_subCodeOf codes
    simp only [ackOk, Bool.and_eq_true, decide_eq_true_eq] at h
    have : ¬ (2 + codes.length > remainingLimit) := by omega
    simp [ofAck, DAck.toPacket, V4.encode, V4.encParts, V4.encSubAck, hbs, frame, encVarint, this]
  | unsuback k rs =>
    simp [ofAck, DAck.toPacket, V4.encode, V4.encParts, V4.encAck, frame, encVarint,
      remainingLimit]
  | pingresp =>
    simp [ofAck, DAck.toPacket, V4.encode, V4.encParts, frame, encVarint, remainingLimit]

theorem disconnect_ok_v5 (k : Copy) (reason : DiscReason) :
    ∃ out, V5.encode k (.disconnect reason none) = .ok out := by
  by_cases h : reason = .NormalDisconnection
  · subst h
    simp [V5.encode, V5.encodeRet, V5.encDisconnect, V5.disconnectPlain]
  · have : V5.disconnectPlain reason none = false := by simp [V5.disconnectPlain, h]
    simp [V5.encode, V5.encodeRet, V5.encDisconnect, this, V5.disconnectLen, h, V5.encProps,
      encVarint, remainingLimit]

theorem disconnect_ok_v4 (k : Copy) (reason : DiscReason) :
    ∃ out, V4.encode k (.disconnect reason none) = .ok out := by
  simp [V4.encode, V4.encParts, frame, encVarint, remainingLimit]

/-- `HashMap::insert` then `get` of the same key -/
theorem nlookup_map_replace {β} (k : Nat) (v : β) : ∀ (l : List (Nat × β)), (Router.nlookup k l).isSome →
    Router.nlookup k (l.map (fun p => if p.1 = k then (k, v) else p)) = some v
  | [], h => by simp [Router.nlookup] at h
  | (a, b) :: r, h => by
    by_cases hk : a = k
    · simp [Router.nlookup, hk]
    · have h' : (Router.nlookup k r).isSome := by simpa [Router.nlookup, hk] using h
      simp [Router.nlookup, hk, nlookup_map_replace k v r h']

theorem nlookup_append_new {β} (k : Nat) (v : β) : ∀ (l : List (Nat × β)), Router.nlookup k l = none →
    Router.nlookup k (l ++ [(k, v)]) = some v
  | [], _ => by simp [Router.nlookup]
  | (a, b) :: r, h => by
    by_cases hk : a = k
    · simp [Router.nlookup, hk] at h
    · have h' : Router.nlookup k r = none := by simpa [Router.nlookup, hk] using h
      simp [Router.nlookup, hk, nlookup_append_new k v r h']

theorem nlookup_ninsert_same {β} (k : Nat) (v : β) (l : List (Nat × β)) :
    Router.nlookup k (Router.ninsert k v l) = some v := by
  unfold Router.ninsert
  cases h : Router.nlookup k l with
  | none => simp [nlookup_append_new k v l h]
  | some w => simp [nlookup_map_replace k v l (by simp [h])]

/-- `String::from_utf8` is injective: the decoded string determines the bytes -/
theorem utf8?_inj {a b : Bytes} {s : String} (ha : Router.utf8? a = some s)
    (hb : Router.utf8? b = some s) : a = b := by
  unfold Router.utf8? String.fromUTF8? at ha hb
  split at ha
  · split at hb
    · cases ha
      have := congrArg String.toByteArray (Option.some.inj hb)
      simp only [String.fromUTF8] at this
      have := congrArg ByteArray.data this
      simp at this
      exact this.symm
    · cases hb
  · cases ha

end Encode

namespace Topic

/-! ### a filter without wildcards matches only itself -/

/-- inverse of `splitLevels`: the levels joined with '/' -/
def joinLevels : List Level → Str
  | [] => []
  | [l] => l
  | l :: l' :: ls => l ++ '/' :: joinLevels (l' :: ls)

theorem joinLevels_splitLevels (s : Str) : joinLevels (splitLevels s) = s := by
  induction s with
  | nil => rfl
  | cons c cs ih =>
    unfold splitLevels
    split
    · next hc =>
      subst hc
      cases hs : splitLevels cs with
      | nil => exact absurd hs (splitLevels_ne_nil cs)
      | cons l ls => rw [hs] at ih; simp [joinLevels, ih]
    · cases hs : splitLevels cs with
      | nil => exact absurd hs (splitLevels_ne_nil cs)
      | cons l ls =>
        rw [hs] at ih
        cases ls with
        | nil => simpa [joinLevels] using ih
        | cons l' ls' => simp only [joinLevels] at ih ⊢; rw [← ih]; simp

theorem splitLevels_inj {s t : Str} (h : splitLevels s = splitLevels t) : s = t := by
  rw [← joinLevels_splitLevels s, ← joinLevels_splitLevels t, h]

/-- no level of a string without '+' and '#' is a wildcard level -/
theorem levels_plain_of_no_wildcards {f : Str} (hf : hasWildcards f = false) :
    ∀ l ∈ splitLevels f, l ≠ ['+'] ∧ l ≠ ['#'] := by
  simp only [hasWildcards, Bool.or_eq_false_iff, List.contains_eq_mem, decide_eq_false_iff_not] at hf
  intro l hl
  constructor
  · intro e; subst e
    exact hf.1 ((mem_split '+' (by decide) f).mpr ⟨_, hl, by simp⟩)
  · intro e; subst e
    exact hf.2 ((mem_split '#' (by decide) f).mpr ⟨_, hl, by simp⟩)

/-- against filter levels without wildcards the loop accepts only the same levels -/
theorem matchLoop_eq_of_plain (fs : List Level) : ∀ (ts : List Level),
    (∀ l ∈ fs, l ≠ ['+'] ∧ l ≠ ['#']) → matchLoop ts fs = true → ts = fs := by
  induction fs with
  | nil =>
    intro ts _ h
    cases ts with
    | nil => rfl
    | cons t ts => simp [matchLoop] at h
  | cons f fs ih =>
    intro ts hfs h
    have hf := hfs f (by simp)
    unfold matchLoop at h
    simp only [hf.2, if_false] at h
    cases ts with
    | nil => simp at h
    | cons t ts' =>
      simp only [hf.1, if_false] at h
      by_cases ht : t = ['#']
      · simp [ht] at h
      · simp only [ht, if_false] at h
        by_cases hft : f = t
        · subst hft
          simp only [ne_eq, not_true_eq_false, if_false] at h
          rw [ih ts' (fun l hl => hfs l (by simp [hl])) h]
        · simp [hft] at h

/-- a filter without wildcards is matched only by the topic equal to it -/
theorem matchesImpl_no_wildcards {t f : Str} (hf : hasWildcards f = false)
    (h : matchesImpl t f = true) : t = f := by
  unfold matchesImpl at h
  split at h
  · cases h
  · exact splitLevels_inj (matchLoop_eq_of_plain _ _ (levels_plain_of_no_wildcards hf) h)

end Topic
