import Model.Topic
import Model.TopicSpec

namespace Topic

theorem splitLevels_ne_nil (s : Str) : splitLevels s ≠ [] := by
  induction s with
  | nil => simp [splitLevels]
  | cons c cs ih =>
    unfold splitLevels
    split
    · simp
    · split <;> simp

theorem byteLen_pos_of_ne_nil : ∀ (s : Str), s ≠ [] → 0 < byteLen s
  | [], h => absurd rfl h
  | c :: cs, _ => by
    have := Char.utf8Size_pos c
    simp [byteLen]; omega

theorem byteLen_eq_one (s : Str) (c : Char) (hc : c ∈ s) (hsz : c.utf8Size = 1) :
    byteLen s = 1 ↔ s = [c] := by
  constructor
  · intro h
    match s, hc, h with
    | [a], hc, _ => simp at hc; simp [hc]
    | a :: b :: r, _, h =>
      have := Char.utf8Size_pos a
      have := Char.utf8Size_pos b
      simp [byteLen] at h; omega
  · intro h; subst h; simp [byteLen, hsz]

theorem plus_size : ('+' : Char).utf8Size = 1 := by decide
theorem hash_size : ('#' : Char).utf8Size = 1 := by decide

/-- membership of a non-separator character is preserved by splitting -/
theorem mem_split (c : Char) (hc : c ≠ '/') (s : Str) :
    c ∈ s ↔ ∃ l ∈ splitLevels s, c ∈ l := by
  induction s with
  | nil => simp [splitLevels]
  | cons a as ih =>
    unfold splitLevels
    split
    · rename_i h; subst h
      simp only [List.mem_cons, hc, false_or]
      rw [ih]; simp
    · have hne := splitLevels_ne_nil as
      split
      · rename_i heq; exact absurd heq hne
      · rename_i l ls heq
        rw [heq] at ih
        simp only [List.mem_cons, exists_eq_or_imp] at ih ⊢
        rw [ih]
        constructor
        · rintro (h | h | h)
          · exact Or.inl (Or.inl h)
          · exact Or.inl (Or.inr h)
          · exact Or.inr h
        · rintro ((h | h) | h)
          · exact Or.inl h
          · exact Or.inr (Or.inl h)
          · exact Or.inr (Or.inr h)

theorem levelPlain_iff (l : Level) :
    LevelPlain l ↔ (l.contains '+' = false ∧ l.contains '#' = false) := by
  simp [LevelPlain]

/-- a level is accepted as a non-last entry iff it is plain or exactly `+` -/
theorem innerOk_iff (l : Level) : innerOk l = true ↔ (LevelPlain l ∨ l = ['+']) := by
  unfold innerOk LevelPlain
  by_cases hh : '#' ∈ l
  · simp [hh]; intro h; subst h; simp at hh
  · by_cases hp : '+' ∈ l
    · have h1 := byteLen_eq_one l '+' hp plus_size
      have hpos := byteLen_pos_of_ne_nil l (by intro h; subst h; simp at hp)
      simp [hh, hp]
      constructor
      · intro h; apply h1.mp; omega
      · intro h; have := h1.mpr h; omega
    · simp [hh, hp]

/-- a level is accepted as the last entry iff it is plain, `+` or `#` -/
theorem lastOk_iff (l : Level) : lastOk l = true ↔ (LevelPlain l ∨ l = ['+'] ∨ l = ['#']) := by
  unfold lastOk LevelPlain
  by_cases hh : '#' ∈ l
  · have h1 := byteLen_eq_one l '#' hh hash_size
    simp [hh]
    constructor
    · intro h; right; exact h1.mp h
    · rintro (h | h)
      · subst h; simp at hh
      · exact h1.mpr h
  · by_cases hp : '+' ∈ l
    · have h1 := byteLen_eq_one l '+' hp plus_size
      simp [hh, hp]
      constructor
      · intro h; left; exact h1.mp h
      · rintro (h | h)
        · exact h1.mpr h
        · subst h; simp at hp
    · simp [hh, hp]

theorem filterLevelsOk_append_last (ls : List Level) (last : Level) :
    FilterLevelsOk (ls ++ [last]) ↔
      ((∀ l ∈ ls, LevelPlain l ∨ l = ['+']) ∧ (LevelPlain last ∨ last = ['+'] ∨ last = ['#'])) := by
  induction ls with
  | nil => simp [FilterLevelsOk]
  | cons a as ih =>
    cases as with
    | nil => simp [FilterLevelsOk]
    | cons b bs =>
      simp only [List.cons_append] at ih ⊢
      simp only [FilterLevelsOk]
      rw [ih]
      simp only [List.mem_cons, forall_eq_or_imp]
      constructor
      · rintro ⟨h1, h2, h3⟩; exact ⟨⟨h1, h2⟩, h3⟩
      · rintro ⟨⟨h1, h2⟩, h3⟩; exact ⟨h1, h2, h3⟩

theorem validFilterB_iff (f : Str) : validFilterB f = true ↔ ValidFilter f := by
  unfold validFilterB ValidFilter
  by_cases hf : f = []
  · simp [hf]
  · have hne := splitLevels_ne_nil f
    obtain ⟨ls, last, hsplit⟩ : ∃ ls last, splitLevels f = ls ++ [last] := by
      refine ⟨(splitLevels f).dropLast, (splitLevels f).getLast hne, ?_⟩
      exact (List.dropLast_concat_getLast hne).symm
    simp only [List.isEmpty_iff, hf, if_false, hsplit, List.getLast?_append, List.getLast?_singleton,
      Option.some_or, List.dropLast_concat, ne_eq, not_false_eq_true, true_and]
    rw [filterLevelsOk_append_last]
    by_cases hall : ls.all innerOk = true
    · simp only [hall, Bool.not_true, Bool.false_eq_true, if_false, lastOk_iff]
      have : ∀ l ∈ ls, LevelPlain l ∨ l = ['+'] := by
        intro l hl
        exact (innerOk_iff l).mp (List.all_eq_true.mp hall l hl)
      exact ⟨fun h => ⟨this, h⟩, fun h => h.2⟩
    · have hall' : ls.all innerOk = false := by simpa using hall
      simp only [hall', Bool.not_false, if_true, Bool.false_eq_true, false_iff, not_and]
      intro hcontra
      exfalso
      apply hall
      apply List.all_eq_true.mpr
      intro l hl; exact (innerOk_iff l).mpr (hcontra l hl)

theorem validFilterC_eq_B (f : Str) : validFilterC f = validFilterB f := by
  unfold validFilterC validFilterB
  by_cases hf : f = []
  · simp [hf]
  · have hne := splitLevels_ne_nil f
    obtain ⟨ls, last, hsplit⟩ : ∃ ls last, splitLevels f = ls ++ [last] := by
      refine ⟨(splitLevels f).dropLast, (splitLevels f).getLast hne, ?_⟩
      exact (List.dropLast_concat_getLast hne).symm
    simp only [List.isEmpty_iff, hf, if_false, hsplit, List.reverse_append, List.reverse_cons,
      List.reverse_nil, List.nil_append, List.singleton_append, List.getLast?_append,
      List.getLast?_singleton, Option.some_or, List.dropLast_concat, List.all_reverse]
    cases lastOk last <;> cases ls.all innerOk <;> simp

theorem validTopic_iff (t : Str) : validTopic t = true ↔ ValidTopic t := by
  unfold validTopic ValidTopic LevelPlain
  have hp := mem_split '+' (by decide) t
  have hh := mem_split '#' (by decide) t
  simp only [Bool.not_eq_true', Bool.or_eq_false_iff, List.contains_eq_mem, decide_eq_false_iff_not]
  rw [hp, hh]
  constructor
  · rintro ⟨h1, h2⟩ l hl
    exact ⟨fun h => h1 ⟨l, hl, h⟩, fun h => h2 ⟨l, hl, h⟩⟩
  · intro h
    exact ⟨fun ⟨l, hl, hc⟩ => (h l hl).1 hc, fun ⟨l, hl, hc⟩ => (h l hl).2 hc⟩

theorem plain_ne_hash {l : Level} (h : LevelPlain l) : l ≠ ['#'] := by
  intro e; subst e; simp [LevelPlain] at h
theorem plain_ne_plus {l : Level} (h : LevelPlain l) : l ≠ ['+'] := by
  intro e; subst e; simp [LevelPlain] at h

/-- the loop agrees with the MQTT relation on plain topic levels and well-formed filter levels -/
theorem matchLoop_iff (fs : List Level) : ∀ (ts : List Level),
    (∀ l ∈ ts, LevelPlain l) → FilterLevelsOk fs → (matchLoop ts fs = true ↔ Matches ts fs) := by
  induction fs with
  | nil =>
    intro ts _ _
    cases ts with
    | nil => simp [matchLoop]; exact Matches.nil
    | cons t ts => simp [matchLoop]; intro h; cases h
  | cons f fs ih =>
    intro ts hts hfs
    unfold matchLoop
    by_cases hfh : f = ['#']
    · subst hfh
      have : fs = [] := by
        cases fs with
        | nil => rfl
        | cons g gs =>
          simp only [FilterLevelsOk] at hfs
          rcases hfs.1 with h | h
          · exact absurd rfl (plain_ne_hash h)
          · simp at h
      subst this
      simp; exact Matches.hash ts
    · have hfs' : FilterLevelsOk fs := by
        cases fs with
        | nil => trivial
        | cons g gs => exact hfs.2
      simp only [hfh, if_false]
      cases ts with
      | nil =>
        simp
        intro h
        cases h
        exact hfh rfl
      | cons t ts' =>
        have htp : LevelPlain t := hts t (by simp)
        have hts' : ∀ l ∈ ts', LevelPlain l := fun l hl => hts l (by simp [hl])
        have hth : t ≠ ['#'] := plain_ne_hash htp
        simp only [hth, if_false]
        by_cases hfp : f = ['+']
        · subst hfp
          simp only [if_true]
          rw [ih ts' hts' hfs']
          constructor
          · exact Matches.plus
          · intro h
            cases h with
            | plus h => exact h
            | lit h1 _ _ => exact absurd rfl h1
        · simp only [hfp, if_false]
          by_cases hft : f = t
          · subst hft
            simp only [ne_eq, not_true_eq_false, if_false]
            rw [ih ts' hts' hfs']
            constructor
            · exact Matches.lit hfp hfh
            · intro h
              cases h with
              | hash => exact absurd rfl hfh
              | plus h => exact absurd rfl hfp
              | lit _ _ h => exact h
          · simp only [ne_eq, hft, not_false_eq_true, if_true, Bool.false_eq_true, false_iff]
            intro h
            cases h with
            | hash => exact hfh rfl
            | plus h => exact hfp rfl
            | lit _ _ _ => exact hft rfl

end Topic
