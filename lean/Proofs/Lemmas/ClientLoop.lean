/-
Helper lemmas for C18 (keep-alive timer) and the loop-level clauses (CLoop).
-/
import Model.Client.Timer
import Model.Client.Loop
import Model.Client.LoopSpec
namespace Client.Timer

/-! ### basic facts about one step -/

theorem step_keepAlive (s : TState) (e : Ev) : (step s e).1.keepAlive = s.keepAlive := by
  cases e <;> simp [step, fire, clean] <;> (repeat' split) <;> simp_all

theorem step_ver (s : TState) (e : Ev) : (step s e).1.ver = s.ver := by
  cases e <;> simp [step, fire, clean] <;> (repeat' split) <;> simp_all

theorem step_now_le (s : TState) (e : Ev) : s.now ≤ (step s e).1.now := by
  cases e <;> simp [step, fire, clean] <;> (repeat' split) <;> simp_all

theorem run_now_le (evs : List Ev) : ∀ s : TState, s.now ≤ (run s evs).now := by
  induction evs with
  | nil => intro s; simp [run]
  | cons e es ih =>
    intro s
    simp only [run]
    exact Nat.le_trans (step_now_le s e) (ih _)

/-- labels are stamped with the time after the step, and that time is the time before it unless
    the event is `advance` (which produces no label) -/
theorem step_lab_now (s : TState) (e : Ev) (l : Lab) (h : (step s e).2 = some l) :
    (step s e).1.now = s.now := by
  cases e <;> simp [step, fire, clean] at h ⊢ <;> (repeat' split) <;> simp_all

theorem trace_times_ge (evs : List Ev) : ∀ (s : TState) (x : Nat × Lab), x ∈ trace s evs → s.now ≤ x.1 := by
  induction evs with
  | nil => intro s x h; simp [trace] at h
  | cons e es ih =>
    intro s x h
    simp only [trace] at h
    split at h
    · rename_i l hl
      rcases List.mem_cons.mp h with h | h
      · subst h; exact step_now_le s e
      · exact Nat.le_trans (step_now_le s e) (ih _ x h)
    · exact Nat.le_trans (step_now_le s e) (ih _ x h)

/-! ### a loop that is not connected produces nothing (within one connection) -/

theorem trace_disconnected (evs : List Ev) : ∀ s : TState, s.connected = false → oneConn evs = true →
    trace s evs = [] ∧ (run s evs).connected = false := by
  induction evs with
  | nil => intro s h _; simp [trace, run, h]
  | cons e es ih =>
    intro s h ho
    cases e <;> simp [oneConn] at ho <;>
      simp [trace, run, step, fire, due, h] <;> exact ih _ (by simp [h]) ho

/-! ### ping period -/

/-- invariant of a connected, armed timer whose next firing is at `b + k` -/
structure Armed (b : Nat) (s : TState) : Prop where
  conn : s.connected = true
  arm : armed s.ver s.keepAlive = true
  dl : s.deadline = some (b + s.keepAlive)
  le : s.now ≤ b + s.keepAlive

theorem schedule_succ (b k n : Nat) : (b + k) :: schedule (b + k) k n = schedule b k (n + 1) := rfl

theorem gapsLe_schedule (k n : Nat) : ∀ t0, gapsLe k t0 (schedule t0 k n) = true := by
  induction n with
  | zero => intro t0; simp [schedule, gapsLe]
  | succ n ih =>
    intro t0
    simp only [schedule, gapsLe, Nat.le_refl, decide_true, Bool.true_and]
    exact ih (t0 + k)

theorem ping_period_gen (evs : List Ev) : ∀ (s : TState) (b : Nat), Armed b s → oneConn evs = true →
    Timely s evs →
    ∃ n, fireTimes (trace s evs) = schedule b s.keepAlive n ∧
      ((run s evs).connected = true →
        (run s evs).now ≤ b + (n + 1) * s.keepAlive ∧
        (run s evs).deadline = some (b + (n + 1) * s.keepAlive)) := by
  induction evs with
  | nil =>
    intro s b h _ _
    refine ⟨0, by simp [trace, fireTimes, schedule], ?_⟩
    intro _; simp [run, h.le, h.dl]
  | cons e es ih =>
    intro s b h ho ht
    cases e with
    | advance dt =>
      simp only [Timely] at ht
      have hle := ht.1 _ h.conn h.dl
      have : Armed b (step s (.advance dt)).1 := by
        constructor <;> simp [step, h.conn, h.arm, h.dl, hle]
      have := ih _ b this (by simpa [oneConn] using ho) ht.2
      simpa [trace, run, step] using this
    | pingresp =>
      have hA : Armed b (step s .pingresp).1 := by
        constructor <;> simp [step, h.conn, h.arm, h.dl, h.le]
      obtain ⟨n, h1, h2⟩ := ih _ b hA (by simpa [oneConn] using ho) (by simpa [Timely] using ht)
      refine ⟨n, ?_, ?_⟩
      · simp [trace, step, h.conn, fireTimes] at h1 ⊢; exact h1
      · simpa [run, step, h.conn] using h2
    | other =>
      have := ih s b h (by simpa [oneConn] using ho) (by simpa [Timely, step] using ht)
      simpa [trace, run, step] using this
    | request =>
      have := ih s b h (by simpa [oneConn] using ho) (by simpa [Timely, step] using ht)
      simpa [trace, run, step] using this
    | connack => simp [oneConn] at ho
    | fail => simp [oneConn] at ho
    | fire =>
      have ho' : oneConn es = true := by simpa [oneConn] using ho
      have ht' : Timely (step s .fire).1 es := by simpa [Timely] using ht
      by_cases hd : due s = true
      · -- the timer is due: `now = b + k`
        have hnow : s.now = b + s.keepAlive := by
          have : b + s.keepAlive ≤ s.now := by
            simpa [due, h.conn, h.arm, h.dl] using hd
          exact Nat.le_antisymm h.le this
        by_cases ha : s.awaitPingresp = true
        · -- error: the connection is gone
          have hs : (step s .fire).1 = clean s := by simp [step, fire, hd, ha]
          have hl : (step s .fire).2 = some .err := by simp [step, fire, hd, ha]
          have hdis := trace_disconnected es (clean s) (by simp [clean]) ho'
          refine ⟨1, ?_, ?_⟩
          · simp only [trace, hs, hl]
            rw [hdis.1]
            simp [fireTimes, schedule, clean, hnow]
          · intro hc; simp [run, hs, hdis.2] at hc
        · have ha' : s.awaitPingresp = false := by simpa using ha
          have hs : (step s .fire).1 =
              { s with deadline := some (s.now + s.keepAlive), awaitPingresp := true } := by
            simp [step, fire, hd, ha']
          have hl : (step s .fire).2 = some .ping := by simp [step, fire, hd, ha']
          have hA : Armed (b + s.keepAlive) (step s .fire).1 := by
            rw [hs]; constructor <;> simp [h.conn, h.arm, hnow]
          have hk : (step s .fire).1.keepAlive = s.keepAlive := step_keepAlive s .fire
          obtain ⟨n, h1, h2⟩ := ih _ (b + s.keepAlive) hA ho' ht'
          rw [hk] at h1 h2
          have hn1 : (step s .fire).1.now = s.now := by rw [hs]
          have e2 : (n + 1 + 1) * s.keepAlive = (n + 1) * s.keepAlive + s.keepAlive := by
            rw [Nat.add_mul (n + 1) 1]; simp
          refine ⟨n + 1, ?_, ?_⟩
          · rw [← schedule_succ]
            simp only [trace, hl, hn1]
            simp only [fireTimes] at h1 ⊢
            simp [hnow]
            exact h1
          · intro hc
            have := h2 (by simpa [run] using hc)
            simp only [run]
            rw [e2]
            constructor
            · have := this.1; omega
            · have := this.2; rw [this]; congr 1; omega
      · have hs : step s .fire = (s, none) := by simp [step, fire, hd]
        rw [hs] at ht'
        have := ih s b h ho' ht'
        simpa [trace, run, hs] using this

/-! ### silent broker -/

/-- invariant for detection: `L` = time of the last answer (or CONNACK) -/
structure Detect (L : Nat) (s : TState) : Prop where
  conn : s.connected = true
  arm : armed s.ver s.keepAlive = true
  ex : ∃ d, s.deadline = some d ∧ s.now ≤ d ∧ d ≤ s.now + s.keepAlive ∧ L ≤ s.now ∧
        (s.awaitPingresp = false → d ≤ L + s.keepAlive) ∧
        (s.awaitPingresp = true → d ≤ L + 2 * s.keepAlive)

theorem lastResp_nil (L : Nat) : lastResp L [] = L := rfl

theorem silent_gen (evs : List Ev) : ∀ (s : TState) (L : Nat), Detect L s → oneConn evs = true →
    Timely s evs →
    ((run s evs).connected = true → (run s evs).now ≤ lastResp L (trace s evs) + 2 * s.keepAlive) ∧
    (∀ t, (t, Lab.err) ∈ trace s evs → t ≤ lastResp L (trace s evs) + 2 * s.keepAlive) ∧
    ((run s evs).connected = false → hasLab .err (trace s evs) = true) := by
  induction evs with
  | nil =>
    intro s L h _ _
    obtain ⟨d, hd, h1, h2, h3, h4, h5⟩ := h.ex
    refine ⟨?_, by simp [trace], ?_⟩
    · intro _
      simp only [run, trace, lastResp_nil]
      cases ha : s.awaitPingresp
      · have := h4 ha; omega
      · have := h5 ha; omega
    · intro hc; simp [run, h.conn] at hc
  | cons e es ih =>
    intro s L h ho ht
    obtain ⟨d, hd, h1, h2, h3, h4, h5⟩ := h.ex
    cases e with
    | advance dt =>
      simp only [Timely] at ht
      have hle := ht.1 _ h.conn hd
      have hD : Detect L (step s (.advance dt)).1 := by
        refine ⟨by simp [step, h.conn], by simp [step, h.arm], d, ?_⟩
        simp [step, hd]
        refine ⟨hle, by omega, by omega, h4, h5⟩
      have := ih _ L hD (by simpa [oneConn] using ho) ht.2
      simpa [trace, run, step] using this
    | pingresp =>
      have hD : Detect s.now (step s .pingresp).1 := by
        refine ⟨by simp [step, h.conn], by simp [step, h.conn, h.arm], d, ?_⟩
        simp only [step, h.conn, if_true]
        exact ⟨hd, h1, h2, Nat.le_refl _, fun _ => h2, fun hh => by simp at hh⟩
      have := ih _ s.now hD (by simpa [oneConn] using ho) (by simpa [Timely] using ht)
      have hk : (step s .pingresp).1.keepAlive = s.keepAlive := step_keepAlive _ _
      rw [hk] at this
      have hst : (step s .pingresp).2 = some .resp := by simp [step, h.conn]
      have hnow : (step s .pingresp).1.now = s.now := by simp [step, h.conn]
      simp only [trace, run, hst, hnow, lastResp]
      refine ⟨this.1, ?_, ?_⟩
      · intro t ht'
        rcases List.mem_cons.mp ht' with h' | h'
        · cases h'
        · exact this.2.1 t h'
      · intro hc; simp [hasLab]; have := this.2.2 hc; simpa [hasLab] using this
    | other =>
      have := ih s L h (by simpa [oneConn] using ho) (by simpa [Timely, step] using ht)
      simpa [trace, run, step] using this
    | request =>
      have := ih s L h (by simpa [oneConn] using ho) (by simpa [Timely, step] using ht)
      simpa [trace, run, step] using this
    | connack => simp [oneConn] at ho
    | fail => simp [oneConn] at ho
    | fire =>
      have ho' : oneConn es = true := by simpa [oneConn] using ho
      have ht' : Timely (step s .fire).1 es := by simpa [Timely] using ht
      by_cases hdue : due s = true
      · have hnow : s.now = d := by
          have : d ≤ s.now := by simpa [due, h.conn, h.arm, hd] using hdue
          omega
        by_cases ha : s.awaitPingresp = true
        · have hs : (step s .fire).1 = clean s := by simp [step, fire, hdue, ha]
          have hl : (step s .fire).2 = some .err := by simp [step, fire, hdue, ha]
          have hdis := trace_disconnected es (clean s) (by simp [clean]) ho'
          have hb := h5 ha
          simp only [trace, run, hs, hl, hdis.1, lastResp]
          refine ⟨?_, ?_, ?_⟩
          · intro hc; simp [hdis.2] at hc
          · intro t ht2
            simp [clean] at ht2
            omega
          · intro _; simp [hasLab]
        · have ha' : s.awaitPingresp = false := by simpa using ha
          have hs : (step s .fire).1 =
              { s with deadline := some (s.now + s.keepAlive), awaitPingresp := true } := by
            simp [step, fire, hdue, ha']
          have hl : (step s .fire).2 = some .ping := by simp [step, fire, hdue, ha']
          have hb := h4 ha'
          have hD : Detect L (step s .fire).1 := by
            rw [hs]
            refine ⟨by simp [h.conn], by simp [h.arm], s.now + s.keepAlive, ?_⟩
            simp
            refine ⟨h3, by omega⟩
          have := ih _ L hD ho' ht'
          have hk : (step s .fire).1.keepAlive = s.keepAlive := step_keepAlive _ _
          rw [hk] at this
          simp only [trace, run, hl, lastResp]
          refine ⟨this.1, ?_, ?_⟩
          · intro t ht2
            rcases List.mem_cons.mp ht2 with h' | h'
            · cases h'
            · exact this.2.1 t h'
          · intro hc; have := this.2.2 hc; simpa [hasLab] using this
      · have hs : step s .fire = (s, none) := by simp [step, fire, hdue]
        rw [hs] at ht'
        have := ih s L h ho' ht'
        simpa [trace, run, hs] using this

/-! ### no false alarm -/

/-- well-formedness: a loop that is not connected has no outstanding ping and no timer -/
def WF (s : TState) : Prop := s.connected = false → s.awaitPingresp = false ∧ s.deadline = none

theorem due_connected (s : TState) (h : due s = true) : s.connected = true := by
  simp [due] at h; exact h.1.1

theorem wf_step (s : TState) (e : Ev) (h : WF s) : WF (step s e).1 := by
  unfold WF at *
  cases e with
  | fire =>
    by_cases hd : due s = true
    · have := due_connected s hd
      simp [step, fire, hd, clean]; split <;> simp_all
    · simp [step, fire, hd]; exact h
  | _ => simp [step, clean] <;> (repeat' split) <;> simp_all

theorem respWithin_mono (t k : Nat) (x : Nat × Lab) (rest : List (Nat × Lab)) :
    respWithin t k rest = true → respWithin t k (x :: rest) = true := by
  intro h; simp [respWithin] at h ⊢; right; exact h

theorem no_false_alarm_gen (evs : List Ev) : ∀ (s : TState), WF s →
    (s.connected = true → s.awaitPingresp = true →
      ∃ p d, s.deadline = some d ∧ p + s.keepAlive ≤ d ∧
        (respWithin p s.keepAlive (trace s evs) = true ∨ (run s evs).now < p + s.keepAlive)) →
    answeredWithin s.keepAlive (run s evs).now (trace s evs) = true →
    hasLab .err (trace s evs) = false := by
  induction evs with
  | nil => intro s _ _ _; simp [trace, hasLab]
  | cons e es ih =>
    intro s hwf hout hans
    have hk : (step s e).1.keepAlive = s.keepAlive := step_keepAlive s e
    -- events without a label that keep flag, deadline and connection: shared argument
    have same : ∀ (s' : TState), (step s e) = (s', none) → s'.keepAlive = s.keepAlive →
        s'.connected = s.connected → s'.awaitPingresp = s.awaitPingresp → s'.deadline = s.deadline →
        hasLab .err (trace s (e :: es)) = false := by
      intro s' hs hk' hc ha hd
      have htr : trace s (e :: es) = trace s' es := by simp [trace, hs]
      have hrun : run s (e :: es) = run s' es := by simp [run, hs]
      rw [htr]
      apply ih s' (by have := wf_step s e hwf; rw [hs] at this; exact this)
      · intro c a
        obtain ⟨p, d, h1, h2, h3⟩ := hout (hc ▸ c) (ha ▸ a)
        exact ⟨p, d, hd ▸ h1, hk' ▸ h2, by rw [hk', ← htr, ← hrun]; exact h3⟩
      · rw [hk', ← htr, ← hrun]; exact hans
    cases e with
    | advance dt => exact same _ rfl rfl rfl rfl rfl
    | other => exact same _ rfl rfl rfl rfl rfl
    | request => exact same _ rfl rfl rfl rfl rfl
    | pingresp =>
      by_cases hc : s.connected = true
      · have hs : step s .pingresp = ({ s with awaitPingresp := false }, some .resp) := by simp [step, hc]
        have htr : trace s (.pingresp :: es) = (s.now, .resp) :: trace { s with awaitPingresp := false } es := by
          simp [trace, hs]
        rw [htr]
        have := ih { s with awaitPingresp := false } (by have := wf_step s .pingresp hwf; rw [hs] at this; exact this)
          (by intro _ a; simp at a)
          (by
            have hrun : run s (.pingresp :: es) = run { s with awaitPingresp := false } es := by simp [run, hs]
            rw [htr, hrun] at hans
            simpa [answeredWithin] using hans)
        simpa [hasLab] using this
      · have hs : step s .pingresp = (s, none) := by simp [step, hc]
        exact same s hs rfl rfl rfl rfl
    | connack =>
      by_cases hc : s.connected = true
      · have hs : step s .connack = (s, none) := by simp [step, hc]
        exact same s hs rfl rfl rfl rfl
      · have hc' : s.connected = false := by simpa using hc
        have hw := hwf hc'
        have htr : trace s (.connack :: es) = trace (step s .connack).1 es := by simp [trace, step, hc']
        have hrun : run s (.connack :: es) = run (step s .connack).1 es := by simp [run]
        rw [htr]
        apply ih _ (wf_step s .connack hwf)
        · intro _ a; simp [step, hc', hw.1] at a
        · rw [hk, ← htr, ← hrun]; exact hans
    | fail =>
      by_cases hc : s.connected = true
      · have htr : trace s (.fail :: es) = trace (clean s) es := by simp [trace, step, hc]
        have hrun : run s (.fail :: es) = run (clean s) es := by simp [run, step, hc]
        rw [htr]
        apply ih _ (by have := wf_step s .fail hwf; simpa [step, hc] using this)
        · intro c _; simp [clean] at c
        · have : (clean s).keepAlive = s.keepAlive := rfl
          rw [this, ← htr, ← hrun]; exact hans
      · have hs : step s .fail = (s, none) := by simp [step, hc]
        exact same s hs rfl rfl rfl rfl
    | fire =>
      by_cases hdue : due s = true
      · have hc : s.connected = true := by
          simp [due] at hdue; exact hdue.1.1
        by_cases ha : s.awaitPingresp = true
        · -- the error would need a deadline that has passed with the ping unanswered: excluded
          exfalso
          obtain ⟨p, d, h1, h2, h3⟩ := hout hc ha
          have hdn : d ≤ s.now := by
            have := hdue; simp [due, hc, h1] at this; exact this.2
          have hnow : s.now ≤ (run s (.fire :: es)).now := run_now_le _ s
          rcases h3 with h3 | h3
          · simp only [respWithin, List.any_eq_true] at h3
            obtain ⟨x, hx, hx2⟩ := h3
            have := trace_times_ge _ s x hx
            simp at hx2
            omega
          · omega
        · have ha' : s.awaitPingresp = false := by simpa using ha
          have hs : step s .fire =
              ({ s with deadline := some (s.now + s.keepAlive), awaitPingresp := true }, some .ping) := by
            simp [step, fire, hdue, ha']
          have htr : trace s (.fire :: es) = (s.now, .ping) ::
              trace { s with deadline := some (s.now + s.keepAlive), awaitPingresp := true } es := by
            simp [trace, hs]
          have hrun : run s (.fire :: es) =
              run { s with deadline := some (s.now + s.keepAlive), awaitPingresp := true } es := by
            simp [run, hs]
          rw [htr, hrun] at hans
          simp only [answeredWithin, Bool.and_eq_true, Bool.or_eq_true, decide_eq_true_eq] at hans
          rw [htr]
          have := ih { s with deadline := some (s.now + s.keepAlive), awaitPingresp := true }
            (by have := wf_step s .fire hwf; rw [hs] at this; exact this)
            (by intro _ _; exact ⟨s.now, s.now + s.keepAlive, rfl, Nat.le_refl _, hans.1⟩)
            hans.2
          simpa [hasLab] using this
      · have hs : step s .fire = (s, none) := by simp [step, fire, hdue]
        exact same s hs rfl rfl rfl rfl

/-! ### keep-alive zero -/

theorem step_lab_not_due (s : TState) (e : Ev) (l : Lab) (hnd : due s = false)
    (hl : (step s e).2 = some l) : l = .resp := by
  cases e with
  | advance dt => simp [step] at hl
  | pingresp =>
    by_cases hc : s.connected = true
    · simp [step, hc] at hl; exact hl.symm
    · simp [step, hc] at hl
  | other => simp [step] at hl
  | request => simp [step] at hl
  | fire => simp [step, fire, hnd] at hl
  | connack =>
    by_cases hc : s.connected = true
    · simp [step, hc] at hl
    · simp [step, hc] at hl
  | fail =>
    by_cases hc : s.connected = true
    · simp [step, hc] at hl
    · simp [step, hc] at hl

theorem zero_gen (evs : List Ev) : ∀ s : TState, s.keepAlive = 0 →
    trace s evs = (trace s evs).filter (fun x => x.2 == .resp) := by
  induction evs with
  | nil => intro s _; simp [trace]
  | cons e es ih =>
    intro s hk
    have hk' : (step s e).1.keepAlive = 0 := by rw [step_keepAlive]; exact hk
    have hnd : due s = false := by simp [due, armed, hk]
    have := ih _ hk'
    cases hl : (step s e).2 with
    | none => simp only [trace, hl]; exact this
    | some l =>
      have hr : l = .resp := step_lab_not_due s e l hnd hl
      subst hr
      simp only [trace, hl]
      rw [List.filter_cons_of_pos (by simp)]
      congr 1

end Client.Timer

namespace Client.Loop
open Client.LoopSpec

/-! ### connection timeout -/

theorem cstep_start (s : CState) (e : CEv) : (cstep s e).start = s.start ∧ (cstep s e).ct = s.ct := by
  cases e <;> simp [cstep] <;> split <;> simp

theorem connect_timeout_gen (evs : List CEv) : ∀ s : CState,
    (s.outcome = none → s.now ≤ s.start + s.ct) →
    (∀ a, s.outcome = some (.timedOut a) → a = s.start + s.ct) →
    CTimely s evs →
    ((crun s evs).outcome = none → (crun s evs).now ≤ s.start + s.ct) ∧
    (noComplete evs = true → (s.outcome = none ∨ s.outcome = some (.timedOut (s.start + s.ct))) →
      (crun s evs).outcome = none ∨ (crun s evs).outcome = some (.timedOut (s.start + s.ct))) ∧
    (∀ a, (crun s evs).outcome = some (.timedOut a) → a = s.start + s.ct) := by
  induction evs with
  | nil => intro s h1 h2 _; exact ⟨by simpa [crun] using h1, by intro _ h; simpa [crun] using h, by simpa [crun] using h2⟩
  | cons e es ih =>
    intro s h1 h2 ht
    have hsc := cstep_start s e
    cases e with
    | advance dt =>
      simp only [CTimely] at ht
      have := ih (cstep s (.advance dt)) (by simpa [cstep] using ht.1) (by simpa [cstep] using h2) ht.2
      simpa [crun, cstep, noComplete] using this
    | complete =>
      have ht' : CTimely (cstep s .complete) es := by simpa [CTimely] using ht
      by_cases hn : s.outcome = none
      · have := ih (cstep s .complete) (by simp [cstep, hn]) (by simp [cstep, hn]) ht'
        rw [hsc.1, hsc.2] at this
        exact ⟨this.1, by simp [noComplete], this.2.2⟩
      · have hs : cstep s .complete = s := by
          cases ho : s.outcome <;> simp_all [cstep]
        rw [hs] at ht'
        have := ih s h1 h2 ht'
        simp only [crun, hs]
        exact ⟨this.1, by simp [noComplete], this.2.2⟩
    | partialBytes =>
      have := ih s h1 h2 (by simpa [CTimely, cstep] using ht)
      simpa [crun, cstep, noComplete] using this
    | deadline =>
      have ht' : CTimely (cstep s .deadline) es := by simpa [CTimely] using ht
      by_cases hf : (s.outcome.isNone && decide (s.start + s.ct ≤ s.now)) = true
      · have hn : s.outcome = none := by
          cases ho : s.outcome <;> simp_all
        have hle : s.start + s.ct ≤ s.now := by simp [hn] at hf; exact hf
        have hnow : s.now = s.start + s.ct := Nat.le_antisymm (h1 hn) hle
        have hs : cstep s .deadline = { s with outcome := some (.timedOut s.now) } := by
          simp [cstep, hn, hle]
        rw [hs] at ht'
        have := ih { s with outcome := some (.timedOut s.now) } (by simp) (by simp [hnow]) ht'
        simp only [crun, hs]
        refine ⟨this.1, ?_, this.2.2⟩
        intro hnc _
        exact this.2.1 (by simpa [noComplete] using hnc) (Or.inr (by simp [hnow]))
      · have hs : cstep s .deadline = s := by simp [cstep, hf]
        rw [hs] at ht'
        have := ih s h1 h2 ht'
        simp only [crun, hs]
        exact ⟨this.1, fun hnc h => this.2.1 (by simpa [noComplete] using hnc) h, this.2.2⟩

end Client.Loop

namespace Client.Loop
open Client.LoopSpec

/-! ### the request branch and the ghost log `taken` -/

theorem loopClean_taken {σ} (ops : StateOps σ) (s : LState σ) : (loopClean ops s).taken = s.taken := rfl
theorem loopClean_net {σ} (ops : StateOps σ) (s : LState σ) : (loopClean ops s).net = none := rfl

@[simp] theorem popEvent_taken {σ} (s : LState σ) (pre : List Obs) : (popEvent s pre).1.taken = s.taken := by
  unfold popEvent; split <;> simp
@[simp] theorem popEvent_pending {σ} (s : LState σ) (pre : List Obs) : (popEvent s pre).1.pending = s.pending := by
  unfold popEvent; split <;> simp
@[simp] theorem popEvent_channel {σ} (s : LState σ) (pre : List Obs) : (popEvent s pre).1.channel = s.channel := by
  unfold popEvent; split <;> simp
@[simp] theorem popEvent_net {σ} (s : LState σ) (pre : List Obs) : (popEvent s pre).1.net = s.net := by
  unfold popEvent; split <;> simp
@[simp] theorem popEvent_st {σ} (s : LState σ) (pre : List Obs) : (popEvent s pre).1.st = s.st := by
  unfold popEvent; split <;> simp

/-- what one `poll()` can do to (`taken`, `pending`, connection) -/
inductive StepKind {σ} (ops : StateOps σ) (s s' : LState σ) : Prop where
  /-- nothing handed to the state machine; still connected ⇒ `pending` untouched -/
  | quiet (ht : s'.taken = s.taken) (hp : s'.net ≠ none → s'.pending = s.pending)
  /-- head of `pending` handed over -/
  | fromPending (q : Req) (ps : List Req) (hq : s.pending = q :: ps)
      (hr : isReplay q = true ∨ gateOpen ops s.st = true)
      (ht : s'.taken = s.taken ++ [(true, q)]) (hp : s'.net ≠ none → s'.pending = ps)
  /-- head of the channel handed over: only with `pending` empty and the flow-control gate open -/
  | fromChannel (q : Req) (cs : List Req) (hq : s.channel = q :: cs) (he : s.pending = [])
      (hg : gateOpen ops s.st = true)
      (ht : s'.taken = s.taken ++ [(false, q)]) (hp : s'.net ≠ none → s'.pending = [])

theorem poll_kind {σ} (ops : StateOps σ) (s : LState σ) (b : Branch) (r : LState σ × List Obs)
    (h : pollConnected ops s b = some r) : StepKind ops s r.1 := by
  unfold pollConnected at h
  split at h
  · cases h
  · split at h
    · cases h; exact .quiet rfl (fun _ => rfl)
    · cases b with
      | net =>
        simp only at h
        repeat' split at h
        all_goals first
          | (cases h; done)
          | (cases h; exact .quiet (by simp [failWith, loopClean]) (by simp [failWith, loopClean]))
      | timer =>
        simp only at h
        repeat' split at h
        all_goals first
          | (cases h; done)
          | (cases h; exact .quiet (by simp [failWith, loopClean]) (by simp [failWith, loopClean]))
      | req =>
        simp only at h
        split at h
        · cases h
        · rename_i hsel
          split at h
          · rename_i q ps hp
            have hr : isReplay q = true ∨ gateOpen ops s.st = true := by
              simp [selectEnabled, hp] at hsel
              cases hq : isReplay q
              · exact Or.inr (hsel hq)
              · exact Or.inl rfl
            repeat' split at h
            all_goals first
              | (cases h; done)
              | (cases h; exact .fromPending q ps hp hr (by simp [failWith, loopClean]) (by simp [failWith, loopClean]))
          · rename_i hp
            have hg : gateOpen ops s.st = true := by
              simp [selectEnabled, hp] at hsel; exact hsel
            split at h
            · cases h
            · rename_i q cs hc
              repeat' split at h
              all_goals first
                | (cases h; done)
                | (cases h; exact .fromChannel q cs hc hp hg (by simp [failWith, loopClean]) (by simp [failWith, loopClean, hp]))

theorem popEvent_no_error {σ} (s : LState σ) (l : List Pkt) (e : Err) :
    Obs.error e ∉ (popEvent s (l.map Obs.wire)).2 := by
  unfold popEvent; split <;> simp

theorem poll_error_clean {σ} (ops : StateOps σ) (s : LState σ) (b : Branch) (r : LState σ × List Obs)
    (h : pollConnected ops s b = some r) (e : Err) (he : Obs.error e ∈ r.2) :
    r.1.net = none ∧ r.1.channel = [] ∧ r.1.timer.connected = false := by
  unfold pollConnected at h
  split at h
  · cases h
  · split at h
    · cases h; simp at he
    · cases b with
      | net =>
        simp only at h
        repeat' split at h
        all_goals first
          | (cases h; done)
          | (cases h; exact absurd he (popEvent_no_error _ _ _))
          | (cases h; simp [failWith, loopClean, Client.Timer.clean])
      | timer =>
        simp only at h
        repeat' split at h
        all_goals first
          | (cases h; done)
          | (cases h; exact absurd he (popEvent_no_error _ [Pkt.pingreq] _))
          | (cases h; simp [failWith, loopClean, Client.Timer.clean])
      | req =>
        simp only at h
        repeat' split at h
        all_goals first
          | (cases h; done)
          | (cases h; exact absurd he (popEvent_no_error _ _ _))
          | (cases h; simp [failWith, loopClean, Client.Timer.clean])

/-- invariant of a run of polls started with `pending = P`: `m` carried-over requests handed over
    so far, then `chans` from the channel, and none of the latter before the former are exhausted -/
structure Progress {σ} (t0 : List (Bool × Req)) (P : List Req) (s : LState σ) : Prop where
  ex : ∃ m chans, s.taken = t0 ++ (P.take m).map (fun q => (true, q)) ++ chans.map (fun q => (false, q)) ∧
        (chans ≠ [] → P.length ≤ m) ∧ (s.net ≠ none → s.pending = P.drop m)

theorem progress_step {σ} (ops : StateOps σ) (t0 : List (Bool × Req)) (P : List Req) (s s' : LState σ)
    (hs : s.net ≠ none) (h : Progress t0 P s) (k : StepKind ops s s') : Progress t0 P s' := by
  obtain ⟨m, chans, h1, h2, h3⟩ := h.ex
  have hpd := h3 hs
  cases k with
  | quiet ht hp =>
    exact ⟨m, chans, by rw [ht, h1], h2, fun hn => by rw [hp hn, hpd]⟩
  | fromPending q ps hq _ ht hp =>
    have hd : P.drop m = q :: ps := by rw [← hpd, hq]
    have hm : m < P.length := by
      refine Nat.lt_of_not_le (fun hc => ?_)
      have : P.drop m = [] := List.drop_eq_nil_of_le hc
      rw [this] at hd; cases hd
    have hch : chans = [] := by
      cases chans with
      | nil => rfl
      | cons c cs => have := h2 (by simp); omega
    subst hch
    have htake : P.take (m + 1) = P.take m ++ [q] := by
      have := List.take_append_drop m P
      have h' : P.take (m + 1) = P.take m ++ (P.drop m).take 1 := by
        rw [← List.take_add]
      rw [h', hd]; rfl
    refine ⟨m + 1, [], ?_, by simp, ?_⟩
    · rw [ht, h1, htake]; simp
    · intro hn; rw [hp hn]
      have : P.drop (m + 1) = (P.drop m).drop 1 := by rw [List.drop_drop]
      rw [this, hd]; rfl
  | fromChannel q cs hq he hg ht hp =>
    have hd : P.drop m = [] := by rw [← hpd, he]
    have hm : P.length ≤ m := by
      have := List.drop_eq_nil_iff.mp hd; exact this
    refine ⟨m, chans ++ [q], ?_, fun _ => hm, ?_⟩
    · rw [ht, h1]; simp
    · intro hn; rw [hp hn, hd]

theorem polls_progress {σ} (ops : StateOps σ) (t0 : List (Bool × Req)) (P : List Req) (bs : List Branch) :
    ∀ s : LState σ, Progress t0 P s → Progress t0 P (polls ops s bs) := by
  induction bs with
  | nil => intro s h; exact h
  | cons b bs ih =>
    intro s h
    simp only [polls]
    cases hp : pollConnected ops s b with
    | none => exact ih s h
    | some r =>
      have hs : s.net ≠ none := by
        intro hn; unfold pollConnected at hp; rw [hn] at hp; cases hp
      exact ih r.1 (progress_step ops t0 P s r.1 hs h (poll_kind ops s b r hp))

theorem progress_init {σ} (s : LState σ) : Progress s.taken s.pending s :=
  ⟨0, [], by simp, by simp, fun _ => by simp⟩

/-! ### read batches -/

theorem readbLoop_spec {σ} (ops : StateOps σ) (n : Net) (hc : n.peerClosed = false) :
    ∀ (j fuel count : Nat) (st : σ) (rx : List Pkt) (evs : List Event) (outs : List Pkt) (f : Fold σ),
    count + j = maxReadbCount → 1 ≤ j → j ≤ fuel →
    foldIn ops st (rx.take j) = some f →
    (readbLoop ops n fuel count st rx evs outs).err = none ∧
    (readbLoop ops n fuel count st rx evs outs).rest = rx.drop j ∧
    (readbLoop ops n fuel count st rx evs outs).st = f.st ∧
    (readbLoop ops n fuel count st rx evs outs).events = evs ++ f.events ∧
    (readbLoop ops n fuel count st rx evs outs).replies = outs ++ f.replies := by
  intro j
  induction j with
  | zero => intro fuel count st rx evs outs f _ h1; omega
  | succ j ih =>
    intro fuel count st rx evs outs f hcj h1 hf hfold
    cases fuel with
    | zero => omega
    | succ fuel =>
      cases rx with
      | nil =>
        simp [foldIn] at hfold; subst hfold
        simp [readbLoop, hc]
      | cons p rest =>
        simp only [List.take_succ_cons, foldIn] at hfold
        split at hfold
        · cases hfold
        · rename_i herr
          split at hfold
          · cases hfold
          · rename_i f' hf'
            cases hfold
            simp only [readbLoop, herr]
            by_cases hlim : count + 1 ≥ maxReadbCount
            · -- the counter stops the loop: this was the last slot (`j = 0`)
              have hj : j = 0 := by omega
              subst hj
              simp [foldIn] at hf'; subst hf'
              simp [hlim]
            · simp only [hlim, if_false]
              have := ih fuel (count + 1) (ops.handleIncoming st p).st rest
                (evs ++ (ops.handleIncoming st p).events) (outs ++ (ops.handleIncoming st p).out.toList) f'
                (by omega) (by omega) (by omega) hf'
              simp only [List.drop_succ_cons]
              refine ⟨this.1, this.2.1, this.2.2.1, ?_, ?_⟩
              · rw [this.2.2.2.1]; simp
              · rw [this.2.2.2.2]; simp

/-- `readb` never consumes more than `max_readb_count - count` frames -/
theorem readbLoop_rest {σ} (ops : StateOps σ) (n : Net) :
    ∀ (fuel count : Nat) (st : σ) (rx : List Pkt) (evs : List Event) (outs : List Pkt),
    count < maxReadbCount →
    rx.length ≤ (readbLoop ops n fuel count st rx evs outs).rest.length + (maxReadbCount - count) := by
  intro fuel
  induction fuel with
  | zero => intro count st rx evs outs _; simp [readbLoop]
  | succ fuel ih =>
    intro count st rx evs outs h1
    cases rx with
    | nil => simp [readbLoop]
    | cons p rest =>
      simp only [readbLoop]
      split
      · simp only [List.length_cons]; omega
      · by_cases hlim : count + 1 ≥ maxReadbCount
        · simp only [hlim, if_true, List.length_cons]; omega
        · simp only [hlim, if_false]
          have := ih (count + 1) (ops.handleIncoming st p).st rest
            (evs ++ (ops.handleIncoming st p).events) (outs ++ (ops.handleIncoming st p).out.toList) (by omega)
          simp only [List.length_cons]; omega

end Client.Loop
