/-
Runs of the loop with the ghost threaded through (`Along`), the bundles of invariants and their
preservation along every run that avoids the corresponding triggers.
-/
import Proofs.Lemmas.ClientGhost1
namespace Client
open Client.Spec

/-- `P l g o l' g'` holds at every operation of the run that reaches the state machine
    (`l`,`g` before, `o` the observation, `l'`,`g'` after); the ghost is threaded as `runChecks` does -/
def Along (P : LState → Ghost → Obs → LState → Ghost → Prop) : LState → Ghost → List LOp → Prop
  | _, _, [] => True
  | l, g, op :: ops =>
    match (lstep l op).2 with
    | none => Along P (lstep l op).1 g ops
    | some o => P l g o (lstep l op).1 (g.step o) ∧ Along P (lstep l op).1 (g.step o) ops

/-- a monitor passes on the trace of a run iff its check passes at every step -/
theorem runChecks_ok (c : Check) (l : LState) (g : Ghost) (d : Diag) (n : Nat) (ops : List LOp)
    (h : Along (fun _ g o _ g' => ∀ d d', c g d o g' d' = none) l g ops) : runChecks c g d n (ltrace l ops) = .ok := by
  induction ops generalizing l g d n with
  | nil => rfl
  | cons op ops ih =>
    simp only [Along] at h
    simp only [ltrace]
    cases ho : (lstep l op).2 with
    | none => rw [ho] at h; exact ih _ _ _ _ h
    | some o =>
      rw [ho] at h
      simp only [runChecks, h.1]
      exact ih _ _ _ _ h.2

theorem Along.mono {P Q : LState → Ghost → Obs → LState → Ghost → Prop} {l : LState} {g : Ghost} {ops : List LOp}
    (h : Along P l g ops) (hpq : ∀ l g o l' g', P l g o l' g' → Q l g o l' g') : Along Q l g ops := by
  induction ops generalizing l g with
  | nil => trivial
  | cons op ops ih =>
    simp only [Along] at h ⊢
    cases ho : (lstep l op).2 with
    | none => rw [ho] at h; exact ih h
    | some o => rw [ho] at h; exact ⟨hpq _ _ _ _ _ h.1, ih h.2⟩

theorem Along.and {P Q : LState → Ghost → Obs → LState → Ghost → Prop} {l : LState} {g : Ghost} {ops : List LOp}
    (h1 : Along P l g ops) (h2 : Along Q l g ops) : Along (fun l g o l' g' => P l g o l' g' ∧ Q l g o l' g') l g ops := by
  induction ops generalizing l g with
  | nil => trivial
  | cons op ops ih =>
    simp only [Along] at h1 h2 ⊢
    cases ho : (lstep l op).2 with
    | none => rw [ho] at h1 h2; exact ih h1 h2
    | some o => rw [ho] at h1 h2; exact ⟨⟨h1.1, h2.1⟩, ih h1.2 h2.2⟩

/-- generic induction: an invariant `I` of (state, ghost), preserved by every step under the
    side condition `ok l op`, holds before and after every observed step -/
theorem along_of_inv (I : LState → Ghost → Prop) (ok : LState → LOp → Prop)
    (step : ∀ l g op, I l g → ok l op →
      match (lstep l op).2 with
      | none => I (lstep l op).1 g
      | some o => I (lstep l op).1 (g.step o))
    (l : LState) (g : Ghost) (ops : List LOp) (hi : I l g)
    (hok : Avoids (fun l op => ¬ ok l op) l ops) :
    Along (fun l g _ l' g' => I l g ∧ I l' g') l g ops := by
  induction ops generalizing l g with
  | nil => trivial
  | cons op ops ih =>
    simp only [Avoids] at hok
    have hst := step l g op hi (Classical.not_not.mp hok.1)
    simp only [Along]
    cases ho : (lstep l op).2 with
    | none => rw [ho] at hst; exact ih _ _ hst hok.2
    | some o => rw [ho] at hst; exact ⟨⟨hi, hst⟩, ih _ _ hst hok.2⟩

theorem Spec.Avoids.or_left {t1 t2 : LState → LOp → Prop} {l : LState} {ops : List LOp}
    (h : Avoids (fun l op => t1 l op ∨ t2 l op) l ops) : Avoids t1 l ops := by
  induction ops generalizing l with
  | nil => trivial
  | cons op ops ih => exact ⟨fun h' => h.1 (Or.inl h'), ih h.2⟩

theorem Spec.Avoids.or_right {t1 t2 : LState → LOp → Prop} {l : LState} {ops : List LOp}
    (h : Avoids (fun l op => t1 l op ∨ t2 l op) l ops) : Avoids t2 l ops := by
  induction ops generalizing l with
  | nil => trivial
  | cons op ops ih => exact ⟨fun h' => h.1 (Or.inr h'), ih h.2⟩

theorem Spec.Avoids.mk_or {t1 t2 : LState → LOp → Prop} {l : LState} {ops : List LOp}
    (h1 : Avoids t1 l ops) (h2 : Avoids t2 l ops) : Avoids (fun l op => t1 l op ∨ t2 l op) l ops := by
  induction ops generalizing l with
  | nil => trivial
  | cons op ops ih =>
    exact ⟨fun h' => h'.elim h1.1 h2.1, ih h1.2 h2.2⟩

theorem Spec.Avoids.not_not {t : LState → LOp → Prop} {l : LState} {ops : List LOp} (h : Avoids t l ops) :
    Avoids (fun l op => ¬ ¬ t l op) l ops := by
  induction ops generalizing l with
  | nil => trivial
  | cons op ops ih => exact ⟨fun h' => h' h.1, ih h.2⟩

theorem lstep_events (l : LState) (op : LOp) (h : l.st.events = []) : (lstep l op).1.st.events = [] := by
  unfold lstep
  cases hl : lop? l op with
  | none => exact h
  | some sop =>
    simp only
    unfold sstepSt
    cases sop with
    | out r => rfl
    | inc p => rfl
    | clean => simp only; split <;> first | exact h | rfl
    | drop => exact h
    | inflight => exact h

/-! ### bundles -/

theorem lstep_trans' (l : LState) (h0 : Inv0 l) (op : LOp) :
    LTrans l.st l.pending op (lstep l op).1.st (lstep l op).1.pending := by
  obtain ⟨s, pd⟩ := l
  exact lstep_trans h0 op

/-- state-only invariants -/
theorem Inv2.lstep {l : LState} (h0 : Inv0 l) (h : Inv2 l) (op : LOp) : Inv2 (lstep l op).1 := by
  have := lstep_trans' l h0 op
  obtain ⟨s, pd⟩ := l
  exact h.step h0 this

theorem Inv3.lstep {l : LState} (h0 : Inv0 l) (h2 : Inv2 l) (h : Inv3 l) (op : LOp) : Inv3 (lstep l op).1 := by
  have := lstep_trans' l h0 op
  obtain ⟨s, pd⟩ := l
  exact Inv3.step h0.sinv h2 h this

theorem Inv4.lstep {l : LState} (h0 : Inv0 l) (h : Inv4 l) (op : LOp) : Inv4 (lstep l op).1 := by
  have := lstep_trans' l h0 op
  obtain ⟨s, pd⟩ := l
  exact Inv4.step h this

/-- everything the properties need. Holds on every MQTT 3.1.1 run; MQTT 5 needs that no CONNACK
    lowers the limit under what is in use (#17, residual: an event-loop matter) -/
structure B1 (l : LState) (g : Ghost) : Prop where
  inv0 : Inv0 l
  g0 : GInv0 l g
  evs : l.st.events = []
  i4 : Inv4 l
  i2 : Inv2 l
  i3 : Inv3 l
  g1 : GInv1 l g

theorem B1.step (l : LState) (g : Ghost) (op : LOp) (h : B1 l g) (hn : ¬ unsafeConnack l op) :
    match (lstep l op).2 with
    | none => B1 (lstep l op).1 g
    | some o => B1 (lstep l op).1 (g.step o) := by
  have h1 := h.inv0.lstep op hn
  have h2 := h.g0.lstep h.inv0 op
  have h3 := lstep_events l op h.evs
  have h4 := h.i4.lstep h.inv0 op
  have h5 := h.i2.lstep h.inv0 op
  have h6 := Inv3.lstep h.inv0 h.i2 h.i3 op
  have h7 := h.g1.lstep h.inv0 h.i2 h.g0 op
  cases ho : (lstep l op).2 with
  | none => rw [ho] at h2 h7; exact ⟨h1, h2, h3, h4, h5, h6, h7⟩
  | some o => rw [ho] at h2 h7; exact ⟨h1, h2, h3, h4, h5, h6, h7⟩

theorem B1.new (ver : Version) (max : Nat) (m : Bool) (h1 : 1 ≤ max) (h2 : max ≤ u16Max) :
    B1 (LState.new ver max m) (Ghost.init ver max m) :=
  ⟨Inv0.new ver max m h1 h2, GInv0.new ver max m, rfl, Inv4.new ver max m, Inv2.new ver max m, Inv3.new ver max m,
    GInv1.new ver max m⟩

end Client
