/-
The C10 monitor predicates hold on every model step.
-/
import Proofs.Lemmas.ClientMonC07
namespace Client
open Client.Spec

theorem sstepObs_out (s : State) (r : Request) :
    (sstepObs s (.out r)).outcome = (handleOutgoing s r).2 ∧ (sstepObs s (.out r)).events = (handleOutgoing s r).1.events :=
  ⟨rfl, rfl⟩

theorem sstepObs_inc (s : State) (p : Incoming) :
    (sstepObs s (.inc p)).outcome = (handleIncoming s p).2 ∧ (sstepObs s (.inc p)).events = (handleIncoming s p).1.events :=
  ⟨rfl, rfl⟩

theorem lstep_obs {l : LState} {op : LOp} {o : Obs} (ho : (lstep l op).2 = some o) :
    ∃ sop, lop? l op = some sop ∧ o = sstepObs l.st sop := by
  unfold lstep at ho
  cases hl : lop? l op with
  | none => rw [hl] at ho; simp at ho
  | some sop => rw [hl] at ho; simp only [Option.some.injEq] at ho; exact ⟨sop, rfl, ho.symm⟩

theorem sstepObs_other_events (s : State) (sop : SOp) (h1 : ∀ r, sop ≠ .out r) (h2 : ∀ p, sop ≠ .inc p) :
    (sstepObs s sop).events = [] ∧ (sstepObs s sop).outcome ≠ .ok (some .pingreq) ∧
    ∀ pkt, (sstepObs s sop).outcome ≠ .ok (some pkt) := by
  cases sop with
  | out r => exact absurd rfl (h1 r)
  | inc p => exact absurd rfl (h2 p)
  | clean => simp only [sstepObs]; split <;> simp [mkObs]
  | drop => simp [sstepObs, mkObs]
  | inflight => simp [sstepObs, mkObs]

/-- C10 clause 5 (no panic): no incoming packet makes the state machine panic -/
theorem C10_noPanic_ok {l : LState} (h0 : Inv0 l) (op : LOp) (o : Obs) (ho : (lstep l op).2 = some o) :
    C10.noPanic o = true := by
  obtain ⟨sop, _, rfl⟩ := lstep_obs ho
  unfold C10.noPanic
  rw [sstepObs_op]
  cases sop with
  | inc p =>
    simp only [(sstepObs_inc l.st p).1]
    have := handleIncoming_noPanic h0.sinv p
    cases hh : (handleIncoming l.st p).2 <;> simp_all
  | out r => rfl
  | clean => rfl
  | drop => rfl
  | inflight => rfl

/-- C10 clause 1: the received packet is surfaced exactly once and first -/
theorem C10_order_ok {l : LState} (he : l.st.events = []) (op : LOp) (o : Obs) (ho : (lstep l op).2 = some o) :
    C10.order o = true := by
  obtain ⟨sop, _, rfl⟩ := lstep_obs ho
  unfold C10.order
  rw [sstepObs_op]
  cases sop with
  | inc p =>
    obtain ⟨outs, h1, h2⟩ := shapeW_handleIncoming l.st p
    rw [he, List.nil_append] at h1
    simp only [(sstepObs_inc l.st p).1, (sstepObs_inc l.st p).2, h1]
    cases (handleIncoming l.st p).2 with
    | panic => rfl
    | ok x => simp only [beq_self_eq_true, Bool.true_and, List.all_eq_true]; intro e hm; simp [h2 e hm]
    | err x => simp only [beq_self_eq_true, Bool.true_and, List.all_eq_true]; intro e hm; simp [h2 e hm]
  | out r =>
    obtain ⟨outs, h1, h2, _⟩ := shape_handleOutgoing l.st r
    rw [he, List.nil_append] at h1
    simp only [(sstepObs_out l.st r).1, (sstepObs_out l.st r).2, h1]
    cases (handleOutgoing l.st r).2 with
    | panic => rfl
    | ok x => simp only [List.all_eq_true]; intro e hm; simp [h2 e hm]
    | err x => simp only [List.all_eq_true]; intro e hm; simp [h2 e hm]
  | clean =>
    have := (sstepObs_other_events l.st .clean (by simp) (by simp)).1
    rw [this]; cases (sstepObs l.st .clean).outcome <;> rfl
  | drop =>
    have := (sstepObs_other_events l.st .drop (by simp) (by simp)).1
    rw [this]; cases (sstepObs l.st .drop).outcome <;> rfl
  | inflight =>
    have := (sstepObs_other_events l.st .inflight (by simp) (by simp)).1
    rw [this]; cases (sstepObs l.st .inflight).outcome <;> rfl

theorem announced_cons_incoming (p : Incoming) (outs : List Event) :
    announced (.incoming p :: outs) = announced outs := by
  simp [announced, isIncomingEv]

/-- C10 clause 6: every written packet announced exactly once, nothing else announced -/
theorem C10_notify_ok {l : LState} (he : l.st.events = []) (op : LOp) (o : Obs) (ho : (lstep l op).2 = some o)
    (hn : ¬ unwrittenAnnouncement l op) : C10.notify o = true := by
  obtain ⟨sop, hl, rfl⟩ := lstep_obs ho
  unfold C10.notify
  cases sop with
  | inc p =>
    have hop : op = .inc p := by
      cases op <;> simp only [lop?] at hl
      · split at hl <;> simp at hl
      · split at hl <;> simp at hl
      · simp at hl
      · simpa using hl
      · simp at hl
      · simp at hl
    subst hop
    obtain ⟨outs, h1, h2, h3⟩ := shape_handleIncoming l.st p hn
    rw [he, List.nil_append] at h1
    simp only [(sstepObs_inc l.st p).1, (sstepObs_inc l.st p).2, h1, announced_cons_incoming]
    rcases h3 with h3 | h3
    · rw [h3]
    · cases hh : (handleIncoming l.st p).2 with
      | panic => rfl
      | ok x =>
        rw [hh] at h3
        cases x with
        | none => simp [h3, expectedAnn]
        | some pkt => simp [h3, expectedAnn]
      | err e => rw [hh] at h3; simp [h3, expectedAnn]
  | out r =>
    obtain ⟨outs, h1, h2, h3⟩ := shape_handleOutgoing l.st r
    rw [he, List.nil_append] at h1
    simp only [(sstepObs_out l.st r).1, (sstepObs_out l.st r).2, h1]
    rcases h3 with h3 | h3
    · rw [h3]
    · cases hh : (handleOutgoing l.st r).2 with
      | panic => rfl
      | ok x =>
        rw [hh] at h3
        cases x with
        | none => simp [h3, expectedAnn]
        | some pkt => simp [h3, expectedAnn]
      | err e => rw [hh] at h3; simp [h3, expectedAnn]
  | clean =>
    obtain ⟨e1, _, e3⟩ := sstepObs_other_events l.st .clean (by simp) (by simp)
    rw [e1]
    cases hh : (sstepObs l.st .clean).outcome with
    | panic => rfl
    | ok x =>
      cases x with
      | none => rfl
      | some pkt => exact absurd hh (e3 pkt)
    | err e => rfl
  | drop =>
    obtain ⟨e1, _, e3⟩ := sstepObs_other_events l.st .drop (by simp) (by simp)
    rw [e1]
    cases hh : (sstepObs l.st .drop).outcome with
    | panic => rfl
    | ok x =>
      cases x with
      | none => rfl
      | some pkt => exact absurd hh (e3 pkt)
    | err e => rfl
  | inflight =>
    obtain ⟨e1, _, e3⟩ := sstepObs_other_events l.st .inflight (by simp) (by simp)
    rw [e1]
    cases hh : (sstepObs l.st .inflight).outcome with
    | panic => rfl
    | ok x =>
      cases x with
      | none => rfl
      | some pkt => exact absurd hh (e3 pkt)
    | err e => rfl

/-! ### the answer table -/

theorem handlePublish_answer (s : State) (q : InPub) :
    (handlePublish s q).2 =
      if q.qos = 0 then .ok none
      else if s.manualAcks then .ok none
      else if q.qos = 1 then .ok (some (.puback q.pkid))
      else .ok (some (.pubrec q.pkid)) := by
  have hm := (publishAlias_fields s q).2.2.1
  unfold handlePublish
  simp only [outgoingPuback, outgoingPubrec]
  generalize publishAlias s q = s1 at hm
  by_cases h0 : q.qos = 0
  · simp [h0]
  · by_cases h1 : q.qos = 1
    · cases hma : s.manualAcks <;> simp [h1, hm, hma]
    · have hmem : (q.pkid ∈ s1.incomingPub) ∨ ¬ (q.pkid ∈ s1.incomingPub) := Classical.em _
      cases hma : s.manualAcks <;> rcases hmem with hc | hc <;> simp [h0, h1, hm, hma, hc]

theorem handlePubrel_answer (s : State) (i r : Nat) (hk : s.incomingPub.contains i = true) :
    (handlePubrel s i r).2 = if s.ver = .v5 ∧ r ≠ 0 then .ok none else .ok (some (.pubcomp i)) := by
  unfold handlePubrel
  rw [if_pos hk]
  simp only
  by_cases hv : (decide (s.ver = Version.v5) && (r != 0)) = true
  · rw [if_pos hv]
    have : s.ver = .v5 ∧ r ≠ 0 := by simpa using hv
    rw [if_pos this]
  · rw [if_neg hv]
    have : ¬ (s.ver = .v5 ∧ r ≠ 0) := by simpa using hv
    rw [if_neg this]

/-- C10 clauses 2–4: QoS 1 → PUBACK(id), QoS 2 → PUBREC(id), release of a known id → PUBCOMP(id),
    neither of the first two with manual acks -/
theorem C10_ack_ok {l : LState} {g : Ghost} (hg : GInv0 l g) (op : LOp) (o : Obs) (ho : (lstep l op).2 = some o) :
    C10.ack g o = true := by
  obtain ⟨sop, _, rfl⟩ := lstep_obs ho
  unfold C10.ack
  rw [sstepObs_op]
  cases sop with
  | inc p =>
    rw [(sstepObs_inc l.st p).1]
    cases p with
    | publish q =>
      have h1 : (handleIncoming l.st (.publish q)).2 = (handlePublish (l.st.pushEv (.incoming (.publish q))) q).2 := rfl
      rw [h1, handlePublish_answer]
      have hm : (l.st.pushEv (.incoming (.publish q))).manualAcks = g.manual := hg.man.symm
      rw [hm]
      by_cases h0 : q.qos = 0
      · simp [h0]
      · cases hma : g.manual
        · by_cases h1 : q.qos = 1 <;> simp [h0, h1]
        · simp [h0]
    | pubrel i r =>
      have h1 : (handleIncoming l.st (.pubrel i r)).2 = (handlePubrel (l.st.pushEv (.incoming (.pubrel i r))) i r).2 := rfl
      rw [h1]
      by_cases hk : g.inQos2.contains i = true
      · have hk' : (l.st.pushEv (.incoming (.pubrel i r))).incomingPub.contains i = true := by
          have : i ∈ l.st.incomingPub := (hg.q2 i).mp (by simpa using hk)
          simpa [State.pushEv] using this
        rw [handlePubrel_answer _ i r hk']
        have hv : (l.st.pushEv (.incoming (.pubrel i r))).ver = g.ver := hg.ver.symm
        rw [hv]
        by_cases hc : g.ver = .v5 ∧ r ≠ 0
        · simp [hk, hc.1, hc.2]
        · rw [if_neg hc]
          simp only [hk, if_true]
          have : (decide (g.ver = Version.v5) && (r != 0)) = false := by
            simp only [Bool.and_eq_false_iff, decide_eq_false_iff_not, bne_eq_false_iff_eq, beq_iff_eq]
            by_cases hv5 : g.ver = .v5
            · right; exact Classical.not_not.mp (fun h => hc ⟨hv5, h⟩)
            · left; exact hv5
          simp [this]
      · simp only [hk]
        cases (handlePubrel (l.st.pushEv (.incoming (.pubrel i r))) i r).2 <;> simp
    | _ => cases (handleIncoming l.st _).2 <;> rfl
  | out r => cases (sstepObs l.st (.out r)).outcome <;> rfl
  | clean => cases (sstepObs l.st .clean).outcome <;> rfl
  | drop => cases (sstepObs l.st .drop).outcome <;> rfl
  | inflight => cases (sstepObs l.st .inflight).outcome <;> rfl

theorem lop_inc {l : LState} {op : LOp} {p : Incoming} (hl : lop? l op = some (.inc p)) : op = .inc p := by
  cases op <;> simp only [lop?] at hl
  · split at hl <;> simp at hl
  · split at hl <;> simp at hl
  · simp at hl
  · simpa using hl
  · simp at hl
  · simp at hl

/-- MQTT 5: a release of a known id is answered whatever its reason — unless (#22) it carries a
    failure reason -/
theorem C10_relAnswered_ok {l : LState} {g : Ghost} (hg : GInv0 l g) (op : LOp) (o : Obs) (ho : (lstep l op).2 = some o)
    (hn : ¬ releaseWithFailureReason l op) : C10.relAnswered g o = true := by
  obtain ⟨sop, hl, rfl⟩ := lstep_obs ho
  unfold C10.relAnswered
  rw [sstepObs_op]
  cases sop with
  | inc p =>
    have hop := lop_inc hl
    subst hop
    cases p with
    | pubrel i r =>
      rw [(sstepObs_inc l.st _).1]
      have hcond : (g.inQos2.contains i && decide (g.ver = Version.v5) && (r != 0)) = false := by
        cases hc : (g.inQos2.contains i && decide (g.ver = Version.v5) && (r != 0)) with
        | false => rfl
        | true =>
          exfalso; apply hn
          simp only [Bool.and_eq_true, decide_eq_true_eq, bne_iff_ne, ne_eq] at hc
          refine ⟨by rw [← hg.ver]; exact hc.1.2, hc.2, ?_⟩
          have : i ∈ l.st.incomingPub := (hg.q2 i).mp (by simpa using hc.1.1)
          simpa using this
      have hcond' : (g.inQos2.contains i && decide (g.ver = Version.v5) && (r != 0)) = false := hcond
      cases (handleIncoming l.st (.pubrel i r)).2 <;> simp only [hcond'] <;> rfl
    | _ => cases (sstepObs l.st (.inc _)).outcome <;> rfl
  | out r => cases (sstepObs l.st (.out r)).outcome <;> rfl
  | clean => cases (sstepObs l.st .clean).outcome <;> rfl
  | drop => cases (sstepObs l.st .drop).outcome <;> rfl
  | inflight => cases (sstepObs l.st .inflight).outcome <;> rfl


/-! ### unsolicited acknowledgements -/

theorem count_pubRequests_rot (l : List (Option Pub)) (k : Nat) (x : Request) :
    (pubRequests (l.drop k ++ l.take k)).count x = (pubRequests l).count x := by
  have h : pubRequests l = pubRequests (l.take k) ++ pubRequests (l.drop k) := by
    unfold pubRequests; rw [← List.filterMap_append, List.take_append_drop]
  rw [h]
  unfold pubRequests
  rw [List.filterMap_append, List.count_append, List.count_append, Nat.add_comm]

theorem count_cleanRequests (s s' : State) (e1 : s'.outgoingPub = s.outgoingPub) (e2 : s'.outgoingRel = s.outgoingRel)
    (ev : s'.ver = s.ver) (x : Request) : (cleanRequests s').count x = (cleanRequests s).count x := by
  unfold cleanRequests cleanPubs relOnes
  rw [ev, e1, e2]
  cases s.ver with
  | v4 => simp only [List.count_append, count_pubRequests_rot]
  | v5 => rfl

theorem sameMultiset_clean (s s' : State) (e1 : s'.outgoingPub = s.outgoingPub) (e2 : s'.outgoingRel = s.outgoingRel)
    (ev : s'.ver = s.ver) : sameMultiset (cleanRequests s') (cleanRequests s) = true := by
  unfold sameMultiset
  simp only [Bool.and_eq_true, beq_iff_eq, List.all_eq_true]
  refine ⟨by rw [length_cleanRequests, length_cleanRequests, e1, e2], ?_⟩
  intro x _
  exact count_cleanRequests s s' e1 e2 ev x

theorem handlePubcompV4_unsol (s : State) (i : Nat) (h : relContains s i = false) :
    handlePubcompV4 s i = (s, .err (.unsolicited i)) := by
  unfold handlePubcompV4
  rw [if_neg (by rw [h]; simp)]

theorem slot_empty_of_lookup {U : List (Nat × Nat)} {s : State} (h : UnackedOK U s) (i : Nat)
    (hn : (alookup U i).isNone = true) : s.outgoingPub[i]? = none ∨ s.outgoingPub[i]? = some none := by
  have h1 : alookup U i = none := by simpa using hn
  rw [h.look i] at h1
  unfold slotTag at h1
  cases hs : s.outgoingPub[i]? with
  | none => exact Or.inl rfl
  | some v =>
    cases v with
    | none => exact Or.inr rfl
    | some x => rw [hs] at h1; simp at h1

/-- C10 clause 5: an acknowledgement the wire never solicited is reported as `Unsolicited` and the
    observable bookkeeping stays what it was — except (#13, v5) a PUBCOMP on the id of the parked publish -/
theorem C10_unsolicited_ok {l : LState} {g : Ghost} (h : B1 l g) (op : LOp) (o : Obs) (ho : (lstep l op).2 = some o)
    (hn : ¬ (l.st.ver = .v5 ∧ pubcompOnCollision l op)) :
    C10.unsolicitedErr g o = true ∧ C10.unsolicitedKeeps g o = true := by
  obtain ⟨sop, hl, rfl⟩ := lstep_obs ho
  obtain ⟨s, pd⟩ := l
  have hU := h.g1.unacked
  have hg := h.b0.g0
  simp only at hU hg hn
  unfold C10.unsolicitedErr C10.unsolicitedKeeps
  rw [sstepObs_op]
  have key : ∀ (i : Nat) (s' : State), sop = sop → (sstepObs s sop).outcome = .err (.unsolicited i) →
      sstepSt s sop = drainEvents s' → s'.outgoingPub = s.outgoingPub → s'.outgoingRel = s.outgoingRel →
      s'.inflight = s.inflight → s'.collision = s.collision → s'.ver = s.ver →
      ((match (sstepObs s sop).outcome with
        | .panic => true
        | _ => (sstepObs s sop).outcome == .err (.unsolicited i)) = true) ∧
      ((match (sstepObs s sop).outcome with
        | .panic => true
        | _ => (sstepObs s sop).inf == g.pInf && (sstepObs s sop).col == g.pCol &&
               sameMultiset (sstepObs s sop).view g.pView) = true) := by
    intro i s' _ hout hst e1 e2 e3 e4 ev
    obtain ⟨v1, v2, v3⟩ := sstepObs_view s sop
    constructor
    · rw [hout]; simp
    · rw [hout]
      simp only [Bool.and_eq_true, beq_iff_eq]
      rw [v1, v2, v3, hst, hg.inf, hg.col, hg.view]
      refine ⟨⟨by simp [drainEvents, e3], by simp [drainEvents, e4]⟩, ?_⟩
      exact sameMultiset_clean s (drainEvents s') (by simp [drainEvents, e1]) (by simp [drainEvents, e2]) (by simp [drainEvents, ev])
  cases sop with
  | inc p =>
    have hs0 := h.b0.inv0.sinv.pushEv (.incoming p)
    simp only at hs0
    cases p with
    | puback i r =>
      simp only [unsolicitedAck]
      by_cases hno : (alookup g.unacked i).isNone = true
      · simp only [hno, if_true]
        have hslot := slot_empty_of_lookup hU i hno
        have he := handlePuback_eff hs0 i r
        have hout : (sstepObs s (.inc (.puback i r))).outcome = (handlePuback (s.pushEv (.incoming (.puback i r))) i r).2 := rfl
        have hst : sstepSt s (.inc (.puback i r)) = drainEvents (handlePuback (s.pushEv (.incoming (.puback i r))) i r).1 := rfl
        have hver : (handlePuback (s.pushEv (.incoming (.puback i r))) i r).1.ver = s.ver := (incoming_frame s (.puback i r)).2.1
        generalize handlePuback (s.pushEv (.incoming (.puback i r))) i r = res at he hout hst hver
        have hslot0 : (s.pushEv (.incoming (.puback i r))).outgoingPub[i]? = none ∨
            (s.pushEv (.incoming (.puback i r))).outgoingPub[i]? = some none := hslot
        cases he with
        | oob s' h1 hc =>
          obtain ⟨e1, e2, e3, e4, e5⟩ := core_eqs hc
          exact key i s' rfl hout hst e1 e2 e3 e4 hver
        | empty s' h1 hc =>
          exact key i s' rfl hout hst (congrArg Core.pub hc) (congrArg Core.rel hc) (congrArg Core.inf hc)
            (congrArg Core.col hc) hver
        | freed s' x h1 _ _ => rcases hslot0 with h' | h' <;> rw [h'] at h1 <;> simp at h1
        | released s' x c h1 _ _ _ _ => rcases hslot0 with h' | h' <;> rw [h'] at h1 <;> simp at h1
      · simp only [hno]
        cases (sstepObs s (.inc (.puback i r))).outcome <;> simp
    | pubrec i r =>
      simp only [unsolicitedAck]
      by_cases hno : (alookup g.unacked i).isNone = true
      · simp only [hno, if_true]
        have hslot := slot_empty_of_lookup hU i hno
        have he := handlePubrec_eff hs0 i r
        have hout : (sstepObs s (.inc (.pubrec i r))).outcome = (handlePubrec (s.pushEv (.incoming (.pubrec i r))) i r).2 := rfl
        have hst : sstepSt s (.inc (.pubrec i r)) = drainEvents (handlePubrec (s.pushEv (.incoming (.pubrec i r))) i r).1 := rfl
        have hver : (handlePubrec (s.pushEv (.incoming (.pubrec i r))) i r).1.ver = s.ver := (incoming_frame s (.pubrec i r)).2.1
        generalize handlePubrec (s.pushEv (.incoming (.pubrec i r))) i r = res at he hout hst hver
        have hslot0 : (s.pushEv (.incoming (.pubrec i r))).outgoingPub[i]? = none ∨
            (s.pushEv (.incoming (.pubrec i r))).outgoingPub[i]? = some none := hslot
        cases he with
        | unsol s' h1 hc =>
          obtain ⟨e1, e2, e3, e4, e5⟩ := core_eqs hc
          exact key i s' rfl hout hst e1 e2 e3 e4 hver
        | failed s' x h1 _ _ => rcases hslot0 with h' | h' <;> rw [h'] at h1 <;> simp at h1
        | moved s' x h1 _ _ _ => rcases hslot0 with h' | h' <;> rw [h'] at h1 <;> simp at h1
      · simp only [hno]
        cases (sstepObs s (.inc (.pubrec i r))).outcome <;> simp
    | pubcomp i r =>
      simp only [unsolicitedAck]
      by_cases hin : g.rels.contains i = true
      · simp only [hin, if_true]
        cases (sstepObs s (.inc (.pubcomp i r))).outcome <;> simp
      · simp only [hin]
        have hrel : relContains s i = false := by
          cases hc : relContains s i with
          | false => rfl
          | true => exact absurd (by simpa using (hg.rels i).mpr hc) hin
        have hop := lop_inc hl
        subst hop
        have hout : (sstepObs s (.inc (.pubcomp i r))).outcome = (handlePubcomp (s.pushEv (.incoming (.pubcomp i r))) i r).2 := rfl
        have hst : sstepSt s (.inc (.pubcomp i r)) = drainEvents (handlePubcomp (s.pushEv (.incoming (.pubcomp i r))) i r).1 := rfl
        cases hv : s.ver with
        | v4 =>
          have : handlePubcomp (s.pushEv (.incoming (.pubcomp i r))) i r = (s.pushEv (.incoming (.pubcomp i r)), .err (.unsolicited i)) := by
            unfold handlePubcomp
            have : (s.pushEv (.incoming (.pubcomp i r))).ver = .v4 := hv
            rw [this]
            exact handlePubcompV4_unsol _ i hrel
          rw [this] at hout hst
          exact key i _ rfl hout hst rfl rfl rfl rfl rfl
        | v5 =>
          have hnc : ∀ c, (s.pushEv (.incoming (.pubcomp i r))).collision = some c → c.pkid ≠ i := by
            intro c hc hci
            exact hn ⟨hv, c, hc, hci⟩
          have he := handlePubcomp_eff hs0 i r hnc
          have hver : (handlePubcomp (s.pushEv (.incoming (.pubcomp i r))) i r).1.ver = s.ver := (incoming_frame s (.pubcomp i r)).2.1
          generalize handlePubcomp (s.pushEv (.incoming (.pubcomp i r))) i r = res at he hout hst hver
          cases he with
          | unsol s' h1 hc =>
            obtain ⟨e1, e2, e3, e4, e5⟩ := core_eqs hc
            exact key i s' rfl hout hst e1 e2 e3 e4 hver
          | done s' h1 dec hdec hc =>
            have : relContains (s.pushEv (.incoming (.pubcomp i r))) i = relContains s i := rfl
            rw [this, hrel] at h1; simp at h1
    | _ =>
      simp only [unsolicitedAck]
      cases (sstepObs s (.inc _)).outcome <;> simp
  | out r => simp only [unsolicitedAck]; cases (sstepObs s (.out r)).outcome <;> simp
  | clean => simp only [unsolicitedAck]; cases (sstepObs s .clean).outcome <;> simp
  | drop => simp only [unsolicitedAck]; cases (sstepObs s .drop).outcome <;> simp
  | inflight => simp only [unsolicitedAck]; cases (sstepObs s .inflight).outcome <;> simp

end Client
