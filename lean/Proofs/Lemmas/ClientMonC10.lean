/-
The C10 monitor predicates hold on every model step.
-/
import Proofs.Lemmas.ClientMonC07
namespace Client
open Client.Spec

theorem sstepObs_out (s : State) (r : Request) :
    (sstepObs s (.out r)).outcome = (handleOutgoing s r).2 ∧ (sstepObs s (.out r)).events = (handleOutgoing s r).1.events :=
  ⟨rfl, rfl⟩

theorem sstepObs_inc (s : State) (p : Incoming) :
    (sstepObs s (.inc p)).outcome = (handleIncoming s p).2 ∧ (sstepObs s (.inc p)).events = (handleIncoming s p).1.events :=
  ⟨rfl, rfl⟩

theorem lstep_obs {l : LState} {op : LOp} {o : Obs} (ho : (lstep l op).2 = some o) :
    ∃ sop, lop? l op = some sop ∧ o = sstepObs l.st sop := by
  unfold lstep at ho
  cases hl : lop? l op with
  | none => rw [hl] at ho; simp at ho
  | some sop => rw [hl] at ho; simp only [Option.some.injEq] at ho; exact ⟨sop, rfl, ho.symm⟩

theorem sstepObs_other_events (s : State) (sop : SOp) (h1 : ∀ r, sop ≠ .out r) (h2 : ∀ p, sop ≠ .inc p) :
    (sstepObs s sop).events = [] ∧ (sstepObs s sop).outcome ≠ .ok (some .pingreq) ∧
    ∀ pkt, (sstepObs s sop).outcome ≠ .ok (some pkt) := by
  cases sop with
  | out r => exact absurd rfl (h1 r)
  | inc p => exact absurd rfl (h2 p)
  | clean => simp only [sstepObs]; split <;> simp [mkObs]
  | drop => simp [sstepObs, mkObs]
  | inflight => simp [sstepObs, mkObs]

/-- C10 clause 5 (no panic): no incoming packet makes the state machine panic -/
theorem C10_noPanic_ok {l : LState} (h0 : Inv0 l) (op : LOp) (o : Obs) (ho : (lstep l op).2 = some o) :
    C10.noPanic o = true := by
  obtain ⟨sop, _, rfl⟩ := lstep_obs ho
  unfold C10.noPanic
  rw [sstepObs_op]
  cases sop with
  | inc p =>
    simp only [(sstepObs_inc l.st p).1]
    have := handleIncoming_noPanic h0.sinv p
    cases hh : (handleIncoming l.st p).2 <;> simp_all
  | out r => rfl
  | clean => rfl
  | drop => rfl
  | inflight => rfl

/-- C10 clause 1: the received packet is surfaced exactly once and first -/
theorem C10_order_ok {l : LState} (he : l.st.events = []) (op : LOp) (o : Obs) (ho : (lstep l op).2 = some o) :
    C10.order o = true := by
  obtain ⟨sop, _, rfl⟩ := lstep_obs ho
  unfold C10.order
  rw [sstepObs_op]
  cases sop with
  | inc p =>
    obtain ⟨outs, h1, h2, _⟩ := shape_handleIncoming l.st p
    rw [he, List.nil_append] at h1
    simp only [(sstepObs_inc l.st p).1, (sstepObs_inc l.st p).2, h1]
    cases (handleIncoming l.st p).2 with
    | panic => rfl
    | ok x => simp only [beq_self_eq_true, Bool.true_and, List.all_eq_true]; intro e hm; simp [h2 e hm]
    | err x => simp only [beq_self_eq_true, Bool.true_and, List.all_eq_true]; intro e hm; simp [h2 e hm]
  | out r =>
    obtain ⟨outs, h1, h2, _⟩ := shape_handleOutgoing l.st r
    rw [he, List.nil_append] at h1
    simp only [(sstepObs_out l.st r).1, (sstepObs_out l.st r).2, h1]
    cases (handleOutgoing l.st r).2 with
    | panic => rfl
    | ok x => simp only [List.all_eq_true]; intro e hm; simp [h2 e hm]
    | err x => simp only [List.all_eq_true]; intro e hm; simp [h2 e hm]
  | clean =>
    have := (sstepObs_other_events l.st .clean (by simp) (by simp)).1
    rw [this]; cases (sstepObs l.st .clean).outcome <;> rfl
  | drop =>
    have := (sstepObs_other_events l.st .drop (by simp) (by simp)).1
    rw [this]; cases (sstepObs l.st .drop).outcome <;> rfl
  | inflight =>
    have := (sstepObs_other_events l.st .inflight (by simp) (by simp)).1
    rw [this]; cases (sstepObs l.st .inflight).outcome <;> rfl

theorem announced_cons_incoming (p : Incoming) (outs : List Event) :
    announced (.incoming p :: outs) = announced outs := by
  simp [announced, isIncomingEv]

/-- C10 clause 6: every written packet announced exactly once, nothing else announced -/
theorem C10_notify_ok {l : LState} (he : l.st.events = []) (op : LOp) (o : Obs) (ho : (lstep l op).2 = some o) :
    C10.notify o = true := by
  obtain ⟨sop, hl, rfl⟩ := lstep_obs ho
  unfold C10.notify
  cases sop with
  | inc p =>
    obtain ⟨outs, h1, h2, h3⟩ := shape_handleIncoming l.st p
    rw [he, List.nil_append] at h1
    simp only [(sstepObs_inc l.st p).1, (sstepObs_inc l.st p).2, h1, announced_cons_incoming]
    rcases h3 with h3 | h3
    · rw [h3]
    · cases hh : (handleIncoming l.st p).2 with
      | panic => rfl
      | ok x =>
        rw [hh] at h3
        cases x with
        | none => simp [h3, expectedAnn]
        | some pkt => simp [h3, expectedAnn]
      | err e => rw [hh] at h3; simp [h3, expectedAnn]
  | out r =>
    obtain ⟨outs, h1, h2, h3⟩ := shape_handleOutgoing l.st r
    rw [he, List.nil_append] at h1
    simp only [(sstepObs_out l.st r).1, (sstepObs_out l.st r).2, h1]
    rcases h3 with h3 | h3
    · rw [h3]
    · cases hh : (handleOutgoing l.st r).2 with
      | panic => rfl
      | ok x =>
        rw [hh] at h3
        cases x with
        | none => simp [h3, expectedAnn]
        | some pkt => simp [h3, expectedAnn]
      | err e => rw [hh] at h3; simp [h3, expectedAnn]
  | clean =>
    obtain ⟨e1, _, e3⟩ := sstepObs_other_events l.st .clean (by simp) (by simp)
    rw [e1]
    cases hh : (sstepObs l.st .clean).outcome with
    | panic => rfl
    | ok x =>
      cases x with
      | none => rfl
      | some pkt => exact absurd hh (e3 pkt)
    | err e => rfl
  | drop =>
    obtain ⟨e1, _, e3⟩ := sstepObs_other_events l.st .drop (by simp) (by simp)
    rw [e1]
    cases hh : (sstepObs l.st .drop).outcome with
    | panic => rfl
    | ok x =>
      cases x with
      | none => rfl
      | some pkt => exact absurd hh (e3 pkt)
    | err e => rfl
  | inflight =>
    obtain ⟨e1, _, e3⟩ := sstepObs_other_events l.st .inflight (by simp) (by simp)
    rw [e1]
    cases hh : (sstepObs l.st .inflight).outcome with
    | panic => rfl
    | ok x =>
      cases x with
      | none => rfl
      | some pkt => exact absurd hh (e3 pkt)
    | err e => rfl

/-! ### the answer table -/

/-- MQTT 5: a PUBLISH with an empty topic whose alias was never registered -/
def aliasUnknown (s : State) (q : InPub) : Prop :=
  s.ver = .v5 ∧ ∃ a, q.alias = some a ∧ q.topicEmpty = true ∧ s.aliases.contains a = false

theorem publishAlias_none_iff (s : State) (q : InPub) : publishAlias s q = none ↔ aliasUnknown s q := by
  unfold publishAlias aliasUnknown
  cases s.ver with
  | v4 => simp
  | v5 =>
    cases q.alias with
    | none => simp
    | some a => cases q.topicEmpty <;> cases s.aliases.contains a <;> simp

theorem handlePublish_answer (s : State) (q : InPub) :
    (handlePublish s q).2 =
      if publishAlias s q = none then .ok (some (.disconnect 130))
      else if q.qos = 0 then .ok none
      else if s.manualAcks then .ok none
      else if q.qos = 1 then .ok (some (.puback q.pkid))
      else .ok (some (.pubrec q.pkid)) := by
  unfold handlePublish
  cases hal : publishAlias s q with
  | none => simp [outgoingDisconnect]
  | some s1 =>
    have hm := (publishAlias_fields hal).2.2.1
    simp only [outgoingPuback, outgoingPubrec, reduceCtorEq, if_false]
    by_cases h0 : q.qos = 0
    · simp [h0]
    · by_cases h1 : q.qos = 1
      · cases hma : s.manualAcks <;> simp [h1, hm, hma]
      · have hmem : (q.pkid ∈ s1.incomingPub) ∨ ¬ (q.pkid ∈ s1.incomingPub) := Classical.em _
        cases hma : s.manualAcks <;> rcases hmem with hc | hc <;> simp [h0, h1, hm, hma, hc]

theorem handlePubrel_answer (s : State) (i : Nat) (hk : s.incomingPub.contains i = true) :
    (handlePubrel s i).2 = .ok (some (.pubcomp i)) := by
  unfold handlePubrel
  rw [if_pos hk]

/-- C10 clauses 2–4: QoS 1 → PUBACK(id), QoS 2 → PUBREC(id), release of a known id → PUBCOMP(id),
    neither of the first two with manual acks; a protocol error → DISCONNECT -/
theorem C10_ack_ok {l : LState} {g : Ghost} (hg : GInv0 l g) (op : LOp) (o : Obs) (ho : (lstep l op).2 = some o) :
    C10.ack g o = true := by
  obtain ⟨sop, _, rfl⟩ := lstep_obs ho
  unfold C10.ack
  rw [sstepObs_op]
  cases sop with
  | inc p =>
    rw [(sstepObs_inc l.st p).1]
    cases p with
    | publish q =>
      have h1 : (handleIncoming l.st (.publish q)).2 = (handlePublish (l.st.pushEv (.incoming (.publish q))) q).2 := rfl
      rw [h1, handlePublish_answer]
      have hm : (l.st.pushEv (.incoming (.publish q))).manualAcks = g.manual := hg.man.symm
      have hpe := protocolError_iff g (l.st.pushEv (.incoming (.publish q))) q hg.ver hg.al
      rw [hm]
      by_cases hp : protocolError g q = true
      · simp [hp, hpe.mp hp]
      · have hn : ¬ publishAlias (l.st.pushEv (.incoming (.publish q))) q = none := fun h' => hp (hpe.mpr h')
        have hp' : protocolError g q = false := by simpa using hp
        simp only [hp', hn, if_false, Bool.false_eq_true]
        by_cases h0 : q.qos = 0
        · simp [h0]
        · cases hma : g.manual
          · by_cases h1 : q.qos = 1 <;> simp [h0, h1]
          · simp [h0]
    | pubrel i r =>
      have h1 : (handleIncoming l.st (.pubrel i r)).2 = (handlePubrel (l.st.pushEv (.incoming (.pubrel i r))) i).2 := rfl
      rw [h1]
      by_cases hk : g.inQos2.contains i = true
      · have hk' : (l.st.pushEv (.incoming (.pubrel i r))).incomingPub.contains i = true := by
          have : i ∈ l.st.incomingPub := (hg.q2 i).mp (by simpa using hk)
          simpa [State.pushEv] using this
        rw [handlePubrel_answer _ i hk']
        simp [hk]
      · simp only [hk]
        cases (handlePubrel (l.st.pushEv (.incoming (.pubrel i r))) i).2 <;> simp
    | _ => cases (handleIncoming l.st _).2 <;> rfl
  | out r => cases (sstepObs l.st (.out r)).outcome <;> rfl
  | clean => cases (sstepObs l.st .clean).outcome <;> rfl
  | drop => cases (sstepObs l.st .drop).outcome <;> rfl
  | inflight => cases (sstepObs l.st .inflight).outcome <;> rfl

theorem lop_inc {l : LState} {op : LOp} {p : Incoming} (hl : lop? l op = some (.inc p)) : op = .inc p := by
  cases op <;> simp only [lop?] at hl
  · split at hl <;> simp at hl
  · split at hl <;> simp at hl
  · simp at hl
  · simpa using hl
  · simp at hl
  · simp at hl

/-- MQTT 5: a release of a known id is answered by PUBCOMP whatever its reason code -/
theorem C10_relAnswered_ok {l : LState} {g : Ghost} (hg : GInv0 l g) (op : LOp) (o : Obs) (ho : (lstep l op).2 = some o) :
    C10.relAnswered g o = true := by
  obtain ⟨sop, hl, rfl⟩ := lstep_obs ho
  unfold C10.relAnswered
  rw [sstepObs_op]
  cases sop with
  | inc p =>
    cases p with
    | pubrel i r =>
      rw [(sstepObs_inc l.st _).1]
      have h1 : (handleIncoming l.st (.pubrel i r)).2 = (handlePubrel (l.st.pushEv (.incoming (.pubrel i r))) i).2 := rfl
      rw [h1]
      by_cases hk : g.inQos2.contains i = true
      · have hk' : (l.st.pushEv (.incoming (.pubrel i r))).incomingPub.contains i = true := by
          have : i ∈ l.st.incomingPub := (hg.q2 i).mp (by simpa using hk)
          simpa [State.pushEv] using this
        rw [handlePubrel_answer _ i hk']
        simp
      · simp only [hk, Bool.false_and]
        cases (handlePubrel (l.st.pushEv (.incoming (.pubrel i r))) i).2 <;> simp
    | _ => cases (sstepObs l.st (.inc _)).outcome <;> rfl
  | out r => cases (sstepObs l.st (.out r)).outcome <;> rfl
  | clean => cases (sstepObs l.st .clean).outcome <;> rfl
  | drop => cases (sstepObs l.st .drop).outcome <;> rfl
  | inflight => cases (sstepObs l.st .inflight).outcome <;> rfl


/-! ### unsolicited acknowledgements -/

theorem count_cleanRequests (s s' : State) (hs : SInv s) (hs' : SInv s') (e1 : s'.outgoingPub = s.outgoingPub)
    (e2 : s'.outgoingRel = s.outgoingRel) (e3 : s'.collision = s.collision) (x : Request) :
    (cleanRequests s').count x = (cleanRequests s).count x := by
  have h1 := (cleanPubs_perm hs').count_eq x
  have h2 := (cleanPubs_perm hs).count_eq x
  unfold cleanRequests cleanParked relOnes
  simp only [List.count_append]
  rw [h1, h2, e1, e2, e3]

theorem sameMultiset_clean (s s' : State) (hs : SInv s) (hs' : SInv s') (e1 : s'.outgoingPub = s.outgoingPub)
    (e2 : s'.outgoingRel = s.outgoingRel) (e3 : s'.collision = s.collision) :
    sameMultiset (cleanRequests s') (cleanRequests s) = true := by
  unfold sameMultiset
  simp only [Bool.and_eq_true, beq_iff_eq, List.all_eq_true]
  refine ⟨by rw [length_cleanRequests hs, length_cleanRequests hs', e1, e2, e3], ?_⟩
  intro x _
  exact count_cleanRequests s s' hs hs' e1 e2 e3 x

theorem slot_empty_of_lookup {U : List (Nat × Nat)} {s : State} (h : UnackedOK U s) (i : Nat)
    (hn : (alookup U i).isNone = true) : s.outgoingPub[i]? = none ∨ s.outgoingPub[i]? = some none := by
  have h1 : alookup U i = none := by simpa using hn
  rw [h.look i] at h1
  unfold slotTag at h1
  cases hs : s.outgoingPub[i]? with
  | none => exact Or.inl rfl
  | some v =>
    cases v with
    | none => exact Or.inr rfl
    | some x => rw [hs] at h1; simp at h1

/-- C10 clause 5: an acknowledgement the wire never solicited is reported as `Unsolicited` and the
    observable bookkeeping stays what it was -/
theorem C10_unsolicited_ok {l : LState} {g : Ghost} (h : B1 l g) (op : LOp) (o : Obs) (ho : (lstep l op).2 = some o) :
    C10.unsolicitedErr g o = true ∧ C10.unsolicitedKeeps g o = true := by
  obtain ⟨sop, hl, rfl⟩ := lstep_obs ho
  obtain ⟨s, pd⟩ := l
  have hU := h.g1.unacked
  have hg := h.g0
  have hsv := h.inv0.sinv
  simp only at hU hg hsv
  unfold C10.unsolicitedErr C10.unsolicitedKeeps
  rw [sstepObs_op]
  have key : ∀ (i : Nat) (s' : State), (sstepObs s sop).outcome = .err (.unsolicited i) →
      sstepSt s sop = drainEvents s' → s'.core = s.core →
      ((match (sstepObs s sop).outcome with
        | .panic => true
        | _ => (sstepObs s sop).outcome == .err (.unsolicited i)) = true) ∧
      ((match (sstepObs s sop).outcome with
        | .panic => true
        | _ => (sstepObs s sop).inf == g.pInf && (sstepObs s sop).col == g.pCol &&
               sameMultiset (sstepObs s sop).view g.pView) = true) := by
    intro i s' hout hst hc
    obtain ⟨e1, e2, e3, e4, e5, e6⟩ := core_eqs hc
    obtain ⟨v1, v2, v3⟩ := sstepObs_view s sop
    have hsv' : SInv (sstepSt s sop) := hsv.sstepSt sop
    constructor
    · rw [hout]; simp
    · rw [hout]
      simp only [Bool.and_eq_true, beq_iff_eq]
      rw [v1, v2, v3, hg.inf, hg.col, hg.view]
      refine ⟨⟨by rw [hst]; simp [drainEvents, e3], by rw [hst]; simp [drainEvents, e4]⟩, ?_⟩
      exact sameMultiset_clean s (sstepSt s sop) hsv hsv' (by rw [hst]; simp [drainEvents, e1])
        (by rw [hst]; simp [drainEvents, e2]) (by rw [hst]; simp [drainEvents, e4])
  cases sop with
  | inc p =>
    have hs0 := hsv.pushEv (.incoming p)
    cases p with
    | puback i r =>
      simp only [unsolicitedAck]
      by_cases hno : (alookup g.unacked i).isNone = true
      · simp only [hno, if_true]
        have hslot := slot_empty_of_lookup hU i hno
        have he := handlePuback_eff hs0 i
        have hout : (sstepObs s (.inc (.puback i r))).outcome = (handlePuback (s.pushEv (.incoming (.puback i r))) i).2 := rfl
        have hst : sstepSt s (.inc (.puback i r)) = drainEvents (handlePuback (s.pushEv (.incoming (.puback i r))) i).1 := rfl
        generalize handlePuback (s.pushEv (.incoming (.puback i r))) i = res at he hout hst
        have hslot0 : (s.pushEv (.incoming (.puback i r))).outgoingPub[i]? = none ∨
            (s.pushEv (.incoming (.puback i r))).outgoingPub[i]? = some none := hslot
        cases he with
        | unsol s' h1 hc => exact key i s' hout hst hc
        | acked x _ h1 _ => rcases hslot0 with h' | h' <;> rw [h'] at h1 <;> simp at h1
      · simp only [hno]
        cases (sstepObs s (.inc (.puback i r))).outcome <;> simp
    | pubrec i r =>
      simp only [unsolicitedAck]
      by_cases hno : (alookup g.unacked i).isNone = true
      · simp only [hno, if_true]
        have hslot := slot_empty_of_lookup hU i hno
        have he := handlePubrec_eff hs0 i r
        have hout : (sstepObs s (.inc (.pubrec i r))).outcome = (handlePubrec (s.pushEv (.incoming (.pubrec i r))) i r).2 := rfl
        have hst : sstepSt s (.inc (.pubrec i r)) = drainEvents (handlePubrec (s.pushEv (.incoming (.pubrec i r))) i r).1 := rfl
        generalize handlePubrec (s.pushEv (.incoming (.pubrec i r))) i r = res at he hout hst
        have hslot0 : (s.pushEv (.incoming (.pubrec i r))).outgoingPub[i]? = none ∨
            (s.pushEv (.incoming (.pubrec i r))).outgoingPub[i]? = some none := hslot
        cases he with
        | unsol s' h1 hc => exact key i s' hout hst hc
        | failed x _ h1 _ _ => rcases hslot0 with h' | h' <;> rw [h'] at h1 <;> simp at h1
        | moved s' x h1 _ _ _ => rcases hslot0 with h' | h' <;> rw [h'] at h1 <;> simp at h1
      · simp only [hno]
        cases (sstepObs s (.inc (.pubrec i r))).outcome <;> simp
    | pubcomp i r =>
      simp only [unsolicitedAck]
      by_cases hin : g.rels.contains i = true
      · simp only [hin, if_true]
        cases (sstepObs s (.inc (.pubcomp i r))).outcome <;> simp
      · simp only [hin]
        have hrel : relContains s i = false := by
          cases hc : relContains s i with
          | false => rfl
          | true => exact absurd (by simpa using (hg.rels i).mpr hc) hin
        have hout : (sstepObs s (.inc (.pubcomp i r))).outcome = (handlePubcomp (s.pushEv (.incoming (.pubcomp i r))) i).2 := rfl
        have hst : sstepSt s (.inc (.pubcomp i r)) = drainEvents (handlePubcomp (s.pushEv (.incoming (.pubcomp i r))) i).1 := rfl
        have he := handlePubcomp_eff hs0 i
        generalize handlePubcomp (s.pushEv (.incoming (.pubcomp i r))) i = res at he hout hst
        cases he with
        | unsol s' h1 hc => exact key i s' hout hst hc
        | done _ h1 _ =>
          have : relContains (s.pushEv (.incoming (.pubcomp i r))) i = relContains s i := rfl
          rw [this, hrel] at h1; simp at h1
    | _ =>
      simp only [unsolicitedAck]
      cases (sstepObs s (.inc _)).outcome <;> simp
  | out r => simp only [unsolicitedAck]; cases (sstepObs s (.out r)).outcome <;> simp
  | clean => simp only [unsolicitedAck]; cases (sstepObs s .clean).outcome <;> simp
  | drop => simp only [unsolicitedAck]; cases (sstepObs s .drop).outcome <;> simp
  | inflight => simp only [unsolicitedAck]; cases (sstepObs s .inflight).outcome <;> simp

/-- C02: a PUBREC that accepts a publish of this connection (MQTT 3.1.1: any; MQTT 5: reason Success or
    No matching subscribers) is answered by PUBREL -/
theorem C02_relAnswered_ok {l : LState} {g : Ghost} (h : B1 l g) (op : LOp) (o : Obs) (ho : (lstep l op).2 = some o) :
    C02.relAnswered g o (g.step o) = true := by
  obtain ⟨sop, hl, rfl⟩ := lstep_obs ho
  obtain ⟨s, pd⟩ := l
  have hU := h.g1.unacked
  have hver := h.g0.ver
  have hsv := h.inv0.sinv
  simp only at hU hver hsv
  unfold C02.relAnswered
  simp only [Bool.or_eq_true]
  right
  rw [sstepObs_op]
  cases sop with
  | inc p =>
    cases p with
    | pubrec i r =>
      have hout : (sstepObs s (.inc (.pubrec i r))).outcome = (handlePubrec (s.pushEv (.incoming (.pubrec i r))) i r).2 := rfl
      rw [hout]
      by_cases hc : ((alookup g.unacked i).isSome && pubrecAccepts g.ver r) = true
      · simp only [hc, if_true]
        simp only [Bool.and_eq_true] at hc
        obtain ⟨hlook, hacc⟩ := hc
        have hs0 := hsv.pushEv (.incoming (.pubrec i r))
        have he := handlePubrec_eff hs0 i r
        have hslot : ∃ x, (s.pushEv (.incoming (.pubrec i r))).outgoingPub[i]? = some (some x) := by
          have := hU.look i
          unfold slotTag at this
          cases hsl : s.outgoingPub[i]? with
          | none => rw [hsl] at this; rw [this] at hlook; simp at hlook
          | some v =>
            cases v with
            | none => rw [hsl] at this; rw [this] at hlook; simp at hlook
            | some x => exact ⟨x, hsl⟩
        obtain ⟨x, hx⟩ := hslot
        generalize handlePubrec (s.pushEv (.incoming (.pubrec i r))) i r = res at he ⊢
        cases he with
        | unsol s' h1 _ => rcases h1 with h1 | h1 <;> rw [h1] at hx <;> simp at hx
        | failed x' _ h1 hv _ =>
          exfalso
          have hv5 : s.ver = .v5 := hv.1
          have hno : ackOk r = false := hv.2
          unfold pubrecAccepts at hacc
          unfold ackOk at hno
          rw [hver, hv5] at hacc
          simp only [reduceCtorEq, decide_false, Bool.false_or] at hacc
          rw [hno] at hacc; cases hacc
        | moved s' x' h1 hv hi hc' => simp
      · have : ((alookup g.unacked i).isSome && pubrecAccepts g.ver r) = false := by simpa using hc
        simp only [this, Bool.false_eq_true, if_false]
        cases (handlePubrec (s.pushEv (.incoming (.pubrec i r))) i r).2 <;> rfl
    | _ => cases (sstepObs s (.inc _)).outcome <;> rfl
  | out r => cases (sstepObs s (.out r)).outcome <;> rfl
  | clean => cases (sstepObs s .clean).outcome <;> rfl
  | drop => cases (sstepObs s .drop).outcome <;> rfl
  | inflight => cases (sstepObs s .inflight).outcome <;> rfl

end Client
