/-
Invariants of the tables proved over `LTrans`:
* `Inv2` — an id is never at the same time in a slot, in a release bit and in `pending`
           (needs: no id reuse while a QoS 2 flow awaits PUBCOMP, #11);
* `Inv3` — `inflight` = occupied slots + release bits (needs `Inv2` and no v5 failure-reason
           PUBREC / PUBCOMP, #15/#16);
* `Inv4` — a parked publish waits for an id that a slot or a release bit holds
           (needs: no `clean` with a parked publish #12, no v5 failure-reason ack on its id #14).
-/
import Proofs.Lemmas.ClientTrans
namespace Client
open Client.Spec

def reqId : Request → Nat
  | .publish p => p.pkid
  | .pubrel i => i
  | _ => 0

theorem occAt_iff (s : State) (i : Nat) : occAt s i = true ↔ ∃ x, s.outgoingPub[i]? = some (some x) := by
  unfold occAt
  cases h : s.outgoingPub[i]? with
  | none => simp
  | some v => cases v <;> simp

theorem occAt_false_iff (s : State) (i : Nat) : occAt s i = false ↔ (s.outgoingPub[i]? = none ∨ s.outgoingPub[i]? = some none) := by
  unfold occAt
  cases h : s.outgoingPub[i]? with
  | none => simp
  | some v => cases v <;> simp

theorem occAt_of_set {s s' : State} {i : Nat} {v : Option Pub} (he : s'.outgoingPub = s.outgoingPub.set i v)
    (hi : i < s.outgoingPub.length) (j : Nat) : occAt s' j = if i = j then v.isSome else occAt s j := by
  unfold occAt
  rw [he, List.getElem?_set]
  by_cases hij : i = j
  · subst hij; simp only [hi, if_true]; cases v <;> rfl
  · simp only [hij, if_false]

theorem occAt_congr {s s' : State} (he : s'.outgoingPub = s.outgoingPub) (j : Nat) : occAt s' j = occAt s j := by
  unfold occAt; rw [he]

theorem relContains_congr {s s' : State} (he : s'.outgoingRel = s.outgoingRel) (j : Nat) :
    relContains s' j = relContains s j := by
  unfold relContains; rw [he]

structure Inv2 (l : LState) : Prop where
  disj : ∀ i : Nat, occAt l.st i = true → relContains l.st i = false
  pendClear : ∀ r ∈ l.pending, relContains l.st (reqId r) = false ∧ occAt l.st (reqId r) = false
  pendNd : (l.pending.map reqId).Nodup

theorem Inv2.new (ver : Version) (max : Nat) (m : Bool) : Inv2 (LState.new ver max m) := by
  refine ⟨?_, by intro r hr; simp [LState.new] at hr, by simp [LState.new]⟩
  intro i hi
  rw [occAt_iff] at hi
  obtain ⟨x, hx⟩ := hi
  simp [LState.new, State.new, List.getElem?_replicate] at hx

theorem relOnesFrom_sorted (l : List Bool) (off : Nat) :
    (relOnesFrom l off).Pairwise (· < ·) ∧ ∀ x ∈ relOnesFrom l off, off ≤ x := by
  induction l generalizing off with
  | nil => simp [relOnesFrom]
  | cons b l ih =>
    have ih' := ih (off + 1)
    unfold relOnesFrom
    split
    · refine ⟨List.pairwise_cons.mpr ⟨fun x hx => ?_, ih'.1⟩, ?_⟩
      · have := ih'.2 x hx; omega
      · intro x hx
        rcases List.mem_cons.mp hx with h | h
        · omega
        · have := ih'.2 x h; omega
    · exact ⟨ih'.1, fun x hx => by have := ih'.2 x hx; omega⟩

theorem relOnes_nodup (s : State) : (relOnes s).Nodup :=
  (relOnesFrom_sorted s.outgoingRel 0).1.imp (fun h => Nat.ne_of_lt h)

theorem map_reqId_pubRequests (l : List (Option Pub)) : (pubRequests l).map reqId = slotIds l := by
  unfold pubRequests slotIds
  induction l with
  | nil => rfl
  | cons a l ih => cases a <;> simp [ih, reqId]

theorem map_reqId_cleanRequests (s : State) :
    (cleanRequests s).map reqId = pubIds (cleanPubs s) ++ relOnes s := by
  have h1 : (cleanPubs s).map reqId = pubIds (cleanPubs s) := by
    unfold cleanPubs
    split
    · rw [map_reqId_pubRequests, pubIds_pubRequests]
    · rw [map_reqId_pubRequests, pubIds_pubRequests]
  simp [cleanRequests, h1, reqId, Function.comp_def]

theorem mem_pubIds_cleanPubs (s : State) (hs : SInv s) (i : Nat) : i ∈ pubIds (cleanPubs s) ↔ occAt s i = true := by
  rw [mem_pubIds, occAt_iff]
  constructor
  · rintro ⟨p, hp, hpi⟩
    obtain ⟨p', hp', hm⟩ := (mem_cleanPubs s _).mp hp
    cases hp'
    obtain ⟨j, hj⟩ := List.mem_iff_getElem?.mp hm
    have := (hs.slotId j p hj).1
    exact ⟨p, by rw [← hpi, this]; exact hj⟩
  · rintro ⟨x, hx⟩
    exact ⟨x, (mem_cleanPubs s _).mpr ⟨x, rfl, List.mem_iff_getElem?.mpr ⟨i, hx⟩⟩, (hs.slotId i x hx).1⟩

theorem cleanState_tables (s : State) (j : Nat) : occAt (cleanState s) j = false ∧ relContains (cleanState s) j = false := by
  constructor
  · rw [occAt_false_iff]
    simp only [cleanState, List.getElem?_map]
    cases s.outgoingPub[j]? <;> simp
  · cases h : relContains (cleanState s) j with
    | false => rfl
    | true => rw [relContains_eq] at h; simp [cleanState, List.getElem?_map] at h

theorem Inv2.step {s : State} {pd : List Request} {op : LOp} {s' : State} {pd' : List Request}
    (hs : SInv s) (h : Inv2 ⟨s, pd⟩) (hn : ¬ idReuseAwaitingComp ⟨s, pd⟩ op) (ht : LTrans s pd op s' pd') :
    Inv2 ⟨s', pd'⟩ := by
  obtain ⟨h1, h2, h3⟩ := h
  simp only at h1 h2 h3
  cases ht with
  | skip => exact ⟨h1, h2, h3⟩
  | quiet _ _ hc =>
    obtain ⟨e1, e2, e3, e4, e5⟩ := core_eqs hc
    refine ⟨?_, ?_, h3⟩
    · intro i hi; rw [relContains_congr e2]; exact h1 i (by rw [← occAt_congr e1]; exact hi)
    · intro r hr; rw [relContains_congr e2, occAt_congr e1]; exact h2 r hr
  | nextId u _ hpd hg hu hc =>
    have e1 : s'.outgoingPub = s.outgoingPub := congrArg Core.pub hc
    have e2 : s'.outgoingRel = s.outgoingRel := congrArg Core.rel hc
    refine ⟨?_, ?_, h3⟩
    · intro i hi; rw [relContains_congr e2]; exact h1 i (by rw [← occAt_congr e1]; exact hi)
    · intro r hr; rw [relContains_congr e2, occAt_congr e1]; exact h2 r hr
  | storeFresh q t _ hpd hg hq hslot hc =>
    have e1 : s'.outgoingPub = s.outgoingPub.set (nextPkidVal s) (some ⟨q, nextPkidVal s, t, none⟩) := congrArg Core.pub hc
    have e2 : s'.outgoingRel = s.outgoingRel := congrArg Core.rel hc
    have hlt := getElem?_lt_of_some hslot
    refine ⟨?_, by intro r hr; simp at hr, by simp⟩
    intro i hi
    rw [relContains_congr e2]
    rw [occAt_of_set e1 hlt i] at hi
    by_cases hni : nextPkidVal s = i
    · subst hni
      cases hr : relContains s (nextPkidVal s) with
      | false => rfl
      | true => exact absurd ⟨hq, hpd, by rw [hpd]; exact hg, hr⟩ hn
    · simp only [hni, if_false] at hi; exact h1 i hi
  | park q t _ x hpd hg hq hslot hc =>
    have e1 : s'.outgoingPub = s.outgoingPub := congrArg Core.pub hc
    have e2 : s'.outgoingRel = s.outgoingRel := congrArg Core.rel hc
    refine ⟨?_, by intro r hr; simp at hr, by simp⟩
    intro i hi; rw [relContains_congr e2]; exact h1 i (by rw [← occAt_congr e1]; exact hi)
  | replayPub p rest _ hpd hslot hc =>
    subst hpd
    have e1 : s'.outgoingPub = s.outgoingPub.set p.pkid (some p) := congrArg Core.pub hc
    have e2 : s'.outgoingRel = s.outgoingRel := congrArg Core.rel hc
    have hlt := getElem?_lt_of_some hslot
    have hp := h2 (.publish p) (by simp)
    simp only [List.map_cons, List.nodup_cons, reqId] at h3 hp
    refine ⟨?_, ?_, h3.2⟩
    · intro i hi
      rw [relContains_congr e2]
      rw [occAt_of_set e1 hlt i] at hi
      by_cases hni : p.pkid = i
      · subst hni; exact hp.1
      · simp only [hni, if_false] at hi; exact h1 i hi
    · intro r hr
      have := h2 r (List.mem_cons_of_mem _ hr)
      rw [relContains_congr e2, occAt_of_set e1 hlt]
      have hne : p.pkid ≠ reqId r := by
        intro he; exact h3.1 (by rw [he]; exact List.mem_map_of_mem hr)
      simp only [hne, if_false]; exact this
  | replayRel i rest _ hpd hi hc =>
    subst hpd
    have e1 : s'.outgoingPub = s.outgoingPub := congrArg Core.pub hc
    have e2 : s'.outgoingRel = s.outgoingRel.set i true := congrArg Core.rel hc
    have hp := h2 (.pubrel i) (by simp)
    simp only [List.map_cons, List.nodup_cons, reqId] at h3 hp
    refine ⟨?_, ?_, h3.2⟩
    · intro j hj
      rw [occAt_congr e1] at hj
      rw [relContains_of_set e2 hi j]
      by_cases hij : i = j
      · subst hij; rw [hp.2] at hj; simp at hj
      · simp only [hij, if_false]; exact h1 j hj
    · intro r hr
      have := h2 r (List.mem_cons_of_mem _ hr)
      rw [relContains_of_set e2 hi, occAt_congr e1]
      have hne : i ≠ reqId r := by
        intro he; exact h3.1 (by rw [he]; exact List.mem_map_of_mem hr)
      simp only [hne, if_false]; exact this
  | puback i r _ o he =>
    cases he with
    | oob _ hh hc =>
      obtain ⟨e1, e2, e3, e4, e5⟩ := core_eqs hc
      refine ⟨?_, ?_, h3⟩
      · intro j hj; rw [relContains_congr e2]; exact h1 j (by rw [← occAt_congr e1]; exact hj)
      · intro r' hr; rw [relContains_congr e2, occAt_congr e1]; exact h2 r' hr
    | empty _ hh hc =>
      have e1 : s'.outgoingPub = s.outgoingPub := congrArg Core.pub hc
      have e2 : s'.outgoingRel = s.outgoingRel := congrArg Core.rel hc
      refine ⟨?_, ?_, h3⟩
      · intro j hj; rw [relContains_congr e2]; exact h1 j (by rw [← occAt_congr e1]; exact hj)
      · intro r' hr; rw [relContains_congr e2, occAt_congr e1]; exact h2 r' hr
    | freed _ x hh _ hc =>
      have e1 : s'.outgoingPub = s.outgoingPub.set i none := congrArg Core.pub hc
      have e2 : s'.outgoingRel = s.outgoingRel := congrArg Core.rel hc
      have hlt := getElem?_lt_of_some hh
      refine ⟨?_, ?_, h3⟩
      · intro j hj
        rw [relContains_congr e2]
        rw [occAt_of_set e1 hlt j] at hj
        by_cases hij : i = j
        · subst hij; simp at hj
        · simp only [hij, if_false] at hj; exact h1 j hj
      · intro r' hr
        have := h2 r' hr
        rw [relContains_congr e2, occAt_of_set e1 hlt]
        refine ⟨this.1, ?_⟩
        by_cases hij : i = reqId r'
        · simp [hij]
        · simp only [hij, if_false]; exact this.2
    | released _ x c hh hv hcol hci hc =>
      have e1 : s'.outgoingPub = (s.outgoingPub.set i none).set i (some c) := congrArg Core.pub hc
      have e2 : s'.outgoingRel = s.outgoingRel := congrArg Core.rel hc
      have hlt := getElem?_lt_of_some hh
      have hocc : occAt s i = true := (occAt_iff s i).mpr ⟨x, hh⟩
      have key : ∀ j, occAt s' j = if i = j then true else occAt s j := by
        intro j
        unfold occAt
        rw [e1]
        simp only [List.getElem?_set, List.length_set]
        by_cases hij : i = j
        · subst hij; simp [hlt]
        · simp [hij]
      refine ⟨?_, ?_, h3⟩
      · intro j hj
        rw [relContains_congr e2]
        rw [key j] at hj
        by_cases hij : i = j
        · subst hij; exact h1 i hocc
        · simp only [hij, if_false] at hj; exact h1 j hj
      · intro r' hr
        have := h2 r' hr
        rw [relContains_congr e2, key]
        refine ⟨this.1, ?_⟩
        by_cases hij : i = reqId r'
        · rw [← hij, hocc] at this; simp at this
        · simp only [hij, if_false]; exact this.2
  | pubrec i r _ o he =>
    cases he with
    | unsol _ hh hc =>
      obtain ⟨e1, e2, e3, e4, e5⟩ := core_eqs hc
      refine ⟨?_, ?_, h3⟩
      · intro j hj; rw [relContains_congr e2]; exact h1 j (by rw [← occAt_congr e1]; exact hj)
      · intro r' hr; rw [relContains_congr e2, occAt_congr e1]; exact h2 r' hr
    | failed _ x hh hv hc =>
      have e1 : s'.outgoingPub = s.outgoingPub.set i none := congrArg Core.pub hc
      have e2 : s'.outgoingRel = s.outgoingRel := congrArg Core.rel hc
      have hlt := getElem?_lt_of_some hh
      refine ⟨?_, ?_, h3⟩
      · intro j hj
        rw [relContains_congr e2]
        rw [occAt_of_set e1 hlt j] at hj
        by_cases hij : i = j
        · subst hij; simp at hj
        · simp only [hij, if_false] at hj; exact h1 j hj
      · intro r' hr
        have := h2 r' hr
        rw [relContains_congr e2, occAt_of_set e1 hlt]
        refine ⟨this.1, ?_⟩
        by_cases hij : i = reqId r'
        · simp [hij]
        · simp only [hij, if_false]; exact this.2
    | moved _ x hh hv hi hc =>
      have e1 : s'.outgoingPub = s.outgoingPub.set i none := congrArg Core.pub hc
      have e2 : s'.outgoingRel = s.outgoingRel.set i true := congrArg Core.rel hc
      have hlt := getElem?_lt_of_some hh
      have hocc : occAt s i = true := (occAt_iff s i).mpr ⟨x, hh⟩
      refine ⟨?_, ?_, h3⟩
      · intro j hj
        rw [occAt_of_set e1 hlt j] at hj
        rw [relContains_of_set e2 hi j]
        by_cases hij : i = j
        · subst hij; simp at hj
        · simp only [hij, if_false] at hj ⊢; exact h1 j hj
      · intro r' hr
        have := h2 r' hr
        have hne : i ≠ reqId r' := by intro he; rw [← he, hocc] at this; simp at this
        rw [relContains_of_set e2 hi, occAt_of_set e1 hlt]
        simp only [hne, if_false]; exact this
  | pubcomp i r _ o he =>
    cases he with
    | unsol _ _ hh hp hr hi hc hl =>
      refine ⟨?_, ?_, h3⟩
      · intro j hj; rw [relContains_congr hr]; exact h1 j (by rw [← occAt_congr hp]; exact hj)
      · intro r' hr'; rw [relContains_congr hr, occAt_congr hp]; exact h2 r' hr'
    | done _ _ hh dec hdec hp hr hi hc hl =>
      have hlt := getElem?_lt_of_some ((relContains_eq s i).mp hh)
      refine ⟨?_, ?_, h3⟩
      · intro j hj
        rw [relContains_of_set hr hlt j]
        by_cases hij : i = j
        · simp [hij]
        · simp only [hij, if_false]; exact h1 j (by rw [← occAt_congr hp]; exact hj)
      · intro r' hr'
        have := h2 r' hr'
        rw [relContains_of_set hr hlt, occAt_congr hp]
        refine ⟨?_, this.2⟩
        by_cases hij : i = reqId r'
        · simp [hij]
        · simp only [hij, if_false]; exact this.1
  | fail =>
    refine ⟨?_, ?_, ?_⟩
    · intro i hi; rw [(cleanState_tables s i).1] at hi; simp at hi
    · intro r hr; exact ⟨(cleanState_tables s _).2, (cleanState_tables s _).1⟩
    · rw [List.map_append, map_reqId_cleanRequests, List.nodup_append]
      refine ⟨h3, ?_, ?_⟩
      · rw [List.nodup_append]
        refine ⟨pubIds_cleanPubs_nodup hs, relOnes_nodup s, ?_⟩
        intro a ha b hb hab
        subst hab
        have := h1 a ((mem_pubIds_cleanPubs s hs a).mp ha)
        rw [(mem_relOnes s a).mp hb] at this; simp at this
      · intro a ha b hb hab
        subst hab
        obtain ⟨r, hr, hra⟩ := List.mem_map.mp ha
        have := h2 r hr
        rw [hra] at this
        rcases List.mem_append.mp hb with hb | hb
        · rw [(mem_pubIds_cleanPubs s hs a).mp hb] at this; simp at this
        · rw [(mem_relOnes s a).mp hb] at this; simp at this
  | newSession => exact ⟨h1, by intro r hr; simp at hr, by simp⟩


/-! ### the counter agrees with the tables -/

def Inv3 (l : LState) : Prop := l.st.inflight = occ l.st.outgoingPub + relCount l.st.outgoingRel

theorem Inv3.new (ver : Version) (max : Nat) (m : Bool) : Inv3 (LState.new ver max m) := by
  simp [Inv3, LState.new, State.new, occ_replicate, relCount_replicate]

theorem Inv3.step {s : State} {pd : List Request} {op : LOp} {s' : State} {pd' : List Request}
    (hs : SInv s) (h2 : Inv2 ⟨s, pd⟩) (h : Inv3 ⟨s, pd⟩) (hn : ¬ failedRecOrComp ⟨s, pd⟩ op)
    (ht : LTrans s pd op s' pd') : Inv3 ⟨s', pd'⟩ := by
  unfold Inv3 at *
  simp only at h ⊢
  cases ht with
  | skip => exact h
  | quiet _ _ hc => obtain ⟨e1, e2, e3, e4, e5⟩ := core_eqs hc; rw [e1, e2, e3]; exact h
  | nextId u _ hpd hg hu hc =>
    have e1 : s'.outgoingPub = s.outgoingPub := congrArg Core.pub hc
    have e2 : s'.outgoingRel = s.outgoingRel := congrArg Core.rel hc
    have e3 : s'.inflight = s.inflight := congrArg Core.inf hc
    rw [e1, e2, e3]; exact h
  | storeFresh q t _ hpd hg hq hslot hc =>
    have e1 : s'.outgoingPub = s.outgoingPub.set (nextPkidVal s) (some ⟨q, nextPkidVal s, t, none⟩) := congrArg Core.pub hc
    have e2 : s'.outgoingRel = s.outgoingRel := congrArg Core.rel hc
    have e3 : s'.inflight = s.inflight + 1 := congrArg Core.inf hc
    rw [e1, e2, e3, occ_set_some _ _ _ hslot]; omega
  | park q t _ x hpd hg hq hslot hc =>
    have e1 : s'.outgoingPub = s.outgoingPub := congrArg Core.pub hc
    have e2 : s'.outgoingRel = s.outgoingRel := congrArg Core.rel hc
    have e3 : s'.inflight = s.inflight := congrArg Core.inf hc
    rw [e1, e2, e3]; exact h
  | replayPub p rest _ hpd hslot hc =>
    have e1 : s'.outgoingPub = s.outgoingPub.set p.pkid (some p) := congrArg Core.pub hc
    have e2 : s'.outgoingRel = s.outgoingRel := congrArg Core.rel hc
    have e3 : s'.inflight = s.inflight + 1 := congrArg Core.inf hc
    rw [e1, e2, e3, occ_set_some _ _ _ hslot]; omega
  | replayRel i rest _ hpd hi hc =>
    subst hpd
    have e1 : s'.outgoingPub = s.outgoingPub := congrArg Core.pub hc
    have e2 : s'.outgoingRel = s.outgoingRel.set i true := congrArg Core.rel hc
    have e3 : s'.inflight = s.inflight + 1 := congrArg Core.inf hc
    have hp := (h2.pendClear (.pubrel i) (by simp)).1
    simp only [reqId] at hp
    rw [e1, e2, e3, relCount_set_true _ _ (relContains_false_of_lt s i hi hp)]; omega
  | puback i r _ o he =>
    cases he with
    | oob _ hh hc => obtain ⟨e1, e2, e3, e4, e5⟩ := core_eqs hc; rw [e1, e2, e3]; exact h
    | empty _ hh hc =>
      have e1 : s'.outgoingPub = s.outgoingPub := congrArg Core.pub hc
      have e2 : s'.outgoingRel = s.outgoingRel := congrArg Core.rel hc
      have e3 : s'.inflight = s.inflight := congrArg Core.inf hc
      rw [e1, e2, e3]; exact h
    | freed _ x hh _ hc =>
      have e1 : s'.outgoingPub = s.outgoingPub.set i none := congrArg Core.pub hc
      have e2 : s'.outgoingRel = s.outgoingRel := congrArg Core.rel hc
      have e3 : s'.inflight = s.inflight - 1 := congrArg Core.inf hc
      have := occ_set_none _ _ _ hh
      rw [e1, e2, e3]; omega
    | released _ x c hh hv hcol hci hc =>
      have e1 : s'.outgoingPub = (s.outgoingPub.set i none).set i (some c) := congrArg Core.pub hc
      have e2 : s'.outgoingRel = s.outgoingRel := congrArg Core.rel hc
      have e3 : s'.inflight = s.inflight - 1 + 1 := congrArg Core.inf hc
      have h1 := occ_set_none _ _ _ hh
      have hlt := getElem?_lt_of_some hh
      have h2' := occ_set_some (s.outgoingPub.set i none) i c (by simp [hlt])
      rw [e1, e2, e3, h2']; omega
  | pubrec i r _ o he =>
    cases he with
    | unsol _ hh hc => obtain ⟨e1, e2, e3, e4, e5⟩ := core_eqs hc; rw [e1, e2, e3]; exact h
    | failed _ x hh hv hc =>
      exact absurd ⟨hv.1, hv.2, (occAt_iff s i).mpr ⟨x, hh⟩⟩ hn
    | moved _ x hh hv hi hc =>
      have e1 : s'.outgoingPub = s.outgoingPub.set i none := congrArg Core.pub hc
      have e2 : s'.outgoingRel = s.outgoingRel.set i true := congrArg Core.rel hc
      have e3 : s'.inflight = s.inflight := congrArg Core.inf hc
      have h1 := occ_set_none _ _ _ hh
      have hr := h2.disj i ((occAt_iff s i).mpr ⟨x, hh⟩)
      simp only at hr
      rw [e1, e2, e3, relCount_set_true _ _ (relContains_false_of_lt s i hi hr)]; omega
  | pubcomp i r _ o he =>
    cases he with
    | unsol _ _ hh hp hr hi hc hl => rw [hp, hr, hi]; exact h
    | done _ _ hh dec hdec hp hr hi hc hl =>
      have := relCount_set_false _ _ ((relContains_eq s i).mp hh)
      cases dec with
      | true => simp only [if_true] at hi; rw [hp, hr, hi]; omega
      | false =>
        obtain ⟨hv, hr0⟩ := hdec rfl
        exact absurd ⟨hv, hr0, hh⟩ hn
  | fail => simp [cleanState, occ_map_none, relCount_map_false]
  | newSession => exact h

/-! ### a parked publish waits for an id somebody holds -/

def Inv4 (l : LState) : Prop :=
  ∀ c : Pub, l.st.collision = some c → occAt l.st c.pkid = true ∨ relContains l.st c.pkid = true

theorem Inv4.new (ver : Version) (max : Nat) (m : Bool) : Inv4 (LState.new ver max m) := by
  intro c hc; simp [LState.new, State.new] at hc

theorem Inv4.step {s : State} {pd : List Request} {op : LOp} {s' : State} {pd' : List Request}
    (h : Inv4 ⟨s, pd⟩) (hn1 : ¬ cleanWithCollision ⟨s, pd⟩ op) (hn2 : ¬ failedAckOnCollision ⟨s, pd⟩ op)
    (ht : LTrans s pd op s' pd') : Inv4 ⟨s', pd'⟩ := by
  unfold Inv4 at *
  simp only at h ⊢
  cases ht with
  | skip => exact h
  | quiet _ _ hc =>
    obtain ⟨e1, e2, e3, e4, e5⟩ := core_eqs hc
    intro c hc'; rw [occAt_congr e1, relContains_congr e2]; exact h c (by rw [← e4]; exact hc')
  | nextId u _ hpd hg hu hc =>
    have e1 : s'.outgoingPub = s.outgoingPub := congrArg Core.pub hc
    have e2 : s'.outgoingRel = s.outgoingRel := congrArg Core.rel hc
    have e4 : s'.collision = s.collision := congrArg Core.col hc
    intro c hc'; rw [occAt_congr e1, relContains_congr e2]; exact h c (by rw [← e4]; exact hc')
  | storeFresh q t _ hpd hg hq hslot hc =>
    have e4 : s'.collision = s.collision := congrArg Core.col hc
    have hcol : s.collision = none := by
      simp [selectEnabled] at hg; cases hc' : s.collision <;> simp_all
    intro c hc'; rw [e4, hcol] at hc'; cases hc'
  | park q t _ x hpd hg hq hslot hc =>
    have e1 : s'.outgoingPub = s.outgoingPub := congrArg Core.pub hc
    have e4 : s'.collision = some ⟨q, nextPkidVal s, t, none⟩ := congrArg Core.col hc
    intro c hc'
    rw [e4] at hc'; cases hc'
    exact Or.inl (by rw [occAt_congr e1]; exact (occAt_iff s _).mpr ⟨x, hslot⟩)
  | replayPub p rest _ hpd hslot hc =>
    have e1 : s'.outgoingPub = s.outgoingPub.set p.pkid (some p) := congrArg Core.pub hc
    have e2 : s'.outgoingRel = s.outgoingRel := congrArg Core.rel hc
    have e4 : s'.collision = s.collision := congrArg Core.col hc
    have hlt := getElem?_lt_of_some hslot
    intro c hc'
    rw [occAt_of_set e1 hlt, relContains_congr e2]
    rcases h c (by rw [← e4]; exact hc') with h' | h'
    · left; by_cases hpc : p.pkid = c.pkid
      · simp [hpc]
      · simp only [hpc, if_false]; exact h'
    · exact Or.inr h'
  | replayRel i rest _ hpd hi hc =>
    have e1 : s'.outgoingPub = s.outgoingPub := congrArg Core.pub hc
    have e2 : s'.outgoingRel = s.outgoingRel.set i true := congrArg Core.rel hc
    have e4 : s'.collision = s.collision := congrArg Core.col hc
    intro c hc'
    rw [occAt_congr e1, relContains_of_set e2 hi]
    rcases h c (by rw [← e4]; exact hc') with h' | h'
    · exact Or.inl h'
    · right; by_cases hic : i = c.pkid
      · simp [hic]
      · simp only [hic, if_false]; exact h'
  | puback i r _ o he =>
    cases he with
    | oob _ hh hc =>
      obtain ⟨e1, e2, e3, e4, e5⟩ := core_eqs hc
      intro c hc'; rw [occAt_congr e1, relContains_congr e2]; exact h c (by rw [← e4]; exact hc')
    | empty _ hh hc =>
      have e1 : s'.outgoingPub = s.outgoingPub := congrArg Core.pub hc
      have e2 : s'.outgoingRel = s.outgoingRel := congrArg Core.rel hc
      have e4 : s'.collision = s.collision := congrArg Core.col hc
      intro c hc'; rw [occAt_congr e1, relContains_congr e2]; exact h c (by rw [← e4]; exact hc')
    | freed _ x hh hnc hc =>
      have e1 : s'.outgoingPub = s.outgoingPub.set i none := congrArg Core.pub hc
      have e2 : s'.outgoingRel = s.outgoingRel := congrArg Core.rel hc
      have e4 : s'.collision = s.collision := congrArg Core.col hc
      have hlt := getElem?_lt_of_some hh
      intro c hc'
      rw [e4] at hc'
      have hci : c.pkid ≠ i := by
        rcases hnc with hv | hv
        · intro hci; exact hn2 ⟨hv.1, hv.2, c, hc', hci⟩
        · exact hv c hc'
      rw [occAt_of_set e1 hlt, relContains_congr e2]
      simp only [Ne.symm hci, if_false]
      exact h c hc'
    | released _ x c hh hv hcol hci hc =>
      have e4 : s'.collision = none := congrArg Core.col hc
      intro c' hc'; rw [e4] at hc'; cases hc'
  | pubrec i r _ o he =>
    cases he with
    | unsol _ hh hc =>
      obtain ⟨e1, e2, e3, e4, e5⟩ := core_eqs hc
      intro c hc'; rw [occAt_congr e1, relContains_congr e2]; exact h c (by rw [← e4]; exact hc')
    | failed _ x hh hv hc =>
      have e1 : s'.outgoingPub = s.outgoingPub.set i none := congrArg Core.pub hc
      have e2 : s'.outgoingRel = s.outgoingRel := congrArg Core.rel hc
      have e4 : s'.collision = s.collision := congrArg Core.col hc
      have hlt := getElem?_lt_of_some hh
      intro c hc'
      rw [e4] at hc'
      have hci : c.pkid ≠ i := by intro hci; exact hn2 ⟨hv.1, hv.2, c, hc', hci⟩
      rw [occAt_of_set e1 hlt, relContains_congr e2]
      simp only [Ne.symm hci, if_false]
      exact h c hc'
    | moved _ x hh hv hi hc =>
      have e1 : s'.outgoingPub = s.outgoingPub.set i none := congrArg Core.pub hc
      have e2 : s'.outgoingRel = s.outgoingRel.set i true := congrArg Core.rel hc
      have e4 : s'.collision = s.collision := congrArg Core.col hc
      have hlt := getElem?_lt_of_some hh
      intro c hc'
      rw [e4] at hc'
      rw [occAt_of_set e1 hlt, relContains_of_set e2 hi]
      by_cases hic : i = c.pkid
      · simp [hic]
      · simp only [hic, if_false]; exact h c hc'
  | pubcomp i r _ o he =>
    cases he with
    | unsol _ _ hh hp hr hi hc hl =>
      intro c hc'
      rw [occAt_congr hp, relContains_congr hr]
      rcases hc with hc | hc
      · exact h c (by rw [← hc]; exact hc')
      · rw [hc.2] at hc'; cases hc'
    | done _ _ hh dec hdec hp hr hi hc hl =>
      have hlt := getElem?_lt_of_some ((relContains_eq s i).mp hh)
      intro c hc'
      rcases hc with hc | hc
      · rw [hc.1] at hc'
        have hne := hc.2 c hc'
        rw [occAt_congr hp, relContains_of_set hr hlt]
        simp only [Ne.symm hne, if_false]
        exact h c hc'
      · rw [hc] at hc'; cases hc'
  | fail =>
    intro c hc'
    have : s.collision.isSome = true := by
      have : (cleanState s).collision = s.collision := rfl
      rw [this] at hc'; simp [hc']
    exact absurd this hn1
  | newSession => exact h

end Client
