/-
Invariants of the tables proved over `LTrans`:
* `Inv2` — an id is never at the same time in a slot, in a release bit and in `pending`; the
           unnumbered publish is the last element of `pending`; nothing is parked while `pending`
           is not empty (every run on which `Inv0` holds);
* `Inv3` — `inflight` = occupied slots + release bits (needs `Inv2`);
* `Inv4` — a parked publish waits for an id that a slot or a release bit holds (every run).
-/
import Proofs.Lemmas.ClientTrans
namespace Client
open Client.Spec

def reqId : Request → Nat
  | .publish p => p.pkid
  | .pubrel i => i
  | _ => 0

theorem occAt_iff (s : State) (i : Nat) : occAt s i = true ↔ ∃ x, s.outgoingPub[i]? = some (some x) := by
  unfold occAt
  cases h : s.outgoingPub[i]? with
  | none => simp
  | some v => cases v <;> simp

theorem occAt_false_iff (s : State) (i : Nat) : occAt s i = false ↔ (s.outgoingPub[i]? = none ∨ s.outgoingPub[i]? = some none) := by
  unfold occAt
  cases h : s.outgoingPub[i]? with
  | none => simp
  | some v => cases v <;> simp

theorem occAt_of_set {s s' : State} {i : Nat} {v : Option Pub} (he : s'.outgoingPub = s.outgoingPub.set i v)
    (hi : i < s.outgoingPub.length) (j : Nat) : occAt s' j = if i = j then v.isSome else occAt s j := by
  unfold occAt
  rw [he, List.getElem?_set]
  by_cases hij : i = j
  · subst hij; simp only [hi, if_true]; cases v <;> rfl
  · simp only [hij, if_false]

theorem occAt_congr {s s' : State} (he : s'.outgoingPub = s.outgoingPub) (j : Nat) : occAt s' j = occAt s j := by
  unfold occAt; rw [he]

theorem relContains_congr {s s' : State} (he : s'.outgoingRel = s.outgoingRel) (j : Nat) :
    relContains s' j = relContains s j := by
  unfold relContains; rw [he]

structure Inv2 (l : LState) : Prop where
  disj : ∀ i : Nat, occAt l.st i = true → relContains l.st i = false
  pendClear : ∀ r ∈ l.pending, relContains l.st (reqId r) = false ∧ occAt l.st (reqId r) = false
  pendNd : (l.pending.map reqId).Nodup
  /-- only the last element of `pending` may be unnumbered -/
  pendPos : ∀ r ∈ l.pending.dropLast, reqId r ≠ 0
  colPend : l.st.collision.isSome = true → l.pending = []

theorem Inv2.new (ver : Version) (max : Nat) (m : Bool) : Inv2 (LState.new ver max m) := by
  refine ⟨?_, by intro r hr; simp [LState.new] at hr, by simp [LState.new], by simp [LState.new], by simp [LState.new]⟩
  intro i hi
  rw [occAt_iff] at hi
  obtain ⟨x, hx⟩ := hi
  simp [LState.new, State.new, List.getElem?_replicate] at hx

theorem relOnesFrom_sorted (l : List Bool) (off : Nat) :
    (relOnesFrom l off).Pairwise (· < ·) ∧ ∀ x ∈ relOnesFrom l off, off ≤ x := by
  induction l generalizing off with
  | nil => simp [relOnesFrom]
  | cons b l ih =>
    have ih' := ih (off + 1)
    unfold relOnesFrom
    split
    · refine ⟨List.pairwise_cons.mpr ⟨fun x hx => ?_, ih'.1⟩, ?_⟩
      · have := ih'.2 x hx; omega
      · intro x hx
        rcases List.mem_cons.mp hx with h | h
        · omega
        · have := ih'.2 x h; omega
    · exact ⟨ih'.1, fun x hx => by have := ih'.2 x hx; omega⟩

theorem relOnes_nodup (s : State) : (relOnes s).Nodup :=
  (relOnesFrom_sorted s.outgoingRel 0).1.imp (fun h => Nat.ne_of_lt h)

theorem map_reqId_pubs (l : List Request) (h : ∀ r ∈ l, ∃ p, r = .publish p) : l.map reqId = pubIds l := by
  induction l with
  | nil => rfl
  | cons a l ih =>
    obtain ⟨p, rfl⟩ := h a (by simp)
    have : pubIds (.publish p :: l) = p.pkid :: pubIds l := by simp [pubIds]
    simp only [List.map_cons, reqId, this]
    rw [ih (fun r hr => h r (List.mem_cons_of_mem _ hr))]

theorem map_reqId_cleanRequests {s : State} (hs : SInv s) :
    (cleanRequests s).map reqId = pubIds (cleanPubs s) ++ relOnes s ++ (if s.collision.isSome then [0] else []) := by
  have h1 : (cleanPubs s).map reqId = pubIds (cleanPubs s) := by
    apply map_reqId_pubs
    intro r hr
    obtain ⟨p, hp, _⟩ := (mem_cleanPubs hs r).mp hr
    exact ⟨p, hp⟩
  have h2 : (cleanParked s).map reqId = if s.collision.isSome then [0] else [] := by
    unfold cleanParked; cases s.collision <;> simp [reqId]
  simp [cleanRequests, h1, h2, reqId, Function.comp_def]

theorem mem_pubIds_cleanPubs (s : State) (hs : SInv s) (i : Nat) : i ∈ pubIds (cleanPubs s) ↔ occAt s i = true := by
  rw [mem_pubIds, occAt_iff]
  constructor
  · rintro ⟨p, hp, hpi⟩
    obtain ⟨p', hp', hm⟩ := (mem_cleanPubs hs _).mp hp
    cases hp'
    obtain ⟨j, hj⟩ := List.mem_iff_getElem?.mp hm
    have := (hs.slotId j p hj).1
    exact ⟨p, by rw [← hpi, this]; exact hj⟩
  · rintro ⟨x, hx⟩
    exact ⟨x, (mem_cleanPubs hs _).mpr ⟨x, rfl, List.mem_iff_getElem?.mpr ⟨i, hx⟩⟩, (hs.slotId i x hx).1⟩

theorem cleanState_tables (s : State) (j : Nat) : occAt (cleanState s) j = false ∧ relContains (cleanState s) j = false := by
  constructor
  · rw [occAt_false_iff]
    simp only [cleanState, List.getElem?_map]
    cases s.outgoingPub[j]? <;> simp
  · cases h : relContains (cleanState s) j with
    | false => rfl
    | true => rw [relContains_eq] at h; simp [cleanState, List.getElem?_map] at h

/-- an element of `pending` other than an unnumbered publish carries an id ≥ 1 -/
theorem reqId_pos_of {s : State} {pd : List Request} (h0 : Inv0 ⟨s, pd⟩) (r : Request) (hr : r ∈ pd)
    (hnum : ∀ p, r = .publish p → p.pkid ≠ 0) : reqId r ≠ 0 := by
  have hok := h0.pendWF r hr
  cases r with
  | publish p => exact hnum p rfl
  | pubrel i => simp only [PendOK] at hok; simp only [reqId]; omega
  | subscribe n => simp [PendOK] at hok
  | unsubscribe => simp [PendOK] at hok
  | pingreq => simp [PendOK] at hok
  | disconnect => simp [PendOK] at hok
  | puback j => simp [PendOK] at hok
  | pubrec j => simp [PendOK] at hok
  | other => simp [PendOK] at hok

theorem mem_dropLast_of_cons {α} (a : α) (l : List α) (x : α) (h : x ∈ l.dropLast) : x ∈ (a :: l).dropLast := by
  cases l with
  | nil => simp at h
  | cons b l => rw [List.dropLast_cons_cons]; exact List.mem_cons_of_mem _ h

theorem head_mem_dropLast {α} (a b : α) (l : List α) : a ∈ (a :: b :: l).dropLast := by
  rw [List.dropLast_cons_cons]; simp

/-- the table part of `Inv2` after an update that keeps the other facts -/
theorem occAt_set_set {s s' : State} {i : Nat} {c : Pub} (he : s'.outgoingPub = (s.outgoingPub.set i none).set i (some c))
    (hlt : i < s.outgoingPub.length) (j : Nat) : occAt s' j = if i = j then true else occAt s j := by
  unfold occAt
  rw [he]
  simp only [List.getElem?_set, List.length_set]
  by_cases hij : i = j
  · subst hij; simp [hlt]
  · simp [hij]

/-- a numbered publish at the head of `pending` finds its id free -/
theorem Inv2.head_free {s : State} {p : Pub} {rest : List Request} (h : Inv2 ⟨s, .publish p :: rest⟩) :
    ¬ busyId s p.pkid := by
  have := h.pendClear (.publish p) (by simp)
  simp only [reqId] at this
  rintro (⟨x, hx⟩ | hr)
  · have h' := (occAt_iff s p.pkid).mpr ⟨x, hx⟩
    rw [this.2] at h'; cases h'
  · rw [this.1] at hr; cases hr

theorem Inv2.unnumbered_last {s : State} {p : Pub} {rest : List Request} (h : Inv2 ⟨s, .publish p :: rest⟩)
    (hid : p.pkid = 0) : rest = [] := by
  cases rest with
  | nil => rfl
  | cons b l =>
    have := h.pendPos (.publish p) (head_mem_dropLast _ _ _)
    simp only [reqId] at this
    exact absurd hid this

theorem Inv2.col_none {s : State} {r : Request} {rest : List Request} (h : Inv2 ⟨s, r :: rest⟩) : s.collision = none := by
  cases hc : s.collision with
  | none => rfl
  | some c => have := h.colPend (by simp [hc]); simp at this

theorem Inv2.step {s : State} {pd : List Request} {op : LOp} {s' : State} {pd' : List Request}
    (h0 : Inv0 ⟨s, pd⟩) (h : Inv2 ⟨s, pd⟩) (ht : LTrans s pd op s' pd') :
    Inv2 ⟨s', pd'⟩ := by
  have hs := h0.sinv
  have hh := h
  obtain ⟨h1, h2, h3, h4, h5⟩ := h
  simp only at h1 h2 h3 h4 h5 hs
  -- updates that leave both tables alone
  have same : ∀ s1 : State, s1.outgoingPub = s.outgoingPub → s1.outgoingRel = s.outgoingRel →
      (s1.collision.isSome = true → pd = []) → Inv2 ⟨s1, pd⟩ := by
    intro s1 e1 e2 e4
    refine ⟨?_, ?_, h3, h4, e4⟩
    · intro i hi; rw [relContains_congr e2]; exact h1 i (by rw [← occAt_congr e1]; exact hi)
    · intro r hr; rw [relContains_congr e2, occAt_congr e1]; exact h2 r hr
  -- slot `i` freed
  have freed : ∀ (s1 : State) (i : Nat) (x : Pub), s.outgoingPub[i]? = some (some x) →
      s1.outgoingPub = s.outgoingPub.set i none → s1.outgoingRel = s.outgoingRel →
      s1.collision = s.collision → Inv2 ⟨s1, pd⟩ := by
    intro s1 i x hx e1 e2 e4
    have hlt := getElem?_lt_of_some hx
    refine ⟨?_, ?_, h3, h4, by rw [e4]; exact h5⟩
    · intro j hj
      rw [relContains_congr e2]
      rw [occAt_of_set e1 hlt j] at hj
      by_cases hij : i = j
      · subst hij; simp at hj
      · simp only [hij, if_false] at hj; exact h1 j hj
    · intro r' hr
      have := h2 r' hr
      rw [relContains_congr e2, occAt_of_set e1 hlt]
      refine ⟨this.1, ?_⟩
      by_cases hij : i = reqId r'
      · simp [hij]
      · simp only [hij, if_false]; exact this.2
  -- slot `i` freed and taken by the parked publish (so `pending` is empty)
  have retaken : ∀ (s1 : State) (i : Nat) (x c : Pub), s.outgoingPub[i]? = some (some x) → s.collision = some c →
      s1.outgoingPub = (s.outgoingPub.set i none).set i (some c) → s1.outgoingRel = s.outgoingRel → Inv2 ⟨s1, pd⟩ := by
    intro s1 i x c hx hcol e1 e2
    have hlt := getElem?_lt_of_some hx
    have hpd : pd = [] := h5 (by simp [hcol])
    subst hpd
    have hocc : occAt s i = true := (occAt_iff s i).mpr ⟨x, hx⟩
    refine ⟨?_, by intro r hr; simp at hr, by simp, by simp, fun _ => rfl⟩
    intro j hj
    rw [relContains_congr e2]
    rw [occAt_set_set e1 hlt j] at hj
    by_cases hij : i = j
    · subst hij; exact h1 i hocc
    · simp only [hij, if_false] at hj; exact h1 j hj
  cases ht with
  | skip => exact hh
  | quiet _ _ hc =>
    obtain ⟨e1, e2, e3, e4, e5, e6⟩ := core_eqs hc
    exact same s' e1 e2 (by rw [e4]; exact h5)
  | nextId u _ hpd hg hu hc =>
    exact same s' (congrArg Core.pub hc) (congrArg Core.rel hc) (by rw [show s'.collision = s.collision from congrArg Core.col hc]; exact h5)
  | storeFresh q t _ hpd hg hq hslot hrel hc =>
    have e1 : s'.outgoingPub = s.outgoingPub.set (nextPkidVal s) (some ⟨q, nextPkidVal s, t, none⟩) := congrArg Core.pub hc
    have e2 : s'.outgoingRel = s.outgoingRel := congrArg Core.rel hc
    have hlt := getElem?_lt_of_some hslot
    refine ⟨?_, by intro r hr; simp at hr, by simp, by simp, fun _ => rfl⟩
    intro i hi
    rw [relContains_congr e2]
    rw [occAt_of_set e1 hlt i] at hi
    by_cases hni : nextPkidVal s = i
    · subst hni; exact hrel
    · simp only [hni, if_false] at hi; exact h1 i hi
  | parkFresh q t _ hpd hg hq hbusy hc =>
    have e1 : s'.outgoingPub = s.outgoingPub := congrArg Core.pub hc
    have e2 : s'.outgoingRel = s.outgoingRel := congrArg Core.rel hc
    refine ⟨?_, by intro r hr; simp at hr, by simp, by simp, fun _ => rfl⟩
    intro i hi; rw [relContains_congr e2]; exact h1 i (by rw [← occAt_congr e1]; exact hi)
  | replayPub p rest _ hpd hid hslot hrel hc =>
    subst hpd
    have e1 : s'.outgoingPub = s.outgoingPub.set p.pkid (some p) := congrArg Core.pub hc
    have e2 : s'.outgoingRel = s.outgoingRel := congrArg Core.rel hc
    have e4 : s'.collision = s.collision := congrArg Core.col hc
    have hlt := getElem?_lt_of_some hslot
    simp only [List.map_cons, List.nodup_cons, reqId] at h3
    refine ⟨?_, ?_, h3.2, fun r hr => h4 r (mem_dropLast_of_cons _ _ _ hr), by rw [e4, hh.col_none]; simp⟩
    · intro i hi
      rw [relContains_congr e2]
      rw [occAt_of_set e1 hlt i] at hi
      by_cases hni : p.pkid = i
      · subst hni; exact hrel
      · simp only [hni, if_false] at hi; exact h1 i hi
    · intro r hr
      have := h2 r (List.mem_cons_of_mem _ hr)
      rw [relContains_congr e2, occAt_of_set e1 hlt]
      have hne : p.pkid ≠ reqId r := by
        intro he; exact h3.1 (by rw [he]; exact List.mem_map_of_mem hr)
      simp only [hne, if_false]; exact this
  | replayPark p rest _ hpd hid hbusy hc =>
    subst hpd; exact absurd hbusy hh.head_free
  | replayFresh p rest _ hpd hid hslot hrel hc =>
    subst hpd
    have hrest := hh.unnumbered_last hid
    subst hrest
    have e1 : s'.outgoingPub = s.outgoingPub.set (nextPkidVal s) (some { p with pkid := nextPkidVal s }) := congrArg Core.pub hc
    have e2 : s'.outgoingRel = s.outgoingRel := congrArg Core.rel hc
    have hlt := getElem?_lt_of_some hslot
    refine ⟨?_, by intro r hr; simp at hr, by simp, by simp, fun _ => rfl⟩
    intro i hi
    rw [relContains_congr e2]
    rw [occAt_of_set e1 hlt i] at hi
    by_cases hni : nextPkidVal s = i
    · subst hni; exact hrel
    · simp only [hni, if_false] at hi; exact h1 i hi
  | replayFreshPark p rest _ hpd hid hbusy hc =>
    subst hpd
    have hrest := hh.unnumbered_last hid
    subst hrest
    have e1 : s'.outgoingPub = s.outgoingPub := congrArg Core.pub hc
    have e2 : s'.outgoingRel = s.outgoingRel := congrArg Core.rel hc
    refine ⟨?_, by intro r hr; simp at hr, by simp, by simp, fun _ => rfl⟩
    intro i hi; rw [relContains_congr e2]; exact h1 i (by rw [← occAt_congr e1]; exact hi)
  | replayRel i rest _ hpd hi hc =>
    subst hpd
    have e1 : s'.outgoingPub = s.outgoingPub := congrArg Core.pub hc
    have e2 : s'.outgoingRel = s.outgoingRel.set i true := congrArg Core.rel hc
    have e4 : s'.collision = s.collision := congrArg Core.col hc
    have hp := h2 (.pubrel i) (by simp)
    simp only [List.map_cons, List.nodup_cons, reqId] at h3 hp
    refine ⟨?_, ?_, h3.2, fun r hr => h4 r (mem_dropLast_of_cons _ _ _ hr), by rw [e4, hh.col_none]; simp⟩
    · intro j hj
      rw [occAt_congr e1] at hj
      rw [relContains_of_set e2 hi j]
      by_cases hij : i = j
      · subst hij; rw [hp.2] at hj; simp at hj
      · simp only [hij, if_false]; exact h1 j hj
    · intro r hr
      have := h2 r (List.mem_cons_of_mem _ hr)
      rw [relContains_of_set e2 hi, occAt_congr e1]
      have hne : i ≠ reqId r := by
        intro he; exact h3.1 (by rw [he]; exact List.mem_map_of_mem hr)
      simp only [hne, if_false]; exact this
  | puback i r _ o he =>
    cases he with
    | unsol _ hx hc =>
      obtain ⟨e1, e2, e3, e4, e5, e6⟩ := core_eqs hc
      exact same s' e1 e2 (by rw [e4]; exact h5)
    | acked x _ hx he =>
      cases he with
      | plain _ hnc hc => exact freed s' i x hx (congrArg Core.pub hc) (congrArg Core.rel hc) (congrArg Core.col hc)
      | released _ c hcol hci hc =>
        subst hci
        exact retaken s' c.pkid x c hx hcol (congrArg Core.pub hc) (congrArg Core.rel hc)
  | pubrec i r _ o he =>
    cases he with
    | unsol _ hx hc =>
      obtain ⟨e1, e2, e3, e4, e5, e6⟩ := core_eqs hc
      exact same s' e1 e2 (by rw [e4]; exact h5)
    | failed x _ hx hv he =>
      cases he with
      | plain _ hnc hc => exact freed s' i x hx (congrArg Core.pub hc) (congrArg Core.rel hc) (congrArg Core.col hc)
      | released _ c hcol hci hc =>
        subst hci
        exact retaken s' c.pkid x c hx hcol (congrArg Core.pub hc) (congrArg Core.rel hc)
    | moved _ x hx hv hi hc =>
      have e1 : s'.outgoingPub = s.outgoingPub.set i none := congrArg Core.pub hc
      have e2 : s'.outgoingRel = s.outgoingRel.set i true := congrArg Core.rel hc
      have e4 : s'.collision = s.collision := congrArg Core.col hc
      have hlt := getElem?_lt_of_some hx
      have hocc : occAt s i = true := (occAt_iff s i).mpr ⟨x, hx⟩
      refine ⟨?_, ?_, h3, h4, by rw [e4]; exact h5⟩
      · intro j hj
        rw [occAt_of_set e1 hlt j] at hj
        rw [relContains_of_set e2 hi j]
        by_cases hij : i = j
        · subst hij; simp at hj
        · simp only [hij, if_false] at hj ⊢; exact h1 j hj
      · intro r' hr
        have := h2 r' hr
        have hne : i ≠ reqId r' := by intro he; rw [← he, hocc] at this; simp at this
        rw [relContains_of_set e2 hi, occAt_of_set e1 hlt]
        simp only [hne, if_false]; exact this
  | pubcomp i r _ o he =>
    cases he with
    | unsol _ hx hc =>
      obtain ⟨e1, e2, e3, e4, e5, e6⟩ := core_eqs hc
      exact same s' e1 e2 (by rw [e4]; exact h5)
    | done _ hx he =>
      have hlt := getElem?_lt_of_some ((relContains_eq s i).mp hx)
      cases he with
      | plain _ hnc hc =>
        have hp : s'.outgoingPub = s.outgoingPub := congrArg Core.pub hc
        have hr : s'.outgoingRel = s.outgoingRel.set i false := congrArg Core.rel hc
        have e4 : s'.collision = s.collision := congrArg Core.col hc
        refine ⟨?_, ?_, h3, h4, by rw [e4]; exact h5⟩
        · intro j hj
          rw [relContains_of_set hr hlt j]
          by_cases hij : i = j
          · simp [hij]
          · simp only [hij, if_false]; exact h1 j (by rw [← occAt_congr hp]; exact hj)
        · intro r' hr'
          have := h2 r' hr'
          rw [relContains_of_set hr hlt, occAt_congr hp]
          refine ⟨?_, this.2⟩
          by_cases hij : i = reqId r'
          · simp [hij]
          · simp only [hij, if_false]; exact this.1
      | released _ c hcol hci hc =>
        have hp : s'.outgoingPub = s.outgoingPub.set c.pkid (some c) := congrArg Core.pub hc
        have hr : s'.outgoingRel = s.outgoingRel.set i false := congrArg Core.rel hc
        have hpd : pd = [] := h5 (by simp [hcol])
        subst hpd
        have hl1 := hs.lenPub; have hl2 := hs.lenRel
        have hltp : c.pkid < s.outgoingPub.length := by rw [hci]; omega
        refine ⟨?_, by intro r hr; simp at hr, by simp, by simp, fun _ => rfl⟩
        intro j hj
        rw [relContains_of_set hr hlt j]
        rw [occAt_of_set hp hltp j] at hj
        by_cases hij : i = j
        · simp [hij]
        · simp only [hij, if_false]
          have : ¬ c.pkid = j := by rw [hci]; exact hij
          simp only [this, if_false] at hj
          exact h1 j hj
  | fail =>
    have hclean : ∀ a ∈ pubIds (cleanPubs s) ++ relOnes s, a ≠ 0 := by
      intro a ha
      rcases List.mem_append.mp ha with ha | ha
      · obtain ⟨x, hx⟩ := (occAt_iff s a).mp ((mem_pubIds_cleanPubs s hs a).mp ha)
        have := (h0.slotLe a x hx).1; omega
      · have := (h0.relLe a ((mem_relOnes s a).mp ha)).1; omega
    refine ⟨?_, ?_, ?_, ?_, by simp [cleanState]⟩
    · intro i hi; rw [(cleanState_tables s i).1] at hi; simp at hi
    · intro r hr; exact ⟨(cleanState_tables s _).2, (cleanState_tables s _).1⟩
    · -- ids: stored, awaiting release, (parked: 0, then `pending` is empty), still pending
      rw [List.map_append, map_reqId_cleanRequests hs, List.nodup_append]
      refine ⟨?_, h3, ?_⟩
      · rw [List.nodup_append]
        refine ⟨?_, by split <;> simp, ?_⟩
        · rw [List.nodup_append]
          refine ⟨pubIds_cleanPubs_nodup hs, relOnes_nodup s, ?_⟩
          intro a ha b hb hab
          subst hab
          have := h1 a ((mem_pubIds_cleanPubs s hs a).mp ha)
          rw [(mem_relOnes s a).mp hb] at this; simp at this
        · intro a ha b hb hab
          subst hab
          split at hb
          · simp at hb; exact hclean a ha hb
          · simp at hb
      · intro a ha b hb hab
        subst hab
        obtain ⟨r, hr, hra⟩ := List.mem_map.mp hb
        have := h2 r hr
        rw [hra] at this
        rcases List.mem_append.mp ha with ha | ha
        · rcases List.mem_append.mp ha with ha | ha
          · rw [(mem_pubIds_cleanPubs s hs a).mp ha] at this; simp at this
          · rw [(mem_relOnes s a).mp ha] at this; simp at this
        · split at ha
          · rename_i hcol
            have := h5 hcol
            subst this
            simp at hr
          · simp at ha
    · intro r hr
      cases hpd : pd with
      | nil =>
        -- only the parked publish, last, is unnumbered
        rw [hpd, List.append_nil] at hr
        have hr' := (List.dropLast_sublist _).subset hr
        by_cases hcol : s.collision.isSome = true
        · have hsplit : cleanRequests s = (cleanPubs s ++ (relOnes s).map Request.pubrel) ++ cleanParked s := rfl
          obtain ⟨x, hx⟩ : ∃ x, cleanParked s = [x] := by
            unfold cleanParked
            cases hc : s.collision with
            | none => rw [hc] at hcol; simp at hcol
            | some c => exact ⟨_, rfl⟩
          rw [hsplit, hx, List.dropLast_concat] at hr
          apply hclean
          have : reqId r ∈ (cleanPubs s ++ (relOnes s).map Request.pubrel).map reqId := List.mem_map_of_mem hr
          have h1' : (cleanPubs s).map reqId = pubIds (cleanPubs s) := by
            apply map_reqId_pubs
            intro r hr
            obtain ⟨p, hp, _⟩ := (mem_cleanPubs hs r).mp hr
            exact ⟨p, hp⟩
          simpa [h1', reqId, Function.comp_def] using this
        · apply hclean
          have hm : reqId r ∈ (cleanRequests s).map reqId := List.mem_map_of_mem hr'
          rw [map_reqId_cleanRequests hs] at hm
          simpa [hcol] using hm
      | cons a rest =>
        -- something is still pending, so nothing is parked: `clean()` returns numbered requests only
        have hcol : ¬ s.collision.isSome = true := by
          intro hc; have := h5 hc; rw [hpd] at this; cases this
        rw [hpd, List.dropLast_append_of_ne_nil (by simp)] at hr
        rcases List.mem_append.mp hr with hr | hr
        · apply hclean
          have hm : reqId r ∈ (cleanRequests s).map reqId := List.mem_map_of_mem hr
          rw [map_reqId_cleanRequests hs] at hm
          simpa [hcol] using hm
        · exact h4 r (by rw [hpd]; exact hr)
  | newSession => exact ⟨h1, by intro r hr; simp at hr, by simp, by simp, fun _ => rfl⟩


/-! ### the counter agrees with the tables -/

def Inv3 (l : LState) : Prop := l.st.inflight = occ l.st.outgoingPub + relCount l.st.outgoingRel

theorem Inv3.new (ver : Version) (max : Nat) (m : Bool) : Inv3 (LState.new ver max m) := by
  simp [Inv3, LState.new, State.new, occ_replicate, relCount_replicate]

theorem Inv3.step {s : State} {pd : List Request} {op : LOp} {s' : State} {pd' : List Request}
    (hs : SInv s) (h2 : Inv2 ⟨s, pd⟩) (h : Inv3 ⟨s, pd⟩)
    (ht : LTrans s pd op s' pd') : Inv3 ⟨s', pd'⟩ := by
  unfold Inv3 at *
  simp only at h ⊢
  have stored : ∀ (s1 : State) (n : Nat) (p : Pub), s.outgoingPub[n]? = some none →
      s1.outgoingPub = s.outgoingPub.set n (some p) → s1.outgoingRel = s.outgoingRel → s1.inflight = s.inflight + 1 →
      s1.inflight = occ s1.outgoingPub + relCount s1.outgoingRel := by
    intro s1 n p hslot e1 e2 e3
    rw [e1, e2, e3, occ_set_some _ _ _ hslot]; omega
  have freed : ∀ (s1 : State) (i : Nat) (x : Pub), s.outgoingPub[i]? = some (some x) →
      s1.outgoingPub = s.outgoingPub.set i none → s1.outgoingRel = s.outgoingRel → s1.inflight = s.inflight - 1 →
      s1.inflight = occ s1.outgoingPub + relCount s1.outgoingRel := by
    intro s1 i x hx e1 e2 e3
    have := occ_set_none _ _ _ hx
    rw [e1, e2, e3]; omega
  have retaken : ∀ (s1 : State) (i : Nat) (x c : Pub), s.outgoingPub[i]? = some (some x) →
      s1.outgoingPub = (s.outgoingPub.set i none).set i (some c) → s1.outgoingRel = s.outgoingRel →
      s1.inflight = s.inflight - 1 + 1 → s1.inflight = occ s1.outgoingPub + relCount s1.outgoingRel := by
    intro s1 i x c hx e1 e2 e3
    have h1 := occ_set_none _ _ _ hx
    have hlt := getElem?_lt_of_some hx
    have h2' := occ_set_some (s.outgoingPub.set i none) i c (by simp [hlt])
    rw [e1, e2, e3, h2']; omega
  cases ht with
  | skip => exact h
  | quiet _ _ hc => obtain ⟨e1, e2, e3, e4, e5, e6⟩ := core_eqs hc; rw [e1, e2, e3]; exact h
  | nextId u _ hpd hg hu hc =>
    have e1 : s'.outgoingPub = s.outgoingPub := congrArg Core.pub hc
    have e2 : s'.outgoingRel = s.outgoingRel := congrArg Core.rel hc
    have e3 : s'.inflight = s.inflight := congrArg Core.inf hc
    rw [e1, e2, e3]; exact h
  | storeFresh q t _ hpd hg hq hslot hrel hc =>
    exact stored s' _ _ hslot (congrArg Core.pub hc) (congrArg Core.rel hc) (congrArg Core.inf hc)
  | parkFresh q t _ hpd hg hq hbusy hc =>
    have e1 : s'.outgoingPub = s.outgoingPub := congrArg Core.pub hc
    have e2 : s'.outgoingRel = s.outgoingRel := congrArg Core.rel hc
    have e3 : s'.inflight = s.inflight := congrArg Core.inf hc
    rw [e1, e2, e3]; exact h
  | replayPub p rest _ hpd hid hslot hrel hc =>
    exact stored s' _ _ hslot (congrArg Core.pub hc) (congrArg Core.rel hc) (congrArg Core.inf hc)
  | replayPark p rest _ hpd hid hbusy hc => subst hpd; exact absurd hbusy h2.head_free
  | replayFresh p rest _ hpd hid hslot hrel hc =>
    exact stored s' _ _ hslot (congrArg Core.pub hc) (congrArg Core.rel hc) (congrArg Core.inf hc)
  | replayFreshPark p rest _ hpd hid hbusy hc =>
    have e1 : s'.outgoingPub = s.outgoingPub := congrArg Core.pub hc
    have e2 : s'.outgoingRel = s.outgoingRel := congrArg Core.rel hc
    have e3 : s'.inflight = s.inflight := congrArg Core.inf hc
    rw [e1, e2, e3]; exact h
  | replayRel i rest _ hpd hi hc =>
    subst hpd
    have e1 : s'.outgoingPub = s.outgoingPub := congrArg Core.pub hc
    have e2 : s'.outgoingRel = s.outgoingRel.set i true := congrArg Core.rel hc
    have e3 : s'.inflight = s.inflight + 1 := congrArg Core.inf hc
    have hp := (h2.pendClear (.pubrel i) (by simp)).1
    simp only [reqId] at hp
    rw [e1, e2, e3, relCount_set_true _ _ (relContains_false_of_lt s i hi hp)]; omega
  | puback i r _ o he =>
    cases he with
    | unsol _ hx hc => obtain ⟨e1, e2, e3, e4, e5, e6⟩ := core_eqs hc; rw [e1, e2, e3]; exact h
    | acked x _ hx he =>
      cases he with
      | plain _ hnc hc => exact freed s' i x hx (congrArg Core.pub hc) (congrArg Core.rel hc) (congrArg Core.inf hc)
      | released _ c hcol hci hc =>
        subst hci
        exact retaken s' c.pkid x c hx (congrArg Core.pub hc) (congrArg Core.rel hc) (congrArg Core.inf hc)
  | pubrec i r _ o he =>
    cases he with
    | unsol _ hx hc => obtain ⟨e1, e2, e3, e4, e5, e6⟩ := core_eqs hc; rw [e1, e2, e3]; exact h
    | failed x _ hx hv he =>
      cases he with
      | plain _ hnc hc => exact freed s' i x hx (congrArg Core.pub hc) (congrArg Core.rel hc) (congrArg Core.inf hc)
      | released _ c hcol hci hc =>
        subst hci
        exact retaken s' c.pkid x c hx (congrArg Core.pub hc) (congrArg Core.rel hc) (congrArg Core.inf hc)
    | moved _ x hx hv hi hc =>
      have e1 : s'.outgoingPub = s.outgoingPub.set i none := congrArg Core.pub hc
      have e2 : s'.outgoingRel = s.outgoingRel.set i true := congrArg Core.rel hc
      have e3 : s'.inflight = s.inflight := congrArg Core.inf hc
      have h1 := occ_set_none _ _ _ hx
      have hr := h2.disj i ((occAt_iff s i).mpr ⟨x, hx⟩)
      simp only at hr
      rw [e1, e2, e3, relCount_set_true _ _ (relContains_false_of_lt s i hi hr)]; omega
  | pubcomp i r _ o he =>
    cases he with
    | unsol _ hx hc => obtain ⟨e1, e2, e3, e4, e5, e6⟩ := core_eqs hc; rw [e1, e2, e3]; exact h
    | done _ hx he =>
      have hbit := (relContains_eq s i).mp hx
      have hcnt := relCount_set_false _ _ hbit
      have hpos := relCount_pos_of_bit _ _ hbit
      cases he with
      | plain _ hnc hc =>
        have hp : s'.outgoingPub = s.outgoingPub := congrArg Core.pub hc
        have hr : s'.outgoingRel = s.outgoingRel.set i false := congrArg Core.rel hc
        have hi : s'.inflight = s.inflight - 1 := congrArg Core.inf hc
        rw [hp, hr, hi]; omega
      | released _ c hcol hci hc =>
        have hp : s'.outgoingPub = s.outgoingPub.set c.pkid (some c) := congrArg Core.pub hc
        have hr : s'.outgoingRel = s.outgoingRel.set i false := congrArg Core.rel hc
        have hi : s'.inflight = s.inflight - 1 + 1 := congrArg Core.inf hc
        -- the id awaited its PUBCOMP, so no publish is stored under it
        have hfree : s.outgoingPub[c.pkid]? = some none := by
          rw [hci]
          have hlt := getElem?_lt_of_some hbit
          have hl1 := hs.lenPub; have hl2 := hs.lenRel
          have hocc : occAt s i = false := by
            cases ho : occAt s i with
            | false => rfl
            | true => have := h2.disj i ho; simp only at this; rw [hx] at this; cases this
          rcases (occAt_false_iff s i).mp hocc with h' | h'
          · rw [List.getElem?_eq_none_iff] at h'; omega
          · exact h'
        rw [hp, hr, hi, occ_set_some _ _ _ hfree]; omega
  | fail => simp [cleanState, occ_map_none, relCount_map_false]
  | newSession => exact h

/-! ### a parked publish waits for an id somebody holds -/

def Inv4 (l : LState) : Prop :=
  ∀ c : Pub, l.st.collision = some c → occAt l.st c.pkid = true ∨ relContains l.st c.pkid = true

theorem Inv4.new (ver : Version) (max : Nat) (m : Bool) : Inv4 (LState.new ver max m) := by
  intro c hc; simp [LState.new, State.new] at hc

theorem busyId_iff (s : State) (i : Nat) : busyId s i ↔ (occAt s i = true ∨ relContains s i = true) := by
  unfold busyId; rw [occAt_iff]

/-- holds on every run: a publish is only ever parked on an id in use, and that id is not given
    up without releasing the publish -/
theorem Inv4.step {s : State} {pd : List Request} {op : LOp} {s' : State} {pd' : List Request}
    (h : Inv4 ⟨s, pd⟩) (ht : LTrans s pd op s' pd') : Inv4 ⟨s', pd'⟩ := by
  unfold Inv4 at *
  simp only at h ⊢
  have same : ∀ s1 : State, s1.outgoingPub = s.outgoingPub → s1.outgoingRel = s.outgoingRel → s1.collision = s.collision →
      ∀ c : Pub, s1.collision = some c → occAt s1 c.pkid = true ∨ relContains s1 c.pkid = true := by
    intro s1 e1 e2 e4 c hc'
    rw [occAt_congr e1, relContains_congr e2]; exact h c (by rw [← e4]; exact hc')
  have stored : ∀ (s1 : State) (n : Nat) (p : Pub), n < s.outgoingPub.length →
      s1.outgoingPub = s.outgoingPub.set n (some p) → s1.outgoingRel = s.outgoingRel → s1.collision = s.collision →
      ∀ c : Pub, s1.collision = some c → occAt s1 c.pkid = true ∨ relContains s1 c.pkid = true := by
    intro s1 n p hlt e1 e2 e4 c hc'
    rw [occAt_of_set e1 hlt, relContains_congr e2]
    rcases h c (by rw [← e4]; exact hc') with h' | h'
    · left; by_cases hpc : n = c.pkid
      · simp [hpc]
      · simp only [hpc, if_false]; exact h'
    · exact Or.inr h'
  have parked : ∀ (s1 : State) (p : Pub), busyId s p.pkid →
      s1.outgoingPub = s.outgoingPub → s1.outgoingRel = s.outgoingRel → s1.collision = some p →
      ∀ c : Pub, s1.collision = some c → occAt s1 c.pkid = true ∨ relContains s1 c.pkid = true := by
    intro s1 p hb e1 e2 e4 c hc'
    rw [e4] at hc'; cases hc'
    rw [occAt_congr e1, relContains_congr e2]
    exact (busyId_iff s _).mp hb
  have freed : ∀ (s1 : State) (i : Nat) (x : Pub), s.outgoingPub[i]? = some (some x) →
      (∀ c, s.collision = some c → c.pkid ≠ i) →
      s1.outgoingPub = s.outgoingPub.set i none → s1.outgoingRel = s.outgoingRel → s1.collision = s.collision →
      ∀ c : Pub, s1.collision = some c → occAt s1 c.pkid = true ∨ relContains s1 c.pkid = true := by
    intro s1 i x hx hnc e1 e2 e4 c hc'
    have hlt := getElem?_lt_of_some hx
    rw [e4] at hc'
    have hci := hnc c hc'
    rw [occAt_of_set e1 hlt, relContains_congr e2]
    simp only [Ne.symm hci, if_false]
    exact h c hc'
  cases ht with
  | skip => exact h
  | quiet _ _ hc =>
    obtain ⟨e1, e2, e3, e4, e5, e6⟩ := core_eqs hc
    exact same s' e1 e2 e4
  | nextId u _ hpd hg hu hc => exact same s' (congrArg Core.pub hc) (congrArg Core.rel hc) (congrArg Core.col hc)
  | storeFresh q t _ hpd hg hq hslot hrel hc =>
    exact stored s' _ _ (getElem?_lt_of_some hslot) (congrArg Core.pub hc) (congrArg Core.rel hc) (congrArg Core.col hc)
  | parkFresh q t _ hpd hg hq hbusy hc =>
    exact parked s' ⟨q, nextPkidVal s, t, none⟩ hbusy (congrArg Core.pub hc) (congrArg Core.rel hc) (congrArg Core.col hc)
  | replayPub p rest _ hpd hid hslot hrel hc =>
    exact stored s' _ _ (getElem?_lt_of_some hslot) (congrArg Core.pub hc) (congrArg Core.rel hc) (congrArg Core.col hc)
  | replayPark p rest _ hpd hid hbusy hc =>
    exact parked s' p hbusy (congrArg Core.pub hc) (congrArg Core.rel hc) (congrArg Core.col hc)
  | replayFresh p rest _ hpd hid hslot hrel hc =>
    exact stored s' _ _ (getElem?_lt_of_some hslot) (congrArg Core.pub hc) (congrArg Core.rel hc) (congrArg Core.col hc)
  | replayFreshPark p rest _ hpd hid hbusy hc =>
    exact parked s' { p with pkid := nextPkidVal s } hbusy (congrArg Core.pub hc) (congrArg Core.rel hc) (congrArg Core.col hc)
  | replayRel i rest _ hpd hi hc =>
    have e1 : s'.outgoingPub = s.outgoingPub := congrArg Core.pub hc
    have e2 : s'.outgoingRel = s.outgoingRel.set i true := congrArg Core.rel hc
    have e4 : s'.collision = s.collision := congrArg Core.col hc
    intro c hc'
    rw [occAt_congr e1, relContains_of_set e2 hi]
    rcases h c (by rw [← e4]; exact hc') with h' | h'
    · exact Or.inl h'
    · right; by_cases hic : i = c.pkid
      · simp [hic]
      · simp only [hic, if_false]; exact h'
  | puback i r _ o he =>
    cases he with
    | unsol _ hx hc =>
      obtain ⟨e1, e2, e3, e4, e5, e6⟩ := core_eqs hc
      exact same s' e1 e2 e4
    | acked x _ hx he =>
      cases he with
      | plain _ hnc hc => exact freed s' i x hx hnc (congrArg Core.pub hc) (congrArg Core.rel hc) (congrArg Core.col hc)
      | released _ c hcol hci hc =>
        have e4 : s'.collision = none := congrArg Core.col hc
        intro c' hc'; rw [e4] at hc'; cases hc'
  | pubrec i r _ o he =>
    cases he with
    | unsol _ hx hc =>
      obtain ⟨e1, e2, e3, e4, e5, e6⟩ := core_eqs hc
      exact same s' e1 e2 e4
    | failed x _ hx hv he =>
      cases he with
      | plain _ hnc hc => exact freed s' i x hx hnc (congrArg Core.pub hc) (congrArg Core.rel hc) (congrArg Core.col hc)
      | released _ c hcol hci hc =>
        have e4 : s'.collision = none := congrArg Core.col hc
        intro c' hc'; rw [e4] at hc'; cases hc'
    | moved _ x hx hv hi hc =>
      have e1 : s'.outgoingPub = s.outgoingPub.set i none := congrArg Core.pub hc
      have e2 : s'.outgoingRel = s.outgoingRel.set i true := congrArg Core.rel hc
      have e4 : s'.collision = s.collision := congrArg Core.col hc
      have hlt := getElem?_lt_of_some hx
      intro c hc'
      rw [e4] at hc'
      rw [occAt_of_set e1 hlt, relContains_of_set e2 hi]
      by_cases hic : i = c.pkid
      · simp [hic]
      · simp only [hic, if_false]; exact h c hc'
  | pubcomp i r _ o he =>
    cases he with
    | unsol _ hx hc =>
      obtain ⟨e1, e2, e3, e4, e5, e6⟩ := core_eqs hc
      exact same s' e1 e2 e4
    | done _ hx he =>
      have hlt := getElem?_lt_of_some ((relContains_eq s i).mp hx)
      cases he with
      | plain _ hnc hc =>
        have hp : s'.outgoingPub = s.outgoingPub := congrArg Core.pub hc
        have hr : s'.outgoingRel = s.outgoingRel.set i false := congrArg Core.rel hc
        have e4 : s'.collision = s.collision := congrArg Core.col hc
        intro c hc'
        rw [e4] at hc'
        have hne := hnc c hc'
        rw [occAt_congr hp, relContains_of_set hr hlt]
        simp only [Ne.symm hne, if_false]
        exact h c hc'
      | released _ c hcol hci hc =>
        have e4 : s'.collision = none := congrArg Core.col hc
        intro c' hc'; rw [e4] at hc'; cases hc'
  | fail => intro c hc'; simp [cleanState] at hc'
  | newSession => exact h

end Client
