/-
Per-call facts behind C10 (hold for every state and every packet / request; no assumption on
the history): the shape of the events a call appends, the answer table, panic-freedom of every
incoming packet under the structural invariant.
-/
import Proofs.Lemmas.ClientSInv
namespace Client
open Client.Spec

/-- what a call should announce: exactly the packet it returns -/
def expectedAnn : Outcome → List Event
  | .ok (some pkt) => [.outgoing (outgoingOf pkt)]
  | _ => []

/-- `r` (result of a call on `s`) appended only `Outgoing` events, and they announce exactly the
    returned packet (`AwaitAck` excepted) -/
def Shape (s : State) (r : State × Outcome) : Prop :=
  ∃ outs : List Event, r.1.events = s.events ++ outs ∧ (∀ e ∈ outs, isIncomingEv e = false) ∧
    (r.2 = .panic ∨ announced outs = expectedAnn r.2)

/-- same without the exactness clause (what still holds in the v5 corner cases) -/
def ShapeW (s : State) (r : State × Outcome) : Prop :=
  ∃ outs : List Event, r.1.events = s.events ++ outs ∧ (∀ e ∈ outs, isIncomingEv e = false)

theorem Shape.weak {s r} (h : Shape s r) : ShapeW s r := by
  obtain ⟨o, a, b, _⟩ := h; exact ⟨o, a, b⟩

theorem shape_nil (s s' : State) (o : Outcome) (he : s'.events = s.events)
    (ho : o = .panic ∨ expectedAnn o = []) : Shape s (s', o) := by
  refine ⟨[], by simp [he], by simp, ?_⟩
  rcases ho with h | h
  · exact Or.inl h
  · exact Or.inr (by simp [announced, h])

theorem shape_one (s s' : State) (og : Outgoing) (pkt : Packet) (he : s'.events = s.events)
    (hm : outgoingOf pkt = og) : Shape s (s'.pushOut og, .ok (some pkt)) := by
  refine ⟨[.outgoing og], by simp [State.pushOut, State.pushEv, he], by simp [isIncomingEv], Or.inr ?_⟩
  cases og <;> simp_all [announced, expectedAnn, isIncomingEv, isAwaitAck] <;> cases pkt <;> simp_all [outgoingOf]

theorem nextPkidSt_events (s : State) : (nextPkidSt s).events = s.events := by
  unfold nextPkidSt; split <;> rfl

theorem storePub_events (s : State) (p : Pub) : (storePub s p).events = s.events := rfl

theorem shape_publishTail (s0 s : State) (p : Pub) (he : s.events = s0.events) : Shape s0 (publishTail s p) :=
  shape_one _ _ _ _ he rfl

theorem shape_publishWithId (s0 s : State) (p : Pub) (he : s.events = s0.events) : Shape s0 (publishWithId s p) := by
  unfold publishWithId
  split
  · exact shape_nil _ _ _ he (Or.inr rfl)
  · split
    · refine ⟨[.outgoing (.awaitAck p.pkid)], by simp [State.pushOut, State.pushEv, he], by simp [isIncomingEv], Or.inr ?_⟩
      simp [announced, expectedAnn, isIncomingEv, isAwaitAck]
    · split
      · exact shape_nil _ _ _ he (Or.inl rfl)
      · exact shape_publishTail _ _ _ (by rw [storePub_events]; exact he)

theorem shape_pubrelWithId (s0 s : State) (i : Nat) (he : s.events = s0.events) : Shape s0 (pubrelWithId s i) := by
  unfold pubrelWithId
  split
  · split
    · exact shape_nil _ _ _ he (Or.inl rfl)
    · exact shape_one _ _ _ _ he rfl
  · exact shape_nil _ _ _ he (Or.inl rfl)

theorem shape_outgoingPing (s : State) : Shape s (outgoingPing s) := by
  unfold outgoingPing
  simp only
  have he : (if s.collision.isSome = true then { s with collisionPingCount := s.collisionPingCount + 1 } else s).events = s.events := by
    split <;> rfl
  generalize (if s.collision.isSome = true then { s with collisionPingCount := s.collisionPingCount + 1 } else s) = s1 at he
  split
  · exact shape_nil _ _ _ he (Or.inr rfl)
  · split
    · exact shape_nil _ _ _ he (Or.inr rfl)
    · exact shape_one s { s1 with awaitPingresp := true } _ _ he rfl

/-- every request: only `Outgoing` events, announcing exactly the packet written (both versions) -/
theorem shape_handleOutgoing (s : State) (r : Request) : Shape s (handleOutgoing s r) := by
  unfold handleOutgoing
  cases r with
  | publish p =>
    simp only [outgoingPublish]
    split
    · exact shape_nil _ _ _ rfl (Or.inr rfl)
    · split
      · exact shape_publishTail _ _ _ rfl
      · split
        · split
          · exact shape_nil _ _ _ rfl (Or.inl rfl)
          · exact shape_publishWithId _ _ _ (nextPkidSt_events s)
        · exact shape_publishWithId _ _ _ rfl
  | pubrel i =>
    simp only [outgoingPubrel]
    split
    · split
      · exact shape_nil _ _ _ rfl (Or.inl rfl)
      · exact shape_pubrelWithId _ _ _ (nextPkidSt_events s)
    · exact shape_pubrelWithId _ _ _ rfl
  | subscribe n =>
    simp only [outgoingSubscribe]
    split
    · exact shape_nil _ _ _ rfl (Or.inr rfl)
    · split
      · exact shape_nil _ _ _ rfl (Or.inl rfl)
      · exact shape_one _ _ _ _ (nextPkidSt_events s) rfl
  | unsubscribe =>
    simp only [outgoingUnsubscribe]
    split
    · exact shape_nil _ _ _ rfl (Or.inl rfl)
    · exact shape_one _ _ _ _ (nextPkidSt_events s) rfl
  | pingreq => exact shape_outgoingPing s
  | disconnect => exact shape_one _ _ _ _ rfl rfl
  | puback i => exact shape_one _ _ _ _ rfl rfl
  | pubrec i => exact shape_one _ _ _ _ rfl rfl
  | other => exact shape_nil _ _ _ rfl (Or.inl rfl)

theorem shape_release (s0 s : State) (i : Nat) (he : s.events = s0.events) : Shape s0 (release s i) := by
  unfold release
  split
  · split
    · exact shape_one s0 (storePub { s with collision := none, collisionPingCount := 0 } _) _ _ he rfl
    · exact shape_nil _ _ _ he (Or.inr rfl)
  · exact shape_nil _ _ _ he (Or.inr rfl)

theorem shape_handlePuback (s : State) (i : Nat) : Shape s (handlePuback s i) := by
  unfold handlePuback
  split
  · exact shape_nil _ _ _ rfl (Or.inr rfl)
  · exact shape_nil _ _ _ rfl (Or.inr rfl)
  · split
    · exact shape_nil _ _ _ rfl (Or.inl rfl)
    · exact shape_release _ _ _ rfl

theorem shape_handlePubrec (s : State) (i r : Nat) : Shape s (handlePubrec s i r) := by
  unfold handlePubrec
  split
  · exact shape_nil _ _ _ rfl (Or.inr rfl)
  · exact shape_nil _ _ _ rfl (Or.inr rfl)
  · simp only
    split
    · split
      · exact shape_nil _ _ _ rfl (Or.inl rfl)
      · exact shape_release _ _ _ rfl
    · split
      · exact shape_one s { s with outgoingPub := _, outgoingRel := _ } _ _ rfl rfl
      · exact shape_nil _ _ _ rfl (Or.inl rfl)

theorem shape_handlePubrel (s : State) (i : Nat) : Shape s (handlePubrel s i) := by
  unfold handlePubrel
  split
  · exact shape_one s { s with incomingPub := _ } _ _ rfl rfl
  · exact shape_nil _ _ _ rfl (Or.inr rfl)

theorem shape_handlePubcomp (s : State) (i : Nat) : Shape s (handlePubcomp s i) := by
  unfold handlePubcomp
  split
  · split
    · exact shape_nil _ _ _ rfl (Or.inl rfl)
    · exact shape_release _ _ _ rfl
  · exact shape_nil _ _ _ rfl (Or.inr rfl)

theorem publishAlias_events {s s1 : State} {p : InPub} (h : publishAlias s p = some s1) : s1.events = s.events := by
  unfold publishAlias at h
  split at h
  · cases h; rfl
  · split at h
    · cases h; rfl
    · split at h
      · cases h; split <;> rfl
      · split at h
        · cases h; rfl
        · cases h

theorem shape_handlePublish (s : State) (p : InPub) : Shape s (handlePublish s p) := by
  unfold handlePublish
  split
  · exact shape_one _ _ _ _ rfl rfl
  · rename_i s1 hs1
    have he := publishAlias_events hs1
    split
    · exact shape_nil _ _ _ he (Or.inr rfl)
    · split
      · split
        · exact shape_one _ _ _ _ he rfl
        · exact shape_nil _ _ _ he (Or.inr rfl)
      · simp only
        have he1 : (if s1.incomingPub.contains p.pkid = true then s1 else { s1 with incomingPub := p.pkid :: s1.incomingPub }).events = s.events := by
          split
          · exact he
          · exact he
        generalize (if s1.incomingPub.contains p.pkid = true then s1 else { s1 with incomingPub := p.pkid :: s1.incomingPub }) = s2 at he1
        split
        · exact shape_one _ _ _ _ he1 rfl
        · exact shape_nil _ _ _ he1 (Or.inr rfl)

theorem handleConnack_events (s : State) (ok : Bool) (rm am : Option Nat) :
    (handleConnack s ok rm am).1.events = s.events ∧ expectedAnn (handleConnack s ok rm am).2 = [] := by
  unfold handleConnack
  split
  · exact ⟨rfl, rfl⟩
  · cases rm <;> cases am <;> exact ⟨rfl, rfl⟩

/-- result of `handle_incoming_packet`: the packet is surfaced once, first, then only `Outgoing`
    events which announce exactly the packet returned -/
def InShape (s0 : State) (p : Incoming) (r : State × Outcome) : Prop :=
  ∃ outs : List Event, r.1.events = s0.events ++ .incoming p :: outs ∧ (∀ e ∈ outs, isIncomingEv e = false) ∧
    (r.2 = .panic ∨ announced outs = expectedAnn r.2)

theorem Shape.toIn {s0 : State} {p : Incoming} {r : State × Outcome} (h : Shape (s0.pushEv (.incoming p)) r) :
    InShape s0 p r := by
  obtain ⟨o, a, b, c⟩ := h
  exact ⟨o, by simp [a, State.pushEv], b, c⟩

/-- every incoming packet, both versions, every state -/
theorem shape_handleIncoming (s0 : State) (p : Incoming) : InShape s0 p (handleIncoming s0 p) := by
  unfold handleIncoming
  simp only
  cases p with
  | pingresp => exact (shape_nil _ { s0.pushEv _ with awaitPingresp := false } _ rfl (Or.inr rfl)).toIn
  | publish q => exact (shape_handlePublish _ q).toIn
  | suback _ => exact (shape_nil _ _ _ rfl (Or.inr rfl)).toIn
  | unsuback _ => exact (shape_nil _ _ _ rfl (Or.inr rfl)).toIn
  | puback i r => exact (shape_handlePuback _ i).toIn
  | pubrec i r => exact (shape_handlePubrec _ i r).toIn
  | pubrel i r => exact (shape_handlePubrel _ i).toIn
  | pubcomp i r => exact (shape_handlePubcomp _ i).toIn
  | connack ok sp rm am =>
    apply Shape.toIn
    simp only
    split
    · exact shape_nil _ _ _ rfl (Or.inr rfl)
    · have := handleConnack_events (s0.pushEv (.incoming (.connack ok sp rm am))) ok rm am
      exact shape_nil _ _ _ this.1 (Or.inr this.2)
  | disconnect _ => apply Shape.toIn; simp only; split <;> exact shape_nil _ _ _ rfl (Or.inr rfl)
  | connect => exact (shape_nil _ _ _ rfl (Or.inr rfl)).toIn
  | subscribe => exact (shape_nil _ _ _ rfl (Or.inr rfl)).toIn
  | unsubscribe => exact (shape_nil _ _ _ rfl (Or.inr rfl)).toIn
  | pingreq => exact (shape_nil _ _ _ rfl (Or.inr rfl)).toIn
  | auth => exact (shape_nil _ _ _ rfl (Or.inr rfl)).toIn

/-! ### panic-freedom of every incoming packet -/

theorem occ_pos_of_slot (l : List (Option Pub)) (i : Nat) (p : Pub) (h : l[i]? = some (some p)) : 0 < occ l := by
  have := occ_set_none l i p h; omega

theorem relCount_pos_of_bit (l : List Bool) (i : Nat) (h : l[i]? = some true) : 0 < relCount l := by
  have := relCount_set_false l i h; omega

theorem release_noPanic (s : State) (i : Nat) : (release s i).2 ≠ .panic := by
  unfold release
  split
  · split <;> simp
  · simp

theorem handlePuback_noPanic {s : State} (h : SInv s) (i : Nat) : (handlePuback s i).2 ≠ .panic := by
  unfold handlePuback
  split
  · simp
  · simp
  · rename_i x hslot
    have := occ_pos_of_slot _ _ _ hslot
    have := h.counter
    split
    · omega
    · exact release_noPanic _ _

theorem handlePubrec_noPanic {s : State} (h : SInv s) (i r : Nat) : (handlePubrec s i r).2 ≠ .panic := by
  unfold handlePubrec
  split
  · simp
  · simp
  · rename_i x hslot
    have hpos := occ_pos_of_slot _ _ _ hslot
    have hcnt := h.counter
    have hlt := getElem?_lt_of_some hslot
    have := h.lenPub; have := h.lenRel
    simp only
    split
    · split
      · rename_i h0
        have h0' : s.inflight = 0 := h0
        omega
      · exact release_noPanic _ _
    · split
      · simp
      · rename_i hlen; simp at hlen; omega

theorem handlePubrel_noPanic (s : State) (i : Nat) : (handlePubrel s i).2 ≠ .panic := by
  unfold handlePubrel
  split <;> simp

theorem handlePubcomp_noPanic {s : State} (h : SInv s) (i : Nat) : (handlePubcomp s i).2 ≠ .panic := by
  unfold handlePubcomp
  split
  · rename_i hc
    have := relCount_pos_of_bit _ _ ((relContains_eq s i).mp hc)
    have := h.counter
    split
    · omega
    · exact release_noPanic _ _
  · simp

theorem handlePublish_noPanic (s : State) (p : InPub) : (handlePublish s p).2 ≠ .panic := by
  unfold handlePublish
  split
  · simp [outgoingDisconnect]
  · simp only
    split
    · simp
    · split
      · split <;> simp [outgoingPuback]
      · split <;> split <;> simp [outgoingPubrec]

/-- C10: no incoming packet of any type or id makes the state machine panic -/
theorem handleIncoming_noPanic {s : State} (h : SInv s) (p : Incoming) : (handleIncoming s p).2 ≠ .panic := by
  unfold handleIncoming
  have h0 := h.pushEv (.incoming p)
  generalize s.pushEv (.incoming p) = s0 at h0
  simp only
  cases p with
  | pingresp => simp
  | publish q => exact handlePublish_noPanic _ q
  | suback _ => simp
  | unsuback _ => simp
  | puback i r => exact handlePuback_noPanic h0 i
  | pubrec i r => exact handlePubrec_noPanic h0 i r
  | pubrel i r => exact handlePubrel_noPanic _ i
  | pubcomp i r => exact handlePubcomp_noPanic h0 i
  | connack ok sp rm am =>
    simp only
    split
    · simp
    · unfold handleConnack; split <;> simp
  | disconnect _ => simp only; split <;> simp
  | connect => simp
  | subscribe => simp
  | unsubscribe => simp
  | pingreq => simp
  | auth => simp

end Client
