/-
Per-call facts behind C10 (hold for every state and every packet / request; no assumption on
the history): the shape of the events a call appends, the answer table, panic-freedom of every
incoming packet under the structural invariant.
-/
import Proofs.Lemmas.ClientSInv
namespace Client
open Client.Spec

/-- what a call should announce: exactly the packet it returns -/
def expectedAnn : Outcome → List Event
  | .ok (some pkt) => [.outgoing (outgoingOf pkt)]
  | _ => []

/-- `r` (result of a call on `s`) appended only `Outgoing` events, and they announce exactly the
    returned packet (`AwaitAck` excepted) -/
def Shape (s : State) (r : State × Outcome) : Prop :=
  ∃ outs : List Event, r.1.events = s.events ++ outs ∧ (∀ e ∈ outs, isIncomingEv e = false) ∧
    (r.2 = .panic ∨ announced outs = expectedAnn r.2)

/-- same without the exactness clause (what still holds in the v5 corner cases) -/
def ShapeW (s : State) (r : State × Outcome) : Prop :=
  ∃ outs : List Event, r.1.events = s.events ++ outs ∧ (∀ e ∈ outs, isIncomingEv e = false)

theorem Shape.weak {s r} (h : Shape s r) : ShapeW s r := by
  obtain ⟨o, a, b, _⟩ := h; exact ⟨o, a, b⟩

theorem shape_nil (s s' : State) (o : Outcome) (he : s'.events = s.events)
    (ho : o = .panic ∨ expectedAnn o = []) : Shape s (s', o) := by
  refine ⟨[], by simp [he], by simp, ?_⟩
  rcases ho with h | h
  · exact Or.inl h
  · exact Or.inr (by simp [announced, h])

theorem shape_one (s s' : State) (og : Outgoing) (pkt : Packet) (he : s'.events = s.events)
    (hm : outgoingOf pkt = og) : Shape s (s'.pushOut og, .ok (some pkt)) := by
  refine ⟨[.outgoing og], by simp [State.pushOut, State.pushEv, he], by simp [isIncomingEv], Or.inr ?_⟩
  cases og <;> simp_all [announced, expectedAnn, isIncomingEv, isAwaitAck] <;> cases pkt <;> simp_all [outgoingOf]

theorem nextPkidSt_events (s : State) : (nextPkidSt s).events = s.events := by
  unfold nextPkidSt; split <;> rfl

theorem shape_publishTail (s0 s : State) (p : Pub) (he : s.events = s0.events) : Shape s0 (publishTail s p) := by
  unfold publishTail
  split
  · split
    · exact shape_nil _ _ _ he (Or.inr rfl)
    · exact shape_one _ _ _ _ he rfl
  · exact shape_one _ _ _ _ he rfl

theorem shape_publishWithId (s0 s : State) (p : Pub) (he : s.events = s0.events) : Shape s0 (publishWithId s p) := by
  unfold publishWithId
  split
  · exact shape_nil _ _ _ he (Or.inr rfl)
  · refine ⟨[.outgoing (.awaitAck p.pkid)], by simp [State.pushOut, State.pushEv, he], by simp [isIncomingEv], Or.inr ?_⟩
    simp [announced, expectedAnn, isIncomingEv, isAwaitAck]
  · split
    · exact shape_nil _ _ _ he (Or.inl rfl)
    · exact shape_publishTail _ _ _ he

theorem shape_pubrelWithId (s0 s : State) (i : Nat) (he : s.events = s0.events) : Shape s0 (pubrelWithId s i) := by
  unfold pubrelWithId
  split
  · split
    · exact shape_nil _ _ _ he (Or.inl rfl)
    · exact shape_one _ _ _ _ he rfl
  · exact shape_nil _ _ _ he (Or.inl rfl)

theorem shape_outgoingPing (s : State) : Shape s (outgoingPing s) := by
  unfold outgoingPing
  simp only
  have he : (if s.collision.isSome = true then { s with collisionPingCount := s.collisionPingCount + 1 } else s).events = s.events := by
    split <;> rfl
  generalize (if s.collision.isSome = true then { s with collisionPingCount := s.collisionPingCount + 1 } else s) = s1 at he
  split
  · exact shape_nil _ _ _ he (Or.inr rfl)
  · split
    · exact shape_nil _ _ _ he (Or.inr rfl)
    · exact shape_one s { s1 with awaitPingresp := true } _ _ he rfl

/-- every request: only `Outgoing` events, announcing exactly the packet written (both versions) -/
theorem shape_handleOutgoing (s : State) (r : Request) : Shape s (handleOutgoing s r) := by
  unfold handleOutgoing
  cases r with
  | publish p =>
    simp only [outgoingPublish]
    split
    · exact shape_publishTail _ _ _ rfl
    · split
      · split
        · exact shape_nil _ _ _ rfl (Or.inl rfl)
        · exact shape_publishWithId _ _ _ (nextPkidSt_events s)
      · exact shape_publishWithId _ _ _ rfl
  | pubrel i =>
    simp only [outgoingPubrel]
    split
    · split
      · exact shape_nil _ _ _ rfl (Or.inl rfl)
      · exact shape_pubrelWithId _ _ _ (nextPkidSt_events s)
    · exact shape_pubrelWithId _ _ _ rfl
  | subscribe n =>
    simp only [outgoingSubscribe]
    split
    · exact shape_nil _ _ _ rfl (Or.inr rfl)
    · split
      · exact shape_nil _ _ _ rfl (Or.inl rfl)
      · exact shape_one _ _ _ _ (nextPkidSt_events s) rfl
  | unsubscribe =>
    simp only [outgoingUnsubscribe]
    split
    · exact shape_nil _ _ _ rfl (Or.inl rfl)
    · exact shape_one _ _ _ _ (nextPkidSt_events s) rfl
  | pingreq => exact shape_outgoingPing s
  | disconnect => exact shape_one _ _ _ _ rfl rfl
  | puback i => exact shape_one _ _ _ _ rfl rfl
  | pubrec i => exact shape_one _ _ _ _ rfl rfl
  | other => exact shape_nil _ _ _ rfl (Or.inl rfl)

theorem shape_pubackCollision (s0 s : State) (i : Nat) (he : s.events = s0.events) : Shape s0 (pubackCollision s i) := by
  unfold pubackCollision
  split
  · split
    · exact shape_one s0 { s with collision := none, outgoingPub := _, inflight := _, collisionPingCount := 0 } _ _ he rfl
    · exact shape_nil _ _ _ he (Or.inr rfl)
  · exact shape_nil _ _ _ he (Or.inr rfl)

theorem shape_handlePuback (s : State) (i r : Nat) : Shape s (handlePuback s i r) := by
  unfold handlePuback
  split
  · exact shape_nil _ _ _ rfl (Or.inr rfl)
  · have he : (if s.ver = Version.v4 then { s with lastPuback := i } else s).events = s.events := by
      split <;> rfl
    generalize (if s.ver = Version.v4 then { s with lastPuback := i } else s) = s1 at he
    simp only
    split
    · exact shape_nil _ _ _ he (Or.inr rfl)
    · split
      · exact shape_nil _ _ _ he (Or.inl rfl)
      · split
        · exact shape_nil _ _ _ he (Or.inr rfl)
        · exact shape_pubackCollision _ _ _ he

theorem shape_handlePubrec (s : State) (i r : Nat) : Shape s (handlePubrec s i r) := by
  unfold handlePubrec
  split
  · exact shape_nil _ _ _ rfl (Or.inr rfl)
  · exact shape_nil _ _ _ rfl (Or.inr rfl)
  · simp only
    split
    · exact shape_nil _ _ _ rfl (Or.inr rfl)
    · split
      · exact shape_one s { s with outgoingPub := _, outgoingRel := _ } _ _ rfl rfl
      · exact shape_nil _ _ _ rfl (Or.inl rfl)

theorem shape_handlePubrel (s : State) (i r : Nat) : Shape s (handlePubrel s i r) := by
  unfold handlePubrel
  split
  · simp only
    split
    · exact shape_nil _ _ _ rfl (Or.inr rfl)
    · exact shape_one s { s with incomingPub := _ } _ _ rfl rfl
  · exact shape_nil _ _ _ rfl (Or.inr rfl)

theorem shape_handlePubcompV4 (s : State) (i : Nat) : Shape s (handlePubcompV4 s i) := by
  unfold handlePubcompV4
  split
  · split
    · exact shape_nil _ _ _ rfl (Or.inl rfl)
    · simp only
      split
      · split
        · exact shape_one s { s with outgoingRel := _, inflight := _, collision := none, collisionPingCount := 0 } _ _ rfl rfl
        · exact shape_nil _ _ _ rfl (Or.inr rfl)
      · exact shape_nil _ _ _ rfl (Or.inr rfl)
  · exact shape_nil _ _ _ rfl (Or.inr rfl)


theorem pubcompTakeCollision_rel (s : State) (i j : Nat) : relContains (pubcompTakeCollision s i) j = relContains s j := by
  unfold pubcompTakeCollision
  split
  · split <;> rfl
  · rfl

theorem shapeW_handlePubcompV5 (s : State) (i r : Nat) : ShapeW s (handlePubcompV5 s i r) := by
  unfold handlePubcompV5
  have h1 : ∃ outs : List Event, (pubcompTakeCollision s i).events = s.events ++ outs ∧ ∀ e ∈ outs, isIncomingEv e = false := by
    unfold pubcompTakeCollision
    split
    · split
      · exact ⟨[_], rfl, by simp [isIncomingEv]⟩
      · exact ⟨[], by simp, by simp⟩
    · exact ⟨[], by simp, by simp⟩
  obtain ⟨outs, h1, h2⟩ := h1
  simp only
  split
  · split
    · exact ⟨outs, h1, h2⟩
    · split
      · exact ⟨outs, h1, h2⟩
      · exact ⟨outs, h1, h2⟩
  · exact ⟨outs, h1, h2⟩

theorem shape_handlePubcompV5 (s : State) (i r : Nat) (hn : ¬ pubcompDropsCollision s i r) :
    Shape s (handlePubcompV5 s i r) := by
  unfold handlePubcompV5
  simp only
  by_cases hc : ∃ c, s.collision = some c ∧ c.pkid = i
  · obtain ⟨c, hc1, hc2⟩ := hc
    have hrel : relContains s i = true ∧ r = 0 := by
      constructor
      · cases h : relContains s i with
        | true => rfl
        | false => exact absurd ⟨c, hc1, hc2, Or.inl h⟩ hn
      · cases Nat.decEq r 0 with
        | isTrue h => exact h
        | isFalse h => exact absurd ⟨c, hc1, hc2, Or.inr h⟩ hn
    rw [pubcompTakeCollision_rel, hrel.1]
    simp only [if_true, hrel.2]
    have ht : pubcompTakeCollision s i = { s with collision := none, collisionPingCount := 0 }.pushOut (.publish c.pkid) := by
      simp [pubcompTakeCollision, hc1, hc2]
    have hk : pubcompTaken s i = some (.publish c) := by simp [pubcompTaken, hc1, hc2]
    rw [ht, hk]
    simp only [bne_self_eq_false, Bool.false_eq_true, if_false]
    split
    · exact ⟨[_], rfl, by simp [isIncomingEv], Or.inl rfl⟩
    · refine ⟨[.outgoing (.publish c.pkid)], rfl, by simp [isIncomingEv], Or.inr ?_⟩
      simp [announced, expectedAnn, isIncomingEv, isAwaitAck, outgoingOf]
  · have ht : pubcompTakeCollision s i = s := by
      unfold pubcompTakeCollision
      split
      · rename_i c hc1
        split
        · rename_i hc2; exact absurd ⟨c, hc1, hc2⟩ hc
        · rfl
      · rfl
    have hk : pubcompTaken s i = none := by
      unfold pubcompTaken
      split
      · rename_i c hc1
        split
        · rename_i hc2; exact absurd ⟨c, hc1, hc2⟩ hc
        · rfl
      · rfl
    rw [ht, hk]
    split
    · split
      · exact shape_nil _ _ _ rfl (Or.inr rfl)
      · split
        · exact shape_nil _ _ _ rfl (Or.inl rfl)
        · exact shape_nil _ _ _ rfl (Or.inr rfl)
    · exact shape_nil _ _ _ rfl (Or.inr rfl)


theorem publishAlias_events (s : State) (p : InPub) (hn : ¬ unknownAlias s p) :
    (publishAlias s p).events = s.events := by
  unfold publishAlias
  split
  · rfl
  · rename_i hv
    split
    · rfl
    · rename_i a ha
      split
      · split <;> rfl
      · rename_i he
        split
        · rfl
        · rename_i hc
          exfalso; apply hn
          refine ⟨hv, a, ha, by simpa using he, by simpa using hc⟩

theorem publishAlias_eventsW (s : State) (p : InPub) :
    ∃ outs : List Event, (publishAlias s p).events = s.events ++ outs ∧ ∀ e ∈ outs, isIncomingEv e = false := by
  unfold publishAlias
  split
  · exact ⟨[], by simp, by simp⟩
  · split
    · exact ⟨[], by simp, by simp⟩
    · split
      · split <;> exact ⟨[], by simp, by simp⟩
      · split
        · exact ⟨[], by simp, by simp⟩
        · exact ⟨[_], rfl, by simp [isIncomingEv]⟩

theorem shape_handlePublish_aux (s0 s : State) (p : InPub) (he : s.events = s0.events) :
    Shape s0 (
      if p.qos = 0 then (s, Outcome.ok none)
      else if p.qos = 1 then
        if !s.manualAcks then outgoingPuback s p.pkid else (s, .ok none)
      else
        let s1 := if s.incomingPub.contains p.pkid then s else { s with incomingPub := p.pkid :: s.incomingPub }
        if !s1.manualAcks then outgoingPubrec s1 p.pkid else (s1, .ok none)) := by
  split
  · exact shape_nil _ _ _ he (Or.inr rfl)
  · split
    · split
      · exact shape_one _ _ _ _ he rfl
      · exact shape_nil _ _ _ he (Or.inr rfl)
    · simp only
      have he1 : (if s.incomingPub.contains p.pkid = true then s else { s with incomingPub := p.pkid :: s.incomingPub }).events = s0.events := by
        split
        · exact he
        · exact he
      generalize (if s.incomingPub.contains p.pkid = true then s else { s with incomingPub := p.pkid :: s.incomingPub }) = s1 at he1
      split
      · exact shape_one _ _ _ _ he1 rfl
      · exact shape_nil _ _ _ he1 (Or.inr rfl)

theorem shape_handlePublish (s : State) (p : InPub) (hn : ¬ unknownAlias s p) : Shape s (handlePublish s p) := by
  unfold handlePublish
  exact shape_handlePublish_aux s _ p (publishAlias_events s p hn)

theorem shapeW_handlePublish (s : State) (p : InPub) : ShapeW s (handlePublish s p) := by
  unfold handlePublish
  obtain ⟨o1, h1, h2⟩ := publishAlias_eventsW s p
  obtain ⟨o2, g1, g2, _⟩ := shape_handlePublish_aux (publishAlias s p) (publishAlias s p) p rfl
  refine ⟨o1 ++ o2, ?_, ?_⟩
  · simp only at g1 ⊢
    rw [g1, h1, List.append_assoc]
  · intro e he
    rcases List.mem_append.mp he with h | h
    · exact h2 e h
    · exact g2 e h

theorem handleConnack_events (s : State) (ok : Bool) (rm am : Option Nat) :
    (handleConnack s ok rm am).1.events = s.events ∧ expectedAnn (handleConnack s ok rm am).2 = [] := by
  unfold handleConnack
  split
  · exact ⟨rfl, rfl⟩
  · cases rm <;> cases am <;> exact ⟨rfl, rfl⟩


/-- result of `handle_incoming_packet`: the packet is surfaced once, first, then only `Outgoing`
    events which announce exactly the packet returned -/
def InShape (s0 : State) (p : Incoming) (r : State × Outcome) : Prop :=
  ∃ outs : List Event, r.1.events = s0.events ++ .incoming p :: outs ∧ (∀ e ∈ outs, isIncomingEv e = false) ∧
    (r.2 = .panic ∨ announced outs = expectedAnn r.2)

def InShapeW (s0 : State) (p : Incoming) (r : State × Outcome) : Prop :=
  ∃ outs : List Event, r.1.events = s0.events ++ .incoming p :: outs ∧ (∀ e ∈ outs, isIncomingEv e = false)

theorem Shape.toIn {s0 : State} {p : Incoming} {r : State × Outcome} (h : Shape (s0.pushEv (.incoming p)) r) :
    InShape s0 p r := by
  obtain ⟨o, a, b, c⟩ := h
  exact ⟨o, by simp [a, State.pushEv], b, c⟩

theorem ShapeW.toIn {s0 : State} {p : Incoming} {r : State × Outcome} (h : ShapeW (s0.pushEv (.incoming p)) r) :
    InShapeW s0 p r := by
  obtain ⟨o, a, b⟩ := h
  exact ⟨o, by simp [a, State.pushEv], b⟩

theorem shape_handleIncoming (s0 : State) (p : Incoming) (hn : ¬ announcesUnwritten s0 p) :
    InShape s0 p (handleIncoming s0 p) := by
  unfold handleIncoming
  simp only
  cases p with
  | pingresp => exact (shape_nil _ { s0.pushEv _ with awaitPingresp := false } _ rfl (Or.inr rfl)).toIn
  | publish q =>
    apply Shape.toIn
    apply shape_handlePublish
    intro hu
    cases hv : s0.ver with
    | v4 => have := hu.1; simp [State.pushEv, hv] at this
    | v5 => exact hn ⟨hv, hu⟩
  | suback _ => exact (shape_nil _ _ _ rfl (Or.inr rfl)).toIn
  | unsuback _ => exact (shape_nil _ _ _ rfl (Or.inr rfl)).toIn
  | puback i r => exact (shape_handlePuback _ i r).toIn
  | pubrec i r => exact (shape_handlePubrec _ i r).toIn
  | pubrel i r => exact (shape_handlePubrel _ i r).toIn
  | pubcomp i r =>
    apply Shape.toIn
    simp only [handlePubcomp]
    split
    · exact shape_handlePubcompV4 _ i
    · rename_i hv
      apply shape_handlePubcompV5
      intro hd
      exact hn ⟨hv, hd⟩
  | connack ok sp rm am =>
    apply Shape.toIn
    simp only
    split
    · exact shape_nil _ _ _ rfl (Or.inr rfl)
    · have := handleConnack_events (s0.pushEv (.incoming (.connack ok sp rm am))) ok rm am
      exact shape_nil _ _ _ this.1 (Or.inr this.2)
  | disconnect _ => apply Shape.toIn; simp only; split <;> exact shape_nil _ _ _ rfl (Or.inr rfl)
  | connect => exact (shape_nil _ _ _ rfl (Or.inr rfl)).toIn
  | subscribe => exact (shape_nil _ _ _ rfl (Or.inr rfl)).toIn
  | unsubscribe => exact (shape_nil _ _ _ rfl (Or.inr rfl)).toIn
  | pingreq => exact (shape_nil _ _ _ rfl (Or.inr rfl)).toIn
  | auth => exact (shape_nil _ _ _ rfl (Or.inr rfl)).toIn

theorem shapeW_handleIncoming (s0 : State) (p : Incoming) : InShapeW s0 p (handleIncoming s0 p) := by
  unfold handleIncoming
  simp only
  cases p with
  | publish q => exact (shapeW_handlePublish _ q).toIn
  | pubcomp i r =>
    apply ShapeW.toIn
    simp only [handlePubcomp]
    split
    · exact (shape_handlePubcompV4 _ i).weak
    · exact shapeW_handlePubcompV5 _ i r
  | pingresp => exact (shape_nil _ { s0.pushEv _ with awaitPingresp := false } _ rfl (Or.inr rfl)).weak.toIn
  | suback _ => exact (shape_nil _ _ _ rfl (Or.inr rfl)).weak.toIn
  | unsuback _ => exact (shape_nil _ _ _ rfl (Or.inr rfl)).weak.toIn
  | puback i r => exact (shape_handlePuback _ i r).weak.toIn
  | pubrec i r => exact (shape_handlePubrec _ i r).weak.toIn
  | pubrel i r => exact (shape_handlePubrel _ i r).weak.toIn
  | connack ok sp rm am =>
    apply ShapeW.toIn
    simp only
    split
    · exact (shape_nil _ _ _ rfl (Or.inr rfl)).weak
    · have := handleConnack_events (s0.pushEv (.incoming (.connack ok sp rm am))) ok rm am
      exact (shape_nil _ _ _ this.1 (Or.inr this.2)).weak
  | disconnect _ => apply ShapeW.toIn; simp only; split <;> exact (shape_nil _ _ _ rfl (Or.inr rfl)).weak
  | connect => exact (shape_nil _ _ _ rfl (Or.inr rfl)).weak.toIn
  | subscribe => exact (shape_nil _ _ _ rfl (Or.inr rfl)).weak.toIn
  | unsubscribe => exact (shape_nil _ _ _ rfl (Or.inr rfl)).weak.toIn
  | pingreq => exact (shape_nil _ _ _ rfl (Or.inr rfl)).weak.toIn
  | auth => exact (shape_nil _ _ _ rfl (Or.inr rfl)).weak.toIn

/-! ### panic-freedom of every incoming packet -/

/-- tables and counter untouched -/
def SFrame' (s s' : State) : Prop :=
  s'.outgoingRel = s.outgoingRel ∧ s'.inflight = s.inflight ∧ s'.outgoingPub = s.outgoingPub


theorem occ_pos_of_slot (l : List (Option Pub)) (i : Nat) (p : Pub) (h : l[i]? = some (some p)) : 0 < occ l := by
  have := occ_set_none l i p h; omega

theorem relCount_pos_of_bit (l : List Bool) (i : Nat) (h : l[i]? = some true) : 0 < relCount l := by
  have := relCount_set_false l i h; omega

theorem handlePuback_noPanic {s : State} (h : SInv s) (i r : Nat) : (handlePuback s i r).2 ≠ .panic := by
  unfold handlePuback
  split
  · simp
  · rename_i slot hslot
    have hinf : (if s.ver = Version.v4 then { s with lastPuback := i } else s).inflight = s.inflight := by
      split <;> rfl
    generalize (if s.ver = Version.v4 then { s with lastPuback := i } else s) = s1 at hinf
    simp only
    split
    · simp
    · rename_i p
      have := occ_pos_of_slot _ _ _ hslot
      have := h.counter
      split
      · omega
      · split
        · simp
        · unfold pubackCollision
          split
          · split <;> simp
          · simp

theorem handlePubrec_noPanic {s : State} (h : SInv s) (i r : Nat) : (handlePubrec s i r).2 ≠ .panic := by
  unfold handlePubrec
  split
  · simp
  · simp
  · rename_i p hslot
    simp only
    split
    · simp
    · split
      · simp
      · rename_i hlen
        have : i < s.outgoingPub.length := by
          rcases Nat.lt_or_ge i s.outgoingPub.length with h' | h'
          · exact h'
          · simp [List.getElem?_eq_none h'] at hslot
        have := h.lenPub; have := h.lenRel
        simp at hlen; omega

theorem handlePubrel_noPanic (s : State) (i r : Nat) : (handlePubrel s i r).2 ≠ .panic := by
  unfold handlePubrel
  split
  · simp only; split <;> simp
  · simp

theorem handlePubcompV4_noPanic {s : State} (h : SInv s) (i : Nat) : (handlePubcompV4 s i).2 ≠ .panic := by
  unfold handlePubcompV4
  split
  · rename_i hc
    have := relCount_pos_of_bit _ _ ((relContains_eq s i).mp hc)
    have := h.counter
    split
    · omega
    · simp only
      split
      · split <;> simp
      · simp
  · simp

theorem pubcompTakeCollision_frame (s : State) (i : Nat) : SFrame' s (pubcompTakeCollision s i) := by
  unfold pubcompTakeCollision SFrame'
  split
  · split <;> simp [State.pushOut, State.pushEv]
  · simp

theorem handlePubcompV5_noPanic {s : State} (h : SInv s) (i r : Nat) : (handlePubcompV5 s i r).2 ≠ .panic := by
  unfold handlePubcompV5
  simp only
  obtain ⟨f1, f2, f3⟩ := pubcompTakeCollision_frame s i
  split
  · rename_i hc
    have hp := relCount_pos_of_bit _ _ ((relContains_eq _ i).mp hc)
    rw [f1] at hp
    have hcnt := h.counter
    split
    · simp
    · split
      · rename_i h0
        have h0' : (pubcompTakeCollision s i).inflight = 0 := h0
        rw [f2] at h0'; omega
      · simp
  · simp

theorem handlePublish_noPanic (s : State) (p : InPub) : (handlePublish s p).2 ≠ .panic := by
  unfold handlePublish
  simp only
  split
  · simp
  · split
    · split <;> simp [outgoingPuback]
    · split <;> split <;> simp [outgoingPubrec]

/-- C10: no incoming packet of any type or id makes the state machine panic -/
theorem handleIncoming_noPanic {s : State} (h : SInv s) (p : Incoming) : (handleIncoming s p).2 ≠ .panic := by
  unfold handleIncoming
  have h0 := h.pushEv (.incoming p)
  generalize s.pushEv (.incoming p) = s0 at h0
  simp only
  cases p with
  | pingresp => simp
  | publish q => exact handlePublish_noPanic _ q
  | suback _ => simp
  | unsuback _ => simp
  | puback i r => exact handlePuback_noPanic h0 i r
  | pubrec i r => exact handlePubrec_noPanic h0 i r
  | pubrel i r => exact handlePubrel_noPanic _ i r
  | pubcomp i r =>
    simp only [handlePubcomp]
    split
    · exact handlePubcompV4_noPanic h0 i
    · exact handlePubcompV5_noPanic h0 i r
  | connack ok sp rm am =>
    simp only
    split
    · simp
    · unfold handleConnack; split <;> simp
  | disconnect _ => simp only; split <;> simp
  | connect => simp
  | subscribe => simp
  | unsubscribe => simp
  | pingreq => simp
  | auth => simp

end Client
