/-
Helper lemmas for C16 (server part): the will bookkeeping of `remote()` (`Model/ServerWill.lean`).
Two invariants of `World.run {} ops`:
  `InvA` counting / phase clauses, `InvB` handler map and signals; `NoNewPanic` (a step relation:
  only `taskPanic t` makes task `t` panicked) and the handler map under one admission.
-/
import Model.ServerWill
import Proofs.Lemmas.Router.Assoc

namespace ServerWill
open Router (alookup aremove ainsert)

def willCount : Option Resolution → Nat
  | some r => if publishWillDecision r then 1 else 0
  | none => 0

def discCount : Option Cause → Nat
  | some c => if c.sendDisconnect then 1 else 0
  | none => 0

/-- per-task clauses of the counting invariant -/
structure TaskA (pw sd : Nat) (x : Task) : Prop where
  pw : pw = willCount x.resolution
  sd : sd = discCount x.cause
  resNone : (x.phase = .running ∨ ∃ d, x.phase = .waiting d) → x.resolution = none
  resSome : x.resolution ≠ none → x.linked = true ∧ x.endedAt ≠ none
  wait : (∃ d, x.phase = .waiting d) → x.linked = true ∧ x.endedAt ≠ none
  causeRun : x.phase = .running → x.cause = none

def willsIn (log : List Ev) (t : Nat) : Nat :=
  (log.filter (fun e => match e with | .publishWill t' _ => t' == t | _ => false)).length

def discsIn (log : List Ev) (t : Nat) : Nat :=
  (log.filter (fun e => match e with | .disconnect t' => t' == t | _ => false)).length

theorem publishedWill_eq (w : World) (t : Nat) : w.publishedWill t = willsIn w.log t := rfl
theorem sentDisconnect_eq (w : World) (t : Nat) : w.sentDisconnect t = discsIn w.log t := rfl

structure InvA (w : World) : Prop where
  task : ∀ t x, w.tasks[t]? = some x → TaskA (willsIn w.log t) (discsIn w.log t) x
  out : ∀ t, w.tasks.length ≤ t → willsIn w.log t = 0 ∧ discsIn w.log t = 0

@[simp] theorem willsIn_nil (t : Nat) : willsIn [] t = 0 := rfl
@[simp] theorem discsIn_nil (t : Nat) : discsIn [] t = 0 := rfl

@[simp] theorem willsIn_append (l r : List Ev) (t : Nat) :
    willsIn (l ++ r) t = willsIn l t + willsIn r t := by
  simp [willsIn, List.filter_append]

@[simp] theorem discsIn_append (l r : List Ev) (t : Nat) :
    discsIn (l ++ r) t = discsIn l t + discsIn r t := by
  simp [discsIn, List.filter_append]

@[simp] theorem willsIn_cons (e : Ev) (l : List Ev) (t : Nat) :
    willsIn (e :: l) t =
      (match e with | .publishWill t' _ => if t' = t then 1 else 0 | _ => 0) + willsIn l t := by
  unfold willsIn
  cases e <;> simp [List.filter_cons]
  split <;> simp <;> omega

@[simp] theorem discsIn_cons (e : Ev) (l : List Ev) (t : Nat) :
    discsIn (e :: l) t =
      (match e with | .disconnect t' => if t' = t then 1 else 0 | _ => 0) + discsIn l t := by
  unfold discsIn
  cases e <;> simp [List.filter_cons]
  split <;> simp <;> omega

@[simp] theorem log_setTask (w : World) (u : Nat) (x : Task) : (w.setTask u x).log = w.log := rfl
@[simp] theorem log_emit (w : World) (e : Ev) : (w.emit e).log = w.log ++ [e] := rfl
@[simp] theorem tasks_setTask (w : World) (u : Nat) (x : Task) :
    (w.setTask u x).tasks = w.tasks.set u x := rfl
@[simp] theorem tasks_emit (w : World) (e : Ev) : (w.emit e).tasks = w.tasks := rfl
@[simp] theorem handlers_setTask (w : World) (u : Nat) (x : Task) :
    (w.setTask u x).handlers = w.handlers := rfl
@[simp] theorem handlers_emit (w : World) (e : Ev) : (w.emit e).handlers = w.handlers := rfl
@[simp] theorem now_setTask (w : World) (u : Nat) (x : Task) : (w.setTask u x).now = w.now := rfl
@[simp] theorem now_emit (w : World) (e : Ev) : (w.emit e).now = w.now := rfl

theorem lt_of_getElem?_some {α} {l : List α} {t : Nat} {x : α} (h : l[t]? = some x) : t < l.length := by
  rcases Nat.lt_or_ge t l.length with h1 | h1
  · exact h1
  · simp [List.getElem?_eq_none h1] at h

theorem InvA.update {w w' : World} (h : InvA w) (t : Nat) (x x' : Task) (hx : w.tasks[t]? = some x)
    (ht : w'.tasks = w.tasks.set t x')
    (hother : ∀ u, u ≠ t → willsIn w'.log u = willsIn w.log u ∧ discsIn w'.log u = discsIn w.log u)
    (hnew : TaskA (willsIn w'.log t) (discsIn w'.log t) x') : InvA w' := by
  constructor
  · intro u y hy
    rw [ht, List.getElem?_set] at hy
    by_cases hut : t = u
    · subst hut
      simp [lt_of_getElem?_some hx] at hy; subst hy; exact hnew
    · simp [hut] at hy
      have := hother u (fun e => hut e.symm)
      rw [this.1, this.2]; exact h.task u y hy
  · intro u hu
    rw [ht, List.length_set] at hu
    have hut : u ≠ t := by
      intro e; subst e
      simp [List.getElem?_eq_none hu] at hx
    have := hother u hut
    rw [this.1, this.2]; exact h.out u hu

theorem InvA.append {w w' : World} (h : InvA w) (f : Task)
    (ht : w'.tasks = w.tasks ++ [f])
    (hlog : ∀ u, willsIn w'.log u = willsIn w.log u ∧ discsIn w'.log u = discsIn w.log u)
    (hnew : TaskA 0 0 f) : InvA w' := by
  constructor
  · intro u y hy
    rw [(hlog u).1, (hlog u).2]
    rw [ht, List.getElem?_append] at hy
    split at hy
    · exact h.task u y hy
    · rename_i hu
      have hu' : w.tasks.length ≤ u := Nat.le_of_not_lt hu
      rw [(h.out u hu').1, (h.out u hu').2]
      have : u - w.tasks.length = 0 := by
        rcases Nat.eq_zero_or_pos (u - w.tasks.length) with h0 | h0
        · exact h0
        · rw [List.getElem?_eq_none (by simp; omega)] at hy; simp at hy
      rw [this] at hy; simp at hy; subst hy; exact hnew
  · intro u hu
    rw [ht] at hu; simp at hu
    rw [(hlog u).1, (hlog u).2]
    exact h.out u (by omega)

theorem InvA.init : InvA {} := by
  constructor
  · intro t x h; simp at h
  · intro t _; exact ⟨rfl, rfl⟩

theorem InvA.resolveSignal {w : World} (h : InvA w) {n : Nat} {x : Task} {d : Nat} {s : Signal}
    (hx : w.tasks[n]? = some x) (hw : x.phase = .waiting d) : InvA (w.resolveSignal n x s) := by
  have hx' := h.task n x hx
  have hres := hx'.resNone (Or.inr ⟨d, hw⟩)
  have hwait := hx'.wait ⟨d, hw⟩
  have hpw := hx'.pw
  have hsd := hx'.sd
  rw [hres] at hpw
  simp only [willCount] at hpw
  unfold World.resolveSignal
  cases s <;> simp only
  all_goals
    refine h.update n x _ hx (by simp; rfl) ?_ ?_
    · intro u hu; simp [Ne.symm hu]
    · constructor <;> simp_all [willCount, publishWillDecision]

theorem InvA.resolveTimeout {w : World} (h : InvA w) {n : Nat} {x : Task} {d : Nat}
    (hx : w.tasks[n]? = some x) (hw : x.phase = .waiting d) : InvA (w.resolveTimeout n x) := by
  have hx' := h.task n x hx
  have hres := hx'.resNone (Or.inr ⟨d, hw⟩)
  have hwait := hx'.wait ⟨d, hw⟩
  have hpw := hx'.pw
  have hsd := hx'.sd
  rw [hres] at hpw
  simp only [willCount] at hpw
  unfold World.resolveTimeout
  simp only
  refine h.update n x _ hx (by simp; rfl) ?_ ?_
  · intro u hu; simp [Ne.symm hu]; try exact ⟨rfl, rfl⟩
  · constructor <;> simp_all [willCount, publishWillDecision] <;> rfl

theorem InvA.endLink {w : World} (h : InvA w) (t : Nat) (c : Cause) : InvA (w.endLink t c) := by
  unfold World.endLink
  split
  · exact h
  · rename_i x hx
    simp only [World.task?] at hx
    have hx' := h.task t x hx
    split
    · exact h
    · rename_i hc
      simp at hc
      obtain ⟨hrun, hlinked⟩ := hc
      have hres := hx'.resNone (Or.inl hrun)
      have hcause := hx'.causeRun hrun
      have hpw := hx'.pw
      have hsd := hx'.sd
      rw [hres] at hpw; rw [hcause] at hsd
      simp only [willCount, discCount] at hpw hsd
      simp only
      split
      · -- signal in the inbox
        rename_i s hs
        unfold World.resolveSignal
        cases s <;> cases hsd' : c.sendDisconnect <;> simp only [if_true, if_false, Bool.false_eq_true]
        all_goals
          refine h.update t x _ hx (by simp; rfl) ?_ ?_
          · intro u hu; simp [Ne.symm hu]
          · constructor <;> simp_all [willCount, discCount, publishWillDecision]
      · split
        · unfold World.resolveTimeout
          cases hsd' : c.sendDisconnect <;>
            simp only [if_true, if_false, Bool.false_eq_true]
          all_goals
            refine h.update t x _ hx (by simp; rfl) ?_ ?_
            · intro u hu; simp [Ne.symm hu]; try exact ⟨rfl, rfl⟩
            · constructor <;> simp_all [willCount, discCount, publishWillDecision] <;> rfl
        · cases hsd' : c.sendDisconnect <;> simp only [if_true, if_false, Bool.false_eq_true]
          all_goals
            refine h.update t x _ hx (by simp; rfl) ?_ ?_
            · intro u hu; simp [Ne.symm hu]
            · constructor <;> simp_all [willCount, discCount]

theorem InvA.panicLink {w : World} (h : InvA w) (t : Nat) : InvA (w.panicLink t) := by
  unfold World.panicLink
  split
  · exact h
  · rename_i x hx
    simp only [World.task?] at hx
    have hx' := h.task t x hx
    split
    · exact h
    · rename_i hc
      simp at hc
      have hres := hx'.resNone (Or.inl hc)
      refine h.update t x _ hx (by simp; rfl) ?_ ?_
      · intro u hu; simp
      · obtain ⟨a, b, c, d, e, f⟩ := hx'
        constructor <;> simp_all

theorem InvA.linkStep {w : World} (h : InvA w) (t : Nat) (ok : Bool) : InvA (w.linkStep t ok) := by
  unfold World.linkStep
  split
  · exact h
  · rename_i x hx
    simp only [World.task?] at hx
    have hx' := h.task t x hx
    split
    · exact h
    · rename_i hc
      simp at hc
      have hres := hx'.resNone (Or.inl hc)
      obtain ⟨a, b, c, d, e, f⟩ := hx'
      cases ok <;> simp only [if_true, if_false, Bool.false_eq_true]
      all_goals
        refine h.update t x _ hx (by simp; rfl) ?_ ?_
        · intro u hu; simp
        · constructor <;> simp_all

theorem TaskA.fresh (cid : String) (clean : Bool) (delay : Nat) (ph : Phase)
    (hph : ph = .running ∨ ph = .panicked) :
    TaskA 0 0 { cid := cid, clean := clean, delay := delay, phase := ph } := by
  constructor <;> simp [willCount, discCount]
  rcases hph with h | h <;> simp [h]

theorem InvA.handlerStep {w : World} (h : InvA w) (cid : String) (clean : Bool) (delay : Nat) :
    InvA (w.handlerStep cid clean delay).1 := by
  unfold World.handlerStep
  simp only
  split
  · exact h.append _ rfl (fun _ => ⟨rfl, rfl⟩) (TaskA.fresh _ _ _ _ (Or.inl rfl))
  · rename_i o hlook
    split
    · exact h.append _ rfl (fun _ => ⟨rfl, rfl⟩) (TaskA.fresh _ _ _ _ (Or.inl rfl))
    · rename_i old ho
      simp only [World.task?] at ho
      split
      · have h1 : InvA (({ w with handlers := aremove cid w.handlers } : World).setTask o
            { old with inbox := some (if clean then Signal.fire else Signal.cancel) }) := by
          have hx' := h.task o old ho
          refine h.update o old _ ho rfl ?_ ?_
          · intro u hu; exact ⟨rfl, rfl⟩
          · obtain ⟨a, b, c, d, e, f⟩ := hx'
            constructor <;> simp_all
        exact h1.append _ rfl (fun _ => ⟨rfl, rfl⟩) (TaskA.fresh _ _ _ _ (Or.inl rfl))
      · exact h.append _ rfl (fun _ => ⟨rfl, rfl⟩) (TaskA.fresh _ _ _ _ (Or.inl rfl))

theorem InvA.wake {w : World} (h : InvA w) (n : Nat) : InvA (w.wake n) := by
  induction n with
  | zero => exact h
  | succ n ih =>
    unfold World.wake
    simp only
    split
    · rename_i x hx
      simp only [World.task?] at hx
      split
      · rename_i d s hp hi
        exact ih.resolveSignal hx hp
      · exact ih
    · exact ih

theorem InvA.expire {w : World} (h : InvA w) (n : Nat) : InvA (w.expire n) := by
  induction n with
  | zero => exact h
  | succ n ih =>
    unfold World.expire
    simp only
    split
    · rename_i x hx
      simp only [World.task?] at hx
      split
      · rename_i d hp
        split
        · exact ih.resolveTimeout hx hp
        · exact ih
      · exact ih
    · exact ih

theorem InvA.advance {w : World} (h : InvA w) (ms : Nat) : InvA (w.advance ms) := by
  unfold World.advance
  simp only
  exact InvA.expire (w := { w with now := w.now + ms }) ⟨h.task, h.out⟩ _

theorem InvA.step {w : World} (h : InvA w) (op : Op) : InvA (w.step op) := by
  cases op with
  | admitted cid clean delay linkOk =>
    exact ((h.handlerStep cid clean delay).linkStep _ linkOk).wake _
  | ended t c => exact h.endLink t c
  | taskPanic t => exact h.panicLink t
  | advance ms => exact h.advance ms

theorem InvA.run {w : World} (h : InvA w) (ops : List Op) : InvA (w.run ops) := by
  induction ops generalizing w with
  | nil => exact h
  | cons op ops ih => exact ih (h.step op)

/-! ### handler map and signals -/

theorem alookup_ainsert {β : Type} (k k' : String) (v : β) (l : List (String × β)) :
    alookup k' (ainsert k v l) = if k' = k then some v else alookup k' l := by
  split
  · rename_i h; subst h; exact Router.alookup_ainsert_same _ _ _
  · rename_i h; exact Router.alookup_ainsert_ne _ _ _ _ h

theorem alookup_aremove {β : Type} (k k' : String) (l : List (String × β)) :
    alookup k' (aremove k l) = if k' = k then none else alookup k' l := by
  split
  · rename_i h; subst h; exact Router.alookup_aremove_same _ _
  · rename_i h; exact Router.alookup_aremove_ne _ _ h _

/-- a later task with client id `c` whose clean flag explains signal `s` -/
def Later (tasks : List Task) (t : Nat) (c : String) (s : Signal) : Prop :=
  ∃ t' y, t < t' ∧ tasks[t']? = some y ∧ y.cid = c ∧
    s = (if y.clean then Signal.fire else Signal.cancel)

theorem Later.set {tasks : List Task} {t : Nat} {c : String} {s : Signal} (h : Later tasks t c s)
    {u : Nat} {x x' : Task} (hx : tasks[u]? = some x) (hc : x'.cid = x.cid) (hcl : x'.clean = x.clean) :
    Later (tasks.set u x') t c s := by
  obtain ⟨t', y, hlt, hy, hyc, hs⟩ := h
  by_cases hut : u = t'
  · subst hut
    refine ⟨u, x', hlt, ?_, ?_, ?_⟩
    · simp [lt_of_getElem?_some hx]
    · rw [hx] at hy; simp at hy; subst hy; rw [hc]; exact hyc
    · rw [hx] at hy; simp at hy; subst hy; rw [hcl]; exact hs
  · exact ⟨t', y, hlt, by simp [hut, hy], hyc, hs⟩

theorem Later.append {tasks : List Task} {t : Nat} {c : String} {s : Signal} (h : Later tasks t c s)
    (f : Task) : Later (tasks ++ [f]) t c s := by
  obtain ⟨t', y, hlt, hy, hyc, hs⟩ := h
  exact ⟨t', y, hlt, by rw [List.getElem?_append_left (lt_of_getElem?_some hy)]; exact hy, hyc, hs⟩

structure InvB (w : World) : Prop where
  hcid : ∀ cid o, alookup cid w.handlers = some o → ∃ x, w.tasks[o]? = some x ∧ x.cid = cid
  later : ∀ t x s, w.tasks[t]? = some x →
    (x.inbox = some s ∨ x.resolution = some (.signalled s)) → Later w.tasks t x.cid s

theorem InvB.init : InvB {} := by
  constructor
  · intro cid o h; simp [alookup] at h
  · intro t x s h; simp at h

/-- one task is rewritten (same client id and clean flag, no new signal), at most one task is
    appended (empty inbox, or explaining the new signal of the rewritten task) -/
theorem InvB.setAppend {w w' : World} (h : InvB w) (o : Nat) (x x' : Task) (fs : List Task)
    (hx : w.tasks[o]? = some x) (ht : w'.tasks = w.tasks.set o x' ++ fs)
    (hfs : fs = [] ∨ ∃ f, fs = [f] ∧ f.inbox = none ∧ f.resolution = none)
    (hc : x'.cid = x.cid) (hcl : x'.clean = x.clean)
    (hh : ∀ cid u, alookup cid w'.handlers = some u → alookup cid w.handlers = some u ∨
        ∃ f, fs = [f] ∧ u = w.tasks.length ∧ f.cid = cid)
    (hs : ∀ s, (x'.inbox = some s ∨ x'.resolution = some (.signalled s)) →
        (x.inbox = some s ∨ x.resolution = some (.signalled s)) ∨
        ∃ f, fs = [f] ∧ f.cid = x.cid ∧ s = (if f.clean then Signal.fire else Signal.cancel)) :
    InvB w' := by
  have ho := lt_of_getElem?_some hx
  have hget : ∀ u y, u < w.tasks.length → (w'.tasks[u]? = some y ↔
      (u = o ∧ y = x') ∨ (u ≠ o ∧ w.tasks[u]? = some y)) := by
    intro u y hu
    rw [ht, List.getElem?_append_left (by simpa using hu), List.getElem?_set]
    by_cases huo : o = u
    · subst huo; simp [ho]; exact eq_comm
    · have huo' : ¬ u = o := fun e => huo e.symm
      simp [huo, huo']
  have hlater : ∀ t c s, Later w.tasks t c s → Later w'.tasks t c s := by
    intro t c s hl
    rw [ht]
    have h1 := hl.set hx hc hcl
    rcases hfs with hfs | ⟨f, hfs, _⟩
    · subst hfs; simpa using h1
    · subst hfs; exact h1.append f
  constructor
  · intro cid u hu
    rcases hh cid u hu with h1 | ⟨f, hf, hu', hfc⟩
    · obtain ⟨y, hy, hyc⟩ := h.hcid cid u h1
      have hul := lt_of_getElem?_some hy
      by_cases huo : u = o
      · subst huo
        refine ⟨x', (hget u x' hul).2 (Or.inl ⟨rfl, rfl⟩), ?_⟩
        rw [hx] at hy; simp at hy; subst hy; rw [hc]; exact hyc
      · exact ⟨y, (hget u y hul).2 (Or.inr ⟨huo, hy⟩), hyc⟩
    · subst hf; subst hu'
      refine ⟨f, ?_, hfc⟩
      rw [ht, List.getElem?_append_right (by simp)]; simp
  · intro t y s hy hys
    by_cases htl : t < w.tasks.length
    · rcases (hget t y htl).1 hy with ⟨hto, hyx⟩ | ⟨hto, hy'⟩
      · subst hto; subst hyx
        rw [hc]
        rcases hs s hys with h1 | ⟨f, hf, hfc, hsf⟩
        · exact hlater _ _ _ (h.later t x s hx h1)
        · subst hf
          refine ⟨w.tasks.length, f, htl, ?_, hfc, hsf⟩
          rw [ht, List.getElem?_append_right (by simp)]; simp
      · exact hlater _ _ _ (h.later t y s hy' hys)
    · rcases hfs with hfs | ⟨f, hfs, hfi, hfr⟩
      · subst hfs
        have := lt_of_getElem?_some hy
        rw [ht] at this; simp at this; omega
      · subst hfs
        have hlen := lt_of_getElem?_some hy
        rw [ht] at hlen; simp at hlen
        have : t = w.tasks.length := by omega
        subst this
        rw [ht, List.getElem?_append_right (by simp)] at hy
        simp at hy; subst hy
        rcases hys with h1 | h1
        · rw [hfi] at h1; simp at h1
        · rw [hfr] at h1; simp at h1

theorem InvB.update {w w' : World} (h : InvB w) (o : Nat) (x x' : Task)
    (hx : w.tasks[o]? = some x) (ht : w'.tasks = w.tasks.set o x')
    (hc : x'.cid = x.cid) (hcl : x'.clean = x.clean)
    (hh : ∀ cid u, alookup cid w'.handlers = some u → alookup cid w.handlers = some u)
    (hs : ∀ s, (x'.inbox = some s ∨ x'.resolution = some (.signalled s)) →
        (x.inbox = some s ∨ x.resolution = some (.signalled s))) : InvB w' :=
  h.setAppend o x x' [] hx (by simp [ht]) (Or.inl rfl) hc hcl
    (fun cid u hu => Or.inl (hh cid u hu)) (fun s hs' => Or.inl (hs s hs'))

theorem InvB.append {w w' : World} (h : InvB w) (f : Task)
    (ht : w'.tasks = w.tasks ++ [f]) (hfi : f.inbox = none) (hfr : f.resolution = none)
    (hh : ∀ cid u, alookup cid w'.handlers = some u → alookup cid w.handlers = some u ∨
        (u = w.tasks.length ∧ f.cid = cid)) : InvB w' := by
  constructor
  · intro cid u hu
    rcases hh cid u hu with h1 | ⟨hu', hfc⟩
    · obtain ⟨y, hy, hyc⟩ := h.hcid cid u h1
      exact ⟨y, by rw [ht, List.getElem?_append_left (lt_of_getElem?_some hy)]; exact hy, hyc⟩
    · subst hu'
      exact ⟨f, by rw [ht, List.getElem?_append_right (by simp)]; simp, hfc⟩
  · intro t y s hy hys
    rw [ht]
    by_cases htl : t < w.tasks.length
    · rw [ht, List.getElem?_append_left htl] at hy
      exact (h.later t y s hy hys).append f
    · have hlen := lt_of_getElem?_some hy
      rw [ht] at hlen; simp at hlen
      have : t = w.tasks.length := by omega
      subst this
      rw [ht, List.getElem?_append_right (by simp)] at hy
      simp at hy; subst hy
      rcases hys with h1 | h1
      · rw [hfi] at h1; simp at h1
      · rw [hfr] at h1; simp at h1

theorem InvB.resolveSignal {w : World} (h : InvB w) {n : Nat} {x x0 : Task} {s : Signal}
    (hx : w.tasks[n]? = some x0) (hc : x.cid = x0.cid) (hcl : x.clean = x0.clean)
    (hi0 : x0.inbox = some s) :
    InvB (w.resolveSignal n x s) := by
  unfold World.resolveSignal
  cases s <;> simp only
  all_goals
    refine h.update n x0 _ hx (by simp; rfl) ?_ ?_ ?_ ?_
    · exact hc
    · exact hcl
    · exact fun _ _ hu => hu
    · intro s' hs'
      simp at hs'
      subst hs'
      exact Or.inl hi0

theorem InvB.resolveTimeout {w : World} (h : InvB w) {n : Nat} {x x0 : Task}
    (hx : w.tasks[n]? = some x0) (hc : x.cid = x0.cid) (hcl : x.clean = x0.clean)
    (hi : x.inbox = x0.inbox) : InvB (w.resolveTimeout n x) := by
  unfold World.resolveTimeout
  simp only
  refine h.update n x0 _ hx (by simp; rfl) ?_ ?_ ?_ ?_
  · exact hc
  · exact hcl
  · intro cid u hu
    simp [alookup_aremove] at hu
    exact hu.2
  · intro s' hs'
    simp at hs'
    exact Or.inl (hi ▸ hs')

theorem InvB.emit {w : World} (h : InvB w) (e : Ev) : InvB (w.emit e) := ⟨h.hcid, h.later⟩

/-- a task is rewritten without touching its client id, clean flag, inbox or resolution -/
theorem InvB.touch {w w' : World} (h : InvB w) (t : Nat) (x x' : Task)
    (hx : w.tasks[t]? = some x) (ht : w'.tasks = w.tasks.set t x') (hh : w'.handlers = w.handlers)
    (hc : x'.cid = x.cid) (hcl : x'.clean = x.clean) (hi : x'.inbox = x.inbox)
    (hr : x'.resolution = x.resolution) : InvB w' :=
  h.update t x x' hx ht hc hcl (fun _ _ hu => hh ▸ hu) (fun _ hs => by rw [hi, hr] at hs; exact hs)

theorem InvB.endLink {w : World} (h : InvB w) (t : Nat) (c : Cause) : InvB (w.endLink t c) := by
  unfold World.endLink
  split
  · exact h
  · rename_i x hx
    simp only [World.task?] at hx
    split
    · exact h
    · have h' : InvB (if c.sendDisconnect = true then w.emit (Ev.disconnect t) else w) := by
        split
        · exact h.emit _
        · exact h
      have hx' : (if c.sendDisconnect = true then w.emit (Ev.disconnect t) else w).tasks[t]? = some x := by
        split <;> exact hx
      simp only
      split
      · rename_i s hs
        exact h'.resolveSignal hx' rfl rfl hs
      · split
        · exact h'.resolveTimeout hx' rfl rfl rfl
        · exact h'.touch t x _ hx' rfl rfl rfl rfl rfl rfl

theorem InvB.panicLink {w : World} (h : InvB w) (t : Nat) : InvB (w.panicLink t) := by
  unfold World.panicLink
  split
  · exact h
  · rename_i x hx
    simp only [World.task?] at hx
    split
    · exact h
    · exact h.touch t x _ hx rfl rfl rfl rfl rfl rfl

theorem InvB.linkStep {w : World} (h : InvB w) (t : Nat) (ok : Bool) : InvB (w.linkStep t ok) := by
  unfold World.linkStep
  split
  · exact h
  · rename_i x hx
    simp only [World.task?] at hx
    split
    · exact h
    · simp only
      split
      · exact (h.emit _).touch t x _ hx rfl rfl rfl rfl rfl rfl
      · refine (h.emit (.connect t x.cid)).update t x _ hx rfl rfl rfl ?_ (fun _ hs => hs)
        intro cid u hu
        simp [alookup_aremove] at hu
        exact hu.2

theorem InvB.handlerStep {w : World} (h : InvB w) (cid : String) (clean : Bool) (delay : Nat) :
    InvB (w.handlerStep cid clean delay).1 := by
  unfold World.handlerStep
  simp only
  split
  · refine h.append _ rfl rfl rfl ?_
    intro cid' u hu
    simp only [alookup_ainsert] at hu
    split at hu
    · rename_i hc; simp at hu; exact Or.inr ⟨hu.symm, hc.symm⟩
    · exact Or.inl hu
  · rename_i o hlook
    split
    · refine h.append _ rfl rfl rfl ?_
      intro cid' u hu
      simp only [alookup_ainsert, alookup_aremove] at hu
      split at hu
      · rename_i hc; simp at hu; exact Or.inr ⟨hu.symm, hc.symm⟩
      · exact Or.inl hu
    · rename_i old ho
      simp only [World.task?] at ho
      obtain ⟨old', ho', hoc⟩ := h.hcid cid o hlook
      have : old' = old := by
        have : w.tasks[o]? = some old := ho
        rw [ho'] at this; simpa using this
      subst this
      split
      · refine h.setAppend o old' _ [_] ho' rfl (Or.inr ⟨_, rfl, rfl, rfl⟩) rfl rfl ?_ ?_
        · intro cid' u hu
          simp only [handlers_setTask, alookup_ainsert, alookup_aremove] at hu
          split at hu
          · rename_i hc; simp at hu; exact Or.inr ⟨_, rfl, hu.symm, hc.symm⟩
          · exact Or.inl hu
        · intro s' hs'
          simp at hs'
          rcases hs' with hs' | hs'
          · exact Or.inr ⟨_, rfl, hoc.symm, hs'.symm⟩
          · exact Or.inl (Or.inr hs')
      · refine h.append _ rfl rfl rfl ?_
        intro cid' u hu
        simp only [alookup_ainsert, alookup_aremove] at hu
        split at hu
        · rename_i hc; simp at hu; exact Or.inr ⟨hu.symm, hc.symm⟩
        · exact Or.inl hu

theorem InvB.wake {w : World} (h : InvB w) (n : Nat) : InvB (w.wake n) := by
  induction n with
  | zero => exact h
  | succ n ih =>
    unfold World.wake
    simp only
    split
    · rename_i x hx
      simp only [World.task?] at hx
      split
      · rename_i d s hp hi
        exact ih.resolveSignal hx rfl rfl hi
      · exact ih
    · exact ih

theorem InvB.expire {w : World} (h : InvB w) (n : Nat) : InvB (w.expire n) := by
  induction n with
  | zero => exact h
  | succ n ih =>
    unfold World.expire
    simp only
    split
    · rename_i x hx
      simp only [World.task?] at hx
      split
      · split
        · exact ih.resolveTimeout hx rfl rfl rfl
        · exact ih
      · exact ih
    · exact ih

theorem InvB.advance {w : World} (h : InvB w) (ms : Nat) : InvB (w.advance ms) := by
  unfold World.advance
  simp only
  exact InvB.expire (w := { w with now := w.now + ms }) ⟨h.hcid, h.later⟩ _

theorem InvB.step {w : World} (h : InvB w) (op : Op) : InvB (w.step op) := by
  cases op with
  | admitted cid clean delay linkOk =>
    exact ((h.handlerStep cid clean delay).linkStep _ linkOk).wake _
  | ended t c => exact h.endLink t c
  | taskPanic t => exact h.panicLink t
  | advance ms => exact h.advance ms

theorem InvB.run {w : World} (h : InvB w) (ops : List Op) : InvB (w.run ops) := by
  induction ops generalizing w with
  | nil => exact h
  | cons op ops ih => exact ih (h.step op)

/-! ### panics come only from `taskPanic`; the handler map under one admission -/

/-- every panicked task of `w'` was already panicked in `w` -/
@[reducible] def NoNewPanic (w w' : World) : Prop :=
  ∀ (t : Nat) (x : Task), w'.tasks[t]? = some x → x.phase = .panicked →
    ∃ x0 : Task, w.tasks[t]? = some x0 ∧ x0.phase = .panicked

theorem NoNewPanic.refl (w : World) : NoNewPanic w w := fun _ x h hp => ⟨x, h, hp⟩

theorem NoNewPanic.trans {w1 w2 w3 : World} (h12 : NoNewPanic w1 w2) (h23 : NoNewPanic w2 w3) :
    NoNewPanic w1 w3 := by
  intro t x h hp
  obtain ⟨y, hy, hyp⟩ := h23 t x h hp
  exact h12 t y hy hyp

theorem NoNewPanic.of_tasks {w w' : World} (h : w'.tasks = w.tasks) : NoNewPanic w w' := by
  intro t x hx hp
  exact ⟨x, h ▸ hx, hp⟩

theorem NoNewPanic.setTask (w : World) (t : Nat) (x : Task) (hp : x.phase ≠ .panicked) :
    NoNewPanic w (w.setTask t x) := by
  intro u y hy hyp
  rw [tasks_setTask, List.getElem?_set] at hy
  by_cases hut : t = u
  · subst hut
    by_cases hlt : t < w.tasks.length
    · simp [hlt] at hy; subst hy; exact absurd hyp hp
    · simp [hlt] at hy
  · simp [hut] at hy
    exact ⟨y, hy, hyp⟩

theorem NoNewPanic.append (w : World) (f : Task) (hs : List (String × Nat))
    (hp : f.phase ≠ .panicked) :
    NoNewPanic w { w with tasks := w.tasks ++ [f], handlers := hs } := by
  intro u y hy hyp
  simp only [List.getElem?_append] at hy
  split at hy
  · exact ⟨y, hy, hyp⟩
  · have hlen : u - w.tasks.length = 0 := by
      rcases Nat.eq_zero_or_pos (u - w.tasks.length) with h0 | h0
      · exact h0
      · rw [List.getElem?_eq_none (by simp; omega)] at hy; simp at hy
    rw [hlen] at hy; simp at hy; subst hy; exact absurd hyp hp

theorem NoNewPanic.resolveSignal (w : World) (n : Nat) (x : Task) (s : Signal) :
    NoNewPanic w (w.resolveSignal n x s) := by
  unfold World.resolveSignal
  cases s <;> simp only
  · exact (NoNewPanic.setTask w n _ (by simp)).trans (NoNewPanic.of_tasks rfl)
  · exact NoNewPanic.setTask w n _ (by simp)

theorem NoNewPanic.resolveTimeout (w : World) (n : Nat) (x : Task) :
    NoNewPanic w (w.resolveTimeout n x) := by
  unfold World.resolveTimeout
  simp only
  refine (NoNewPanic.of_tasks (w := w) (w' := { w with handlers := aremove x.cid w.handlers }) rfl).trans ?_
  exact (NoNewPanic.setTask _ n _ (by simp)).trans (NoNewPanic.of_tasks rfl)

theorem NoNewPanic.handlerStep (w : World) (cid : String) (clean : Bool) (delay : Nat) :
    NoNewPanic w (w.handlerStep cid clean delay).1 := by
  unfold World.handlerStep
  simp only
  split
  · exact NoNewPanic.append w _ _ (by simp)
  · rename_i o hlook
    split
    · exact (NoNewPanic.of_tasks (w := w) (w' := { w with handlers := aremove cid w.handlers }) rfl).trans
        (NoNewPanic.append _ _ _ (by simp))
    · rename_i old ho
      split
      · rename_i hc
        have hal : old.phase ≠ .panicked := by
          intro hp
          simp [Task.receiverAlive, hp] at hc
        refine NoNewPanic.trans
          (w2 := ({ w with handlers := aremove cid w.handlers } : World).setTask o
            { old with inbox := some (if clean then Signal.fire else Signal.cancel) })
          ?_ (NoNewPanic.append _ _ _ (by simp))
        exact (NoNewPanic.of_tasks (w := w) (w' := { w with handlers := aremove cid w.handlers }) rfl).trans
          (NoNewPanic.setTask _ _ _ hal)
      · exact (NoNewPanic.of_tasks (w := w) (w' := { w with handlers := aremove cid w.handlers }) rfl).trans
          (NoNewPanic.append _ _ _ (by simp))

theorem NoNewPanic.linkStep (w : World) (t : Nat) (ok : Bool) : NoNewPanic w (w.linkStep t ok) := by
  unfold World.linkStep
  split
  · exact NoNewPanic.refl w
  · rename_i x hx
    split
    · exact NoNewPanic.refl w
    · rename_i hc
      simp at hc
      simp only
      split
      · exact (NoNewPanic.of_tasks (w := w) (w' := w.emit (.connect t x.cid)) rfl).trans
          (NoNewPanic.setTask _ _ _ (by simp [hc]))
      · refine (NoNewPanic.of_tasks (w := w)
          (w' := { w.emit (.connect t x.cid) with
                    handlers := aremove x.cid (w.emit (.connect t x.cid)).handlers }) rfl).trans ?_
        exact NoNewPanic.setTask _ _ _ (by simp)

theorem NoNewPanic.endLink (w : World) (t : Nat) (c : Cause) : NoNewPanic w (w.endLink t c) := by
  unfold World.endLink
  split
  · exact NoNewPanic.refl w
  · rename_i x hx
    split
    · exact NoNewPanic.refl w
    · have h' : NoNewPanic w (if c.sendDisconnect = true then w.emit (Ev.disconnect t) else w) := by
        split
        · exact NoNewPanic.of_tasks rfl
        · exact NoNewPanic.refl w
      simp only
      split
      · exact h'.trans (NoNewPanic.resolveSignal _ _ _ _)
      · split
        · exact h'.trans (NoNewPanic.resolveTimeout _ _ _)
        · exact h'.trans (NoNewPanic.setTask _ _ _ (by simp))

theorem NoNewPanic.wake (w : World) (n : Nat) : NoNewPanic w (w.wake n) := by
  induction n with
  | zero => exact NoNewPanic.refl w
  | succ n ih =>
    unfold World.wake
    simp only
    split
    · split
      · exact ih.trans (NoNewPanic.resolveSignal _ _ _ _)
      · exact ih
    · exact ih

theorem NoNewPanic.expire (w : World) (n : Nat) : NoNewPanic w (w.expire n) := by
  induction n with
  | zero => exact NoNewPanic.refl w
  | succ n ih =>
    unfold World.expire
    simp only
    split
    · split
      · split
        · exact ih.trans (NoNewPanic.resolveTimeout _ _ _)
        · exact ih
      · exact ih
    · exact ih

theorem NoNewPanic.advance (w : World) (ms : Nat) : NoNewPanic w (w.advance ms) := by
  unfold World.advance
  simp only
  exact (NoNewPanic.of_tasks (w := w) (w' := { w with now := w.now + ms }) rfl).trans
    (NoNewPanic.expire _ _)

/-- `panicLink t` is the only step that makes a task panicked, and only task `t` -/
theorem panicLink_panicked (w : World) (t u : Nat) (y : Task)
    (hy : (w.panicLink t).tasks[u]? = some y) (hyp : y.phase = .panicked) :
    u = t ∨ ∃ x0, w.tasks[u]? = some x0 ∧ x0.phase = .panicked := by
  unfold World.panicLink at hy
  split at hy
  · exact Or.inr ⟨y, hy, hyp⟩
  · split at hy
    · exact Or.inr ⟨y, hy, hyp⟩
    · rw [tasks_setTask, List.getElem?_set] at hy
      by_cases hut : t = u
      · exact Or.inl hut.symm
      · simp [hut] at hy
        exact Or.inr ⟨y, hy, hyp⟩

theorem step_admitted (w : World) (cid : String) (clean : Bool) (delay : Nat) (ok : Bool) :
    w.step (.admitted cid clean delay ok) =
      (((w.handlerStep cid clean delay).1.linkStep (w.handlerStep cid clean delay).2 ok).wake
        ((w.handlerStep cid clean delay).1.linkStep (w.handlerStep cid clean delay).2 ok).tasks.length) :=
  rfl

theorem step_panicked (w : World) (op : Op) (t : Nat) (x : Task)
    (h : (w.step op).tasks[t]? = some x) (hp : x.phase = .panicked) :
    op = .taskPanic t ∨ ∃ x0, w.tasks[t]? = some x0 ∧ x0.phase = .panicked := by
  cases op with
  | admitted cid clean delay linkOk =>
    rw [step_admitted] at h
    exact Or.inr (((NoNewPanic.handlerStep w cid clean delay).trans
      ((NoNewPanic.linkStep _ _ _).trans (NoNewPanic.wake _ _))) t x h hp)
  | ended u c => exact Or.inr (NoNewPanic.endLink w u c t x h hp)
  | taskPanic u =>
    rcases panicLink_panicked w u t x h hp with h1 | h1
    · exact Or.inl (by rw [h1])
    · exact Or.inr h1
  | advance ms => exact Or.inr (NoNewPanic.advance w ms t x h hp)

/-- a task that is panicked after `ops` was panicked before, or `taskPanic t` is among `ops` -/
theorem run_panicked (w : World) (ops : List Op) (t : Nat) (x : Task)
    (h : (w.run ops).tasks[t]? = some x) (hp : x.phase = .panicked) :
    Op.taskPanic t ∈ ops ∨ ∃ x0, w.tasks[t]? = some x0 ∧ x0.phase = .panicked := by
  induction ops generalizing w with
  | nil => exact Or.inr ⟨x, h, hp⟩
  | cons op ops ih =>
    rcases ih (w.step op) h with h1 | ⟨y, hy, hyp⟩
    · exact Or.inl (List.mem_cons_of_mem _ h1)
    · rcases step_panicked w op t y hy hyp with h2 | h2
      · exact Or.inl (h2 ▸ List.mem_cons_self ..)
      · exact Or.inr h2

theorem resolveSignal_handlers (w : World) (n : Nat) (x : Task) (s : Signal) :
    (w.resolveSignal n x s).handlers = w.handlers := by
  cases s <;> rfl

/-- the will wait's receiving side never touches the handler map -/
theorem wake_handlers (w : World) (n : Nat) : (w.wake n).handlers = w.handlers := by
  induction n with
  | zero => rfl
  | succ n ih =>
    unfold World.wake
    simp only
    split
    · split
      · rw [resolveSignal_handlers, ih]
      · exact ih
    · exact ih

theorem handlerStep_snd (w : World) (cid : String) (clean : Bool) (delay : Nat) :
    (w.handlerStep cid clean delay).2 = w.tasks.length := rfl

/-- the handler step appends the new, running task … -/
theorem handlerStep_task (w : World) (cid : String) (clean : Bool) (delay : Nat) :
    (w.handlerStep cid clean delay).1.task? (w.handlerStep cid clean delay).2 =
      some { cid := cid, clean := clean, delay := delay, phase := .running } := by
  unfold World.handlerStep World.task?
  simp only
  split
  · simp
  · split
    · simp
    · split
      · simp
      · simp

/-- … and registers it under its client id -/
theorem handlerStep_handlers (w : World) (cid : String) (clean : Bool) (delay : Nat) :
    alookup cid (w.handlerStep cid clean delay).1.handlers = some (w.handlerStep cid clean delay).2 := by
  unfold World.handlerStep
  simp only
  exact Router.alookup_ainsert_same _ _ _

/-- a refused `RemoteLink::new` of a running task takes its handler out again -/
theorem linkStep_false_handlers (w : World) (t : Nat) (x : Task) (h : w.task? t = some x)
    (hp : x.phase = .running) : (w.linkStep t false).handlers = aremove x.cid w.handlers := by
  unfold World.linkStep
  rw [h]
  simp [hp]

/-! ### one step: will delay and timeout -/

theorem resolveTimeout_now (w : World) (m : Nat) (x : Task) : (w.resolveTimeout m x).now = w.now := by
  rfl

theorem resolveTimeout_other (w : World) (m : Nat) (x : Task) (t : Nat) (h : t ≠ m) :
    (w.resolveTimeout m x).tasks[t]? = w.tasks[t]? := by
  unfold World.resolveTimeout
  simp [Ne.symm h]

theorem resolveTimeout_same (w : World) (m : Nat) (x : Task) (h : m < w.tasks.length) :
    ∃ y, (w.resolveTimeout m x).tasks[m]? = some y ∧ y.resolution ≠ none ∧
      (y.phase = .finished ∨ y.phase = .panicked) := by
  unfold World.resolveTimeout
  exact ⟨_, by simp [h]; rfl, by simp, Or.inl rfl⟩

theorem expire_now (w : World) (n : Nat) : (w.expire n).now = w.now := by
  induction n with
  | zero => rfl
  | succ n ih =>
    unfold World.expire
    simp only
    split
    · split
      · split
        · rw [resolveTimeout_now, ih]
        · exact ih
      · exact ih
    · exact ih

theorem expire_above (w : World) (n t : Nat) (h : n ≤ t) : (w.expire n).tasks[t]? = w.tasks[t]? := by
  induction n with
  | zero => rfl
  | succ n ih =>
    have ih' := ih (by omega)
    unfold World.expire
    simp only
    split
    · split
      · split
        · rw [resolveTimeout_other _ _ _ _ (by omega), ih']
        · exact ih'
      · exact ih'
    · exact ih'

theorem expire_at (w : World) (n t : Nat) (x : Task) (d : Nat) (hn : t < n)
    (hx : w.tasks[t]? = some x) (hw : x.phase = .waiting d) (hres : x.resolution = none) :
    ∃ y, (w.expire n).tasks[t]? = some y ∧ (y.resolution ≠ none ↔ d ≤ w.now) := by
  induction n with
  | zero => omega
  | succ n ih =>
    by_cases htn : t = n
    · subst htn
      have hx' : (w.expire t).tasks[t]? = some x := by rw [expire_above _ _ _ (Nat.le_refl _)]; exact hx
      unfold World.expire
      simp only [World.task?, hx', hw, expire_now]
      split
      · rename_i hd
        obtain ⟨y, hy, hyr, _⟩ := resolveTimeout_same (w.expire t) t x (lt_of_getElem?_some hx')
        exact ⟨y, hy, by simp [hyr, hd]⟩
      · rename_i hd
        exact ⟨x, hx', by simp [hres, hd]⟩
    · obtain ⟨y, hy, hiff⟩ := ih (by omega)
      refine ⟨y, ?_, hiff⟩
      unfold World.expire
      simp only
      split
      · split
        · split
          · rw [resolveTimeout_other _ _ _ _ htn]; exact hy
          · exact hy
        · exact hy
      · exact hy

theorem endLink_quiet (w : World) (t : Nat) (x : Task) (cause : Cause)
    (h : w.task? t = some x) (hrun : x.phase = .running) (hl : x.linked = true)
    (hin : x.inbox = none) :
    ∃ w' : World, w'.tasks = w.tasks ∧ w'.now = w.now ∧
      w.endLink t cause =
        if x.delay = 0 then
          w'.resolveTimeout t { x with endedAt := some w.now, cause := some cause }
        else
          w'.setTask t { x with endedAt := some w.now, cause := some cause,
                                phase := .waiting (w.now + x.delay * 1000) } := by
  refine ⟨if cause.sendDisconnect then w.emit (.disconnect t) else w, ?_, ?_, ?_⟩
  · split <;> rfl
  · split <;> rfl
  · unfold World.endLink
    rw [h]
    have hc : ¬ ((decide (x.phase ≠ Phase.running) || !x.linked) = true) := by simp [hrun, hl]
    simp only
    rw [if_neg hc]
    have hn : (if cause.sendDisconnect = true then w.emit (Ev.disconnect t) else w).now = w.now := by
      split <;> rfl
    rw [hn]
    split
    · rename_i s hs; rw [hin] at hs; simp at hs
    · rfl

/-! ### the invariants on `World.run {} ops`, in the shape the property theorems use -/

theorem task?_none_length {w : World} {t : Nat} (h : w.task? t = none) : w.tasks.length ≤ t := by
  simpa [World.task?] using h

theorem run_publishedWill (ops : List Op) (t : Nat) :
    (World.run {} ops).publishedWill t =
      willCount (((World.run {} ops).task? t).bind (·.resolution)) := by
  have h := InvA.init.run ops
  rw [publishedWill_eq]
  cases ht : (World.run {} ops).task? t with
  | none => simpa [willCount] using (h.out t (task?_none_length ht)).1
  | some x => simpa using (h.task t x ht).pw

theorem run_sentDisconnect (ops : List Op) (t : Nat) :
    (World.run {} ops).sentDisconnect t =
      discCount (((World.run {} ops).task? t).bind (·.cause)) := by
  have h := InvA.init.run ops
  rw [sentDisconnect_eq]
  cases ht : (World.run {} ops).task? t with
  | none => simpa [discCount] using (h.out t (task?_none_length ht)).2
  | some x => simpa using (h.task t x ht).sd

theorem run_resolved {ops : List Op} {t : Nat} {x : Task}
    (h : (World.run {} ops).task? t = some x) (hr : x.resolution ≠ none) :
    x.linked = true ∧ x.endedAt ≠ none ∧ (x.phase = .finished ∨ x.phase = .panicked) := by
  have hx := (InvA.init.run ops).task t x h
  refine ⟨(hx.resSome hr).1, (hx.resSome hr).2, ?_⟩
  cases hp : x.phase with
  | running => exact absurd (hx.resNone (Or.inl hp)) hr
  | waiting d => exact absurd (hx.resNone (Or.inr ⟨d, hp⟩)) hr
  | finished => exact Or.inl rfl
  | panicked => exact Or.inr rfl

theorem run_signalled {ops : List Op} {t : Nat} {x : Task} {s : Signal}
    (h : (World.run {} ops).task? t = some x) (hr : x.resolution = some (.signalled s)) :
    Later (World.run {} ops).tasks t x.cid s :=
  (InvB.init.run ops).later t x s h (Or.inr hr)

end ServerWill
