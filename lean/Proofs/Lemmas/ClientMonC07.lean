/-
The C07 / C02 monitor predicates follow from the invariants (so they hold on every model trace).
-/
import Proofs.Lemmas.ClientRun
namespace Client
open Client.Spec

theorem step_fields (g : Ghost) (o : Obs) :
    (g.step o).pView = o.view ∧ (g.step o).pCol = o.col ∧ (g.step o).pInf = o.inf := ⟨rfl, rfl, rfl⟩

theorem releaseEff_chosen {s : State} {i : Nat} {c0 : Core} {res : State × Outcome} (he : ReleaseEff s i c0 res)
    (pkt : Packet) (j : Nat) (ho : res.2 = .ok (some pkt)) (hc : chosenId pkt = some j) :
    ∃ c, s.collision = some c ∧ c.pkid = j := by
  cases he with
  | plain _ _ _ => simp at ho
  | released s' c hcol hci hc' =>
    simp only [Outcome.ok.injEq, Option.some.injEq] at ho
    subst ho
    simp only [chosenId] at hc
    split at hc
    · simp at hc
    · simp only [Option.some.injEq] at hc
      exact ⟨c, hcol, hc⟩

/-- every packet an incoming packet makes the client write with an id of its own choosing is the
    parked publish -/
theorem incoming_chosen {s : State} (hs : SInv s) (p : Incoming) (pkt : Packet) (i : Nat)
    (ho : (handleIncoming s p).2 = .ok (some pkt)) (hc : chosenId pkt = some i) :
    ∃ c, s.collision = some c ∧ c.pkid = i := by
  by_cases hack : ∃ j r, p = .puback j r
  · obtain ⟨j, r, rfl⟩ := hack
    rw [handleIncoming_puback] at ho
    have he := handlePuback_eff (hs.pushEv (.incoming (.puback j r))) j
    generalize handlePuback (s.pushEv (.incoming (.puback j r))) j = res at he ho
    cases he with
    | unsol _ _ _ => simp at ho
    | acked x _ hx he => exact releaseEff_chosen he pkt i ho hc
  · by_cases hrec : ∃ j r, p = .pubrec j r
    · obtain ⟨j, r, rfl⟩ := hrec
      rw [handleIncoming_pubrec] at ho
      have he := handlePubrec_eff (hs.pushEv (.incoming (.pubrec j r))) j r
      generalize handlePubrec (s.pushEv (.incoming (.pubrec j r))) j r = res at he ho
      cases he with
      | unsol _ _ _ => simp at ho
      | failed x _ hx hv he => exact releaseEff_chosen he pkt i ho hc
      | moved _ _ _ _ _ _ =>
        simp only [Outcome.ok.injEq, Option.some.injEq] at ho
        subst ho; simp [chosenId] at hc
    · by_cases hcomp : ∃ j r, p = .pubcomp j r
      · obtain ⟨j, r, rfl⟩ := hcomp
        rw [handleIncoming_pubcomp] at ho
        have he := handlePubcomp_eff (hs.pushEv (.incoming (.pubcomp j r))) j
        generalize handlePubcomp (s.pushEv (.incoming (.pubcomp j r))) j = res at he ho
        cases he with
        | unsol _ _ _ => simp at ho
        | done _ hx he => exact releaseEff_chosen he pkt i ho hc
      · have h := otherIncoming_eff s p (fun i r h => hack ⟨i, r, h⟩) (fun i r h => hrec ⟨i, r, h⟩)
          (fun i r h => hcomp ⟨i, r, h⟩)
        -- remaining packets answer with PUBACK / PUBREC / PUBCOMP / DISCONNECT or nothing
        cases pkt with
        | publish q => exact absurd ho (h.2.1 q)
        | pubrel j => exact absurd ho (h.2.2 j)
        | subscribe j =>
          exfalso
          unfold handleIncoming at ho
          cases p <;> simp only [handlePublish, outgoingPuback, outgoingPubrec, outgoingDisconnect, handlePubrel, handleConnack] at ho <;>
            (repeat' split at ho) <;> simp_all
        | unsubscribe j =>
          exfalso
          unfold handleIncoming at ho
          cases p <;> simp only [handlePublish, outgoingPuback, outgoingPubrec, outgoingDisconnect, handlePubrel, handleConnack] at ho <;>
            (repeat' split at ho) <;> simp_all
        | puback _ => simp [chosenId] at hc
        | pubrec _ => simp [chosenId] at hc
        | pubcomp _ => simp [chosenId] at hc
        | pingreq => simp [chosenId] at hc
        | disconnect _ => simp [chosenId] at hc

theorem publishWithId_out (s : State) (p : Pub) (pkt : Packet) (h : (publishWithId s p).2 = .ok (some pkt)) :
    pkt = .publish p := by
  unfold publishWithId at h
  split at h
  · simp at h
  · split at h
    · simp at h
    · split at h
      · simp at h
      · simp only [publishTail, Outcome.ok.injEq, Option.some.injEq] at h; exact h.symm

/-- the id a (re)played publish goes out with -/
theorem publish_out_range {s : State} {pd : List Request} (h0 : Inv0 ⟨s, pd⟩) (p : Pub) (ha : p.alias = none)
    (hq : p.qos ≠ 0) (h2 : p.pkid ≤ s.maxInflight) (pkt : Packet) (i : Nat)
    (hp : (handleOutgoing s (.publish p)).2 = .ok (some pkt)) (hc : chosenId pkt = some i) :
    1 ≤ i ∧ i ≤ s.maxInflight := by
  obtain ⟨hpn, hv1, hv2, hv3⟩ := h0.nextPkid
  by_cases hid : p.pkid = 0
  · rw [eff_publish_fresh s p ha hq hid hpn] at hp
    have := publishWithId_out _ _ _ hp
    subst this
    simp only [chosenId, hq, if_false, Option.some.injEq] at hc
    subst hc; exact ⟨hv1, hv2⟩
  · rw [eff_publish_replay s p ha hq hid] at hp
    have := publishWithId_out _ _ _ hp
    subst this
    simp only [chosenId, hq, if_false, Option.some.injEq] at hc
    subst hc; exact ⟨by omega, h2⟩

/-- C07 clause 1 on one step: an id the client chose lies in `1 ..= limit` -/
theorem range_step {l : LState} (h0 : Inv0 l) (op : LOp) (o : Obs) (ho : (lstep l op).2 = some o)
    (pkt : Packet) (i : Nat) (hp : o.outcome = .ok (some pkt)) (hc : chosenId pkt = some i) :
    1 ≤ i ∧ i ≤ l.st.maxInflight := by
  obtain ⟨s, pd⟩ := l
  unfold lstep at ho
  cases op with
  | user u =>
    by_cases hcnd : (pd.isEmpty && selectEnabled s pd) = true
    · simp only [lop?, hcnd, if_true, Option.some.injEq] at ho
      subst ho
      have hpd : pd = [] := by
        simp only [Bool.and_eq_true, List.isEmpty_iff] at hcnd; exact hcnd.1
      subst hpd
      simp only [sstepObs, mkObs] at hp
      obtain ⟨hpn, hv1, hv2, hv3⟩ := h0.nextPkid
      cases u with
      | publish q t =>
        simp only [UserReq.toRequest] at hp
        by_cases hq : q = 0
        · subst hq; rw [eff_publish_qos0] at hp
          simp only [Outcome.ok.injEq, Option.some.injEq] at hp; subst hp; simp [chosenId] at hc
        · exact publish_out_range h0 ⟨q, 0, t, none⟩ rfl hq (Nat.zero_le _) pkt i hp hc
      | subscribe n =>
        simp only [UserReq.toRequest, handleOutgoing, outgoingSubscribe] at hp
        split at hp
        · simp at hp
        · rw [hpn] at hp
          simp only [Bool.false_eq_true, if_false, Outcome.ok.injEq, Option.some.injEq] at hp; subst hp
          simp only [chosenId, Option.some.injEq] at hc; subst hc; exact ⟨hv1, hv2⟩
      | unsubscribe =>
        simp only [UserReq.toRequest, handleOutgoing, outgoingUnsubscribe, hpn, Bool.false_eq_true, if_false,
          Outcome.ok.injEq, Option.some.injEq] at hp
        subst hp
        simp only [chosenId, Option.some.injEq] at hc; subst hc; exact ⟨hv1, hv2⟩
      | disconnect =>
        simp only [UserReq.toRequest, handleOutgoing, outgoingDisconnect, Outcome.ok.injEq, Option.some.injEq] at hp
        subst hp; simp [chosenId] at hc
      | puback j =>
        simp only [UserReq.toRequest, handleOutgoing, outgoingPuback, Outcome.ok.injEq, Option.some.injEq] at hp
        subst hp; simp [chosenId] at hc
      | pubrec j =>
        simp only [UserReq.toRequest, handleOutgoing, outgoingPubrec, Outcome.ok.injEq, Option.some.injEq] at hp
        subst hp; simp [chosenId] at hc
    · simp [lop?, hcnd] at ho
  | pend =>
    cases pd with
    | nil => simp [lop?] at ho
    | cons r rest =>
      by_cases hrd : pendingReady s (r :: rest) = true
      case neg => simp [lop?, hrd] at ho
      simp only [lop?, hrd, if_true, Option.some.injEq] at ho
      subst ho
      simp only [sstepObs, mkObs] at hp
      cases r with
      | publish p =>
        have hwf := h0.pendWF (.publish p) (by simp)
        simp only [PendOK] at hwf
        exact publish_out_range h0 p hwf.2.2 hwf.1 hwf.2.1 pkt i hp hc
      | pubrel j =>
        have hwf := h0.pendWF (.pubrel j) (by simp)
        simp only [PendOK] at hwf
        simp only [handleOutgoing, outgoingPubrel, pubrelWithId] at hp
        rw [if_neg (by omega)] at hp
        (repeat' split at hp) <;> simp at hp
        subst hp; simp [chosenId] at hc
      | subscribe n => exact absurd (h0.pendWF (.subscribe n) (by simp)) (by simp [PendOK])
      | unsubscribe => exact absurd (h0.pendWF .unsubscribe (by simp)) (by simp [PendOK])
      | pingreq => exact absurd (h0.pendWF .pingreq (by simp)) (by simp [PendOK])
      | disconnect => exact absurd (h0.pendWF .disconnect (by simp)) (by simp [PendOK])
      | puback j => exact absurd (h0.pendWF (.puback j) (by simp)) (by simp [PendOK])
      | pubrec j => exact absurd (h0.pendWF (.pubrec j) (by simp)) (by simp [PendOK])
      | other => exact absurd (h0.pendWF .other (by simp)) (by simp [PendOK])
  | ping =>
    simp only [lop?, Option.some.injEq] at ho
    subst ho
    simp only [sstepObs, mkObs] at hp
    have := (ping_outcome s ⟨0, 0, 0, none⟩)
    cases pkt with
    | publish q => exact absurd hp ((ping_outcome s q).1)
    | pubrel j => simp [chosenId] at hc
    | subscribe j =>
      exfalso
      simp only [handleOutgoing, outgoingPing] at hp
      (repeat' split at hp) <;> simp at hp
    | unsubscribe j =>
      exfalso
      simp only [handleOutgoing, outgoingPing] at hp
      (repeat' split at hp) <;> simp at hp
    | puback _ => simp [chosenId] at hc
    | pubrec _ => simp [chosenId] at hc
    | pubcomp _ => simp [chosenId] at hc
    | pingreq => simp [chosenId] at hc
    | disconnect _ => simp [chosenId] at hc
  | inc p =>
    simp only [lop?, Option.some.injEq] at ho
    subst ho
    simp only [sstepObs, mkObs] at hp
    obtain ⟨c, hcol, hci⟩ := incoming_chosen h0.sinv p pkt i hp hc
    have := h0.colLe c hcol
    rw [← hci]; exact ⟨this.1, this.2.1⟩
  | fail =>
    simp only [lop?, Option.some.injEq] at ho
    subst ho
    simp only [sstepObs] at hp
    split at hp <;> simp [mkObs] at hp
  | newSession =>
    simp only [lop?, Option.some.injEq] at ho
    subst ho
    simp [sstepObs, mkObs] at hp

theorem C07_range_ok {l : LState} {g : Ghost} (h : B1 l g) (op : LOp) (o : Obs) (ho : (lstep l op).2 = some o) :
    C07.range g o (g.step o) = true := by
  unfold C07.range
  simp only [Bool.or_eq_true]
  right
  cases hoc : o.outcome with
  | ok x =>
    cases x with
    | none => rfl
    | some pkt =>
      simp only
      cases hch : chosenId pkt with
      | none => rfl
      | some i =>
        have := range_step h.inv0 op o ho pkt i hoc hch
        rw [h.g0.lim]
        simp [this.1, this.2]
  | err e => rfl
  | panic => rfl

/-- C07 clause 3 after a step: no more unacknowledged publishes than the limit -/
theorem C07_window_ok {l' : LState} {g' : Ghost} (h : B1 l' g') : C07.window g' = true := by
  unfold C07.window
  simp only [Bool.or_eq_true, decide_eq_true_eq]
  right
  unfold unackedIds
  rw [List.length_append, List.length_map, h.g1.unacked.len, h.g0.relsLen, h.g0.lim]
  have h1 := h.inv0.sinv.counter
  have h2 := h.inv0.window
  omega

theorem mem_keys_iff_occ {U : List (Nat × Nat)} {s : State} (h : UnackedOK U s) (i : Nat) :
    i ∈ U.map (·.1) ↔ occAt s i = true := by
  have := alookup_none_iff U i
  rw [h.look i] at this
  rw [occAt_iff]
  unfold slotTag at this
  constructor
  · intro hi
    cases hs : s.outgoingPub[i]? with
    | none => rw [hs] at this; exact absurd hi (this.mp rfl)
    | some v =>
      cases v with
      | none => rw [hs] at this; exact absurd hi (this.mp rfl)
      | some x => exact ⟨x, rfl⟩
  · rintro ⟨x, hx⟩
    rw [hx] at this
    exact Classical.not_not.mp (fun hn => by simpa using this.mpr hn)

/-- C07 clause 2 after a step: ids of simultaneously unacknowledged publishes are distinct -/
theorem C07_dupId_ok {l' : LState} {g' : Ghost} (h : B1 l' g') : C07.dupId g' = true := by
  have h2 := h.i2
  unfold C07.dupId
  simp only [Bool.or_eq_true, decide_eq_true_eq]
  right
  unfold unackedIds
  rw [List.nodup_append]
  refine ⟨h.g1.unacked.nd, h.g0.relsNd, ?_⟩
  intro a ha b hb hab
  subst hab
  have h1 := (mem_keys_iff_occ h.g1.unacked a).mp ha
  have h3 := (h.g0.rels a).mp hb
  rw [h2.disj a h1] at h3
  simp at h3

/-- C07 clause 4b after a step: window not full, nothing parked, nothing pending ⇒ gate open -/
theorem C07_resumes_ok {l' : LState} {g' : Ghost} (h : B1 l' g') (o : Obs)
    (hv : o.inf = g'.pInf) : C07.resumes g' o = true := by
  have h3 := h.i3
  unfold C07.resumes
  simp only [Bool.or_eq_true, decide_eq_true_eq, Bool.not_eq_true']
  by_cases hc : (o.col.isNone && g'.pending.isEmpty && decide ((unackedIds g').length < g'.limit)) = true
  · right
    simp only [Bool.and_eq_true, decide_eq_true_eq] at hc
    have := hc.2
    unfold unackedIds at this
    rw [List.length_append, List.length_map, h.g1.unacked.len, h.g0.relsLen] at this
    rw [hv, h.g0.inf, h3]
    exact this
  · left; right
    simpa using hc

/-- C07 clause 5 after a step: the id a parked publish waits for is held by an unacknowledged publish -/
theorem C07_resolvable_ok {l' : LState} {g' : Ghost} (h : B1 l' g') (o : Obs)
    (hv : o.col = g'.pCol) : C07.resolvable g' o = true := by
  have h4 := h.i4
  unfold C07.resolvable
  simp only [Bool.or_eq_true]
  right
  rw [hv, h.g0.col]
  cases hc : l'.st.collision with
  | none => rfl
  | some c =>
    simp only [List.contains_iff_mem]
    unfold unackedIds
    rw [List.mem_append]
    rcases h4 c hc with h' | h'
    · exact Or.inl ((mem_keys_iff_occ h.g1.unacked c.pkid).mpr h')
    · exact Or.inr ((h.g0.rels c.pkid).mpr h')

/-! ### C02 -/

theorem held_mem_heldTags {l' : LState} {g' : Ghost} (hs : SInv l'.st) (hg : GInv0 l' g') (o : Obs) (hv : o.view = g'.pView)
    (hc : o.col = g'.pCol) (t : Nat) (h : Held l' t) : t ∈ heldTags g' o := by
  unfold heldTags
  rw [hv, hc, hg.view, hg.col, hg.pend]
  rcases h with ⟨i, p, hp, ht⟩ | ⟨c, hc', ht⟩ | ⟨p, hp, ht⟩
  · apply List.mem_append_left; apply List.mem_append_left
    exact (mem_pubTags _ _).mpr ⟨p, (mem_cleanRequests hs _).mpr (Or.inl ⟨p, rfl, List.mem_iff_getElem?.mpr ⟨i, hp⟩⟩), ht⟩
  · apply List.mem_append_left; apply List.mem_append_right
    rw [hc']; simp [colTag, ht]
  · apply List.mem_append_right
    exact (mem_pubTags _ _).mpr ⟨p, hp, ht⟩

/-- C02 clause 1 after a step: every accepted, unacknowledged publish is held -/
theorem C02_noLoss_ok {l' : LState} {g' : Ghost} (h : B1 l' g') (o : Obs) (hv : o.view = g'.pView)
    (hc : o.col = g'.pCol) : C02.noLoss g' o = true := by
  unfold C02.noLoss
  simp only [Bool.or_eq_true, List.all_eq_true, List.contains_iff_mem]
  right
  intro t ht
  rcases h.g1.kept t ht with h' | h'
  · exact Or.inl h'
  · exact Or.inr (held_mem_heldTags h.inv0.sinv h.g0 o hv hc t h')

/-- C02: every pending release is held -/
theorem C02_relHeld_ok {l' : LState} {g' : Ghost} (h : B1 l' g') (o : Obs) (hv : o.view = g'.pView) :
    C02.relHeld g' o = true := by
  unfold C02.relHeld
  simp only [Bool.or_eq_true, List.all_eq_true, List.contains_iff_mem]
  right
  intro i hi
  rw [hv, h.g0.view]
  exact (mem_cleanRequests h.inv0.sinv _).mpr (Or.inr (Or.inl ⟨i, rfl, (h.g0.rels i).mp hi⟩))

/-- C02 clause 2: `clean()` returns exactly what was held and leaves nothing behind -/
theorem C02_cleanExact_ok {l : LState} {g : Ghost} (h : B1 l g) (op : LOp) (o : Obs) (ho : (lstep l op).2 = some o) :
    C02.cleanExact g o = true := by
  obtain ⟨s, pd⟩ := l
  unfold lstep at ho
  cases hl : lop? ⟨s, pd⟩ op with
  | none => rw [hl] at ho; simp at ho
  | some sop =>
    rw [hl] at ho
    simp only [Option.some.injEq] at ho
    subst ho
    unfold C02.cleanExact
    rw [sstepObs_op]
    cases sop with
    | clean =>
      have hp := h.inv0.sinv.cleanPanics
      simp only at hp
      simp only [sstepObs, hp, Bool.false_eq_true, if_false, mkObs, sstepSt]
      have := cleanState_clean h.inv0.sinv
      simp only at this
      simp only [h.g0.view, this]
      simp [cleanState]
    | out r => rfl
    | inc p => rfl
    | drop => rfl
    | inflight => rfl

end Client
