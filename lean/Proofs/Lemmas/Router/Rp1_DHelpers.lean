/-
C03: `DInv` is kept, and no covered panic site is reached, by the scheduler / datalog / ack helpers.
-/
import Proofs.Lemmas.Router.Rp1_DInv
namespace Router
variable {A : String → Prop}

/-- `match m with | .error e => .error e | .ok a => k a` in the goal `Good A Q _`: discharge the error
    branch from `hm : Good A P m`, continue in the ok branch with the equation and `P a` -/
syntax "gbind " term " with " ident ident ident : tactic
macro_rules
  | `(tactic| gbind $hm with $a $ha $q) =>
    `(tactic| (split
               next e he => exact Good.error_of he $hm
               rename_i $a:ident $ha:ident
               refine Good.with_ok $ha $hm (fun $q => ?_)))

syntax "gbind2 " term " with " ident ident ident ident : tactic
macro_rules
  | `(tactic| gbind2 $hm with $a $b $ha $q) =>
    `(tactic| (split
               next e he => exact Good.error_of he $hm
               rename_i $a:ident $b:ident $ha:ident
               refine Good.with_ok $ha $hm (fun $q => ?_)))

theorem Live.of_get {s : RState} {id : Nat} {c : Conn} (h : getConn s id = some c) : Live s id := by
  unfold Live; rw [h]; rfl
theorem Live.get {s : RState} {id : Nat} (h : Live s id) : ∃ c, getConn s id = some c := by
  unfold Live at h
  cases hc : getConn s id with
  | none => rw [hc] at h; simp at h
  | some c => exact ⟨c, rfl⟩
theorem Live.shape {R : Nat → Conn → Conn → Prop} {s s' : RState} {id : Nat} (h : Live s id) (hs : Shape R s s') :
    Live s' id := by
  unfold Live at h ⊢; rw [hs.isSome_eq]; exact h
theorem Live.core {s s' : RState} {id : Nat} (h : Live s id) (hs : CoreEq s s') : Live s' id := by
  unfold Live at h ⊢; rw [hs.getConn]; exact h

/-! ### scheduler -/

theorem tryReady_some {t t' : Tracker} {r : SchedReason} {w : Bool} (h : t.tryReady r = some (t', w)) :
    t'.requests = t.requests := by
  unfold Tracker.tryReady at h
  split at h
  · simp only [Option.some.injEq, Prod.mk.injEq] at h; obtain ⟨rfl, _⟩ := h; rfl
  · split at h <;> (split at h <;> simp only [Option.some.injEq, Prod.mk.injEq, reduceCtorEq] at h) <;>
      (obtain ⟨rfl, _⟩ := h; rfl)

theorem tryReady_none {t : Tracker} {r : SchedReason} (h : t.tryReady r = none) :
    r = .init ∧ t.status ≠ .paused .busy := by
  unfold Tracker.tryReady at h
  split at h
  · simp at h
  · rename_i p hp
    split at h
    · split at h
      · simp at h
      · rename_i hne; exact ⟨rfl, by rw [hp]; simpa using hne⟩
    all_goals (split at h <;> simp at h)

theorem reschedule_good {s : RState} {id : Nat} {c : Conn} {r : SchedReason} (h : DInv s)
    (hc : getConn s id = some c) (hr : r = .init → c.tracker.status = .paused .busy) :
    Good A (fun s' => DInv s' ∧ s'.notifications = s.notifications) (reschedule s id r) := by
  unfold reschedule
  simp only [hc]
  split
  · rename_i hn
    obtain ⟨e, hne⟩ := tryReady_none hn
    exact absurd (hr e) hne
  · rename_i t woke ht
    have ht' := tryReady_some ht
    have hreq : ReqsOK (N s) ({ c with tracker := t } : Conn).tracker.requests := by
      show ReqsOK (N s) t.requests; rw [ht']; exact h.trk id c hc
    show DInv _ ∧ _
    split
    · exact ⟨h.of_set hc rfl hreq rfl rfl rfl rfl rfl rfl, rfl⟩
    · exact ⟨h.of_set hc rfl hreq rfl rfl rfl rfl rfl rfl, rfl⟩

theorem reschedule_rq {s s' : RState} {id : Nat} {r : SchedReason} (h : reschedule s id r = .ok s') :
    s'.datalog = s.datalog ∧ s'.graveyard = s.graveyard ∧ s'.shared = s.shared := by
  unfold reschedule at h
  split at h
  · simp at h
  · split at h
    · simp at h
    · simp only [Except.ok.injEq] at h; subst h; split <;> exact ⟨rfl, rfl, rfl⟩

theorem track_good {s : RState} {id : Nat} {r : DataRequest} (h : DInv s) (hl : Live s id)
    (hr : r.filterIdx < N s) :
    Good A (fun s' => DInv s' ∧ s'.notifications = s.notifications) (track s id r) := by
  obtain ⟨c, hc⟩ := hl.get
  unfold track
  simp only [hc]
  refine ⟨h.of_set hc rfl ?_ rfl rfl rfl rfl rfl rfl, rfl⟩
  exact (h.trk id c hc).append (ReqsOK.cons hr (ReqsOK.nil _))

theorem trackv_good {s : RState} {id : Nat} {rs : List DataRequest} (h : DInv s) (hl : Live s id)
    (hr : ReqsOK (N s) rs) :
    Good A (fun s' => DInv s' ∧ s'.notifications = s.notifications) (trackv s id rs) := by
  obtain ⟨c, hc⟩ := hl.get
  unfold trackv
  simp only [hc]
  refine ⟨h.of_set hc rfl ?_ rfl rfl rfl rfl rfl rfl, rfl⟩
  exact (h.trk id c hc).append hr

theorem pause_good {s : RState} {id : Nat} {r : PauseReason} (h : DInv s) (hl : Live s id)
    (hq : s.readyqueue.getLast? = some id) :
    Good A (fun s' => DInv s' ∧ s'.notifications = s.notifications) (pause s id r) := by
  obtain ⟨c, hc⟩ := hl.get
  unfold pause
  rw [if_neg (by simp [hq])]
  simp only [hc]
  exact ⟨h.of_set hc rfl (h.trk id c hc) rfl rfl rfl rfl rfl rfl, rfl⟩

theorem drainNotifications_good : ∀ (ns : List (Nat × DataRequest)) {s : RState}, DInv s →
    (∀ n ∈ ns, n.2.filterIdx < N s ∧ Live s n.1) →
    Good A (fun s' => DInv s' ∧ s'.notifications = s.notifications) (drainNotifications s ns)
  | [], s, h, _ => ⟨h, rfl⟩
  | (id, r) :: rest, s, h, hn => by
    simp only [drainNotifications]
    have h0 := hn (id, r) (by simp)
    gbind (track_good h h0.2 h0.1) with s1 h1 q1
    have l1 : Live s1 id := h0.2.shape (track_shape h1)
    obtain ⟨c1, hc1⟩ := l1.get
    gbind (reschedule_good (r := .freshData) q1.1 hc1 (by simp)) with s2 h2 q2
    have sh := (track_shape h1).trans (reschedule_shape h2)
    have hN : N s2 = N s := by
      unfold N
      rw [(reschedule_rq h2).1]
      unfold track at h1
      split at h1
      · simp at h1
      · simp only [Except.ok.injEq] at h1; subst h1; rfl
    refine (drainNotifications_good rest q2.1 fun n hn' => ?_).mono fun s' q => ⟨q.1, ?_⟩
    · have := hn n (by simp [hn'])
      exact ⟨by rw [hN]; exact this.1, this.2.shape sh⟩
    · rw [q.2, q2.2, q1.2]

/-! ### wake-up of parked group members -/

theorem clearWaiters_dinv {s : RState} {i : Nat} {fd : FilterData} (h : DInv s) :
    DInv (clearWaiters s i fd) ∧ N (clearWaiters s i fd) = N s := by
  refine ⟨?_, by simp [N, clearWaiters]⟩
  refine ⟨?_, ?_, ?_, ?_, ?_, ?_, h.grp⟩
  · intro q hq; show q.2 < (s.datalog.native.set i _).length; rw [List.length_set]; exact h.fidx q hq
  · intro q hq j hj; show j < (s.datalog.native.set i _).length; rw [List.length_set]; exact h.pf q hq j hj
  · intro j c hc; show ReqsOK (s.datalog.native.set i _).length _; rw [List.length_set]; exact h.trk j c hc
  · intro fd' hfd' w hw
    show w.2.filterIdx < (s.datalog.native.set i _).length ∧ _
    rw [List.length_set]
    rcases List.mem_or_eq_of_mem_set hfd' with hm | rfl
    · exact h.wt fd' hm w hw
    · simp at hw
  · intro n hn
    show n.2.filterIdx < (s.datalog.native.set i _).length ∧ _
    rw [List.length_set]; exact h.ntf n hn
  · intro q hq ss hss
    show ReqsOK (s.datalog.native.set i _).length _ ∧ _
    rw [List.length_set]; exact h.grv q hq ss hss

/-- the wake-up reaches no panic site: the parked requests belong to live connections -/
theorem wakeParkedSorted_good : ∀ (logs : List Nat) {s : RState}, DInv s →
    Good A (fun s' => DInv s' ∧ s'.notifications = s.notifications) (wakeParkedSorted s logs)
  | [], s, h => ⟨h, rfl⟩
  | i :: rest, s, h => by
    rw [wakeParkedSorted_cons]
    split
    · exact wakeParkedSorted_good rest h
    · rename_i fd hfd
      obtain ⟨h1, hN⟩ := clearWaiters_dinv (i := i) (fd := fd) h
      have hw : ∀ n ∈ fd.waiters, n.2.filterIdx < N (clearWaiters s i fd) ∧ Live (clearWaiters s i fd) n.1 := fun n hn => by
        have := h.wt fd (List.mem_of_getElem? hfd) n hn
        exact ⟨by rw [hN]; exact this.1, this.2⟩
      gbind (drainNotifications_good (A := A) fd.waiters h1 hw) with s2 h2 q2
      exact (wakeParkedSorted_good rest q2.1).mono fun s' q => ⟨q.1, by rw [q.2, q2.2]; rfl⟩

theorem wakeParked_good {s : RState} {logs : List Nat} (h : DInv s) :
    Good A (fun s' => DInv s' ∧ s'.notifications = s.notifications) (wakeParked s logs) :=
  wakeParkedSorted_good _ h

theorem wakeTurnMoved_good {s : RState} (h : DInv s) :
    Good A (fun s' => DInv s' ∧ s'.notifications = s.notifications) (wakeTurnMoved s) :=
  wakeParked_good (s := { s with turnMoved := [] }) (h.congr rfl rfl rfl rfl rfl rfl rfl)

/-! ### acks, datalog -/

theorem commitAck_good {s : RState} {id : Nat} {a : Ack} (h : DInv s) (hl : Live s id) :
    Good A (fun s' => DInv s' ∧ s'.notifications = s.notifications) (commitAck s id a) := by
  obtain ⟨c, hc⟩ := hl.get
  unfold commitAck
  simp only [hc]
  exact ⟨h.of_set hc rfl (h.trk id c hc) rfl rfl rfl rfl rfl rfl, rfl⟩

theorem sameMembers_mem {a b : List Nat} (h : sameMembers a b = true) {x : Nat} (hx : x ∈ a) : x ∈ b := by
  unfold sameMembers at h
  simp only [Bool.and_eq_true, List.all_eq_true, beq_iff_eq] at h
  have h1 := h.1 x hx
  have : 0 < a.count x := List.count_pos_iff.mpr hx
  exact List.count_pos_iff.mp (by omega)

theorem dlMatches_good {s : RState} {topic : String} (h : DInv s) :
    Good A (fun r => DInv r.1 ∧ (∀ i ∈ r.2, i < N r.1) ∧ r.1.notifications = s.notifications) (dlMatches s topic) := by
  unfold dlMatches
  split
  · rename_i v hv
    exact ⟨h, fun i hi => h.pf _ (mem_of_alookup hv) i hi, rfl⟩
  · split
    · rename_i v rest ho
      simp only []
      split
      · rename_i hsm
        have hv : ∀ i ∈ v, i < N s := fun i hi => by
          have := sameMembers_mem hsm hi
          obtain ⟨p, hp, e⟩ := List.mem_map.mp this
          exact e ▸ h.fidx p (List.mem_filter.mp hp).1
        by_cases he : v.isEmpty = true
        · rw [if_pos he]
          exact ⟨h.congr rfl rfl rfl rfl rfl rfl rfl, hv, rfl⟩
        · rw [if_neg he]
          refine ⟨⟨h.fidx, ?_, h.trk, h.wt, h.ntf, h.grv, h.grp⟩, hv, rfl⟩
          intro p hp i hi
          rcases List.mem_append.mp hp with hp | hp
          · exact h.pf p hp i hi
          · simp only [List.mem_singleton] at hp; subst hp; exact hv i hi
      · exact Good.badChoice _
    · exact Good.badChoice _

/-- replacing one filter log's entry (its waiters must be valid) and the notifications -/
theorem DInv.native_set {s : RState} (h : DInv s) (idx : Nat) (fd' : FilterData)
    (hw : ∀ w ∈ fd'.waiters, w.2.filterIdx < N s ∧ Live s w.1) (ns : List (Nat × DataRequest))
    (hns : ∀ n ∈ ns, n.2.filterIdx < N s ∧ Live s n.1) (g1 : List Ghost) :
    DInv ({ s with datalog := { s.datalog with native := s.datalog.native.set idx fd' }, notifications := ns, ghost := g1 } : RState) := by
  refine ⟨?_, ?_, ?_, ?_, ?_, ?_, h.grp⟩
  · intro q hq; show q.2 < (s.datalog.native.set idx _).length; rw [List.length_set]; exact h.fidx q hq
  · intro q hq i hi'; show i < (s.datalog.native.set idx _).length; rw [List.length_set]; exact h.pf q hq i hi'
  · intro j c hc; show ReqsOK (s.datalog.native.set idx _).length _; rw [List.length_set]; exact h.trk j c hc
  · intro fd hfd' w hw'
    show w.2.filterIdx < (s.datalog.native.set idx _).length ∧ _
    rw [List.length_set]
    rcases List.mem_or_eq_of_mem_set hfd' with hm | rfl
    · exact h.wt fd hm w hw'
    · exact hw w hw'
  · intro n hn
    show n.2.filterIdx < (s.datalog.native.set idx _).length ∧ _
    rw [List.length_set]
    exact hns n hn
  · intro q hq ss hss
    show ReqsOK (s.datalog.native.set idx _).length _ ∧ _
    rw [List.length_set]; exact h.grv q hq ss hss

theorem appendToFilter_good {s : RState} {idx : Nat} {p : Pub} (h : DInv s) (hi : idx < N s) :
    Good A DInv (appendToFilter s idx p) := by
  unfold appendToFilter
  have hlt : idx < s.datalog.native.length := hi
  rw [List.getElem?_eq_getElem hlt]
  simp only []
  have hfd : s.datalog.native[idx] ∈ s.datalog.native := List.getElem_mem hlt
  have hns : ∀ n ∈ s.notifications ++ s.datalog.native[idx].waiters, n.2.filterIdx < N s ∧ Live s n.1 := fun n hn => by
    rcases List.mem_append.mp hn with hn | hn
    · exact h.ntf n hn
    · exact h.wt _ hfd n hn
  show DInv _
  split
  · exact h.native_set idx _ (fun w hw => by simp at hw) _ hns _
  · exact h.native_set idx _ (fun w hw => by simp at hw) _ hns _

theorem appendToFilters_good : ∀ (idxs : List Nat) {s : RState} {p : Pub}, DInv s → (∀ i ∈ idxs, i < N s) →
    Good A DInv (appendToFilters s idxs p)
  | [], s, p, h, _ => h
  | i :: is, s, p, h, hi => by
    simp only [appendToFilters]
    gbind (appendToFilter_good (p := p) h (hi i (by simp))) with s1 h1 q1
    have hN : N s1 = N s := by
      unfold appendToFilter at h1
      split at h1
      · simp at h1
      · simp only [Except.ok.injEq] at h1; subst h1
        unfold N
        split <;> simp [RState.g]
    exact appendToFilters_good is q1 fun j hj => by rw [hN]; exact hi j (by simp [hj])

theorem updateRetained_dinv {s : RState} (h : DInv s) (topic : String) (p : Pub) :
    DInv (updateRetained s topic p) ∧ (updateRetained s topic p).notifications = s.notifications := by
  unfold updateRetained
  split
  · exact ⟨h.congr rfl rfl rfl rfl rfl rfl rfl, rfl⟩
  · split
    · exact ⟨h.congr rfl rfl rfl rfl rfl rfl rfl, rfl⟩
    · exact ⟨h, rfl⟩

end Router
