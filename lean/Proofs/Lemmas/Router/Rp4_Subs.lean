/-
C03, request conservation through SUBSCRIBE (a request is created only for a filter that is new for
the connection, so `check_tracker_duplicates` finds nothing) and UNSUBSCRIBE (the one request of the
filter is removed wherever it is: tracker, waiter list of its log, notifications).
-/
import Proofs.Lemmas.Router.Rp4_Steps
namespace Router

/-- `check_tracker_duplicates(id).is_none()` is "the filters of the tracked requests are distinct" -/
theorem trackerNoDup_iff (t : Tracker) : trackerNoDup t = true ↔ (t.requests.map (·.filter)).Nodup := by
  unfold trackerNoDup
  simp only [List.all_eq_true, beq_iff_eq]
  rw [List.nodup_iff_count]
  constructor
  · intro h a
    by_cases ha : a ∈ t.requests.map (·.filter)
    · exact Nat.le_of_eq (h a ha)
    · rw [List.count_eq_zero_of_not_mem ha]; omega
  · intro h a ha
    have h1 := h a
    have h2 : 0 < List.count a (t.requests.map (·.filter)) := List.count_pos_iff.mpr ha
    omega

/-- under request conservation the tracker of every connection passes the assertion -/
theorem RC.tracker_nodup {s : RState} (h : RC s) {id : Nat} {c : Conn} (hc : getConn s id = some c) :
    trackerNoDup c.tracker = true := by
  rw [trackerNoDup_iff]
  have h1 := ((RC.iff s).mp h).1.nodup id
  unfold keysOf trackerKeys at h1
  rw [hc] at h1
  simp only [List.map_append, List.map_map] at h1
  exact (List.nodup_append.mp (List.nodup_append.mp h1).1).1

theorem KeyOK.append {fi : List (String × Nat)} {k : RKey} (h : KeyOK fi k) (ext : List (String × Nat)) :
    KeyOK (fi ++ ext) k := by
  unfold KeyOK at h ⊢
  rw [alookup_append, h]; rfl

/-- `next_native_offset`: a new filter gets a new (empty) log and a new index; nothing moves -/
theorem nextNativeOffset_rc {s : RState} (h : RC s) (filter : String) :
    RC (nextNativeOffset s filter).1 ∧
    alookup filter (nextNativeOffset s filter).1.datalog.filterIndexes = some (nextNativeOffset s filter).2.1 := by
  unfold nextNativeOffset
  split
  · rename_i idx hidx
    exact ⟨h, hidx⟩
  · rename_i hnone
    have hnone' : alookup filter s.datalog.filterIndexes = none := hnone
    simp only []
    refine ⟨⟨?_, ?_, ?_⟩, ?_⟩
    · refine h.k.of_sub (fun id => ⟨[], ?_⟩) (fun id k _ hk => hk) (fun k hk => hk.append _)
      simp only [List.append_nil]
      unfold keysOf waiterKeys notifKeys trackerKeys
      simp [pickK_nil]
      rfl
    · intro i fd hfd w hw
      simp only [List.getElem?_append] at hfd
      split at hfd
      · exact h.widx i fd hfd w hw
      · rename_i hge
        by_cases e : i - s.datalog.native.length = 0
        · simp only [e, List.getElem?_cons_zero, Option.some.injEq] at hfd; subst hfd; simp at hw
        · rw [List.getElem?_eq_none (by simp; omega)] at hfd; simp at hfd
    · intro p hp ss hss
      obtain ⟨a, b⟩ := h.grv p hp ss hss
      exact ⟨a, fun r hr => ⟨(b r hr).1, (b r hr).2.append _⟩⟩
    · show alookup filter (s.datalog.filterIndexes ++ [(filter, s.datalog.native.length)]) = _
      rw [alookup_append, hnone']; simp [alookup]

theorem keysOf_congr {s s' : RState} {j : Nat} (ht : trackerKeys s' j = trackerKeys s j)
    (hw : s'.datalog.native.map (·.waiters) = s.datalog.native.map (·.waiters))
    (hn : s'.notifications = s.notifications) : keysOf s' j = keysOf s j := by
  have hwk : waiterKeys s' j = waiterKeys s j := by
    unfold waiterKeys
    have := congrArg (fun l => l.flatMap (fun ws => pickK j ws)) hw
    simpa [flatMap_map_eq] using this
  unfold keysOf notifKeys; rw [ht, hwk, hn]

/-- a new request for connection `id`: its filter is subscribed, no other request of `id` has it,
    its index is the one of the filter's log -/
theorem RC.add_key {s s' : RState} {id : Nat} {k : RKey} (h : RC s) (m : KMove s s' (oneK id [k]) noKeys)
    (hs : k.1 ∈ subsOf s id) (hn : k.1 ∉ (keysOf s id).map (·.1)) (hk : KeyOK s.datalog.filterIndexes k) : RC s' := by
  obtain ⟨hK, hW, hG⟩ := (RC.iff s).mp h
  refine (RC.iff s').mpr ⟨?_, m.widx hW, by rw [m.grv, m.fi]; exact hG⟩
  rw [m.fi, show subsOf s' = subsOf s from funext m.subs]
  have hp : ∀ j, (keysOf s' j).Perm (keysOf s j ++ oneK id [k] j) := fun j => by
    have := m.keys j; simpa [noKeys] using this
  refine ⟨fun j => ?_, fun j x hx => ?_, fun j x hx => ?_⟩
  · rw [((hp j).map (·.1)).nodup_iff, List.map_append]
    unfold oneK
    split
    · rename_i e; subst e
      refine List.nodup_append.mpr ⟨hK.nodup j, by simp, fun a ha b hb => ?_⟩
      simp only [List.map_cons, List.map_nil, List.mem_singleton] at hb
      subst hb; intro e; subst e; exact hn ha
    · simpa using hK.nodup j
  · rcases List.mem_append.mp ((hp j).mem_iff.mp hx) with hx | hx
    · exact hK.subs j x hx
    · unfold oneK at hx
      split at hx
      · rename_i e; subst e; simp only [List.mem_singleton] at hx; subst hx; exact hs
      · simp at hx
  · rcases List.mem_append.mp ((hp j).mem_iff.mp hx) with hx | hx
    · exact hK.idx j x hx
    · unfold oneK at hx
      split at hx
      · simp only [List.mem_singleton] at hx; subst hx; exact hk
      · simp at hx

theorem logPath_eq_sfFilter (f : String) : logPath f = sfFilter f := rfl

/-- `prepare_filter` keeps request conservation, and its assertion
    `debug_assert!(check_tracker_duplicates(id).is_none())` holds: a request is tracked only for a
    filter the connection was not subscribed to, so no other request of the connection has it -/
theorem prepareFilter_rc {s : RState} {id : Nat} {cursor : Cursor} {idx : Nat} {f : SubFilter}
    {group : Option String} {subId : Option Nat} (h : RC s)
    (hidx : alookup (logPath f.path) s.datalog.filterIndexes = some idx) :
    Good (fun msg => msg ≠ dupPrepareFilter) RC (prepareFilter s id cursor idx f group subId) := by
  rw [prepareFilter_eq]
  split
  · exact (by decide : "connections.get_mut(id).unwrap()" ≠ dupPrepareFilter)
  · rename_i c hc
    simp only []
    have hc1 : getConn (pfState s id cursor f.path group c.clientId) id = some c := hc
    have ht : (pfConn c f.path subId).tracker = c.tracker := by cases subId <;> rfl
    have hsb : (pfConn c f.path subId).subscriptions = c.subscriptions := by cases subId <;> rfl
    split
    · exact RCX.of_set (c' := pfConn c f.path subId) h hc rfl (by rw [ht]) hsb rfl rfl rfl rfl
    · rename_i hnew
      have hnew' : f.path ∉ c.subscriptions := by simpa using hnew
      -- the state with the new subscription, before the request is tracked
      have hc1' : getConn ((pfState s id cursor f.path group c.clientId).g
          (.subscribed id f.path f.qos idx cursor group true)) id = some c := hc
      have hget2 := getConn_setConn_live hc1' { pfConn c f.path subId with subscriptions := c.subscriptions ++ [f.path] }
      have h2 : RC (setConn ((pfState s id cursor f.path group c.clientId).g
          (.subscribed id f.path f.qos idx cursor group true)) id
          { pfConn c f.path subId with subscriptions := c.subscriptions ++ [f.path] }) := by
        obtain ⟨hK, hW, hG⟩ := (RC.iff s).mp h
        refine (RC.iff _).mpr ⟨?_, hW, hG⟩
        have hk : ∀ j, keysOf (setConn ((pfState s id cursor f.path group c.clientId).g
            (.subscribed id f.path f.qos idx cursor group true)) id
            { pfConn c f.path subId with subscriptions := c.subscriptions ++ [f.path] }) j = keysOf s j := fun j => by
          refine keysOf_congr ?_ rfl rfl
          unfold trackerKeys; rw [hget2]
          by_cases hj : j = id
          · subst hj; simp only [if_true, hc, ht]
          · simp only [hj, if_false]; rfl
        refine hK.of_sub (fun j => ⟨[], by rw [hk j]; simp⟩) (fun j k hkk hs => ?_) (fun k hk => hk)
        unfold subsOf at hs ⊢
        rw [hget2]
        by_cases hj : j = id
        · subst hj; rw [hc] at hs; simp only [if_true]; simp [hs]
        · simp only [hj, if_false]; exact hs
      have hsub2 : f.path ∈ subsOf (setConn ((pfState s id cursor f.path group c.clientId).g
          (.subscribed id f.path f.qos idx cursor group true)) id
          { pfConn c f.path subId with subscriptions := c.subscriptions ++ [f.path] }) id := by
        unfold subsOf; rw [hget2]; simp
      have hnk : f.path ∉ (keysOf (setConn ((pfState s id cursor f.path group c.clientId).g
          (.subscribed id f.path f.qos idx cursor group true)) id
          { pfConn c f.path subId with subscriptions := c.subscriptions ++ [f.path] }) id).map (·.1) := by
        have hk : keysOf (setConn ((pfState s id cursor f.path group c.clientId).g
            (.subscribed id f.path f.qos idx cursor group true)) id
            { pfConn c f.path subId with subscriptions := c.subscriptions ++ [f.path] }) id = keysOf s id := by
          refine keysOf_congr ?_ rfl rfl
          unfold trackerKeys; rw [hget2, hc]; simp [ht]
        rw [hk]
        intro hm
        obtain ⟨k, hk1, hk2⟩ := List.mem_map.mp hm
        have := ((RC.iff s).mp h).1.subs id k hk1
        unfold subsOf at this; rw [hc] at this
        exact hnew' (hk2 ▸ this)
      split
      · rename_i e he
        cases e with
        | badChoice m => trivial
        | panic m =>
          show m ≠ dupPrepareFilter
          unfold track at he
          split at he
          · simp only [Except.error.injEq, Fail.panic.injEq] at he; subst he; decide
          · simp at he
      · rename_i s3 h3
        have h3' : RC s3 := h2.add_key (k := (pfReq idx f cursor group).key) (track_move h3) hsub2 hnk hidx
        unfold pfTail
        split
        · rename_i e he
          cases e with
          | badChoice m => trivial
          | panic m =>
            show m ≠ dupPrepareFilter
            unfold reschedule at he
            split at he
            · simp only [Except.error.injEq, Fail.panic.injEq] at he; subst he; decide
            · split at he
              · simp only [Except.error.injEq, Fail.panic.injEq] at he; subst he; decide
              · simp at he
        · rename_i s4 h4
          have h4' : RC s4 := RCX.view h3' (reschedule_move h4)
          split
          · exact h4'
          · rename_i c4 hc4
            rw [h4'.tracker_nodup hc4]
            exact h4'

theorem subscribeFilters_rc {id : Nat} {subId : Option Nat} : ∀ (fs : List SubFilter) {s : RState}
    {codes : List Nat} {fl : Flags}, RC s →
    Good (fun msg => msg ≠ dupPrepareFilter) (fun r => RC r.1) (subscribeFilters s id subId fs codes fl)
  | [], s, codes, fl, h => h
  | f :: rest, s, codes, fl, h => by
    rw [subscribeFilters_cons]
    split
    · exact h
    · split
      · exact h
      · simp only []
        obtain ⟨hn, hidx⟩ := nextNativeOffset_rc h (sfFilter f.path)
        gbind (prepareFilter_rc (id := id) (cursor := (nextNativeOffset s (sfFilter f.path)).2.2) (f := f)
          (group := sfGroup f.path) (subId := subId) hn hidx) with s1 h1 q1
        exact subscribeFilters_rc rest q1

/-! ### UNSUBSCRIBE -/

theorem mem_waiterKeys {s : RState} {id : Nat} {k : RKey} :
    k ∈ waiterKeys s id ↔ ∃ fd ∈ s.datalog.native, ∃ w ∈ fd.waiters, w.1 = id ∧ w.2.key = k := by
  unfold waiterKeys
  simp only [List.mem_flatMap, mem_pickK]

/-- the parked keys of connection `j` in a datalog -/
def wkeys (d : DataLog) (j : Nat) : List RKey := d.native.flatMap (fun fd => pickK j fd.waiters)

theorem waiterKeys_eq (s : RState) (j : Nat) : waiterKeys s j = wkeys s.datalog j := rfl

/-- `remove_waiters_for_id(id, filter)`: either nothing is parked for `(id, filter)` in the log of
    the filter's path (or there is no such log), or one such entry is removed from that log -/
theorem removeWaiterFor_cases (d : DataLog) (id : Nat) (f : String) :
    (removeWaiterFor d id f = d ∧
      (alookup (logPath f) d.filterIndexes = none ∨
       (∃ idx, alookup (logPath f) d.filterIndexes = some idx ∧ d.native[idx]? = none) ∨
       (∃ idx fd, alookup (logPath f) d.filterIndexes = some idx ∧ d.native[idx]? = some fd ∧
          ∀ w ∈ fd.waiters, ¬ (w.1 = id ∧ w.2.filter = f)))) ∨
    (∃ idx fd i, ∃ hi : i < fd.waiters.length, d.native[idx]? = some fd ∧
      (fd.waiters[i]).1 = id ∧ (fd.waiters[i]).2.filter = f ∧
      removeWaiterFor d id f = { d with native := d.native.set idx { fd with waiters := swapRemoveBack fd.waiters i } }) := by
  unfold removeWaiterFor
  simp only []
  split
  · rename_i hl; exact .inl ⟨rfl, .inl hl⟩
  · rename_i idx hl
    split
    · rename_i hn; exact .inl ⟨rfl, .inr (.inl ⟨idx, hl, hn⟩)⟩
    · rename_i fd hn
      split
      · rename_i hf
        refine .inl ⟨rfl, .inr (.inr ⟨idx, fd, hl, hn, fun w hw hp => ?_⟩)⟩
        have := List.findIdx?_eq_none_iff.mp hf w hw
        simp [hp.1, hp.2] at this
      · rename_i i hf
        obtain ⟨hlt, hp, _⟩ := List.findIdx?_eq_some_iff_getElem.mp hf
        simp only [Bool.and_eq_true, beq_iff_eq] at hp
        exact .inr ⟨idx, fd, i, hlt, hn, hp.1, hp.2, rfl⟩

/-- effect on the parked keys: another connection keeps its keys, `id` loses at most one key, of filter `f` -/
theorem removeWaiterFor_wkeys (d : DataLog) (id : Nat) (f : String) (j : Nat) :
    ∃ rem, (wkeys d j).Perm (wkeys (removeWaiterFor d id f) j ++ rem) ∧ (j ≠ id → rem = []) ∧
      (∀ k ∈ rem, k.1 = f) ∧
      (removeWaiterFor d id f ≠ d → j = id → rem ≠ []) := by
  rcases removeWaiterFor_cases d id f with ⟨e, _⟩ | ⟨idx, fd, i, hi, hn, h1, h2, e⟩
  · rw [e]; exact ⟨[], by simp, fun _ => rfl, by simp, fun h => absurd rfl h⟩
  · rw [e]
    have hp := swapRemoveBack_perm fd.waiters i hi
    have hk := pickK_perm (id := j) hp
    rw [pickK_cons, h1] at hk
    have hs := flatMap_set_perm d.native idx fd { fd with waiters := swapRemoveBack fd.waiters i }
      (fun fd => pickK j fd.waiters) hn
    refine ⟨if id = j then [(fd.waiters[i]).2.key] else [], ?_, fun hj => by
      have : ¬ id = j := fun e => hj e.symm
      simp [this], ?_, ?_⟩
    · unfold wkeys
      simp only []
      rw [List.perm_iff_count] at hk hs ⊢
      intro x
      have a := hk x; have b := hs x
      by_cases hj : id = j
      · simp only [hj, if_true, List.count_append, List.count_cons, List.count_nil] at a b ⊢; omega
      · simp only [hj, if_false, List.count_append, List.count_nil] at a b ⊢; omega
    · intro k hk'
      split at hk'
      · simp only [List.mem_singleton] at hk'; subst hk'; exact h2
      · simp at hk'
    · intro _ hj; simp [hj]

theorem removeWaiterFor_fields (d : DataLog) (id : Nat) (f : String) :
    (removeWaiterFor d id f).filterIndexes = d.filterIndexes ∧
    (∀ (i : Nat) fd', (removeWaiterFor d id f).native[i]? = some fd' →
        ∃ fd, d.native[i]? = some fd ∧ ∀ w ∈ fd'.waiters, w ∈ fd.waiters) := by
  rcases removeWaiterFor_cases d id f with ⟨e, _⟩ | ⟨idx, fd, i, hi, hn, h1, h2, e⟩
  · rw [e]; exact ⟨rfl, fun i fd' h => ⟨fd', h, fun _ hw => hw⟩⟩
  · rw [e]
    refine ⟨rfl, fun k fd' hk => ?_⟩
    simp only [List.getElem?_set] at hk
    split at hk
    · rename_i ek; subst ek
      split at hk
      · simp only [Option.some.injEq] at hk; subst hk
        exact ⟨fd, hn, fun w hw => mem_swapRemoveBack hw⟩
      · simp at hk
    · exact ⟨fd', hk, fun _ hw => hw⟩

/-- under request conservation, after `remove_waiters_for_id(id, f)` no request of `(id, f)` is parked
    anywhere: there was at most one, and it was parked in the log of `f`'s path -/
theorem RC.no_waiter_after_remove {s : RState} (h : RC s) (id : Nat) (f : String) :
    ∀ k ∈ wkeys (removeWaiterFor s.datalog id f) id, k.1 ≠ f := by
  obtain ⟨hK, hW, _⟩ := (RC.iff s).mp h
  have hsub : ∀ k ∈ wkeys s.datalog id, k ∈ keysOf s id := fun k hk => by
    unfold keysOf; exact List.mem_append_left _ (List.mem_append_right _ hk)
  have hnd : ((wkeys s.datalog id).map (·.1)).Nodup := by
    have := hK.nodup id
    unfold keysOf at this
    simp only [List.map_append] at this
    exact (List.nodup_append.mp (List.nodup_append.mp this).1).2.1
  intro k hk hkf
  rcases removeWaiterFor_cases s.datalog id f with ⟨e, hno⟩ | ⟨idx, fd, i, hi, hn, h1, h2, e⟩
  · rw [e] at hk
    obtain ⟨fd, hfd, w, hw, hw1, hw2⟩ := (mem_waiterKeys (s := s)).mp hk
    obtain ⟨i', hi'⟩ := List.mem_iff_getElem?.mp hfd
    have hidx : w.2.filterIdx = i' := hW i' fd hi' w hw
    have hok : alookup (logPath f) s.datalog.filterIndexes = some i' := by
      have := hK.idx id k (hsub k hk)
      unfold KeyOK at this
      rw [hkf] at this; rw [this, ← hw2]; exact congrArg some hidx
    have hwf : w.2.filter = f := by rw [← hkf, ← hw2]; rfl
    rcases hno with h0 | ⟨idx, h0, h0'⟩ | ⟨idx, fd0, h0, h0', hall⟩
    · rw [h0] at hok; cases hok
    · rw [h0] at hok; cases hok; rw [hi'] at h0'; cases h0'
    · rw [h0] at hok; cases hok; rw [hi'] at h0'; cases h0'
      exact hall w hw ⟨hw1, hwf⟩
  · -- one entry of `(id, f)` was removed: a second one would be a duplicate
    obtain ⟨rem, hp, _, hrem, hne⟩ := removeWaiterFor_wkeys s.datalog id f id
    have hne' : rem ≠ [] := hne (by
      rw [e]; intro hcontra
      have := congrArg (fun d => (d.native[idx]?).map (fun fd => fd.waiters.length)) hcontra
      simp only [hn, Option.map_some] at this
      have hlt : idx < s.datalog.native.length := by
        by_cases hl : idx < s.datalog.native.length
        · exact hl
        · rw [List.getElem?_eq_none (by omega)] at hn; cases hn
      simp only [List.getElem?_set, hlt, if_true, Option.map_some, Option.some.injEq] at this
      have hl := (swapRemoveBack_perm fd.waiters i hi).length_eq
      simp only [List.length_cons] at hl
      omega) rfl
    obtain ⟨k0, hk0⟩ := List.exists_mem_of_ne_nil rem hne'
    have hnd' := ((hp.map (·.1)).nodup_iff).mp hnd
    rw [List.map_append] at hnd'
    exact (List.nodup_append.mp hnd').2.2 k.1 (List.mem_map_of_mem hk) k0.1 (List.mem_map_of_mem hk0)
      (by rw [hkf, hrem k0 hk0])

/-- one filter unsubscribed: its request is gone from tracker, waiter lists and notifications -/
theorem ufState_rc {s : RState} {id : Nat} {ids : List Nat} {c : Conn} {f : String} (h : RC s)
    (hc : getConn s id = some c) : RC (ufState s id ids c f) := by
  obtain ⟨hK, hW, hG⟩ := (RC.iff s).mp h
  have hc1 : getConn (ufState1 s id ids c f) id = some c := hc
  have hget : ∀ j, getConn (ufState s id ids c f) j = if j = id then some (ufConn s.datalog c f) else getConn s j :=
    fun j => getConn_setConn_live hc1 (ufConn s.datalog c f) j
  have hd : (ufState s id ids c f).datalog = removeWaiterFor s.datalog id f := rfl
  have hn : (ufState s id ids c f).notifications =
      s.notifications.filter (fun n => !(n.1 == id && n.2.filter == f)) := rfl
  have hfi := (removeWaiterFor_fields s.datalog id f).1
  refine (RC.iff _).mpr ⟨?_, ?_, ?_⟩
  · refine hK.of_sub (fun j => ?_) (fun j k hk hs => ?_) (fun k hk => by rw [hd, hfi]; exact hk)
    · -- the keys of `s'` are a sub-multiset of the keys of `s`
      obtain ⟨remW, pW, _, _, _⟩ := removeWaiterFor_wkeys s.datalog id f j
      have pN := pickK_perm (id := j) (List.filter_append_perm (fun n : Nat × DataRequest => !(n.1 == id && n.2.filter == f)) s.notifications)
      rw [pickK_append] at pN
      by_cases hj : j = id
      · subst hj
        have pT := (List.filter_append_perm (fun r : DataRequest => decide (r.filter ≠ f)) c.tracker.requests).map (·.key)
        rw [List.map_append] at pT
        refine ⟨(c.tracker.requests.filter (fun r => !decide (r.filter ≠ f))).map (·.key) ++ remW ++
          pickK j (s.notifications.filter (fun n => !(!(n.1 == j && n.2.filter == f)))), ?_⟩
        unfold keysOf trackerKeys notifKeys
        rw [hget, hc, waiterKeys_eq, waiterKeys_eq, hd, hn]
        simp only [if_true, ufConn]
        rw [List.perm_iff_count] at pT pW pN ⊢
        intro x
        have a := pT x; have b := pW x; have d := pN x
        simp only [List.count_append] at a b d ⊢
        omega
      · refine ⟨remW ++ pickK j (s.notifications.filter (fun n => !(!(n.1 == id && n.2.filter == f)))), ?_⟩
        unfold keysOf trackerKeys notifKeys
        rw [hget, waiterKeys_eq, waiterKeys_eq, hd, hn]
        simp only [hj, if_false]
        rw [List.perm_iff_count] at pW pN ⊢
        intro x
        have b := pW x; have d := pN x
        simp only [List.count_append] at b d ⊢
        omega
    · unfold subsOf at hs ⊢
      rw [hget]
      by_cases hj : j = id
      · subst hj
        rw [hc] at hs
        simp only [if_true, ufConn]
        refine List.mem_filter.mpr ⟨hs, ?_⟩
        simp only [decide_eq_true_eq]
        -- no key of filter `f` is left
        unfold keysOf at hk
        rcases List.mem_append.mp hk with hk | hk
        · rcases List.mem_append.mp hk with hk | hk
          · unfold trackerKeys at hk
            rw [hget] at hk
            simp only [if_true, ufConn, List.mem_map, List.mem_filter, decide_eq_true_eq] at hk
            obtain ⟨r, ⟨_, hr⟩, rfl⟩ := hk
            exact hr
          · rw [waiterKeys_eq, hd] at hk
            exact h.no_waiter_after_remove j f k hk
        · unfold notifKeys at hk
          rw [hn] at hk
          obtain ⟨w, hw, hw1, hw2⟩ := mem_pickK.mp hk
          have := (List.mem_filter.mp hw).2
          simp only [Bool.not_eq_true', Bool.and_eq_false_iff, beq_eq_false_iff_ne, ne_eq] at this
          rcases this with h0 | h0
          · exact absurd hw1 h0
          · rw [← hw2]; exact h0
      · simp only [hj, if_false]; exact hs
  · intro i fd' hfd' w hw
    rw [hd] at hfd'
    obtain ⟨fd, hfd, hsub⟩ := (removeWaiterFor_fields s.datalog id f).2 i fd' hfd'
    exact hW i fd hfd w (hsub w hw)
  · rw [hd, hfi]; exact hG

/-- the UNSUBSCRIBE loop keeps request conservation -/
theorem unsubscribeFilters_rc {id : Nat} : ∀ (fs : List String) {s s' : RState} {rs rs' : List Bool},
    unsubscribeFilters s id fs rs = .ok (s', rs') → RC s → RC s'
  | [], s, s', rs, rs', h, hr => by
    simp only [unsubscribeFilters, Except.ok.injEq, Prod.mk.injEq] at h
    obtain ⟨rfl, _⟩ := h; exact hr
  | f :: rest, s, s', rs, rs', h, hr => by
    rw [unsubscribeFilters_cons] at h
    split at h
    · exact unsubscribeFilters_rc rest h hr
    · split at h
      · exact unsubscribeFilters_rc rest h hr
      · split at h
        · simp at h
        · rename_i c hc
          split at h
          · exact unsubscribeFilters_rc rest h (RCX.view hr (KMove.of_conns rfl rfl rfl rfl rfl))
          · exact unsubscribeFilters_rc rest h (ufState_rc hr hc)

end Router
