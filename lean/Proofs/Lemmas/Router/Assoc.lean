import Model.Router.Types
namespace Router
variable {β : Type}

theorem alookup_map_replace (k : String) (v : β) : ∀ (l : List (String × β)),
    alookup k (l.map (fun p => if p.1 = k then (k, v) else p)) = (alookup k l).map (fun _ => v)
  | [] => rfl
  | (k', v') :: r => by
    by_cases h : k' = k
    · subst h; simp [alookup]
    · simp [alookup, h, alookup_map_replace k v r]

theorem alookup_append (k : String) (l r : List (String × β)) :
    alookup k (l ++ r) = (alookup k l).or (alookup k r) := by
  induction l with
  | nil => simp [alookup]
  | cons a l ih =>
    obtain ⟨k', v'⟩ := a
    by_cases h : k' = k
    · simp [alookup, h]
    · simp [alookup, h, ih]

theorem alookup_ainsert_same (k : String) (v : β) (l : List (String × β)) :
    alookup k (ainsert k v l) = some v := by
  unfold ainsert
  cases h : alookup k l with
  | none => simp [alookup_append, h, alookup]
  | some w => simp [alookup_map_replace, h]

theorem alookup_map_replace_ne (k k' : String) (v : β) (hne : k' ≠ k) : ∀ (l : List (String × β)),
    alookup k' (l.map (fun p => if p.1 = k then (k, v) else p)) = alookup k' l
  | [] => rfl
  | (a, b) :: r => by
    by_cases h : a = k
    · subst h
      have : ¬ a = k' := fun e => hne e.symm
      simp [alookup, this, alookup_map_replace_ne a k' v hne r]
    · by_cases h2 : a = k'
      · subst h2; simp [alookup, h]
      · simp [alookup, h, h2, alookup_map_replace_ne k k' v hne r]

theorem alookup_ainsert_ne (k k' : String) (v : β) (l : List (String × β)) (hne : k' ≠ k) :
    alookup k' (ainsert k v l) = alookup k' l := by
  unfold ainsert
  split
  · exact alookup_map_replace_ne k k' v hne l
  · have : ¬ k = k' := fun e => hne e.symm
    simp [alookup_append, alookup, this]

theorem alookup_aremove_same (k : String) : ∀ (l : List (String × β)), alookup k (aremove k l) = none
  | [] => rfl
  | (a, b) :: r => by
    have ih := alookup_aremove_same k r
    simp only [aremove, ne_eq, decide_not] at ih ⊢
    by_cases h : a = k
    · simp [List.filter_cons, h, ih]
    · simp [List.filter_cons, h, alookup, ih]

theorem alookup_aremove_ne (k k' : String) (hne : k' ≠ k) : ∀ (l : List (String × β)),
    alookup k' (aremove k l) = alookup k' l
  | [] => rfl
  | (a, b) :: r => by
    have ih := alookup_aremove_ne k k' hne r
    simp only [aremove, ne_eq, decide_not] at ih ⊢
    by_cases h : a = k
    · subst h
      have : ¬ a = k' := fun e => hne e.symm
      simp [List.filter_cons, alookup, this, ih]
    · by_cases h2 : a = k'
      · subst h2; simp [List.filter_cons, h, alookup]
      · simp [List.filter_cons, h, alookup, h2, ih]

end Router
