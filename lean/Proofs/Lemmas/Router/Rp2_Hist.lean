/-
History frame for the whole-run2 invariants of C15 / C16: what every function of the router model
may do to the retained map, to `last_wills` and to the ghost history.
`Boring s s'`: retained map and wills untouched, only "quiet" ghost events (no `appended`,
`accepted`, `willSet`, `willFired`) added.  `Hist s s'`: the general step relation (see below).
-/
import Proofs.Lemmas.Router.Rp2_Retained
import Proofs.Lemmas.Router.Rp2_Will
import Proofs.Lemmas.Router.Rp2_Consume
namespace Router

/-- the ghost events the C15 / C16 history invariants look at -/
def Ghost.loud : Ghost → Bool
  | .appended .. => true
  | .accepted .. => true
  | .willSet _ => true
  | .willFired _ => true
  | _ => false

def Quiet (evs : List Ghost) : Prop := ∀ e ∈ evs, e.loud = false

theorem Quiet.nil : Quiet [] := fun _ h => absurd h (List.not_mem_nil)

theorem Quiet.append {a b : List Ghost} (ha : Quiet a) (hb : Quiet b) : Quiet (a ++ b) := by
  intro e he
  rcases List.mem_append.mp he with h | h
  · exact ha e h
  · exact hb e h

theorem Quiet.single {e : Ghost} (h : e.loud = false) : Quiet [e] := by
  intro x hx; simp at hx; subst hx; exact h

/-- number of `willFired cid` / `willSet cid` events -/
def firedCount (cid : String) (evs : List Ghost) : Nat :=
  evs.countP (fun e => match e with | .willFired c => c == cid | _ => false)

def setCount (cid : String) (evs : List Ghost) : Nat :=
  evs.countP (fun e => match e with | .willSet c => c == cid | _ => false)

@[simp] theorem firedCount_append (cid : String) (a b : List Ghost) :
    firedCount cid (a ++ b) = firedCount cid a + firedCount cid b := by simp [firedCount]

@[simp] theorem setCount_append (cid : String) (a b : List Ghost) :
    setCount cid (a ++ b) = setCount cid a + setCount cid b := by simp [setCount]

theorem Quiet.counts {evs : List Ghost} (h : Quiet evs) (cid : String) :
    appendedEvents evs = [] ∧ firedCount cid evs = 0 ∧ setCount cid evs = 0 ∧ acceptedEvents evs = [] := by
  induction evs with
  | nil => exact ⟨rfl, rfl, rfl, rfl⟩
  | cons e es ih =>
    have he : e.loud = false := h e (List.mem_cons_self)
    have ih' := ih (fun x hx => h x (List.mem_cons_of_mem _ hx))
    cases e <;> simp [Ghost.loud] at he <;>
      simp_all [appendedEvents, acceptedEvents, firedCount, setCount, List.countP_cons]

/-- is a will stored for this client (0 / 1) -/
def stored (lw : List (String × Will)) (cid : String) : Nat := if (alookup cid lw).isSome then 1 else 0

structure Boring (s s' : RState) : Prop where
  retained : s'.datalog.retained = s.datalog.retained
  lastWills : s'.lastWills = s.lastWills
  ghost : ∃ evs, s'.ghost = s.ghost ++ evs ∧ Quiet evs

theorem Boring.refl (s : RState) : Boring s s := ⟨rfl, rfl, [], by simp, Quiet.nil⟩

theorem Boring.trans {a b c : RState} (h1 : Boring a b) (h2 : Boring b c) : Boring a c := by
  obtain ⟨e1, g1, q1⟩ := h1.ghost
  obtain ⟨e2, g2, q2⟩ := h2.ghost
  exact ⟨h2.retained.trans h1.retained, h2.lastWills.trans h1.lastWills, e1 ++ e2,
    by rw [g2, g1, List.append_assoc], q1.append q2⟩

theorem Boring.of_eq {s s' : RState} (h1 : s'.datalog.retained = s.datalog.retained)
    (h2 : s'.lastWills = s.lastWills) (h3 : s'.ghost = s.ghost) : Boring s s' :=
  ⟨h1, h2, [], by simp [h3], Quiet.nil⟩

theorem Boring.g {s s' : RState} (h : Boring s s') {e : Ghost} (he : e.loud = false) : Boring s (s'.g e) := by
  obtain ⟨e1, g1, q1⟩ := h.ghost
  exact ⟨h.retained, h.lastWills, e1 ++ [e], by simp [RState.g, g1], q1.append (Quiet.single he)⟩

theorem Boring.congr {s s1 s2 : RState} (h : Boring s s1) (h1 : s2.datalog.retained = s1.datalog.retained)
    (h2 : s2.lastWills = s1.lastWills) (h3 : s2.ghost = s1.ghost) : Boring s s2 :=
  h.trans (Boring.of_eq h1 h2 h3)

theorem Boring.precomp {s0 s s' : RState} (h : Boring s s') (h1 : s.datalog.retained = s0.datalog.retained)
    (h2 : s.lastWills = s0.lastWills) (h3 : s.ghost = s0.ghost) : Boring s0 s' :=
  (Boring.of_eq h1 h2 h3).trans h

theorem Boring.of_toState {s s' : RState} (h : s'.toState = s.toState) (hg : s'.ghost = s.ghost) : Boring s s' :=
  Boring.of_eq (congrArg (fun x => x.datalog.retained) h) (congrArg State.lastWills h) hg

/-! ### the boring functions -/

theorem Boring.of_wakeFrame {s s' : RState} (h : WakeFrame s s') : Boring s s' :=
  Boring.of_eq h.retained h.wills h.ghost

theorem wakeParked_boring {s s' : RState} {logs : List Nat} (h : wakeParked s logs = .ok s') : Boring s s' :=
  Boring.of_wakeFrame (wakeParked_wakeFrame h)

theorem wakeTurnMoved_boring {s s' : RState} (h : wakeTurnMoved s = .ok s') : Boring s s' :=
  Boring.precomp (Boring.of_wakeFrame (wakeTurnMoved_wakeFrame h)) rfl rfl rfl

theorem noteTurn_boring (s0 s1 : RState) (req : DataRequest) : Boring s1 (noteTurn s0 s1 req) := by
  obtain ⟨tm, e⟩ := noteTurn_eq s0 s1 req
  rw [e]; exact Boring.of_eq rfl rfl rfl

theorem reschedule_boring {s s' : RState} {id : Nat} {r : SchedReason} (h : reschedule s id r = .ok s') :
    Boring s s' := by
  have := reschedule_data h
  exact Boring.of_eq (by rw [this.1]) this.2.2.1 this.2.1

theorem track_boring {s s' : RState} {id : Nat} {r : DataRequest} (h : track s id r = .ok s') : Boring s s' := by
  have := track_data h
  exact Boring.of_eq (by rw [this.1]) this.2.2.1 this.2.1

theorem drainNotifications_boring {ns : List (Nat × DataRequest)} {s s' : RState}
    (h : drainNotifications s ns = .ok s') : Boring s s' := by
  have := drainNotifications_data ns h
  exact Boring.of_eq (by rw [this.1]) this.2.2 this.2.1

theorem commitAck_boring {s s' : RState} {id : Nat} {a : Ack} (h : commitAck s id a = .ok s') : Boring s s' := by
  unfold commitAck at h
  split at h
  · simp at h
  · simp only [Except.ok.injEq] at h; subst h
    exact ⟨rfl, rfl, [.committed id a], rfl, Quiet.single rfl⟩

theorem nextNativeOffset_boring (s : RState) (f : String) : Boring s (nextNativeOffset s f).1 := by
  unfold nextNativeOffset
  split
  · exact Boring.refl _
  · exact Boring.of_eq rfl rfl rfl

theorem prepBook_boring (s : RState) (id : Nat) (cursor : Cursor) (f : SubFilter) (group : Option String)
    (c : Conn) : Boring s (prepBook s id cursor f group c) := by
  unfold prepBook; cases group <;> exact Boring.of_eq rfl rfl rfl

theorem prepareFilter_boring {s s' : RState} {id : Nat} {cursor : Cursor} {idx : Nat} {f : SubFilter}
    {group : Option String} {subId : Option Nat}
    (h : prepareFilter s id cursor idx f group subId = .ok s') : Boring s s' := by
  cases hc : getConn s id with
  | none =>
    unfold prepareFilter at h
    simp only [getConn] at hc
    simp only [getConn, hc] at h
    simp at h
  | some c =>
    have hb := prepBook_boring s id cursor f group c
    cases hin : c.subscriptions.contains f.path with
    | true =>
      rw [prepareFilter_repeated s id cursor idx f group subId c hc hin] at h
      simp only [Except.ok.injEq] at h; subst h
      exact Boring.g (e := .subscribed id f.path f.qos idx cursor group false)
        (hb.congr (s2 := setConn (prepBook s id cursor f group c) id (prepConn f subId c)) rfl rfl rfl) rfl
    | false =>
      obtain ⟨s1, h1, h2⟩ := prepareFilter_new s s' id cursor idx f group subId c hc hin h
      have b1 : Boring s (setConn ((prepBook s id cursor f group c).g (.subscribed id f.path f.qos idx cursor group true)) id
          { prepConn f subId c with subscriptions := c.subscriptions ++ [f.path] }) :=
        (hb.g (e := .subscribed id f.path f.qos idx cursor group true) rfl).congr rfl rfl rfl
      exact (b1.trans (track_boring h1)).trans (reschedule_boring h2)

theorem subscribeFilters_boring (id : Nat) (subId : Option Nat) : ∀ (fs : List SubFilter) {s s' : RState}
    {codes codes' : List Nat} {fl fl' : Flags},
    subscribeFilters s id subId fs codes fl = .ok (s', codes', fl') → Boring s s'
  | [], s, s', codes, codes', fl, fl', h => by
    simp only [subscribeFilters, Except.ok.injEq, Prod.mk.injEq] at h; obtain ⟨rfl, _⟩ := h; exact Boring.refl _
  | f :: rest, s, s', codes, codes', fl, fl', h => by
    simp only [subscribeFilters] at h
    split at h
    · simp only [Except.ok.injEq, Prod.mk.injEq] at h; obtain ⟨rfl, _⟩ := h; exact Boring.refl _
    · split at h
      · simp only [Except.ok.injEq, Prod.mk.injEq] at h; obtain ⟨rfl, _⟩ := h; exact Boring.refl _
      · split at h
        · simp at h
        · rename_i s1 h1
          exact ((nextNativeOffset_boring s _).trans (prepareFilter_boring h1)).trans
            (subscribeFilters_boring id subId rest h)

theorem removeWaiterFor_retained (d : DataLog) (id : Nat) (f : String) :
    (removeWaiterFor d id f).retained = d.retained := by
  unfold removeWaiterFor
  simp only []
  split
  · rfl
  · split
    · rfl
    · split <;> rfl

theorem unsubOne_boring (s : RState) (id : Nat) (f : String) (ids : List Nat) (c : Conn) :
    Boring s (unsubOne s id f ids c) := by
  have hg := unsubGroup_same { s with subscriptionMap := ainsert f (ids.filter (· ≠ id)) s.subscriptionMap } f c.clientId
  unfold unsubOne
  simp only []
  refine Boring.g (e := .unsubscribed id f) ?_ rfl
  refine Boring.of_eq ?_ ?_ ?_
  · show (removeWaiterFor _ id f).retained = _
    rw [removeWaiterFor_retained]
    show (unsubGroup _ f c.clientId).datalog.retained = _
    rw [hg.2.2.1]
  · show (unsubGroup _ f c.clientId).lastWills = _
    rw [hg.2.2.2.1]
  · show (unsubGroup _ f c.clientId).ghost = _
    rw [hg.2.2.2.2.1]

theorem unsubscribeFilters_boring (id : Nat) : ∀ (fs : List String) {s s' : RState} {rs rs' : List Bool},
    unsubscribeFilters s id fs rs = .ok (s', rs') → Boring s s'
  | [], s, s', rs, rs', h => by
    simp only [unsubscribeFilters, Except.ok.injEq, Prod.mk.injEq] at h; obtain ⟨rfl, _⟩ := h; exact Boring.refl _
  | f :: rest, s, s', rs, rs', h => by
    rw [unsubscribeFilters_cons_rp2] at h
    split at h
    · exact unsubscribeFilters_boring id rest h
    · split at h
      · exact unsubscribeFilters_boring id rest h
      · split at h
        · simp at h
        · rename_i c hc
          split at h
          · exact Boring.precomp (unsubscribeFilters_boring id rest h) rfl rfl rfl
          · exact (unsubOne_boring s id f _ c).trans (unsubscribeFilters_boring id rest h)

theorem datalogClean_retained (d : DataLog) (id : Nat) : (datalogClean d id).1.retained = d.retained := by
  unfold datalogClean
  have : ∀ (l : List FilterData) (acc : DataLog × List DataRequest),
      (l.foldl (fun (acc : DataLog × List DataRequest) fd =>
        let (ws, rs) := waitersRemove (fd.waiters.length + 1) fd.waiters id []
        ({ acc.1 with native := acc.1.native ++ [{ fd with waiters := ws }] }, acc.2 ++ rs)) acc).1.retained =
      acc.1.retained := by
    intro l
    induction l with
    | nil => intro acc; rfl
    | cons fd l ih => intro acc; simp only [List.foldl_cons]; rw [ih]
  rw [this]

theorem handleDisconnection_boring {s s' : RState} {id : Nat} {r : Option String}
    (h : handleDisconnection s id r = .ok s') : Boring s s' := by
  rw [handleDisconnection_eq] at h
  split at h
  · simp only [Except.ok.injEq] at h; subst h; exact Boring.refl _
  · rename_i c hc
    refine Boring.trans ?_ (wakeParked_boring h)
    obtain ⟨_, k2, _, _, k5, _, _, k8, _⟩ := hdFinal_fields s id c r
    exact ⟨by rw [k8, datalogClean_retained], k2, [.removed id c.clientId c.clean], k5, Quiet.single rfl⟩

theorem setLink_boring (s : RState) (l : Nat) (b : LinkBuf) : Boring s (setLink s l b) := Boring.of_eq rfl rfl rfl
theorem pushNotifs_boring (s : RState) (l : Nat) (ns : List Notif) : Boring s (pushNotifs s l ns) :=
  Boring.of_eq rfl rfl rfl
theorem wakeLink_boring (s : RState) (l : Nat) : Boring s (wakeLink s l) := Boring.of_eq rfl rfl rfl
theorem setConn_boring (s : RState) (id : Nat) (c : Conn) : Boring s (setConn s id c) := Boring.of_eq rfl rfl rfl

theorem pause_boring {s s' : RState} {id : Nat} {r : PauseReason} (h : pause s id r = .ok s') : Boring s s' := by
  unfold pause at h
  split at h
  · simp at h
  · split at h
    · simp at h
    · simp only [Except.ok.injEq] at h; subst h; exact Boring.of_eq rfl rfl rfl

theorem trackv_boring {s s' : RState} {id : Nat} {rs : List DataRequest} (h : trackv s id rs = .ok s') :
    Boring s s' := by
  unfold trackv at h
  split at h
  · simp at h
  · simp only [Except.ok.injEq] at h; subst h; exact Boring.of_eq rfl rfl rfl

theorem park_boring {s s' : RState} {id : Nat} {r : DataRequest} (h : park s id r = .ok s') : Boring s s' := by
  unfold park at h
  split at h
  · simp at h
  · simp only [Except.ok.injEq] at h; subst h; exact Boring.of_eq rfl rfl rfl

theorem fwdAdvance_boring {s s' : RState} {req : DataRequest} {grp : Option SharedGroup}
    (h : fwdAdvance s req grp = .ok s') : Boring s s' := by
  have := fwdAdvance_spec h
  exact Boring.of_eq (by rw [this.datalog]) this.lastWills this.ghost

theorem fwdPush_boring {s s' : RState} {id : Nat} {c : Conn} {req req' : DataRequest} {grp : Option SharedGroup}
    {publishes : List (Pub × Option Cursor)} {caughtup : Bool} {st : ConsumeStatus}
    (h : fwdPush s id c req grp publishes caughtup = .ok (s', req', st)) : Boring s s' := by
  unfold fwdPush at h
  simp only [] at h
  split at h
  · simp at h
  · rename_i s3 hadv
    have b1 : Boring s s3 := Boring.precomp (fwdAdvance_boring hadv) rfl rfl rfl
    split at h
    · simp only [Except.ok.injEq, Prod.mk.injEq] at h; obtain ⟨rfl, _⟩ := h
      exact b1.congr rfl rfl rfl
    · simp only [Except.ok.injEq, Prod.mk.injEq] at h; obtain ⟨rfl, _⟩ := h
      exact b1.congr rfl rfl rfl

theorem fwdRead_boring {s s' : RState} {id : Nat} {c : Conn} {req req' : DataRequest} {grp : Option SharedGroup}
    {rp : List (Pub × Option Cursor)} {slots : Nat} {st : ConsumeStatus}
    (h : fwdRead s id c req grp rp slots = .ok (s', req', st)) : Boring s s' := by
  unfold fwdRead at h
  simp only [] at h
  split at h
  · simp at h
  · split at h
    · simp only [Except.ok.injEq, Prod.mk.injEq] at h; obtain ⟨rfl, _⟩ := h; exact Boring.refl _
    · split at h
      · simp only [Except.ok.injEq, Prod.mk.injEq] at h; obtain ⟨rfl, _⟩ := h; exact Boring.refl _
      · exact fwdPush_boring h

theorem forwardDeviceData_boring {s s' : RState} {id : Nat} {req req' : DataRequest} {st : ConsumeStatus}
    (h : forwardDeviceData s id req = .ok (s', req', st)) : Boring s s' := by
  rw [forwardDeviceData_eq_rp2] at h
  split at h
  · simp at h
  · simp only [] at h
    split at h
    · simp only [Except.ok.injEq, Prod.mk.injEq] at h; obtain ⟨rfl, _⟩ := h; exact Boring.refl _
    · split at h
      · simp at h
      · rename_i s1 rp slots hr
        obtain ⟨h1, h2, _⟩ := fwdRetained_spec hr
        exact (Boring.of_toState h1 h2).trans (fwdRead_boring h)

theorem consumeLoop_boring (id : Nat) : ∀ (fuel : Nat) (reqs skipped : List DataRequest) {s s' : RState},
    consumeLoop s id fuel reqs skipped = .ok s' → Boring s s'
  | 0, reqs, skipped, s, s', h => by
    simp only [consumeLoop] at h
    exact trackv_boring h
  | fuel + 1, [], skipped, s, s', h => by
    simp only [consumeLoop] at h
    split at h
    · simp at h
    · rename_i s1 h1
      have f1 : Boring s s1 := by
        split at h1
        · exact pause_boring h1
        · simp only [Except.ok.injEq] at h1; subst h1; exact Boring.refl _
      exact f1.trans (trackv_boring h)
  | fuel + 1, req :: rest, skipped, s, s', h => by
    simp only [consumeLoop] at h
    split at h
    · simp at h
    · rename_i s1 req1 st hf
      have f1 := (forwardDeviceData_boring hf).trans (noteTurn_boring s s1 req1)
      cases st with
      | bufferFull =>
        simp only [] at h
        split at h
        · simp at h
        · rename_i s2 h2
          exact f1.trans ((pause_boring h2).trans (trackv_boring h))
      | inflightFull =>
        simp only [] at h
        split at h
        · simp at h
        · rename_i s2 h2
          exact f1.trans ((pause_boring h2).trans (trackv_boring h))
      | filterCaughtup =>
        simp only [] at h
        split at h
        · simp at h
        · rename_i s2 h2
          exact (f1.trans (park_boring h2)).trans (consumeLoop_boring id fuel rest skipped h)
      | partialRead =>
        simp only [] at h
        exact f1.trans (consumeLoop_boring id fuel _ skipped h)
      | skipRequest =>
        simp only [] at h
        exact f1.trans (consumeLoop_boring id fuel rest _ h)

theorem ackDeviceData_boring (s : RState) (id : Nat) : Boring s (ackDeviceData s id) := by
  unfold ackDeviceData
  split
  · exact Boring.refl _
  · split
    · exact Boring.refl _
    · exact Boring.of_eq rfl rfl rfl

theorem consume_boring {s s' : RState} {b : Bool} (h : consume s = .ok (s', b)) : Boring s s' := by
  unfold consume at h
  split at h
  · simp only [Except.ok.injEq, Prod.mk.injEq] at h; obtain ⟨rfl, _⟩ := h; exact Boring.of_eq rfl rfl rfl
  · simp only [] at h
    split at h
    · simp only [Except.ok.injEq, Prod.mk.injEq] at h; obtain ⟨rfl, _⟩ := h; exact Boring.of_eq rfl rfl rfl
    · split at h
      · simp at h
      · rename_i s2 hloop
        split at h
        · simp at h
        rename_i s3 hwake
        simp only [Except.ok.injEq, Prod.mk.injEq] at h; obtain ⟨rfl, _⟩ := h
        refine Boring.trans ?_ ((consumeLoop_boring _ _ _ _ hloop).trans (wakeTurnMoved_boring hwake))
        exact Boring.precomp (ackDeviceData_boring _ _) rfl rfl rfl

theorem handleShadow_boring {s s' : RState} {id : Nat} {f : String} (h : handleShadow s id f = .ok s') :
    Boring s s' := by
  unfold handleShadow at h
  split at h
  · simp only [Except.ok.injEq] at h; subst h; exact Boring.refl _
  · split at h
    · simp only [Except.ok.injEq] at h; subst h; exact Boring.refl _
    · split at h
      · simp only [Except.ok.injEq] at h; subst h; exact Boring.refl _
      · simp only [Except.ok.injEq] at h; subst h
        refine Boring.of_eq ?_ ?_ ?_ <;> (simp only [wakeLink]; split <;> rfl)

end Router
