/-
C01.2 / C17 — the two sweep theorems at lemma level: `sweep_plain` (non-shared request),
`sweep_shared_skip` / `sweep_shared_turn` (request of a shared group).
-/
import Proofs.Lemmas.Router.Rp3_ReadSpec
namespace Router
namespace Rp3

theorem sweepNotifs_nil (c : Conn) (req : DataRequest) : (sweepNotifs c req []).2 = [] := by
  unfold sweepNotifs sweepFwds
  split <;> simp [numberForwards]

theorem sweepRetained_spec {s s1 : RState} {req : DataRequest} {slots slots' : Nat}
    {rp : List (Pub × Option Cursor)} (h : sweepRetained s req slots = .ok (s1, rp, slots')) :
    s1 = { s with oracle := s1.oracle } ∧ rp.length + slots' = slots ∧ (∀ pc ∈ rp, pc.2 = none) ∧
    (req.forwardRetained = false → rp = [] ∧ s1 = s) := by
  refine ⟨sweepRetained_only_oracle h, ?_⟩
  unfold sweepRetained at h
  split at h
  · rename_i hfr
    split at h
    · simp at h
    · rename_i s2 ps hr
      simp only [Except.ok.injEq, Prod.mk.injEq] at h
      obtain ⟨rfl, rfl, rfl⟩ := h
      refine ⟨?_, ?_, ?_⟩
      · simp only [List.length_map, List.length_take]; omega
      · intro pc hpc
        obtain ⟨p, _, rfl⟩ := List.mem_map.mp hpc
        rfl
      · intro hf; rw [hf] at hfr; cases hfr
  · simp only [Except.ok.injEq, Prod.mk.injEq] at h
    obtain ⟨rfl, rfl, rfl⟩ := h
    exact ⟨by simp, by simp, fun _ => ⟨rfl, rfl⟩⟩

theorem sweepAdvance_plain {s s' : RState} {req : DataRequest} (h : sweepAdvance s req none = .ok s') : s' = s := by
  unfold sweepAdvance at h
  split at h
  · rename_i hh; cases hh
  · simp only [Except.ok.injEq] at h; exact h.symm

/-- a sweep for a plain (non-shared) request, or for a request whose group no longer exists -/
theorem sweep_plain {s s' : RState} {id : Nat} {c : Conn} {req req' : DataRequest} {st : ConsumeStatus}
    (hc : getConn s id = some c) (hg : reqGroup s req = none)
    (h : forwardDeviceData s id req = .ok (s', req', st)) (hst : st ≠ .inflightFull) :
    ∃ s1 rp slots' fd,
      sweepRetained s req (sweepSlots s c req none) = .ok (s1, rp, slots') ∧
      s.datalog.native[req.filterIdx]? = some fd ∧
      req' = sweepReq req (fd.log.readv req.cursor slots') ∧
      (getLink s' c.link).obuf = (getLink s c.link).obuf ++
          (sweepNotifs c req' (sweepPubs rp (fd.log.readv req.cursor slots'))).2 ++
          (if st = .bufferFull then [Notif.unschedule] else []) ∧
      (∀ l, l ≠ c.link → getLink s' l = getLink s l) ∧
      s'.datalog = s.datalog ∧ s'.shared = s.shared ∧
      (st = .bufferFull ∨
       (st = .filterCaughtup ∧ (sweepPubs rp (fd.log.readv req.cursor slots') = [] ∨
          (posNext (fd.log.readv req.cursor slots').2).2 = true)) ∨
       (st = .partialRead ∧ sweepPubs rp (fd.log.readv req.cursor slots') ≠ [] ∧
          (posNext (fd.log.readv req.cursor slots').2).2 = false)) ∧
      ¬ (req.qos ≠ 0 ∧ c.out.freeSlots = 0) := by
  rcases forwardDeviceData_cases hc h with ⟨_, _, _, _, e⟩ | ⟨hnfull, s1, rp, slots', hr, hrd⟩
  · exact absurd e hst
  · rw [hg] at hr hrd
    simp only [adoptCursor] at hr hrd
    obtain ⟨ho, _, _, _⟩ := sweepRetained_spec hr
    obtain ⟨fd, hfd, hcase⟩ := sweepRead_cases hrd
    have hfd' : s.datalog.native[req.filterIdx]? = some fd := by rw [ho] at hfd; exact hfd
    have hl1 : ∀ l, getLink s1 l = getLink s l := fun l => by rw [ho]; rfl
    have hd1 : s1.datalog = s.datalog := by rw [ho]
    have hs1 : s1.shared = s.shared := by rw [ho]
    refine ⟨s1, rp, slots', fd, hr, hfd', ?_⟩
    rcases hcase with ⟨hsk, _⟩ | ⟨_, hemp, rfl, rfl, rfl⟩ | ⟨_, hne, hpush⟩
    · simp [sweepSkip] at hsk
    · refine ⟨rfl, ?_, fun l _ => hl1 l, hd1, hs1, Or.inr (Or.inl ⟨rfl, Or.inl hemp⟩), hnfull⟩
      rw [hemp, sweepNotifs_nil, hl1]; simp
    · obtain ⟨rfl, s2, hadv, hfin⟩ := sweepPush_spec hpush
      have e2 := sweepAdvance_plain hadv
      subst e2
      rcases hfin with ⟨hfull, rfl, rfl⟩ | ⟨hnf, rfl, rfl⟩
      · refine ⟨rfl, ?_, ?_, ?_, ?_, Or.inl rfl, hnfull⟩
        · rw [getLink_wakeLink_same, wake_obuf, getLink_pushNotifs_same, getLink_pushNotifs_same]
          simp [hl1]
        · intro l hl
          rw [getLink_wakeLink_ne _ _ _ hl, getLink_pushNotifs_ne _ _ _ _ hl, getLink_pushNotifs_ne _ _ _ _ hl]
          exact hl1 l
        · exact hd1
        · exact hs1
      · refine ⟨rfl, ?_, ?_, hd1, hs1, ?_, hnfull⟩
        · rw [getLink_wakeLink_same, wake_obuf, getLink_pushNotifs_same]
          cases hd : (posNext (fd.log.readv req.cursor slots').2).2 <;> simp [hl1]
        · intro l hl
          rw [getLink_wakeLink_ne _ _ _ hl, getLink_pushNotifs_ne _ _ _ _ hl]
          exact hl1 l
        · cases hd : (posNext (fd.log.readv req.cursor slots').2).2
          · exact Or.inr (Or.inr ⟨by simp, hne, rfl⟩)
          · exact Or.inr (Or.inl ⟨by simp, Or.inr rfl⟩)

theorem reqGroup_some {s : RState} {req : DataRequest} {g : SharedGroup} (h : reqGroup s req = some g) :
    ∃ gname, req.group = some gname ∧ alookup gname s.shared = some g := by
  unfold reqGroup at h
  cases hg : req.group with
  | none => simp [hg] at h
  | some gname => exact ⟨gname, rfl, by simpa [hg] using h⟩

theorem reqGroup_of {s : RState} {req : DataRequest} {g : SharedGroup} {gname : String}
    (hgn : req.group = some gname) (hg : alookup gname s.shared = some g) : reqGroup s req = some g := by
  unfold reqGroup; simp [hgn, hg]

/-- `update_next_client`: members, cursor and strategy stay; the turn moves per strategy -/
theorem updateNextClient_spec {s s' : RState} {g g' : SharedGroup} (h : updateNextClient s g = .ok (s', g')) :
    s' = { s with oracle := s'.oracle } ∧ g'.clients = g.clients ∧ g'.cursor = g.cursor ∧ g'.strategy = g.strategy ∧
    (g.strategy = .sticky → g'.idx = g.idx) ∧
    (g.strategy = .roundRobin → g'.idx = (g.idx + 1) % g.clients.length) ∧
    (g.strategy = .random → g'.idx < g.clients.length) := by
  refine ⟨updateNextClient_only h, ?_⟩
  unfold updateNextClient at h
  split at h
  · rename_i hs
    simp only [Except.ok.injEq, Prod.mk.injEq] at h; obtain ⟨_, rfl⟩ := h
    exact ⟨rfl, rfl, rfl, fun _ => rfl, fun e => (by rw [hs] at e; cases e), fun e => (by rw [hs] at e; cases e)⟩
  · rename_i hs
    split at h
    · simp at h
    · simp only [Except.ok.injEq, Prod.mk.injEq] at h; obtain ⟨_, rfl⟩ := h
      exact ⟨rfl, rfl, rfl, fun e => (by rw [hs] at e; cases e), fun _ => rfl, fun e => (by rw [hs] at e; cases e)⟩
  · rename_i hs
    split at h
    · simp at h
    · split at h
      · split at h
        · rename_i hn
          simp only [Except.ok.injEq, Prod.mk.injEq] at h; obtain ⟨_, rfl⟩ := h
          exact ⟨rfl, rfl, rfl, fun e => (by rw [hs] at e; cases e), fun e => (by rw [hs] at e; cases e), fun _ => hn⟩
        · simp at h
      · simp at h

/-- the group step of a sweep that pushed: the turn advances and the group's cursor becomes the
    request's (continuation) cursor; other groups are untouched -/
theorem sweepAdvance_group {s s' : RState} {req : DataRequest} {g0 g : SharedGroup} {gname : String}
    (hgn : req.group = some gname) (hg : alookup gname s.shared = some g)
    (h : sweepAdvance s req (some g0) = .ok s') :
    ∃ s2 g2, updateNextClient s g = .ok (s2, g2) ∧
      alookup gname s'.shared = some { g2 with cursor := req.cursor } ∧
      (∀ other, other ≠ gname → alookup other s'.shared = alookup other s.shared) ∧
      s' = { s with shared := s'.shared, oracle := s'.oracle } := by
  have hon := sweepAdvance_only h
  unfold sweepAdvance at h
  rw [hgn] at h
  simp only [hg] at h
  split at h
  · simp at h
  · rename_i s2 g2 hu
    simp only [Except.ok.injEq] at h
    subst h
    have hs2 := (updateNextClient_spec hu).1
    refine ⟨s2, g2, hu, alookup_ainsert_same _ _ _, ?_, hon⟩
    intro other hne
    show alookup other (ainsert gname _ s2.shared) = _
    rw [alookup_ainsert_ne _ _ _ _ hne, hs2]

/-- a sweep for a shared request, when it is NOT this client's turn (in particular when the client
    is not a member of the group): nothing is pushed, nothing changes but the oracle -/
theorem sweep_shared_skip {s s' : RState} {id : Nat} {c : Conn} {req req' : DataRequest} {st : ConsumeStatus}
    {gname : String} {g : SharedGroup}
    (hc : getConn s id = some c) (hgn : req.group = some gname) (hg : alookup gname s.shared = some g)
    (hturn : some c.clientId ≠ g.current)
    (h : forwardDeviceData s id req = .ok (s', req', st)) :
    s' = { s with oracle := s'.oracle } ∧
    (st = .inflightFull ∨ st = .filterCaughtup ∨ st = .skipRequest) := by
  have hgr := reqGroup_of hgn hg
  rcases forwardDeviceData_cases hc h with ⟨_, _, rfl, _, rfl⟩ | ⟨_, s1, rp, slots', hr, hrd⟩
  · exact ⟨rfl, Or.inl rfl⟩
  · rw [hgr] at hr hrd
    obtain ⟨ho, _⟩ := sweepRetained_spec hr
    obtain ⟨fd, hfd, hcase⟩ := sweepRead_cases hrd
    have hsk : sweepSkip c (some g) = true := by
      simp only [sweepSkip, bne_iff_ne, ne_eq]; exact hturn
    rcases hcase with ⟨_, rfl, _, rfl⟩ | ⟨hs, _⟩ | ⟨hs, _⟩
    · refine ⟨ho, ?_⟩
      split
      · exact Or.inr (Or.inl rfl)
      · exact Or.inr (Or.inr rfl)
    · rw [hsk] at hs; cases hs
    · rw [hsk] at hs; cases hs

/-- a sweep for a shared request when it IS this client's turn -/
theorem sweep_shared_turn {s s' : RState} {id : Nat} {c : Conn} {req req' : DataRequest} {st : ConsumeStatus}
    {gname : String} {g : SharedGroup}
    (hc : getConn s id = some c) (hgn : req.group = some gname) (hg : alookup gname s.shared = some g)
    (hturn : some c.clientId = g.current)
    (h : forwardDeviceData s id req = .ok (s', req', st)) (hst : st ≠ .inflightFull) :
    ∃ s1 rp slots' fd,
      sweepRetained s { req with cursor := g.cursor } (sweepSlots s c { req with cursor := g.cursor } (some g)) = .ok (s1, rp, slots') ∧
      s.datalog.native[req.filterIdx]? = some fd ∧
      req' = sweepReq { req with cursor := g.cursor } (fd.log.readv g.cursor slots') ∧
      (getLink s' c.link).obuf = (getLink s c.link).obuf ++
          (sweepNotifs c req' (sweepPubs rp (fd.log.readv g.cursor slots'))).2 ++
          (if st = .bufferFull then [Notif.unschedule] else []) ∧
      (∀ l, l ≠ c.link → getLink s' l = getLink s l) ∧
      s'.datalog = s.datalog ∧
      (sweepPubs rp (fd.log.readv g.cursor slots') = [] → s'.shared = s.shared ∧ st = .filterCaughtup) ∧
      (sweepPubs rp (fd.log.readv g.cursor slots') ≠ [] →
        (∃ g', alookup gname s'.shared = some g' ∧ g'.cursor = (posNext (fd.log.readv g.cursor slots').2).1 ∧
          g'.clients = g.clients ∧ g'.strategy = g.strategy ∧
          (g.strategy = .sticky → g'.idx = g.idx) ∧
          (g.strategy = .roundRobin → g'.idx = (g.idx + 1) % g.clients.length) ∧
          (g.strategy = .random → g'.idx < g.clients.length)) ∧
        (∀ other, other ≠ gname → alookup other s'.shared = alookup other s.shared) ∧
        (st = .bufferFull ∨ st = (if (posNext (fd.log.readv g.cursor slots').2).2 then .filterCaughtup else .partialRead))) := by
  have hgr := reqGroup_of hgn hg
  rcases forwardDeviceData_cases hc h with ⟨_, _, _, _, e⟩ | ⟨_, s1, rp, slots', hr, hrd⟩
  · exact absurd e hst
  · rw [hgr] at hr hrd
    simp only [adoptCursor] at hr hrd
    obtain ⟨ho, _, _, _⟩ := sweepRetained_spec hr
    obtain ⟨fd, hfd, hcase⟩ := sweepRead_cases hrd
    have hfd' : s.datalog.native[req.filterIdx]? = some fd := by rw [ho] at hfd; exact hfd
    have hl1 : ∀ l, getLink s1 l = getLink s l := fun l => by rw [ho]; rfl
    have hd1 : s1.datalog = s.datalog := by rw [ho]
    have hs1 : s1.shared = s.shared := by rw [ho]
    have hsk : sweepSkip c (some g) = false := by
      simp only [sweepSkip, hturn]; simp
    refine ⟨s1, rp, slots', fd, hr, hfd', ?_⟩
    rcases hcase with ⟨hs, _⟩ | ⟨_, hemp, rfl, rfl, rfl⟩ | ⟨_, hne, hpush⟩
    · rw [hsk] at hs; cases hs
    · refine ⟨rfl, ?_, fun l _ => hl1 l, hd1, fun _ => ⟨hs1, rfl⟩, fun hn => absurd hemp hn⟩
      rw [hemp, sweepNotifs_nil, hl1]; simp
    · obtain ⟨rfl, s2, hadv, hfin⟩ := sweepPush_spec hpush
      have hg2 : alookup gname (pushNotifs (setConn s1 id { c with
            out := (sweepNotifs c (sweepReq { req with cursor := g.cursor } (fd.log.readv g.cursor slots')) (sweepPubs rp (fd.log.readv g.cursor slots'))).1,
            brokerAliases := (sweepAlias c (sweepReq { req with cursor := g.cursor } (fd.log.readv g.cursor slots')).filter).1 }) c.link
            (sweepNotifs c (sweepReq { req with cursor := g.cursor } (fd.log.readv g.cursor slots')) (sweepPubs rp (fd.log.readv g.cursor slots'))).2).shared = some g := by
        show alookup gname s1.shared = some g
        rw [hs1]; exact hg
      obtain ⟨s3, g3, hu, hlook, hother, hs2⟩ := sweepAdvance_group (req := sweepReq { req with cursor := g.cursor } (fd.log.readv g.cursor slots')) hgn hg2 hadv
      obtain ⟨_, u1, _, u3, u4, u5, u6⟩ := updateNextClient_spec hu
      have hgrp : ∃ g', alookup gname s2.shared = some g' ∧ g'.cursor = (posNext (fd.log.readv g.cursor slots').2).1 ∧
          g'.clients = g.clients ∧ g'.strategy = g.strategy ∧
          (g.strategy = .sticky → g'.idx = g.idx) ∧
          (g.strategy = .roundRobin → g'.idx = (g.idx + 1) % g.clients.length) ∧
          (g.strategy = .random → g'.idx < g.clients.length) :=
        ⟨_, hlook, rfl, u1, u3, u4, u5, u6⟩
      have hl2 : ∀ l, getLink s2 l = getLink (pushNotifs (setConn s1 id _) c.link _) l := fun l => by rw [hs2]; rfl
      have hd2 : s2.datalog = s.datalog := by rw [hs2]; exact hd1
      have hoth : ∀ other, other ≠ gname → alookup other s2.shared = alookup other s.shared := by
        intro o ho'; rw [hother o ho']; show alookup o s1.shared = _; rw [hs1]
      rcases hfin with ⟨hfull, rfl, rfl⟩ | ⟨hnf, rfl, rfl⟩
      · refine ⟨rfl, ?_, ?_, hd2, fun he => absurd he hne, fun _ => ⟨hgrp, hoth, Or.inl rfl⟩⟩
        · rw [getLink_wakeLink_same, wake_obuf, getLink_pushNotifs_same, hl2, getLink_pushNotifs_same]
          simp [hl1]
        · intro l hl
          rw [getLink_wakeLink_ne _ _ _ hl, getLink_pushNotifs_ne _ _ _ _ hl, hl2, getLink_pushNotifs_ne _ _ _ _ hl]
          exact hl1 l
      · refine ⟨rfl, ?_, ?_, hd2, fun he => absurd he hne, fun _ => ⟨hgrp, hoth, Or.inr rfl⟩⟩
        · rw [getLink_wakeLink_same, wake_obuf, hl2, getLink_pushNotifs_same]
          cases hd : (posNext (fd.log.readv g.cursor slots').2).2 <;> simp [hl1]
        · intro l hl
          rw [getLink_wakeLink_ne _ _ _ hl, hl2, getLink_pushNotifs_ne _ _ _ _ hl]
          exact hl1 l

end Rp3
end Router
