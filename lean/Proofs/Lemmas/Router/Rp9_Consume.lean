/-
The liveness invariant `GL` through `consume`: the request loop (sweeps and parks), and the wake-up
of the logs in `turn_moved` at the end of the call.
-/
import Proofs.Lemmas.Router.Rp9_Sweep
namespace Router
open Router.Rp3
open CommitLog (Rep logC Issued U64)

/-- the wake-up at the end of a call: the logs in `turn_moved` have no parked request afterwards, and
    `turn_moved` is empty again -/
theorem wakeTurnMoved_gl {s s' : RState} (h : GL s) (hw : wakeTurnMoved s = .ok s') : GL s' ∧ s'.turnMoved = [] := by
  obtain ⟨m, hwoken⟩ := wakeParked_lstep hw
  have wf := wakeTurnMoved_wakeFrame hw
  refine ⟨⟨by rw [m.shared]; exact h.nodup, by rw [m.shared]; exact h.wf, by rw [m.shared]; exact h.key, fun p hp => ?_⟩,
    wf.turnMoved⟩
  rw [m.shared] at hp
  have hp' : p ∈ s.shared := hp
  intro i hi
  rcases m.mono.fi _ i hi with hi0 | hnp
  · have hi0' : s.datalog.filterIdx? (gpath p.1) = some i := hi0
    rcases h.lv p hp' i hi0' with ⟨fd, a, b⟩ | h1 | h1
    · have a0 : ({ s with turnMoved := [] } : RState).datalog.native[i]? = some fd := a
      obtain ⟨fd', a', e⟩ := m.mono.logs i fd a0
      rcases e with e | e
      · exact .inl ⟨fd', a', by unfold AbsEnd at b ⊢; rw [e]; exact b⟩
      · refine .inr (.inr fun id c r _ _ _ hpk => ?_)
        obtain ⟨fd'', a'', hm⟩ := hpk
        rw [a'] at a''; cases a''
        rw [e] at hm; cases hm
    · exact .inr (.inr fun id c r _ _ _ hpk => hwoken i h1 id r hpk)
    · refine .inr (.inr fun id c' r hc' hcur hg hpk => ?_)
      rcases m.mono.conn id c' hc' with ⟨c, hc, e⟩ | hn
      · exact h1 id c r hc (e ▸ hcur) hg (m.mono.parked i id r hpk)
      · exact hn i r hpk
  · exact .inr (.inr fun id c r _ _ _ hpk => hnp id r hpk)

/-- the request loop of `consume` -/
theorem consumeLoop_gl {id : Nat} : ∀ (fuel : Nat) {s s' : RState} {requests skipped : List DataRequest},
    DLInv s → NoOverflow s → CS s → 0 < s.config.maxOutgoingPacketCount →
    (∀ r ∈ requests ++ skipped, ReqOK s.datalog r) → GL s →
    consumeLoop s id fuel requests skipped = .ok s' → GL s'
  | 0, s, s', requests, skipped, _, _, _, _, _, hg, hc => by
    simp only [consumeLoop] at hc
    exact hg.step (trackv_lstep hc)
  | fuel + 1, s, s', requests, skipped, hi, hno, h, hpos, hl, hg, hc => by
    cases requests with
    | nil =>
      simp only [consumeLoop] at hc
      split at hc
      · simp at hc
      · rename_i s1 h1
        have a : LStep s s1 := by
          split at h1
          · exact pause_lstep h1
          · simp only [Except.ok.injEq] at h1; subst h1; exact LStep.refl _
        exact hg.step (a.trans (trackv_lstep hc))
    | cons req rest =>
      simp only [consumeLoop] at hc
      split at hc
      · simp at hc
      · rename_i s1 req1 st h1
        obtain ⟨hs1, hr1⟩ := forwardDeviceData_cs hi h hno (hl req (by simp)) h1
        obtain ⟨g2, gpark⟩ := sweep_gl hg hi hno h hpos (hl req (by simp)) h1
        have hk1 : dkey s1 = dkey s := forwardDeviceData_dkey h1
        have hd1 : LogMono s.datalog s1.datalog := by
          simp only [dkey, Prod.mk.injEq] at hk1
          exact LogMono.of_eq hk1.2.1 hk1.2.2.1
        obtain ⟨tm, etm⟩ := noteTurn_eq s s1 req1
        have hk2 : dkey (noteTurn s s1 req1) = dkey s := (noteTurn_dkey s s1 req1).trans hk1
        have hi2 : DLInv (noteTurn s s1 req1) := hi.of_dkey hk2
        have hno2 : NoOverflow (noteTurn s s1 req1) := hno.of_dkey hk2
        have hs2 : CS (noteTurn s s1 req1) := hs1.step0 (noteTurn_cstep s s1 req1)
        have hd2 : (noteTurn s s1 req1).datalog = s1.datalog := by rw [etm]
        have hpos2 : 0 < (noteTurn s s1 req1).config.maxOutgoingPacketCount := by
          have : (noteTurn s s1 req1).config = s.config := by
            simp only [dkey, Prod.mk.injEq] at hk2; exact hk2.2.2.2.2
          rw [this]; exact hpos
        have hl2 : ∀ r ∈ rest ++ skipped, ReqOK (noteTurn s s1 req1).datalog r := fun r hr => by
          rw [hd2]; exact (hl r (by simp [List.mem_append.mp hr])).mono hd1
        have hr2 : ReqOK (noteTurn s s1 req1).datalog req1 := by rw [hd2]; exact hr1
        split at hc
        · split at hc
          · simp at hc
          · rename_i s3 h3
            exact g2.step ((pause_lstep h3).trans (trackv_lstep hc))
        · split at hc
          · simp at hc
          · rename_i s3 h3
            exact g2.step ((pause_lstep h3).trans (trackv_lstep hc))
        · split at hc
          · simp at hc
          · rename_i s3 h3
            have m := park_cstep h3
            have hk3 : dkey s3 = dkey s := (park_dkey h3).trans hk2
            have hpos3 : 0 < s3.config.maxOutgoingPacketCount := by
              have : s3.config = s.config := by simp only [dkey, Prod.mk.injEq] at hk3; exact hk3.2.2.2.2
              rw [this]; exact hpos
            exact consumeLoop_gl fuel (hi.of_dkey hk3) (hno.of_dkey hk3)
              (hs2.step m fun r hr => .inr (by subst hr; exact hr2.mono m.mono)) hpos3
              (fun r hr => (hl2 r hr).mono m.mono) (gpark rfl s3 h3) hc
        · refine consumeLoop_gl fuel hi2 hno2 hs2 hpos2 (fun r hr => ?_) g2 hc
          simp only [List.mem_append, List.mem_singleton] at hr
          rcases hr with (hr | hr) | hr
          · exact hl2 r (List.mem_append_left _ hr)
          · subst hr; exact hr2
          · exact hl2 r (List.mem_append_right _ hr)
        · refine consumeLoop_gl fuel hi2 hno2 hs2 hpos2 (fun r hr => ?_) g2 hc
          simp only [List.mem_append, List.mem_singleton] at hr
          rcases hr with hr | hr | hr
          · exact hl2 r (List.mem_append_left _ hr)
          · exact hl2 r (List.mem_append_right _ hr)
          · subst hr; exact hr2

theorem consume_gl {s s' : RState} {b : Bool} (hi : DLInv s) (hno : NoOverflow s) (h : CS s)
    (hpos : 0 < s.config.maxOutgoingPacketCount) (hg : GL s) (hc : consume s = .ok (s', b)) :
    GL s' ∧ (s.turnMoved = [] → s'.turnMoved = []) := by
  unfold consume at hc
  split at hc
  · simp only [Except.ok.injEq, Prod.mk.injEq] at hc; obtain ⟨rfl, _⟩ := hc
    exact ⟨hg.step (LStep.of_conns rfl rfl rfl rfl rfl), fun e => e⟩
  · rename_i id rq hrq
    simp only [] at hc
    split at hc
    · simp only [Except.ok.injEq, Prod.mk.injEq] at hc; obtain ⟨rfl, _⟩ := hc
      exact ⟨hg.step (LStep.of_conns rfl rfl rfl rfl rfl), fun e => e⟩
    · rename_i c hcn
      split at hc
      · simp at hc
      · rename_i s1 h1
        split at hc
        · simp at hc
        · rename_i s2 h2
          simp only [Except.ok.injEq, Prod.mk.injEq] at hc; obtain ⟨rfl, _⟩ := hc
          have hcn' : getConn s id = some c := hcn
          have a : CStep s ({ setConn { s with readyqueue := rq } id { c with tracker := { c.tracker with requests := [] } }
              with readyqueue := (setConn { s with readyqueue := rq } id { c with tracker := { c.tracker with requests := [] } }).readyqueue ++ [id] } : RState) noReq :=
            CStep.of_set (c' := { c with tracker := { c.tracker with requests := [] } }) hcn' rfl
              (fun r hr => by simp at hr) (fun e he cur hcur => ⟨e, he, rfl, hcur⟩) rfl rfl rfl rfl
          have m := a.nn (ackDeviceData_cstep _ id)
          have la : LStep s ({ setConn { s with readyqueue := rq } id { c with tracker := { c.tracker with requests := [] } }
              with readyqueue := (setConn { s with readyqueue := rq } id { c with tracker := { c.tracker with requests := [] } }).readyqueue ++ [id] } : RState) :=
            LStep.of_setc (c' := { c with tracker := { c.tracker with requests := [] } }) hcn' rfl rfl rfl rfl rfl rfl
          have lb := la.trans (ackDeviceData_lstep _ id)
          have hk : dkey (ackDeviceData ({ setConn { s with readyqueue := rq } id { c with tracker := { c.tracker with requests := [] } }
              with readyqueue := (setConn { s with readyqueue := rq } id { c with tracker := { c.tracker with requests := [] } }).readyqueue ++ [id] } : RState) id) = dkey s := by
            rw [ackDeviceData_dkey]; rfl
          have hpos' : 0 < (ackDeviceData ({ setConn { s with readyqueue := rq } id { c with tracker := { c.tracker with requests := [] } }
              with readyqueue := (setConn { s with readyqueue := rq } id { c with tracker := { c.tracker with requests := [] } }).readyqueue ++ [id] } : RState) id).config.maxOutgoingPacketCount := by
            have : (ackDeviceData ({ setConn { s with readyqueue := rq } id { c with tracker := { c.tracker with requests := [] } }
              with readyqueue := (setConn { s with readyqueue := rq } id { c with tracker := { c.tracker with requests := [] } }).readyqueue ++ [id] } : RState) id).config = s.config := by
              simp only [dkey, Prod.mk.injEq] at hk; exact hk.2.2.2.2
            rw [this]; exact hpos
          have g1 := consumeLoop_gl _ (hi.of_dkey hk) (hno.of_dkey hk) (h.step0 m) hpos' (fun r hr => by
            simp only [List.append_nil] at hr
            exact (h.req r (.inl ⟨id, c, hcn', hr⟩)).mono m.mono) (hg.step lb) h1
          exact ⟨(wakeTurnMoved_gl g1 h2).1, fun _ => (wakeTurnMoved_gl g1 h2).2⟩

end Router
