/-
C20 — the commit-log-contents invariant (round 12): the commit log copy of the router model.
What `readv` returns are entries of the log; what `append` leaves in the log is what was there, or the
appended item (retention only drops segments). For ANY log (no well-formedness needed).
-/
import Proofs.Lemmas.Router.Rp18_StoredDefs
namespace CLog
variable {α : Type}

theorem mem_tagFrom {seg : Nat} : ∀ {o : Nat} {l : List α} {e : α × Cursor}, e ∈ tagFrom seg o l → e.1 ∈ l
  | _, [], e, h => by simp [tagFrom] at h
  | o, a :: as, e, h => by
    simp only [tagFrom, List.mem_cons] at h
    rcases h with rfl | h
    · exact List.mem_cons_self
    · exact List.mem_cons_of_mem _ (mem_tagFrom h)

theorem Seg.readv_mem (s : Seg α) (cur : Cursor) (len : Nat) : ∀ e ∈ (s.readv cur len).1, e.1 ∈ s.data := by
  intro e he
  unfold Seg.readv at he
  simp only [] at he
  split at he
  · simp at he
  · split at he
    · exact List.mem_of_mem_drop (mem_tagFrom he)
    · exact List.mem_of_mem_drop (List.mem_of_mem_take (mem_tagFrom he))

theorem walk_mem (start : Cursor) : ∀ (segs : List (Seg α)) (cur : Cursor) (len : Nat) (out : List (α × Cursor)),
    ∀ e ∈ (walk start segs cur len out).1, e ∈ out ∨ ∃ sg ∈ segs, e.1 ∈ sg.data
  | [], cur, len, out, e, he => by simp only [walk] at he; exact .inl he
  | [act], cur, len, out, e, he => by
    simp only [walk] at he
    split at he
    · exact .inl he
    · have hm := act.readv_mem cur len
      split at he
      all_goals
        rename_i o v heq
        rw [heq] at hm
        rcases List.mem_append.mp he with h | h
        · exact .inl h
        · exact .inr ⟨act, List.mem_singleton.mpr rfl, hm e h⟩
  | s :: r :: rest, cur, len, out, e, he => by
    simp only [walk] at he
    have hm := s.readv_mem cur len
    split at he
    · rename_i o off heq
      rw [heq] at hm
      rcases List.mem_append.mp he with h | h
      · exact .inl h
      · exact .inr ⟨s, List.mem_cons_self, hm e h⟩
    · rename_i o nxt heq
      rw [heq] at hm
      generalize (if nxt ≥ cur.2 then len - (nxt - cur.2) else len) = len' at he
      split at he
      · rcases List.mem_append.mp he with h | h
        · exact .inl h
        · exact .inr ⟨s, List.mem_cons_self, hm e h⟩
      · rcases walk_mem start (r :: rest) _ _ (out ++ o) e he with h | ⟨sg, hsg, h⟩
        · rcases List.mem_append.mp h with h | h
          · exact .inl h
          · exact .inr ⟨s, List.mem_cons_self, hm e h⟩
        · exact .inr ⟨sg, List.mem_cons_of_mem _ hsg, h⟩

/-- every entry `readv` returns is an item of one of the log's segments -/
theorem Log.readv_mem (l : Log α) (start : Cursor) (len : Nat) :
    ∀ e ∈ (l.readv start len).1, ∃ sg ∈ l.segs, e.1 ∈ sg.data := by
  intro e he
  unfold Log.readv at he
  split at he
  · simp at he
  · simp only [] at he
    split at he
    · simp at he
    · rename_i sg0 rest hsegs
      rcases walk_mem _ _ _ _ _ e he with h | ⟨sg, hsg, h⟩
      · simp at h
      · exact ⟨sg, List.mem_of_mem_drop hsg, h⟩

theorem Log.applyRetention_mem (l : Log α) : ∀ sg ∈ l.applyRetention.segs, sg ∈ l.segs ∨ sg.data = [] := by
  intro sg hsg
  unfold Log.applyRetention at hsg
  split at hsg
  · exact .inl hsg
  · split at hsg
    · simp only [] at hsg
      rcases List.mem_append.mp hsg with h | h
      · split at h
        · exact .inl (List.mem_of_mem_drop h)
        · exact .inl h
      · simp only [List.mem_singleton] at h; subst h; exact .inr rfl
    · exact .inl hsg

/-- after an append, every item of the log is the appended one or was in the log -/
theorem Log.append_mem (l : Log α) (x : α) (sz : Nat) :
    ∀ sg ∈ (l.append x sz).1.segs, ∀ a ∈ sg.data, a = x ∨ ∃ sg0 ∈ l.segs, a ∈ sg0.data := by
  intro sg hsg a ha
  have hret := l.applyRetention_mem
  have old : ∀ sg1 ∈ l.applyRetention.segs, a ∈ sg1.data → ∃ sg0 ∈ l.segs, a ∈ sg0.data := by
    intro sg1 h1 h2
    rcases hret sg1 h1 with h | h
    · exact ⟨sg1, h, h2⟩
    · rw [h] at h2; cases h2
  unfold Log.append at hsg
  simp only [] at hsg
  split at hsg
  · exact .inr (old sg hsg ha)
  · rename_i act hact
    simp only [] at hsg
    rcases List.mem_append.mp hsg with h | h
    · exact .inr (old sg (List.dropLast_subset _ h) ha)
    · simp only [List.mem_singleton] at h; subst h
      simp only [] at ha
      rcases List.mem_append.mp ha with h | h
      · exact .inr (old act (List.mem_of_getLast? hact) h)
      · simp only [List.mem_singleton] at h; exact .inl h

end CLog

namespace Router

theorem mem_logItems {l : CLog.Log Pub} {p : Pub} : p ∈ logItems l ↔ ∃ sg ∈ l.segs, p ∈ sg.data := by
  unfold logItems; simp only [List.mem_flatMap]

theorem logItems_new (a b : Nat) : logItems (CLog.Log.new a b) = [] := rfl

theorem logItems_append {l : CLog.Log Pub} {x p : Pub} {sz : Nat} (h : p ∈ logItems (l.append x sz).1) :
    p = x ∨ p ∈ logItems l := by
  obtain ⟨sg, hsg, hp⟩ := mem_logItems.mp h
  rcases CLog.Log.append_mem l x sz sg hsg p hp with h | h
  · exact .inl h
  · exact .inr (mem_logItems.mpr h)

/-- goal 3, the log half: what a sweep reads from a filter log are items of that log -/
theorem readv_logItems (l : CLog.Log Pub) (c : Cursor) (k : Nat) : ∀ e ∈ (l.readv c k).1, e.1 ∈ logItems l :=
  fun e he => mem_logItems.mpr (CLog.Log.readv_mem l c k e he)

end Router
