/-
C15 — retained messages at the level of reachable states and runs:
* `Reachable → Reachable2` (the C15 history invariants hold for the shared notion of reachability);
* `retainedSpec_some_iff`: what the fold of the C15 rule over the accepted publishes computes;
* the replay of a sweep with the free window spelled out (`forwardDeviceData_replay_slots`);
* the replay flag of THE request of `(a, f)`, once cleared, stays cleared over runs (`run_thread_flag`).
-/
import Proofs.Lemmas.Router.Rp13_Isolation
import Proofs.Lemmas.Router.Rp2_Reach
import Proofs.Lemmas.Router.Rp2_Replay
namespace Router
open Router.Rp3
open CommitLog (Rep logC Issued U64)

theorem run2_of_run : ∀ (ops : List (Op × List Choice)) {s s' : RState}, run s ops = .ok s' → run2 s ops = s'
  | [], s, s', h => by simp only [run, Except.ok.injEq] at h; exact h
  | (op, ch) :: rest, s, s', h => by
    simp only [run] at h
    simp only [run2]
    split at h
    · simp at h
    · rename_i s1 out hs
      rw [hs]; exact run2_of_run rest h

theorem Reachable.to2 {cfg : Config} {s : RState} (h : Reachable cfg s) : Reachable2 cfg s := by
  obtain ⟨ops, hops⟩ := h
  exact ⟨ops, run2_of_run ops hops⟩

/-! ### what `retainedSpec` computes -/

/-- no accepted publish of the list is a retained publish on topic `t` -/
def NoRetainedOn (t : String) (l : List (Option Nat × Pub × String)) : Prop := ∀ e ∈ l, e.2.2 = t → e.2.1.retain = false

theorem retainedSpec_some_iff (t : String) (p : Pub) : ∀ (acc : List (Option Nat × Pub × String)) (cur : Option Pub),
    retainedSpec t cur acc = some p ↔
      (∃ pre i post, acc = pre ++ (i, p, t) :: post ∧ p.retain = true ∧ p.payload.isEmpty = false ∧ NoRetainedOn t post) ∨
      (cur = some p ∧ NoRetainedOn t acc)
  | [], cur => by
    simp only [retainedSpec, List.foldl_nil]
    constructor
    · intro h; exact .inr ⟨h, fun _ h => absurd h List.not_mem_nil⟩
    · rintro (⟨pre, i, post, e, _⟩ | ⟨h, _⟩)
      · cases pre <;> cases e
      · exact h
  | e :: acc, cur => by
    have hcons : retainedSpec t cur (e :: acc) = retainedSpec t (retainedStep t cur e) acc := rfl
    rw [hcons, retainedSpec_some_iff t p acc]
    constructor
    · rintro (⟨pre, i, post, he, h1, h2, h3⟩ | ⟨hstep, hnr⟩)
      · exact .inl ⟨e :: pre, i, post, by rw [he]; rfl, h1, h2, h3⟩
      · unfold retainedStep at hstep
        by_cases ht : e.2.2 = t
        · simp only [ht, if_true] at hstep
          by_cases hr : e.2.1.retain = true
          · simp only [hr, if_true] at hstep
            by_cases hp : e.2.1.payload.isEmpty = true
            · simp [hp] at hstep
            · simp only [hp, Bool.false_eq_true, if_false, Option.some.injEq] at hstep
              refine .inl ⟨[], e.1, acc, ?_, hstep ▸ hr, by rw [← hstep]; simpa using hp, hnr⟩
              obtain ⟨i, q, t'⟩ := e
              simp only [] at ht hstep
              subst ht; subst hstep; rfl
          · have hr' : e.2.1.retain = false := by simpa using hr
            simp only [hr', Bool.false_eq_true, if_false] at hstep
            refine .inr ⟨hstep, fun x hx hxt => ?_⟩
            rcases List.mem_cons.mp hx with rfl | hx
            · exact hr'
            · exact hnr x hx hxt
        · simp only [ht, if_false] at hstep
          refine .inr ⟨hstep, fun x hx hxt => ?_⟩
          rcases List.mem_cons.mp hx with rfl | hx
          · exact absurd hxt ht
          · exact hnr x hx hxt
    · rintro (⟨pre, i, post, he, h1, h2, h3⟩ | ⟨hcur, hnr⟩)
      · cases pre with
        | nil =>
          simp only [List.nil_append, List.cons.injEq] at he
          obtain ⟨rfl, rfl⟩ := he
          refine .inr ⟨?_, h3⟩
          simp [retainedStep, h1, h2]
        | cons x pre' =>
          simp only [List.cons_append, List.cons.injEq] at he
          exact .inl ⟨pre', i, post, he.2, h1, h2, h3⟩
      · refine .inr ⟨?_, fun x hx => hnr x (List.mem_cons_of_mem _ hx)⟩
        unfold retainedStep
        by_cases ht : e.2.2 = t
        · have := hnr e List.mem_cons_self ht
          simp [ht, this, hcur]
        · simp [ht, hcur]

/-! ### the replay of a sweep, with the window spelled out -/

/-- `forwardDeviceData_replay` (Rp2_Replay) with the number of replay slots made explicit -/
theorem forwardDeviceData_replay_slots {s s' : RState} {id : Nat} {c : Conn} {req req' : DataRequest} {st : ConsumeStatus}
    (hc : getConn s id = some c) (hfr : req.forwardRetained = true)
    (h : forwardDeviceData s id req = .ok (s', req', st)) :
    (st = .inflightFull ∧ s' = s) ∨
    ∃ (s1 : RState) (ps : List Pub),
      readRetained s req.filter = .ok (s1, ps) ∧
      ((getLink s' c.link).obuf = (getLink s c.link).obuf ∨
       ∃ (live : List (Pub × Cursor)) (ns tail : List Notif),
        (getLink s' c.link).obuf = (getLink s c.link).obuf ++ ns ++ tail ∧
        (tail = [] ∨ tail = [Notif.unschedule]) ∧
        ns.map Notif.content =
          (ps.take (fwdSlots s c (fwdGroup s req) (fwdReq (fwdGroup s req) req))).map (fun p => some (p.retain, p.payload, none)) ++
          live.map (fun e => some (e.1.retain, e.1.payload, some e.2))) := by
  rw [forwardDeviceData_eq_rp2] at h
  simp only [hc] at h
  have hf := fwdReq_fields (fwdGroup s req) req
  split at h
  · simp only [Except.ok.injEq, Prod.mk.injEq] at h; obtain ⟨rfl, _, rfl⟩ := h
    exact .inl ⟨rfl, rfl⟩
  · split at h
    · simp at h
    · rename_i s1 rp slots' hr
      obtain ⟨h1, _, hcase⟩ := fwdRetained_spec hr
      rcases hcase with ⟨hff, _, _⟩ | ⟨_, ps, hrr, hrp⟩
      · rw [hf.1, hfr] at hff; cases hff
      · rw [hf.2.1] at hrr
        refine .inr ⟨s1, ps, hrr, ?_⟩
        have hl : ∀ l, getLink s1 l = getLink s l := fun l => by
          unfold getLink; rw [show s1.links = s.links from congrArg State.links h1]
        rcases fwdRead_obuf h with rfl | ⟨fd, ns, tail, _, e, ht, hcont⟩
        · exact .inl (by rw [hl])
        · refine .inr ⟨(fd.log.readv (fwdReq (fwdGroup s req) req).cursor slots').1, ns, tail, by rw [e, hl], ht, ?_⟩
          rw [hcont, hrp]
          simp only [List.map_append, List.map_map, List.map_take]
          rfl

/-- the free window of a non-shared request: the free inflight slots for QoS > 0,
    `max_outgoing_packet_count` for QoS 0 -/
theorem fwdSlots_plain (s : RState) (c : Conn) (req : DataRequest) (hg : req.group = none) :
    fwdSlots s c (fwdGroup s req) (fwdReq (fwdGroup s req) req) =
      if req.qos ≠ 0 then c.out.freeSlots else s.config.maxOutgoingPacketCount := by
  have : fwdGroup s req = none := by unfold fwdGroup; rw [hg]; rfl
  rw [this]; rfl

/-! ### a cleared replay flag stays cleared -/

theorem reqRun_flag {idx : Nat} {s s2 : RState} {req req2 : DataRequest} {offs : List Nat}
    (hrun : ReqRun idx s req offs s2 req2) : req.forwardRetained = false → req2.forwardRetained = false := by
  induction hrun with
  | done s req => exact fun h => h
  | other _ _ ih => exact ih
  | @sweep s s1 s2 id c req req1 req2 st offs more hc _ _ h _ _ ih =>
    intro hfl
    apply ih
    rcases (forwardDeviceData_spec hc h).2.2.2.2.2 with ⟨_, _, e⟩ | ⟨_, e⟩
    · rw [e]; exact hfl
    · exact e

/-- one step threads THE request of `(a, f)`; a cleared replay flag stays cleared -/
theorem step_thread_flag {a : Nat} {cid f : String} {s s' : RState} {op : Op} {out : Out} {r : DataRequest}
    (h3 : Inv3 s) (hi : DLInv s) (hno : NoOverflow s) (hcs : CS s) (hq : QI s)
    (hs : step s op = .ok (s', out)) (hst : Stays a cid f s) (hst' : ∃ c, getConn s' a = some c ∧ c.clientId = cid)
    (hqo : QuietOp a cid f s op) (hown : Own s a r) (hf : r.filter = f) (hg : r.group = none) :
    ∃ r', Own s' a r' ∧ r'.filter = f ∧ r'.group = none ∧ (r.forwardRetained = false → r'.forwardRetained = false) := by
  have hb := h3.inv2.binv
  have same : Own s' a r → stepFwd a f s op = [] → ∃ r', Own s' a r' ∧ r'.filter = f ∧ r'.group = none ∧
      (r.forwardRetained = false → r'.forwardRetained = false) := fun ho _ => ⟨r, ho, hf, hg, fun h => h⟩
  cases op with
  | connect spec =>
    simp only [step] at hs
    split at hs
    · simp at hs
    · rename_i s1 hc
      simp only [Except.ok.injEq, Prod.mk.injEq] at hs; obtain ⟨rfl, _⟩ := hs
      refine same ((handleNewConnection_qi hb h3.inv2.inv1.adm hq hc).2.1 a r hown fun e => ?_) rfl
      obtain ⟨c', hc', e'⟩ := h3.inv2.inv1.adm.map.1 _ _ e
      obtain ⟨c, hca, hcid⟩ := hst.1
      rw [hca] at hc'; cases hc'
      exact hqo (e'.symm.trans hcid)
  | push l p =>
    simp only [step] at hs
    split at hs
    all_goals
      simp only [Except.ok.injEq, Prod.mk.injEq] at hs; obtain ⟨rfl, _⟩ := hs
      first | exact same hown rfl | exact same (((OEq.of_conns rfl rfl rfl rfl rfl).own a r).mpr hown) rfl
  | event id e =>
    simp only [step] at hs
    split at hs
    · simp at hs
    · rename_i s1 he
      simp only [Except.ok.injEq, Prod.mk.injEq] at hs; obtain ⟨rfl, _⟩ := hs
      cases e with
      | deviceData =>
        cases hcid : getConn s id with
        | none =>
          simp only [events, handleDevicePayload, hcid, Except.ok.injEq] at he; subst he
          exact same hown rfl
        | some c =>
          refine same ((handleDevicePayload_qi hb h3.rc hq he).2.2 c hcid a r hown fun hh => ?_) rfl
          obtain ⟨hai, hor⟩ := hh
          subst hai
          rcases hor with hgone | ⟨p, hp, hm⟩
          · obtain ⟨c1, hc1, _⟩ := hst'
            rw [hgone] at hc1; cases hc1
          · exact hqo rfl c hcid p hp (hf ▸ hm)
      | ready =>
        simp only [events] at he
        split at he
        · exact same (((reschedule_oeq he).own a r).mpr hown) rfl
        · simp only [Except.ok.injEq] at he; subst he; exact same hown rfl
      | disconnect =>
        refine same ((handleDisconnection_qi (id := id) (r := none) hq hb.2 he).2.1 a r hown fun e => ?_) rfl
        subst e
        obtain ⟨c1, hc1, _⟩ := hst'
        have he' : handleDisconnection s a none = .ok s1 := he
        rw [handleDisconnection_gone he'] at hc1; cases hc1
      | publishWill c => exact same (((handleLastWill_oeq he).own a r).mpr hown) rfl
      | shadow f' => exact same (((handleShadow_oeq he).own a r).mpr hown) rfl
      | sendMeters => simp only [events, Except.ok.injEq] at he; subst he; exact same hown rfl
      | sendAlerts => simp only [events, Except.ok.injEq] at he; subst he; exact same hown rfl
  | consume =>
    simp only [step] at hs
    split at hs
    · simp at hs
    · rename_i s1 b hc
      simp only [Except.ok.injEq, Prod.mk.injEq] at hs; obtain ⟨rfl, _⟩ := hs
      have hat := reqAt_of_own hi hno hcs hst hown hf
      obtain ⟨r', o', f', g', i', run⟩ := consume_thread (f := f) hc h3.rc hown hf hg rfl hat
      exact ⟨r', o', f', g', reqRun_flag run⟩
  | drain l =>
    simp only [step] at hs
    split at hs
    · split at hs
      all_goals
        simp only [Except.ok.injEq, Prod.mk.injEq] at hs; obtain ⟨rfl, _⟩ := hs
        first | exact same hown rfl | exact same (((OEq.of_conns rfl rfl rfl rfl rfl).own a r).mpr hown) rfl
    · simp only [Except.ok.injEq, Prod.mk.injEq] at hs; obtain ⟨rfl, _⟩ := hs; exact same hown rfl


/-- over a whole run (the premises of `delivery_is_prefix`): THE request of `(a, f)` is threaded, and if
    its replay flag is clear at the start it is clear at the end -/
theorem run_thread_flag {cfg : Config} (h1 : 1 ≤ cfg.maxSegmentSize) (h2 : 1 ≤ cfg.maxSegmentCount)
    (hpos : 0 < cfg.maxOutgoingPacketCount) {a : Nat} {cid f : String} :
    ∀ (ops : List (Op × List Choice)) {s s2 : RState} {r : DataRequest}, Reachable cfg s → run s ops = .ok s2 →
    NoOverflow s2 → QuietRun a cid f s ops → Own s a r → r.filter = f → r.group = none →
    ∃ r2, Own s2 a r2 ∧ r2.filter = f ∧ r2.group = none ∧ (r.forwardRetained = false → r2.forwardRetained = false)
  | [], s, s2, r, _, h, _, _, hown, hf, hg => by
    simp only [run, Except.ok.injEq] at h; subst h
    exact ⟨r, hown, hf, hg, fun h => h⟩
  | (op, ch) :: rest, s, s2, r, hr, h, hno2, hqr, hown, hf, hg => by
    have hrun := h
    simp only [run] at h
    split at h
    · simp at h
    · rename_i s' out hstep
      obtain ⟨hst, hqo, hnext⟩ := hqr
      have hqr' := hnext s' out hstep
      have hr' : Reachable cfg s' := hr.step hstep
      have hno : NoOverflow s := NoOverflow.back_run h1 h2 _ hr hrun hno2
      have hno0 : NoOverflow ({ s with oracle := ch } : RState) := hno
      have hi0 : DLInv ({ s with oracle := ch } : RState) := (reachable_inv h1 h2 hr).of_dkey rfl
      have hcs0 : CS ({ s with oracle := ch } : RState) := (CS.reachable h1 h2 hr hno).oracle ch
      have hq0 : QI ({ s with oracle := ch } : RState) := (QI.reachable h1 h2 hpos hr hno).oracle ch
      have h30 := (Inv3.reachable hr).oracle ch
      have hst0 : Stays a cid f ({ s with oracle := ch } : RState) := hst
      have hqo0 : QuietOp a cid f ({ s with oracle := ch } : RState) op := by
        cases op with
        | event id e => cases e <;> exact hqo
        | _ => exact hqo
      have hst' : Stays a cid f s' := by
        cases rest with
        | nil => exact hqr'
        | cons p rest' => exact hqr'.1
      have hown0 : Own ({ s with oracle := ch } : RState) a r := hown
      obtain ⟨r1, o1, f1, g1, k1⟩ := step_thread_flag h30 hi0 hno0 hcs0 hq0 hstep hst0 hst'.1 hqo0 hown0 hf hg
      obtain ⟨r2, o2, f2, g2, k2⟩ := run_thread_flag h1 h2 hpos rest hr' h hno2 hqr' o1 f1 g1
      exact ⟨r2, o2, f2, g2, fun h0 => k2 (k1 h0)⟩

end Router
