/-
C01 — acceptance of a publish (`append_to_commitlog` succeeding) in terms of `deliver`; parking
and waking of caught-up requests.
-/
import Proofs.Lemmas.Router.Rp3_SessionThm
namespace Router
namespace Rp3
open CommitLog (Rep logC Issued cursorAbs U64)

theorem resolveAlias_spec {s s1 : RState} {id : Nat} {c : Conn} {a : Option Nat} {p p1 : Pub}
    (h : resolveAlias s id c a p = .ok (s1, p1)) :
    s1.datalog = s.datalog ∧ s1.notifications = s.notifications ∧ s1.config = s.config ∧
    p1.payload = p.payload ∧ p1.qos = p.qos ∧ p1.retain = p.retain ∧ p1.alias = p.alias ∧
    (a = none ∨ p.topic.isEmpty = false → p1.topic = p.topic) := by
  unfold resolveAlias at h
  repeat' (split at h)
  all_goals first
    | (simp at h; done)
    | (simp only [Except.ok.injEq, Prod.mk.injEq] at h; obtain ⟨rfl, rfl⟩ := h
       refine ⟨rfl, rfl, rfl, rfl, rfl, rfl, rfl, ?_⟩
       first
        | (intro _; rfl)
        | (rintro (hh | hh) <;> simp_all))

theorem updateRetained_same (s : RState) (topic : String) (p : Pub) :
    (updateRetained s topic p).datalog.native = s.datalog.native ∧
    (updateRetained s topic p).notifications = s.notifications := by
  unfold updateRetained
  simp only []
  split
  · exact ⟨rfl, rfl⟩
  · split <;> exact ⟨rfl, rfl⟩

/-- `append_to_commitlog` accepting a publish = the alias is resolved, the topic is UTF-8, and the
    publish (retain flag cleared) is `deliver`ed -/
theorem appendToCommitlog_accept {s s' : RState} {id : Nat} {p : Pub}
    (h : appendToCommitlog s id p = .ok (s', none)) :
    ∃ c s1 p1 topic, getConn s id = some c ∧
      resolveAlias s id c p.alias { p with alias := none } = .ok (s1, p1) ∧ utf8? p1.topic = some topic ∧
      deliver ((updateRetained s1 topic p1).g (.accepted (some id) p1 topic)) topic { p1 with retain := false } = .ok s' := by
  rw [appendToCommitlog_eq] at h
  split at h
  · simp at h
  · rename_i c hc
    split at h
    · simp at h
    · split at h
      · simp at h
      · rename_i s1 p1 hr
        split at h
        · simp at h
        · rename_i topic ht
          split at h
          · simp at h
          · rename_i s2 hd
            simp only [Except.ok.injEq, Prod.mk.injEq, and_true] at h
            subst h
            exact ⟨c, s1, p1, topic, hc, hr, ht, hd⟩

/-- a request parked by `consume` sits in the waiters of its filter -/
theorem park_spec {s s' : RState} {id : Nat} {r : DataRequest} (h : park s id r = .ok s') :
    ∃ fd, s.datalog.native[r.filterIdx]? = some fd ∧
      s'.datalog.native[r.filterIdx]? = some { fd with waiters := fd.waiters ++ [(id, r)] } ∧
      (∀ j : Nat, j ≠ r.filterIdx → s'.datalog.native[j]? = s.datalog.native[j]?) ∧
      s' = { s with datalog := s'.datalog } := by
  unfold park at h
  split at h
  · simp at h
  · rename_i fd hfd
    simp only [Except.ok.injEq] at h; subst h
    have hl := (List.getElem?_eq_some_iff.mp hfd).1
    refine ⟨fd, hfd, by simp [hl], ?_, rfl⟩
    intro j hj
    have hne : ¬ r.filterIdx = j := fun e => hj e.symm
    simp [hne]

/-- `Data::append` wakes every parked waiter of the filter -/
theorem appendToFilter_wakes {s s' : RState} {idx : Nat} {p : Pub} (h : appendToFilter s idx p = .ok s') :
    ∃ fd, s.datalog.native[idx]? = some fd ∧ s'.notifications = s.notifications ++ fd.waiters ∧
      s'.datalog.native[idx]? = some (FilterData.appended fd p) := by
  obtain ⟨fd, hfd, hd, hn, _⟩ := appendToFilter_ok h
  have hl := (List.getElem?_eq_some_iff.mp hfd).1
  exact ⟨fd, hfd, hn, by rw [hd]; simp [hl, FilterData.appended]⟩

/-- the log offsets of the entries a read returns -/
def readOffsets (fd : FilterData) (cur : Cursor) (n : Nat) : List Nat := (fd.log.readv cur n).1.map (·.2.2)

/-- two reads in a row — the second from the continuation of the first, any counts — return
    disjoint, increasing offset ranges -/
theorem consecutive_reads_disjoint (fd : FilterData) (hist : List Pub) (hrep : Rep (logC fd.log) hist)
    (cur : Cursor) (n m : Nat) (hi : Issued (logC fd.log) cur) (hn : hist.length + n < U64) (hm : hist.length + m < U64) :
    ∀ o1 ∈ readOffsets fd cur n, ∀ o2 ∈ readOffsets fd (posNext (fd.log.readv cur n).2).1 m, o1 < o2 := by
  obtain ⟨e1, e2, e3, e4, _⟩ := clog_readv_spec fd.log hist hrep cur n hi hn
  obtain ⟨_, v2, _⟩ := clog_readv_entries fd.log hist hrep cur n hi hn
  obtain ⟨_, w2, _⟩ := clog_readv_entries fd.log hist hrep _ m e3 hm
  have hca : cursorAbs (logC fd.log) (posNext (fd.log.readv cur n).2).1 = (posNext (fd.log.readv cur n).2).1.2 := by
    unfold cursorAbs
    have : ¬ (posNext (fd.log.readv cur n).2).1.1 < (logC fd.log).head := by omega
    simp [this]
  intro o1 h1 o2 h2
  unfold readOffsets at h1 h2
  rw [v2] at h1
  rw [w2, hca, e2, ← e1] at h2
  simp only [List.mem_range'_1] at h1 h2
  omega

end Rp3
end Router
