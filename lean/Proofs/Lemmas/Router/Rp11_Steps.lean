/-
The scheduler-status facts (`SI`) through the primitive and composite functions of the router model
other than `consume`.
-/
import Proofs.Lemmas.Router.Rp11_Acks
namespace Router

theorem ackDeviceData_arel (s : RState) (id : Nat) : ARel s (ackDeviceData s id) := by
  unfold ackDeviceData
  split
  · exact ARel.refl s
  · rename_i c hc
    split
    · exact ARel.refl s
    · exact ARel.of_set (c' := { c with acks := _ }) hc rfl ⟨fun h => h, fun _ => rfl⟩ rfl

theorem updateRetained_arel (s : RState) (topic : String) (p : Pub) : ARel s (updateRetained s topic p) := by
  unfold updateRetained
  split
  · exact ARel.of_conns rfl rfl
  · split
    · exact ARel.of_conns rfl rfl
    · exact ARel.refl _

theorem dlMatches_arel {s s' : RState} {topic : String} {v : List Nat} (h : dlMatches s topic = .ok (s', v)) : ARel s s' := by
  unfold dlMatches at h
  split at h
  · simp only [Except.ok.injEq, Prod.mk.injEq] at h; obtain ⟨rfl, _⟩ := h; exact ARel.refl _
  · split at h
    · simp only [] at h
      split at h
      · simp only [Except.ok.injEq, Prod.mk.injEq] at h; obtain ⟨rfl, _⟩ := h
        split <;> exact ARel.of_conns rfl rfl
      · simp at h
    · simp at h

theorem readRetained_arel {s s' : RState} {f : String} {ps : List Pub} (h : readRetained s f = .ok (s', ps)) : ARel s s' := by
  unfold readRetained at h
  simp only [] at h
  split at h
  · split at h
    · simp only [Except.ok.injEq, Prod.mk.injEq] at h; obtain ⟨rfl, _⟩ := h; exact ARel.of_conns rfl rfl
    · simp at h
  · simp at h

theorem updateNextClient_arel {s s' : RState} {g g' : SharedGroup} (h : updateNextClient s g = .ok (s', g')) : ARel s s' := by
  unfold updateNextClient at h
  split at h
  · simp only [Except.ok.injEq, Prod.mk.injEq] at h; obtain ⟨rfl, _⟩ := h; exact ARel.refl _
  · split at h
    · simp at h
    · simp only [Except.ok.injEq, Prod.mk.injEq] at h; obtain ⟨rfl, _⟩ := h; exact ARel.refl _
  · split at h
    · simp at h
    · split at h
      · split at h
        · simp only [Except.ok.injEq, Prod.mk.injEq] at h; obtain ⟨rfl, _⟩ := h; exact ARel.of_conns rfl rfl
        · simp at h
      · simp at h

theorem noteTurn_arel (s0 s1 : RState) (req : DataRequest) : ARel s1 (noteTurn s0 s1 req) := by
  obtain ⟨tm, e⟩ := noteTurn_eq s0 s1 req
  rw [e]; exact ARel.of_conns rfl rfl

theorem park_arel {s s' : RState} {id : Nat} {r0 : DataRequest} (h : park s id r0 = .ok s') : ARel s s' := by
  unfold park at h
  split at h
  · simp at h
  · simp only [Except.ok.injEq] at h; subst h; exact ARel.of_conns rfl rfl

theorem appendToFilter_arel {s s' : RState} {idx : Nat} {p : Pub} (h : appendToFilter s idx p = .ok s') : ARel s s' := by
  unfold appendToFilter at h
  split at h
  · simp at h
  · simp only [Except.ok.injEq] at h
    exact ARel.of_conns (by rw [← h]; split <;> rfl) (by rw [← h]; split <;> rfl)

theorem appendToFilters_arel : ∀ (idxs : List Nat) {s s' : RState} {p : Pub},
    appendToFilters s idxs p = .ok s' → ARel s s'
  | [], s, s', p, h => by simp only [appendToFilters, Except.ok.injEq] at h; subst h; exact ARel.refl _
  | i :: is, s, s', p, h => by
    simp only [appendToFilters] at h
    split at h
    · simp at h
    · rename_i s1 h1
      exact (appendToFilter_arel h1).trans (appendToFilters_arel is h)

theorem track_arel {s s' : RState} {id : Nat} {r0 : DataRequest} (h : track s id r0 = .ok s') : ARel s s' := by
  unfold track at h
  split at h
  · simp at h
  · rename_i c hc
    simp only [Except.ok.injEq] at h; subst h
    exact ARel.of_set (c' := { c with tracker := _ }) hc rfl ⟨fun h => h, fun h => h⟩ rfl

theorem trackv_arel {s s' : RState} {id : Nat} {rs : List DataRequest} (h : trackv s id rs = .ok s') : ARel s s' := by
  unfold trackv at h
  split at h
  · simp at h
  · rename_i c hc
    simp only [Except.ok.injEq] at h; subst h
    exact ARel.of_set (c' := { c with tracker := _ }) hc rfl ⟨fun h => h, fun h => h⟩ rfl

theorem drainNotifications_arel : ∀ (ns : List (Nat × DataRequest)) {s s' : RState},
    drainNotifications s ns = .ok s' → ARel s s'
  | [], s, s', hd => by simp only [drainNotifications, Except.ok.injEq] at hd; subst hd; exact ARel.refl _
  | (id, r0) :: rest, s, s', hd => by
    simp only [drainNotifications] at hd
    split at hd
    · simp at hd
    · rename_i s1 h1
      split at hd
      · simp at hd
      · rename_i s2 h2
        exact ((track_arel h1).trans (reschedule_arel h2)).trans (drainNotifications_arel rest hd)

theorem drain_all_arel {s s' : RState}
    (hd : drainNotifications { s with notifications := [] } s.notifications = .ok s') : ARel s s' :=
  (ARel.of_conns (s := s) (s' := { s with notifications := [] }) rfl rfl).trans (drainNotifications_arel _ hd)

theorem wakeParkedSorted_arel : ∀ (logs : List Nat) {s s' : RState}, wakeParkedSorted s logs = .ok s' → ARel s s'
  | [], s, s', hw => by simp only [wakeParkedSorted, Except.ok.injEq] at hw; subst hw; exact ARel.refl _
  | i :: rest, s, s', hw => by
    rw [wakeParkedSorted_cons] at hw
    split at hw
    · exact wakeParkedSorted_arel rest hw
    · rename_i fd hfd
      split at hw
      · simp at hw
      · rename_i s2 h2
        have h0 : ARel s (clearWaiters s i fd) := ARel.of_conns rfl rfl
        exact (h0.trans (drainNotifications_arel _ h2)).trans (wakeParkedSorted_arel rest hw)

theorem wakeParked_arel {s s' : RState} {logs : List Nat} (hw : wakeParked s logs = .ok s') : ARel s s' :=
  wakeParkedSorted_arel _ hw

theorem wakeTurnMoved_arel {s s' : RState} (hw : wakeTurnMoved s = .ok s') : ARel s s' :=
  (ARel.of_conns (s := s) (s' := { s with turnMoved := [] }) rfl rfl).trans (wakeParked_arel hw)

/-! ### publish path, sweep -/

theorem appendToCommitlog_arel {s s' : RState} {id : Nat} {p : Pub} {e : Option AppendErr}
    (h : appendToCommitlog s id p = .ok (s', e)) : ARel s s' := by
  unfold appendToCommitlog at h
  split at h
  · simp at h
  · rename_i c hc
    simp only [] at h
    split at h
    · simp only [Except.ok.injEq, Prod.mk.injEq] at h; obtain ⟨rfl, _⟩ := h; exact ARel.refl _
    · split at h
      · simp only [Except.ok.injEq, Prod.mk.injEq] at h; obtain ⟨rfl, _⟩ := h; exact ARel.refl _
      · rename_i s1 p1 hr
        have h1 : ARel s s1 := by
          split at hr
          · simp only [Except.ok.injEq, Prod.mk.injEq] at hr; obtain ⟨rfl, _⟩ := hr; exact ARel.refl _
          · split at hr
            · simp at hr
            · split at hr
              · split at hr
                · simp at hr
                · simp only [Except.ok.injEq, Prod.mk.injEq] at hr; obtain ⟨rfl, _⟩ := hr; exact ARel.refl _
              · split at hr
                · simp at hr
                · simp only [Except.ok.injEq, Prod.mk.injEq] at hr; obtain ⟨rfl, _⟩ := hr
                  exact ARel.of_set (c' := { c with topicAliases := _ }) hc rfl (AKeep.refl c) rfl
        refine h1.trans ?_
        split at h
        · simp only [Except.ok.injEq, Prod.mk.injEq] at h; obtain ⟨rfl, _⟩ := h; exact ARel.refl _
        · rename_i topic ht
          split at h
          · simp at h
          · rename_i s2 idxs h2
            split at h
            · simp at h
            · rename_i s3 h3
              simp only [Except.ok.injEq, Prod.mk.injEq] at h; obtain ⟨rfl, _⟩ := h
              have a : ARel s1 ((updateRetained s1 topic p1).g (Ghost.accepted (some id) p1 topic)) :=
                (updateRetained_arel s1 topic p1).trans (ARel.of_conns rfl rfl)
              exact (a.trans (dlMatches_arel h2)).trans (appendToFilters_arel idxs h3)

theorem fdRetained_arel {s s' : RState} {req : DataRequest} {slots slots' : Nat} {ps : List (Pub × Option Cursor)}
    (h : fdRetained s req slots = .ok (s', ps, slots')) : ARel s s' := by
  unfold fdRetained at h
  split at h
  · split at h
    · simp at h
    · rename_i s1 ps1 h1
      simp only [Except.ok.injEq, Prod.mk.injEq] at h; obtain ⟨rfl, _⟩ := h
      exact readRetained_arel h1
  · simp only [Except.ok.injEq, Prod.mk.injEq] at h; obtain ⟨rfl, _⟩ := h; exact ARel.refl _

theorem fdGroupUpd_arel {s s' : RState} {req : DataRequest} {grp : Option SharedGroup}
    (h : fdGroupUpd s req grp = .ok s') : ARel s s' := by
  unfold fdGroupUpd at h
  split at h
  · split at h
    · simp only [Except.ok.injEq] at h; subst h; exact ARel.refl _
    · split at h
      · simp at h
      · rename_i s1 g1 h1
        simp only [Except.ok.injEq] at h; subst h
        exact (updateNextClient_arel h1).trans (ARel.of_conns rfl rfl)
  · simp only [Except.ok.injEq] at h; subst h; exact ARel.refl _

theorem fdPush_arel {s s' : RState} {id : Nat} {c : Conn} {req req' : DataRequest} {grp : Option SharedGroup}
    {pubs : List (Pub × Option Cursor)} {cu : Bool} {st : ConsumeStatus} (hc : getConn s id = some c)
    (h : fdPush s id c req grp pubs cu = .ok (s', req', st)) : ARel s s' := by
  unfold fdPush at h
  simp only [] at h
  split at h
  · simp at h
  · rename_i s1 h1
    have a : ARel s (pushNotifs (setConn s id { c with out := (fdOut c req pubs).1, brokerAliases := (fdAliases c req.filter).1 })
        c.link (fdOut c req pubs).2) :=
      ARel.of_set (c' := { c with out := (fdOut c req pubs).1, brokerAliases := (fdAliases c req.filter).1 }) hc rfl
        ⟨fun h => h, fun h => h⟩ rfl
    have b := a.trans (fdGroupUpd_arel h1)
    split at h
    all_goals
      simp only [Except.ok.injEq, Prod.mk.injEq] at h; obtain ⟨rfl, _, _⟩ := h
      exact b.trans (ARel.of_conns rfl rfl)

theorem forwardDeviceData_arel {s s' : RState} {id : Nat} {req req' : DataRequest} {st : ConsumeStatus}
    (h : forwardDeviceData s id req = .ok (s', req', st)) : ARel s s' := by
  rw [Router.forwardDeviceData_eq] at h
  split at h
  · simp at h
  · rename_i c hc
    simp only [] at h
    split at h
    · simp only [Except.ok.injEq, Prod.mk.injEq] at h; obtain ⟨rfl, _, _⟩ := h
      exact ARel.refl _
    · split at h
      · simp at h
      · rename_i s1 rp slots h1
        have a := fdRetained_arel h1
        split at h
        · simp at h
        · rename_i fd hfd
          split at h
          · simp only [Except.ok.injEq, Prod.mk.injEq] at h; obtain ⟨rfl, _, _⟩ := h
            exact a
          · split at h
            · simp only [Except.ok.injEq, Prod.mk.injEq] at h; obtain ⟨rfl, _, _⟩ := h
              exact a
            · have hc1 : getConn s1 id = some c := by
                unfold fdRetained at h1
                split at h1
                · split at h1
                  · simp at h1
                  · rename_i s2 ps2 h2
                    simp only [Except.ok.injEq, Prod.mk.injEq] at h1; obtain ⟨rfl, _⟩ := h1
                    rw [(readRetained_core h2).getConn]; exact hc
                · simp only [Except.ok.injEq, Prod.mk.injEq] at h1; obtain ⟨rfl, _⟩ := h1; exact hc
              exact a.trans (fdPush_arel hc1 h)

end Router
