/-
C20 (round 11): relation `KConn` / `KStep` — every connection stays and keeps `ConnOk` (broker aliases in
range, subscription identifiers in range). Frames with the argument lists of `MStep` / `EStep`, so that the
pass of Rp13_Steps carries over.
-/
import Proofs.Lemmas.Router.Rp16_Emittable
namespace Router

/-- the connection-side hypotheses of `C20.sweep_forwards_emittable_partial` -/
def ConnOk (c : Conn) : Prop := AliasesOk c ∧ ∀ p ∈ c.subscriptionIds, p.2 ≤ Codec.remainingLimit

theorem ConnOk.congr {c c' : Conn} (e : c'.brokerAliases = c.brokerAliases) (e2 : c'.subscriptionIds = c.subscriptionIds)
    (h : ConnOk c) : ConnOk c' :=
  ⟨fun b hb => h.1 b (by rw [← e]; exact hb), by rw [e2]; exact h.2⟩

/-- every connection stays and keeps `ConnOk` -/
def KConn (s s' : RState) : Prop :=
  ∀ id c, getConn s id = some c → ∃ c', getConn s' id = some c' ∧ (ConnOk c → ConnOk c')

theorem KConn.refl (s : RState) : KConn s s := fun _ c h => ⟨c, h, fun x => x⟩
theorem KConn.trans {a b c : RState} (h1 : KConn a b) (h2 : KConn b c) : KConn a c := fun id ca ha => by
  obtain ⟨cb, hb, e1⟩ := h1 id ca ha
  obtain ⟨cc, hc, e2⟩ := h2 id cb hb
  exact ⟨cc, hc, fun x => e2 (e1 x)⟩

theorem KConn.of_conns {s s' : RState} (hc : s'.conns = s.conns) : KConn s s' :=
  fun id c h => ⟨c, by unfold getConn at h ⊢; rw [hc]; exact h, fun x => x⟩

theorem KConn.of_setk {s s' : RState} {id : Nat} {c c' : Conn} (hc : getConn s id = some c)
    (hconns : s'.conns = s.conns.set id c') (hk : ConnOk c → ConnOk c') : KConn s s' := by
  have hget : ∀ j, getConn s' j = if j = id then some c' else getConn s j := fun j => by
    unfold getConn; rw [hconns]; exact Slab.get?_set_live hc j c'
  intro j d hd
  rw [hget]
  by_cases hj : j = id
  · subst hj; rw [hc] at hd; cases hd; exact ⟨c', by simp, hk⟩
  · simp only [hj, if_false]; exact ⟨d, hd, fun x => x⟩

theorem KConn.of_setc {s s' : RState} {id : Nat} {c c' : Conn} (hc : getConn s id = some c)
    (hconns : s'.conns = s.conns.set id c') (hcid : c'.brokerAliases = c.brokerAliases)
    (hsubs : c'.subscriptionIds = c.subscriptionIds) : KConn s s' :=
  KConn.of_setk hc hconns (ConnOk.congr hcid hsubs)

structure KStep (s s' : RState) : Prop where
  conn : KConn s s'
  shared : s'.shared = s.shared

theorem KStep.refl (s : RState) : KStep s s := ⟨KConn.refl s, rfl⟩
theorem KStep.trans {a b c : RState} (h1 : KStep a b) (h2 : KStep b c) : KStep a c :=
  ⟨h1.conn.trans h2.conn, h2.shared.trans h1.shared⟩

theorem KStep.of_conns {s s' : RState} (hc : s'.conns = s.conns) (_hnat : s'.datalog.native = s.datalog.native)
    (_hfi : s'.datalog.filterIndexes = s.datalog.filterIndexes) (hsh : s'.shared = s.shared)
    (_htm : s'.turnMoved = s.turnMoved) : KStep s s' := ⟨KConn.of_conns hc, hsh⟩

theorem KStep.of_setc {s s' : RState} {id : Nat} {c c' : Conn} (hc : getConn s id = some c)
    (hconns : s'.conns = s.conns.set id c') (hcid : c'.brokerAliases = c.brokerAliases)
    (hsubs : c'.subscriptionIds = c.subscriptionIds)
    (_hfi : s'.datalog.filterIndexes = s.datalog.filterIndexes) (hsh : s'.shared = s.shared)
    (_htm : s'.turnMoved = s.turnMoved) : KStep s s' :=
  ⟨KConn.of_setc hc hconns hcid hsubs, hsh⟩

theorem KStep.of_set {s s' : RState} {id : Nat} {c c' : Conn} (hc : getConn s id = some c)
    (hconns : s'.conns = s.conns.set id c') (_hr : c'.tracker.requests = c.tracker.requests) (hcid : c'.brokerAliases = c.brokerAliases)
    (hsubs : c'.subscriptionIds = c.subscriptionIds)
    (hfi : s'.datalog.filterIndexes = s.datalog.filterIndexes) (hsh : s'.shared = s.shared)
    (htm : s'.turnMoved = s.turnMoved) : KStep s s' := KStep.of_setc hc hconns hcid hsubs hfi hsh htm

theorem fdAliases_ok {c : Conn} (h : AliasesOk c) (f : String) :
    ∀ b, (fdAliases c f).1 = some b → b.max < 65536 ∧ ∀ q ∈ b.aliases, q.2 ≤ b.max := by
  intro b hb
  unfold fdAliases at hb
  split at hb
  · exact h b hb
  · split at hb
    · exact h b hb
    · rename_i b0 hb0
      have hb0' : c.brokerAliases = some b0 := by
        unfold aliasesFor at hb0
        split at hb0
        · cases hb0
        · exact hb0
      obtain ⟨hmax, hall⟩ := h b0 hb0'
      simp only [BrokerAliases.setNew] at hb
      split at hb
      · simp only [Option.some.injEq] at hb; subst hb; exact ⟨hmax, hall⟩
      · rename_i hk
        simp only [Option.some.injEq] at hb; subst hb
        refine ⟨hmax, fun q hq => ?_⟩
        rcases mem_ainsert hq with h0 | rfl
        · exact hall q h0
        · simp only []; omega

theorem KStep.of_setk {s s' : RState} {id : Nat} {c c' : Conn} (hc : getConn s id = some c)
    (hconns : s'.conns = s.conns.set id c') (hk : ConnOk c → ConnOk c') (hsh : s'.shared = s.shared) : KStep s s' :=
  ⟨KConn.of_setk hc hconns hk, hsh⟩

end Router
