/-
C08 — explicit descriptions of `handle_disconnection` (what is saved in the graveyard) and of
`handle_new_connection` (what is restored, the CONNACK).
-/
import Proofs.Lemmas.Router.Rp3_SweepThm
import Proofs.Lemmas.Router.Rp1_Helpers
namespace Router
namespace Rp3

/-- the cursor a saved request resumes from: the retransmission point of its filter if one exists -/
def rewindOne (retx : List (Nat × Cursor)) (r : DataRequest) : DataRequest :=
  match nlookup r.filterIdx retx with
  | none => r
  | some c => { r with cursor := c }

theorem rewindRequests_snd (retx : List (Nat × Cursor)) : ∀ (rs : List DataRequest) (sh : List (String × SharedGroup))
    (acc : List DataRequest), (rewindRequests sh retx rs acc).2 = acc ++ rs.map (rewindOne retx)
  | [], sh, acc => by simp [rewindRequests]
  | r :: rest, sh, acc => by
    unfold rewindRequests
    cases hl : nlookup r.filterIdx retx with
    | none => simp only []; rw [rewindRequests_snd retx rest]; simp [rewindOne, hl]
    | some c =>
      simp only []
      cases hg : r.group with
      | none => simp only []; rw [rewindRequests_snd retx rest]; simp [rewindOne, hl, hg]
      | some g =>
        simp only []
        cases hs : alookup g sh with
        | none => simp only []; rw [rewindRequests_snd retx rest]; simp [rewindOne, hl, hg]
        | some grp => simp only []; rw [rewindRequests_snd retx rest]; simp [rewindOne, hl, hg]

/-- the requests `handle_disconnection` saves for a persistent session: the tracked ones, then
    the parked ones collected by `DataLog::clean`; a request of a shared subscription is first set to
    its group's cursor at the time the member leaves (`atGroupCursor` on the groups of `s`), then each
    is rewound to its retransmission point -/
def savedRequests (s : RState) (id : Nat) (c : Conn) : List DataRequest :=
  ((c.tracker.requests ++ (datalogClean s.datalog id).2).map (atGroupCursor s.shared)).map
    (rewindOne (retransmissionMap c.out.inflight []))

/-- the session state saved for a persistent connection -/
def savedState (s : RState) (id : Nat) (c : Conn) : SessionState :=
  { tracker := { c.tracker with requests := savedRequests s id c, status := .paused .busy },
    subscriptions := c.subscriptions, unackedPubrels := c.out.unackedPubrels }

/-- the graveyard entry written when connection `c` ends -/
def savedSession (s : RState) (id : Nat) (c : Conn) : Option SessionState :=
  if c.clean then none else some (savedState s id c)

/-- client ids of the slab entries -/
def cids (sl : Slab Conn) : List (Option String) := sl.entries.map (Option.map (·.clientId))

/-- a step that changes trackers only keeps the client ids of the slab entries -/
theorem cids_of_shape {s s' : RState} (h : Shape RT s s') : cids s'.conns = cids s.conns := by
  unfold cids
  apply List.ext_getElem?
  intro j
  simp only [List.getElem?_map]
  by_cases hj : j < s.conns.entries.length
  · have hj' : j < s'.conns.entries.length := by rw [h.elen]; exact hj
    rw [List.getElem?_eq_getElem hj, List.getElem?_eq_getElem hj']
    simp only [Option.map_some, Option.some.injEq]
    have g1 : getConn s j = s.conns.entries[j] := by
      unfold getConn Slab.get?; rw [List.getElem?_eq_getElem hj]; rfl
    have g2 : getConn s' j = s'.conns.entries[j] := by
      unfold getConn Slab.get?; rw [List.getElem?_eq_getElem hj']; rfl
    rcases h.conn j with ⟨a, b⟩ | ⟨c, c', a, b, t, rfl⟩
    · rw [← g1, ← g2, a, b]
    · rw [← g1, ← g2, a, b]; rfl
  · rw [List.getElem?_eq_none (by rw [h.elen]; omega), List.getElem?_eq_none (by omega)]

/-- what `handle_disconnection` leaves: the graveyard entry, the connection map, the client ids of
    the slab (the wake-up of parked group members changes trackers of other connections only) -/
theorem handleDisconnection_spec {s s' : RState} {id : Nat} {r : Option String} {c : Conn}
    (hc : getConn s id = some c) (h : handleDisconnection s id r = .ok s') :
    s'.graveyard = ainsert c.clientId (savedSession s id c) s.graveyard ∧
    s'.connectionMap = aremove c.clientId s.connectionMap ∧
    cids s'.conns = cids (s.conns.remove id) ∧
    s'.config = s.config ∧
    s'.conns.len = (s.conns.remove id).len := by
  rw [Router.handleDisconnection_eq] at h
  simp only [hc] at h
  have wf := wakeParked_wakeFrame h
  have sh := wakeParked_shape h
  obtain ⟨k1, _, k3, k4, _, _, _, _, _⟩ := hdFinal_fields s id c r
  refine ⟨?_, by rw [wf.cmap, k4], by rw [cids_of_shape sh, k1], by rw [wf.config, k3], by rw [sh.len, k1]⟩
  rw [wf.graveyard]
  unfold hdFinal hdRemoved hdSaved savedSession savedState savedRequests
  cases hcl : c.clean <;> cases r <;>
    simp [rewindRequests_snd, RState.g, hdNotify, wakeLink, pushNotifs, setLink]

theorem reschedule_ok {s s' : RState} {id : Nat} {r : SchedReason} (h : reschedule s id r = .ok s') :
    ∃ c t woke, getConn s id = some c ∧ c.tracker.tryReady r = some (t, woke) ∧
      s' = (if woke then { setConn s id { c with tracker := t } with readyqueue := s.readyqueue ++ [id] }
            else setConn s id { c with tracker := t }) := by
  unfold reschedule at h
  split at h
  · simp at h
  · rename_i c hc
    split at h
    · simp at h
    · rename_i t woke ht
      simp only [Except.ok.injEq] at h
      exact ⟨c, t, woke, hc, ht, h.symm⟩

theorem tryReady_fields {t t' : Tracker} {r : SchedReason} {w : Bool} (h : t.tryReady r = some (t', w)) :
    t'.requests = t.requests ∧ t'.id = t.id := by
  unfold Tracker.tryReady at h
  repeat' (split at h)
  all_goals first
    | (simp at h; done)
    | (simp only [Option.some.injEq, Prod.mk.injEq] at h; obtain ⟨rfl, _⟩ := h; exact ⟨rfl, rfl⟩)

theorem slab_get_set {α} (sl : Slab α) (k : Nat) (a : α) :
    (sl.set k a).get? k = if k < sl.entries.length then some a else none := by
  unfold Slab.set Slab.get?
  by_cases h : k < sl.entries.length
  · simp [h]
  · simp [h]

/-- id the new connection gets -/
def newId (s : RState) (spec : ConnectSpec) : Nat := (s.conns.insert (newConn s spec)).2

/-- `session_present` of the CONNACK -/
def sessionPresent (s : RState) (spec : ConnectSpec) : Bool :=
  !spec.clean && ((alookup spec.clientId s.graveyard).bind (fun x => x)).isSome

/-- the admission proper (no takeover pending, room left): the new connection's record, the
    CONNACK it is owed, the consumed graveyard entry -/
theorem admit_spec {s s' : RState} {spec : ConnectSpec} (h : admitConn s spec = .ok s')
    (hfull : ¬ s.conns.len ≥ s.config.maxConnections) :
    ∃ t woke,
      (newConn s spec).tracker.tryReady .init = some (t, woke) ∧
      trackerNoDup (newConn s spec).tracker = true ∧
      getConn s' (newId s spec) = some { newConn s spec with
        acks := { committed := [Ack.connack (newId s spec) (sessionPresent s spec)] ++
                    (newConn s spec).out.unackedPubrels.map Ack.pubrel },
        tracker := t } ∧
      s'.graveyard = aremove spec.clientId s.graveyard ∧
      s'.connectionMap = ainsert spec.clientId (newId s spec) s.connectionMap ∧
      s'.datalog = s.datalog ∧
      s'.shared = rejoinGroups s.config.strategy spec.clientId (newConn s spec).tracker.requests s.shared ∧
      s'.config = s.config ∧ s'.links = s.links ∧
      s'.subscriptionMap =
        (newConn s spec).subscriptions.foldl (fun m f => subscriptionMapAdd m f (newId s spec)) s.subscriptionMap := by
  rw [admit_eq] at h
  simp only [hfull, if_false] at h
  split at h
  · simp at h
  · rename_i hnd
    obtain ⟨c, t, woke, hc, ht, hs'⟩ := reschedule_ok h
    have hget : getConn (admitPre s spec) (newId s spec) =
        if newId s spec < (s.conns.insert (newConn s spec)).1.entries.length then
          some { newConn s spec with acks := { committed := [Ack.connack (newId s spec) (sessionPresent s spec)] ++
                    (newConn s spec).out.unackedPubrels.map Ack.pubrel } } else none := by
      unfold getConn admitPre newId sessionPresent
      exact slab_get_set _ _ _
    have hc' : getConn (admitPre s spec) (newId s spec) = some c := hc
    rw [hget] at hc'
    split at hc'
    · rename_i hlt
      simp only [Option.some.injEq] at hc'
      subst hc'
      refine ⟨t, woke, ht, by simpa using hnd, ?_, ?_⟩
      · subst hs'
        have hlt' : newId s spec < (admitPre s spec).conns.entries.length := by
          unfold admitPre; simp only [Slab.set, List.length_set]; exact hlt
        split
        · exact getConn_setConn_same _ _ _ hlt'
        · exact getConn_setConn_same _ _ _ hlt'
      · subst hs'
        split <;> exact ⟨rfl, rfl, rfl, rfl, rfl, rfl, rfl⟩
    · cases hc'

theorem handleNewConnection_fresh {s s' : RState} {spec : ConnectSpec} (hv : validClientId spec.clientId = true)
    (hnew : alookup spec.clientId s.connectionMap = none) (h : handleNewConnection s spec = .ok s') :
    admitConn (setLink s spec.link {}) spec = .ok s' := by
  rw [handleNewConnection_eq] at h
  simp only [hv, Bool.not_true, Bool.false_eq_true, if_false] at h
  have : alookup spec.clientId (setLink s spec.link {}).connectionMap = none := hnew
  simp only [this] at h
  exact h

theorem handleNewConnection_takeover {s s' : RState} {spec : ConnectSpec} {old : Nat}
    (hv : validClientId spec.clientId = true)
    (hold : alookup spec.clientId s.connectionMap = some old) (h : handleNewConnection s spec = .ok s') :
    ∃ s1, handleDisconnection (setLink s spec.link {}) old none = .ok s1 ∧ admitConn s1 spec = .ok s' := by
  rw [handleNewConnection_eq] at h
  simp only [hv, Bool.not_true, Bool.false_eq_true, if_false] at h
  have : alookup spec.clientId (setLink s spec.link {}).connectionMap = some old := hold
  simp only [this] at h
  split at h
  · simp at h
  · rename_i s1 hd
    exact ⟨s1, hd, h⟩

/-- a restored request differs from the saved one in its cursor only -/
theorem rewindOne_fields (retx : List (Nat × Cursor)) (r : DataRequest) :
    (rewindOne retx r).filter = r.filter ∧ (rewindOne retx r).filterIdx = r.filterIdx ∧
    (rewindOne retx r).qos = r.qos ∧ (rewindOne retx r).group = r.group ∧
    (rewindOne retx r).forwardRetained = r.forwardRetained ∧
    (rewindOne retx r).cursor = (match nlookup r.filterIdx retx with | some c => c | none => r.cursor) := by
  unfold rewindOne
  cases nlookup r.filterIdx retx <;> exact ⟨rfl, rfl, rfl, rfl, rfl, rfl⟩

end Rp3
end Router
