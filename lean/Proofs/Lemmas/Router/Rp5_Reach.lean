/-
`CursorSound` through the events and `handle_new_connection`, the whole step, and in every
reachable state (below the no-overflow bound of the C13 read theorems).
-/
import Proofs.Lemmas.Router.Rp5_Consume
namespace Router
namespace Rp3
open CommitLog (Rep logC Issued SegMono U64)

theorem handleDevicePayload_cs {s s' : RState} {id : Nat} (hi : DLInv s) (h : CS s)
    (hp : handleDevicePayload s id = .ok s') : CS s' ∧ LogMono s.datalog s'.datalog := by
  unfold handleDevicePayload at hp
  split at hp
  · simp only [Except.ok.injEq] at hp; subst hp; exact ⟨h, LogMono.refl _⟩
  · rename_i c hc
    simp only [] at hp
    split at hp
    · simp at hp
    · rename_i s1 fl h1
      have hi0 : DLInv (setLink s c.link { getLink s c.link with ibuf := [] }) := hi.of_dkey rfl
      have h0 : CS (setLink s c.link { getLink s c.link with ibuf := [] }) := h.step0 (CStep.of_conns rfl rfl rfl rfl rfl)
      obtain ⟨a, ma⟩ := handlePackets_cs _ hi0 h0 h1
      have ma' : LogMono s.datalog s1.datalog := ma
      split at hp
      · simp at hp
      · rename_i s2 h2
        have b : CS s2 ∧ LogMono s1.datalog s2.datalog := by
          split at h2
          · exact ⟨a.step0 (reschedule_cstep h2), (reschedule_cstep h2).mono⟩
          · simp only [Except.ok.injEq] at h2; subst h2; exact ⟨a, LogMono.refl _⟩
        split at hp
        · simp at hp
        · rename_i s3 h3
          have c3 : CS s3 ∧ LogMono s2.datalog s3.datalog := by
            split at h3
            · exact ⟨b.1.step0 (drain_all_cstep h3), (drain_all_cstep h3).mono⟩
            · simp only [Except.ok.injEq] at h3; subst h3; exact ⟨b.1, LogMono.refl _⟩
          split at hp
          · simp at hp
          · rename_i s4 h4
            have c4 := c3.1.step0 (wakeTurnMoved_cstep h4)
            have m4 : LogMono s.datalog s4.datalog := ((ma'.trans b.2).trans c3.2).trans (wakeTurnMoved_cstep h4).mono
            split at hp
            · exact ⟨handleDisconnection_cs c4 hp, m4.trans (LogMono.of_dkey (handleDisconnection_dkey hp))⟩
            · simp only [Except.ok.injEq] at hp; subst hp; exact ⟨c4, m4⟩

theorem handleLastWill_cs {s s' : RState} {cid : String} (hi : DLInv s) (h : CS s)
    (hp : handleLastWill s cid = .ok s') : CS s' ∧ LogMono s.datalog s'.datalog := by
  unfold handleLastWill at hp
  split at hp
  · simp only [Except.ok.injEq] at hp; subst hp; exact ⟨h, LogMono.refl _⟩
  · rename_i w hw
    simp only [] at hp
    have r0 : CS (({ s with lastWills := aremove cid s.lastWills } : RState).g (.willFired cid)) :=
      h.step0 (CStep.of_conns rfl rfl rfl rfl rfl)
    split at hp
    · simp only [Except.ok.injEq] at hp; subst hp; exact ⟨r0, LogMono.refl _⟩
    · rename_i topic _
      split at hp
      · simp at hp
      · rename_i s1 idxs hm
        split at hp
        · simp at hp
        · rename_i s2 ha
          have hi1 : DLInv s1 := by
            refine (dlMatches_inv ?_ hm).1
            refine hi.of_dkey ?_
            rw [dkey_g, updateRetained_dkey]; rfl
          have m0 := dlMatches_cstep hm
          have ma := updateRetained_cstep (({ s with lastWills := aremove cid s.lastWills } : RState).g (.willFired cid)) topic
            { qos := w.qos, pkid := 0, retain := w.retain, dup := false, topic := w.topic, payload := w.payload }
          have mb : CStep (updateRetained (({ s with lastWills := aremove cid s.lastWills } : RState).g (.willFired cid)) topic
              { qos := w.qos, pkid := 0, retain := w.retain, dup := false, topic := w.topic, payload := w.payload })
              ((updateRetained (({ s with lastWills := aremove cid s.lastWills } : RState).g (.willFired cid)) topic
              { qos := w.qos, pkid := 0, retain := w.retain, dup := false, topic := w.topic, payload := w.payload }).g
                (.accepted none { qos := w.qos, pkid := 0, retain := w.retain, dup := false, topic := w.topic, payload := w.payload } topic)) noReq :=
            CStep.of_conns rfl rfl rfl rfl rfl
          have m2 := (((ma.nn mb).nn m0).nn (appendToFilters_cstep idxs hi1 ha)).nn (drain_all_cstep hp)
          exact ⟨r0.step0 m2, m2.mono⟩

theorem handleShadow_cs {s s' : RState} {id : Nat} {f : String} (h : CS s) (hp : handleShadow s id f = .ok s') :
    CS s' := by
  have hc := handleShadow_core hp
  unfold handleShadow at hp
  split at hp
  · simp only [Except.ok.injEq] at hp; subst hp; exact h
  · split at hp
    · simp only [Except.ok.injEq] at hp; subst hp; exact h
    · split at hp
      · simp only [Except.ok.injEq] at hp; subst hp; exact h
      · simp only [Except.ok.injEq] at hp; subst hp
        refine h.step0 (CStep.of_conns hc.1 ?_ ?_ ?_ ?_) <;> (simp only [wakeLink]; split <;> rfl)

/-! ### CONNECT -/

/-- the groups after a resumed session rejoined: as before, or created at the cursor of a restored request -/
theorem rejoinGroups_shared (st : Strategy) (cid : String) : ∀ (rs : List DataRequest) (sh : List (String × SharedGroup)),
    ∀ p ∈ rejoinGroups st cid rs sh,
      (∃ q ∈ sh, q.1 = p.1 ∧ q.2.cursor = p.2.cursor) ∨ (∃ r ∈ rs, r.group = some p.1 ∧ p.2.cursor = r.cursor)
  | [], sh, p, hp => .inl ⟨p, hp, rfl, rfl⟩
  | r :: rest, sh, p, hp => by
    simp only [rejoinGroups] at hp
    have lift : ((∃ q ∈ sh, q.1 = p.1 ∧ q.2.cursor = p.2.cursor) ∨ (∃ r' ∈ rest, r'.group = some p.1 ∧ p.2.cursor = r'.cursor)) →
        ((∃ q ∈ sh, q.1 = p.1 ∧ q.2.cursor = p.2.cursor) ∨ (∃ r' ∈ r :: rest, r'.group = some p.1 ∧ p.2.cursor = r'.cursor)) :=
      fun h => by
        rcases h with h | ⟨r', hr', a, b⟩
        · exact .inl h
        · exact .inr ⟨r', by simp [hr'], a, b⟩
    split at hp
    · exact lift (rejoinGroups_shared st cid rest sh p hp)
    · rename_i g hg
      rcases rejoinGroups_shared st cid rest _ p hp with ⟨q, hq, e1, e2⟩ | h
      · rcases mem_ainsert hq with hm | rfl
        · exact .inl ⟨q, hm, e1, e2⟩
        · cases hl : alookup g sh with
          | some grp0 =>
            simp only [hl, Option.getD_some] at e2
            exact .inl ⟨(g, grp0), mem_of_alookup hl, e1, e2⟩
          | none =>
            simp only [hl, Option.getD_none] at e2
            exact .inr ⟨r, by simp, by rw [hg]; exact congrArg some e1, e2.symm⟩
      · exact lift (.inr h)

theorem slab_insert_set_get (sl : Slab Conn) (a b : Conn) (j : Nat) (d : Conn)
    (h : ((sl.insert a).1.set (sl.insert a).2 b).get? j = some d) : d = b ∨ sl.get? j = some d := by
  unfold Slab.insert at h
  split at h
  · simp only [Slab.set, Slab.get?] at h ⊢
    by_cases hj : j < sl.entries.length
    · rw [List.getElem?_set_ne (by omega), List.getElem?_append_left hj] at h
      exact .inr h
    · by_cases hj' : j = sl.entries.length
      · subst hj'
        rw [List.getElem?_set_self (by simp)] at h
        simp only [Option.bind_some, id, Option.some.injEq] at h
        exact .inl h.symm
      · rw [List.getElem?_eq_none (by simp; omega)] at h; simp at h
  · rename_i k r hk
    simp only [Slab.set, Slab.get?, List.set_set] at h ⊢
    rw [List.getElem?_set] at h
    split at h
    · split at h
      · simp only [Option.bind_some, id, Option.some.injEq] at h; exact .inl h.symm
      · simp at h
    · exact .inr h

/-- the admission proper keeps `CursorSound`: the restored requests are the saved ones, the
    window is empty, a group re-created for a resumed session starts at a restored request's cursor -/
theorem admitConn_cs {s s' : RState} {spec : ConnectSpec} (h : CS s) (ha : admitConn s spec = .ok s') : CS s' := by
  rw [admit_eq] at ha
  split at ha
  · simp only [Except.ok.injEq] at ha; subst ha; exact h.step0 (CStep.of_conns rfl rfl rfl rfl rfl)
  · split at ha
    · simp at ha
    · refine CS.step0 ?_ (reschedule_cstep ha)
      -- the restored tracker's requests are sound
      have hrest : ∀ r ∈ (newConn s spec).tracker.requests, ReqOK s.datalog r := by
        intro r hr
        unfold newConn at hr
        simp only [] at hr
        cases hrs : restoredSession s spec with
        | none => rw [hrs] at hr; simp at hr
        | some ss =>
          rw [hrs] at hr
          simp only [] at hr
          unfold restoredSession at hrs
          split at hrs
          · cases hrs
          · cases hl : alookup spec.clientId s.graveyard with
            | none => rw [hl] at hrs; cases hrs
            | some v =>
              rw [hl] at hrs
              simp only [Option.bind_some, id] at hrs
              subst hrs
              exact h.grv _ (mem_of_alookup hl) ss rfl r hr
      have hwin : (newConn s spec).out.inflight = [] := by unfold newConn; rfl
      refine h.transfer (LogMono.refl _) (fun r hr => ?_) (fun fi cur hw => ?_) (fun p hp ss hss r hr => ?_) (fun p hp => ?_)
      · rcases hr with ⟨j, d, hd, hm⟩ | hr
        · rcases slab_insert_set_get _ _ _ j d hd with rfl | hd'
          · exact .inr (hrest r hm)
          · exact .inl (.inl ⟨j, d, hd', hm⟩)
        · exact .inl (.inr hr)
      · obtain ⟨j, d, hd, e, he, rest⟩ := hw
        rcases slab_insert_set_get _ _ _ j d hd with rfl | hd'
        · simp only [] at he; rw [hwin] at he; simp at he
        · exact .inl ⟨j, d, hd', e, he, rest⟩
      · exact .inl ⟨p, mem_aremove hp, ss, hss, hr⟩
      · rcases rejoinGroups_shared _ _ _ _ p hp with h1 | ⟨r, hr, hg, hc⟩
        · exact .inl h1
        · have := hrest r hr
          exact .inr ⟨r.filterIdx, this.2 p.1 hg, by rw [hc]; exact this.1⟩

theorem handleNewConnection_cs {s s' : RState} {spec : ConnectSpec} (h : CS s)
    (hn : handleNewConnection s spec = .ok s') : CS s' := by
  rw [handleNewConnection_eq] at hn
  have h0 : CS (setLink s spec.link {}) := h.step0 (CStep.of_conns rfl rfl rfl rfl rfl)
  split at hn
  · simp only [Except.ok.injEq] at hn; subst hn; exact h0.step0 (CStep.of_conns rfl rfl rfl rfl rfl)
  · split at hn
    · simp at hn
    · rename_i s1 hs1
      have h1 : CS s1 := by
        split at hs1
        · exact handleDisconnection_cs h0 hs1
        · simp only [Except.ok.injEq] at hs1; subst hs1; exact h0
      exact admitConn_cs h1 hn

/-! ### the logs only grow along a step (independent of `CursorSound`) -/

theorem subscribeFilters_mono {id : Nat} {subId : Option Nat} : ∀ (fs : List SubFilter) {s s' : RState}
    {codes codes' : List Nat} {fl fl' : Flags},
    subscribeFilters s id subId fs codes fl = .ok (s', codes', fl') → LogMono s.datalog s'.datalog
  | [], s, s', codes, codes', fl, fl', hs => by
    simp only [subscribeFilters, Except.ok.injEq, Prod.mk.injEq] at hs
    obtain ⟨rfl, _⟩ := hs; exact LogMono.refl _
  | f :: rest, s, s', codes, codes', fl, fl', hs => by
    rw [subscribeFilters_cons] at hs
    split at hs
    · simp only [Except.ok.injEq, Prod.mk.injEq] at hs; obtain ⟨rfl, _⟩ := hs; exact LogMono.refl _
    · split at hs
      · simp only [Except.ok.injEq, Prod.mk.injEq] at hs; obtain ⟨rfl, _⟩ := hs; exact LogMono.refl _
      · simp only [] at hs
        split at hs
        · simp at hs
        · rename_i s1 h1
          exact ((nextNativeOffset_mono s _).trans (LogMono.of_dkey (prepareFilter_dkey h1))).trans
            (subscribeFilters_mono rest hs)

theorem handlePacket_mono {s s' : RState} {id : Nat} {cid : String} {pkt : Packet} {fl fl' : Flags}
    (hi : DLInv s) (hp : handlePacket s id cid pkt fl = .ok (s', fl')) : LogMono s.datalog s'.datalog := by
  by_cases hsub : ∃ a b c, pkt = .subscribe a b c
  · obtain ⟨pkid, subId, filters, rfl⟩ := hsub
    simp only [handlePacket] at hp
    split at hp
    · simp at hp
    · rename_i s1 codes fl1 h1
      split at hp
      · simp at hp
      · rename_i s2 h2
        simp only [Except.ok.injEq, Prod.mk.injEq] at hp; obtain ⟨rfl, _⟩ := hp
        exact (subscribeFilters_mono filters h1).trans (commitAck_cstep h2).mono
  · exact (handlePacket_cstep (fun a b c e => hsub ⟨a, b, c, e⟩) hi hp).mono

theorem handlePackets_mono {id : Nat} {cid : String} : ∀ (ps : List Packet) {s s' : RState} {fl fl' : Flags},
    DLInv s → handlePackets s id cid ps fl = .ok (s', fl') → LogMono s.datalog s'.datalog
  | [], s, s', fl, fl', _, hp => by
    simp only [handlePackets, Except.ok.injEq, Prod.mk.injEq] at hp; obtain ⟨rfl, _⟩ := hp; exact LogMono.refl _
  | p :: rest, s, s', fl, fl', hi, hp => by
    simp only [handlePackets] at hp
    split at hp
    · simp at hp
    · rename_i s1 fl1 h1
      have m1 := handlePacket_mono hi h1
      split at hp
      · simp only [Except.ok.injEq, Prod.mk.injEq] at hp; obtain ⟨rfl, _⟩ := hp; exact m1
      · exact m1.trans (handlePackets_mono rest (handlePacket_inv hi h1) hp)

theorem handleDevicePayload_mono {s s' : RState} {id : Nat} (hi : DLInv s)
    (hp : handleDevicePayload s id = .ok s') : LogMono s.datalog s'.datalog := by
  unfold handleDevicePayload at hp
  split at hp
  · simp only [Except.ok.injEq] at hp; subst hp; exact LogMono.refl _
  · rename_i c hc
    simp only [] at hp
    split at hp
    · simp at hp
    · rename_i s1 fl h1
      have hi0 : DLInv (setLink s c.link { getLink s c.link with ibuf := [] }) := hi.of_dkey rfl
      have ma0 := handlePackets_mono _ hi0 h1
      have ma : LogMono s.datalog s1.datalog := ma0
      split at hp
      · simp at hp
      · rename_i s2 h2
        have b : LogMono s1.datalog s2.datalog := by
          split at h2
          · exact (reschedule_cstep h2).mono
          · simp only [Except.ok.injEq] at h2; subst h2; exact LogMono.refl _
        split at hp
        · simp at hp
        · rename_i s3 h3
          have c3 : LogMono s2.datalog s3.datalog := by
            split at h3
            · exact (drain_all_cstep h3).mono
            · simp only [Except.ok.injEq] at h3; subst h3; exact LogMono.refl _
          split at hp
          · simp at hp
          · rename_i s4 h4
            have m4 : LogMono s.datalog s4.datalog := ((ma.trans b).trans c3).trans (wakeTurnMoved_cstep h4).mono
            split at hp
            · exact m4.trans (LogMono.of_dkey (handleDisconnection_dkey hp))
            · simp only [Except.ok.injEq] at hp; subst hp; exact m4

theorem handleLastWill_mono {s s' : RState} {cid : String} (hi : DLInv s)
    (hp : handleLastWill s cid = .ok s') : LogMono s.datalog s'.datalog := by
  unfold handleLastWill at hp
  split at hp
  · simp only [Except.ok.injEq] at hp; subst hp; exact LogMono.refl _
  · rename_i w hw
    simp only [] at hp
    split at hp
    · simp only [Except.ok.injEq] at hp; subst hp; exact LogMono.refl _
    · rename_i topic _
      split at hp
      · simp at hp
      · rename_i s1 idxs hm
        split at hp
        · simp at hp
        · rename_i s2 ha
          have hi1 : DLInv s1 := by
            refine (dlMatches_inv ?_ hm).1
            refine hi.of_dkey ?_
            rw [dkey_g, updateRetained_dkey]; rfl
          have e0 : dkey s1 = dkey ((updateRetained (({ s with lastWills := aremove cid s.lastWills } : RState).g (.willFired cid)) topic
              { qos := w.qos, pkid := 0, retain := w.retain, dup := false, topic := w.topic, payload := w.payload }).g
              (.accepted none { qos := w.qos, pkid := 0, retain := w.retain, dup := false, topic := w.topic, payload := w.payload } topic)) → True := fun _ => trivial
          have m0 : LogMono s.datalog s1.datalog := by
            have := (dlMatches_cstep hm).mono
            refine LogMono.trans ?_ this
            refine LogMono.of_dkey ?_
            rw [dkey_g, updateRetained_dkey]; rfl
          exact (m0.trans (appendToFilters_cstep idxs hi1 ha).mono).trans (drain_all_cstep hp).mono

theorem step_mono {s s' : RState} {op : Op} {out : Out} (hi : DLInv s) (h : step s op = .ok (s', out)) :
    LogMono s.datalog s'.datalog := by
  cases op with
  | connect spec =>
    simp only [step] at h
    split at h
    · simp at h
    · rename_i s1 hc
      simp only [Except.ok.injEq, Prod.mk.injEq] at h; obtain ⟨rfl, _⟩ := h
      exact LogMono.of_dkey (handleNewConnection_dkey hc)
  | push l p =>
    simp only [step] at h
    split at h
    all_goals
      simp only [Except.ok.injEq, Prod.mk.injEq] at h; obtain ⟨rfl, _⟩ := h
      first | exact LogMono.refl _ | exact LogMono.of_dkey rfl
  | event id e =>
    simp only [step] at h
    split at h
    · simp at h
    · rename_i s1 he
      simp only [Except.ok.injEq, Prod.mk.injEq] at h; obtain ⟨rfl, _⟩ := h
      cases e with
      | deviceData => exact handleDevicePayload_mono hi he
      | ready =>
        simp only [events] at he
        split at he
        · exact LogMono.of_dkey (reschedule_dkey he)
        · simp only [Except.ok.injEq] at he; subst he; exact LogMono.refl _
      | disconnect => exact LogMono.of_dkey (handleDisconnection_dkey (id := id) (r := none) he)
      | publishWill c => exact handleLastWill_mono hi he
      | shadow f => exact LogMono.of_dkey (handleShadow_dkey he)
      | sendMeters => simp only [events, Except.ok.injEq] at he; subst he; exact LogMono.refl _
      | sendAlerts => simp only [events, Except.ok.injEq] at he; subst he; exact LogMono.refl _
  | consume =>
    simp only [step] at h
    split at h
    · simp at h
    · rename_i s1 b hc
      simp only [Except.ok.injEq, Prod.mk.injEq] at h; obtain ⟨rfl, _⟩ := h
      exact LogMono.of_dkey (consume_dkey hc)
  | drain l =>
    simp only [step] at h
    split at h
    · split at h
      all_goals
        simp only [Except.ok.injEq, Prod.mk.injEq] at h; obtain ⟨rfl, _⟩ := h
        first | exact LogMono.refl _ | exact LogMono.of_dkey rfl
    · simp only [Except.ok.injEq, Prod.mk.injEq] at h; obtain ⟨rfl, _⟩ := h; exact LogMono.refl _

/-- the bound can only be violated later: if the successor state is below it, so was the state -/
theorem NoOverflow.back {s s' : RState} (hi : DLInv s') (hm : LogMono s.datalog s'.datalog)
    (hc : s'.config = s.config) (h : NoOverflow s') : NoOverflow s := by
  intro fd hfd hist hrep
  obtain ⟨i, hi'⟩ := List.mem_iff_getElem?.mp hfd
  obtain ⟨fd', hfd', _, hle⟩ := hm.logs i fd hi'
  obtain ⟨hist', hrep'⟩ := hi.logs fd'.log (List.mem_map.mpr ⟨fd', List.mem_of_getElem? hfd', rfl⟩)
  have := h fd' (List.mem_of_getElem? hfd') hist' hrep'
  rw [hrep.nextAbs_eq, hrep'.nextAbs_eq] at hle
  rw [hc] at this
  omega

/-! ### the whole step, reachable states -/

theorem step_cs {s s' : RState} {op : Op} {out : Out} (hi : DLInv s) (hno : NoOverflow s) (h : CS s)
    (hs : step s op = .ok (s', out)) : CS s' := by
  cases op with
  | connect spec =>
    simp only [step] at hs
    split at hs
    · simp at hs
    · rename_i s1 hc
      simp only [Except.ok.injEq, Prod.mk.injEq] at hs; obtain ⟨rfl, _⟩ := hs
      exact handleNewConnection_cs h hc
  | push l p =>
    simp only [step] at hs
    split at hs
    all_goals
      simp only [Except.ok.injEq, Prod.mk.injEq] at hs; obtain ⟨rfl, _⟩ := hs
      first | exact h | exact h.step0 (CStep.of_conns rfl rfl rfl rfl rfl)
  | event id e =>
    simp only [step] at hs
    split at hs
    · simp at hs
    · rename_i s1 he
      simp only [Except.ok.injEq, Prod.mk.injEq] at hs; obtain ⟨rfl, _⟩ := hs
      cases e with
      | deviceData => exact (handleDevicePayload_cs hi h he).1
      | ready =>
        simp only [events] at he
        split at he
        · exact h.step0 (reschedule_cstep he)
        · simp only [Except.ok.injEq] at he; subst he; exact h
      | disconnect => exact handleDisconnection_cs (id := id) (r := none) h he
      | publishWill c => exact (handleLastWill_cs hi h he).1
      | shadow f => exact handleShadow_cs h he
      | sendMeters => simp only [events, Except.ok.injEq] at he; subst he; exact h
      | sendAlerts => simp only [events, Except.ok.injEq] at he; subst he; exact h
  | consume =>
    simp only [step] at hs
    split at hs
    · simp at hs
    · rename_i s1 b hc
      simp only [Except.ok.injEq, Prod.mk.injEq] at hs; obtain ⟨rfl, _⟩ := hs
      exact consume_cs hi hno h hc
  | drain l =>
    simp only [step] at hs
    split at hs
    · split at hs
      all_goals
        simp only [Except.ok.injEq, Prod.mk.injEq] at hs; obtain ⟨rfl, _⟩ := hs
        first | exact h | exact h.step0 (CStep.of_conns rfl rfl rfl rfl rfl)
    · simp only [Except.ok.injEq, Prod.mk.injEq] at hs; obtain ⟨rfl, _⟩ := hs; exact h

theorem CS.init (cfg : Config) : CS (init cfg) := by
  refine ⟨fun r hr => ?_, fun fi cur hw => ?_, fun p hp => by simp [Router.init] at hp, fun p hp => by simp [Router.init] at hp⟩
  · rcases hr with ⟨id, c, hc, _⟩ | ⟨fd, hfd, _⟩ | ⟨n, hn, _⟩
    · simp [Router.init, getConn, Slab.get?] at hc
    · simp [Router.init] at hfd
    · simp [Router.init] at hn
  · obtain ⟨id, c, hc, _⟩ := hw
    simp [Router.init, getConn, Slab.get?] at hc

theorem NoOverflow.oracle {s : RState} (h : NoOverflow s) (o : List Choice) : NoOverflow { s with oracle := o } := h
theorem CS.oracle {s : RState} (h : CS s) (o : List Choice) : CS { s with oracle := o } :=
  h.step0 (CStep.of_conns rfl rfl rfl rfl rfl)

/-- `CursorSound` holds in every reachable state whose filter logs are below the no-overflow bound
    (the logs only grow, so the bound then held in every earlier state of the run as well) -/
theorem CS.reachable {cfg : Config} (h1 : 1 ≤ cfg.maxSegmentSize) (h2 : 1 ≤ cfg.maxSegmentCount) {s : RState}
    (hr : Reachable cfg s) (hno : NoOverflow s) : CS s := by
  have key : Reachable cfg s ∧ DLInv s ∧ (NoOverflow s → CS s) := by
    refine hr.induction (fun s => Reachable cfg s ∧ DLInv s ∧ (NoOverflow s → CS s))
      ⟨reachable_init cfg, init_inv cfg h1 h2, fun _ => CS.init cfg⟩ ?_
    intro s o op s' out ⟨hrs, hi, hcs⟩ hstep
    have hi0 : DLInv ({ s with oracle := o } : RState) := hi.of_dkey rfl
    have hrs' : Reachable cfg s' := hrs.step hstep
    have hi' : DLInv s' := step_inv hi0 hstep
    refine ⟨hrs', hi', fun hno' => ?_⟩
    have hcfg : s'.config = s.config := by rw [config_reachable hrs', config_reachable hrs]
    have hno0 : NoOverflow ({ s with oracle := o } : RState) :=
      NoOverflow.back hi' (step_mono hi0 hstep) hcfg hno'
    exact step_cs hi0 hno0 ((hcs hno0).oracle o) hstep
  exact key.2.2 hno

/-- what `CursorSound` gives for a tracked request of a reachable state: its log exists, is well
    formed, the request's cursor — and, for a shared subscription, its group's cursor — is issued -/
theorem tracked_request_sound {cfg : Config} (h1 : 1 ≤ cfg.maxSegmentSize) (h2 : 1 ≤ cfg.maxSegmentCount) {s : RState}
    (hr : Reachable cfg s) (hno : NoOverflow s) {id : Nat} {c : Conn} {req : DataRequest}
    (hc : getConn s id = some c) (hreq : req ∈ c.tracker.requests) :
    ∃ fd hist, s.datalog.native[req.filterIdx]? = some fd ∧ Rep (logC fd.log) hist ∧
      Issued (logC fd.log) req.cursor ∧ hist.length + (MAX_INFLIGHT + s.config.maxOutgoingPacketCount) < U64 ∧
      (∀ gname g, req.group = some gname → alookup gname s.shared = some g → Issued (logC fd.log) g.cursor) := by
  have hcs := CS.reachable h1 h2 hr hno
  have hi := reachable_inv h1 h2 hr
  obtain ⟨⟨fd, hfd, hiss⟩, hgrp⟩ := hcs.req req (.inl ⟨id, c, hc, hreq⟩)
  obtain ⟨hist, hrep⟩ := hi.logs fd.log (List.mem_map.mpr ⟨fd, List.mem_of_getElem? hfd, rfl⟩)
  refine ⟨fd, hist, hfd, hrep, hiss, hno fd (List.mem_of_getElem? hfd) hist hrep, fun gname g hgn hl => ?_⟩
  obtain ⟨i, a, ⟨fd', hfd', b⟩⟩ := hcs.grp (gname, g) (mem_of_alookup hl)
  have := hgrp gname hgn
  have a' : s.datalog.filterIdx? (gpath gname) = some i := a
  rw [this] at a'
  cases a'
  rw [hfd] at hfd'; cases hfd'
  exact b

end Rp3
end Router
