/-
C06 `ack_order_and_owner`, sweep side: `consume` flushes the pending replies of the connection it
sweeps to that connection's link, in commit order, before any forward of the same sweep, and
writes to no other link and to no other connection's ack log.
-/
import Proofs.Lemmas.Router.Rp2_Fwd
import Proofs.Lemmas.Router.Rp2_Acks
namespace Router

theorem pause_frame {s s' : RState} {id : Nat} {r : PauseReason} (h : pause s id r = .ok s') : AckFrame s s' := by
  unfold pause at h
  split at h
  · simp at h
  · split at h
    · simp at h
    · rename_i c hc
      simp only [Except.ok.injEq] at h; subst h
      have hc' : getConn { s with readyqueue := s.readyqueue.dropLast } id = some c := hc
      exact AckFrame.precomp (AckFrame.setConn hc' (c' := { c with tracker := { c.tracker with status := .paused r } }) rfl)
        rfl rfl

theorem trackv_frame {s s' : RState} {id : Nat} {rs : List DataRequest} (h : trackv s id rs = .ok s') :
    AckFrame s s' := by
  unfold trackv at h
  split at h
  · simp at h
  · rename_i c hc
    simp only [Except.ok.injEq] at h; subst h
    exact AckFrame.setConn hc rfl

theorem park_frame {s s' : RState} {id : Nat} {r : DataRequest} (h : park s id r = .ok s') : AckFrame s s' := by
  unfold park at h
  split at h
  · simp at h
  · simp only [Except.ok.injEq] at h; subst h; exact AckFrame.of_eq rfl rfl

/-- a connection that was found keeps being found, on the same link -/
theorem SweepFrame.get {s s' : RState} {l : Nat} (h : SweepFrame s s' l) {j : Nat} {c : Conn}
    (hc : getConn s j = some c) : ∃ c', getConn s' j = some c' ∧ c'.link = c.link ∧ c'.acks = c.acks := by
  obtain ⟨c', a, b, d, _⟩ := h.conns.get hc
  exact ⟨c', a, d, b⟩

/-- the request loop of one sweep -/
theorem consumeLoop_sweep (id l : Nat) : ∀ (fuel : Nat) (reqs skipped : List DataRequest) {s s' : RState} {c : Conn},
    getConn s id = some c → c.link = l → consumeLoop s id fuel reqs skipped = .ok s' → SweepFrame s s' l
  | 0, reqs, skipped, s, s', c, _, _, h => by
    simp only [consumeLoop] at h
    exact SweepFrame.of_frame (trackv_frame h) l
  | fuel + 1, [], skipped, s, s', c, _, _, h => by
    simp only [consumeLoop] at h
    split at h
    · simp at h
    · rename_i s1 h1
      have f1 : AckFrame s s1 := by
        split at h1
        · exact pause_frame h1
        · simp only [Except.ok.injEq] at h1; subst h1; exact AckFrame.refl _
      exact SweepFrame.of_frame (f1.trans (trackv_frame h)) l
  | fuel + 1, req :: rest, skipped, s, s', c, hc, hl, h => by
    simp only [consumeLoop] at h
    split at h
    · simp at h
    · rename_i s1 req1 st hf
      have f1 : SweepFrame s (noteTurn s s1 req1) l :=
        (hl ▸ (forwardDeviceData_spec hc hf).1 : SweepFrame s s1 l).trans
          (SweepFrame.of_frame (noteTurn_frame s s1 req1) l)
      obtain ⟨c1, hc1, hl1, _⟩ := f1.get hc
      have hl1' : c1.link = l := hl1.trans hl
      cases st with
      | bufferFull =>
        simp only [] at h
        split at h
        · simp at h
        · rename_i s2 h2
          exact f1.trans (SweepFrame.of_frame ((pause_frame h2).trans (trackv_frame h)) l)
      | inflightFull =>
        simp only [] at h
        split at h
        · simp at h
        · rename_i s2 h2
          exact f1.trans (SweepFrame.of_frame ((pause_frame h2).trans (trackv_frame h)) l)
      | filterCaughtup =>
        simp only [] at h
        split at h
        · simp at h
        · rename_i s2 h2
          have f2 := SweepFrame.of_frame (park_frame h2) l
          obtain ⟨c2, hc2, hl2, _⟩ := (f1.trans f2).get hc
          exact (f1.trans f2).trans (consumeLoop_sweep id l fuel rest skipped hc2 (hl2.trans hl) h)
      | partialRead =>
        simp only [] at h
        exact f1.trans (consumeLoop_sweep id l fuel _ skipped hc1 hl1' h)
      | skipRequest =>
        simp only [] at h
        exact f1.trans (consumeLoop_sweep id l fuel rest _ hc1 hl1' h)

/-- `ack_device_data`: all pending replies of `id`, in commit order, to `id`'s own link; the log is
    emptied; no other link and no other connection is touched -/
theorem ackDeviceData_spec (s : RState) (id : Nat) (c : Conn) (h : getConn s id = some c) :
    (getLink (ackDeviceData s id) c.link).obuf = (getLink s c.link).obuf ++ c.acks.committed.map Notif.ack ∧
    (∀ l, l ≠ c.link → getLink (ackDeviceData s id) l = getLink s l) ∧
    (∃ c', getConn (ackDeviceData s id) id = some c' ∧ c'.acks.committed = [] ∧ c'.link = c.link ∧
        c'.clientId = c.clientId ∧ c'.acks.recorded = c.acks.recorded) ∧
    (∀ j, j ≠ id → getConn (ackDeviceData s id) j = getConn s j) := by
  unfold ackDeviceData
  simp only [h]
  cases hcm : c.acks.committed with
  | nil =>
    have he : ([] : List Ack).isEmpty = true := rfl
    simp only [if_pos he]
    exact ⟨by simp, fun _ _ => trivial, ⟨c, h, hcm, rfl, rfl, rfl⟩, fun _ _ => trivial⟩
  | cons a as =>
    simp only [List.isEmpty_cons, Bool.false_eq_true, if_false]
    refine ⟨?_, ?_, ?_, ?_⟩
    · simp only [getLink_setConn, wakeLink, pushNotifs, getLink_setLink_same, LinkBuf.wake]
      split <;> rfl
    · intro l hl
      simp only [getLink_setConn, wakeLink, pushNotifs]
      rw [getLink_setLink_ne _ _ _ _ hl, getLink_setLink_ne _ _ _ _ hl]
    · refine ⟨_, getConn_setConn_same _ _ _ ?_, rfl, rfl, rfl, rfl⟩
      exact getConn_lt (s := wakeLink (pushNotifs s c.link _) c.link) h
    · intro j hj
      rw [getConn_setConn_ne _ _ _ _ hj]; rfl

/-- `Scheduler::poll` picks a live connection -/
theorem poll_live {s : RState} {id : Nat} {rq : List Nat}
    (hq : s.readyqueue.dropWhile (fun id => (s.conns.get? id).isNone) = id :: rq) :
    ∃ c, getConn s id = some c := by
  have hne : s.readyqueue.dropWhile (fun id => (s.conns.get? id).isNone) ≠ [] := by rw [hq]; simp
  have := List.head?_dropWhile_not (fun id => (s.conns.get? id).isNone) s.readyqueue
  rw [hq] at this
  simp only [List.head?_cons] at this
  unfold getConn
  cases hg : s.conns.get? id with
  | none => simp [hg] at this
  | some c => exact ⟨c, rfl⟩

/-- C06 `ack_order_and_owner` for one sweep: the connection `consume` picks (`id`, the first live
    entry of the ready queue) gets all its pending replies, in commit order, on its own link and
    ahead of everything else the sweep writes there (forwards, unschedule); its ack log is left
    empty; no other link is written and no other connection's ack log changes. -/
theorem consume_flushes_in_order {s s' : RState} {b : Bool} {id : Nat} {rq : List Nat} {c : Conn}
    (hq : s.readyqueue.dropWhile (fun id => (s.conns.get? id).isNone) = id :: rq)
    (hc : getConn s id = some c) (h : consume s = .ok (s', b)) :
    b = true ∧
    (∃ rest, (getLink s' c.link).obuf = (getLink s c.link).obuf ++ c.acks.committed.map Notif.ack ++ rest ∧
        ∀ n ∈ rest, n.isAck = false) ∧
    (∀ l, l ≠ c.link → getLink s' l = getLink s l) ∧
    acksOf s' id = some [] ∧
    (∀ j, j ≠ id → (getConn s' j).map Conn.view = (getConn s j).map Conn.view) := by
  unfold consume at h
  rw [hq] at h
  simp only [] at h
  have hc0 : getConn { s with readyqueue := rq } id = some c := hc
  simp only [hc0] at h
  split at h
  · simp at h
  · rename_i s2 hloop
    split at h
    · simp at h
    rename_i s3 hwake
    simp only [Except.ok.injEq, Prod.mk.injEq] at h; obtain ⟨rfl, rfl⟩ := h
    have fw := wakeTurnMoved_frame hwake
    -- the state handed to `ack_device_data`
    generalize hs0 : ({ (setConn { s with readyqueue := rq } id
        { c with tracker := { c.tracker with requests := [] } }) with
          readyqueue := (setConn { s with readyqueue := rq } id
            { c with tracker := { c.tracker with requests := [] } }).readyqueue ++ [id] } : RState) = s0 at hloop
    have fr0 : AckFrame s s0 := by
      subst hs0
      exact AckFrame.congr (AckFrame.precomp (AckFrame.setConn hc0
        (c' := { c with tracker := { c.tracker with requests := [] } }) rfl) rfl rfl) rfl rfl
    obtain ⟨c0, hc0', ha0, hl0, hk0⟩ := fr0.conns.get hc
    obtain ⟨e1, e2, ⟨c1, g1, a1, l1, k1, _⟩, e4⟩ := ackDeviceData_spec s0 id c0 hc0'
    have sw := (consumeLoop_sweep id c.link _ _ _ g1 (l1.trans hl0) hloop).trans (SweepFrame.of_frame fw c.link)
    obtain ⟨rest, hrest, hno⟩ := sw.link.own
    refine ⟨rfl, ⟨rest, ?_, hno⟩, ?_, ?_, ?_⟩
    · rw [hrest, ← hl0, e1, fr0.getLink, ha0]
    · intro l hl
      rw [sw.link.others l hl, e2 l (by rw [hl0]; exact hl), fr0.getLink]
    · obtain ⟨c2, g2, _, a2⟩ := sw.get g1
      simp [acksOf, g2, a2, a1]
    · intro j hj
      rw [sw.conns j, e4 j hj]
      exact fr0.conns j

end Router
