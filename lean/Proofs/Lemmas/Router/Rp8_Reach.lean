/-
The scheduler-status facts (`SI`) through disconnection, CONNECT, the events, `consume`; they hold
in every reachable state.
-/
import Proofs.Lemmas.Router.Rp8_Packets
namespace Router
open Router.Rp3

theorem hdFinal_readyqueue (s : RState) (id : Nat) (c : Conn) (r : Option String) :
    (hdFinal s id c r).readyqueue = s.readyqueue := by
  unfold hdFinal
  cases r <;> (simp only []; split <;> rfl)

theorem handleDisconnection_si {s s' : RState} {id : Nat} {r : Option String} (hs : SI s)
    (hd : handleDisconnection s id r = .ok s') : SI s' := by
  cases hc : getConn s id with
  | none => rw [handleDisconnection_missing s id r hc] at hd; cases hd; exact hs
  | some c =>
    rw [Router.handleDisconnection_eq] at hd
    simp only [hc] at hd
    refine wakeParked_si (hs.rel ⟨fun j d hd' => ?_, fun j hj => by rw [hdFinal_readyqueue]; exact hj⟩) hd
    obtain ⟨k1, _⟩ := hdFinal_fields s id c r
    have hget : getConn (hdFinal s id c r) j = if j = id then none else getConn s j := by
      unfold getConn; rw [k1, Slab.get?_remove]
    rw [hget] at hd'
    split at hd'
    · cases hd'
    · exact ⟨d, hd', Keep.refl d⟩

theorem hnPre_readyqueue (s : RState) (spec : ConnectSpec) : (hnPre s spec).readyqueue = s.readyqueue := by
  unfold hnPre
  simp only []
  rw [Rp3.foldl_g]
  split <;> (unfold hnWill; split <;> rfl)

theorem hnRestored_busy {s : RState} (hd : DInv s) (spec : ConnectSpec) :
    (hnTracker spec (hnRestored s spec)).status = .paused .busy := by
  unfold hnRestored
  split
  · rfl
  · unfold hnSession
    cases hl : alookup spec.clientId s.graveyard with
    | none => rfl
    | some v =>
      cases v with
      | none => rfl
      | some ss => exact (hd.grv _ (mem_of_alookup hl) ss rfl).2

theorem hnRegister_si {s s' : RState} {spec : ConnectSpec} (hs : SI s) (hd : DInv s) (ha : AdmInv s)
    (hnone : alookup spec.clientId s.connectionMap = none) (hroom : s.conns.len < s.config.maxConnections)
    (h : hnRegister s spec = .ok s') : SI s' := by
  obtain ⟨_, hre⟩ := hnRegister_ok h
  obtain ⟨e1, e2, e3⟩ := hnPre_core s spec
  obtain ⟨_, hvac, hnew, hold⟩ := AdmInv.register (conn' := { hnConn spec (hnRestored s spec) with
      acks := { committed := hnAcks spec (hnKey s spec) (hnSession s spec).isSome (hnRestored s spec) } })
    ha hnone hroom rfl e1 e2 e3
  have hnew' : getConn (hnPre s spec) (hnKey s spec) = some _ := hnew
  have hold' : ∀ j, j ≠ hnKey s spec → getConn (hnPre s spec) j = getConn s j := hold
  have hbusy := hnRestored_busy hd spec
  refine reschedule_si ⟨fun j d hd' => ?_, fun j d hd' hr => ?_⟩ hre
  · by_cases hj : j = hnKey s spec
    · subst hj; rw [hnew'] at hd'; cases hd'
      refine ⟨fun e => ?_, fun e => ?_⟩
      · have : (hnTracker spec (hnRestored s spec)).status = .paused .caughtup := e
        rw [hbusy] at this; cases this
      · have : (hnTracker spec (hnRestored s spec)).status = .paused .inflightFull := e
        rw [hbusy] at this; cases this
    · rw [hold' j hj] at hd'; exact hs.ci j d hd'
  · rw [hnPre_readyqueue]
    by_cases hj : j = hnKey s spec
    · subst hj; rw [hnew'] at hd'; cases hd'
      have : (hnTracker spec (hnRestored s spec)).status = .ready := hr
      rw [hbusy] at this; cases this
    · rw [hold' j hj] at hd'; exact hs.rq j d hd' hr

theorem handleNewConnection_si {s s' : RState} {spec : ConnectSpec} (hb : BInv s) (ha : AdmInv s) (hs : SI s)
    (h : handleNewConnection s spec = .ok s') : SI s' := by
  rw [Router.handleNewConnection_eq] at h
  simp only [] at h
  have h0 : BInv (setLink s spec.link {}) := ⟨hb.1.congr rfl rfl rfl rfl rfl rfl rfl, hb.2⟩
  have a0 : AdmInv (setLink s spec.link {}) := ha.congr rfl rfl rfl
  have s0 : SI (setLink s spec.link {}) := hs.rel (SRel.of_conns rfl rfl)
  split at h
  · simp only [Except.ok.injEq] at h; subst h
    exact s0.rel (SRel.of_conns rfl rfl)
  · split at h
    · simp at h
    · rename_i s1 h1
      obtain ⟨a1, hnone, _⟩ := hnTakeover_spec a0 h1
      have t1 : BInv s1 ∧ SI s1 := by
        unfold hnTakeover at h1
        split at h1
        · exact ⟨Good.ok_of (A := fun _ => True) h1 (handleDisconnection_good h0), handleDisconnection_si s0 h1⟩
        · simp only [Except.ok.injEq] at h1; subst h1; exact ⟨h0, s0⟩
      split at h
      · simp only [Except.ok.injEq] at h; subst h
        exact t1.2.rel (SRel.of_conns rfl rfl)
      · exact hnRegister_si t1.2 t1.1.1 a1 hnone (by omega) h

theorem handleDevicePayload_si {s s' : RState} {id : Nat} (hs : SI s) (h : handleDevicePayload s id = .ok s') : SI s' := by
  unfold handleDevicePayload at h
  split at h
  · simp only [Except.ok.injEq] at h; subst h; exact hs
  · rename_i c hc
    simp only [] at h
    have s0 : SI (setLink s c.link { getLink s c.link with ibuf := [] }) := hs.rel (SRel.of_conns rfl rfl)
    split at h
    · simp at h
    · rename_i s1 fl h1
      have q1 := handlePackets_si _ s0 h1
      split at h
      · simp at h
      · rename_i s2 h2
        have q2 : SI s2 := by
          split at h2
          · exact reschedule_si q1 h2
          · simp only [Except.ok.injEq] at h2; subst h2; exact q1
        split at h
        · simp at h
        · rename_i s3 h3
          have q3 : SI s3 := by
            split at h3
            · exact drain_all_si q2 h3
            · simp only [Except.ok.injEq] at h3; subst h3; exact q2
          split at h
          · simp at h
          · rename_i s4 h4
            have q4 := wakeTurnMoved_si q3 h4
            split at h
            · exact handleDisconnection_si q4 h
            · simp only [Except.ok.injEq] at h; subst h; exact q4

theorem handleLastWill_si {s s' : RState} {cid : String} (hs : SI s) (h : handleLastWill s cid = .ok s') : SI s' := by
  unfold handleLastWill at h
  split at h
  · simp only [Except.ok.injEq] at h; subst h; exact hs
  · simp only [] at h
    have r0 : SRel s (({ s with lastWills := aremove cid s.lastWills } : RState).g (.willFired cid)) := SRel.of_conns rfl rfl
    split at h
    · simp only [Except.ok.injEq] at h; subst h; exact hs.rel r0
    · rename_i topic ht
      split at h
      · simp at h
      · rename_i s2 idxs h2
        split at h
        · simp at h
        · rename_i s3 h3
          refine drain_all_si (hs.rel ?_) h
          refine (SRel.trans ?_ (dlMatches_srel h2)).trans (appendToFilters_srel idxs h3)
          exact (r0.trans (updateRetained_srel _ _ _)).trans (SRel.of_conns rfl rfl)

theorem handleShadow_srel {s s' : RState} {id : Nat} {f : String} (h : handleShadow s id f = .ok s') : SRel s s' := by
  have hc := handleShadow_core h
  unfold handleShadow at h
  split at h
  · simp only [Except.ok.injEq] at h; subst h; exact SRel.refl _
  · split at h
    · simp only [Except.ok.injEq] at h; subst h; exact SRel.refl _
    · split at h
      · simp only [Except.ok.injEq] at h; subst h; exact SRel.refl _
      · simp only [Except.ok.injEq] at h; subst h
        refine SRel.of_conns hc.1 ?_
        simp only [wakeLink]; split <;> rfl

/-! ### `consume` -/

/-- the state of the request loop: the tracker of `id` is empty; the status facts hold, with
    `Caughtup → nothing held locally` for `id` -/
structure LI (s : RState) (id : Nat) (L : List DataRequest) : Prop where
  other : ∀ j d, getConn s j = some d → j ≠ id → CI d
  self : ∀ c, getConn s id = some c → c.tracker.requests = [] ∧
    (c.tracker.status = .paused .inflightFull → MAX_INFLIGHT ≤ c.out.inflight.length) ∧
    (c.tracker.status = .paused .caughtup → L = [])
  rq : ∀ j d, getConn s j = some d → d.tracker.status = .ready → j ∈ s.readyqueue

theorem LI.rel {s s' : RState} {id : Nat} {L L' : List DataRequest} (h : LI s id L) (m : SRel s s')
    (hl : L = [] → L' = []) : LI s' id L' :=
  ⟨fun j d hd hj => by
    obtain ⟨c, hc, k⟩ := m.conn j d hd
    exact (h.other j c hc hj).keep k,
   fun d hd => by
    obtain ⟨c, hc, k⟩ := m.conn id d hd
    obtain ⟨a, b, e⟩ := h.self c hc
    exact ⟨k.2.1 a, fun e' => Nat.le_trans (b (k.1 ▸ e')) k.2.2, fun e' => hl (e (k.1 ▸ e'))⟩,
   fun j d hd hr => by
    obtain ⟨c, hc, k⟩ := m.conn j d hd
    exact m.rq j (h.rq j c hc (k.1 ▸ hr))⟩

/-- the locally held requests join the tracker -/
theorem LI.join {s s' : RState} {id : Nat} {L : List DataRequest} (h : LI s id L) (ht : trackv s id L = .ok s') : SI s' := by
  unfold trackv at ht
  split at ht
  · simp at ht
  · rename_i c hc
    simp only [Except.ok.injEq] at ht; subst ht
    have hget := getConn_setConn_live hc { c with tracker := { c.tracker with requests := c.tracker.requests ++ L } }
    obtain ⟨a, b, e⟩ := h.self c hc
    refine ⟨fun j d hd => ?_, fun j d hd hr => ?_⟩
    · rw [hget] at hd
      by_cases hj : j = id
      · subst hj; simp only [if_true, Option.some.injEq] at hd; subst hd
        exact ⟨fun e' => by simp [a, e e'], b⟩
      · simp only [hj, if_false] at hd; exact h.other j d hd hj
    · rw [hget] at hd
      by_cases hj : j = id
      · subst hj; simp only [if_true, Option.some.injEq] at hd; subst hd; exact h.rq j c hc hr
      · simp only [hj, if_false] at hd; exact h.rq j d hd hr

theorem mem_dropLast_of_ne {l : List Nat} {j id : Nat} (hj : j ∈ l) (hl : l.getLast? = some id) (hne : j ≠ id) :
    j ∈ l.dropLast := by
  have hnil : l ≠ [] := fun e => by subst e; cases hj
  have := List.dropLast_concat_getLast hnil
  rw [← this] at hj
  rcases List.mem_append.mp hj with h | h
  · exact h
  · simp only [List.mem_singleton] at h
    have e : l.getLast hnil = id := by
      have := List.getLast?_eq_some_getLast hnil
      rw [this] at hl; exact Option.some.inj hl
    exact absurd (h.trans e) hne

/-- `pause` after which the held requests join the tracker -/
theorem LI.pause_join {s s1 s' : RState} {id : Nat} {L L' : List DataRequest} {r : PauseReason} (h : LI s id L)
    (hp : pause s id r = .ok s1) (ht : trackv s1 id L' = .ok s')
    (hr1 : r = .caughtup → L' = [])
    (hr2 : r = .inflightFull → ∀ c, getConn s id = some c → MAX_INFLIGHT ≤ c.out.inflight.length) : SI s' := by
  unfold pause at hp
  split at hp
  · simp at hp
  · rename_i hlast
    have hlast' : s.readyqueue.getLast? = some id := by simpa using hlast
    split at hp
    · simp at hp
    · rename_i c hc
      simp only [Except.ok.injEq] at hp; subst hp
      have hc' : getConn s id = some c := hc
      have hget := getConn_setConn_live (s := { s with readyqueue := s.readyqueue.dropLast }) hc'
        { c with tracker := { c.tracker with status := .paused r } }
      obtain ⟨a, _, _⟩ := h.self c hc'
      refine LI.join (L := L') ⟨fun j d hd hj => ?_, fun d hd => ?_, fun j d hd hrd => ?_⟩ ht
      · rw [hget] at hd; simp only [hj, if_false] at hd; exact h.other j d hd hj
      · rw [hget] at hd; simp only [if_true, Option.some.injEq] at hd; subst hd
        refine ⟨a, fun e => ?_, fun e => ?_⟩
        · have : r = .inflightFull := by simpa using e
          exact hr2 this c hc'
        · have : r = .caughtup := by simpa using e
          exact hr1 this
      · rw [hget] at hd
        by_cases hj : j = id
        · subst hj; simp only [if_true, Option.some.injEq] at hd; subst hd; simp at hrd
        · simp only [hj, if_false] at hd
          exact mem_dropLast_of_ne (h.rq j d hd hrd) hlast' hj

theorem consumeLoop_si {id : Nat} : ∀ (fuel : Nat) {s s' : RState} {requests skipped : List DataRequest},
    LI s id (requests ++ skipped) → consumeLoop s id fuel requests skipped = .ok s' → SI s'
  | 0, s, s', requests, skipped, h, hc => by
    simp only [consumeLoop] at hc
    exact h.join hc
  | fuel + 1, s, s', requests, skipped, h, hc => by
    cases requests with
    | nil =>
      simp only [consumeLoop] at hc
      split at hc
      · simp at hc
      · rename_i s1 h1
        by_cases hsk : skipped.isEmpty = true
        · simp only [hsk, if_true] at h1
          have : skipped = [] := by simpa using hsk
          subst this
          exact h.pause_join h1 hc (fun _ => rfl) (fun e => by cases e)
        · simp only [hsk] at h1
          simp only [Bool.false_eq_true, if_false, Except.ok.injEq] at h1; subst h1
          exact LI.join (by simpa using h) hc
    | cons req rest =>
      simp only [consumeLoop] at hc
      split at hc
      · simp at hc
      · rename_i s1 req1 st h1
        obtain ⟨c, hcn⟩ : ∃ c, getConn s id = some c := by
          cases hg : getConn s id with
          | none => rw [Router.forwardDeviceData_eq, hg] at h1; simp at h1
          | some c => exact ⟨c, rfl⟩
        have m2 : SRel s (noteTurn s s1 req1) := (forwardDeviceData_srel h1).trans (noteTurn_srel s s1 req1)
        have hne : ∀ L' : List DataRequest, req :: rest ++ skipped = [] → L' = [] := fun _ e => by simp at e
        split at hc
        · split at hc
          · simp at hc
          · rename_i s3 h3
            exact (h.rel m2 (hne (rest ++ [req1] ++ skipped))).pause_join h3 hc (fun e => by cases e) (fun e => by cases e)
        · split at hc
          · simp at hc
          · rename_i s3 h3
            refine (h.rel m2 (hne (rest ++ [req1] ++ skipped))).pause_join h3 hc (fun e => by cases e) (fun _ c2 hc2 => ?_)
            -- the sweep stopped on a full window and changed nothing
            rcases forwardDeviceData_cases hcn h1 with ⟨_, hfree, e, _, _⟩ | ⟨_, s0, rp, slots', hr, hrd⟩
            · subst e
              obtain ⟨c0, hc0, k0⟩ := (noteTurn_srel _ _ req1).conn id c2 hc2
              rw [hcn] at hc0; cases hc0
              unfold Outgoing.freeSlots at hfree
              have := k0.2.2; omega
            · exfalso
              obtain ⟨fd, _, hcase⟩ := sweepRead_cases hrd
              rcases hcase with ⟨_, _, _, e⟩ | ⟨_, _, _, _, e⟩ | ⟨_, _, hp⟩
              · split at e <;> cases e
              · cases e
              · obtain ⟨_, s2, _, hfin⟩ := sweepPush_spec hp
                rcases hfin with ⟨_, e, _⟩ | ⟨_, e, _⟩
                · cases e
                · split at e <;> cases e
        · split at hc
          · simp at hc
          · rename_i s3 h3
            exact consumeLoop_si fuel ((h.rel (m2.trans (park_srel h3)) (hne (rest ++ skipped)))) hc
        · exact consumeLoop_si fuel (h.rel m2 (hne ((rest ++ [req1]) ++ skipped))) hc
        · exact consumeLoop_si fuel (h.rel m2 (hne (rest ++ (skipped ++ [req1])))) hc

theorem consume_si {s s' : RState} {b : Bool} (hs : SI s) (hc : consume s = .ok (s', b)) : SI s' := by
  unfold consume at hc
  have hsplit := List.takeWhile_append_dropWhile (p := fun id => (s.conns.get? id).isNone) (l := s.readyqueue)
  have hdead : ∀ j ∈ s.readyqueue.takeWhile (fun id => (s.conns.get? id).isNone), getConn s j = none := fun j hj => by
    have := List.all_eq_true.mp (List.all_takeWhile (l := s.readyqueue) (p := fun id => (s.conns.get? id).isNone)) j hj
    simpa [getConn] using this
  -- a live, ready connection is in the part of the queue that `poll` keeps
  have hlive : ∀ j d, getConn s j = some d → d.tracker.status = .ready →
      j ∈ s.readyqueue.dropWhile (fun id => (s.conns.get? id).isNone) := fun j d hd hr => by
    have := hs.rq j d hd hr
    rw [← hsplit] at this
    rcases List.mem_append.mp this with h | h
    · rw [hdead j h] at hd; cases hd
    · exact h
  split at hc
  · rename_i hq
    simp only [Except.ok.injEq, Prod.mk.injEq] at hc; obtain ⟨rfl, _⟩ := hc
    refine ⟨fun j d hd => hs.ci j d hd, fun j d hd hr => ?_⟩
    have := hlive j d hd hr
    rw [hq] at this; cases this
  · rename_i id rq hq
    simp only [] at hc
    split at hc
    · rename_i hnone
      simp only [Except.ok.injEq, Prod.mk.injEq] at hc; obtain ⟨rfl, _⟩ := hc
      refine ⟨fun j d hd => hs.ci j d hd, fun j d hd hr => ?_⟩
      have := hlive j d hd hr
      rw [hq] at this
      rcases List.mem_cons.mp this with e | h
      · subst e
        have hd' : getConn ({ s with readyqueue := rq } : RState) j = some d := hd
        rw [hnone] at hd'; cases hd'
      · exact h
    · rename_i c hcn
      have hcn' : getConn s id = some c := hcn
      split at hc
      · simp at hc
      · rename_i s1 h1
        split at hc
        · simp at hc
        · rename_i s2 h2
          simp only [Except.ok.injEq, Prod.mk.injEq] at hc; obtain ⟨rfl, _⟩ := hc
          refine wakeTurnMoved_si (consumeLoop_si _ ?_ h1) h2
          refine LI.rel (L := c.tracker.requests ++ []) ?_ (ackDeviceData_srel _ id) (fun e => e)
          have hget : ∀ j, getConn ({ setConn { s with readyqueue := rq } id { c with tracker := { c.tracker with requests := [] } }
              with readyqueue := (setConn { s with readyqueue := rq } id { c with tracker := { c.tracker with requests := [] } }).readyqueue ++ [id] } : RState) j =
              if j = id then some { c with tracker := { c.tracker with requests := [] } } else getConn s j :=
            fun j => getConn_setConn_live (s := { s with readyqueue := rq }) hcn' _ j
          refine ⟨fun j d hd hj => ?_, fun d hd => ?_, fun j d hd hr => ?_⟩
          · rw [hget] at hd; simp only [hj, if_false] at hd; exact hs.ci j d hd
          · rw [hget] at hd; simp only [if_true, Option.some.injEq] at hd; subst hd
            obtain ⟨a, b⟩ := hs.ci id c hcn'
            exact ⟨rfl, b, fun e => by simpa using a e⟩
          · rw [hget] at hd
            show j ∈ rq ++ [id]
            by_cases hj : j = id
            · subst hj; simp
            · simp only [hj, if_false] at hd
              have := hlive j d hd hr
              rw [hq] at this
              rcases List.mem_cons.mp this with e | h
              · exact absurd e hj
              · exact List.mem_append_left _ h

/-- one step keeps the scheduler-status facts -/
theorem step_si {s s' : RState} {op : Op} {out : Out} (h3 : Inv3 s) (hs : SI s) (hst : step s op = .ok (s', out)) : SI s' := by
  have hb := h3.inv2.binv
  cases op with
  | connect spec =>
    simp only [step] at hst
    split at hst
    · simp at hst
    · rename_i s1 hc
      simp only [Except.ok.injEq, Prod.mk.injEq] at hst; obtain ⟨rfl, _⟩ := hst
      exact handleNewConnection_si hb h3.inv2.inv1.adm hs hc
  | push l p =>
    simp only [step] at hst
    split at hst
    all_goals
      simp only [Except.ok.injEq, Prod.mk.injEq] at hst; obtain ⟨rfl, _⟩ := hst
      first | exact hs | exact hs.rel (SRel.of_conns rfl rfl)
  | event id e =>
    simp only [step] at hst
    split at hst
    · simp at hst
    · rename_i s1 he
      simp only [Except.ok.injEq, Prod.mk.injEq] at hst; obtain ⟨rfl, _⟩ := hst
      cases e with
      | deviceData => exact handleDevicePayload_si hs he
      | ready =>
        simp only [events] at he
        split at he
        · exact reschedule_si hs he
        · simp only [Except.ok.injEq] at he; subst he; exact hs
      | disconnect => exact handleDisconnection_si (id := id) (r := none) hs he
      | publishWill c => exact handleLastWill_si hs he
      | shadow f => exact hs.rel (handleShadow_srel he)
      | sendMeters => simp only [events, Except.ok.injEq] at he; subst he; exact hs
      | sendAlerts => simp only [events, Except.ok.injEq] at he; subst he; exact hs
  | consume =>
    simp only [step] at hst
    split at hst
    · simp at hst
    · rename_i s1 b hc
      simp only [Except.ok.injEq, Prod.mk.injEq] at hst; obtain ⟨rfl, _⟩ := hst
      exact consume_si hs hc
  | drain l =>
    simp only [step] at hst
    split at hst
    · split at hst
      all_goals
        simp only [Except.ok.injEq, Prod.mk.injEq] at hst; obtain ⟨rfl, _⟩ := hst
        first | exact hs | exact hs.rel (SRel.of_conns rfl rfl)
    · simp only [Except.ok.injEq, Prod.mk.injEq] at hst; obtain ⟨rfl, _⟩ := hst; exact hs

theorem SI.init (cfg : Config) : SI (init cfg) :=
  ⟨fun id c h => by simp [getConn, Router.init, Slab.get?] at h, fun id c h => by simp [getConn, Router.init, Slab.get?] at h⟩

/-- the scheduler-status facts hold in every reachable state -/
theorem SI.reachable {cfg : Config} {s : RState} (hr : Reachable cfg s) : SI s := by
  have key : Reachable cfg s ∧ SI s := by
    refine hr.induction (fun s => Reachable cfg s ∧ SI s) ⟨reachable_init cfg, SI.init cfg⟩ ?_
    intro s o op s' out ⟨hrs, hs⟩ hstep
    exact ⟨hrs.step hstep, step_si ((Inv3.reachable hrs).oracle o) (hs.rel (SRel.of_conns rfl rfl)) hstep⟩
  exact key.2

end Router
