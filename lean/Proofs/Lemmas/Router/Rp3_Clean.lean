/-
C08 — `Waiters::remove` / `DataLog::clean`: the requests collected when a connection ends are
exactly the ones it had parked (up to order), other connections' waiters stay.
-/
import Proofs.Lemmas.Router.Rp3_Waiters
namespace Router
namespace Rp3

theorem perm_cons_eraseIdx {α} (l : List α) (i : Nat) (h : i < l.length) : l.Perm (l[i] :: l.eraseIdx i) := by
  have e1 : l = l.take i ++ l[i] :: l.drop (i + 1) := by
    conv => lhs; rw [← List.take_append_drop i l]
    rw [List.drop_eq_getElem_cons h]
  have e2 : l.eraseIdx i = l.take i ++ l.drop (i + 1) := List.eraseIdx_eq_take_drop_succ l i
  rw [e2]
  conv => lhs; rw [e1]
  exact List.perm_middle

theorem swapRemoveBack_perm {α} (l : List α) (i : Nat) (h : i < l.length) :
    (swapRemoveBack l i).Perm (l.eraseIdx i) := by
  unfold swapRemoveBack
  have hne : l ≠ [] := by intro e; rw [e] at h; simp at h
  have hlast : l.getLast? = some (l.getLast hne) := List.getLast?_eq_some_getLast hne
  rw [hlast]
  simp only []
  have hl : l = l.dropLast ++ [l.getLast hne] := (List.dropLast_concat_getLast hne).symm
  by_cases hi : i + 1 = l.length
  · simp only [hi, if_true]
    have : i = l.length - 1 := by omega
    rw [this, List.eraseIdx_length_sub_one]
  · simp only [hi, if_false]
    have hil : i < l.dropLast.length := by simp; omega
    generalize hd : l.dropLast = init at hl hil
    generalize l.getLast hne = last at hl
    rw [hl]
    rw [List.set_append_left _ _ hil, List.dropLast_concat, List.eraseIdx_append_of_lt_length hil]
    rw [List.set_eq_take_append_cons_drop, if_pos hil, List.eraseIdx_eq_take_drop_succ]
    exact List.perm_middle.trans (List.perm_append_comm (l₁ := [last])).symm.symm

/-- `Waiters::remove(id)` (with enough fuel, as `DataLog::clean` gives it): what is left is the
    waiters of other connections, what is collected is this connection's parked requests — both
    up to order (`swap_remove_back` reorders) -/
theorem waitersRemove_spec (id : Nat) : ∀ (fuel : Nat) (ws : List (Nat × DataRequest)) (acc : List DataRequest),
    (ws.filter (fun w => w.1 == id)).length ≤ fuel →
    (waitersRemove fuel ws id acc).1.Perm (ws.filter (fun w => !(w.1 == id))) ∧
    (waitersRemove fuel ws id acc).2.Perm (acc ++ (ws.filter (fun w => w.1 == id)).map (·.2))
  | 0, ws, acc, h => by
    have hnil : ws.filter (fun w => w.1 == id) = [] := List.eq_nil_of_length_eq_zero (by omega)
    have hall : ∀ w ∈ ws, ¬ (w.1 == id) = true := by
      intro w hw hm
      have : w ∈ ws.filter (fun w => w.1 == id) := List.mem_filter.mpr ⟨hw, hm⟩
      rw [hnil] at this; cases this
    simp only [waitersRemove, hnil, List.map_nil, List.append_nil]
    refine ⟨?_, List.Perm.refl _⟩
    rw [List.filter_eq_self.mpr]
    intro w hw; simpa using hall w hw
  | fuel + 1, ws, acc, h => by
    simp only [waitersRemove]
    cases hf : ws.findIdx? (fun w => w.1 == id) with
    | none =>
      have hall : ∀ w ∈ ws, ¬ (w.1 == id) = true := by
        intro w hw hm
        have := List.findIdx?_eq_none_iff.mp hf w hw
        simp [hm] at this
      simp only []
      have hnil : ws.filter (fun w => w.1 == id) = [] := by
        rw [List.filter_eq_nil_iff]; exact hall
      rw [hnil, List.map_nil, List.append_nil]
      refine ⟨?_, List.Perm.refl _⟩
      rw [List.filter_eq_self.mpr]
      intro w hw; simpa using hall w hw
    | some i =>
      simp only []
      obtain ⟨hlt, hm, _⟩ := List.findIdx?_eq_some_iff_getElem.mp hf
      have hget : ws[i]? = some ws[i] := List.getElem?_eq_getElem hlt
      rw [hget]
      simp only []
      have hp1 := swapRemoveBack_perm ws i hlt
      have hp2 := perm_cons_eraseIdx ws i hlt
      -- counting
      have hcnt : (ws.filter (fun w => w.1 == id)).length =
          ((swapRemoveBack ws i).filter (fun w => w.1 == id)).length + 1 := by
        have := (hp2.filter (fun w => w.1 == id)).length_eq
        rw [List.filter_cons_of_pos (p := fun w : Nat × DataRequest => w.1 == id) (a := ws[i]) hm] at this
        rw [this, (hp1.filter _).length_eq]; rfl
      obtain ⟨ih1, ih2⟩ := waitersRemove_spec id fuel (swapRemoveBack ws i) (acc ++ [ws[i].2]) (by omega)
      constructor
      · refine ih1.trans ((hp1.filter _).trans ?_)
        have := hp2.filter (fun w => !(w.1 == id))
        rw [List.filter_cons_of_neg (p := fun w : Nat × DataRequest => !(w.1 == id)) (a := ws[i]) (by simp [hm])] at this
        exact this.symm
      · refine ih2.trans ?_
        have h3 := ((hp1.filter (fun w => w.1 == id)).map (·.2))
        have h4 := (hp2.filter (fun w => w.1 == id)).map (·.2)
        rw [List.filter_cons_of_pos (p := fun w : Nat × DataRequest => w.1 == id) (a := ws[i]) hm, List.map_cons] at h4
        rw [List.append_assoc]
        refine List.Perm.append_left acc ?_
        simp only [List.singleton_append]
        exact (List.Perm.cons _ h3).trans h4.symm

theorem flatten_map_perm {α β} (f g : α → List β) : ∀ (l : List α), (∀ a ∈ l, (f a).Perm (g a)) →
    (l.map f).flatten.Perm (l.map g).flatten
  | [], _ => List.Perm.refl _
  | a :: l, h => by
    simp only [List.map_cons, List.flatten_cons]
    exact (h a (by simp)).append (flatten_map_perm f g l (fun b hb => h b (by simp [hb])))

/-- `DataLog::clean(id)`: collects exactly the requests of connection `id` that were parked on any
    filter (up to order) and leaves the other connections' waiters, the filters and the logs -/
theorem datalogClean_collects (d : DataLog) (id : Nat) :
    (datalogClean d id).2.Perm
      ((d.native.map (fun fd => (fd.waiters.filter (fun w => w.1 == id)).map (·.2))).flatten) ∧
    (∀ (i : Nat) (fd : FilterData), d.native[i]? = some fd →
      ∃ fd', (datalogClean d id).1.native[i]? = some fd' ∧ fd'.filter = fd.filter ∧ fd'.log = fd.log ∧
        fd'.waiters.Perm (fd.waiters.filter (fun w => !(w.1 == id)))) := by
  rw [datalogClean_eq]
  constructor
  · apply flatten_map_perm
    intro fd _
    have := (waitersRemove_spec id (fd.waiters.length + 1) fd.waiters [] (by
      have := List.length_filter_le (fun w : Nat × DataRequest => w.1 == id) fd.waiters; omega)).2
    simpa using this
  · intro i fd hfd
    refine ⟨{ fd with waiters := (waitersRemove (fd.waiters.length + 1) fd.waiters id []).1 }, by simp [hfd], rfl, rfl, ?_⟩
    exact (waitersRemove_spec id (fd.waiters.length + 1) fd.waiters [] (by
      have := List.length_filter_le (fun w : Nat × DataRequest => w.1 == id) fd.waiters; omega)).1
end Rp3
end Router
