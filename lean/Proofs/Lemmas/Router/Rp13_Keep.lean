/-
C14 (isolation): relation `EStep` — every connection stays, with its client id and exactly its
subscriptions (the steps of `consume`, of the wake-ups, of the events that carry no packets).
Frames with the argument lists of `MStep` (Rp10_Members), so that the pass of Rp10_Steps carries over.
-/
import Proofs.Lemmas.Router.Rp12_Resume
namespace Router

/-- every connection stays, with its client id and exactly its subscriptions -/
def EConn (s s' : RState) : Prop :=
  ∀ id c, getConn s id = some c → ∃ c', getConn s' id = some c' ∧ c'.clientId = c.clientId ∧
    c'.subscriptions = c.subscriptions

theorem EConn.refl (s : RState) : EConn s s := fun _ c h => ⟨c, h, rfl, rfl⟩
theorem EConn.trans {a b c : RState} (h1 : EConn a b) (h2 : EConn b c) : EConn a c := fun id ca ha => by
  obtain ⟨cb, hb, e1, s1⟩ := h1 id ca ha
  obtain ⟨cc, hc, e2, s2⟩ := h2 id cb hb
  exact ⟨cc, hc, e2.trans e1, s2.trans s1⟩

theorem EConn.of_conns {s s' : RState} (hc : s'.conns = s.conns) : EConn s s' :=
  fun id c h => ⟨c, by unfold getConn at h ⊢; rw [hc]; exact h, rfl, rfl⟩

theorem EConn.of_setc {s s' : RState} {id : Nat} {c c' : Conn} (hc : getConn s id = some c)
    (hconns : s'.conns = s.conns.set id c') (hcid : c'.clientId = c.clientId)
    (hsubs : c'.subscriptions = c.subscriptions) : EConn s s' := by
  have hget : ∀ j, getConn s' j = if j = id then some c' else getConn s j := fun j => by
    unfold getConn; rw [hconns]; exact Slab.get?_set_live hc j c'
  intro j d hd
  rw [hget]
  by_cases hj : j = id
  · subst hj; rw [hc] at hd; cases hd; exact ⟨c', by simp, hcid, hsubs⟩
  · simp only [hj, if_false]; exact ⟨d, hd, rfl, rfl⟩

structure EStep (s s' : RState) : Prop where
  conn : EConn s s'
  shared : s'.shared = s.shared

theorem EStep.refl (s : RState) : EStep s s := ⟨EConn.refl s, rfl⟩
theorem EStep.trans {a b c : RState} (h1 : EStep a b) (h2 : EStep b c) : EStep a c :=
  ⟨h1.conn.trans h2.conn, h2.shared.trans h1.shared⟩

theorem EStep.of_conns {s s' : RState} (hc : s'.conns = s.conns) (_hnat : s'.datalog.native = s.datalog.native)
    (_hfi : s'.datalog.filterIndexes = s.datalog.filterIndexes) (hsh : s'.shared = s.shared)
    (_htm : s'.turnMoved = s.turnMoved) : EStep s s' := ⟨EConn.of_conns hc, hsh⟩

theorem EStep.of_setc {s s' : RState} {id : Nat} {c c' : Conn} (hc : getConn s id = some c)
    (hconns : s'.conns = s.conns.set id c') (hcid : c'.clientId = c.clientId)
    (hsubs : c'.subscriptions = c.subscriptions)
    (_hfi : s'.datalog.filterIndexes = s.datalog.filterIndexes) (hsh : s'.shared = s.shared)
    (_htm : s'.turnMoved = s.turnMoved) : EStep s s' :=
  ⟨EConn.of_setc hc hconns hcid hsubs, hsh⟩

theorem EStep.of_set {s s' : RState} {id : Nat} {c c' : Conn} (hc : getConn s id = some c)
    (hconns : s'.conns = s.conns.set id c') (_hr : c'.tracker.requests = c.tracker.requests) (hcid : c'.clientId = c.clientId)
    (hsubs : c'.subscriptions = c.subscriptions)
    (hfi : s'.datalog.filterIndexes = s.datalog.filterIndexes) (hsh : s'.shared = s.shared)
    (htm : s'.turnMoved = s.turnMoved) : EStep s s' := EStep.of_setc hc hconns hcid hsubs hfi hsh htm

end Router
