/-
C17 — history level: the log offsets forwarded through a shared group over a stretch of a run
(`GroupRun`: group sweeps by any members, interleaved with steps that leave the group's cursor
alone) are strictly increasing, hence no entry is forwarded twice.
-/
import Proofs.Lemmas.Router.Rp3_Unique
namespace Router
namespace Rp3
open CommitLog (Rep logC Issued cursorAbs U64)

/-- the log offset a notification forwards (none for acks, retained replays, …) -/
def Notif.logOffset : Notif → Option Nat
  | .forward _ (some c) => some c.2
  | _ => none

/-- the log offsets of the forwards sitting in a link's outgoing buffer, in order -/
def linkOffsets (s : RState) (l : Nat) : List Nat := (getLink s l).obuf.filterMap Notif.logOffset

theorem logOffset_noPkid (n : Notif) : Notif.logOffset (Notif.noPkid n) = Notif.logOffset n := by
  cases n with
  | forward p c => cases c <;> rfl
  | _ => rfl

theorem filterMap_logOffset_noPkid (l : List Notif) :
    (l.map Notif.noPkid).filterMap Notif.logOffset = l.filterMap Notif.logOffset := by
  induction l with
  | nil => rfl
  | cons n r ih => simp only [List.map_cons, List.filterMap_cons, logOffset_noPkid, ih]

/-- the log offsets among the notifications of a sweep: those of the entries read -/
theorem sweepNotifs_offsets (c : Conn) (req : DataRequest) (rp : List (Pub × Option Cursor))
    (r : List (Pub × Cursor) × CLog.Pos) (hnone : ∀ pc ∈ rp, pc.2 = none) :
    (sweepNotifs c req (sweepPubs rp r)).2.filterMap Notif.logOffset = r.1.map (·.2.2) := by
  rw [← filterMap_logOffset_noPkid, sweepNotifs_noPkid, List.filterMap_map]
  unfold sweepPubs
  rw [List.filterMap_append]
  have h1 : rp.filterMap (Notif.logOffset ∘ fwdOf req.qos (sweepAlias c req.filter).2
      ((aliasesFor c req.filter).bind (fun b => alookup req.filter b.aliases)).isSome (alookup req.filter c.subscriptionIds)) = [] := by
    rw [List.filterMap_eq_nil_iff]
    intro pc hpc
    have := hnone pc hpc
    obtain ⟨p, cur⟩ := pc
    simp only at this; subst this; rfl
  rw [h1, List.nil_append, List.filterMap_map]
  induction r.1 with
  | nil => rfl
  | cons e es ih => simp only [List.filterMap_cons, List.map_cons]; rw [ih]; rfl


theorem inflightFull_noop {s s' : RState} {id : Nat} {req req' : DataRequest}
    (h : forwardDeviceData s id req = .ok (s', req', .inflightFull)) : s' = s := by
  cases hc : getConn s id with
  | none => rw [forwardDeviceData_eq, hc] at h; simp at h
  | some c =>
    rcases forwardDeviceData_cases hc h with ⟨_, _, e, _⟩ | ⟨_, s1, rp, slots', hr, hrd⟩
    · exact e
    · obtain ⟨fd, _, hcase⟩ := sweepRead_cases hrd
      rcases hcase with ⟨_, _, _, e⟩ | ⟨_, _, _, _, e⟩ | ⟨_, _, hp⟩
      · split at e <;> cases e
      · cases e
      · obtain ⟨_, s2, _, hfin⟩ := sweepPush_spec hp
        rcases hfin with ⟨_, e, _⟩ | ⟨_, e, _⟩
        · cases e
        · split at e <;> cases e

theorem linkOffsets_same_of_oracle {s s' : RState} (h : s' = { s with oracle := s'.oracle }) (l : Nat) :
    linkOffsets s' l = linkOffsets s l := by
  rw [h]; rfl

/-- what a sweep through group `gname` appends to its link's forwarded offsets, and what it does
    to the group's cursor -/
theorem group_sweep_offsets {s s' : RState} {id : Nat} {c : Conn} {req req' : DataRequest} {st : ConsumeStatus}
    {gname : String} {g : SharedGroup}
    (hc : getConn s id = some c) (hgn : req.group = some gname) (hg : alookup gname s.shared = some g)
    (h : forwardDeviceData s id req = .ok (s', req', st)) :
    s'.datalog = s.datalog ∧
    ((linkOffsets s' c.link = linkOffsets s c.link ∧ alookup gname s'.shared = some g) ∨
     (∃ (n : Nat) (fd : FilterData), s.datalog.native[req.filterIdx]? = some fd ∧
        n ≤ MAX_INFLIGHT + s.config.maxOutgoingPacketCount ∧
        linkOffsets s' c.link = linkOffsets s c.link ++ readOffsets fd g.cursor n ∧
        ∃ g', alookup gname s'.shared = some g' ∧ g'.cursor = (posNext (fd.log.readv g.cursor n).2).1)) := by
  by_cases hst : st = .inflightFull
  · subst hst
    have := inflightFull_noop h
    subst this
    exact ⟨rfl, Or.inl ⟨rfl, hg⟩⟩
  by_cases hturn : some c.clientId = g.current
  · obtain ⟨s1, rp, n, fd, hr, hfd, hreq, hobuf, _, hdl, hemp, hne⟩ := sweep_shared_turn hc hgn hg hturn h hst
    obtain ⟨_, hlen, hnone, _⟩ := sweepRetained_spec hr
    refine ⟨hdl, ?_⟩
    have hoff : linkOffsets s' c.link = linkOffsets s c.link ++ readOffsets fd g.cursor n := by
      unfold linkOffsets
      rw [hobuf, List.filterMap_append, List.filterMap_append, sweepNotifs_offsets c req' rp _ hnone]
      have : List.filterMap Notif.logOffset (if st = .bufferFull then [Notif.unschedule] else []) = [] := by
        split <;> rfl
      rw [this, List.append_nil]; rfl
    by_cases hp : sweepPubs rp (fd.log.readv g.cursor n) = []
    · left
      have hent : readOffsets fd g.cursor n = [] := by
        unfold sweepPubs at hp
        have := (List.append_eq_nil_iff.mp hp).2
        unfold readOffsets
        have : (fd.log.readv g.cursor n).1 = [] := by simpa using this
        rw [this]; rfl
      refine ⟨by rw [hoff, hent, List.append_nil], ?_⟩
      rw [(hemp hp).1]; exact hg
    · right
      obtain ⟨⟨g', hl, hcur, _⟩, _, _⟩ := hne hp
      refine ⟨n, fd, hfd, ?_, hoff, g', hl, hcur⟩
      have : sweepSlots s c { req with cursor := g.cursor } (some g) ≤ MAX_INFLIGHT + s.config.maxOutgoingPacketCount := by
        unfold sweepSlots Outgoing.freeSlots MAX_INFLIGHT
        simp only []
        split <;> (try split) <;> omega
      omega
  · obtain ⟨ho, _⟩ := sweep_shared_skip hc hgn hg hturn h
    refine ⟨by rw [ho], Or.inl ⟨linkOffsets_same_of_oracle ho _, by rw [ho]; exact hg⟩⟩


/-- what the history-level theorem needs at a point of the run: the group exists, its cursor `cur`
    is an issued, not yet evicted cursor of the filter log, which is well formed -/
def GroupAt (gname : String) (idx : Nat) (s : RState) (cur : Cursor) : Prop :=
  ∃ g fd hist, alookup gname s.shared = some g ∧ g.cursor = cur ∧ s.datalog.native[idx]? = some fd ∧
    Rep (logC fd.log) hist ∧ Issued (logC fd.log) cur ∧ (logC fd.log).head ≤ cur.1 ∧
    hist.length + (MAX_INFLIGHT + s.config.maxOutgoingPacketCount) < U64

/-- a stretch of a run seen from group `gname` (reading filter log `idx`): sweeps of requests of
    the group by any connections — each contributing the log offsets it appended to its link's
    buffer — interleaved with arbitrary other steps that keep the group's cursor where it is
    (and its log segment retained) -/
inductive GroupRun (gname : String) (idx : Nat) : RState → List Nat → RState → Prop
  | done (s : RState) : GroupRun gname idx s [] s
  | sweep {s s1 s2 : RState} {id : Nat} {c : Conn} {req req' : DataRequest} {st : ConsumeStatus}
      {offs more : List Nat} :
      getConn s id = some c → req.group = some gname → req.filterIdx = idx →
      forwardDeviceData s id req = .ok (s1, req', st) →
      linkOffsets s1 c.link = linkOffsets s c.link ++ offs →
      GroupRun gname idx s1 more s2 → GroupRun gname idx s (offs ++ more) s2
  | other {s s1 s2 : RState} {more : List Nat} :
      (∀ cur, GroupAt gname idx s cur → GroupAt gname idx s1 cur) →
      GroupRun gname idx s1 more s2 → GroupRun gname idx s more s2

theorem pairwise_range' (a n : Nat) : (List.range' a n).Pairwise (· < ·) := by
  induction n generalizing a with
  | zero => simp
  | succ k ih =>
    rw [List.range'_succ]
    refine List.Pairwise.cons ?_ (ih (a + 1))
    intro b hb
    simp only [List.mem_range'_1] at hb
    omega

/-- C17 history level: over any such stretch, the log offsets forwarded through the group, in the
    order they were pushed (whoever the member), are strictly increasing -/
theorem groupRun_increasing {gname : String} {idx : Nat} {s s2 : RState} {offs : List Nat}
    (hrun : GroupRun gname idx s offs s2) : ∀ {cur : Cursor}, GroupAt gname idx s cur →
    offs.Pairwise (· < ·) ∧ (∀ o ∈ offs, cur.2 ≤ o) ∧
    ∃ cur2, GroupAt gname idx s2 cur2 ∧ cur.2 ≤ cur2.2 ∧ ∀ o ∈ offs, o < cur2.2 := by
  induction hrun with
  | done s => intro cur hat; exact ⟨List.Pairwise.nil, by simp, cur, hat, Nat.le_refl _, by simp⟩
  | other hq _ ih => intro cur hat; exact ih (hq cur hat)
  | @sweep s s1 s2 id c req req' st offs more hc hgn hidx h hoffs _ ih =>
    intro cur hat
    obtain ⟨g, fd, hist, hg, hcur, hfd, hrep, hiss, hfresh, hU⟩ := hat
    subst hcur
    obtain ⟨hdl, hcase⟩ := group_sweep_offsets hc hgn hg h
    have hcfg : s1.config = s.config := by
      have := forwardDeviceData_dkey h
      unfold dkey at this
      simp only [Prod.mk.injEq] at this
      exact this.2.2.2.2
    rcases hcase with ⟨hsame, hg1⟩ | ⟨n, fd', hfd', hn, hoff', g', hg', hcur'⟩
    · have hnil : offs = [] := by
        rw [hsame] at hoffs
        have h0 : linkOffsets s c.link ++ [] = linkOffsets s c.link ++ offs := by rw [List.append_nil]; exact hoffs
        exact (List.append_cancel_left h0).symm
      subst hnil
      have hat1 : GroupAt gname idx s1 g.cursor :=
        ⟨g, fd, hist, hg1, rfl, by rw [hdl]; exact hfd, hrep, hiss, hfresh, by rw [hcfg]; exact hU⟩
      simpa using ih hat1
    · rw [hidx] at hfd'
      rw [hfd] at hfd'
      cases hfd'
      have hoe : offs = readOffsets fd g.cursor n := by
        rw [hoff'] at hoffs
        exact (List.append_cancel_left hoffs).symm
      obtain ⟨e1, e2, e3, e4, _⟩ := clog_readv_spec fd.log hist hrep g.cursor n hiss (by omega)
      obtain ⟨_, v2, _⟩ := clog_readv_entries fd.log hist hrep g.cursor n hiss (by omega)
      have hca : cursorAbs (logC fd.log) g.cursor = g.cursor.2 := by
        unfold cursorAbs
        have : ¬ g.cursor.1 < (logC fd.log).head := by omega
        simp [this]
      have hro : readOffsets fd g.cursor n = List.range' g.cursor.2 (readOffsets fd g.cursor n).length := by
        unfold readOffsets; rw [List.length_map, ← hca]; exact v2
      have hlen : (readOffsets fd g.cursor n).length = (CommitLog.expectedRead (logC fd.log) g.cursor n).length := by
        unfold readOffsets; rw [List.length_map, e1]
      have hat1 : GroupAt gname idx s1 g'.cursor :=
        ⟨g', fd, hist, hg', rfl, by rw [hdl]; exact hfd, hrep, by rw [hcur']; exact e3,
          by rw [hcur']; exact e4, by rw [hcfg]; exact hU⟩
      obtain ⟨p1, p2, cur2, hat2, p3, p4⟩ := ih hat1
      have hc2 : g'.cursor.2 = g.cursor.2 + (readOffsets fd g.cursor n).length := by
        rw [hcur', e2, hca, hlen]
      subst hoe
      refine ⟨?_, ?_, cur2, hat2, by omega, ?_⟩
      · rw [List.pairwise_append]
        refine ⟨by rw [hro]; exact pairwise_range' _ _, p1, ?_⟩
        intro a ha b hb
        rw [hro] at ha
        simp only [List.mem_range'_1] at ha
        have := p2 b hb
        omega
      · intro o ho
        rcases List.mem_append.mp ho with ho | ho
        · rw [hro] at ho; simp only [List.mem_range'_1] at ho; omega
        · have := p2 o ho; omega
      · intro o ho
        rcases List.mem_append.mp ho with ho | ho
        · rw [hro] at ho; simp only [List.mem_range'_1] at ho; omega
        · exact p4 o ho

end Rp3
end Router
