/-
`ParkedAtEnd` and the rest of `QI` through `consume`: a request is parked only when the sweep
reported `FilterCaughtup`, and then (non-shared request, `max_outgoing_packet_count > 0`) its cursor
is the `Done` position of the read — the end of the log.
-/
import Proofs.Lemmas.Router.Rp6_Events
namespace Router
open Router.Rp3
open CommitLog (Rep logC Issued U64)

/-- the request a sweep hands back is the request it was given, cursor and replay flag aside -/
theorem forwardDeviceData_fields {s s' : RState} {id : Nat} {c : Conn} {req req' : DataRequest} {st : ConsumeStatus}
    (hc : getConn s id = some c) (h : forwardDeviceData s id req = .ok (s', req', st)) :
    req'.filter = req.filter ∧ req'.group = req.group ∧ req'.filterIdx = req.filterIdx := by
  obtain ⟨a1, _, a3, a4, _⟩ := adoptCursor_fields req (reqGroup s req)
  rcases forwardDeviceData_cases hc h with ⟨_, _, _, e, _⟩ | ⟨_, s1, rp, slots', _, hrd⟩
  · rw [e]; exact ⟨a3, a4, a1⟩
  · obtain ⟨fd, _, hcase⟩ := sweepRead_cases hrd
    rcases hcase with ⟨_, _, e, _⟩ | ⟨_, _, _, e, _⟩ | ⟨_, _, hp⟩
    · rw [e]; exact ⟨a3, a4, a1⟩
    · rw [e]; exact ⟨a3, a4, a1⟩
    · obtain ⟨e, _⟩ := sweepPush_spec hp
      rw [e]; exact ⟨a3, a4, a1⟩

/-- a sweep of a non-shared request that ends with `FilterCaughtup` hands back the end of the log -/
theorem sweep_caughtup_at_end {s s1 : RState} {id : Nat} {c : Conn} {req req' : DataRequest}
    (hc : getConn s id = some c) (hplain : req.group = none)
    (h : forwardDeviceData s id req = .ok (s1, req', .filterCaughtup))
    (hpos : 0 < s.config.maxOutgoingPacketCount)
    {fd : FilterData} {hist : List Pub} (hfd : s.datalog.native[req.filterIdx]? = some fd)
    (hrep : Rep (logC fd.log) hist) (hiss : Issued (logC fd.log) req.cursor)
    (hU : hist.length + (MAX_INFLIGHT + s.config.maxOutgoingPacketCount) < U64) :
    AtEnd fd req'.cursor := by
  have hg : reqGroup s req = none := by unfold reqGroup; rw [hplain]; rfl
  obtain ⟨s0, rp, n, fd', hr, hfd', hreq, _, _, _, _, hcase, hnf⟩ := sweep_plain hc hg h (by simp)
  rw [hfd] at hfd'; cases hfd'
  obtain ⟨_, hlen, _, _⟩ := sweepRetained_spec hr
  have hslots : sweepSlots s c req none ≤ MAX_INFLIGHT + s.config.maxOutgoingPacketCount := by
    unfold sweepSlots Outgoing.freeSlots
    simp only []
    split <;> omega
  have hn : n ≤ MAX_INFLIGHT + s.config.maxOutgoingPacketCount := by omega
  have hdone : (Rp3.posNext (fd.log.readv req.cursor n).2).2 = true := by
    rcases hcase with e | ⟨_, hor⟩ | ⟨e, _, _⟩
    · cases e
    · rcases hor with hemp | hd
      · unfold sweepPubs at hemp
        obtain ⟨h1, h2⟩ := List.append_eq_nil_iff.mp hemp
        have hent : (fd.log.readv req.cursor n).1 = [] := by simpa using h2
        have hnpos : 0 < n := by
          rw [h1] at hlen
          simp only [List.length_nil, Nat.zero_add] at hlen
          rw [hlen]
          unfold sweepSlots Outgoing.freeSlots
          simp only []
          by_cases hq : req.qos = 0
          · simp [hq, hpos]
          · simp only [ne_eq, hq, not_false_eq_true, if_true]
            have : c.out.freeSlots ≠ 0 := fun e0 => hnf ⟨hq, e0⟩
            unfold Outgoing.freeSlots at this; omega
        exact clog_readv_empty_done fd.log hist hrep req.cursor n hiss (by omega) hnpos hent
      · exact hd
    · cases e
  obtain ⟨_, e2, _, e4, e5⟩ := clog_readv_spec fd.log hist hrep req.cursor n hiss (by omega)
  have hcur : req'.cursor = (Rp3.posNext (fd.log.readv req.cursor n).2).1 := by rw [hreq]; rfl
  unfold AtEnd
  rw [hcur, hrep.nextAbs_eq]
  exact ⟨e4, by rw [e2]; exact e5.mp hdone⟩

/-- `QI` while `consume` holds the requests `L` of connection `o` outside the state -/
structure QIX (s : RState) (o : Nat) (L : List DataRequest) : Prop where
  cover : ∀ j, ∀ f ∈ subsOf s j, ∃ r, (Own s j r ∨ (j = o ∧ r ∈ L)) ∧ r.filter = f
  gt : ∀ j r, Own s j r → GT r
  gtL : ∀ r ∈ L, GT r
  pe : PE s
  grv : ∀ p ∈ s.graveyard, ∀ ss, p.2 = some ss →
    (∀ f ∈ ss.subscriptions, ∃ r ∈ ss.tracker.requests, r.filter = f) ∧ ∀ r ∈ ss.tracker.requests, GT r

theorem QIX.oeq {s s' : RState} {o : Nat} {L : List DataRequest} (h : QIX s o L) (m : OEq s s') : QIX s' o L := by
  refine ⟨fun j f hf => ?_, fun j r hr => h.gt j r ((m.own j r).mp hr), h.gtL, h.pe.wsub m.wsub, by rw [m.grv]; exact h.grv⟩
  rw [m.subs] at hf
  obtain ⟨r, hr, e⟩ := h.cover j f hf
  exact ⟨r, hr.imp (m.own j r).mpr id, e⟩

theorem QIX.perm {s : RState} {o : Nat} {L L' : List DataRequest} (h : QIX s o L) (hp : L'.Perm L) : QIX s o L' :=
  ⟨fun j f hf => by
    obtain ⟨r, hr, e⟩ := h.cover j f hf
    exact ⟨r, hr.imp id (fun ⟨a, b⟩ => ⟨a, hp.mem_iff.mpr b⟩), e⟩,
   h.gt, fun r hr => h.gtL r (hp.mem_iff.mp hr), h.pe, h.grv⟩

/-- the requests held outside the state join the tracker -/
theorem QIX.trackv {s s' : RState} {o : Nat} {L : List DataRequest} (h : QIX s o L) (ht : trackv s o L = .ok s') : QI s' := by
  obtain ⟨a, n⟩ := trackv_add ht
  refine ⟨fun j f hf => ?_, fun j r hr => ?_, h.pe.wsub (WSub.of_native n), by rw [a.grv]; exact h.grv⟩
  · rw [a.subs] at hf
    obtain ⟨r, hr, e⟩ := h.cover j f hf
    exact ⟨r, (a.own j r).mpr hr, e⟩
  · rcases (a.own j r).mp hr with hr | ⟨_, hr⟩
    · exact h.gt j r hr
    · exact h.gtL r hr

theorem PE.park {s s' : RState} {id : Nat} {r0 : DataRequest} (h : PE s) (hp : park s id r0 = .ok s')
    (hend : r0.group = none → ∀ fd, s.datalog.native[r0.filterIdx]? = some fd → AtEnd fd r0.cursor) : PE s' := by
  obtain ⟨_, fd, hfd, hnat⟩ := park_add hp
  intro i fd' hfd' w hw hg
  rw [hnat, List.getElem?_set] at hfd'
  split at hfd'
  · split at hfd'
    · simp only [Option.some.injEq] at hfd'; subst hfd'
      rename_i e _; subst e
      rcases List.mem_append.mp hw with hw | hw
      · exact h _ fd hfd w hw hg
      · simp only [List.mem_singleton] at hw; subst hw
        exact hend hg fd hfd
    · simp at hfd'
  · exact h i fd' hfd' w hw hg

/-- the request loop of `consume` -/
theorem consumeLoop_qi {id : Nat} : ∀ (fuel : Nat) {s s' : RState} {requests skipped : List DataRequest},
    DLInv s → NoOverflow s → CS s → 0 < s.config.maxOutgoingPacketCount →
    (∀ r ∈ requests ++ skipped, ReqOK s.datalog r) → QIX s id (requests ++ skipped) →
    consumeLoop s id fuel requests skipped = .ok s' → QI s'
  | 0, s, s', requests, skipped, _, _, _, _, _, hq, hc => by
    simp only [consumeLoop] at hc
    exact hq.trackv hc
  | fuel + 1, s, s', requests, skipped, hi, hno, h, hpos, hl, hq, hc => by
    cases requests with
    | nil =>
      simp only [consumeLoop] at hc
      split at hc
      · simp at hc
      · rename_i s1 h1
        have a : OEq s s1 := by
          split at h1
          · exact pause_oeq h1
          · simp only [Except.ok.injEq] at h1; subst h1; exact OEq.refl _
        exact ((hq.oeq a).perm (by simp)).trackv hc
    | cons req rest =>
      simp only [consumeLoop] at hc
      split at hc
      · simp at hc
      · rename_i s1 req1 st h1
        obtain ⟨c, hcn⟩ : ∃ c, getConn s id = some c := by
          cases hg : getConn s id with
          | none => rw [Router.forwardDeviceData_eq, hg] at h1; simp at h1
          | some c => exact ⟨c, rfl⟩
        obtain ⟨hs1, hr1⟩ := forwardDeviceData_cs hi h hno (hl req (by simp)) h1
        obtain ⟨ef, eg, ei⟩ := forwardDeviceData_fields hcn h1
        have hk1 : dkey s1 = dkey s := forwardDeviceData_dkey h1
        have hd1 : LogMono s.datalog s1.datalog := by
          simp only [dkey, Prod.mk.injEq] at hk1
          exact LogMono.of_eq hk1.2.1 hk1.2.2.1
        obtain ⟨tm, etm⟩ := noteTurn_eq s s1 req1
        have hk2 : dkey (noteTurn s s1 req1) = dkey s := (noteTurn_dkey s s1 req1).trans hk1
        have hi2 : DLInv (noteTurn s s1 req1) := hi.of_dkey hk2
        have hno2 : NoOverflow (noteTurn s s1 req1) := hno.of_dkey hk2
        have hs2 : CS (noteTurn s s1 req1) := hs1.step0 (noteTurn_cstep s s1 req1)
        have hd2 : (noteTurn s s1 req1).datalog = s1.datalog := by rw [etm]
        have hpos2 : 0 < (noteTurn s s1 req1).config.maxOutgoingPacketCount := by
          have : (noteTurn s s1 req1).config = s.config := by
            simp only [dkey, Prod.mk.injEq] at hk2; exact hk2.2.2.2.2
          rw [this]; exact hpos
        have hl2 : ∀ r ∈ rest ++ skipped, ReqOK (noteTurn s s1 req1).datalog r := fun r hr => by
          rw [hd2]; exact (hl r (by simp [List.mem_append.mp hr])).mono hd1
        have hr2 : ReqOK (noteTurn s s1 req1).datalog req1 := by rw [hd2]; exact hr1
        have m2 : OEq s (noteTurn s s1 req1) := (forwardDeviceData_oeq h1).trans (noteTurn_oeq s s1 req1)
        have gt1 : GT req1 := by
          have := hq.gtL req (by simp)
          unfold GT at this ⊢; rw [ef, eg]; exact this
        -- the invariant with the swept request in place of the old one
        have hq2 : QIX (noteTurn s s1 req1) id (req1 :: rest ++ skipped) := by
          have hq' := hq.oeq m2
          refine ⟨fun j f hf => ?_, hq'.gt, fun r hr => ?_, hq'.pe, hq'.grv⟩
          · obtain ⟨r, hr, e⟩ := hq'.cover j f hf
            rcases hr with hr | ⟨hj, hr⟩
            · exact ⟨r, .inl hr, e⟩
            · simp only [List.cons_append, List.mem_cons] at hr
              rcases hr with rfl | hr
              · exact ⟨req1, .inr ⟨hj, by simp⟩, ef.trans e⟩
              · exact ⟨r, .inr ⟨hj, by simp [hr]⟩, e⟩
          · simp only [List.cons_append, List.mem_cons] at hr
            rcases hr with rfl | hr
            · exact gt1
            · exact hq.gtL r (by simp [hr])
        split at hc
        · split at hc
          · simp at hc
          · rename_i s3 h3
            exact ((hq2.oeq (pause_oeq h3)).perm (by perm_count)).trackv hc
        · split at hc
          · simp at hc
          · rename_i s3 h3
            exact ((hq2.oeq (pause_oeq h3)).perm (by perm_count)).trackv hc
        · split at hc
          · simp at hc
          · rename_i s3 h3
            obtain ⟨a3, _⟩ := park_add h3
            have m := park_cstep h3
            have hk3 : dkey s3 = dkey s := (park_dkey h3).trans hk2
            have hpos3 : 0 < s3.config.maxOutgoingPacketCount := by
              have : s3.config = s.config := by simp only [dkey, Prod.mk.injEq] at hk3; exact hk3.2.2.2.2
              rw [this]; exact hpos
            -- the parked request stands at the end of its log
            have hend : req1.group = none → ∀ fd, (noteTurn s s1 req1).datalog.native[req1.filterIdx]? = some fd →
                AtEnd fd req1.cursor := by
              intro hg1 fd hfd
              have hplain : req.group = none := by rw [← eg]; exact hg1
              have hfd0 : s.datalog.native[req.filterIdx]? = some fd := by
                have e1 := sweep_plain hcn (by unfold reqGroup; rw [hplain]; rfl) h1 (by simp)
                obtain ⟨_, _, _, _, _, _, _, _, _, hdl, _⟩ := e1
                rw [← ei, ← hdl, ← hd2]; exact hfd
              obtain ⟨hist, hrep⟩ := hi.logs fd.log (List.mem_map.mpr ⟨fd, List.mem_of_getElem? hfd0, rfl⟩)
              obtain ⟨⟨fd', hfd', hiss⟩, _⟩ := hl req (by simp)
              rw [hfd0] at hfd'; cases hfd'
              exact sweep_caughtup_at_end hcn hplain h1 hpos hfd0 hrep hiss
                (hno fd (List.mem_of_getElem? hfd0) hist hrep)
            refine consumeLoop_qi fuel (hi.of_dkey hk3) (hno.of_dkey hk3)
              (hs2.step m fun r hr => .inr (by subst hr; exact hr2.mono m.mono)) hpos3
              (fun r hr => (hl2 r hr).mono m.mono) ?_ hc
            refine ⟨fun j f hf => ?_, fun j r hr => ?_, fun r hr => hq2.gtL r (by simp [List.mem_append.mp hr]),
              hq2.pe.park h3 hend, by rw [a3.grv]; exact hq2.grv⟩
            · rw [a3.subs] at hf
              obtain ⟨r, hr, e⟩ := hq2.cover j f hf
              rcases hr with hr | ⟨hj, hr⟩
              · exact ⟨r, .inl ((a3.own j r).mpr (.inl hr)), e⟩
              · simp only [List.cons_append, List.mem_cons] at hr
                rcases hr with rfl | hr
                · exact ⟨r, .inl ((a3.own j r).mpr (.inr ⟨hj, rfl⟩)), e⟩
                · exact ⟨r, .inr ⟨hj, hr⟩, e⟩
            · rcases (a3.own j r).mp hr with hr | ⟨_, rfl⟩
              · exact hq2.gt j r hr
              · exact gt1
        · refine consumeLoop_qi fuel hi2 hno2 hs2 hpos2 (fun r hr => ?_) (hq2.perm (by perm_count)) hc
          simp only [List.mem_append, List.mem_singleton] at hr
          rcases hr with (hr | hr) | hr
          · exact hl2 r (List.mem_append_left _ hr)
          · subst hr; exact hr2
          · exact hl2 r (List.mem_append_right _ hr)
        · refine consumeLoop_qi fuel hi2 hno2 hs2 hpos2 (fun r hr => ?_) (hq2.perm (by perm_count)) hc
          simp only [List.mem_append, List.mem_singleton] at hr
          rcases hr with hr | hr | hr
          · exact hl2 r (List.mem_append_left _ hr)
          · exact hl2 r (List.mem_append_right _ hr)
          · subst hr; exact hr2

end Router
