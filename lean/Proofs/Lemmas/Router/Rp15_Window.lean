/-
C08 — window order and the resume point. With `retransmission_map` keeping the LEAST cursor per filter
index, the resume point is at or below every window cursor of the index by definition (tuple order);
for cursors issued by one log and still retained the tuple order is the order of the log offsets.
(`WindowSorted` — the window's offsets of one index increase in window order — is kept as a
definition: it is what the `windowOrderOps` regression of C08 shows to be false in general.)
-/
import Proofs.Lemmas.Router.Rp14_Retained
namespace Router
open CommitLog

/-- the log offsets of the window entries of filter index `idx` that carry a cursor, in window order -/
def idxOffsets (idx : Nat) (w : List (Nat × Nat × Option Cursor)) : List Nat :=
  w.filterMap (fun e => if e.2.1 = idx then e.2.2.map (·.2) else none)

/-- the window entries of filter index `idx` were read at strictly increasing offsets -/
def WindowSorted (idx : Nat) (w : List (Nat × Nat × Option Cursor)) : Prop := (idxOffsets idx w).Pairwise (· < ·)

theorem mem_idxOffsets {idx : Nat} {w : List (Nat × Nat × Option Cursor)} {e : Nat × Nat × Option Cursor} {cur : Cursor}
    (he : e ∈ w) (hi : e.2.1 = idx) (hc : e.2.2 = some cur) : cur.2 ∈ idxOffsets idx w := by
  unfold idxOffsets
  exact List.mem_filterMap.mpr ⟨e, he, by simp [hi, hc]⟩

/-- the least cursor of the index is at or below every window cursor of the index (tuple order) -/
theorem least_le (idx : Nat) (w : List (Nat × Nat × Option Cursor)) (cur0 : Cursor) (h : leastCursor idx w = some cur0) :
    ∀ e ∈ w, e.2.1 = idx → ∀ cur, e.2.2 = some cur → cursorLe cur0 cur :=
  ((leastCursor_some_iff idx cur0 w).mp h).2

/-! ### tuple order = offset order, for retained cursors issued by one log -/

theorem contig_next_le_later {α} {a : Seg α} : ∀ {r : List (Seg α)} {j : Nat} {gb : Seg α},
    Contig (a :: r) → r[j]? = some gb → a.next ≤ gb.abs
  | [], j, gb, _, h => by simp at h
  | b :: r', 0, gb, hc, h => by
    simp only [List.getElem?_cons_zero, Option.some.injEq] at h; subst h
    exact Nat.le_of_eq hc.head_next
  | b :: r', j + 1, gb, hc, h => by
    simp only [List.getElem?_cons_succ] at h
    have := contig_next_le_later (a := b) hc.tail h
    have h1 := hc.head_next
    have : b.abs ≤ b.next := by simp [Seg.next]
    omega

theorem contig_next_le_abs {α} : ∀ {segs : List (Seg α)} {i j : Nat} {ga gb : Seg α},
    Contig segs → segs[i]? = some ga → segs[j]? = some gb → i < j → ga.next ≤ gb.abs
  | [], i, j, ga, gb, _, h, _, _ => by simp at h
  | a :: r, 0, 0, ga, gb, _, _, _, hlt => by omega
  | a :: r, 0, j + 1, ga, gb, hc, hi, hj, _ => by
    simp only [List.getElem?_cons_zero, Option.some.injEq] at hi; subst hi
    simp only [List.getElem?_cons_succ] at hj
    exact contig_next_le_later hc hj
  | a :: r, i + 1, 0, ga, gb, _, _, _, hlt => by omega
  | a :: r, i + 1, j + 1, ga, gb, hc, hi, hj, hlt => by
    simp only [List.getElem?_cons_succ] at hi hj
    exact contig_next_le_abs hc.tail hi hj (by omega)

/-- for two cursors issued by a well-formed log, the smaller one in a retained segment: the tuple
    order implies the order of the offsets -/
theorem offset_le_of_cursorLe {α} {l : Log α} (hw : WF l) {a b : Cursor} (ha : Issued l a) (hb : Issued l b)
    (hret : l.head ≤ a.1) (h : cursorLe a b) : a.2 ≤ b.2 := by
  rcases h with hlt | ⟨_, hle⟩
  · rcases ha.2 with h0 | ⟨ga, hga, _, ha2⟩
    · omega
    · rcases hb.2 with h0 | ⟨gb, hgb, hb1, _⟩
      · omega
      · have := contig_next_le_abs hw.contig hga hgb (by omega)
        omega
  · exact hle

end Router
