/-
Basic rewriting lemmas about the router model's state accessors (links, connection slab).
-/
import Model.Router.Step
namespace Router

@[simp] theorem getConn_setConn_same (s : RState) (id : Nat) (c : Conn) (h : id < s.conns.entries.length) :
    getConn (setConn s id c) id = some c := by
  simp [getConn, setConn, Slab.get?, Slab.set, h]

theorem getConn_setConn_ne (s : RState) (id j : Nat) (c : Conn) (h : j ≠ id) :
    getConn (setConn s id c) j = getConn s j := by
  simp [getConn, setConn, Slab.get?, Slab.set, h.symm]

theorem getConn_lt {s : RState} {id : Nat} {c : Conn} (h : getConn s id = some c) :
    id < s.conns.entries.length := by
  unfold getConn Slab.get? at h
  by_cases hl : id < s.conns.entries.length
  · exact hl
  · simp [List.getElem?_eq_none (Nat.le_of_not_lt hl)] at h

@[simp] theorem setConn_links (s : RState) (id : Nat) (c : Conn) : (setConn s id c).links = s.links := rfl
@[simp] theorem setConn_config (s : RState) (id : Nat) (c : Conn) : (setConn s id c).config = s.config := rfl
@[simp] theorem g_conns (s : RState) (e : Ghost) : (s.g e).conns = s.conns := rfl
@[simp] theorem g_links (s : RState) (e : Ghost) : (s.g e).links = s.links := rfl
@[simp] theorem getConn_g (s : RState) (e : Ghost) (id : Nat) : getConn (s.g e) id = getConn s id := rfl
@[simp] theorem setLink_conns (s : RState) (l : Nat) (b : LinkBuf) : (setLink s l b).conns = s.conns := rfl
@[simp] theorem getConn_setLink (s : RState) (l : Nat) (b : LinkBuf) (id : Nat) :
    getConn (setLink s l b) id = getConn s id := rfl
@[simp] theorem getConn_pushNotifs (s : RState) (l : Nat) (ns : List Notif) (id : Nat) :
    getConn (pushNotifs s l ns) id = getConn s id := rfl
@[simp] theorem getConn_wakeLink (s : RState) (l : Nat) (id : Nat) :
    getConn (wakeLink s l) id = getConn s id := rfl

@[simp] theorem getLink_setConn (s : RState) (id : Nat) (c : Conn) (l : Nat) :
    getLink (setConn s id c) l = getLink s l := rfl
@[simp] theorem getLink_g (s : RState) (e : Ghost) (l : Nat) : getLink (s.g e) l = getLink s l := rfl

theorem getLink_setLink_same (s : RState) (l : Nat) (b : LinkBuf) : getLink (setLink s l b) l = b := by
  unfold getLink setLink
  by_cases h : l < s.links.length
  · simp [h]
  · have hl : s.links.length ≤ l := Nat.le_of_not_lt h
    have e : (s.links ++ (List.replicate (l - s.links.length) ({} : LinkBuf) ++ [b]))[l]? = some b := by
      rw [List.getElem?_append_right hl]
      rw [List.getElem?_append_right (by simp)]
      simp
    simp [h, e]

end Router
