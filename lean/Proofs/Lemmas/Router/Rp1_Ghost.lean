/-
The ghost history written by one CONNECT (`handle_new_connection`): which events, in which order.
-/
import Proofs.Lemmas.Router.Rp1_Frame
namespace Router

theorem reschedule_ghost {s s' : RState} {id : Nat} {r : SchedReason} (h : reschedule s id r = .ok s') :
    s'.ghost = s.ghost := by
  unfold reschedule at h
  split at h
  · simp at h
  · split at h
    · simp at h
    · simp only [Except.ok.injEq] at h; subst h; split <;> rfl

theorem foldl_g_ghost (f : Ack → Ghost) : ∀ (acks : List Ack) (s : RState),
    (acks.foldl (fun s a => s.g (f a)) s).ghost = s.ghost ++ acks.map f
  | [], s => by simp
  | a :: r, s => by
    simp only [List.foldl_cons, List.map_cons]
    rw [foldl_g_ghost f r (s.g (f a))]
    simp [RState.g]

/-- the events of a successful registration, in order: will set (if any), registered, session
    restored (if any), one `committed` per initial ack (CONNACK, then the pending PUBRELs) -/
def hnGhost (s : RState) (spec : ConnectSpec) : List Ghost :=
  (match spec.will with | some _ => [Ghost.willSet spec.clientId] | none => []) ++
  [Ghost.registered (hnKey s spec) spec.link spec.clientId spec.clean (!spec.clean && (hnSession s spec).isSome)] ++
  (if (hnRestored s spec).isSome then [Ghost.restored (hnKey s spec) (hnTracker spec (hnRestored s spec)).requests] else []) ++
  (hnAcks spec (hnKey s spec) (hnSession s spec).isSome (hnRestored s spec)).map (Ghost.committed (hnKey s spec))

theorem hnWill_ghost (s : RState) (spec : ConnectSpec) :
    (hnWill s spec).ghost = s.ghost ++ (match spec.will with | some _ => [Ghost.willSet spec.clientId] | none => []) := by
  unfold hnWill; cases spec.will <;> simp [RState.g]

theorem hnPre_ghost (s : RState) (spec : ConnectSpec) : (hnPre s spec).ghost = s.ghost ++ hnGhost s spec := by
  have e := hnWill_core { s with graveyard := aremove spec.clientId s.graveyard } spec
  have eg := hnWill_ghost { s with graveyard := aremove spec.clientId s.graveyard } spec
  unfold hnPre hnGhost hnKey
  simp only []
  rw [foldl_g_ghost, e.1]
  split
  all_goals
    simp only [RState.g, Router.setConn, eg, List.append_assoc, List.nil_append]

/-- the takeover writes at most one event: the removal of the old connection -/
theorem hnTakeover_ghost {s s1 : RState} {spec : ConnectSpec} (ha : AdmInv s) (h : hnTakeover s spec = .ok s1) :
    (alookup spec.clientId s.connectionMap = none ∧ s1 = s) ∨
    ∃ old c, alookup spec.clientId s.connectionMap = some old ∧ getConn s old = some c ∧
      c.clientId = spec.clientId ∧ s1.ghost = s.ghost ++ [Ghost.removed old spec.clientId c.clean] ∧
      s1.conns.len + 1 = s.conns.len := by
  unfold hnTakeover at h
  split at h
  · rename_i old hold
    obtain ⟨c, hc, e⟩ := ha.map.1 _ _ hold
    rcases handleDisconnection_effect h with ⟨hn, _⟩ | ⟨c', s0, logs, hc', e1, _, _, e4, hw⟩
    · rw [hc] at hn; simp at hn
    · rw [hc] at hc'; simp only [Option.some.injEq] at hc'; subst hc'
      refine .inr ⟨old, c, hold, hc, e, by rw [(wakeParked_wakeFrame hw).ghost, e4, e], ?_⟩
      rw [(wakeParked_shape hw).len, e1]; exact Slab.len_remove_live hc
  · rename_i hnone
    simp only [Except.ok.injEq] at h; subst h
    exact .inl ⟨hnone, rfl⟩

/-- the outcomes of a CONNECT -/
inductive ConnectOutcome (s s' : RState) (spec : ConnectSpec) : Prop
  | invalid (hv : validClientId spec.clientId = false)
      (hg : s'.ghost = s.ghost ++ [Ghost.notRegistered spec.link]) (hc : s'.conns = s.conns)
  | full (hv : validClientId spec.clientId = true) (s1 : RState)
      (ht : hnTakeover (setLink s spec.link {}) spec = .ok s1)
      (hfull : s1.conns.len ≥ s.config.maxConnections)
      (hg : s'.ghost = s1.ghost ++ [Ghost.notRegistered spec.link]) (hc : s'.conns = s1.conns)
  | registered (hv : validClientId spec.clientId = true) (s1 : RState)
      (ht : hnTakeover (setLink s spec.link {}) spec = .ok s1)
      (hroom : s1.conns.len < s.config.maxConnections)
      (hg : s'.ghost = s1.ghost ++ hnGhost s1 spec)
      (hr : reschedule (hnPre s1 spec) (hnKey s1 spec) .init = .ok s')

theorem handleNewConnection_outcome {s s' : RState} {spec : ConnectSpec} (ha : AdmInv s)
    (h : handleNewConnection s spec = .ok s') : ConnectOutcome s s' spec := by
  rw [handleNewConnection_eq] at h
  simp only [] at h
  have h0 : AdmInv (setLink s spec.link {}) := ha.congr rfl rfl rfl
  split at h
  · rename_i hv
    simp only [Except.ok.injEq] at h; subst h
    exact .invalid (by simpa using hv) rfl rfl
  · rename_i hv
    have hv' : validClientId spec.clientId = true := by simpa using hv
    split at h
    · simp at h
    · rename_i s1 h1
      obtain ⟨_, _, hcfg⟩ := hnTakeover_spec h0 h1
      have hcfg' : s1.config = s.config := hcfg
      split at h
      · rename_i hfull
        simp only [Except.ok.injEq] at h; subst h
        exact .full hv' s1 h1 (by rw [← hcfg']; exact hfull) rfl rfl
      · rename_i hroom
        obtain ⟨_, hr⟩ := hnRegister_ok h
        refine .registered hv' s1 h1 (by rw [← hcfg']; omega) ?_ hr
        rw [reschedule_ghost hr, hnPre_ghost]

theorem drop_ghost {g g' t : List Ghost} (h : g' = g ++ t) : g'.drop g.length = t := by subst h; simp

theorem mem_hnGhost_registered {s : RState} {spec : ConnectSpec} {id link : Nat} {cid : String} {clean sp : Bool}
    (h : Ghost.registered id link cid clean sp ∈ hnGhost s spec) :
    id = hnKey s spec ∧ link = spec.link ∧ cid = spec.clientId ∧ clean = spec.clean := by
  unfold hnGhost at h
  simp only [List.mem_append, List.mem_cons, List.mem_map, List.not_mem_nil, or_false] at h
  rcases h with ((h | h) | h) | h
  · split at h <;> simp at h
  · simp only [Ghost.registered.injEq] at h; exact ⟨h.1, h.2.1, h.2.2.1, h.2.2.2.1⟩
  · split at h <;> simp at h
  · obtain ⟨a, _, ha⟩ := h; simp at ha

theorem registered_mem_hnGhost (s : RState) (spec : ConnectSpec) :
    Ghost.registered (hnKey s spec) spec.link spec.clientId spec.clean (!spec.clean && (hnSession s spec).isSome)
      ∈ hnGhost s spec := by
  unfold hnGhost; simp

/-- in the state after a registration, the new key holds a connection with the CONNECT's identity,
    and every other live connection was live (with its identity) before -/
theorem registered_state {s1 s' : RState} {spec : ConnectSpec} (a1 : AdmInv s1)
    (hnone : alookup spec.clientId s1.connectionMap = none) (hroom : s1.conns.len < s1.config.maxConnections)
    (hr : reschedule (hnPre s1 spec) (hnKey s1 spec) .init = .ok s') :
    getConn s1 (hnKey s1 spec) = none ∧
    (∃ c, getConn s' (hnKey s1 spec) = some c ∧ c.clientId = spec.clientId ∧ c.link = spec.link ∧ c.clean = spec.clean) ∧
    ∀ j d, j ≠ hnKey s1 spec → getConn s' j = some d → getConn s1 j = some d := by
  obtain ⟨e1, e2, e3⟩ := hnPre_core s1 spec
  obtain ⟨_, hvac, hnew, hold⟩ := AdmInv.register (conn' := { hnConn spec (hnRestored s1 spec) with
      acks := { committed := hnAcks spec (hnKey s1 spec) (hnSession s1 spec).isSome (hnRestored s1 spec) } })
    a1 hnone hroom rfl e1 e2 e3
  have hs := reschedule_shape hr
  refine ⟨hvac, ?_, fun j d hj hd => ?_⟩
  · obtain ⟨c', hc', r⟩ := hs.live (show getConn (hnPre s1 spec) (hnKey s1 spec) = some _ from hnew)
    exact ⟨c', hc', r.sameId.1, r.sameId.2.1, r.sameId.2.2.1⟩
  · rw [reschedule_other hr hj] at hd
    exact (hold j hj).symm.trans hd

/-- `hnTakeover_ghost` for the state whose link buffer was just (re)created -/
theorem hnTakeover_ghost' {s s1 : RState} {spec : ConnectSpec} (ha : AdmInv s)
    (h : hnTakeover (setLink s spec.link {}) spec = .ok s1) :
    (alookup spec.clientId s.connectionMap = none ∧ s1.ghost = s.ghost ∧ s1.conns.len = s.conns.len) ∨
    ∃ old c, alookup spec.clientId s.connectionMap = some old ∧ getConn s old = some c ∧
      c.clientId = spec.clientId ∧ s1.ghost = s.ghost ++ [Ghost.removed old spec.clientId c.clean] ∧
      s1.conns.len + 1 = s.conns.len := by
  have h0 : AdmInv (setLink s spec.link {}) := ha.congr rfl rfl rfl
  rcases hnTakeover_ghost h0 h with ⟨hn, rfl⟩ | ⟨old, c, a, b, c', d, e⟩
  · exact .inl ⟨hn, rfl, rfl⟩
  · exact .inr ⟨old, c, a, b, c', d, e⟩

theorem connect_registered_only_if {s s' : RState} {spec : ConnectSpec} (ha : AdmInv s)
    (h : handleNewConnection s spec = .ok s') {id link : Nat} {cid : String} {clean sp : Bool}
    (hm : Ghost.registered id link cid clean sp ∈ s'.ghost.drop s.ghost.length) :
    validClientId spec.clientId = true ∧
    s.conns.len - (if (alookup spec.clientId s.connectionMap).isSome then 1 else 0) < s.config.maxConnections ∧
    (cid = spec.clientId ∧ link = spec.link ∧ clean = spec.clean) ∧
    ∃ c, getConn s' id = some c ∧ c.clientId = spec.clientId ∧ c.link = spec.link := by
  have h0 : AdmInv (setLink s spec.link {}) := ha.congr rfl rfl rfl
  cases handleNewConnection_outcome ha h with
  | invalid hv hg hc =>
    rw [drop_ghost hg] at hm; simp at hm
  | full hv s1 ht hfull hg hc =>
    rcases hnTakeover_ghost' ha ht with ⟨_, e4, _⟩ | ⟨old, c, _, _, _, e4, _⟩
    · rw [e4] at hg; rw [drop_ghost hg] at hm; simp at hm
    · have : s'.ghost = s.ghost ++ ([Ghost.removed old spec.clientId c.clean] ++ [Ghost.notRegistered spec.link]) := by
        rw [hg, e4]; simp
      rw [drop_ghost this] at hm; simp at hm
  | registered hv s1 ht hroom hg hr' =>
    obtain ⟨a1, hnone, hcfg1⟩ := hnTakeover_spec h0 ht
    have hroom1 : s1.conns.len < s1.config.maxConnections := by rw [hcfg1]; exact hroom
    obtain ⟨_, ⟨c, hc, e1, e2, _⟩, _⟩ := registered_state a1 hnone hroom1 hr'
    rcases hnTakeover_ghost' ha ht with ⟨hn, e4, elen⟩ | ⟨old, c0, hold, _, _, e4, elen⟩
    · rw [e4] at hg; rw [drop_ghost hg] at hm
      obtain ⟨rfl, rfl, rfl, rfl⟩ := mem_hnGhost_registered hm
      refine ⟨hv, ?_, ⟨rfl, rfl, rfl⟩, c, hc, e1, e2⟩
      simp only [hn, Option.isSome_none, Bool.false_eq_true, if_false]
      omega
    · have : s'.ghost = s.ghost ++ (Ghost.removed old spec.clientId c0.clean :: hnGhost s1 spec) := by
        rw [hg, e4]; simp
      rw [drop_ghost this] at hm
      simp only [List.mem_cons, reduceCtorEq, false_or] at hm
      obtain ⟨rfl, rfl, rfl, rfl⟩ := mem_hnGhost_registered hm
      refine ⟨hv, ?_, ⟨rfl, rfl, rfl⟩, c, hc, e1, e2⟩
      simp only [hold, Option.isSome_some, if_true]
      omega

theorem connect_takeover_first {s s' : RState} {spec : ConnectSpec} (ha : AdmInv s)
    (h : handleNewConnection s spec = .ok s') (hv : validClientId spec.clientId = true) {old : Nat}
    (hold : alookup spec.clientId s.connectionMap = some old) :
    ∃ c tail, getConn s old = some c ∧ c.clientId = spec.clientId ∧
      s'.ghost = s.ghost ++ Ghost.removed old spec.clientId c.clean :: tail ∧
      ∀ j d, getConn s' j = some d → d.clientId = spec.clientId →
        ∃ sp, Ghost.registered j spec.link spec.clientId spec.clean sp ∈ tail := by
  have h0 : AdmInv (setLink s spec.link {}) := ha.congr rfl rfl rfl
  have noold : ∀ (s1 : RState), AdmInv s1 → alookup spec.clientId s1.connectionMap = none →
      ∀ j d, getConn s1 j = some d → d.clientId ≠ spec.clientId := fun s1 a1 hnone j d hd e => by
    have := a1.map.2 j d hd
    rw [e, hnone] at this; simp at this
  cases handleNewConnection_outcome ha h with
  | invalid hv' hg hc => rw [hv] at hv'; simp at hv'
  | full _ s1 ht hfull hg hc =>
    obtain ⟨a1, hnone, _⟩ := hnTakeover_spec h0 ht
    rcases hnTakeover_ghost' ha ht with ⟨hn, _⟩ | ⟨old', c, hold', hc', e, e4, _⟩
    · rw [hn] at hold; simp at hold
    · have : old' = old := by rw [hold] at hold'; simpa using hold'.symm
      subst this
      refine ⟨c, [Ghost.notRegistered spec.link], hc', e, by rw [hg, e4]; simp, fun j d hd ed => ?_⟩
      have : getConn s1 j = some d := by unfold getConn at hd ⊢; rw [← hc]; exact hd
      exact absurd ed (noold s1 a1 hnone j d this)
  | registered _ s1 ht hroom hg hr' =>
    obtain ⟨a1, hnone, hcfg1⟩ := hnTakeover_spec h0 ht
    have hroom1 : s1.conns.len < s1.config.maxConnections := by rw [hcfg1]; exact hroom
    obtain ⟨_, _, hothers⟩ := registered_state a1 hnone hroom1 hr'
    rcases hnTakeover_ghost' ha ht with ⟨hn, _⟩ | ⟨old', c, hold', hc', e, e4, _⟩
    · rw [hn] at hold; simp at hold
    · have : old' = old := by rw [hold] at hold'; simpa using hold'.symm
      subst this
      refine ⟨c, hnGhost s1 spec, hc', e, by rw [hg, e4]; simp, fun j d hd ed => ?_⟩
      by_cases hj : j = hnKey s1 spec
      · subst hj; exact ⟨_, registered_mem_hnGhost s1 spec⟩
      · exact absurd ed (noold s1 a1 hnone j d (hothers j d hj hd))

end Router
