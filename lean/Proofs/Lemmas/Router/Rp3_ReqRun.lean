/-
C01.2 over the life of a data request (`ReqRun`): the offsets forwarded for a non-shared
subscription over any number of sweeps are the consecutive log offsets from its starting cursor;
a subscription starts at the tail of its filter's log; the same sharpening for groups.
-/
import Proofs.Lemmas.Router.Rp3_GroupRun
namespace Router
namespace Rp3
open CommitLog (Rep logC Issued cursorAbs U64)

/-- what a sweep of a non-shared request appends to its link's forwarded offsets, and the request
    it hands back -/
theorem plain_sweep_offsets {s s' : RState} {id : Nat} {c : Conn} {req req' : DataRequest} {st : ConsumeStatus}
    (hc : getConn s id = some c) (hplain : req.group = none)
    (h : forwardDeviceData s id req = .ok (s', req', st)) :
    s'.datalog = s.datalog ∧ s'.config = s.config ∧ req'.group = none ∧ req'.filterIdx = req.filterIdx ∧
    ((linkOffsets s' c.link = linkOffsets s c.link ∧ req'.cursor = req.cursor) ∨
     (∃ (n : Nat) (fd : FilterData), s.datalog.native[req.filterIdx]? = some fd ∧
        n ≤ MAX_INFLIGHT + s.config.maxOutgoingPacketCount ∧
        linkOffsets s' c.link = linkOffsets s c.link ++ readOffsets fd req.cursor n ∧
        req'.cursor = (posNext (fd.log.readv req.cursor n).2).1)) := by
  have hg : reqGroup s req = none := by unfold reqGroup; rw [hplain]; rfl
  have hcfg : s'.config = s.config := by
    have := forwardDeviceData_dkey h
    unfold dkey at this
    simp only [Prod.mk.injEq] at this
    exact this.2.2.2.2
  by_cases hst : st = .inflightFull
  · subst hst
    have e := inflightFull_noop h
    subst e
    rcases forwardDeviceData_cases hc h with ⟨_, _, _, e2, _⟩ | ⟨_, s1, rp, slots', hr, hrd⟩
    · rw [hg] at e2
      subst e2
      exact ⟨rfl, rfl, hplain, rfl, Or.inl ⟨rfl, rfl⟩⟩
    · exfalso
      obtain ⟨fd, _, hcase⟩ := sweepRead_cases hrd
      rcases hcase with ⟨_, _, _, e⟩ | ⟨_, _, _, _, e⟩ | ⟨_, _, hp⟩
      · split at e <;> cases e
      · cases e
      · obtain ⟨_, s2, _, hfin⟩ := sweepPush_spec hp
        rcases hfin with ⟨_, e, _⟩ | ⟨_, e, _⟩
        · cases e
        · split at e <;> cases e
  · obtain ⟨s1, rp, n, fd, hr, hfd, hreq, hobuf, _, hdl, _, _, _⟩ := sweep_plain hc hg h hst
    obtain ⟨_, hlen, hnone, _⟩ := sweepRetained_spec hr
    refine ⟨hdl, hcfg, by rw [hreq]; exact hplain, by rw [hreq]; rfl, Or.inr ⟨n, fd, hfd, ?_, ?_, by rw [hreq]; rfl⟩⟩
    · have : sweepSlots s c req none ≤ MAX_INFLIGHT + s.config.maxOutgoingPacketCount := by
        unfold sweepSlots Outgoing.freeSlots MAX_INFLIGHT
        simp only []
        split <;> omega
      omega
    · unfold linkOffsets
      rw [hobuf, List.filterMap_append, List.filterMap_append, sweepNotifs_offsets c req' rp _ hnone]
      have : List.filterMap Notif.logOffset (if st = .bufferFull then [Notif.unschedule] else []) = [] := by
        split <;> rfl
      rw [this, List.append_nil]; rfl

/-- the filter log `idx` is well formed and `cur` is an issued, not yet evicted cursor of it -/
def ReqAt (idx : Nat) (s : RState) (cur : Cursor) : Prop :=
  ∃ fd hist, s.datalog.native[idx]? = some fd ∧ Rep (logC fd.log) hist ∧ Issued (logC fd.log) cur ∧
    (logC fd.log).head ≤ cur.1 ∧ hist.length + (MAX_INFLIGHT + s.config.maxOutgoingPacketCount) < U64

/-- the life of one non-shared data request (filter log `idx`) over a stretch of a run: sweeps —
    each started with the request the previous one handed back, contributing the log offsets it
    appended to the link's buffer — interleaved with arbitrary other steps during which the
    request's cursor stays an issued, retained cursor of the log (publishes appended to the log
    are such steps as long as the cursor's segment is not evicted) -/
inductive ReqRun (idx : Nat) : RState → DataRequest → List Nat → RState → DataRequest → Prop
  | done (s : RState) (req : DataRequest) : ReqRun idx s req [] s req
  | sweep {s s1 s2 : RState} {id : Nat} {c : Conn} {req req1 req2 : DataRequest} {st : ConsumeStatus}
      {offs more : List Nat} :
      getConn s id = some c → req.group = none → req.filterIdx = idx →
      forwardDeviceData s id req = .ok (s1, req1, st) →
      linkOffsets s1 c.link = linkOffsets s c.link ++ offs →
      ReqRun idx s1 req1 more s2 req2 → ReqRun idx s req (offs ++ more) s2 req2
  | other {s s1 s2 : RState} {req req2 : DataRequest} {more : List Nat} :
      (∀ cur, ReqAt idx s cur → ReqAt idx s1 cur) →
      ReqRun idx s1 req more s2 req2 → ReqRun idx s req more s2 req2

theorem range'_append_range' (a n m : Nat) : List.range' a n ++ List.range' (a + n) m = List.range' a (n + m) := by
  rw [List.range'_append_1]

/-- C01.2 over the life of a request: the log offsets forwarded for it, over any number of sweeps,
    are exactly the consecutive offsets from its starting cursor — contiguous, in order, no gap,
    no repeat — and the request ends up right behind them -/
theorem reqRun_contiguous {idx : Nat} {s s2 : RState} {req req2 : DataRequest} {offs : List Nat}
    (hrun : ReqRun idx s req offs s2 req2) : ReqAt idx s req.cursor →
    offs = List.range' req.cursor.2 offs.length ∧ req2.cursor.2 = req.cursor.2 + offs.length ∧
    ReqAt idx s2 req2.cursor := by
  induction hrun with
  | done s req => intro hat; exact ⟨by simp, by simp, hat⟩
  | other hq _ ih => intro hat; exact ih (hq _ hat)
  | @sweep s s1 s2 id c req req1 req2 st offs more hc hplain hidx h hoffs _ ih =>
    intro hat
    obtain ⟨fd, hist, hfd, hrep, hiss, hfresh, hU⟩ := hat
    obtain ⟨hdl, hcfg, _, _, hcase⟩ := plain_sweep_offsets hc hplain h
    rcases hcase with ⟨hsame, hcur⟩ | ⟨n, fd', hfd', hn, hoff', hcur⟩
    · have hnil : offs = [] := by
        rw [hsame] at hoffs
        have h0 : linkOffsets s c.link ++ [] = linkOffsets s c.link ++ offs := by rw [List.append_nil]; exact hoffs
        exact (List.append_cancel_left h0).symm
      subst hnil
      have hat1 : ReqAt idx s1 req1.cursor :=
        ⟨fd, hist, by rw [hdl]; exact hfd, hrep, by rw [hcur]; exact hiss, by rw [hcur]; exact hfresh,
          by rw [hcfg]; exact hU⟩
      obtain ⟨p1, p2, p3⟩ := ih hat1
      rw [hcur] at p1 p2
      exact ⟨by simpa using p1, by simpa using p2, p3⟩
    · rw [hidx, hfd] at hfd'
      cases hfd'
      have hoe : offs = readOffsets fd req.cursor n := by
        rw [hoff'] at hoffs
        exact (List.append_cancel_left hoffs).symm
      obtain ⟨e1, e2, e3, e4, _⟩ := clog_readv_spec fd.log hist hrep req.cursor n hiss (by omega)
      obtain ⟨_, v2, _⟩ := clog_readv_entries fd.log hist hrep req.cursor n hiss (by omega)
      have hca : cursorAbs (logC fd.log) req.cursor = req.cursor.2 := by
        unfold cursorAbs
        have : ¬ req.cursor.1 < (logC fd.log).head := by omega
        simp [this]
      have hro : readOffsets fd req.cursor n = List.range' req.cursor.2 (readOffsets fd req.cursor n).length := by
        unfold readOffsets; rw [List.length_map, ← hca]; exact v2
      have hlen : (readOffsets fd req.cursor n).length = (CommitLog.expectedRead (logC fd.log) req.cursor n).length := by
        unfold readOffsets; rw [List.length_map, e1]
      have hat1 : ReqAt idx s1 req1.cursor :=
        ⟨fd, hist, by rw [hdl]; exact hfd, hrep, by rw [hcur]; exact e3, by rw [hcur]; exact e4,
          by rw [hcfg]; exact hU⟩
      obtain ⟨p1, p2, p3⟩ := ih hat1
      have hc2 : req1.cursor.2 = req.cursor.2 + (readOffsets fd req.cursor n).length := by
        rw [hcur, e2, hca, hlen]
      subst hoe
      rw [hc2] at p1 p2
      refine ⟨?_, by rw [p2, List.length_append]; omega, p3⟩
      rw [List.length_append, ← range'_append_range', ← hro, ← p1]


/-- C17 history level, sharper: the offsets forwarded through the group over a `GroupRun` are
    exactly the consecutive offsets from the group's starting cursor (contiguous: nothing skipped,
    nothing repeated, whoever the receiving members are) -/
theorem groupRun_contiguous {gname : String} {idx : Nat} {s s2 : RState} {offs : List Nat}
    (hrun : GroupRun gname idx s offs s2) : ∀ {cur : Cursor}, GroupAt gname idx s cur →
    offs = List.range' cur.2 offs.length ∧
    ∃ cur2, GroupAt gname idx s2 cur2 ∧ cur2.2 = cur.2 + offs.length := by
  induction hrun with
  | done s => intro cur hat; exact ⟨by simp, cur, hat, by simp⟩
  | other hq _ ih => intro cur hat; exact ih (hq cur hat)
  | @sweep s s1 s2 id c req req' st offs more hc hgn hidx h hoffs _ ih =>
    intro cur hat
    obtain ⟨g, fd, hist, hg, hcur, hfd, hrep, hiss, hfresh, hU⟩ := hat
    subst hcur
    obtain ⟨hdl, hcase⟩ := group_sweep_offsets hc hgn hg h
    have hcfg : s1.config = s.config := by
      have := forwardDeviceData_dkey h
      unfold dkey at this
      simp only [Prod.mk.injEq] at this
      exact this.2.2.2.2
    rcases hcase with ⟨hsame, hg1⟩ | ⟨n, fd', hfd', hn, hoff', g', hg', hcur'⟩
    · have hnil : offs = [] := by
        rw [hsame] at hoffs
        have h0 : linkOffsets s c.link ++ [] = linkOffsets s c.link ++ offs := by rw [List.append_nil]; exact hoffs
        exact (List.append_cancel_left h0).symm
      subst hnil
      have hat1 : GroupAt gname idx s1 g.cursor :=
        ⟨g, fd, hist, hg1, rfl, by rw [hdl]; exact hfd, hrep, hiss, hfresh, by rw [hcfg]; exact hU⟩
      simpa using ih hat1
    · rw [hidx, hfd] at hfd'
      cases hfd'
      have hoe : offs = readOffsets fd g.cursor n := by
        rw [hoff'] at hoffs
        exact (List.append_cancel_left hoffs).symm
      obtain ⟨e1, e2, e3, e4, _⟩ := clog_readv_spec fd.log hist hrep g.cursor n hiss (by omega)
      obtain ⟨_, v2, _⟩ := clog_readv_entries fd.log hist hrep g.cursor n hiss (by omega)
      have hca : cursorAbs (logC fd.log) g.cursor = g.cursor.2 := by
        unfold cursorAbs
        have : ¬ g.cursor.1 < (logC fd.log).head := by omega
        simp [this]
      have hro : readOffsets fd g.cursor n = List.range' g.cursor.2 (readOffsets fd g.cursor n).length := by
        unfold readOffsets; rw [List.length_map, ← hca]; exact v2
      have hlen : (readOffsets fd g.cursor n).length = (CommitLog.expectedRead (logC fd.log) g.cursor n).length := by
        unfold readOffsets; rw [List.length_map, e1]
      have hat1 : GroupAt gname idx s1 g'.cursor :=
        ⟨g', fd, hist, hg', rfl, by rw [hdl]; exact hfd, hrep, by rw [hcur']; exact e3,
          by rw [hcur']; exact e4, by rw [hcfg]; exact hU⟩
      obtain ⟨p1, cur2, hat2, p2⟩ := ih hat1
      have hc2 : g'.cursor.2 = g.cursor.2 + (readOffsets fd g.cursor n).length := by
        rw [hcur', e2, hca, hlen]
      subst hoe
      rw [hc2] at p1 p2
      refine ⟨?_, cur2, hat2, by rw [p2, List.length_append]; omega⟩
      rw [List.length_append, ← range'_append_range', ← hro, ← p1]

/-- a subscription starts at the tail of its filter's log: the cursor `next_native_offset` hands
    out is an issued, retained cursor standing right behind everything appended so far -/
theorem nextNativeOffset_tail {s : RState} {filter : String} (hi : DLInv s) :
    ∃ fd hist, (nextNativeOffset s filter).1.datalog.native[(nextNativeOffset s filter).2.1]? = some fd ∧
      fd.filter = filter ∧ Rep (logC fd.log) hist ∧
      Issued (logC fd.log) (nextNativeOffset s filter).2.2 ∧
      (logC fd.log).head ≤ (nextNativeOffset s filter).2.2.1 ∧
      (nextNativeOffset s filter).2.2.2 = hist.length := by
  have tail_ok : ∀ (l : CLog.Log Pub) (hist : List Pub), Rep (logC l) hist →
      Issued (logC l) l.nextOffset ∧ (logC l).head ≤ l.nextOffset.1 ∧ l.nextOffset.2 = hist.length := by
    intro l hist hrep
    have hb := CommitLog.nextOffset_bridge l hrep.wf
    obtain ⟨z, hz⟩ := hrep.wf.exists_last
    have hno : (logC l).nextOffset = .ok ((logC l).tail, (logC l).nextAbs) := by
      simp [CommitLog.Log.nextOffset, CommitLog.Log.activeSegment, hz, CommitLog.Log.nextAbs]
    rw [hno] at hb
    have he : l.nextOffset = ((logC l).tail, (logC l).nextAbs) := (Except.ok.inj hb).symm
    rw [he]
    refine ⟨CommitLog.issued_tail hrep.wf, ?_, hrep.nextAbs_eq⟩
    have := hrep.wf.count
    have := List.length_pos_iff.mpr hrep.wf.ne
    show (logC l).head ≤ (logC l).tail
    omega
  unfold nextNativeOffset
  cases hl : s.datalog.filterIdx? filter with
  | some idx =>
    simp only []
    have := (hi.maps.lookup_iff filter idx).mp hl
    cases hg : s.datalog.native[idx]? with
    | none => simp [hg] at this
    | some fd =>
      simp only [hg, Option.map_some, Option.some.injEq] at this
      obtain ⟨hist, hrep⟩ := hi.logs fd.log (List.mem_map.mpr ⟨fd, List.mem_of_getElem? hg, rfl⟩)
      obtain ⟨a, b, c⟩ := tail_ok fd.log hist hrep
      exact ⟨fd, hist, rfl, this, hrep, a, b, c⟩
  | none =>
    simp only []
    have hrep := new_log_rep s.config.maxSegmentSize s.config.maxSegmentCount hi.segSize hi.segCount
    obtain ⟨a, b, c⟩ := tail_ok _ [] hrep
    refine ⟨{ filter, log := CLog.Log.new s.config.maxSegmentSize s.config.maxSegmentCount }, [], ?_, rfl, hrep, a, b, c⟩
    simp

theorem clog_append_issued (l : CLog.Log Pub) (hist : List Pub) (h : Rep (logC l) hist) (x : Pub) (sz : Nat)
    (c : Cursor) (hi : Issued (logC l) c) : Issued (logC (l.append x sz).1) c := by
  obtain ⟨l', h1, _, hm, _⟩ := CommitLog.append_rep (logC l) hist h x sz
  rw [CommitLog.append_bridge l h.wf] at h1
  have e := (Prod.mk.inj (Except.ok.inj h1)).1
  rw [← e] at hm
  exact CommitLog.issued_of_segMono hm hi

/-- accepting a publish keeps every issued cursor of every filter log issued, and the logs well formed -/
theorem deliver_keeps_issued {s s' : RState} {topic : String} {p : Pub} (hi : DLInv s)
    (h : deliver s topic p = .ok s') (idx : Nat) (fd : FilterData) (hist : List Pub) (cur : Cursor)
    (hfd : s.datalog.native[idx]? = some fd) (hrep : Rep (logC fd.log) hist) (hiss : Issued (logC fd.log) cur) :
    ∃ fd' hist', s'.datalog.native[idx]? = some fd' ∧ fd'.filter = fd.filter ∧ Rep (logC fd'.log) hist' ∧
      Issued (logC fd'.log) cur ∧
      hist' = (if topicMatches topic fd.filter then hist ++ [p] else hist) := by
  obtain ⟨hnat, _⟩ := deliver_spec hi h
  have := hnat idx
  rw [hfd] at this
  simp only [Option.map_some] at this
  by_cases hm : topicMatches topic fd.filter = true
  · simp only [hm, if_true] at this ⊢
    exact ⟨_, _, this, rfl, clog_append_rep fd.log hist hrep p (pubSize p),
      clog_append_issued fd.log hist hrep p (pubSize p) cur hiss, rfl⟩
  · simp only [hm] at this ⊢
    exact ⟨fd, hist, this, rfl, hrep, hiss, rfl⟩

end Rp3
end Router
