/-
The liveness invariant `GL` through a sweep (`forward_device_data`) and the parking of the request
it hands back.
-/
import Proofs.Lemmas.Router.Rp9_Steps
namespace Router
open Router.Rp3
open CommitLog (Rep logC Issued U64 cursorAbs)

theorem fdPos_eq (p : CLog.Pos) : fdPos p = Rp3.posNext p := by cases p <;> rfl

/-- what a read tells about the end of the log -/
theorem read_end_facts (fd : FilterData) (hist : List Pub) (hrep : Rep (logC fd.log) hist) (cur : Cursor) (n : Nat)
    (hiss : Issued (logC fd.log) cur) (hU : hist.length + n < U64) :
    ((fdPos (fd.log.readv cur n).2).2 = true → AbsEnd fd (fdPos (fd.log.readv cur n).2).1) ∧
    (AbsEnd fd cur → (fdPos (fd.log.readv cur n).2).2 = true) ∧
    (0 < n → (fd.log.readv cur n).1 = [] → AbsEnd fd cur) := by
  rw [fdPos_eq]
  obtain ⟨e1, e2, e3, e4, e5⟩ := clog_readv_spec fd.log hist hrep cur n hiss hU
  have hna := hrep.nextAbs_eq
  have hca : cursorAbs (logC fd.log) (Rp3.posNext (fd.log.readv cur n).2).1 = (Rp3.posNext (fd.log.readv cur n).2).1.2 := by
    unfold cursorAbs
    have : ¬ (Rp3.posNext (fd.log.readv cur n).2).1.1 < (logC fd.log).head := by omega
    simp [this]
  have hb := e3.abs_bounds hrep.wf
  refine ⟨fun hd => ?_, fun he => ?_, fun hn hemp => ?_⟩
  · unfold AbsEnd; rw [hca, e2, hna]; exact e5.mp hd
  · unfold AbsEnd at he
    rw [e5]
    rw [hca, e2] at hb
    omega
  · have hd := clog_readv_empty_done fd.log hist hrep cur n hiss hU hn hemp
    have := e5.mp hd
    rw [← e1, hemp] at this
    unfold AbsEnd; rw [hna]; simpa using this

theorem fdRetained_nil {s s' : RState} {req : DataRequest} {slots slots' : Nat}
    (h : fdRetained s req slots = .ok (s', [], slots')) : slots' = slots := by
  unfold fdRetained at h
  split at h
  · split at h
    · simp at h
    · rename_i s1 ps1 h1
      simp only [Except.ok.injEq, Prod.mk.injEq] at h
      obtain ⟨_, e, rfl⟩ := h
      have : (ps1.take slots).length = 0 := by
        have := congrArg List.length e; simpa using this
      omega
  · simp only [Except.ok.injEq, Prod.mk.injEq] at h; exact h.2.2.symm

/-- `park` keeps `GL` when the parked request does not put the turn holder of its group to sleep
    before the end of the log -/
theorem park_gl {s s' : RState} {id : Nat} {r : DataRequest} (h : GL s) (hp : park s id r = .ok s')
    (hsafe : ∀ p ∈ s.shared, r.group = some p.1 → ∀ c, getConn s id = some c → p.2.current = some c.clientId →
      s.datalog.filterIdx? (gpath p.1) = some r.filterIdx →
      (∃ fd, s.datalog.native[r.filterIdx]? = some fd ∧ AbsEnd fd p.2.cursor) ∨ r.filterIdx ∈ s.turnMoved) : GL s' := by
  unfold park at hp
  split at hp
  · simp at hp
  · rename_i fd hfd
    simp only [Except.ok.injEq] at hp
    have hc : s'.conns = s.conns := by rw [← hp]
    have hnat : s'.datalog.native = s.datalog.native.set r.filterIdx { fd with waiters := fd.waiters ++ [(id, r)] } := by rw [← hp]
    have hfi : s'.datalog.filterIndexes = s.datalog.filterIndexes := by rw [← hp]
    have hsh : s'.shared = s.shared := by rw [← hp]
    have htm : s'.turnMoved = s.turnMoved := by rw [← hp]
    have hlt : r.filterIdx < s.datalog.native.length := by
      rcases Nat.lt_or_ge r.filterIdx s.datalog.native.length with h' | h'
      · exact h'
      · rw [List.getElem?_eq_none h'] at hfd; cases hfd
    have hgc : ∀ j, getConn s' j = getConn s j := fun j => by unfold getConn; rw [hc]
    have hlog : ∀ (i : Nat) fd0, s.datalog.native[i]? = some fd0 → ∃ fd1, s'.datalog.native[i]? = some fd1 ∧ fd1.log = fd0.log := by
      intro i fd0 h0
      rw [hnat, List.getElem?_set]
      by_cases e : r.filterIdx = i
      · subst e; rw [hfd] at h0; cases h0; simp only [hlt, if_true]; exact ⟨_, rfl, rfl⟩
      · simp only [e, if_false]; exact ⟨fd0, h0, rfl⟩
    refine ⟨by rw [hsh]; exact h.nodup, by rw [hsh]; exact h.wf, by rw [hsh]; exact h.key, fun p hp' => ?_⟩
    rw [hsh] at hp'
    intro i hi
    have hi0 : s.datalog.filterIdx? (gpath p.1) = some i := by unfold DataLog.filterIdx? at hi ⊢; rw [← hfi]; exact hi
    have keepEnd : (∃ fd0, s.datalog.native[i]? = some fd0 ∧ AbsEnd fd0 p.2.cursor) →
        ∃ fd1, s'.datalog.native[i]? = some fd1 ∧ AbsEnd fd1 p.2.cursor := by
      rintro ⟨fd0, a, b⟩
      obtain ⟨fd1, a1, e1⟩ := hlog i fd0 a
      exact ⟨fd1, a1, by unfold AbsEnd at b ⊢; rw [e1]; exact b⟩
    -- is the new waiter a request of this group parked by the turn holder on the group's log?
    by_cases hd : r.group = some p.1 ∧ i = r.filterIdx ∧ ∃ c, getConn s id = some c ∧ p.2.current = some c.clientId
    · obtain ⟨hg, rfl, c, hcn, hcur⟩ := hd
      rcases hsafe p hp' hg c hcn hcur hi0 with h1 | h1
      · exact .inl (keepEnd h1)
      · exact .inr (.inl (by rw [htm]; exact h1))
    · rcases h.lv p hp' i hi0 with h1 | h1 | h1
      · exact .inl (keepEnd h1)
      · exact .inr (.inl (by rw [htm]; exact h1))
      · refine .inr (.inr fun id' c' r' hc' hcur hg' hpk => ?_)
        rw [hgc] at hc'
        rw [parkedAt_set hfd hnat] at hpk
        by_cases e : i = r.filterIdx
        · simp only [e, if_true] at hpk
          rcases List.mem_append.mp hpk with hm | hm
          · exact h1 id' c' r' hc' hcur hg' ⟨fd, e ▸ hfd, hm⟩
          · simp only [List.mem_singleton, Prod.mk.injEq] at hm
            obtain ⟨rfl, rfl⟩ := hm
            exact hd ⟨hg', e, c', hc', hcur⟩
        · simp only [e, if_false] at hpk
          exact h1 id' c' r' hc' hcur hg' hpk

theorem LMono.of_conns {s s' : RState} (hc : s'.conns = s.conns) (hnat : s'.datalog.native = s.datalog.native)
    (hfi : s'.datalog.filterIndexes = s.datalog.filterIndexes) (htm : s'.turnMoved = s.turnMoved) : LMono s s' := by
  refine ⟨fun id c' h => .inl ⟨c', by unfold getConn at h ⊢; rw [← hc]; exact h, rfl⟩, fun i id r h => ?_,
    fun i h => by rw [htm]; exact h, fun f i h => .inl (by unfold DataLog.filterIdx? at h ⊢; rw [← hfi]; exact h),
    fun i fd h => ⟨fd, by rw [hnat]; exact h, .inl rfl⟩⟩
  unfold ParkedAt at h ⊢; rw [hnat] at h; exact h

/-- the connection `id` after a sweep and `noteTurn` is the same client -/
theorem sweep_conn {s s1 : RState} {id : Nat} {req req1 : DataRequest} {st : ConsumeStatus} {c c2 : Conn}
    (hc : getConn s id = some c) (hf : forwardDeviceData s id req = .ok (s1, req1, st))
    (hc2 : getConn (noteTurn s s1 req1) id = some c2) : c2.clientId = c.clientId := by
  obtain ⟨tm, etm⟩ := noteTurn_eq s s1 req1
  have hc2' : getConn s1 id = some c2 := by rw [etm] at hc2; exact hc2
  obtain ⟨c0, h0, hr⟩ := (forwardDeviceData_shape hf).live' hc2'
  rw [hc] at h0; cases h0
  exact hr.1.1

/-- the turn index after `update_next_client` is valid -/
theorem updateNextClient_wf {s s' : RState} {g g' : SharedGroup} (h : updateNextClient s g = .ok (s', g'))
    (hw : g.idx < g.clients.length) : g'.idx < g'.clients.length := by
  obtain ⟨_, e1, _, _, e4, e5, e6⟩ := updateNextClient_spec h
  rw [e1]
  cases hs : g.strategy with
  | sticky => rw [e4 hs]; exact hw
  | roundRobin => rw [e5 hs]; exact Nat.mod_lt _ (by omega)
  | random => exact e6 hs

/-- the request a sweep that reads hands back -/
def fdReq1 (req : DataRequest) (grp : Option SharedGroup) (cur : Cursor) : DataRequest :=
  { fdReq0 req grp with forwardRetained := false, cursor := cur }

/-- what a sweep does to the state, branch by branch -/
theorem sweep_branches {s s1 : RState} {id : Nat} {c : Conn} {req req1 : DataRequest} {st : ConsumeStatus}
    (hc : getConn s id = some c) (hf : forwardDeviceData s id req = .ok (s1, req1, st)) :
    (s1 = s ∧ st = .inflightFull) ∨
    (¬ (req.qos ≠ 0 ∧ c.out.freeSlots = 0) ∧
     ∃ s0 rp slots fd, fdRetained s (fdReq0 req (fdGrp s req)) (fdSlots s c req.qos (fdGrp s req)) = .ok (s0, rp, slots) ∧
      s.datalog.native[req.filterIdx]? = some fd ∧
      ((fdSkip c (fdGrp s req) = true ∧ s1 = s0 ∧
          st = (if (fdPos (fd.log.readv (fdReq0 req (fdGrp s req)).cursor slots).2).2 then .filterCaughtup else .skipRequest)) ∨
       (fdSkip c (fdGrp s req) = false ∧ rp = [] ∧ (fd.log.readv (fdReq0 req (fdGrp s req)).cursor slots).1 = [] ∧ s1 = s0 ∧
          st = .filterCaughtup) ∨
       (fdSkip c (fdGrp s req) = false ∧
          fdPush s0 id c (fdReq1 req (fdGrp s req) (fdPos (fd.log.readv (fdReq0 req (fdGrp s req)).cursor slots).2).1) (fdGrp s req)
            (rp ++ (fd.log.readv (fdReq0 req (fdGrp s req)).cursor slots).1.map (fun e => (e.1, some e.2)))
            (fdPos (fd.log.readv (fdReq0 req (fdGrp s req)).cursor slots).2).2 = .ok (s1, req1, st)))) := by
  rw [Router.forwardDeviceData_eq, hc] at hf
  simp only [] at hf
  have hq : (fdReq0 req (fdGrp s req)).qos = req.qos := by cases fdGrp s req <;> rfl
  have hx : (fdReq0 req (fdGrp s req)).filterIdx = req.filterIdx := by cases fdGrp s req <;> rfl
  split at hf
  · simp only [Except.ok.injEq, Prod.mk.injEq] at hf; obtain ⟨rfl, _, rfl⟩ := hf; exact .inl ⟨rfl, rfl⟩
  · rename_i hnf
    right
    refine ⟨fun hh => hnf (by rw [hq]; simp [hh.1, hh.2]), ?_⟩
    split at hf
    · simp at hf
    · rename_i s0 rp slots h0
      rw [hq] at h0
      split at hf
      · simp at hf
      · rename_i fd hfd
        have hfd' : s.datalog.native[req.filterIdx]? = some fd := by
          rw [← hx, ← show s0.datalog = s.datalog from by rw [(fdRetained_only_oracle h0).1]]; exact hfd
        refine ⟨s0, rp, slots, fd, h0, hfd', ?_⟩
        split at hf
        · rename_i hsk
          simp only [Except.ok.injEq, Prod.mk.injEq] at hf; obtain ⟨rfl, _, rfl⟩ := hf
          exact .inl ⟨hsk, rfl, rfl⟩
        · rename_i hsk
          split at hf
          · rename_i hemp
            simp only [Except.ok.injEq, Prod.mk.injEq] at hf; obtain ⟨rfl, _, rfl⟩ := hf
            have := List.isEmpty_iff.mp hemp
            obtain ⟨x, y⟩ := List.append_eq_nil_iff.mp this
            exact .inr (.inl ⟨by simpa using hsk, x, by simpa using y, rfl, rfl⟩)
          · exact .inr (.inr ⟨by simpa using hsk, hf⟩)

/-- the push phase of a sweep: monotone for `LVe`; the group table changes only for a request of a
    shared subscription whose group exists — the group's turn advances and its cursor becomes the
    request's continuation cursor -/
theorem fdPush_effect {s0 s1 : RState} {id : Nat} {c : Conn} {req' req1 : DataRequest} {grp : Option SharedGroup}
    {pubs : List (Pub × Option Cursor)} {cu : Bool} {st : ConsumeStatus} (hc0 : getConn s0 id = some c)
    (h : fdPush s0 id c req' grp pubs cu = .ok (s1, req1, st)) :
    req1 = req' ∧ (st = .bufferFull ∨ st = (if cu then .filterCaughtup else .partialRead)) ∧ LMono s0 s1 ∧
    (∀ gname g gv, req'.group = some gname → grp = some gv → alookup gname s0.shared = some g →
      ∃ x s4 g2, updateNextClient x g = .ok (s4, g2) ∧ s1.shared = ainsert gname { g2 with cursor := req'.cursor } s0.shared) ∧
    (grp = none → s1.shared = s0.shared) ∧ s1.datalog = s0.datalog := by
  unfold fdPush at h
  simp only [] at h
  split at h
  · simp at h
  · rename_i s3 h3
    have b : LStep s0 (pushNotifs (setConn s0 id { c with out := (fdOut c req' pubs).1, brokerAliases := (fdAliases c req'.filter).1 })
        c.link (fdOut c req' pubs).2) :=
      LStep.of_setc (c' := { c with out := (fdOut c req' pubs).1, brokerAliases := (fdAliases c req'.filter).1 }) hc0 rfl rfl rfl rfl rfl rfl
    have key : LMono s0 s3 ∧ (∀ gname g gv, req'.group = some gname → grp = some gv → alookup gname s0.shared = some g →
          ∃ x s4 g2, updateNextClient x g = .ok (s4, g2) ∧ s3.shared = ainsert gname { g2 with cursor := req'.cursor } s0.shared) ∧
        (grp = none → s3.shared = s0.shared) ∧ s3.datalog = s0.datalog := by
      unfold fdGroupUpd at h3
      split at h3
      · rename_i _ _ gname gv hgn
        split at h3
        · rename_i hnone
          simp only [Except.ok.injEq] at h3; subst h3
          refine ⟨b.mono, fun gn g _ e1 _ e3 => ?_, fun _ => b.shared, rfl⟩
          rw [hgn] at e1; cases e1
          have : alookup gname s0.shared = none := by rw [← b.shared]; exact hnone
          rw [this] at e3; cases e3
        · rename_i g hg
          split at h3
          · simp at h3
          · rename_i s4 g2 hu
            simp only [Except.ok.injEq] at h3; subst h3
            have hu' := updateNextClient_lstep hu
            refine ⟨b.mono.trans (hu'.mono.trans (LMono.of_conns rfl rfl rfl rfl)), fun gn g' _ e1 _ e3 => ?_, fun e => (by cases e),
              (by show s4.datalog = _; rw [(updateNextClient_only_oracle hu).1]; rfl)⟩
            rw [hgn] at e1; cases e1
            have hg' : alookup gname s0.shared = some g := by rw [← b.shared]; exact hg
            rw [hg'] at e3; cases e3
            refine ⟨_, s4, g2, hu, ?_⟩
            show ainsert gname _ s4.shared = _
            rw [hu'.shared, b.shared]
      · rename_i hno
        simp only [Except.ok.injEq] at h3; subst h3
        refine ⟨b.mono, fun gn g gv e1 e2 _ => ?_, fun _ => b.shared, rfl⟩
        exact (hno gn gv e1 e2).elim
    obtain ⟨m3, sh3, shn, hd3⟩ := key
    split at h
    · simp only [Except.ok.injEq, Prod.mk.injEq] at h; obtain ⟨rfl, rfl, rfl⟩ := h
      exact ⟨rfl, .inl rfl, m3.trans (LMono.of_conns rfl rfl rfl rfl), sh3, shn, hd3⟩
    · simp only [Except.ok.injEq, Prod.mk.injEq] at h; obtain ⟨rfl, rfl, rfl⟩ := h
      exact ⟨rfl, .inr rfl, m3.trans (LMono.of_conns rfl rfl rfl rfl), sh3, shn, hd3⟩

theorem noteTurn_moved {s s1 : RState} {req1 : DataRequest} {gname : String} {g v : SharedGroup}
    (hg1 : req1.group = some gname) (h0 : alookup gname s.shared = some g) (h1 : alookup gname s1.shared = some v)
    (hne : v.current ≠ g.current) : req1.filterIdx ∈ (noteTurn s s1 req1).turnMoved := by
  unfold noteTurn
  simp only [hg1, Option.bind_some, h0, h1]
  have : (v.current != g.current) = true := by simpa using hne
  simp [this]

/-- a sweep, then `noteTurn`, keeps `GL`; and if the sweep reported `FilterCaughtup`, parking the request
    it handed back keeps it too -/
theorem sweep_gl {s s1 : RState} {id : Nat} {req req1 : DataRequest} {st : ConsumeStatus}
    (h : GL s) (hi : DLInv s) (hno : NoOverflow s) (hcs : CS s) (hpos : 0 < s.config.maxOutgoingPacketCount)
    (hreq : ReqOK s.datalog req) (hf : forwardDeviceData s id req = .ok (s1, req1, st)) :
    GL (noteTurn s s1 req1) ∧
    (st = .filterCaughtup → ∀ s3, park (noteTurn s s1 req1) id req1 = .ok s3 → GL s3) := by
  obtain ⟨c, hc⟩ : ∃ c, getConn s id = some c := by
    cases hg : getConn s id with
    | none => rw [Router.forwardDeviceData_eq, hg] at hf; simp at hf
    | some c => exact ⟨c, rfl⟩
  obtain ⟨_, eg, ei⟩ := forwardDeviceData_fields hc hf
  obtain ⟨tm, etm⟩ := noteTurn_eq s s1 req1
  have hsh2 : (noteTurn s s1 req1).shared = s1.shared := by rw [etm]
  have hd2 : (noteTurn s s1 req1).datalog = s1.datalog := by rw [etm]
  have plainCase : LStep s s1 → GL (noteTurn s s1 req1) := fun m => h.step (m.trans (noteTurn_lstep s s1 req1))
  rcases sweep_branches hc hf with ⟨rfl, rfl⟩ | ⟨hnf, s0, rp, slots, fd, h0, hfd, hcase⟩
  · exact ⟨plainCase (LStep.refl _), fun e => by cases e⟩
  · have a := fdRetained_lstep h0
    obtain ⟨es0, _, hsl⟩ := fdRetained_only_oracle h0
    have hd0 : s0.datalog = s.datalog := by rw [es0]
    have hc0 : getConn s0 id = some c := by rw [es0]; exact hc
    cases hgrp : fdGrp s req with
    | none =>
      rw [hgrp] at hcase h0
      have hnone : ∀ p ∈ s.shared, req.group ≠ some p.1 := by
        intro p hp e
        unfold fdGrp at hgrp
        rw [e] at hgrp
        simp only [Option.bind_some] at hgrp
        exact alookup_eq_none_mem.mp hgrp p hp rfl
      have m : LStep s s1 := by
        rcases hcase with ⟨hsk, _⟩ | ⟨_, _, _, rfl, _⟩ | ⟨_, hp⟩
        · simp [fdSkip] at hsk
        · exact a
        · obtain ⟨_, _, m01, _, shn, _⟩ := fdPush_effect hc0 hp
          exact ⟨a.mono.trans m01, (shn rfl).trans a.shared⟩
      have g2 := plainCase m
      refine ⟨g2, fun _ s3 hp => park_gl g2 hp fun p hp' hg => ?_⟩
      rw [hsh2, m.shared] at hp'
      exact absurd (eg ▸ hg) (hnone p hp')
    | some g =>
      rw [hgrp] at hcase h0
      obtain ⟨gname, hgn, hg⟩ : ∃ gname, req.group = some gname ∧ alookup gname s.shared = some g := by
        unfold fdGrp at hgrp
        cases hgr : req.group with
        | none => simp [hgr] at hgrp
        | some gname => exact ⟨gname, rfl, by simpa [hgr] using hgrp⟩
      have hmem : (gname, g) ∈ s.shared := mem_of_alookup hg
      have hi' : s.datalog.filterIdx? (gpath gname) = some req.filterIdx := hreq.2 gname hgn
      obtain ⟨i0, hi0, fd0, hfd0, hiss⟩ := hcs.grp (gname, g) hmem
      have e0 : i0 = req.filterIdx := by
        have : s.datalog.filterIdx? (gpath gname) = some i0 := hi0
        rw [hi'] at this; exact (Option.some.inj this).symm
      subst e0
      have efd : fd0 = fd := by rw [hfd] at hfd0; exact (Option.some.inj hfd0).symm
      subst efd
      obtain ⟨hist, hrep⟩ := hi.logs fd0.log (List.mem_map.mpr ⟨fd0, List.mem_of_getElem? hfd, rfl⟩)
      have hU := hno fd0 (List.mem_of_getElem? hfd) hist hrep
      have hslots : slots ≤ MAX_INFLIGHT + s.config.maxOutgoingPacketCount :=
        Nat.le_trans hsl (fdSlots_bound s c _ _)
      have hcur0 : (fdReq0 req (some g)).cursor = g.cursor := rfl
      rw [hcur0] at hcase
      obtain ⟨rf1, rf2, rf3⟩ := read_end_facts fd0 hist hrep g.cursor slots hiss (by omega)
      have uniq : ∀ p ∈ s.shared, p.1 = gname → p.2 = g := fun p hp e => by
        have := alookup_of_mem_keys_nodup h.nodup (show (p.1, p.2) ∈ s.shared from hp)
        rw [e, hg] at this; exact (Option.some.inj this).symm
      have hpg : ∀ p : String × SharedGroup, req1.group = some p.1 → p.1 = gname := fun p hgp => by
        have : some p.1 = some gname := by rw [← hgp, eg, hgn]
        exact Option.some.inj this
      rcases hcase with ⟨hsk, rfl, _⟩ | ⟨_, hrp, hemp, rfl, _⟩ | ⟨_, hp⟩
      · -- not this connection's turn
        have g2 := plainCase a
        refine ⟨g2, fun _ s3 hp => park_gl g2 hp fun p hp' hgp c2 hc2 hcur _ => ?_⟩
        rw [hsh2, a.shared] at hp'
        rw [uniq p hp' (hpg p hgp), sweep_conn hc hf hc2] at hcur
        simp only [fdSkip, bne_iff_ne, ne_eq] at hsk
        exact absurd hcur.symm hsk
      · -- nothing to push: the group's cursor is at the end of the log
        have g2 := plainCase a
        refine ⟨g2, fun _ s3 hp => park_gl g2 hp fun p hp' hgp c2 hc2 hcur _ => ?_⟩
        rw [hsh2, a.shared] at hp'
        rw [uniq p hp' (hpg p hgp)]
        subst hrp
        have hslots0 : slots = fdSlots s c req.qos (some g) := fdRetained_nil h0
        have hpos' : 0 < slots := by
          rw [hslots0]
          show 0 < (if g.strategy = .roundRobin then 1 else (if req.qos ≠ 0 then c.out.freeSlots else s.config.maxOutgoingPacketCount))
          split
          · exact Nat.one_pos
          · split
            · rename_i hq
              have : ¬ (c.out.freeSlots = 0) := fun e0 => hnf ⟨hq, e0⟩
              omega
            · exact hpos
        refine .inl ⟨fd0, ?_, rf3 hpos' hemp⟩
        rw [hd2, hd0, ei]; exact hfd
      · -- the turn holder pushes: cursor and turn move
        obtain ⟨er, hst, m01, hshared, _, hd1⟩ := fdPush_effect hc0 hp
        have hds : (noteTurn s s1 req1).datalog = s.datalog := by rw [hd2, hd1, hd0]
        obtain ⟨x, s4, g2, hu, hs1⟩ := hshared gname g g hgn rfl (by rw [a.shared]; exact hg)
        rw [a.shared] at hs1
        have hcur1 : (fdReq1 req (some g) (fdPos (fd0.log.readv g.cursor slots).2).1).cursor =
            (fdPos (fd0.log.readv g.cursor slots).2).1 := rfl
        rw [hcur1] at hs1
        have m : LMono s (noteTurn s s1 req1) := (a.mono.trans m01).trans (noteTurn_lstep s s1 req1).mono
        have hnat2 : (noteTurn s s1 req1).datalog.native[req.filterIdx]? = some fd0 := by rw [hds]; exact hfd
        have hv : alookup gname s1.shared = some { g2 with cursor := (fdPos (fd0.log.readv g.cursor slots).2).1 } := by
          rw [hs1]; exact alookup_ainsert_same _ _ _
        have hnd1 : (s1.shared.map (·.1)).Nodup := by rw [hs1]; exact nodup_keys_ainsert h.nodup
        obtain ⟨_, ucl, _, _, _, _, _⟩ := updateNextClient_spec hu
        -- the condition of the new group entry
        have hlve : LVe (noteTurn s s1 req1) gname { g2 with cursor := (fdPos (fd0.log.readv g.cursor slots).2).1 } := by
          intro i hi2
          have hi2' : s.datalog.filterIdx? (gpath gname) = some i := by rw [hds] at hi2; exact hi2
          have ei2 : i = req.filterIdx := by rw [hi'] at hi2'; exact (Option.some.inj hi2').symm
          subst ei2
          by_cases hdone : (fdPos (fd0.log.readv g.cursor slots).2).2 = true
          · exact .inl ⟨fd0, hnat2, rf1 hdone⟩
          · by_cases hturn : ({ g2 with cursor := (fdPos (fd0.log.readv g.cursor slots).2).1 } : SharedGroup).current = g.current
            · rcases ((h.lv _ hmem).mono m) _ hi2 with ⟨fd', a', b'⟩ | h' | h'
              · rw [hnat2] at a'; cases a'
                exact absurd (rf2 b') hdone
              · exact .inr (.inl h')
              · exact .inr (.inr fun id' c' r' hc' hcur' hg' => h' id' c' r' hc' (hturn ▸ hcur') hg')
            · refine .inr (.inl ?_)
              have := noteTurn_moved (s := s) (s1 := s1) (req1 := req1) (eg.trans hgn) hg hv hturn
              rw [ei] at this; exact this
        have g2' : GL (noteTurn s s1 req1) := by
          refine h.of_mono m (by rw [hsh2]; exact hnd1) (fun p hp' => ?_) (fun p hp' => ?_) (fun p hp' => ?_)
          · rw [hsh2, hs1] at hp'
            rcases mem_ainsert hp' with hp' | rfl
            · exact h.wf p hp'
            · have hw := updateNextClient_wf hu (h.wf (gname, g) hmem)
              exact hw
          · rw [hsh2, hs1] at hp'
            rcases mem_ainsert hp' with hp' | rfl
            · exact h.key p hp'
            · exact h.key (gname, g) hmem
          · rw [hsh2, hs1] at hp'
            rcases mem_ainsert hp' with hp' | rfl
            · exact .inl hp'
            · exact .inr hlve
        refine ⟨g2', fun hfc s3 hp3 => park_gl g2' hp3 fun p hp' hgp c2 hc2 hcur _ => ?_⟩
        have hcu : (fdPos (fd0.log.readv g.cursor slots).2).2 = true := by
          rcases hst with e | e
          · rw [hfc] at e; cases e
          · rw [hfc] at e
            cases hb : (fdPos (fd0.log.readv g.cursor slots).2).2
            · rw [hb] at e; cases e
            · rfl
        rw [hsh2] at hp'
        have hp2 : p.2 = { g2 with cursor := (fdPos (fd0.log.readv g.cursor slots).2).1 } := by
          have := alookup_of_mem_keys_nodup hnd1 (show (p.1, p.2) ∈ s1.shared from hp')
          rw [hpg p hgp, hv] at this; exact (Option.some.inj this).symm
        rw [hp2]
        refine .inl ⟨fd0, ?_, rf1 hcu⟩
        rw [ei]; exact hnat2

end Router
