/-
C09: an acknowledgement that does not match the head of the window closes that connection.
-/
import Proofs.Lemmas.Router.Rp1_Ghost
namespace Router

/-- PUBACK / PUBREC for a packet id that is not the head of the window: the packet loop stops with
    `disconnect` set (and nothing else is flagged) -/
theorem handlePacket_bad_ack {s : RState} {id : Nat} {cid : String} {c : Conn} {pkid : Nat} {pkt : Packet}
    (hc : getConn s id = some c) (hpkt : pkt = .puback pkid ∨ pkt = .pubrec pkid)
    (hhead : ∀ fi cur rest, c.out.inflight ≠ (pkid, fi, cur) :: rest) (fl : Flags) :
    handlePacket s id cid pkt fl =
      .ok (setConn s id { c with out := (c.out.registerAck pkid).1 }, { fl with disconnect := true, stop := true }) := by
  have hno : (c.out.registerAck pkid).2 = false := by
    cases hb : (c.out.registerAck pkid).2 with
    | false => rfl
    | true =>
      obtain ⟨fi, cur, rest, e⟩ := (registerAck_spec c.out pkid).1.mp hb
      exact absurd e (hhead fi cur rest)
  rcases hpkt with rfl | rfl
  · simp only [handlePacket, hc, hno, Bool.not_false, if_true]
  · simp only [handlePacket, hc, hno, Bool.not_false, if_true]

/-- a DeviceData event whose batch is exactly one such acknowledgement removes the connection -/
theorem bad_ack_closes {s s' : RState} {id : Nat} {c : Conn} {pkid : Nat} {pkt : Packet}
    (hc : getConn s id = some c) (hib : (getLink s c.link).ibuf = [pkt])
    (hpkt : pkt = .puback pkid ∨ pkt = .pubrec pkid)
    (hhead : ∀ fi cur rest, c.out.inflight ≠ (pkid, fi, cur) :: rest)
    (h : events s id .deviceData = .ok s') :
    getConn s' id = none ∧ s'.ghost = s.ghost ++ [Ghost.removed id c.clientId c.clean] := by
  simp only [events, handleDevicePayload, hc, hib, handlePackets] at h
  have hc0 : getConn (setLink s c.link { getLink s c.link with ibuf := [] }) id = some c := hc
  rw [handlePacket_bad_ack hc0 hpkt hhead] at h
  simp only [if_true, Bool.false_eq_true, if_false] at h
  split at h
  · simp at h
  rename_i s2 h2
  have hc1 := getConn_setConn_live hc0 { c with out := (c.out.registerAck pkid).1 } id
  simp only [if_true] at hc1
  obtain ⟨c2, hc2, t, rfl⟩ := (wakeTurnMoved_shape h2).live hc1
  have hg2 : s2.ghost = s.ghost := (wakeTurnMoved_wakeFrame h2).ghost
  rcases handleDisconnection_effect h with ⟨hn, _⟩ | ⟨c', s1, logs, hc', e1, _, _, e4, hw⟩
  · rw [hc2] at hn; simp at hn
  · rw [hc2] at hc'
    simp only [Option.some.injEq] at hc'
    subst hc'
    exact ⟨by rw [(wakeParked_shape hw).none_iff, getConn_remove _ s1 id id e1]; simp,
      by rw [(wakeParked_wakeFrame hw).ghost, e4, hg2]⟩

end Router
