/-
C09: an acknowledgement that does not match the head of the window closes that connection.
-/
import Proofs.Lemmas.Router.Rp1_Ghost
namespace Router

/-- PUBACK / PUBREC for a packet id that is not the head of the window: the packet loop stops with
    `disconnect` set (and nothing else is flagged) -/
theorem handlePacket_bad_ack {s : RState} {id : Nat} {cid : String} {c : Conn} {pkid : Nat} {pkt : Packet}
    (hc : getConn s id = some c) (hpkt : pkt = .puback pkid ∨ pkt = .pubrec pkid)
    (hhead : ∀ fi cur rest, c.out.inflight ≠ (pkid, fi, cur) :: rest) (fl : Flags) :
    handlePacket s id cid pkt fl =
      .ok (setConn s id { c with out := (c.out.registerAck pkid).1 }, { fl with disconnect := true, stop := true }) := by
  have hno : (c.out.registerAck pkid).2 = false := by
    cases hb : (c.out.registerAck pkid).2 with
    | false => rfl
    | true =>
      obtain ⟨fi, cur, rest, e⟩ := (registerAck_spec c.out pkid).1.mp hb
      exact absurd e (hhead fi cur rest)
  rcases hpkt with rfl | rfl
  · simp only [handlePacket, hc, hno, Bool.not_false, if_true]
  · simp only [handlePacket, hc, hno, Bool.not_false, if_true]

/-- a DeviceData event whose batch is exactly one such acknowledgement removes the connection -/
theorem bad_ack_closes {s s' : RState} {id : Nat} {c : Conn} {pkid : Nat} {pkt : Packet}
    (hc : getConn s id = some c) (hib : (getLink s c.link).ibuf = [pkt])
    (hpkt : pkt = .puback pkid ∨ pkt = .pubrec pkid)
    (hhead : ∀ fi cur rest, c.out.inflight ≠ (pkid, fi, cur) :: rest)
    (h : events s id .deviceData = .ok s') :
    getConn s' id = none ∧ s'.ghost = s.ghost ++ [Ghost.removed id c.clientId c.clean] := by
  simp only [events, handleDevicePayload, hc, hib, handlePackets] at h
  have hc0 : getConn (setLink s c.link { getLink s c.link with ibuf := [] }) id = some c := hc
  rw [handlePacket_bad_ack hc0 hpkt hhead] at h
  simp only [if_true, Bool.false_eq_true, if_false] at h
  rcases handleDisconnection_effect h with ⟨hn, _⟩ | ⟨c', hc', e1, _, _, e4⟩
  · rw [getConn_setConn_live hc0] at hn; simp at hn
  · rw [getConn_setConn_live hc0] at hc'
    simp only [if_true, Option.some.injEq] at hc'
    subst hc'
    exact ⟨by rw [getConn_remove _ s' id id e1]; simp, e4⟩

end Router
