/-
The liveness invariant `GL` through `handle_disconnection` (the groups the closed connection leaves:
turn passed on → woken; cursor set back by the rewind → woken) and `handle_new_connection`.
-/
import Proofs.Lemmas.Router.Rp9_Groups
namespace Router
open Router.Rp3
open CommitLog (Rep logC Issued U64 cursorAbs)

/-- a wake-up of `logs` establishes `GL` from the weaker condition "…, or the group's log is among `logs`" -/
theorem wakeParked_gl {s s' : RState} {logs : List Nat} (hw : wakeParked s logs = .ok s')
    (hn : (s.shared.map (·.1)).Nodup) (hwf : ∀ p ∈ s.shared, p.2.idx < p.2.clients.length)
    (hk : ∀ p ∈ s.shared, (p.1.toList.idxOf? '/').isSome = true)
    (hlv : ∀ p ∈ s.shared, ∀ i, s.datalog.filterIdx? (gpath p.1) = some i →
      (∃ fd, s.datalog.native[i]? = some fd ∧ AbsEnd fd p.2.cursor) ∨ i ∈ s.turnMoved ∨ i ∈ logs ∨ NoneParked s p.1 p.2 i) :
    GL s' := by
  obtain ⟨m, hwoken⟩ := wakeParked_lstep hw
  refine ⟨by rw [m.shared]; exact hn, by rw [m.shared]; exact hwf, by rw [m.shared]; exact hk, fun p hp => ?_⟩
  rw [m.shared] at hp
  intro i hi
  rcases m.mono.fi _ i hi with hi0 | hnp
  · rcases hlv p hp i hi0 with ⟨fd, a, b⟩ | h1 | h1 | h1
    · obtain ⟨fd', a', e⟩ := m.mono.logs i fd a
      rcases e with e | e
      · exact .inl ⟨fd', a', by unfold AbsEnd at b ⊢; rw [e]; exact b⟩
      · refine .inr (.inr fun id c r _ _ _ hpk => ?_)
        obtain ⟨fd'', a'', hm⟩ := hpk
        rw [a'] at a''; cases a''
        rw [e] at hm; cases hm
    · exact .inr (.inl (m.mono.tm i h1))
    · exact .inr (.inr fun id c r _ _ _ hpk => hwoken i h1 id r hpk)
    · refine .inr (.inr fun id c' r hc' hcur hg hpk => ?_)
      rcases m.mono.conn id c' hc' with ⟨c, hc, e⟩ | hn'
      · exact h1 id c r hc (e ▸ hcur) hg (m.mono.parked i id r hpk)
      · exact hn' i r hpk
  · exact .inr (.inr fun id c r _ _ _ hpk => hnp id r hpk)

theorem hdFinal_shared (s : RState) (id : Nat) (c : Conn) (r : Option String) :
    (hdFinal s id c r).shared =
      if !c.clean then
        (rewindRequests (removeFromGroups s.shared c.clientId) (retransmissionMap c.out.inflight [])
          ((c.tracker.requests ++ (datalogClean s.datalog id).2).map (atGroupCursor s.shared)) []).1
      else removeFromGroups s.shared c.clientId := by
  unfold hdFinal hdSaved
  cases r <;> (simp only []; split <;> rfl)

theorem hdMoved_eq (s : RState) (id : Nat) (c : Conn) (r : Option String) :
    hdMoved (hdNotify s c r) id c =
      if !c.clean then
        turnMovedLogs (datalogClean s.datalog id).1 s.shared c.clientId ++
          rewoundLogs (removeFromGroups s.shared c.clientId) (retransmissionMap c.out.inflight [])
            ((c.tracker.requests ++ (datalogClean s.datalog id).2).map (atGroupCursor s.shared))
      else turnMovedLogs (datalogClean s.datalog id).1 s.shared c.clientId := by
  unfold hdMoved hdTurnMoved hdRewound
  cases r <;> rfl

/-- `handle_disconnection` keeps `GL` -/
theorem handleDisconnection_gl {s s' : RState} {id : Nat} {r : Option String} (hg : GL s) (hcs : CS s)
    (hd : handleDisconnection s id r = .ok s') : GL s' := by
  cases hc : getConn s id with
  | none => rw [handleDisconnection_missing s id r hc] at hd; cases hd; exact hg
  | some c =>
    rw [Router.handleDisconnection_eq] at hd
    simp only [hc] at hd
    obtain ⟨k1, _, _, _, _, _, k7, k8, k9⟩ := hdFinal_fields s id c r
    have hget : ∀ j, getConn (hdFinal s id c r) j = if j = id then none else getConn s j := fun j => by
      unfold getConn; rw [k1, Slab.get?_remove]
    have hnat : (hdFinal s id c r).datalog.native = s.datalog.native.map (cleanFd id) := by
      rw [k8, Router.datalogClean_eq]
    have hfi : (hdFinal s id c r).datalog.filterIndexes = s.datalog.filterIndexes := by
      rw [k8, Router.datalogClean_eq]
    have hfi' : (datalogClean s.datalog id).1.filterIndexes = s.datalog.filterIndexes := by
      rw [Router.datalogClean_eq]
    have mF : LMono s (hdFinal s id c r) := by
      refine ⟨fun j d hdj => ?_, fun i j x hp => ?_, fun i h => by rw [k9]; exact h,
        fun f i h => .inl (by unfold DataLog.filterIdx? at h ⊢; rw [← hfi]; exact h), fun i fd h => ?_⟩
      · rw [hget] at hdj
        split at hdj
        · cases hdj
        · exact .inl ⟨d, hdj, rfl⟩
      · obtain ⟨fd', hfd', hm⟩ := hp
        rw [hnat] at hfd'
        simp only [List.getElem?_map, Option.map_eq_some_iff] at hfd'
        obtain ⟨fd, hfd, rfl⟩ := hfd'
        exact ⟨fd, hfd, (cleanFd_mem id fd).1 _ hm⟩
      · exact ⟨cleanFd id fd, by rw [hnat]; simp [h], .inl rfl⟩
    -- the entries that survive the removal of the client
    have hrem : ∀ p' ∈ removeFromGroups s.shared c.clientId, ∀ i, (hdFinal s id c r).datalog.filterIdx? (gpath p'.1) = some i →
        (∃ fd, (hdFinal s id c r).datalog.native[i]? = some fd ∧ AbsEnd fd p'.2.cursor) ∨ i ∈ (hdFinal s id c r).turnMoved ∨
        i ∈ turnMovedLogs (datalogClean s.datalog id).1 s.shared c.clientId ∨ NoneParked (hdFinal s id c r) p'.1 p'.2 i := by
      intro p' hp' i hi
      obtain ⟨p, hp, rfl, hne⟩ := mem_removeFromGroups hp'
      by_cases hcur : (p.2.removeClient c.clientId).current = p.2.current
      · rcases (((hg.lv p hp).mono mF).congr (grp' := p.2.removeClient c.clientId) rfl hcur) i hi with h1 | h1 | h1
        · exact .inl h1
        · exact .inr (.inl h1)
        · exact .inr (.inr (.inr h1))
      · refine .inr (.inr (.inl (mem_turnMovedLogs_of hp (hg.key p hp) hne hcur ?_)))
        unfold DataLog.filterIdx? at hi ⊢
        rw [hfi] at hi; rw [hfi']; exact hi
    have hremwf : ∀ p' ∈ removeFromGroups s.shared c.clientId, p'.2.idx < p'.2.clients.length ∧ (p'.1.toList.idxOf? '/').isSome = true := by
      intro p' hp'
      obtain ⟨p, hp, rfl, hne⟩ := mem_removeFromGroups hp'
      exact ⟨removeClient_wf p.2 c.clientId hne, hg.key p hp⟩
    have hsh := hdFinal_shared s id c r
    have hlogs := hdMoved_eq s id c r
    by_cases hclean : c.clean = true
    · simp only [hclean, Bool.not_true, Bool.false_eq_true, if_false] at hsh hlogs
      rw [hlogs] at hd
      refine wakeParked_gl hd (by rw [hsh]; exact nodup_removeFromGroups _ hg.nodup)
        (fun p hp => (hremwf p (hsh ▸ hp)).1) (fun p hp => (hremwf p (hsh ▸ hp)).2) (fun p hp i hi => ?_)
      rw [hsh] at hp
      exact hrem p hp i hi
    · have hclean' : c.clean = false := by simpa using hclean
      simp only [hclean', Bool.not_false, if_true] at hsh hlogs
      rw [hlogs] at hd
      obtain ⟨ekeys, hent⟩ := rewindRequests_entries (retransmissionMap c.out.inflight [])
        ((c.tracker.requests ++ (datalogClean s.datalog id).2).map (atGroupCursor s.shared))
        (removeFromGroups s.shared c.clientId) []
      refine wakeParked_gl hd (by rw [hsh, ekeys]; exact nodup_removeFromGroups _ hg.nodup)
        (fun p' hp' => ?_) (fun p' hp' => ?_) (fun p' hp' i hi => ?_)
      · rw [hsh] at hp'
        obtain ⟨p, hp, _, e2, e3, _⟩ := hent p' hp'
        rw [e2, e3]; exact (hremwf p hp).1
      · rw [hsh] at hp'
        obtain ⟨p, hp, e1, _⟩ := hent p' hp'
        rw [e1]; exact (hremwf p hp).2
      · rw [hsh] at hp'
        obtain ⟨p, hp, e1, e2, e3, e4⟩ := hent p' hp'
        have hcur' : p'.2.current = p.2.current := by unfold SharedGroup.current; rw [e2, e3]
        rcases e4 with e4 | ⟨x, hx, hxg, hxr⟩
        · -- cursor unchanged by the rewind
          rw [e1] at hi
          rcases hrem p hp i hi with ⟨fd, a, b⟩ | h1 | h1 | h1
          · exact .inl ⟨fd, a, by rw [e4]; exact b⟩
          · exact .inr (.inl h1)
          · exact .inr (.inr (.inl (List.mem_append_left _ h1)))
          · exact .inr (.inr (.inr fun id' c' r' hc' hh hgr => h1 id' c' r' hc' (hcur' ▸ hh) (e1 ▸ hgr)))
        · -- the group was set back: its log is woken
          refine .inr (.inr (.inl (List.mem_append_right _ ?_)))
          have hidx : x.filterIdx = i := by
            -- the request belongs to the closed connection: its index is the index of the group's path
            obtain ⟨x0, hx0, rfl⟩ := List.mem_map.mp hx
            obtain ⟨_, f2, _, f4, _⟩ := atGroupCursor_fields s.shared x0
            have hall : allReqs s x0 := by
              rcases List.mem_append.mp hx0 with h0 | h0
              · exact .inl ⟨id, c, hc, h0⟩
              · obtain ⟨fd, hfd, hm⟩ := (datalogClean_collected_mem _ _ _).mp h0
                exact .inr (.inl ⟨fd, hfd, (id, x0), hm, rfl⟩)
            have := (hcs.req x0 hall).2 p.1 (by rw [← f4]; exact hxg)
            rw [e1] at hi
            unfold DataLog.filterIdx? at hi this
            rw [hfi] at hi
            rw [hi] at this
            rw [f2]; exact (Option.some.inj this).symm
          rw [← hidx]
          exact mem_rewoundLogs hx hp hxg hxr

/-! ### CONNECT -/

theorem replicate_current (n : Nat) (cid : String) (g : SharedGroup)
    (hc : g.clients = List.replicate (n + 1) cid) (hi : g.idx = 0) : g.current = some cid := by
  unfold SharedGroup.current
  rw [hc, hi]; simp [List.replicate_succ]

/-- the registration proper keeps `GL`: groups the resumed session rejoins keep cursor and turn; a
    group it re-creates has the new connection — all of whose requests are tracked — as turn holder -/
theorem hnRegister_gl {s s' : RState} {spec : ConnectSpec} (hg : GL s) (hd : DInv s) (ha : AdmInv s) (hq : QI s)
    (hnone : alookup spec.clientId s.connectionMap = none) (hroom : s.conns.len < s.config.maxConnections)
    (h : hnRegister s spec = .ok s') : GL s' := by
  obtain ⟨_, hre⟩ := hnRegister_ok h
  refine GL.step ?_ (reschedule_lstep hre)
  obtain ⟨_, hgt⟩ := hnRestored_qi hq spec
  obtain ⟨e1, e2, e3⟩ := hnPre_core s spec
  obtain ⟨f1, f2, f3, f4⟩ := hnPre_fields s spec
  obtain ⟨_, hvac, hnew, hold⟩ := AdmInv.register (conn' := { hnConn spec (hnRestored s spec) with
      acks := { committed := hnAcks spec (hnKey s spec) (hnSession s spec).isSome (hnRestored s spec) } })
    ha hnone hroom rfl e1 e2 e3
  have hnew' : getConn (hnPre s spec) (hnKey s spec) = some _ := hnew
  have hold' : ∀ j, j ≠ hnKey s spec → getConn (hnPre s spec) j = getConn s j := hold
  have hvac' : getConn s (hnKey s spec) = none := hvac
  -- nothing is parked for the slot the connection gets
  have hnopark : ∀ i r, ¬ ParkedAt (hnPre s spec) i (hnKey s spec) r := by
    intro i r hp
    obtain ⟨fd, hfd, hm⟩ := hp
    rw [f1] at hfd
    have := (hd.wt fd (List.mem_of_getElem? hfd) (hnKey s spec, r) hm).2
    unfold Live at this
    rw [hvac'] at this; cases this
  have m : LMono s (hnPre s spec) := by
    refine ⟨fun j d hdj => ?_, fun i j r hp => by unfold ParkedAt at hp ⊢; rw [f1] at hp; exact hp,
      fun i hi => by rw [hnPre_turnMoved]; exact hi, fun f i hf => .inl (by rw [f1] at hf; exact hf),
      fun i fd hfd => ⟨fd, by rw [f1]; exact hfd, .inl rfl⟩⟩
    by_cases hj : j = hnKey s spec
    · subst hj; exact .inr hnopark
    · rw [hold' j hj] at hdj; exact .inl ⟨d, hdj, rfl⟩
  obtain ⟨hnd, hent⟩ := rejoinGroups_entries s.config.strategy spec.clientId (hnTracker spec (hnRestored s spec)).requests
    s.shared hg.nodup
  refine hg.of_mono m (by rw [f3]; exact hnd) (fun p' hp' => ?_) (fun p' hp' => ?_) (fun p' hp' => ?_)
  · rw [f3] at hp'
    rcases hent p' hp' with ⟨p, hp, _, _, e3', n, e4⟩ | ⟨e1', ⟨n, e2'⟩, _⟩
    · rw [e3', e4]; have := hg.wf p hp; simp only [List.length_append]; omega
    · rw [e1', e2']; simp
  · rw [f3] at hp'
    rcases hent p' hp' with ⟨p, hp, e1', _⟩ | ⟨_, _, r, hr, e3'⟩
    · rw [e1']; exact hg.key p hp
    · have hgtr := hgt r hr
      unfold GT at hgtr
      rw [e3'] at hgtr
      cases he : extractGroup r.filter with
      | none => rw [he] at hgtr; cases hgtr
      | some gp =>
        obtain ⟨g', p''⟩ := gp
        rw [he] at hgtr
        simp only [Option.map_some, Option.some.injEq] at hgtr
        rw [hgtr]; exact extractGroup_key_wf he
  · rw [f3] at hp'
    rcases hent p' hp' with ⟨p, hp, e1', e2', e3', n, e4⟩ | ⟨e1', ⟨n, e2'⟩, _⟩
    · right
      have hcur : p'.2.current = p.2.current := by
        unfold SharedGroup.current
        rw [e3', e4, List.getElem?_append_left (hg.wf p hp)]
      have := ((hg.lv p hp).mono m).congr (grp' := p'.2) e2' hcur
      rw [e1']; exact this
    · right
      intro i _
      refine .inr (.inr fun id' c' r' hc' hcur _ hpk => ?_)
      have hcid : c'.clientId = spec.clientId := by
        have := replicate_current n spec.clientId p'.2 e2' e1'
        rw [this] at hcur; exact (Option.some.inj hcur).symm
      by_cases hj : id' = hnKey s spec
      · subst hj; exact hnopark i r' hpk
      · rw [hold' id' hj] at hc'
        have := ha.map.2 id' c' hc'
        rw [hcid, hnone] at this; cases this

theorem handleNewConnection_gl {s s' : RState} {spec : ConnectSpec} (hb : BInv s) (ha : AdmInv s) (hq : QI s) (hcs : CS s)
    (hg : GL s) (h : handleNewConnection s spec = .ok s') : GL s' := by
  rw [Router.handleNewConnection_eq] at h
  simp only [] at h
  have m0 : LStep s (setLink s spec.link {}) := LStep.of_conns rfl rfl rfl rfl rfl
  have h0 : BInv (setLink s spec.link {}) := ⟨hb.1.congr rfl rfl rfl rfl rfl rfl rfl, hb.2⟩
  have a0 : AdmInv (setLink s spec.link {}) := ha.congr rfl rfl rfl
  have q0 := hq.oeq (OEq.of_conns (s := s) (s' := setLink s spec.link {}) rfl rfl rfl rfl rfl)
  have c0 : CS (setLink s spec.link {}) := hcs.step0 (CStep.of_conns rfl rfl rfl rfl rfl)
  have g0 := hg.step m0
  split at h
  · simp only [Except.ok.injEq] at h; subst h
    exact g0.step (LStep.of_conns rfl rfl rfl rfl rfl)
  · split at h
    · simp at h
    · rename_i s1 h1
      obtain ⟨a1, hnone, _⟩ := hnTakeover_spec a0 h1
      have t1 : BInv s1 ∧ QI s1 ∧ GL s1 := by
        unfold hnTakeover at h1
        split at h1
        · exact ⟨Good.ok_of (A := fun _ => True) h1 (handleDisconnection_good h0),
            (handleDisconnection_qi q0 h0.2 h1).1, handleDisconnection_gl g0 c0 h1⟩
        · simp only [Except.ok.injEq] at h1; subst h1; exact ⟨h0, q0, g0⟩
      split at h
      · simp only [Except.ok.injEq] at h; subst h
        exact t1.2.2.step (LStep.of_conns rfl rfl rfl rfl rfl)
      · exact hnRegister_gl t1.2.2 t1.1.1 a1 t1.2.1 hnone (by omega) h

end Router
