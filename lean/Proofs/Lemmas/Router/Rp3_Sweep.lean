/-
`forward_device_data` split into its phases (definitionally the model's function):
slots → retained replay → read of the filter log → skip / caught-up / push (`sweepPush`).
-/
import Proofs.Lemmas.Router.Frame
import Proofs.Lemmas.Router.Outgoing
namespace Router
namespace Rp3

/-- the group a request reads through (none for a plain subscription or when the group is gone) -/
def reqGroup (s : RState) (req : DataRequest) : Option SharedGroup := req.group.bind (fun g => alookup g s.shared)

/-- the request as the sweep sees it: a shared request adopts the group's cursor -/
def adoptCursor (req : DataRequest) (grp : Option SharedGroup) : DataRequest :=
  match grp with | some g => { req with cursor := g.cursor } | none => req

/-- how many publishes one sweep may push -/
def sweepSlots (s : RState) (c : Conn) (req : DataRequest) (grp : Option SharedGroup) : Nat :=
  let free := c.out.freeSlots
  let slots := if req.qos ≠ 0 then free else s.config.maxOutgoingPacketCount
  match grp with
  | some g => if g.strategy = .roundRobin then 1 else slots
  | none => slots

/-- the retained replay of a new non-shared subscription -/
def sweepRetained (s : RState) (req : DataRequest) (slots : Nat) : M (RState × List (Pub × Option Cursor) × Nat) :=
  if req.forwardRetained then
    match readRetained s req.filter with
    | .error e => .error e
    | .ok (s, ps) =>
      let ps := ps.take slots
      .ok (s, ps.map (fun p => (p, none)), slots - ps.length)
  else .ok (s, [], slots)

/-- broker alias chosen for this sweep -/
def sweepAlias (c : Conn) (filter : String) : Option BrokerAliases × Option Nat :=
  match (aliasesFor c filter).bind (fun b => alookup filter b.aliases) with
  | some a => (c.brokerAliases, some a)
  | none => match aliasesFor c filter with
    | none => (c.brokerAliases, none)
    | some b => let (b', a) := b.setNew filter; (some b', a)

/-- the forwards of a sweep before numbering -/
def sweepFwds (c : Conn) (req : DataRequest) (publishes : List (Pub × Option Cursor)) : List (Pub × Option Cursor) :=
  publishes.map (fun pc => (mkForward req.qos (sweepAlias c req.filter).2
    ((aliasesFor c req.filter).bind (fun b => alookup req.filter b.aliases)).isSome (alookup req.filter c.subscriptionIds) pc.1, pc.2))

/-- outgoing state and notifications of a sweep -/
def sweepNotifs (c : Conn) (req : DataRequest) (publishes : List (Pub × Option Cursor)) : Outgoing × List Notif :=
  if req.qos = 0 then (c.out, (sweepFwds c req publishes).map (fun pc => Notif.forward pc.1 pc.2))
  else numberForwards c.out req.filterIdx (sweepFwds c req publishes) []

/-- the group's turn and cursor advance -/
def sweepAdvance (s : RState) (req : DataRequest) (grp : Option SharedGroup) : M RState :=
  match req.group, grp with
  | some gname, some _ =>
    match alookup gname s.shared with
    | none => .ok s
    | some g =>
      match updateNextClient s g with
      | .error e => .error e
      | .ok (s, g) => .ok { s with shared := ainsert gname { g with cursor := req.cursor } s.shared }
  | _, _ => .ok s

/-- push phase -/
def sweepPush (s : RState) (id : Nat) (c : Conn) (req : DataRequest) (grp : Option SharedGroup)
    (publishes : List (Pub × Option Cursor)) (caughtup : Bool) : M (RState × DataRequest × ConsumeStatus) :=
  let s := setConn s id { c with out := (sweepNotifs c req publishes).1, brokerAliases := (sweepAlias c req.filter).1 }
  let s := pushNotifs s c.link (sweepNotifs c req publishes).2
  let len := (getLink s c.link).obuf.length
  match sweepAdvance s req grp with
  | .error e => .error e
  | .ok s =>
    if len ≥ MAX_CHANNEL_CAPACITY - 1 then
      .ok (wakeLink (pushNotifs s c.link [Notif.unschedule]) c.link, req, .bufferFull)
    else
      .ok (wakeLink s c.link, req, if caughtup then .filterCaughtup else .partialRead)

def posNext : CLog.Pos → Cursor × Bool
  | .next _ e => (e, false)
  | .done _ e => (e, true)

/-- the publishes of a sweep: the retained replay, then the entries read from the log -/
def sweepPubs (rp : List (Pub × Option Cursor)) (r : List (Pub × Cursor) × CLog.Pos) : List (Pub × Option Cursor) :=
  rp ++ r.1.map (fun e => (e.1, some e.2))

/-- a shared request is skipped unless it is this client's turn -/
def sweepSkip (c : Conn) (grp : Option SharedGroup) : Bool :=
  match grp with
  | some g => some c.clientId != g.current
  | none => false

/-- the request after the read phase -/
def sweepReq (rq : DataRequest) (r : List (Pub × Cursor) × CLog.Pos) : DataRequest :=
  { rq with forwardRetained := false, cursor := (posNext r.2).1 }

/-- read phase -/
def sweepRead (s : RState) (id : Nat) (c : Conn) (req : DataRequest) (grp : Option SharedGroup)
    (retainedPubs : List (Pub × Option Cursor)) (slots : Nat) : M (RState × DataRequest × ConsumeStatus) :=
  match s.datalog.native[req.filterIdx]? with
  | none => .error (.panic "datalog.native.get(filter_idx).unwrap()")
  | some fd =>
    if sweepSkip c grp then
      .ok (s, { req with forwardRetained := false },
           if (posNext (fd.log.readv req.cursor slots).2).2 then .filterCaughtup else .skipRequest) else
    if (sweepPubs retainedPubs (fd.log.readv req.cursor slots)).isEmpty then
      .ok (s, sweepReq req (fd.log.readv req.cursor slots), .filterCaughtup) else
    sweepPush s id c (sweepReq req (fd.log.readv req.cursor slots)) grp
      (sweepPubs retainedPubs (fd.log.readv req.cursor slots)) (posNext (fd.log.readv req.cursor slots).2).2

theorem forwardDeviceData_eq (s : RState) (id : Nat) (req : DataRequest) :
    forwardDeviceData s id req =
      match getConn s id with
      | none => .error (.panic "connections[id]")
      | some c =>
        let grp := reqGroup s req
        let req := adoptCursor req grp
        if req.qos ≠ 0 && c.out.freeSlots = 0 then .ok (s, req, .inflightFull) else
        match sweepRetained s req (sweepSlots s c req grp) with
        | .error e => .error e
        | .ok (s1, retainedPubs, slots) => sweepRead s1 id c req grp retainedPubs slots := by
  rfl

end Rp3
end Router
