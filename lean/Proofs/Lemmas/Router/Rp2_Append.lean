/-
What `append_to_commitlog` / `handle_last_will` append: ghost events, filter logs, retained map
(C06 release, C15 live copies, C16 will publication).
-/
import Proofs.Lemmas.Router.Rp2_Frame
namespace Router

/-- the `appended` events of a piece of ghost history: (filter index, stored publish) -/
def appendedEvents (g : List Ghost) : List (Nat × Pub) :=
  g.filterMap (fun e => match e with | .appended i _ p => some (i, p) | _ => none)

/-- the `accepted` events of a piece of ghost history -/
def acceptedEvents (g : List Ghost) : List (Option Nat × Pub × String) :=
  g.filterMap (fun e => match e with | .accepted i p t => some (i, p, t) | _ => none)

@[simp] theorem appendedEvents_append (a b : List Ghost) :
    appendedEvents (a ++ b) = appendedEvents a ++ appendedEvents b := by
  simp [appendedEvents]

@[simp] theorem acceptedEvents_append (a b : List Ghost) :
    acceptedEvents (a ++ b) = acceptedEvents a ++ acceptedEvents b := by
  simp [acceptedEvents]

/-- the log of filter `i` -/
def logAt (s : RState) (i : Nat) : Option (CLog.Log Pub) := (s.datalog.native[i]?).map (·.log)

/-- `n` appends of `p` -/
def appendN (p : Pub) : Nat → CLog.Log Pub → CLog.Log Pub
  | 0, l => l
  | n + 1, l => appendN p n (l.append p (pubSize p)).1

/-- the parts of the state `Data::append` does not touch -/
structure AppendFrame (s s' : RState) : Prop where
  retained : s'.datalog.retained = s.datalog.retained
  filterIndexes : s'.datalog.filterIndexes = s.datalog.filterIndexes
  publishFilters : s'.datalog.publishFilters = s.datalog.publishFilters
  nativeLen : s'.datalog.native.length = s.datalog.native.length
  lastWills : s'.lastWills = s.lastWills
  conns : s'.conns = s.conns
  links : s'.links = s.links
  oracle : s'.oracle = s.oracle

theorem AppendFrame.refl (s : RState) : AppendFrame s s := ⟨rfl, rfl, rfl, rfl, rfl, rfl, rfl, rfl⟩

theorem AppendFrame.trans {a b c : RState} (h1 : AppendFrame a b) (h2 : AppendFrame b c) : AppendFrame a c :=
  ⟨h2.retained.trans h1.retained, h2.filterIndexes.trans h1.filterIndexes,
   h2.publishFilters.trans h1.publishFilters, h2.nativeLen.trans h1.nativeLen,
   h2.lastWills.trans h1.lastWills, h2.conns.trans h1.conns, h2.links.trans h1.links,
   h2.oracle.trans h1.oracle⟩

/-- one `Data::append`: exactly one `appended` event, exactly that log grows by the entry -/
theorem appendToFilter_spec {s s' : RState} {i : Nat} {p : Pub} (h : appendToFilter s i p = .ok s') :
    (∃ evs, s'.ghost = s.ghost ++ evs ∧ appendedEvents evs = [(i, p)] ∧ acceptedEvents evs = []) ∧
    (∀ j, logAt s' j = if j = i then (logAt s j).map (fun l => (l.append p (pubSize p)).1) else logAt s j) ∧
    AppendFrame s s' := by
  unfold appendToFilter at h
  split at h
  · simp at h
  · rename_i fd hfd
    simp only [Except.ok.injEq] at h
    subst h
    have hi : i < s.datalog.native.length := by
      by_cases hl : i < s.datalog.native.length
      · exact hl
      · simp [List.getElem?_eq_none (Nat.le_of_not_lt hl)] at hfd
    refine ⟨?_, ?_, ?_⟩
    · split
      · exact ⟨[.evicted i (((fd.log.append p (pubSize p)).1.segs.head?.map (·.abs)).getD 0),
                .appended i ((fd.log.append p (pubSize p)).2.2 - 1) p],
          by simp [RState.g], by simp [appendedEvents], by simp [acceptedEvents]⟩
      · exact ⟨[.appended i ((fd.log.append p (pubSize p)).2.2 - 1) p],
          by simp [RState.g], by simp [appendedEvents], by simp [acceptedEvents]⟩
    · intro j
      have : ∀ (x : RState), x.datalog.native = s.datalog.native.set i
            { fd with log := (fd.log.append p (pubSize p)).1, waiters := [] } →
          logAt x j = if j = i then (logAt s j).map (fun l => (l.append p (pubSize p)).1) else logAt s j := by
        intro x hx
        unfold logAt
        rw [hx]
        by_cases hj : j = i
        · subst hj
          obtain ⟨_, hget⟩ := List.getElem?_eq_some_iff.mp hfd
          simp [hi, hget]
        · simp [hj, List.getElem?_set_ne (Ne.symm hj)]
      split <;> exact this _ rfl
    · split <;> exact ⟨rfl, rfl, rfl, by simp [RState.g], rfl, rfl, rfl, rfl⟩

/-- the loop over the matching filters: one `appended` event per index, in order; log `j` grows
    by as many copies as `j` occurs in the index list -/
theorem appendToFilters_spec : ∀ (idxs : List Nat) {s s' : RState} {p : Pub},
    appendToFilters s idxs p = .ok s' →
    (∃ evs, s'.ghost = s.ghost ++ evs ∧ appendedEvents evs = idxs.map (fun i => (i, p)) ∧ acceptedEvents evs = []) ∧
    (∀ j, logAt s' j = (logAt s j).map (appendN p (idxs.count j))) ∧
    AppendFrame s s'
  | [], s, s', p, h => by
    simp only [appendToFilters, Except.ok.injEq] at h; subst h
    refine ⟨⟨[], by simp, by simp [appendedEvents], by simp [acceptedEvents]⟩, ?_, AppendFrame.refl _⟩
    intro j; cases logAt s j <;> simp [appendN]
  | i :: is, s, s', p, h => by
    simp only [appendToFilters] at h
    split at h
    · simp at h
    · rename_i s1 h1
      obtain ⟨⟨e1, g1, a1, c1⟩, l1, f1⟩ := appendToFilter_spec h1
      obtain ⟨⟨e2, g2, a2, c2⟩, l2, f2⟩ := appendToFilters_spec is h
      refine ⟨⟨e1 ++ e2, by rw [g2, g1, List.append_assoc], by simp [a1, a2], by simp [c1, c2]⟩, ?_, f1.trans f2⟩
      intro j
      rw [l2 j, l1 j]
      by_cases hj : j = i
      · subst hj
        cases logAt s j <;> simp [appendN]
      · have : i ≠ j := fun e => hj e.symm
        simp [hj, List.count_cons, this]

theorem updateRetained_same (s : RState) (topic : String) (p : Pub) :
    (updateRetained s topic p).ghost = s.ghost ∧ (updateRetained s topic p).datalog.native = s.datalog.native ∧
    (updateRetained s topic p).datalog.filterIndexes = s.datalog.filterIndexes ∧
    (updateRetained s topic p).datalog.publishFilters = s.datalog.publishFilters ∧
    (updateRetained s topic p).lastWills = s.lastWills ∧ (updateRetained s topic p).conns = s.conns ∧
    (updateRetained s topic p).oracle = s.oracle := by
  unfold updateRetained
  simp only []
  split
  · simp
  · split <;> simp

theorem dlMatches_same {s s' : RState} {topic : String} {v : List Nat} (h : dlMatches s topic = .ok (s', v)) :
    s'.ghost = s.ghost ∧ s'.datalog.native = s.datalog.native ∧ s'.datalog.retained = s.datalog.retained ∧
    s'.datalog.filterIndexes = s.datalog.filterIndexes := by
  unfold dlMatches at h
  split at h
  · simp only [Except.ok.injEq, Prod.mk.injEq] at h; obtain ⟨rfl, _⟩ := h; simp
  · split at h
    · simp only [] at h
      split at h
      · simp only [Except.ok.injEq, Prod.mk.injEq] at h; obtain ⟨rfl, _⟩ := h
        refine ⟨rfl, ?_, ?_, ?_⟩ <;> (simp only []; split <;> rfl)
      · simp at h
    · simp at h

/-- the index list `matches` returns has, for every filter index, the multiplicity it has among
    the matching filters (cache miss; on a hit the cached list is returned) -/
theorem dlMatches_count {s s' : RState} {topic : String} {v : List Nat}
    (hcache : alookup topic s.datalog.publishFilters = none) (h : dlMatches s topic = .ok (s', v)) :
    ∀ j, v.count j = ((s.datalog.filterIndexes.filter (fun p => topicMatches topic p.1)).map (·.2)).count j := by
  unfold dlMatches at h
  simp only [hcache] at h
  split at h
  · rename_i v0 rest hor
    split at h
    · rename_i hs
      simp only [Except.ok.injEq, Prod.mk.injEq] at h
      have hv : v0 = v := h.2
      subst hv
      intro j
      unfold sameMembers at hs
      simp only [Bool.and_eq_true, beq_iff_eq, List.all_eq_true] at hs
      obtain ⟨hab, hba⟩ := hs
      by_cases hm : j ∈ v0
      · exact hab j hm
      · by_cases hm2 : j ∈ ((s.datalog.filterIndexes.filter (fun p => topicMatches topic p.1)).map (·.2))
        · exact hba j hm2
        · rw [List.count_eq_zero_of_not_mem hm, List.count_eq_zero_of_not_mem hm2]
    · simp at h
  · simp at h

/-- the publish `append_to_commitlog` stores: alias dropped, topic possibly resolved from the
    alias table; everything else as sent -/
structure SamePublish (p q : Pub) : Prop where
  qos : q.qos = p.qos
  pkid : q.pkid = p.pkid
  retain : q.retain = p.retain
  dup : q.dup = p.dup
  payload : q.payload = p.payload
  topic : p.topic ≠ [] → q.topic = p.topic

/-- a successful `append_to_commitlog`: the publish is accepted once (one `accepted` event), the
    retained map is updated with the publish as sent, the copies appended to the logs of the
    filters `matches` returned are unflagged -/
theorem appendToCommitlog_ok {s s' : RState} {id : Nat} {p : Pub}
    (h : appendToCommitlog s id p = .ok (s', none)) :
    ∃ (q : Pub) (topic : String) (s0 s1 : RState) (idxs : List Nat) (evs : List Ghost),
      SamePublish p q ∧ utf8? q.topic = some topic ∧
      s0.datalog = s.datalog ∧ s0.ghost = s.ghost ∧ s0.oracle = s.oracle ∧
      dlMatches ((updateRetained s0 topic q).g (.accepted (some id) q topic)) topic = .ok (s1, idxs) ∧
      s'.ghost = s.ghost ++ [.accepted (some id) q topic] ++ evs ∧
      appendedEvents evs = idxs.map (fun i => (i, { q with retain := false })) ∧ acceptedEvents evs = [] ∧
      s'.datalog.retained = (updateRetained s0 topic q).datalog.retained ∧
      (∀ j, logAt s' j = (logAt s j).map (appendN { q with retain := false } (idxs.count j))) := by
  unfold appendToCommitlog at h
  split at h
  · simp at h
  · rename_i c hc
    simp only [] at h
    split at h
    · simp at h
    · split at h
      · simp at h
      · rename_i s0 q hr
        have hq : SamePublish p q ∧ s0.datalog = s.datalog ∧ s0.ghost = s.ghost ∧ s0.oracle = s.oracle := by
          split at hr
          · simp only [Except.ok.injEq, Prod.mk.injEq] at hr; obtain ⟨rfl, rfl⟩ := hr
            exact ⟨⟨rfl, rfl, rfl, rfl, rfl, fun _ => rfl⟩, rfl, rfl, rfl⟩
          · split at hr
            · simp at hr
            · split at hr
              · rename_i hempty
                split at hr
                · simp at hr
                · simp only [Except.ok.injEq, Prod.mk.injEq] at hr; obtain ⟨rfl, rfl⟩ := hr
                  refine ⟨⟨rfl, rfl, rfl, rfl, rfl, fun hne => ?_⟩, rfl, rfl, rfl⟩
                  simp at hempty; exact absurd hempty hne
              · split at hr
                · simp at hr
                · simp only [Except.ok.injEq, Prod.mk.injEq] at hr; obtain ⟨rfl, rfl⟩ := hr
                  exact ⟨⟨rfl, rfl, rfl, rfl, rfl, fun _ => rfl⟩, rfl, rfl, rfl⟩
        split at h
        · simp at h
        · rename_i topic ht
          split at h
          · simp at h
          · rename_i s1 idxs h1
            split at h
            · simp at h
            · rename_i s2 h2
              simp only [Except.ok.injEq, Prod.mk.injEq, and_true] at h; subst h
              obtain ⟨⟨evs, g2, a2, c2⟩, l2, f2⟩ := appendToFilters_spec idxs h2
              have d1 := dlMatches_same h1
              have u := updateRetained_same s0 topic q
              refine ⟨q, topic, s0, s1, idxs, evs, hq.1, ht, hq.2.1, hq.2.2.1, hq.2.2.2, h1, ?_, a2, c2, ?_, ?_⟩
              · rw [g2, d1.1]; simp [RState.g, u.1, hq.2.2.1]
              · rw [f2.retained, d1.2.2.1]; rfl
              · intro j
                rw [l2 j]
                have : logAt s1 j = logAt s j := by
                  unfold logAt; rw [d1.2.1]
                  show ((updateRetained s0 topic q).datalog.native[j]?).map _ = _
                  rw [u.2.1, hq.2.1]
                rw [this]

end Router
