/-
C20 — towards the reachable-state invariant for `Emittable` (round 11, PARTIAL): the hypotheses of
`C20.sweep_forwards_emittable_partial` about the CONNECTION (`AliasesOk`, subscription identifiers in range)
are kept by the sweeps (`consume`), by every packet other than SUBSCRIBE / UNSUBSCRIBE, by last wills,
shadow requests and the wake-ups.
-/
import Proofs.Lemmas.Router.Rp17_Consume
namespace Router
open Encode Codec

def ConnsOk (s : RState) : Prop := ∀ j c, getConn s j = some c → ConnOk c

theorem ConnOk.sid {c : Conn} (h : ConnOk c) (f : String) : ∀ i, alookup f c.subscriptionIds = some i → i ≤ remainingLimit :=
  fun i hi => h.2 (f, i) (mem_of_alookup hi)

/-- a step that keeps every connection (`KConn`) and creates none keeps `ConnsOk` -/
theorem ConnsOk.of_kconn {s s' : RState} (h : ConnsOk s) (m : KConn s s')
    (hb : ∀ j c', getConn s' j = some c' → ∃ c, getConn s j = some c) : ConnsOk s' := by
  intro j c' hc'
  obtain ⟨c, hc⟩ := hb j c' hc'
  obtain ⟨c1, hc1, e1⟩ := m j c hc
  rw [hc'] at hc1; cases hc1
  exact e1 (h j c hc)

theorem ConnsOk.of_shape {R : Nat → Conn → Conn → Prop} {s s' : RState} (h : ConnsOk s) (m : KConn s s') (sh : Shape R s s') :
    ConnsOk s' :=
  h.of_kconn m fun j c' hc' => by
    obtain ⟨c, hc, _⟩ := sh.live' hc'
    exact ⟨c, hc⟩

/-- `consume` — every sweep of every request of the served connection, the flush, the wake-ups — keeps the
    connection-side hypotheses for every connection -/
theorem consume_connsOk {s s' : RState} {b : Bool} (h : ConnsOk s) (hc : consume s = .ok (s', b)) : ConnsOk s' := by
  have m := consume_kconn hc
  rcases consume_shape hc with ⟨_, hcore⟩ | ⟨id, _, sh⟩
  · exact h.of_kconn m fun j c' hc' => ⟨c', by rw [← hcore.getConn j]; exact hc'⟩
  · exact h.of_shape m sh

/-- a packet other than SUBSCRIBE / UNSUBSCRIBE keeps them -/
theorem handlePacket_connsOk_other {s s' : RState} {id : Nat} {cid : String} {pkt : Packet} {fl fl' : Flags}
    (hns : ∀ a b c, pkt ≠ .subscribe a b c) (hnu : ∀ a b, pkt ≠ .unsubscribe a b)
    (h : ConnsOk s) (hp : handlePacket s id cid pkt fl = .ok (s', fl')) : ConnsOk s' :=
  h.of_shape (handlePacket_kstep hns hnu hp).conn (handlePacket_shape hp)

/-! ### SUBSCRIBE / UNSUBSCRIBE -/

theorem pfConn_ok {c : Conn} {path : String} {subId : Option Nat} (hs : ∀ i, subId = some i → i ≤ remainingLimit)
    (subs : List String) (h : ConnOk c) : ConnOk { pfConn c path subId with subscriptions := subs } := by
  cases subId with
  | none => exact h
  | some i =>
    refine ⟨h.1, fun p hp => ?_⟩
    have hp' : p ∈ ainsert path i c.subscriptionIds := hp
    rcases mem_ainsert hp' with h0 | rfl
    · exact h.2 p h0
    · exact hs i rfl

theorem ufConn_ok {d : DataLog} {c : Conn} {f : String} (h : ConnOk c) : ConnOk (ufConn d c f) := by
  refine ⟨fun b hb => ?_, fun p hp => h.2 p (mem_aremove (show p ∈ aremove f c.subscriptionIds from hp))⟩
  have hb' : c.brokerAliases.map (fun b => BrokerAliases.removeAlias b f) = some b := hb
  cases hc : c.brokerAliases with
  | none => rw [hc] at hb'; cases hb'
  | some b0 =>
    rw [hc] at hb'
    simp only [Option.map_some, Option.some.injEq] at hb'
    obtain ⟨hmax, hall⟩ := h.1 b0 hc
    subst hb'
    unfold BrokerAliases.removeAlias
    split
    · exact ⟨hmax, hall⟩
    · exact ⟨hmax, fun q hq => hall q (mem_aremove hq)⟩

theorem prepareFilter_kconn {s s' : RState} {id : Nat} {cursor : Cursor} {idx : Nat} {f : SubFilter}
    {group : Option String} {subId : Option Nat} (hs : ∀ i, subId = some i → i ≤ remainingLimit)
    (h : prepareFilter s id cursor idx f group subId = .ok s') : KConn s s' := by
  rw [prepareFilter_eq] at h
  split at h
  · simp at h
  · rename_i c hc
    simp only [] at h
    split at h
    · simp only [Except.ok.injEq] at h; subst h
      exact KConn.of_setk (s := s) (c' := pfConn c f.path subId) hc rfl (fun x => pfConn_ok hs c.subscriptions x)
    · split at h
      · simp at h
      · rename_i s3 h3
        unfold pfTail at h
        split at h
        · simp at h
        · rename_i s4 h4
          have e : s' = s4 := by
            split at h
            · simp only [Except.ok.injEq] at h; exact h.symm
            · split at h
              · simp only [Except.ok.injEq] at h; exact h.symm
              · simp at h
          subst e
          have a : KConn s (setConn ((pfState s id cursor f.path group c.clientId).g
              (.subscribed id f.path f.qos idx cursor group true)) id
              { pfConn c f.path subId with subscriptions := c.subscriptions ++ [f.path] }) :=
            KConn.of_setk (s := s) (c' := { pfConn c f.path subId with subscriptions := c.subscriptions ++ [f.path] })
              hc rfl (pfConn_ok hs _)
          exact (a.trans (track_kstep h3).conn).trans (reschedule_kstep h4).conn

theorem subscribeFilters_kconn {id : Nat} {subId : Option Nat} (hs : ∀ i, subId = some i → i ≤ remainingLimit) :
    ∀ (fs : List SubFilter) {s s' : RState} {codes codes' : List Nat} {fl fl' : Flags},
    subscribeFilters s id subId fs codes fl = .ok (s', codes', fl') → KConn s s'
  | [], s, s', codes, codes', fl, fl', h => by
    simp only [subscribeFilters, Except.ok.injEq, Prod.mk.injEq] at h; obtain ⟨rfl, _, _⟩ := h
    exact KConn.refl _
  | f :: rest, s, s', codes, codes', fl, fl', h => by
    rw [subscribeFilters_cons] at h
    split at h
    · simp only [Except.ok.injEq, Prod.mk.injEq] at h; obtain ⟨rfl, _, _⟩ := h
      exact KConn.refl _
    · split at h
      · simp only [Except.ok.injEq, Prod.mk.injEq] at h; obtain ⟨rfl, _, _⟩ := h
        exact KConn.refl _
      · simp only [] at h
        split at h
        · simp at h
        · rename_i s1 h1
          exact ((nextNativeOffset_kstep s _).conn.trans (prepareFilter_kconn hs h1)).trans
            (subscribeFilters_kconn hs rest h)

theorem ufState_kconn {s : RState} {id : Nat} {ids : List Nat} {c : Conn} {f : String} (hc : getConn s id = some c) :
    KConn s (ufState s id ids c f) :=
  KConn.of_setk (c' := ufConn s.datalog c f) hc rfl (fun x => ufConn_ok x)

theorem unsubscribeFilters_kconn {id : Nat} : ∀ (fs : List String) {s s' : RState} {rs rs' : List Bool},
    unsubscribeFilters s id fs rs = .ok (s', rs') → KConn s s'
  | [], s, s', rs, rs', h => by
    simp only [unsubscribeFilters, Except.ok.injEq, Prod.mk.injEq] at h
    obtain ⟨rfl, _⟩ := h; exact KConn.refl _
  | f :: rest, s, s', rs, rs', h => by
    rw [unsubscribeFilters_cons] at h
    split at h
    · exact unsubscribeFilters_kconn rest h
    · split at h
      · exact unsubscribeFilters_kconn rest h
      · split at h
        · simp at h
        · rename_i c hc
          split at h
          · have a := unsubscribeFilters_kconn rest h
            exact (KConn.of_conns rfl).trans a
          · have a := unsubscribeFilters_kconn rest h
            exact (ufState_kconn hc).trans a

/-- every packet in range keeps the connection-side hypotheses of every connection -/
theorem handlePacket_connsOk {s s' : RState} {id : Nat} {cid : String} {pkt : Packet} {fl fl' : Flags}
    (hok : PacketOk pkt = true) (h : ConnsOk s) (hp : handlePacket s id cid pkt fl = .ok (s', fl')) : ConnsOk s' := by
  have sh := handlePacket_shape hp
  cases pkt with
  | subscribe pkid subId fs =>
    have hs : ∀ i, subId = some i → i ≤ remainingLimit := by
      intro i hi; subst hi
      simp only [PacketOk, Bool.and_eq_true, decide_eq_true_eq] at hok
      exact hok.2
    refine h.of_shape ?_ sh
    simp only [handlePacket] at hp
    split at hp
    · simp at hp
    · rename_i s1 codes fl1 h1
      split at hp
      · simp at hp
      · rename_i s2 h2
        simp only [Except.ok.injEq, Prod.mk.injEq] at hp; obtain ⟨rfl, _⟩ := hp
        exact (subscribeFilters_kconn hs fs h1).trans (commitAck_kstep h2).conn
  | unsubscribe pkid fs =>
    refine h.of_shape ?_ sh
    simp only [handlePacket] at hp
    split at hp
    · simp at hp
    · split at hp
      · simp at hp
      · rename_i s1 rs h1
        split at hp
        · simp at hp
        · rename_i s2 h2
          simp only [Except.ok.injEq, Prod.mk.injEq] at hp; obtain ⟨rfl, _⟩ := hp
          exact (unsubscribeFilters_kconn fs h1).trans (commitAck_kstep h2).conn
  | publish p => exact handlePacket_connsOk_other (fun _ _ _ e => by cases e) (fun _ _ e => by cases e) h hp
  | puback k => exact handlePacket_connsOk_other (fun _ _ _ e => by cases e) (fun _ _ e => by cases e) h hp
  | pubrec k => exact handlePacket_connsOk_other (fun _ _ _ e => by cases e) (fun _ _ e => by cases e) h hp
  | pubrel k b => exact handlePacket_connsOk_other (fun _ _ _ e => by cases e) (fun _ _ e => by cases e) h hp
  | pubcomp k => exact handlePacket_connsOk_other (fun _ _ _ e => by cases e) (fun _ _ e => by cases e) h hp
  | pingreq => exact handlePacket_connsOk_other (fun _ _ _ e => by cases e) (fun _ _ e => by cases e) h hp
  | disconnect => exact handlePacket_connsOk_other (fun _ _ _ e => by cases e) (fun _ _ e => by cases e) h hp
  | other => exact handlePacket_connsOk_other (fun _ _ _ e => by cases e) (fun _ _ e => by cases e) h hp

/-! ### batches, events -/

theorem ConnsOk.congr {s s' : RState} (h : ConnsOk s) (e : s'.conns = s.conns) : ConnsOk s' :=
  fun j c hc => h j c (by unfold getConn at hc ⊢; rw [← e]; exact hc)

theorem handlePackets_connsOk {id : Nat} {cid : String} : ∀ (ps : List Packet) {s s' : RState} {fl fl' : Flags},
    (∀ p ∈ ps, PacketOk p = true) → ConnsOk s → handlePackets s id cid ps fl = .ok (s', fl') → ConnsOk s'
  | [], s, s', fl, fl', _, h, hp => by
    simp only [handlePackets, Except.ok.injEq, Prod.mk.injEq] at hp; obtain ⟨rfl, _⟩ := hp; exact h
  | p :: rest, s, s', fl, fl', hok, h, hp => by
    simp only [handlePackets] at hp
    split at hp
    · simp at hp
    · rename_i s1 fl1 h1
      have a1 := handlePacket_connsOk (hok p List.mem_cons_self) h h1
      split at hp
      · simp only [Except.ok.injEq, Prod.mk.injEq] at hp; obtain ⟨rfl, _⟩ := hp; exact a1
      · exact handlePackets_connsOk rest (fun q hq => hok q (List.mem_cons_of_mem _ hq)) a1 hp

theorem handleDisconnection_connsOk {s s' : RState} {id : Nat} {r : Option String} (h : ConnsOk s)
    (hd : handleDisconnection s id r = .ok s') : ConnsOk s' := by
  cases hc : getConn s id with
  | none => rw [handleDisconnection_missing s id r hc] at hd; cases hd; exact h
  | some c =>
    rw [Router.handleDisconnection_eq] at hd
    simp only [hc] at hd
    have h0 : ConnsOk (hdFinal s id c r) := by
      intro j d hd'
      obtain ⟨k1, _⟩ := hdFinal_fields s id c r
      have hget : getConn (hdFinal s id c r) j = if j = id then none else getConn s j := by
        unfold getConn; rw [k1, Slab.get?_remove]
      rw [hget] at hd'
      split at hd'
      · cases hd'
      · exact h j d hd'
    exact h0.of_shape (wakeParked_kstep hd).conn (wakeParked_shape hd)

/-- a DeviceData event whose batch is in range keeps the connection-side hypotheses -/
theorem handleDevicePayload_connsOk {s s' : RState} {id : Nat} (h : ConnsOk s)
    (hib : ∀ c, getConn s id = some c → ∀ p ∈ (getLink s c.link).ibuf, PacketOk p = true)
    (hp : handleDevicePayload s id = .ok s') : ConnsOk s' := by
  unfold handleDevicePayload at hp
  split at hp
  · simp only [Except.ok.injEq] at hp; subst hp; exact h
  · rename_i c hc
    simp only [] at hp
    have h0 : ConnsOk (setLink s c.link { getLink s c.link with ibuf := [] }) := h.congr rfl
    split at hp
    · simp at hp
    · rename_i s1 fl h1
      have q1 := handlePackets_connsOk _ (hib c hc) h0 h1
      split at hp
      · simp at hp
      · rename_i s2 h2
        have q2 : ConnsOk s2 := by
          split at h2
          · exact q1.of_shape (reschedule_kstep h2).conn (reschedule_shape h2)
          · simp only [Except.ok.injEq] at h2; subst h2; exact q1
        split at hp
        · simp at hp
        · rename_i s3 h3
          have q3 : ConnsOk s3 := by
            split at h3
            · exact (q2.congr (s' := { s2 with notifications := [] }) rfl).of_shape
                (drainNotifications_kstep _ h3).conn (drainNotifications_shape _ h3)
            · simp only [Except.ok.injEq] at h3; subst h3; exact q2
          split at hp
          · simp at hp
          · rename_i s4 h4
            have q4 := q3.of_shape (wakeTurnMoved_kstep h4).conn (wakeTurnMoved_shape h4)
            split at hp
            · exact handleDisconnection_connsOk q4 hp
            · simp only [Except.ok.injEq] at hp; subst hp; exact q4

/-- every link's incoming buffer holds packets in range -/
def IbufOk (s : RState) : Prop := ∀ l, ∀ p ∈ (getLink s l).ibuf, PacketOk p = true

/-- PARTIAL step lemma: every op other than CONNECT keeps the connection-side hypotheses of
    `sweep_forwards_emittable_partial` for every connection, given that the packets waiting in the links'
    incoming buffers are in range -/
theorem step_connsOk_partial {s s' : RState} {op : Op} {out : Out} (h : ConnsOk s) (hib : IbufOk s)
    (hnc : ∀ spec, op ≠ .connect spec) (hs : step s op = .ok (s', out)) : ConnsOk s' := by
  cases step_cases hs with
  | connect spec _ => exact absurd rfl (hnc spec)
  | push l p hcore => exact h.congr hcore.1
  | drain l hcore => exact h.congr hcore.1
  | consume b hc => exact consume_connsOk h hc
  | event id ev he =>
    cases ev with
    | deviceData => exact handleDevicePayload_connsOk h (fun c _ => hib c.link) he
    | ready =>
      simp only [events] at he
      split at he
      · exact h.of_shape (reschedule_kstep he).conn (reschedule_shape he)
      · simp only [Except.ok.injEq] at he; subst he; exact h
    | disconnect => exact handleDisconnection_connsOk (id := id) (r := none) h he
    | publishWill w =>
      have he' : handleLastWill s w = .ok s' := he
      exact h.of_shape (handleLastWill_kstep he').conn (handleLastWill_shape he')
    | shadow f =>
      have he' : handleShadow s id f = .ok s' := he
      exact h.congr (handleShadow_core he').1
    | sendMeters => simp only [events, Except.ok.injEq] at he; subst he; exact h
    | sendAlerts => simp only [events, Except.ok.injEq] at he; subst he; exact h

/-! ### CONNECT -/

theorem hnRegister_connsOk {s s' : RState} {spec : ConnectSpec} (hs : ConnsOk s) (ha : AdmInv s)
    (hmax : spec.aliasMax < 65536)
    (hnone : alookup spec.clientId s.connectionMap = none) (hroom : s.conns.len < s.config.maxConnections)
    (h : hnRegister s spec = .ok s') : ConnsOk s' := by
  obtain ⟨_, hre⟩ := hnRegister_ok h
  obtain ⟨e1, e2, e3⟩ := hnPre_core s spec
  obtain ⟨_, hvac, hnew, hold⟩ := AdmInv.register (conn' := { hnConn spec (hnRestored s spec) with
      acks := { committed := hnAcks spec (hnKey s spec) (hnSession s spec).isSome (hnRestored s spec) } })
    ha hnone hroom rfl e1 e2 e3
  have hnew' : getConn (hnPre s spec) (hnKey s spec) = some _ := hnew
  have hold' : ∀ j, j ≠ hnKey s spec → getConn (hnPre s spec) j = getConn s j := hold
  have h0 : ConnsOk (hnPre s spec) := by
    intro j d hd'
    by_cases hj : j = hnKey s spec
    · subst hj; rw [hnew'] at hd'; cases hd'
      refine ⟨fun b hb => ?_, fun p hp => by cases hp⟩
      have hb' : (if spec.aliasMax > 0 then some (BrokerAliases.new spec.aliasMax) else none) = some b := hb
      split at hb'
      · simp only [Option.some.injEq] at hb'; subst hb'
        exact ⟨hmax, fun q hq => by cases hq⟩
      · cases hb'
    · rw [hold' j hj] at hd'; exact hs j d hd'
  exact h0.of_shape (reschedule_kstep hre).conn (reschedule_shape hre)

theorem handleNewConnection_connsOk {s s' : RState} {spec : ConnectSpec} (hb : BInv s) (ha : AdmInv s) (hs : ConnsOk s)
    (hmax : spec.aliasMax < 65536) (h : handleNewConnection s spec = .ok s') : ConnsOk s' := by
  rw [Router.handleNewConnection_eq] at h
  simp only [] at h
  have h0 : BInv (setLink s spec.link {}) := ⟨hb.1.congr rfl rfl rfl rfl rfl rfl rfl, hb.2⟩
  have a0 : AdmInv (setLink s spec.link {}) := ha.congr rfl rfl rfl
  have s0 : ConnsOk (setLink s spec.link {}) := hs.congr rfl
  split at h
  · simp only [Except.ok.injEq] at h; subst h
    exact s0.congr rfl
  · split at h
    · simp at h
    · rename_i s1 h1
      obtain ⟨a1, hnone, _⟩ := hnTakeover_spec a0 h1
      have t1 : ConnsOk s1 := by
        unfold hnTakeover at h1
        split at h1
        · exact handleDisconnection_connsOk s0 h1
        · simp only [Except.ok.injEq] at h1; subst h1; exact s0
      split at h
      · simp only [Except.ok.injEq] at h; subst h
        exact t1.congr rfl
      · exact hnRegister_connsOk t1 a1 hmax hnone (by omega) h

/-- input-range hypothesis on an op, with CONNECT: `topic_alias_max` is a `u16` -/
def OpOkC : Op → Bool
  | .connect spec => decide (spec.aliasMax < 65536)
  | op => OpOk op

/-- one step from a reachable state keeps the connection-side hypotheses of `sweep_forwards_emittable_partial`
    (`AliasesOk`, subscription identifiers in range) for every connection, if the op is in range (`OpOkC`) and
    the packets waiting in the links' incoming buffers are in range (`IbufOk`) -/
theorem step_connsOk {cfg : Config} {s s' : RState} {ch : List Choice} {op : Op} {out : Out} (hr : Reachable cfg s)
    (h : ConnsOk s) (hib : IbufOk s) (hop : OpOkC op = true)
    (hs : step { s with oracle := ch } op = .ok (s', out)) : ConnsOk s' := by
  have h' : ConnsOk { s with oracle := ch } := h.congr rfl
  have hib' : IbufOk { s with oracle := ch } := hib
  cases op with
  | connect spec =>
    cases step_cases hs with
    | connect _ hc =>
      have h3 := (Inv3.reachable hr).oracle ch
      simp only [OpOkC, decide_eq_true_eq] at hop
      exact handleNewConnection_connsOk h3.inv2.binv h3.inv2.inv1.adm h' hop hc
  | push l p => exact step_connsOk_partial h' hib' (fun _ e => by cases e) hs
  | event id ev => exact step_connsOk_partial h' hib' (fun _ e => by cases e) hs
  | consume => exact step_connsOk_partial h' hib' (fun _ e => by cases e) hs
  | drain l => exact step_connsOk_partial h' hib' (fun _ e => by cases e) hs

end Router
