/-
C14 (isolation at run level): premises on client X's OWN ops only (`OwnOp` / `OwnRun`), the retention
proviso as a separate premise (`RetRun`); whatever the other ids do, X's connection stays
(`own_step`, `OwnRun.survives`, `OwnRun.along`), and the premises of `C01.delivery_is_prefix`
(`QuietRun`) follow.
-/
import Proofs.Lemmas.Router.Rp13_Consume
namespace Router
open Router.Rp3

/-- X's batch of packets does not close X's own connection (no DISCONNECT packet, no protocol
    violation, no bad ack, no failed append): the DeviceData event for `a` leaves `a` registered -/
def NotClosing (a : Nat) (t : RState) : Prop := ∀ t', handleDevicePayload t a = .ok t' → getConn t' a ≠ none

/-- the premises on an op of a run, in the state `t` it is applied to. They constrain ops that are X's
    own — a CONNECT under X's client id (which would take X's connection over), events on X's
    connection id — and nothing else:
    * no `Disconnect` event for X's id (X's link ends X's connection: X's own choice; this also is the
      premise that excludes the recorded exception — a stale Disconnect for a REUSED slot id closes the
      new connection in that slot);
    * a `DeviceData` event for X's id carries no UNSUBSCRIBE of `f` and does not close X's connection.
    Ops of all other ids — any event for any other id, live, removed or never used, CONNECTs of other
    client ids (takeovers among themselves included), `consume`, link pushes and drains — are
    unconstrained. -/
def OwnOp (a : Nat) (cid f : String) (t : RState) : Op → Prop
  | .connect spec => spec.clientId ≠ cid
  | .event id ev => id = a → ev ≠ .disconnect ∧
      (ev = .deviceData → (∀ c, getConn t a = some c → ∀ p ∈ (getLink t c.link).ibuf, f ∉ pktUnsubs p) ∧ NotClosing a t)
  | _ => True

/-- `OwnOp` for every op of a run (each in the state it is applied to, with its oracle) -/
def OwnRun (a : Nat) (cid f : String) : RState → List (Op × List Choice) → Prop
  | _, [] => True
  | s, (op, ch) :: rest => OwnOp a cid f { s with oracle := ch } op ∧
      ∀ s' out, step { s with oracle := ch } op = .ok (s', out) → OwnRun a cid f s' rest

/-- the retention proviso: the cursor of X's request for `f` stands in a segment its log still retains -/
def Retained (a : Nat) (f : String) (t : RState) : Prop :=
  ∀ r, Own t a r → r.filter = f → ∀ fd, t.datalog.native[r.filterIdx]? = some fd → (CommitLog.logC fd.log).head ≤ r.cursor.1

/-- the retention proviso at every state of a run -/
def RetRun (a : Nat) (f : String) : RState → List (Op × List Choice) → Prop
  | s, [] => Retained a f s
  | s, (op, ch) :: rest => Retained a f s ∧
      ∀ s' out, step { s with oracle := ch } op = .ok (s', out) → RetRun a f s' rest

/-- one step, seen from connection `a` (client id `cid`), under `OwnOp`: the connection stays with its
    identity; its subscriptions change at most in its own DeviceData event; apart from that event and
    `consume` nothing but its tracker changes -/
theorem own_step {cfg : Config} {s s' : RState} {ch : List Choice} {op : Op} {out : Out} {a : Nat} {c : Conn}
    {f : String} (hr : Reachable cfg s) (hc : getConn s a = some c)
    (ho : OwnOp a c.clientId f { s with oracle := ch } op)
    (h : step { s with oracle := ch } op = .ok (s', out)) :
    ∃ c', getConn s' a = some c' ∧ c.sameId c' ∧
      (op ≠ .event a .deviceData → c'.subscriptions = c.subscriptions) ∧
      (op ≠ .event a .deviceData → (op = .consume → polled { s with oracle := ch } ≠ some a) →
        ∃ t, c' = { c with tracker := t }) := by
  have hc' : getConn { s with oracle := ch } a = some c := hc
  have tr : (∃ t, getConn s' a = some { c with tracker := t }) →
      ∃ c', getConn s' a = some c' ∧ c.sameId c' ∧
        (op ≠ .event a .deviceData → c'.subscriptions = c.subscriptions) ∧
        (op ≠ .event a .deviceData → (op = .consume → polled { s with oracle := ch } ≠ some a) →
          ∃ t, c' = { c with tracker := t }) :=
    fun ⟨t, ht⟩ => ⟨_, ht, ⟨rfl, rfl, rfl, rfl⟩, fun _ => rfl, fun _ _ => ⟨t, rfl⟩⟩
  cases op with
  | connect spec =>
    have ha : AdmInv { s with oracle := ch } := (AdmInv.reachable hr).oracle ch
    cases step_cases h with
    | connect _ h' =>
      refine tr (handleNewConnection_frame ha h' hc' fun e => ?_)
      obtain ⟨d, hd, e'⟩ := ha.map.1 _ _ e
      rw [hc'] at hd; cases hd
      exact ho e'.symm
  | push l p => exact tr ⟨c.tracker, by rw [step_push_drain_frame h (.inl ⟨l, p, rfl⟩) a]; exact hc⟩
  | drain l => exact tr ⟨c.tracker, by rw [step_push_drain_frame h (.inr ⟨l, rfl⟩) a]; exact hc⟩
  | consume =>
    cases step_cases h with
    | consume b h' =>
      obtain ⟨c1, hc1, hid, ht⟩ := consume_frame h' hc'
      obtain ⟨c2, hc2, _, hsub⟩ := consume_econn h' a c hc'
      rw [hc1] at hc2; cases hc2
      exact ⟨c1, hc1, hid, fun _ => hsub, fun _ hp => ht (hp rfl)⟩
  | event id ev =>
    cases step_cases h with
    | event _ _ h' =>
      by_cases hj : a = id
      · subst hj
        obtain ⟨hnd, hdd⟩ := ho rfl
        cases ev with
        | disconnect => exact absurd rfl hnd
        | deviceData =>
          obtain ⟨_, hncl⟩ := hdd rfl
          have h'' : handleDevicePayload { s with oracle := ch } a = .ok s' := h'
          obtain ⟨s1, sh, hcase⟩ := handleDevicePayload_split h''
          rcases hcase with rfl | ⟨r, hd⟩
          · obtain ⟨c1, hc1, rel⟩ := sh.live hc'
            exact ⟨c1, hc1, rel.1, fun hne => absurd rfl hne, fun hne => absurd rfl hne⟩
          · exact absurd (handleDisconnection_gone hd) (hncl s' h'')
        | ready =>
          simp only [events] at h'
          split at h'
          · obtain ⟨c0, t, woke, hc0, _, hs'⟩ := reschedule_ok h'
            rw [hc'] at hc0; cases hc0
            refine tr ⟨t, ?_⟩
            subst hs'
            split <;> exact getConn_setConn_live hc' _ a |>.trans (by simp)
          · simp only [Except.ok.injEq] at h'; subst h'; exact tr ⟨c.tracker, hc⟩
        | publishWill w =>
          have h'' : handleLastWill { s with oracle := ch } w = .ok s' := h'
          obtain ⟨c1, hc1, t, rfl⟩ := (handleLastWill_shape h'').live hc'
          exact tr ⟨t, hc1⟩
        | shadow g =>
          have h'' : handleShadow { s with oracle := ch } a g = .ok s' := h'
          exact tr ⟨c.tracker, by rw [(handleShadow_core h'').getConn a]; exact hc⟩
        | sendMeters => simp only [events, Except.ok.injEq] at h'; subst h'; exact tr ⟨c.tracker, hc⟩
        | sendAlerts => simp only [events, Except.ok.injEq] at h'; subst h'; exact tr ⟨c.tracker, hc⟩
      · exact tr (events_frame h' hj hc')

/-- over a run under `OwnRun`: the connection stays with its identity; its subscriptions are the same
    unless the run contains a DeviceData event of the connection itself -/
theorem OwnRun.survives {cfg : Config} {a : Nat} {f : String} : ∀ (ops : List (Op × List Choice)) {s s2 : RState} {c : Conn},
    Reachable cfg s → getConn s a = some c → OwnRun a c.clientId f s ops → run s ops = .ok s2 →
    Reachable cfg s2 ∧ ∃ c2, getConn s2 a = some c2 ∧ c.sameId c2 ∧
      ((∀ ch, (Op.event a .deviceData, ch) ∉ ops) → c2.subscriptions = c.subscriptions)
  | [], s, s2, c, hr, hc, _, hrun => by
    simp only [run, Except.ok.injEq] at hrun; subst hrun
    exact ⟨hr, c, hc, ⟨rfl, rfl, rfl, rfl⟩, fun _ => rfl⟩
  | (op, ch) :: rest, s, s2, c, hr, hc, ho, hrun => by
    simp only [run] at hrun
    split at hrun
    · simp at hrun
    · rename_i s1 out hs
      obtain ⟨c1, hc1, hid, hsub, _⟩ := own_step hr hc ho.1 hs
      have ho1 : OwnRun a c1.clientId f s1 rest := by rw [hid.1]; exact ho.2 s1 out hs
      obtain ⟨hr2, c2, hc2, hid2, hsub2⟩ := OwnRun.survives rest (hr.step hs) hc1 ho1 hrun
      refine ⟨hr2, c2, hc2, Conn.sameId_trans hid hid2, fun hno => ?_⟩
      rw [hsub2 fun ch' hm => hno ch' (List.mem_cons_of_mem _ hm)]
      exact hsub fun e => hno ch (by rw [e]; exact List.mem_cons_self)

/-- every op of a run under `OwnRun` is applied to a reachable state in which the connection is
    registered with its identity, and satisfies `OwnOp` there -/
theorem OwnRun.along {cfg : Config} {a : Nat} {f : String} : ∀ (ops : List (Op × List Choice)) {s s2 : RState} {c : Conn},
    Reachable cfg s → getConn s a = some c → OwnRun a c.clientId f s ops → run s ops = .ok s2 →
    ∀ pre op ch post, ops = pre ++ (op, ch) :: post →
      ∃ t t' out ct, run s pre = .ok t ∧ Reachable cfg t ∧ getConn t a = some ct ∧ c.sameId ct ∧
        OwnOp a c.clientId f { t with oracle := ch } op ∧ step { t with oracle := ch } op = .ok (t', out) ∧
        run t' post = .ok s2
  | [], s, s2, c, _, _, _, _ => fun pre op ch post e => by cases pre <;> cases e
  | (op0, ch0) :: rest, s, s2, c, hr, hc, ho, hrun => fun pre op ch post e => by
    simp only [run] at hrun
    split at hrun
    · simp at hrun
    · rename_i s1 out hs
      cases pre with
      | nil =>
        simp only [List.nil_append, List.cons.injEq, Prod.mk.injEq] at e
        obtain ⟨⟨rfl, rfl⟩, rfl⟩ := e
        exact ⟨s, s1, out, c, rfl, hr, hc, ⟨rfl, rfl, rfl, rfl⟩, ho.1, hs, hrun⟩
      | cons x pre' =>
        simp only [List.cons_append, List.cons.injEq] at e
        obtain ⟨rfl, e'⟩ := e
        obtain ⟨c1, hc1, hid, _⟩ := own_step hr hc ho.1 hs
        have ho1 : OwnRun a c1.clientId f s1 rest := by rw [hid.1]; exact ho.2 s1 out hs
        obtain ⟨t, t', out', ct, h1, h2, h3, h4, h5, h6, h7⟩ :=
          OwnRun.along rest (hr.step hs) hc1 ho1 hrun pre' op ch post e'
        refine ⟨t, t', out', ct, ?_, h2, h3, Conn.sameId_trans hid h4, by rw [← hid.1]; exact h5, h6, h7⟩
        simp only [run, hs]; exact h1

/-- the premises of `delivery_is_prefix` follow from the premises on X's own ops and the retention
    proviso: that the connection stays is a CONSEQUENCE, whatever the other ids do -/
theorem quietRun_of_own {cfg : Config} {a : Nat} {f : String} : ∀ (ops : List (Op × List Choice)) {s : RState} {c : Conn},
    Reachable cfg s → getConn s a = some c → OwnRun a c.clientId f s ops → RetRun a f s ops →
    QuietRun a c.clientId f s ops
  | [], s, c, _, hc, _, hret => ⟨⟨c, hc, rfl⟩, hret⟩
  | (op, ch) :: rest, s, c, hr, hc, ho, hret => by
    refine ⟨⟨⟨c, hc, rfl⟩, hret.1⟩, ?_, fun s1 out hs => ?_⟩
    · have h1 := ho.1
      cases op with
      | connect spec => exact h1
      | event id ev =>
        cases ev with
        | deviceData => exact fun e c0 hc0 p hp => ((h1 e).2 rfl).1 c0 hc0 p hp
        | _ => trivial
      | _ => trivial
    · obtain ⟨c1, hc1, hid, _⟩ := own_step hr hc ho.1 hs
      have ho1 : OwnRun a c1.clientId f s1 rest := by rw [hid.1]; exact ho.2 s1 out hs
      have := quietRun_of_own rest (hr.step hs) hc1 ho1 (hret.2 s1 out hs)
      rw [hid.1] at this; exact this

/-- an owned request is counted by `keysOf` -/
theorem own_key_mem {s : RState} {a : Nat} {r : DataRequest} (h : Own s a r) : r.key ∈ keysOf s a := by
  unfold keysOf
  rcases h with ⟨c, hc, hm⟩ | ⟨i, fd, hfd, hm⟩ | hn
  · refine List.mem_append_left _ (List.mem_append_left _ ?_)
    unfold trackerKeys; rw [hc]; exact List.mem_map.mpr ⟨r, hm, rfl⟩
  · exact List.mem_append_left _ (List.mem_append_right _
      (mem_waiterKeys.mpr ⟨fd, List.mem_of_getElem? hfd, (a, r), hm, rfl, rfl⟩))
  · exact List.mem_append_right _ (mem_pickK.mpr ⟨(a, r), hn, rfl, rfl⟩)

/-- request conservation: a connection owns requests only for filters it is subscribed to -/
theorem own_subscribed {s : RState} {a : Nat} {r : DataRequest} {c : Conn} (hrc : RC s) (h : Own s a r)
    (hc : getConn s a = some c) : r.filter ∈ c.subscriptions := by
  obtain ⟨hK, _, _⟩ := (RC.iff s).mp hrc
  have := hK.subs a _ (own_key_mem h)
  unfold subsOf at this; rw [hc] at this; exact this

/-- no run from a reachable state panics -/
theorem run_never_panics {cfg : Config} : ∀ (ops : List (Op × List Choice)) {s : RState}, Reachable cfg s →
    ∀ msg, run s ops ≠ .error (.panic msg)
  | [], s, _, msg => by simp [run]
  | (op, ch) :: rest, s, hr, msg => by
    simp only [run]
    split
    · rename_i e he
      intro h
      simp only [Except.error.injEq] at h; subst h
      exact step_no_panic ((Inv3.reachable hr).oracle ch) op msg he
    · rename_i s1 out hs
      exact run_never_panics rest (hr.step hs) msg

end Router
