/-
C01.1 — coherence of the data log's three maps.

`MapsOK d`: `filter_indexes` is a bijection between the filters and the indexes of `native`
(the filter stored at an index is the key that maps to it), and every cached `publish_filters`
entry lists exactly (as a permutation, each once) the indexes of the filters that match the
cached topic. `LogsOK d`: every filter log represents an append history (C13 `Rep`).
`DLInv s` = both + the configuration limits are positive.
-/
import Proofs.Lemmas.Router.Frame
import Proofs.Lemmas.CommitLogBridge
import Proofs.Lemmas.Router.Rp3_Reach
namespace Router
namespace Rp3
open CommitLog (Rep logC)

/-- the indexes `DataLog::matches` computes for a topic that is not cached -/
def expectedIdxs (d : DataLog) (topic : String) : List Nat :=
  (d.filterIndexes.filter (fun p => topicMatches topic p.1)).map (·.2)

structure MapsOK (d : DataLog) : Prop where
  /-- `(f, i)` is an entry of `filter_indexes` iff slot `i` of `native` exists and holds filter `f` -/
  idx : ∀ f i, (f, i) ∈ d.filterIndexes ↔ (d.native[i]?).map (·.filter) = some f
  idxNodup : (d.filterIndexes.map (·.2)).Nodup
  keyNodup : (d.filterIndexes.map (·.1)).Nodup
  /-- cache coherence -/
  cache : ∀ topic v, alookup topic d.publishFilters = some v → v.Perm (expectedIdxs d topic)

/-- every filter log is a well-formed commit log representing some append history -/
def LogsOK (d : DataLog) : Prop := ∀ l ∈ d.native.map (·.log), ∃ hist : List Pub, Rep (logC l) hist

/-- C01.1 `MapsConsistent` -/
def MapsConsistent (s : RState) : Prop := MapsOK s.datalog

structure DLInv (s : RState) : Prop where
  maps : MapsOK s.datalog
  logs : LogsOK s.datalog
  segSize : 1 ≤ s.config.maxSegmentSize
  segCount : 1 ≤ s.config.maxSegmentCount

/-- the part of the state the invariant reads -/
def dkey (s : RState) : List String × List (CLog.Log Pub) × List (String × Nat) × List (String × List Nat) × Config :=
  (s.datalog.native.map (·.filter), s.datalog.native.map (·.log), s.datalog.filterIndexes,
   s.datalog.publishFilters, s.config)

/-- the wake-up of parked group members leaves `dkey` alone (waiter lists are not part of it) -/
theorem WakeFrame.dkey {s s' : RState} (h : WakeFrame s s') : dkey s' = dkey s := by
  have e1 : s'.datalog.native.map (·.filter) = s.datalog.native.map (·.filter) := by
    apply List.ext_getElem?
    intro i
    have := congrArg (Option.map Prod.fst) (h.logs i)
    simpa [List.getElem?_map, Option.map_map, Function.comp_def] using this
  have e2 : s'.datalog.native.map (·.log) = s.datalog.native.map (·.log) := by
    apply List.ext_getElem?
    intro i
    have := congrArg (Option.map Prod.snd) (h.logs i)
    simpa [List.getElem?_map, Option.map_map, Function.comp_def] using this
  simp only [Router.Rp3.dkey, e1, e2, h.fidx, h.pf, h.config]

theorem MapsOK.of_same {d d' : DataLog} (h : MapsOK d)
    (h1 : d'.native.map (fun fd : FilterData => fd.filter) = d.native.map (fun fd : FilterData => fd.filter))
    (h2 : d'.filterIndexes = d.filterIndexes) (h3 : d'.publishFilters = d.publishFilters) : MapsOK d' := by
  have e : ∀ i : Nat, (d'.native[i]?).map (fun fd : FilterData => fd.filter) = (d.native[i]?).map (fun fd : FilterData => fd.filter) := by
    intro i
    have := congrArg (fun l => l[i]?) h1
    simpa [List.getElem?_map] using this
  refine ⟨?_, by rw [h2]; exact h.idxNodup, by rw [h2]; exact h.keyNodup, ?_⟩
  · intro f i; rw [h2, e]; exact h.idx f i
  · intro topic v hv; rw [h3] at hv
    have := h.cache topic v hv
    simpa [expectedIdxs, h2] using this

theorem DLInv.of_dkey {s s' : RState} (h : DLInv s) (e : dkey s' = dkey s) : DLInv s' := by
  simp only [dkey, Prod.mk.injEq] at e
  obtain ⟨e1, e2, e3, e4, e5⟩ := e
  refine ⟨h.maps.of_same e1 e3 e4, ?_, by rw [e5]; exact h.segSize, by rw [e5]; exact h.segCount⟩
  intro l hl; rw [e2] at hl; exact h.logs l hl

/-! ### association-list facts -/

theorem alookup_none_iff {β} (k : String) : ∀ (l : List (String × β)), alookup k l = none ↔ k ∉ l.map (·.1)
  | [] => by simp [alookup]
  | (a, b) :: r => by
    by_cases h : a = k
    · simp [alookup, h]
    · have := alookup_none_iff k r
      have h' : ¬ k = a := fun e => h e.symm
      simp [alookup, h, h', this]

theorem alookup_some_mem {β} (k : String) (v : β) : ∀ (l : List (String × β)), alookup k l = some v → (k, v) ∈ l
  | [] => by simp [alookup]
  | (a, b) :: r => by
    by_cases h : a = k
    · subst h; simp [alookup]; intro e; left; exact e.symm
    · simp only [alookup, h, if_false]; intro e
      exact List.mem_cons_of_mem _ (alookup_some_mem k v r e)

theorem alookup_of_mem_nodup {β} (k : String) (v : β) : ∀ (l : List (String × β)),
    (l.map (·.1)).Nodup → (k, v) ∈ l → alookup k l = some v
  | [] => by simp
  | (a, b) :: r => by
    intro hn hm
    simp only [List.map_cons, List.nodup_cons] at hn
    rcases List.mem_cons.mp hm with e | hm'
    · cases e; simp [alookup]
    · have : a ≠ k := by
        intro e; subst e
        exact hn.1 (List.mem_map.mpr ⟨(a, v), hm', rfl⟩)
      simp only [alookup, this, if_false]
      exact alookup_of_mem_nodup k v r hn.2 hm'

theorem alookup_map_val {β} (k : String) (g : String → β → β) : ∀ (l : List (String × β)),
    alookup k (l.map (fun p => (p.1, g p.1 p.2))) = (alookup k l).map (g k)
  | [] => rfl
  | (a, b) :: r => by
    by_cases h : a = k
    · subst h; simp [alookup]
    · simp [alookup, h, alookup_map_val k g r]

/-! ### reading the invariant -/

theorem MapsOK.lookup_iff {d : DataLog} (h : MapsOK d) (f : String) (i : Nat) :
    d.filterIdx? f = some i ↔ (d.native[i]?).map (·.filter) = some f := by
  rw [← h.idx f i]
  unfold DataLog.filterIdx?
  exact ⟨alookup_some_mem f i _, alookup_of_mem_nodup f i _ h.keyNodup⟩

theorem MapsOK.idx_lt {d : DataLog} (h : MapsOK d) {f : String} {i : Nat} (hm : (f, i) ∈ d.filterIndexes) :
    i < d.native.length := by
  have := (h.idx f i).mp hm
  cases hg : d.native[i]? with
  | none => simp [hg] at this
  | some fd => exact (List.getElem?_eq_some_iff.mp hg).1

theorem mem_expectedIdxs {d : DataLog} (h : MapsOK d) (topic : String) (i : Nat) :
    i ∈ expectedIdxs d topic ↔ ∃ fd, d.native[i]? = some fd ∧ topicMatches topic fd.filter = true := by
  unfold expectedIdxs
  simp only [List.mem_map, List.mem_filter]
  constructor
  · rintro ⟨⟨f, j⟩, ⟨hm, ht⟩, rfl⟩
    have := (h.idx f j).mp hm
    cases hg : d.native[j]? with
    | none => simp [hg] at this
    | some fd =>
      simp only [hg, Option.map_some, Option.some.injEq] at this
      exact ⟨fd, rfl, by rw [this]; exact ht⟩
  · rintro ⟨fd, hg, ht⟩
    exact ⟨(fd.filter, i), ⟨(h.idx _ _).mpr (by simp [hg]), ht⟩, rfl⟩

theorem expectedIdxs_nodup {d : DataLog} (h : MapsOK d) (topic : String) : (expectedIdxs d topic).Nodup := by
  unfold expectedIdxs
  exact (h.idxNodup.sublist (List.Sublist.map _ List.filter_sublist))

/-- a cached answer has exactly the indexes of the matching filters, each once -/
theorem MapsOK.cache_spec {d : DataLog} (h : MapsOK d) {topic : String} {v : List Nat}
    (hv : alookup topic d.publishFilters = some v) :
    v.Nodup ∧ ∀ i, i ∈ v ↔ ∃ fd, d.native[i]? = some fd ∧ topicMatches topic fd.filter = true := by
  have hp := h.cache topic v hv
  exact ⟨hp.nodup_iff.mpr (expectedIdxs_nodup h topic), fun i => by rw [hp.mem_iff, mem_expectedIdxs h]⟩

theorem sameMembers_perm {a b : List Nat} (h : sameMembers a b = true) : a.Perm b := by
  unfold sameMembers at h
  simp only [Bool.and_eq_true, beq_iff_eq, List.all_eq_true] at h
  rw [List.perm_iff_count]
  intro x
  by_cases ha : x ∈ a
  · exact h.1 x ha
  · by_cases hb : x ∈ b
    · exact h.2 x hb
    · rw [List.count_eq_zero.mpr ha, List.count_eq_zero.mpr hb]

/-! ### the two functions that change the maps -/

theorem dlMatches_inv {s s' : RState} {topic : String} {v : List Nat} (hi : DLInv s)
    (h : dlMatches s topic = .ok (s', v)) :
    DLInv s' ∧ v.Perm (expectedIdxs s.datalog topic) ∧ s'.datalog.native = s.datalog.native ∧
      s'.datalog.filterIndexes = s.datalog.filterIndexes := by
  unfold dlMatches at h
  split at h
  · rename_i w hw
    simp only [Except.ok.injEq, Prod.mk.injEq] at h
    obtain ⟨rfl, rfl⟩ := h
    exact ⟨hi, hi.maps.cache topic _ hw, rfl, rfl⟩
  · rename_i hnone
    split at h
    · rename_i w rest hor
      by_cases hs : sameMembers w ((s.datalog.filterIndexes.filter (fun p => topicMatches topic p.1)).map (·.2)) = true
      · simp only [hs, if_true, Except.ok.injEq, Prod.mk.injEq] at h
        obtain ⟨rfl, rfl⟩ := h
        have hp := sameMembers_perm hs
        refine ⟨⟨?_, ?_, hi.segSize, hi.segCount⟩, hp, ?_, ?_⟩
        · by_cases he : w.isEmpty = true
          · rw [if_pos he]
            exact hi.maps
          · rw [if_neg he]
            refine ⟨hi.maps.idx, hi.maps.idxNodup, hi.maps.keyNodup, ?_⟩
            intro t u hu
            simp only [alookup_append] at hu
            cases hl : alookup t s.datalog.publishFilters with
            | some u' =>
              simp only [hl, Option.some_or, Option.some.injEq] at hu
              subst hu
              exact hi.maps.cache t u' hl
            | none =>
              simp only [hl, Option.none_or, alookup] at hu
              split at hu
              · rename_i htt
                simp only [Option.some.injEq] at hu
                subst hu; subst htt
                exact hp
              · simp at hu
        · by_cases he : w.isEmpty = true
          · rw [if_pos he]; exact hi.logs
          · rw [if_neg he]; exact hi.logs
        · by_cases he : w.isEmpty = true
          · rw [if_pos he]
          · rw [if_neg he]
        · by_cases he : w.isEmpty = true
          · rw [if_pos he]
          · rw [if_neg he]
      · simp [hs] at h
    · simp at h

/-- `DataLog::matches` changes nothing but the cache (and consumes an oracle choice) -/
theorem dlMatches_only {s s' : RState} {topic : String} {v : List Nat}
    (h : dlMatches s topic = .ok (s', v)) : s' = { s with datalog := s'.datalog, oracle := s'.oracle } := by
  unfold dlMatches at h
  split at h
  · simp only [Except.ok.injEq, Prod.mk.injEq] at h
    obtain ⟨rfl, _⟩ := h; rfl
  · split at h
    · rename_i w rest hor
      by_cases hs : sameMembers w ((s.datalog.filterIndexes.filter (fun p => topicMatches topic p.1)).map (·.2)) = true
      · simp only [hs, if_true, Except.ok.injEq, Prod.mk.injEq] at h
        obtain ⟨rfl, _⟩ := h; rfl
      · simp [hs] at h
    · simp at h

theorem expectedIdxs_append (d : DataLog) (topic f : String) (i : Nat) (fi : List (String × Nat))
    (h : d.filterIndexes = fi ++ [(f, i)]) :
    expectedIdxs d topic =
      (fi.filter (fun p => topicMatches topic p.1)).map (·.2) ++ (if topicMatches topic f then [i] else []) := by
  unfold expectedIdxs
  rw [h, List.filter_append, List.map_append]
  by_cases ht : topicMatches topic f = true <;> simp [ht]

theorem new_log_rep (ms mm : Nat) (h1 : 1 ≤ ms) (h2 : 1 ≤ mm) :
    Rep (logC (CLog.Log.new ms mm : CLog.Log Pub)) [] := by
  refine ⟨⟨by simp [logC, CLog.Log.new], by simp [logC, CLog.Log.new], by simp [logC, CLog.Log.new]; omega,
      by simp [logC, CLog.Log.new]; omega, trivial, by simp [logC, CLog.Log.new],
      by simp [logC, CLog.Log.new, CommitLog.segC], by simp [logC, CLog.Log.new]⟩,
      by simp [CommitLog.Log.firstAbs, logC, CLog.Log.new, CommitLog.segC],
      by simp [CommitLog.retained, CommitLog.flat, CommitLog.Log.firstAbs, logC, CLog.Log.new, CommitLog.segC]⟩

/-- `next_native_offset`: an existing filter changes nothing; a new filter gets the next index,
    an empty log, and is added to every cached topic it matches -/
theorem nextNativeOffset_inv {s : RState} {filter : String} (hi : DLInv s) :
    DLInv (nextNativeOffset s filter).1 ∧ (nextNativeOffset s filter).1.config = s.config := by
  unfold nextNativeOffset
  cases hl : s.datalog.filterIdx? filter with
  | some idx => exact ⟨hi, rfl⟩
  | none =>
    simp only []
    have hkey : filter ∉ s.datalog.filterIndexes.map (·.1) := (alookup_none_iff filter _).mp hl
    have hlt : ∀ p ∈ s.datalog.filterIndexes, p.2 < s.datalog.native.length := fun p hp => hi.maps.idx_lt (f := p.1) hp
    refine ⟨⟨⟨?_, ?_, ?_, ?_⟩, ?_, hi.segSize, hi.segCount⟩, by first | rfl | trivial⟩
    · intro f i
      simp only [List.mem_append, List.mem_singleton, Prod.mk.injEq, List.getElem?_append]
      by_cases h1 : i < s.datalog.native.length
      · simp only [h1, if_true]
        rw [← hi.maps.idx f i]
        constructor
        · rintro (h | ⟨_, h⟩)
          · exact h
          · omega
        · exact Or.inl
      · simp only [h1, if_false]
        constructor
        · rintro (h | ⟨rfl, rfl⟩)
          · exact absurd (hlt _ h) h1
          · simp
        · intro h
          by_cases h2 : i = s.datalog.native.length
          · subst h2
            simp at h
            exact Or.inr ⟨h.symm, rfl⟩
          · have : i - s.datalog.native.length ≠ 0 := by omega
            cases hk : i - s.datalog.native.length with
            | zero => omega
            | succ k => simp [hk] at h
    · simp only [List.map_append, List.map_cons, List.map_nil]
      rw [List.nodup_append]
      refine ⟨hi.maps.idxNodup, by simp, ?_⟩
      intro a ha b hb
      simp only [List.mem_singleton] at hb
      subst hb
      obtain ⟨p, hp, rfl⟩ := List.mem_map.mp ha
      have := hlt p hp
      omega
    · simp only [List.map_append, List.map_cons, List.map_nil]
      rw [List.nodup_append]
      refine ⟨hi.maps.keyNodup, by simp, ?_⟩
      intro a ha b hb
      simp only [List.mem_singleton] at hb
      subst hb
      intro e; subst e; exact hkey ha
    · intro topic v hv
      have hpf : (s.datalog.publishFilters.map (fun p => if topicMatches p.1 filter then (p.1, p.2 ++ [s.datalog.native.length]) else p))
          = s.datalog.publishFilters.map (fun p => (p.1, (fun t u => if topicMatches t filter then u ++ [s.datalog.native.length] else u) p.1 p.2)) := by
        apply List.map_congr_left
        intro p _
        by_cases ht : topicMatches p.1 filter = true <;> simp [ht]
      replace hv : alookup topic (s.datalog.publishFilters.map (fun p => if topicMatches p.1 filter then (p.1, p.2 ++ [s.datalog.native.length]) else p)) = some v := hv
      rw [hpf, alookup_map_val topic (fun t u => if topicMatches t filter then u ++ [s.datalog.native.length] else u)] at hv
      cases hl2 : alookup topic s.datalog.publishFilters with
      | none => simp [hl2] at hv
      | some u =>
        simp only [hl2, Option.map_some, Option.some.injEq] at hv
        have hp := hi.maps.cache topic u hl2
        rw [expectedIdxs_append _ topic filter s.datalog.native.length s.datalog.filterIndexes rfl]
        subst hv
        by_cases ht : topicMatches topic filter = true
        · simp only [ht, if_true]
          exact List.Perm.append_right _ hp
        · simp only [ht]
          simpa [expectedIdxs] using hp
    · intro l hl
      simp only [List.map_append, List.map_cons, List.map_nil, List.mem_append, List.mem_singleton] at hl
      rcases hl with hl | rfl
      · exact hi.logs l hl
      · exact ⟨[], new_log_rep _ _ hi.segSize hi.segCount⟩

end Rp3
end Router
