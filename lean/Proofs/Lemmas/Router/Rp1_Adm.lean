/-
C19 invariants: the slab's free list is well formed, at most `max_connections` live connections,
`connectionMap` is a bijection between the client ids of the live connections and their slab keys.
-/
import Proofs.Lemmas.Router.Rp1_Helpers2
import Proofs.Lemmas.Router.Reach
import Proofs.Lemmas.Router.Assoc
namespace Router

def ConnBound (s : RState) : Prop := s.conns.len ≤ s.config.maxConnections

def MapInv (s : RState) : Prop :=
  (∀ cid id, alookup cid s.connectionMap = some id → ∃ c, getConn s id = some c ∧ c.clientId = cid) ∧
  (∀ id c, getConn s id = some c → alookup c.clientId s.connectionMap = some id)

structure AdmInv (s : RState) : Prop where
  wf : s.conns.WF
  bound : ConnBound s
  map : MapInv s

theorem AdmInv.init (cfg : Config) : AdmInv (init cfg) where
  wf := Slab.wf_empty
  bound := by simp [ConnBound, Router.init, Slab.len]
  map := by
    refine ⟨fun cid id h => ?_, fun id c h => ?_⟩
    · simp [Router.init, alookup] at h
    · simp [Router.init, getConn, Slab.get?] at h

theorem AdmInv.oracle {s : RState} (h : AdmInv s) (o : List Choice) : AdmInv { s with oracle := o } :=
  ⟨h.wf, h.bound, h.map⟩

/-- depends only on `conns`, `config`, `connectionMap` -/
theorem AdmInv.congr {s s' : RState} (h : AdmInv s) (hc : s'.conns = s.conns) (hg : s'.config = s.config)
    (hm : s'.connectionMap = s.connectionMap) : AdmInv s' := by
  have hget : ∀ j, getConn s' j = getConn s j := fun j => by unfold getConn; rw [hc]
  refine ⟨by rw [hc]; exact h.wf, by unfold ConnBound; rw [hc, hg]; exact h.bound, ?_, ?_⟩
  · intro cid id hl; rw [hm] at hl; rw [hget]; exact h.map.1 cid id hl
  · intro id c hl; rw [hget] at hl; rw [hm]; exact h.map.2 id c hl

theorem AdmInv.shape {id : Nat} {s s' : RState} (h : AdmInv s) (hs : Shape (RW id) s s') : AdmInv s' where
  wf := by
    refine ⟨by rw [hs.free]; exact h.wf.1, fun k hk => ?_⟩
    rw [hs.free] at hk
    have := h.wf.2 k hk
    exact ⟨by rw [hs.elen]; exact this.1, (hs.none_iff k).mpr this.2⟩
  bound := by unfold ConnBound; rw [hs.len, hs.config]; exact h.bound
  map := by
    refine ⟨fun cid j hl => ?_, fun j c' hl => ?_⟩
    · rw [hs.cmap] at hl
      obtain ⟨c, hc, e⟩ := h.map.1 cid j hl
      obtain ⟨c', hc', r⟩ := hs.live hc
      exact ⟨c', hc', r.1.1.trans e⟩
    · obtain ⟨c, hc, r⟩ := hs.live' hl
      rw [hs.cmap, r.1.1]
      exact h.map.2 j c hc

/-! ### `handle_disconnection` -/

theorem hdNotify_core (s : RState) (c : Conn) (r : Option String) :
    (hdNotify s c r).conns = s.conns ∧ (hdNotify s c r).config = s.config ∧
    (hdNotify s c r).connectionMap = s.connectionMap ∧ (hdNotify s c r).ghost = s.ghost ∧
    (hdNotify s c r).datalog = s.datalog ∧ (hdNotify s c r).shared = s.shared ∧
    (hdNotify s c r).graveyard = s.graveyard ∧ (hdNotify s c r).notifications = s.notifications ∧
    (hdNotify s c r).readyqueue = s.readyqueue ∧ (hdNotify s c r).subscriptionMap = s.subscriptionMap ∧
    (hdNotify s c r).lastWills = s.lastWills := by
  cases r <;> exact ⟨rfl, rfl, rfl, rfl, rfl, rfl, rfl, rfl, rfl, rfl, rfl⟩

/-- what `handle_disconnection` does to the slab, the connection map and the ghost history: the
    state `s1` it has built when it finally wakes the parked members of the groups whose turn moved
    (`wakeParked`: trackers, ready queue and waiter lists only) -/
theorem handleDisconnection_effect {s s' : RState} {id : Nat} {r : Option String}
    (h : handleDisconnection s id r = .ok s') :
    (getConn s id = none ∧ s' = s) ∨
    ∃ c s1 logs, getConn s id = some c ∧ s1.conns = s.conns.remove id ∧
      s1.connectionMap = aremove c.clientId s.connectionMap ∧ s1.config = s.config ∧
      s1.ghost = s.ghost ++ [.removed id c.clientId c.clean] ∧ wakeParked s1 logs = .ok s' := by
  rw [handleDisconnection_eq] at h
  split at h
  · rename_i hc
    simp only [Except.ok.injEq] at h; exact .inl ⟨hc, h.symm⟩
  · rename_i c hc
    refine .inr ⟨c, _, _, hc, ?_, ?_, ?_, ?_, h⟩
    all_goals
      have k := hdNotify_core s c r
      unfold hdFinal
      simp only []
      split
    · show (hdNotify s c r).conns.remove id = _; rw [k.1]
    · show (hdNotify s c r).conns.remove id = _; rw [k.1]
    · show aremove c.clientId (hdNotify s c r).connectionMap = _; rw [k.2.2.1]
    · show aremove c.clientId (hdNotify s c r).connectionMap = _; rw [k.2.2.1]
    · exact k.2.1
    · exact k.2.1
    · show (hdNotify s c r).ghost ++ _ = _; rw [k.2.2.2.1]
    · show (hdNotify s c r).ghost ++ _ = _; rw [k.2.2.2.1]

/-- the connections after `handle_disconnection`: `id` is gone, the others differ at most in
    their tracker (the wake-up of parked group members) -/
theorem handleDisconnection_conns {s s' : RState} {id : Nat} {r : Option String} {c : Conn}
    (hc : getConn s id = some c) (h : handleDisconnection s id r = .ok s') :
    getConn s' id = none ∧ ∀ j d, j ≠ id → getConn s j = some d → ∃ t, getConn s' j = some { d with tracker := t } := by
  rcases handleDisconnection_effect h with ⟨hn, _⟩ | ⟨c', s1, logs, _, e1, _, _, _, hw⟩
  · rw [hc] at hn; simp at hn
  · have hg : ∀ j, getConn s1 j = if j = id then none else getConn s j := fun j => by
      unfold getConn; rw [e1, Slab.get?_remove]
    have sh := wakeParked_shape hw
    refine ⟨?_, fun j d hj hd => ?_⟩
    · rw [sh.none_iff, hg]; simp
    · have : getConn s1 j = some d := by rw [hg]; simp [hj, hd]
      obtain ⟨d', hd', t, rfl⟩ := sh.live this
      exact ⟨t, hd'⟩

theorem getConn_remove (s s' : RState) (id j : Nat) (h : s'.conns = s.conns.remove id) :
    getConn s' j = if j = id then none else getConn s j := by
  unfold getConn; rw [h, Slab.get?_remove]

theorem AdmInv.handleDisconnection {s s' : RState} {id : Nat} {r : Option String} (hi : AdmInv s)
    (h : handleDisconnection s id r = .ok s') : AdmInv s' := by
  rcases handleDisconnection_effect h with ⟨_, rfl⟩ | ⟨c, s1, logs, hc, e1, e2, e3, _, hw⟩
  · exact hi
  · refine AdmInv.shape (id := 0) (s := s1) ?_ (wakeParked_shape hw).rt_rw
    have hg := fun j => getConn_remove s s1 id j e1
    refine ⟨by rw [e1]; exact Slab.wf_remove hc hi.wf, ?_, ?_, ?_⟩
    · unfold ConnBound; rw [e1, e3]
      have := Slab.len_remove_live hc
      have := hi.bound; unfold ConnBound at this; omega
    · intro cid j hl
      rw [e2] at hl
      have hne : cid ≠ c.clientId := fun e => by rw [e, alookup_aremove_same] at hl; simp at hl
      rw [alookup_aremove_ne _ _ hne] at hl
      obtain ⟨d, hd, e⟩ := hi.map.1 cid j hl
      have : j ≠ id := fun ej => by subst ej; rw [hc] at hd; simp only [Option.some.injEq] at hd; subst hd; exact hne e.symm
      exact ⟨d, by rw [hg]; simp [this, hd], e⟩
    · intro j d hl
      rw [hg] at hl
      by_cases hj : j = id
      · simp [hj] at hl
      · simp only [hj, if_false] at hl
        have a := hi.map.2 j d hl
        have hne : d.clientId ≠ c.clientId := fun e => by
          have b := hi.map.2 id c hc
          rw [e, b] at a; simp only [Option.some.injEq] at a; exact hj a.symm
        rw [e2, alookup_aremove_ne _ _ hne]; exact a

/-! ### `handle_new_connection` -/

/-- after the takeover no live connection is registered under the new client id -/
theorem hnTakeover_spec {s s1 : RState} {spec : ConnectSpec} (hi : AdmInv s) (h : hnTakeover s spec = .ok s1) :
    AdmInv s1 ∧ alookup spec.clientId s1.connectionMap = none ∧ s1.config = s.config := by
  unfold hnTakeover at h
  split at h
  · rename_i old hold
    refine ⟨hi.handleDisconnection h, ?_⟩
    rcases handleDisconnection_effect h with ⟨hn, _⟩ | ⟨c, s0, logs, hc, _, e2, e3, _, hw⟩
    · obtain ⟨c, hc, _⟩ := hi.map.1 _ _ hold
      rw [hc] at hn; simp at hn
    · obtain ⟨c', hc', e⟩ := hi.map.1 _ _ hold
      rw [hc] at hc'; simp only [Option.some.injEq] at hc'; subst hc'
      have sh := wakeParked_shape hw
      rw [sh.cmap, sh.config, e2, e]
      exact ⟨alookup_aremove_same _ _, e3⟩
  · rename_i hnone
    simp only [Except.ok.injEq] at h; subst h
    exact ⟨hi, hnone, rfl⟩

/-- a fresh slab entry under a client id that is not in the map keeps the invariant, provided
    there was room -/
theorem AdmInv.register {s s4 : RState} {cid : String} {conn conn' : Conn} (hi : AdmInv s)
    (hnone : alookup cid s.connectionMap = none) (hroom : s.conns.len < s.config.maxConnections)
    (hid : conn'.clientId = cid)
    (hc : s4.conns = (s.conns.insert conn).1.set (s.conns.insert conn).2 conn')
    (hm : s4.connectionMap = ainsert cid (s.conns.insert conn).2 s.connectionMap)
    (hg : s4.config = s.config) :
    AdmInv s4 ∧ getConn s (s.conns.insert conn).2 = none ∧ getConn s4 (s.conns.insert conn).2 = some conn' ∧
      ∀ j, j ≠ (s.conns.insert conn).2 → getConn s4 j = getConn s j := by
  obtain ⟨hvac, hget, hlen, hwf⟩ := Slab.insert_spec s.conns conn hi.wf
  generalize hk : (s.conns.insert conn).2 = k at *
  generalize hs1 : (s.conns.insert conn).1 = slab at *
  have hlive : slab.get? k = some conn := by rw [hget]; simp
  have hget4 : ∀ j, getConn s4 j = if j = k then some conn' else getConn s j := fun j => by
    unfold getConn; rw [hc, Slab.get?_set_live hlive, hget]
    by_cases e : j = k <;> simp [e]
  refine ⟨⟨by rw [hc]; exact Slab.wf_set hlive _ hwf, ?_, ?_, ?_⟩, hvac, by rw [hget4]; simp,
    fun j hj => by rw [hget4]; simp [hj]⟩
  · unfold ConnBound; rw [hc, Slab.len_set_live hlive, hlen, hg]; omega
  · intro c j hl
    rw [hm] at hl
    by_cases e : c = cid
    · subst e
      rw [alookup_ainsert_same] at hl
      simp only [Option.some.injEq] at hl; subst hl
      exact ⟨conn', by rw [hget4]; simp, hid⟩
    · rw [alookup_ainsert_ne _ _ _ _ e] at hl
      obtain ⟨d, hd, ed⟩ := hi.map.1 c j hl
      have : j ≠ k := fun ej => by subst ej; rw [show getConn s j = s.conns.get? j from rfl, hvac] at hd; simp at hd
      exact ⟨d, by rw [hget4]; simp [this, hd], ed⟩
  · intro j d hl
    rw [hget4] at hl
    by_cases e : j = k
    · subst e
      simp only [if_true, Option.some.injEq] at hl; subst hl
      rw [hm, hid, alookup_ainsert_same]
    · simp only [e, if_false] at hl
      have a := hi.map.2 j d hl
      have hne : d.clientId ≠ cid := fun ec => by rw [ec, hnone] at a; simp at a
      rw [hm, alookup_ainsert_ne _ _ _ _ hne]; exact a

theorem hnWill_core (s : RState) (spec : ConnectSpec) :
    (hnWill s spec).conns = s.conns ∧ (hnWill s spec).config = s.config ∧
    (hnWill s spec).connectionMap = s.connectionMap := by
  unfold hnWill; split <;> exact ⟨rfl, rfl, rfl⟩

theorem foldl_g_core (f : Ack → Ghost) : ∀ (acks : List Ack) (s : RState),
    (acks.foldl (fun s a => s.g (f a)) s).conns = s.conns ∧
    (acks.foldl (fun s a => s.g (f a)) s).config = s.config ∧
    (acks.foldl (fun s a => s.g (f a)) s).connectionMap = s.connectionMap
  | [], s => ⟨rfl, rfl, rfl⟩
  | a :: r, s => by
    simp only [List.foldl_cons]
    exact foldl_g_core f r (s.g (f a))

/-- the state just before the final `reschedule(id, Init)` of a registration -/
def hnPre (s : RState) (spec : ConnectSpec) : RState :=
  let restored := hnRestored s spec
  let prev := (hnSession s spec).isSome
  let s2 := hnWill { s with graveyard := aremove spec.clientId s.graveyard } spec
  let conn := hnConn spec restored
  let ins := s2.conns.insert conn
  let s3 : RState := { s2 with conns := ins.1, connectionMap := ainsert spec.clientId ins.2 s2.connectionMap,
                               subscriptionMap := (hnSubs restored).foldl (fun m f => subscriptionMapAdd m f ins.2) s2.subscriptionMap,
                               shared := rejoinGroups s2.config.strategy spec.clientId (hnTracker spec restored).requests s2.shared }
  let acks := hnAcks spec ins.2 prev restored
  let s4 := setConn s3 ins.2 { conn with acks := { committed := acks } }
  let s5 := s4.g (.registered ins.2 spec.link spec.clientId spec.clean (!spec.clean && prev))
  let s6 := if restored.isSome then s5.g (.restored ins.2 (hnTracker spec restored).requests) else s5
  acks.foldl (fun s a => s.g (.committed ins.2 a)) s6

/-- the slab key a registration will get -/
def hnKey (s : RState) (spec : ConnectSpec) : Nat := (s.conns.insert (hnConn spec (hnRestored s spec))).2

theorem hnRegister_ok {s s' : RState} {spec : ConnectSpec} (h : hnRegister s spec = .ok s') :
    trackerNoDup (hnTracker spec (hnRestored s spec)) = true ∧ reschedule (hnPre s spec) (hnKey s spec) .init = .ok s' := by
  unfold hnRegister at h
  simp only [] at h
  split at h
  · simp at h
  · rename_i hnd
    refine ⟨by simpa using hnd, ?_⟩
    have e : (hnWill { s with graveyard := aremove spec.clientId s.graveyard } spec).conns = s.conns := (hnWill_core _ spec).1
    unfold hnPre hnKey
    simp only []
    rw [e] at h ⊢
    exact h

theorem hnPre_core (s : RState) (spec : ConnectSpec) :
    (hnPre s spec).conns = (s.conns.insert (hnConn spec (hnRestored s spec))).1.set (hnKey s spec)
        { hnConn spec (hnRestored s spec) with
          acks := { committed := hnAcks spec (hnKey s spec) (hnSession s spec).isSome (hnRestored s spec) } } ∧
    (hnPre s spec).connectionMap = ainsert spec.clientId (hnKey s spec) s.connectionMap ∧
    (hnPre s spec).config = s.config := by
  have e := hnWill_core { s with graveyard := aremove spec.clientId s.graveyard } spec
  unfold hnPre hnKey
  simp only []
  refine ⟨?_, ?_, ?_⟩
  · rw [(foldl_g_core _ _ _).1]
    split
    all_goals
      show (Router.setConn _ _ _).conns = _
      simp only [Router.setConn, e.1]
  · rw [(foldl_g_core _ _ _).2.2]
    split
    all_goals
      show (Router.setConn _ _ _).connectionMap = _
      simp only [Router.setConn, e.1, e.2.2]
  · rw [(foldl_g_core _ _ _).2.1]
    split
    all_goals
      show (Router.setConn _ _ _).config = _
      simp only [Router.setConn, e.2.1]

theorem AdmInv.hnRegister {s s' : RState} {spec : ConnectSpec} (hi : AdmInv s)
    (hnone : alookup spec.clientId s.connectionMap = none) (hroom : s.conns.len < s.config.maxConnections)
    (h : hnRegister s spec = .ok s') : AdmInv s' := by
  obtain ⟨_, hr⟩ := hnRegister_ok h
  obtain ⟨e1, e2, e3⟩ := hnPre_core s spec
  have a := (AdmInv.register (conn' := { hnConn spec (hnRestored s spec) with
      acks := { committed := hnAcks spec (hnKey s spec) (hnSession s spec).isSome (hnRestored s spec) } })
    hi hnone hroom rfl e1 e2 e3).1
  exact a.shape (id := 0) (reschedule_shape hr).rt_rw

theorem AdmInv.handleNewConnection {s s' : RState} {spec : ConnectSpec} (hi : AdmInv s)
    (h : handleNewConnection s spec = .ok s') : AdmInv s' := by
  rw [handleNewConnection_eq] at h
  simp only [] at h
  have h0 : AdmInv (setLink s spec.link {}) := hi.congr rfl rfl rfl
  split at h
  · simp only [Except.ok.injEq] at h; subst h; exact h0.congr rfl rfl rfl
  · split at h
    · simp at h
    · rename_i s1 h1
      obtain ⟨i1, hnone, _⟩ := hnTakeover_spec h0 h1
      split at h
      · simp only [Except.ok.injEq] at h; subst h; exact i1.congr rfl rfl rfl
      · rename_i hroom
        exact i1.hnRegister hnone (by omega) h

end Router
