/-
C20 (round 11): the primitive operations keep `ConnOk` of every connection (`KStep`; the pass of Rp13_Steps
for the relation of Rp17_Keep).
-/
import Proofs.Lemmas.Router.Rp17_Keep
namespace Router

theorem reschedule_kstep {s s' : RState} {id : Nat} {r : SchedReason} (h : reschedule s id r = .ok s') : KStep s s' := by
  unfold reschedule at h
  split at h
  · simp at h
  · rename_i c hc
    split at h
    · simp at h
    · rename_i t woke ht
      simp only [Except.ok.injEq] at h; subst h
      have e := tryReady_some ht
      split
      · exact KStep.of_set (c' := { c with tracker := t }) hc rfl e rfl rfl rfl rfl rfl
      · exact KStep.of_set (c' := { c with tracker := t }) hc rfl e rfl rfl rfl rfl rfl

theorem commitAck_kstep {s s' : RState} {id : Nat} {a : Ack} (h : commitAck s id a = .ok s') : KStep s s' := by
  unfold commitAck at h
  split at h
  · simp at h
  · rename_i c hc
    simp only [Except.ok.injEq] at h; subst h
    exact KStep.of_set (c' := { c with acks := _ }) hc rfl rfl rfl rfl rfl rfl rfl

theorem pause_kstep {s s' : RState} {id : Nat} {r : PauseReason} (h : pause s id r = .ok s') : KStep s s' := by
  unfold pause at h
  split at h
  · simp at h
  · split at h
    · simp at h
    · rename_i c hc
      simp only [Except.ok.injEq] at h; subst h
      have hc' : getConn s id = some c := hc
      exact KStep.of_set (c' := { c with tracker := { c.tracker with status := .paused r } }) hc' rfl rfl rfl rfl rfl rfl rfl

theorem ackDeviceData_kstep (s : RState) (id : Nat) : KStep s (ackDeviceData s id) := by
  unfold ackDeviceData
  split
  · exact KStep.refl s
  · rename_i c hc
    split
    · exact KStep.refl s
    · exact KStep.of_set (c' := { c with acks := _ }) hc rfl rfl rfl rfl rfl rfl rfl

theorem updateRetained_kstep (s : RState) (topic : String) (p : Pub) : KStep s (updateRetained s topic p) := by
  unfold updateRetained
  split
  · exact KStep.of_conns rfl rfl rfl rfl rfl
  · split
    · exact KStep.of_conns rfl rfl rfl rfl rfl
    · exact KStep.refl _

theorem dlMatches_kstep {s s' : RState} {topic : String} {v : List Nat} (h : dlMatches s topic = .ok (s', v)) : KStep s s' := by
  unfold dlMatches at h
  split at h
  · simp only [Except.ok.injEq, Prod.mk.injEq] at h; obtain ⟨rfl, _⟩ := h; exact KStep.refl _
  · split at h
    · simp only [] at h
      split at h
      · simp only [Except.ok.injEq, Prod.mk.injEq] at h; obtain ⟨rfl, _⟩ := h
        split <;> exact KStep.of_conns rfl rfl rfl rfl rfl
      · simp at h
    · simp at h

theorem readRetained_kstep {s s' : RState} {f : String} {ps : List Pub} (h : readRetained s f = .ok (s', ps)) : KStep s s' := by
  unfold readRetained at h
  simp only [] at h
  split at h
  · split at h
    · simp only [Except.ok.injEq, Prod.mk.injEq] at h; obtain ⟨rfl, _⟩ := h; exact KStep.of_conns rfl rfl rfl rfl rfl
    · simp at h
  · simp at h

theorem updateNextClient_kstep {s s' : RState} {g g' : SharedGroup} (h : updateNextClient s g = .ok (s', g')) : KStep s s' := by
  unfold updateNextClient at h
  split at h
  · simp only [Except.ok.injEq, Prod.mk.injEq] at h; obtain ⟨rfl, _⟩ := h; exact KStep.refl _
  · split at h
    · simp at h
    · simp only [Except.ok.injEq, Prod.mk.injEq] at h; obtain ⟨rfl, _⟩ := h; exact KStep.refl _
  · split at h
    · simp at h
    · split at h
      · split at h
        · simp only [Except.ok.injEq, Prod.mk.injEq] at h; obtain ⟨rfl, _⟩ := h; exact KStep.of_conns rfl rfl rfl rfl rfl
        · simp at h
      · simp at h


theorem noteTurn_kstep (s0 s1 : RState) (req : DataRequest) : KStep s1 (noteTurn s0 s1 req) := by
  obtain ⟨tm, e⟩ := noteTurn_eq s0 s1 req
  rw [e]; exact ⟨KConn.of_conns rfl, rfl⟩


theorem track_kstep {s s' : RState} {id : Nat} {r0 : DataRequest} (h : track s id r0 = .ok s') : KStep s s' := by
  unfold track at h
  split at h
  · simp at h
  · rename_i c hc
    simp only [Except.ok.injEq] at h; subst h
    exact KStep.of_setc (c' := { c with tracker := _ }) hc rfl rfl rfl rfl rfl rfl

theorem trackv_kstep {s s' : RState} {id : Nat} {rs : List DataRequest} (h : trackv s id rs = .ok s') : KStep s s' := by
  unfold trackv at h
  split at h
  · simp at h
  · rename_i c hc
    simp only [Except.ok.injEq] at h; subst h
    exact KStep.of_setc (c' := { c with tracker := _ }) hc rfl rfl rfl rfl rfl rfl

theorem KStep.of_native_set {s s' : RState} {i : Nat} {fd fd' : FilterData} (_hfd : s.datalog.native[i]? = some fd)
    (hc : s'.conns = s.conns) (_hnat : s'.datalog.native = s.datalog.native.set i fd')
    (_hw : fd'.waiters = [] ∨ (fd'.log = fd.log ∧ ∀ w ∈ fd'.waiters, w ∈ fd.waiters))
    (_hfi : s'.datalog.filterIndexes = s.datalog.filterIndexes) (hsh : s'.shared = s.shared)
    (_htm : s'.turnMoved = s.turnMoved) : KStep s s' := ⟨KConn.of_conns hc, hsh⟩


theorem appendToFilter_kstep {s s' : RState} {idx : Nat} {p : Pub} (h : appendToFilter s idx p = .ok s') : KStep s s' := by
  unfold appendToFilter at h
  split at h
  · simp at h
  · rename_i fd hfd
    simp only [Except.ok.injEq] at h
    refine KStep.of_native_set (fd' := { fd with log := (fd.log.append p (pubSize p)).1, waiters := [] }) hfd
      (by rw [← h]; split <;> rfl) (by rw [← h]; split <;> rfl) (.inl rfl) (by rw [← h]; split <;> rfl)
      (by rw [← h]; split <;> rfl) (by rw [← h]; split <;> rfl)

theorem appendToFilters_kstep : ∀ (idxs : List Nat) {s s' : RState} {p : Pub},
    appendToFilters s idxs p = .ok s' → KStep s s'
  | [], s, s', p, h => by simp only [appendToFilters, Except.ok.injEq] at h; subst h; exact KStep.refl _
  | i :: is, s, s', p, h => by
    simp only [appendToFilters] at h
    split at h
    · simp at h
    · rename_i s1 h1
      exact (appendToFilter_kstep h1).trans (appendToFilters_kstep is h)

theorem drainNotifications_kstep : ∀ (ns : List (Nat × DataRequest)) {s s' : RState},
    drainNotifications s ns = .ok s' → KStep s s'
  | [], s, s', h => by simp only [drainNotifications, Except.ok.injEq] at h; subst h; exact KStep.refl _
  | (id, r0) :: rest, s, s', h => by
    simp only [drainNotifications] at h
    split at h
    · simp at h
    · rename_i s1 h1
      split at h
      · simp at h
      · rename_i s2 h2
        exact ((track_kstep h1).trans (reschedule_kstep h2)).trans (drainNotifications_kstep rest h)

theorem drain_all_kstep {s s' : RState} (h : drainNotifications { s with notifications := [] } s.notifications = .ok s') :
    KStep s s' :=
  (KStep.of_conns (s := s) (s' := { s with notifications := [] }) rfl rfl rfl rfl rfl).trans (drainNotifications_kstep _ h)

theorem wakeParkedSorted_kstep : ∀ (logs : List Nat) {s s' : RState}, wakeParkedSorted s logs = .ok s' → KStep s s'
  | [], s, s', h => by
    simp only [wakeParkedSorted, Except.ok.injEq] at h; subst h
    exact KStep.refl _
  | i :: rest, s, s', h => by
    rw [wakeParkedSorted_cons] at h
    split at h
    · exact wakeParkedSorted_kstep rest h
    · rename_i fd hfd
      split at h
      · simp at h
      · rename_i s2 h2
        have a : KStep s (clearWaiters s i fd) := ⟨KConn.of_conns rfl, rfl⟩
        exact (a.trans (drainNotifications_kstep _ h2)).trans (wakeParkedSorted_kstep rest h)


theorem wakeParked_kstep {s s' : RState} {logs : List Nat} (h : wakeParked s logs = .ok s') : KStep s s' :=
  wakeParkedSorted_kstep _ h


theorem appendToCommitlog_kstep {s s' : RState} {id : Nat} {p : Pub} {e : Option AppendErr}
    (h : appendToCommitlog s id p = .ok (s', e)) : KStep s s' := by
  unfold appendToCommitlog at h
  split at h
  · simp at h
  · rename_i c hc
    simp only [] at h
    split at h
    · simp only [Except.ok.injEq, Prod.mk.injEq] at h; obtain ⟨rfl, _⟩ := h; exact KStep.refl _
    · split at h
      · simp only [Except.ok.injEq, Prod.mk.injEq] at h; obtain ⟨rfl, _⟩ := h; exact KStep.refl _
      · rename_i s1 p1 hr
        have h1 : KStep s s1 := by
          split at hr
          · simp only [Except.ok.injEq, Prod.mk.injEq] at hr; obtain ⟨rfl, _⟩ := hr; exact KStep.refl _
          · split at hr
            · simp at hr
            · split at hr
              · split at hr
                · simp at hr
                · simp only [Except.ok.injEq, Prod.mk.injEq] at hr; obtain ⟨rfl, _⟩ := hr; exact KStep.refl _
              · split at hr
                · simp at hr
                · simp only [Except.ok.injEq, Prod.mk.injEq] at hr; obtain ⟨rfl, _⟩ := hr
                  exact KStep.of_set (c' := { c with topicAliases := _ }) hc rfl rfl rfl rfl rfl rfl rfl
        refine h1.trans ?_
        split at h
        · simp only [Except.ok.injEq, Prod.mk.injEq] at h; obtain ⟨rfl, _⟩ := h; exact KStep.refl _
        · rename_i topic ht
          split at h
          · simp at h
          · rename_i s2 idxs h2
            split at h
            · simp at h
            · rename_i s3 h3
              simp only [Except.ok.injEq, Prod.mk.injEq] at h; obtain ⟨rfl, _⟩ := h
              have a : KStep s1 ((updateRetained s1 topic p1).g (Ghost.accepted (some id) p1 topic)) :=
                (updateRetained_kstep s1 topic p1).trans (KStep.of_conns rfl rfl rfl rfl rfl)
              exact (a.trans (dlMatches_kstep h2)).trans (appendToFilters_kstep idxs h3)

theorem hpPre_kstep {s s' : RState} {id : Nat} {p : Pub} {fl fl' : Flags} {b : Bool}
    (h : hpPre s id p fl = .ok (s', fl', b)) : KStep s s' := by
  unfold hpPre at h
  split at h
  · split at h
    · simp at h
    · rename_i s1 h1
      simp only [Except.ok.injEq, Prod.mk.injEq] at h; obtain ⟨rfl, _⟩ := h
      exact commitAck_kstep h1
  · split at h
    · split at h
      · simp at h
      · rename_i c hc
        simp only [Except.ok.injEq, Prod.mk.injEq] at h; obtain ⟨rfl, _⟩ := h
        exact KStep.of_set (c' := { c with acks := _ }) hc rfl rfl rfl rfl rfl rfl rfl
    · simp only [Except.ok.injEq, Prod.mk.injEq] at h; obtain ⟨rfl, _⟩ := h; exact KStep.refl _

theorem fdRetained_kstep {s s' : RState} {req : DataRequest} {slots slots' : Nat} {ps : List (Pub × Option Cursor)}
    (h : fdRetained s req slots = .ok (s', ps, slots')) : KStep s s' := by
  unfold fdRetained at h
  split at h
  · split at h
    · simp at h
    · rename_i s1 ps1 h1
      simp only [Except.ok.injEq, Prod.mk.injEq] at h; obtain ⟨rfl, _⟩ := h
      exact readRetained_kstep h1
  · simp only [Except.ok.injEq, Prod.mk.injEq] at h; obtain ⟨rfl, _⟩ := h; exact KStep.refl _


end Router
