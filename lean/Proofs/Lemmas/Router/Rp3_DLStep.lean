/-
`DLInv` is an invariant of `step`: it holds in every reachable state (C01.1).
-/
import Proofs.Lemmas.Router.Rp3_Publish
namespace Router
namespace Rp3

macro "dkey_leaf" : tactic => `(tactic|
  first
    | rfl
    | (simp only [dkey_setConn, dkey_g, dkey_setLink, dkey_pushNotifs, dkey_wakeLink]
       try (first | rfl | ((repeat' split) <;> rfl))
       done))

theorem removeWaiterFor_filters (d : DataLog) (id : Nat) (f : String) :
    (removeWaiterFor d id f).native.map (fun fd : FilterData => fd.filter) = d.native.map (fun fd : FilterData => fd.filter) :=
  (removeWaiterFor_same d id f).1
theorem removeWaiterFor_logs (d : DataLog) (id : Nat) (f : String) :
    (removeWaiterFor d id f).native.map (fun fd : FilterData => fd.log) = d.native.map (fun fd : FilterData => fd.log) :=
  (removeWaiterFor_same d id f).2.1
theorem removeWaiterFor_fi (d : DataLog) (id : Nat) (f : String) :
    (removeWaiterFor d id f).filterIndexes = d.filterIndexes := (removeWaiterFor_same d id f).2.2.1
theorem removeWaiterFor_pf (d : DataLog) (id : Nat) (f : String) :
    (removeWaiterFor d id f).publishFilters = d.publishFilters := (removeWaiterFor_same d id f).2.2.2

theorem unsubscribeFilters_dkey : ∀ (fs : List String) {s s' : RState} {id : Nat} {rs rs' : List Bool},
    unsubscribeFilters s id fs rs = .ok (s', rs') → dkey s' = dkey s
  | [], s, s', id, rs, rs', h => by
    simp only [unsubscribeFilters, Except.ok.injEq, Prod.mk.injEq] at h; obtain ⟨rfl, _⟩ := h; rfl
  | f :: rest, s, s', id, rs, rs', h => by
    simp only [unsubscribeFilters] at h
    repeat' (split at h)
    all_goals first
      | (simp at h; done)
      | (refine Eq.trans (unsubscribeFilters_dkey rest h) ?_
         first
          | dkey_leaf
          | (simp only [dkey, RState.g, setConn, removeWaiterFor_filters, removeWaiterFor_logs, removeWaiterFor_fi, removeWaiterFor_pf]
             try (first | rfl | ((repeat' split) <;> rfl))
             done))

theorem prepareFilter_dkey {s s' : RState} {id : Nat} {cursor : Cursor} {idx : Nat} {f : SubFilter}
    {group : Option String} {subId : Option Nat}
    (h : prepareFilter s id cursor idx f group subId = .ok s') : dkey s' = dkey s := by
  unfold prepareFilter at h
  simp only [] at h
  repeat' (split at h)
  all_goals first
    | (simp at h; done)
    | (simp only [Except.ok.injEq] at h; subst h
       first
        | dkey_leaf
        | (rw [reschedule_dkey (by assumption), track_dkey (by assumption)]; dkey_leaf))

theorem subscribeFilters_inv : ∀ (fs : List SubFilter) {s s' : RState} {id : Nat} {subId : Option Nat}
    {codes codes' : List Nat} {fl fl' : Flags}, DLInv s →
    subscribeFilters s id subId fs codes fl = .ok (s', codes', fl') → DLInv s'
  | [], s, s', id, subId, codes, codes', fl, fl', hi, h => by
    simp only [subscribeFilters, Except.ok.injEq, Prod.mk.injEq] at h; obtain ⟨rfl, _⟩ := h; exact hi
  | f :: rest, s, s', id, subId, codes, codes', fl, fl', hi, h => by
    simp only [subscribeFilters] at h
    split at h
    · simp only [Except.ok.injEq, Prod.mk.injEq] at h; obtain ⟨rfl, _⟩ := h; exact hi
    · split at h
      · simp only [Except.ok.injEq, Prod.mk.injEq] at h; obtain ⟨rfl, _⟩ := h; exact hi
      · split at h
        · simp at h
        · rename_i s2 hp
          refine subscribeFilters_inv rest ?_ h
          refine DLInv.of_dkey ?_ (prepareFilter_dkey hp)
          exact (nextNativeOffset_inv hi).1

theorem appendToCommitlog_inv' {s s' : RState} {id : Nat} {p : Pub} {e : Option AppendErr}
    (h : appendToCommitlog s id p = .ok (s', e)) (hi : DLInv s) : DLInv s' := appendToCommitlog_inv hi h

theorem handlePacket_inv {s s' : RState} {id : Nat} {cid : String} {pkt : Packet} {fl fl' : Flags} (hi : DLInv s)
    (h : handlePacket s id cid pkt fl = .ok (s', fl')) : DLInv s' := by
  cases pkt with
  | publish p =>
    simp only [handlePacket] at h
    generalize hpre : (if p.qos = 1 then
        match commitAck s id (.puback p.pkid) with
        | .error e => (.error e : M (RState × Flags × Bool))
        | .ok s => .ok (s, { fl with forceAck := true }, false)
      else if p.qos = 2 then
        match getConn s id with
        | none => .error (.panic "ackslog.get_mut(id).unwrap()")
        | some c =>
          let acks := { committed := c.acks.committed ++ [Ack.pubrec p.pkid], recorded := c.acks.recorded ++ [p] }
          .ok ((setConn s id { c with acks := acks }).g (.committed id (.pubrec p.pkid)), { fl with forceAck := true }, true)
      else .ok (s, fl, false)) = pre at h
    have hpre' : ∀ s1 fl1 b, pre = .ok (s1, fl1, b) → DLInv s1 := by
      intro s1 fl1 b he
      rw [he] at hpre
      repeat' (split at hpre)
      all_goals first
        | (simp at hpre; done)
        | (simp only [Except.ok.injEq, Prod.mk.injEq] at hpre; obtain ⟨rfl, _⟩ := hpre
           first | exact hi | exact hi.of_dkey (commitAck_dkey (by assumption)) | exact hi.of_dkey rfl)
    repeat' (split at h)
    all_goals first
      | (simp at h; done)
      | (simp only [Except.ok.injEq, Prod.mk.injEq] at h; obtain ⟨rfl, _⟩ := h
         first
          | exact hpre' _ _ _ rfl
          | exact appendToCommitlog_inv (hpre' _ _ _ rfl) (by assumption))
  | subscribe pkid subId filters =>
    simp only [handlePacket] at h
    repeat' (split at h)
    all_goals first
      | (simp at h; done)
      | (simp only [Except.ok.injEq, Prod.mk.injEq] at h; obtain ⟨rfl, _⟩ := h
         exact (subscribeFilters_inv filters hi (by assumption)).of_dkey (commitAck_dkey (by assumption)))
  | unsubscribe pkid filters =>
    simp only [handlePacket] at h
    repeat' (split at h)
    all_goals first
      | (simp at h; done)
      | (simp only [Except.ok.injEq, Prod.mk.injEq] at h; obtain ⟨rfl, _⟩ := h
         exact (hi.of_dkey (unsubscribeFilters_dkey filters (by assumption))).of_dkey (commitAck_dkey (by assumption)))
  | puback pkid =>
    simp only [handlePacket] at h
    repeat' (split at h)
    all_goals first
      | (simp at h; done)
      | (simp only [Except.ok.injEq, Prod.mk.injEq] at h; obtain ⟨rfl, _⟩ := h
         first
          | exact hi.of_dkey rfl
          | (have e := reschedule_dkey (by assumption); exact hi.of_dkey (e.trans rfl)))
  | pubrec pkid =>
    simp only [handlePacket] at h
    repeat' (split at h)
    all_goals first
      | (simp at h; done)
      | (simp only [Except.ok.injEq, Prod.mk.injEq] at h; obtain ⟨rfl, _⟩ := h
         first
          | exact hi.of_dkey rfl
          | (have e := reschedule_dkey (by assumption); exact hi.of_dkey (e.trans rfl)))
  | pubrel pkid hp =>
    simp only [handlePacket] at h
    repeat' (split at h)
    all_goals first
      | (simp at h; done)
      | (simp only [Except.ok.injEq, Prod.mk.injEq] at h; obtain ⟨rfl, _⟩ := h
         first
          | exact hi.of_dkey rfl
          | (have e := reschedule_dkey (by assumption)
             have a := appendToCommitlog_inv' (by assumption)
             exact (a (hi.of_dkey rfl)).of_dkey e)
          | (have a := appendToCommitlog_inv' (by assumption)
             exact a (hi.of_dkey rfl)))
  | pubcomp pkid =>
    simp only [handlePacket] at h
    repeat' (split at h)
    all_goals first
      | (simp at h; done)
      | (simp only [Except.ok.injEq, Prod.mk.injEq] at h; obtain ⟨rfl, _⟩ := h
         exact hi.of_dkey rfl)
  | pingreq =>
    simp only [handlePacket] at h
    repeat' (split at h)
    all_goals first
      | (simp at h; done)
      | (simp only [Except.ok.injEq, Prod.mk.injEq] at h; obtain ⟨rfl, _⟩ := h
         exact hi.of_dkey (commitAck_dkey (by assumption)))
  | disconnect =>
    simp only [handlePacket, Except.ok.injEq, Prod.mk.injEq] at h; obtain ⟨rfl, _⟩ := h; exact hi.of_dkey rfl
  | other =>
    simp only [handlePacket, Except.ok.injEq, Prod.mk.injEq] at h; obtain ⟨rfl, _⟩ := h; exact hi

theorem handlePackets_inv : ∀ (pkts : List Packet) {s s' : RState} {id : Nat} {cid : String} {fl fl' : Flags},
    DLInv s → handlePackets s id cid pkts fl = .ok (s', fl') → DLInv s'
  | [], s, s', id, cid, fl, fl', hi, h => by
    simp only [handlePackets, Except.ok.injEq, Prod.mk.injEq] at h; obtain ⟨rfl, _⟩ := h; exact hi
  | p :: rest, s, s', id, cid, fl, fl', hi, h => by
    simp only [handlePackets] at h
    split at h
    · simp at h
    · rename_i s1 fl1 hp
      have hi1 := handlePacket_inv hi hp
      split at h
      · simp only [Except.ok.injEq, Prod.mk.injEq] at h; obtain ⟨rfl, _⟩ := h; exact hi1
      · exact handlePackets_inv rest hi1 h

theorem handleDevicePayload_inv {s s' : RState} {id : Nat} (hi : DLInv s)
    (h : handleDevicePayload s id = .ok s') : DLInv s' := by
  unfold handleDevicePayload at h
  split at h
  · simp only [Except.ok.injEq] at h; subst h; exact hi
  · rename_i c hc
    simp only [] at h
    split at h
    · simp at h
    · rename_i s1 fl hp
      have hi1 : DLInv s1 := by
        refine handlePackets_inv _ ?_ hp
        exact hi.of_dkey rfl
      split at h
      · simp at h
      · rename_i s2 hr1
        have hi2 : DLInv s2 := by
          split at hr1
          · exact hi1.of_dkey (reschedule_dkey hr1)
          · simp only [Except.ok.injEq] at hr1; subst hr1; exact hi1
        split at h
        · simp at h
        · rename_i s3 hr2
          have hi3 : DLInv s3 := by
            split at hr2
            · exact hi2.of_dkey ((drainNotifications_dkey _ hr2).trans rfl)
            · simp only [Except.ok.injEq] at hr2; subst hr2; exact hi2
          split at h
          · simp at h
          rename_i s4 hw
          have hi4 : DLInv s4 := hi3.of_dkey (wakeTurnMoved_dkey hw)
          split at h
          · exact hi4.of_dkey (handleDisconnection_dkey h)
          · simp only [Except.ok.injEq] at h; subst h; exact hi4

theorem handleLastWill_inv {s s' : RState} {cid : String} (hi : DLInv s)
    (h : handleLastWill s cid = .ok s') : DLInv s' := by
  unfold handleLastWill at h
  split at h
  · simp only [Except.ok.injEq] at h; subst h; exact hi
  · simp only [] at h
    split at h
    · simp only [Except.ok.injEq] at h; subst h; exact hi.of_dkey rfl
    · rename_i topic _
      split at h
      · simp at h
      · rename_i s1 idxs hm
        split at h
        · simp at h
        · rename_i s2 ha
          have hi1 : DLInv s1 := by
            refine (dlMatches_inv ?_ hm).1
            refine hi.of_dkey ?_
            rw [dkey_g, updateRetained_dkey]; rfl
          have hi2 := appendToFilters_inv idxs hi1 ha
          exact hi2.of_dkey ((drainNotifications_dkey _ h).trans rfl)

theorem events_inv {s s' : RState} {id : Nat} {e : Event} (hi : DLInv s)
    (h : events s id e = .ok s') : DLInv s' := by
  cases e with
  | deviceData => exact handleDevicePayload_inv hi h
  | ready =>
    simp only [events] at h
    split at h
    · exact hi.of_dkey (reschedule_dkey h)
    · simp only [Except.ok.injEq] at h; subst h; exact hi
  | disconnect => exact hi.of_dkey (handleDisconnection_dkey (id := id) (r := none) h)
  | publishWill c => exact handleLastWill_inv hi h
  | shadow f => exact hi.of_dkey (handleShadow_dkey h)
  | sendMeters => simp only [events, Except.ok.injEq] at h; subst h; exact hi
  | sendAlerts => simp only [events, Except.ok.injEq] at h; subst h; exact hi

theorem step_inv {s s' : RState} {op : Op} {o : Out} (hi : DLInv s)
    (h : step s op = .ok (s', o)) : DLInv s' := by
  cases op with
  | connect spec =>
    simp only [step] at h
    split at h
    · simp at h
    · rename_i s1 hc
      simp only [Except.ok.injEq, Prod.mk.injEq] at h; obtain ⟨rfl, _⟩ := h
      exact hi.of_dkey (handleNewConnection_dkey hc)
  | push l p =>
    simp only [step] at h
    split at h
    · simp only [Except.ok.injEq, Prod.mk.injEq] at h; obtain ⟨rfl, _⟩ := h; exact hi.of_dkey rfl
    · simp only [Except.ok.injEq, Prod.mk.injEq] at h; obtain ⟨rfl, _⟩ := h; exact hi
  | event id e =>
    simp only [step] at h
    split at h
    · simp at h
    · rename_i s1 he
      simp only [Except.ok.injEq, Prod.mk.injEq] at h; obtain ⟨rfl, _⟩ := h
      exact events_inv hi he
  | consume =>
    simp only [step] at h
    split at h
    · simp at h
    · rename_i s1 b hc
      simp only [Except.ok.injEq, Prod.mk.injEq] at h; obtain ⟨rfl, _⟩ := h
      exact hi.of_dkey (consume_dkey hc)
  | drain l =>
    simp only [step] at h
    split at h
    · split at h
      · simp only [Except.ok.injEq, Prod.mk.injEq] at h; obtain ⟨rfl, _⟩ := h; exact hi.of_dkey rfl
      · simp only [Except.ok.injEq, Prod.mk.injEq] at h; obtain ⟨rfl, _⟩ := h; exact hi
    · simp only [Except.ok.injEq, Prod.mk.injEq] at h; obtain ⟨rfl, _⟩ := h; exact hi

theorem init_inv (cfg : Config) (h1 : 1 ≤ cfg.maxSegmentSize) (h2 : 1 ≤ cfg.maxSegmentCount) : DLInv (init cfg) := by
  refine ⟨⟨?_, ?_, ?_, ?_⟩, ?_, h1, h2⟩
  · intro f i; simp [init]
  · simp [init]
  · simp [init]
  · intro t v hv; simp [init, alookup] at hv
  · intro l hl; simp [init] at hl

/-- C01.1: the maps are coherent and the filter logs well formed in every reachable state -/
theorem reachable_inv {cfg : Config} (h1 : 1 ≤ cfg.maxSegmentSize) (h2 : 1 ≤ cfg.maxSegmentCount)
    {s : RState} (hr : Reachable cfg s) : DLInv s :=
  hr.induction DLInv (init_inv cfg h1 h2)
    (fun s ch _ _ _ hi hs => step_inv (s := { s with oracle := ch }) (hi.of_dkey rfl) hs)

end Rp3
end Router
