/-
The invariant `QI` and the ownership of data requests through a batch of packets.
-/
import Proofs.Lemmas.Router.Rp6_Unsub
namespace Router

/-- the filters an UNSUBSCRIBE packet names -/
def pktUnsubs : Packet → List String
  | .unsubscribe _ fs => fs
  | _ => []

/-- every connection still owns the requests `K` protects -/
def Keeps (K : Nat → DataRequest → Prop) (s s' : RState) : Prop := ∀ j r, Own s j r → K j r → Own s' j r

theorem Keeps.trans {a b c : RState} {K : Nat → DataRequest → Prop} (h1 : Keeps K a b) (h2 : Keeps K b c) : Keeps K a c :=
  fun j r h k => h2 j r (h1 j r h k) k

theorem Keeps.mono {s s' : RState} {K K' : Nat → DataRequest → Prop} (h : Keeps K s s') (hk : ∀ j r, K' j r → K j r) :
    Keeps K' s s' := fun j r ho k => h j r ho (hk j r k)

theorem OEq.keeps {s s' : RState} (m : OEq s s') (K : Nat → DataRequest → Prop) : Keeps K s s' :=
  fun j r h _ => (m.own j r).mpr h

/-- one packet other than SUBSCRIBE / UNSUBSCRIBE moves requests at most -/
theorem handlePacket_oeq {s s' : RState} {id : Nat} {cid : String} {pkt : Packet} {fl fl' : Flags}
    (hns : ∀ a b c, pkt ≠ .subscribe a b c) (hnu : ∀ a b, pkt ≠ .unsubscribe a b)
    (h : handlePacket s id cid pkt fl = .ok (s', fl')) : OEq s s' := by
  cases pkt with
  | publish p =>
    rw [handlePacket_publish] at h
    split at h
    · simp at h
    · rename_i s1 fl1 h1
      simp only [Except.ok.injEq, Prod.mk.injEq] at h; obtain ⟨rfl, _⟩ := h
      exact hpPre_oeq h1
    · rename_i s1 fl1 h1
      have a := hpPre_oeq h1
      split at h
      · simp at h
      all_goals
        rename_i h2
        simp only [Except.ok.injEq, Prod.mk.injEq] at h; obtain ⟨rfl, _⟩ := h
        exact a.trans (appendToCommitlog_oeq h2)
  | subscribe pkid subId filters => exact absurd rfl (hns pkid subId filters)
  | unsubscribe pkid filters => exact absurd rfl (hnu pkid filters)
  | puback pkid =>
    simp only [handlePacket] at h
    split at h
    · simp at h
    · rename_i c hc
      have a : OEq s (setConn s id { c with out := (c.out.registerAck pkid).1 }) :=
        OEq.of_set (c' := { c with out := (c.out.registerAck pkid).1 }) hc rfl rfl rfl rfl rfl rfl rfl
      split at h
      · simp only [Except.ok.injEq, Prod.mk.injEq] at h; obtain ⟨rfl, _⟩ := h; exact a
      · split at h
        · simp at h
        · rename_i s2 h2
          simp only [Except.ok.injEq, Prod.mk.injEq] at h; obtain ⟨rfl, _⟩ := h
          have a' : OEq s ((setConn s id { c with out := (c.out.registerAck pkid).1 }).g (.clientAcked id pkid)) :=
            a.trans (OEq.of_conns rfl rfl rfl rfl rfl)
          exact a'.trans (reschedule_oeq h2)
  | pubrec pkid =>
    simp only [handlePacket] at h
    split at h
    · simp at h
    · rename_i c hc
      split at h
      · simp only [Except.ok.injEq, Prod.mk.injEq] at h; obtain ⟨rfl, _⟩ := h
        exact OEq.of_set (c' := { c with out := (c.out.registerAck pkid).1 }) hc rfl rfl rfl rfl rfl rfl rfl
      · split at h
        · simp at h
        · rename_i s2 h2
          simp only [Except.ok.injEq, Prod.mk.injEq] at h; obtain ⟨rfl, _⟩ := h
          refine OEq.trans ?_ (reschedule_oeq h2)
          exact OEq.of_set (c' := { c with out := _, acks := _ }) hc rfl rfl rfl rfl rfl rfl rfl
  | pubrel pkid hp =>
    simp only [handlePacket] at h
    split at h
    · simp at h
    · rename_i c hc
      split at h
      · simp only [Except.ok.injEq, Prod.mk.injEq] at h; obtain ⟨rfl, _⟩ := h
        exact OEq.of_set (c' := { c with acks := _ }) hc rfl rfl rfl rfl rfl rfl rfl
      · rename_i p rest hrec
        have a : OEq s ((setConn s id { c with acks := { committed := c.acks.committed ++ [Ack.pubcomp pkid], recorded := rest } }).g
            (.committed id (.pubcomp pkid))) :=
          OEq.of_set (c' := { c with acks := _ }) hc rfl rfl rfl rfl rfl rfl rfl
        split at h
        · simp at h
        · rename_i h2
          simp only [Except.ok.injEq, Prod.mk.injEq] at h; obtain ⟨rfl, _⟩ := h
          exact a.trans (appendToCommitlog_oeq h2)
        · rename_i s2 h2
          split at h
          · simp at h
          · rename_i s3 h3
            simp only [Except.ok.injEq, Prod.mk.injEq] at h; obtain ⟨rfl, _⟩ := h
            exact (a.trans (appendToCommitlog_oeq h2)).trans (reschedule_oeq h3)
  | pubcomp pkid =>
    simp only [handlePacket] at h
    split at h
    · simp at h
    · rename_i c hc
      have a : OEq s (setConn s id { c with out := (c.out.registerPubcomp pkid).1 }) :=
        OEq.of_set (c' := { c with out := _ }) hc rfl rfl rfl rfl rfl rfl rfl
      split at h
      all_goals
        simp only [Except.ok.injEq, Prod.mk.injEq] at h; obtain ⟨rfl, _⟩ := h; exact a
  | pingreq =>
    simp only [handlePacket] at h
    split at h
    · simp at h
    · rename_i s1 h1
      simp only [Except.ok.injEq, Prod.mk.injEq] at h; obtain ⟨rfl, _⟩ := h
      exact commitAck_oeq h1
  | disconnect =>
    simp only [handlePacket, Except.ok.injEq, Prod.mk.injEq] at h; obtain ⟨rfl, _⟩ := h
    exact OEq.of_conns rfl rfl rfl rfl rfl
  | other =>
    simp only [handlePacket, Except.ok.injEq, Prod.mk.injEq] at h; obtain ⟨rfl, _⟩ := h
    exact OEq.refl _

/-- one packet: the invariant is kept; only an UNSUBSCRIBE takes requests away, those of the filters
    it names, from the connection that sent it -/
theorem handlePacket_qi {s s' : RState} {id : Nat} {cid : String} {pkt : Packet} {fl fl' : Flags} (hq : QI s)
    (h : handlePacket s id cid pkt fl = .ok (s', fl')) :
    QI s' ∧ Keeps (fun j r => ¬ (j = id ∧ r.filter ∈ pktUnsubs pkt)) s s' ∧ s'.config = s.config := by
  by_cases hsub : ∃ a b c, pkt = .subscribe a b c
  · obtain ⟨pkid, subId, filters, rfl⟩ := hsub
    simp only [handlePacket] at h
    split at h
    · simp at h
    · rename_i s1 codes fl1 h1
      split at h
      · simp at h
      · rename_i s2 h2
        simp only [Except.ok.injEq, Prod.mk.injEq] at h; obtain ⟨rfl, _⟩ := h
        obtain ⟨q1, o1, c1⟩ := subscribeFilters_qi filters hq h1
        have m2 := commitAck_oeq h2
        exact ⟨q1.oeq m2, fun j r ho _ => (m2.own j r).mpr (o1 j r ho), by rw [m2.cfg, c1]⟩
  · by_cases hun : ∃ a b, pkt = .unsubscribe a b
    · obtain ⟨pkid, filters, rfl⟩ := hun
      simp only [handlePacket] at h
      split at h
      · simp at h
      · split at h
        · simp at h
        · rename_i s1 rs h1
          split at h
          · simp at h
          · rename_i s2 h2
            simp only [Except.ok.injEq, Prod.mk.injEq] at h; obtain ⟨rfl, _⟩ := h
            obtain ⟨q1, m1⟩ := unsubscribeFilters_qi filters h1 hq
            have m2 := commitAck_oeq h2
            exact ⟨q1.oeq m2, fun j r ho k => (m2.own j r).mpr (m1.fwd j r ho k), by rw [m2.cfg, m1.cfg]⟩
    · have m := handlePacket_oeq (fun a b c e => hsub ⟨a, b, c, e⟩) (fun a b e => hun ⟨a, b, e⟩) h
      exact ⟨hq.oeq m, m.keeps _, m.cfg⟩

theorem handlePackets_qi {id : Nat} {cid : String} : ∀ (ps : List Packet) {s s' : RState} {fl fl' : Flags}, QI s →
    handlePackets s id cid ps fl = .ok (s', fl') →
    QI s' ∧ Keeps (fun j r => ¬ (j = id ∧ ∃ p ∈ ps, r.filter ∈ pktUnsubs p)) s s' ∧ s'.config = s.config
  | [], s, s', fl, fl', hq, h => by
    simp only [handlePackets, Except.ok.injEq, Prod.mk.injEq] at h; obtain ⟨rfl, _⟩ := h
    exact ⟨hq, fun _ _ h _ => h, rfl⟩
  | p :: rest, s, s', fl, fl', hq, h => by
    simp only [handlePackets] at h
    split at h
    · simp at h
    · rename_i s1 fl1 h1
      obtain ⟨q1, k1, c1⟩ := handlePacket_qi hq h1
      have k1' : Keeps (fun j r => ¬ (j = id ∧ ∃ p' ∈ p :: rest, r.filter ∈ pktUnsubs p')) s s1 :=
        k1.mono fun j r hk hh => hk ⟨hh.1, p, by simp, hh.2⟩
      split at h
      · simp only [Except.ok.injEq, Prod.mk.injEq] at h; obtain ⟨rfl, _⟩ := h
        exact ⟨q1, k1', c1⟩
      · obtain ⟨q2, k2, c2⟩ := handlePackets_qi rest q1 h
        refine ⟨q2, k1'.trans (k2.mono fun j r hk hh => hk ⟨hh.1, ?_⟩), by rw [c2, c1]⟩
        obtain ⟨p', hp', hm⟩ := hh.2
        exact ⟨p', List.mem_cons_of_mem _ hp', hm⟩

end Router
