/-
Reachable states of the router model and the induction principle used by every global
invariant: a state is reachable when some finite list of ops, each with its own oracle (the
recorded hash-map orders / random draws of that op), leads to it from `init cfg` without error.
-/
import Model.Router.Step
import Proofs.Lemmas.Router.Rp1_Decomp
namespace Router

/-- run a list of ops; the oracle of each op is installed before it; an op whose `step` returns
    an error (panic or inadmissible oracle) ends the run with that error -/
def run (s : RState) : List (Op × List Choice) → M RState
  | [] => .ok s
  | (op, choices) :: rest =>
    match step { s with oracle := choices } op with
    | .error e => .error e
    | .ok (s', _) => run s' rest

/-- `s` is the state after some error-free history that starts in the initial state -/
def Reachable (cfg : Config) (s : RState) : Prop := ∃ ops, run (init cfg) ops = .ok s

theorem reachable_init (cfg : Config) : Reachable cfg (init cfg) := ⟨[], rfl⟩

theorem run_append : ∀ (a b : List (Op × List Choice)) (s s1 : RState),
    run s a = .ok s1 → run s (a ++ b) = run s1 b
  | [], b, s, s1, h => by simp only [run, Except.ok.injEq] at h; subst h; rfl
  | (op, ch) :: rest, b, s, s1, h => by
    simp only [run, List.cons_append] at h ⊢
    split at h
    · simp at h
    · rename_i s' out h1
      exact run_append rest b s' s1 h

/-- one more successful op keeps the state reachable -/
theorem Reachable.step {cfg : Config} {s s' : RState} {o : List Choice} {op : Op} {out : Out}
    (hr : Reachable cfg s) (h : Router.step { s with oracle := o } op = .ok (s', out)) :
    Reachable cfg s' := by
  obtain ⟨ops, hops⟩ := hr
  refine ⟨ops ++ [(op, o)], ?_⟩
  rw [run_append ops _ _ _ hops]
  simp [run, h]

theorem run_invariant (Inv : RState → Prop)
    (hstep : ∀ s o op s' out, Inv s → step { s with oracle := o } op = .ok (s', out) → Inv s') :
    ∀ (ops : List (Op × List Choice)) (s s' : RState), Inv s → run s ops = .ok s' → Inv s'
  | [], s, s', hi, h => by simp only [run, Except.ok.injEq] at h; subst h; exact hi
  | (op, ch) :: rest, s, s', hi, h => by
    simp only [run] at h
    split at h
    · simp at h
    · rename_i s1 out h1
      exact run_invariant Inv hstep rest s1 s' (hstep s ch op s1 out hi h1) h

/-- the induction principle: an invariant holds in `init cfg` and is preserved by every
    successful step under every oracle, hence holds in every reachable state -/
theorem Reachable.induction {cfg : Config} (Inv : RState → Prop) (hinit : Inv (init cfg))
    (hstep : ∀ s o op s' out, Inv s → Router.step { s with oracle := o } op = .ok (s', out) → Inv s')
    {s : RState} (hr : Reachable cfg s) : Inv s := by
  obtain ⟨ops, hops⟩ := hr
  exact run_invariant Inv hstep ops _ _ hinit hops

/-! kernel-executable form of `run` (see the end of Rp1_Decomp.lean): closed examples are evaluated
on `runX` by `rfl` / `decide` and transferred with `run_eq_runX` -/

def runX (s : RState) : List (Op × List Choice) → M RState
  | [] => .ok s
  | (op, choices) :: rest =>
    match stepX { s with oracle := choices } op with
    | .error e => .error e
    | .ok (s', _) => runX s' rest

theorem run_eq_runX : ∀ (ops : List (Op × List Choice)) (s : RState), run s ops = runX s ops
  | [], s => rfl
  | (op, ch) :: rest, s => by
    simp only [run, runX, step_eqX]
    split
    · rfl
    · exact run_eq_runX rest _

theorem Reachable.ofX {cfg : Config} {s : RState} (ops : List (Op × List Choice))
    (h : runX (init cfg) ops = .ok s) : Reachable cfg s := ⟨ops, by rw [run_eq_runX]; exact h⟩

end Router
