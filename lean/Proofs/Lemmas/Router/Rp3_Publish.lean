/-
C01.1 — what accepting a publish does to the filter logs.

`deliver s topic p` (= `DataLog::matches` followed by the append loop of `append_to_commitlog` /
`handle_last_will`) appends `p` to the log of every filter that matches `topic`, exactly once,
touches no other log, and moves the parked waiters of exactly those filters to `notifications` —
in every state satisfying `DLInv`, whether the answer comes from the cache or is computed.
-/
import Proofs.Lemmas.Router.Rp3_DLWalk
namespace Router
namespace Rp3
open CommitLog (Rep logC)

theorem appendToFilter_ok {s s' : RState} {idx : Nat} {p : Pub} (h : appendToFilter s idx p = .ok s') :
    ∃ fd, s.datalog.native[idx]? = some fd ∧
      s'.datalog = { s.datalog with native := (s.datalog.native.set idx
          { fd with log := (fd.log.append p (pubSize p)).1, waiters := [] }) } ∧
      s'.notifications = s.notifications ++ fd.waiters ∧
      s'.toState = { s.toState with datalog := s'.datalog, notifications := s'.notifications } ∧
      s'.oracle = s.oracle := by
  unfold appendToFilter at h
  split at h
  · simp at h
  · rename_i fd hfd
    simp only [Except.ok.injEq] at h
    subst h
    refine ⟨fd, hfd, ?_, ?_, ?_, ?_⟩ <;> split <;> rfl

theorem clog_append_rep (l : CLog.Log Pub) (hist : List Pub) (h : Rep (logC l) hist) (x : Pub) (sz : Nat) :
    Rep (logC (l.append x sz).1) (hist ++ [x]) := by
  obtain ⟨l', h1, h2, _⟩ := CommitLog.append_rep (logC l) hist h x sz
  rw [CommitLog.append_bridge l h.wf] at h1
  have e := (Prod.mk.inj (Except.ok.inj h1)).1
  rw [← e] at h2
  exact h2

theorem appendToFilter_inv {s s' : RState} {idx : Nat} {p : Pub} (hi : DLInv s)
    (h : appendToFilter s idx p = .ok s') : DLInv s' := by
  obtain ⟨fd, hfd, hd, _, hst, _⟩ := appendToFilter_ok h
  have hc : s'.config = s.config := by
    have := congrArg State.config hst; simpa using this
  refine ⟨hi.maps.of_same ?_ ?_ ?_, ?_, by rw [hc]; exact hi.segSize, by rw [hc]; exact hi.segCount⟩
  · rw [hd]; exact list_map_set_same (fun fd : FilterData => fd.filter) _ _ fd _ hfd (by rfl)
  · rw [hd]
  · rw [hd]
  · intro l hl
    rw [hd] at hl
    simp only [List.map_set] at hl
    rcases List.mem_or_eq_of_mem_set hl with hm | rfl
    · exact hi.logs l hm
    · obtain ⟨hist, hr⟩ := hi.logs fd.log (List.mem_map.mpr ⟨fd, List.mem_of_getElem? hfd, rfl⟩)
      exact ⟨_, clog_append_rep _ _ hr _ _⟩

theorem appendToFilters_inv : ∀ (idxs : List Nat) {s s' : RState} {p : Pub}, DLInv s →
    appendToFilters s idxs p = .ok s' → DLInv s'
  | [], s, s', p, hi, h => by simp only [appendToFilters, Except.ok.injEq] at h; subst h; exact hi
  | i :: is, s, s', p, hi, h => by
    simp only [appendToFilters] at h
    split at h
    · simp at h
    · rename_i s1 h1
      exact appendToFilters_inv is (appendToFilter_inv hi h1) h

theorem flatMap_congr' {α β} {f g : α → List β} : ∀ {l : List α}, (∀ a ∈ l, f a = g a) → l.flatMap f = l.flatMap g
  | [], _ => rfl
  | a :: l, h => by
    rw [List.flatMap_cons, List.flatMap_cons, h a (by simp), flatMap_congr' (fun b hb => h b (by simp [hb]))]

/-- what one append does to a filter's record -/
def FilterData.appended (fd : FilterData) (p : Pub) : FilterData :=
  { fd with log := (fd.log.append p (pubSize p)).1, waiters := [] }

/-- the append loop over a duplicate-free index list: each listed log gets the publish once, no
    other log changes, the listed filters' waiters are moved to `notifications` -/
theorem appendToFilters_spec : ∀ (v : List Nat) {s s' : RState} {p : Pub}, v.Nodup →
    appendToFilters s v p = .ok s' →
    (∀ i : Nat, s'.datalog.native[i]? =
        (s.datalog.native[i]?).map (fun fd => if i ∈ v then FilterData.appended fd p else fd)) ∧
    s'.notifications = s.notifications ++
        v.flatMap (fun i => ((s.datalog.native[i]?).map (·.waiters)).getD []) ∧
    s'.datalog.filterIndexes = s.datalog.filterIndexes ∧
    s'.toState = { s.toState with datalog := s'.datalog, notifications := s'.notifications } ∧
    s'.oracle = s.oracle
  | [], s, s', p, _, h => by
    simp only [appendToFilters, Except.ok.injEq] at h; subst h
    refine ⟨fun i => ?_, by simp, rfl, rfl, rfl⟩
    cases s.datalog.native[i]? <;> simp
  | j :: r, s, s', p, hn, h => by
    simp only [appendToFilters] at h
    split at h
    · simp at h
    · rename_i s1 h1
      obtain ⟨fd, hfd, hd, hnot, hst, hor⟩ := appendToFilter_ok h1
      have hjr : j ∉ r := (List.nodup_cons.mp hn).1
      obtain ⟨ih1, ih2, ih3, ih4, ih5⟩ := appendToFilters_spec r (List.nodup_cons.mp hn).2 h
      have hjl := (List.getElem?_eq_some_iff.mp hfd).1
      have hnat : ∀ i : Nat, s1.datalog.native[i]? =
          if i = j then some (FilterData.appended fd p) else s.datalog.native[i]? := by
        intro i
        rw [hd]
        by_cases hij : i = j
        · subst hij; simp [hjl, FilterData.appended]
        · have : ¬ j = i := fun e => hij e.symm
          simp [this, hij]
      refine ⟨fun i => ?_, ?_, by rw [ih3, hd], ?_, by rw [ih5, hor]⟩
      · rw [ih1 i, hnat i]
        by_cases hij : i = j
        · subst hij; simp [hjr, hfd]
        · cases s.datalog.native[i]? <;> simp [hij]
      · rw [ih2, hnot, List.flatMap_cons, hfd]
        simp only [Option.map_some, Option.getD_some, List.append_assoc]
        congr 2
        apply flatMap_congr'
        intro i hi
        have hij : i ≠ j := fun e => hjr (e ▸ hi)
        rw [hnat i]; simp [hij]
      · rw [ih4]
        have e1 := congrArg State.config hst
        rw [hst]

/-- `DataLog::matches` followed by the append loop -/
def deliver (s : RState) (topic : String) (p : Pub) : M RState :=
  match dlMatches s topic with
  | .error e => .error e
  | .ok (s, idxs) => appendToFilters s idxs p

theorem deliver_inv {s s' : RState} {topic : String} {p : Pub} (hi : DLInv s)
    (h : deliver s topic p = .ok s') : DLInv s' := by
  unfold deliver at h
  split at h
  · simp at h
  · rename_i s1 idxs hm
    exact appendToFilters_inv idxs (dlMatches_inv hi hm).1 h

/-- C01.1: the publish is appended to exactly the logs of the matching filters, once each -/
theorem deliver_spec {s s' : RState} {topic : String} {p : Pub} (hi : DLInv s)
    (h : deliver s topic p = .ok s') :
    (∀ i : Nat, s'.datalog.native[i]? =
        (s.datalog.native[i]?).map (fun fd => if topicMatches topic fd.filter then FilterData.appended fd p else fd)) ∧
    (∀ w, w ∈ s'.notifications ↔ w ∈ s.notifications ∨
        ∃ (i : Nat) (fd : FilterData), s.datalog.native[i]? = some fd ∧ topicMatches topic fd.filter = true ∧ w ∈ fd.waiters) := by
  unfold deliver at h
  split at h
  · simp at h
  · rename_i s1 idxs hm
    obtain ⟨hi1, hperm, hnat, hfi⟩ := dlMatches_inv hi hm
    have hnd : idxs.Nodup := hperm.nodup_iff.mpr (expectedIdxs_nodup hi.maps topic)
    have hmem : ∀ i, i ∈ idxs ↔ ∃ fd, s.datalog.native[i]? = some fd ∧ topicMatches topic fd.filter = true :=
      fun i => by rw [hperm.mem_iff, mem_expectedIdxs hi.maps]
    have hnotif : s1.notifications = s.notifications := by
      rw [dlMatches_only hm]
    obtain ⟨h1, h2, _⟩ := appendToFilters_spec idxs hnd h
    constructor
    · intro i
      rw [h1 i, hnat]
      cases hg : s.datalog.native[i]? with
      | none => rfl
      | some fd =>
        simp only [Option.map_some, Option.some.injEq]
        by_cases ht : topicMatches topic fd.filter = true
        · have : i ∈ idxs := (hmem i).mpr ⟨fd, hg, ht⟩
          simp [this, ht]
        · have : i ∉ idxs := by
            intro hin
            obtain ⟨fd', hg', ht'⟩ := (hmem i).mp hin
            rw [hg] at hg'; cases hg'; exact ht ht'
          simp [this, ht]
    · intro w
      rw [h2, hnotif, hnat, List.mem_append, List.mem_flatMap]
      constructor
      · rintro (hw | ⟨i, hiv, hw⟩)
        · exact Or.inl hw
        · obtain ⟨fd, hg, ht⟩ := (hmem i).mp hiv
          rw [hg] at hw
          exact Or.inr ⟨i, fd, hg, ht, by simpa using hw⟩
      · rintro (hw | ⟨i, fd, hg, ht, hw⟩)
        · exact Or.inl hw
        · exact Or.inr ⟨i, (hmem i).mpr ⟨fd, hg, ht⟩, by simp [hg, hw]⟩

/-! ### `append_to_commitlog` = alias resolution, then `deliver` -/

/-- `validate_and_set_topic_alias` -/
def resolveAlias (s : RState) (id : Nat) (c : Conn) (alias : Option Nat) (p : Pub) : Except AppendErr (RState × Pub) :=
  match alias with
  | none => .ok (s, p)
  | some a =>
    if a = 0 || a > TOPIC_ALIAS_MAX then .error (.disconnect "TopicAliasInvalid")
    else if p.topic.isEmpty then
      match nlookup a c.topicAliases with
      | none => .error (.disconnect "ProtocolError")
      | some t => .ok (s, { p with topic := t.toUTF8.toList })
    else
      match utf8? p.topic with
      | none => .error .other
      | some t => .ok (setConn s id { c with topicAliases := ninsert a t c.topicAliases }, p)

theorem appendToCommitlog_eq (s : RState) (id : Nat) (p : Pub) :
    appendToCommitlog s id p =
      match getConn s id with
      | none => .error (.panic "connections.get_mut(id).unwrap()")
      | some c =>
        if !({ p with alias := none } : Pub).subIds.isEmpty then .ok (s, some (.disconnect "MalformedPacket")) else
        match resolveAlias s id c p.alias { p with alias := none } with
        | .error e => .ok (s, some e)
        | .ok (s1, p1) =>
          match utf8? p1.topic with
          | none => .ok (s1, some .other)
          | some topic =>
            match deliver ((updateRetained s1 topic p1).g (.accepted (some id) p1 topic)) topic { p1 with retain := false } with
            | .error e => .error e
            | .ok s2 => .ok (s2, none) := by
  unfold appendToCommitlog deliver
  cases getConn s id with
  | none => rfl
  | some c =>
    simp only []
    split
    · rfl
    · have : ∀ (r : Except AppendErr (RState × Pub)), r = resolveAlias s id c p.alias { p with alias := none } →
          (match r with
            | .error e => (Except.ok (s, some e) : M (RState × Option AppendErr))
            | .ok (s1, p1) =>
              match utf8? p1.topic with
              | none => .ok (s1, some .other)
              | some topic =>
                match dlMatches ((updateRetained s1 topic p1).g (.accepted (some id) p1 topic)) topic with
                | .error e => .error e
                | .ok (s, idxs) =>
                  match appendToFilters s idxs { p1 with retain := false } with
                  | .error e => .error e
                  | .ok s => .ok (s, none)) =
          (match r with
            | .error e => .ok (s, some e)
            | .ok (s1, p1) =>
              match utf8? p1.topic with
              | none => .ok (s1, some .other)
              | some topic =>
                match (match dlMatches ((updateRetained s1 topic p1).g (.accepted (some id) p1 topic)) topic with
                    | .error e => (Except.error e : M RState)
                    | .ok (s, idxs) => appendToFilters s idxs { p1 with retain := false }) with
                | .error e => .error e
                | .ok s2 => .ok (s2, none)) := by
        intro r _
        cases r with
        | error e => rfl
        | ok sp =>
          obtain ⟨s1, p1⟩ := sp
          simp only []
          cases utf8? p1.topic with
          | none => rfl
          | some topic =>
            simp only []
            cases dlMatches ((updateRetained s1 topic p1).g (.accepted (some id) p1 topic)) topic with
            | error e => rfl
            | ok r2 => rfl
      exact this _ rfl

theorem resolveAlias_dkey {s s1 : RState} {id : Nat} {c : Conn} {a : Option Nat} {p p1 : Pub}
    (h : resolveAlias s id c a p = .ok (s1, p1)) : dkey s1 = dkey s := by
  unfold resolveAlias at h
  repeat' (split at h)
  all_goals first
    | (simp at h; done)
    | (simp only [Except.ok.injEq, Prod.mk.injEq] at h; obtain ⟨rfl, _⟩ := h; rfl)

theorem appendToCommitlog_inv {s s' : RState} {id : Nat} {p : Pub} {e : Option AppendErr} (hi : DLInv s)
    (h : appendToCommitlog s id p = .ok (s', e)) : DLInv s' := by
  rw [appendToCommitlog_eq] at h
  split at h
  · simp at h
  · split at h
    · simp only [Except.ok.injEq, Prod.mk.injEq] at h; obtain ⟨rfl, _⟩ := h; exact hi
    · split at h
      · simp only [Except.ok.injEq, Prod.mk.injEq] at h; obtain ⟨rfl, _⟩ := h; exact hi
      · rename_i s1 p1 hr
        have hi1 : DLInv s1 := hi.of_dkey (resolveAlias_dkey hr)
        split at h
        · simp only [Except.ok.injEq, Prod.mk.injEq] at h; obtain ⟨rfl, _⟩ := h; exact hi1
        · rename_i topic _
          split at h
          · simp at h
          · rename_i s2 hd
            simp only [Except.ok.injEq, Prod.mk.injEq] at h; obtain ⟨rfl, _⟩ := h
            refine deliver_inv (hi1.of_dkey ?_) hd
            rw [dkey_g, updateRetained_dkey]

end Rp3
end Router
