/-
List-level facts about the group table for `handle_disconnection` / `handle_new_connection`:
`extract_group` of a group key, `removeFromGroups`, `turnMovedLogs`, `rewindRequests`, `rewoundLogs`,
`rejoinGroups`.
-/
import Proofs.Lemmas.Router.Rp9_Packets
namespace Router
open Router.Rp3

/-- `$share/<key>` splits back into the key and the key's path -/
theorem extractGroup_share_key {k : String} (h : (k.toList.idxOf? '/').isSome = true) :
    extractGroup ("$share/" ++ k) = some (k, gpath k) := by
  unfold extractGroup gpath
  simp only [String.toList_append]
  have hp : ("$share/".toList).isPrefixOf ("$share/".toList ++ k.toList) = true :=
    List.isPrefixOf_iff_prefix.mpr (List.prefix_append _ _)
  simp only [hp, if_true, List.drop_left]
  cases hi : k.toList.idxOf? '/' with
  | none => rw [hi] at h; cases h
  | some i => simp [String.ofList_toList]

theorem mem_removeFromGroups {sh : List (String × SharedGroup)} {cid : String} {p' : String × SharedGroup}
    (h : p' ∈ removeFromGroups sh cid) :
    ∃ p ∈ sh, p' = (p.1, p.2.removeClient cid) ∧ (p.2.removeClient cid).clients.isEmpty = false := by
  unfold removeFromGroups at h
  obtain ⟨hm, hne⟩ := List.mem_filter.mp h
  obtain ⟨p, hp, rfl⟩ := List.mem_map.mp hm
  exact ⟨p, hp, rfl, by simpa using hne⟩

theorem nodup_removeFromGroups {sh : List (String × SharedGroup)} (cid : String) (h : (sh.map (·.1)).Nodup) :
    ((removeFromGroups sh cid).map (·.1)).Nodup := by
  unfold removeFromGroups
  refine nodup_keys_sublist ?_ List.filter_sublist
  rw [List.map_map]
  exact h

/-- a group that stays and whose turn passes to another member has its log in `turnMovedLogs` -/
theorem mem_turnMovedLogs_of {d : DataLog} {sh : List (String × SharedGroup)} {cid : String} {p : String × SharedGroup} {i : Nat}
    (hp : p ∈ sh) (hk : (p.1.toList.idxOf? '/').isSome = true) (hne : (p.2.removeClient cid).clients.isEmpty = false)
    (hcur : (p.2.removeClient cid).current ≠ p.2.current) (hi : d.filterIdx? (gpath p.1) = some i) :
    i ∈ turnMovedLogs d sh cid := by
  unfold turnMovedLogs
  refine List.mem_flatMap.mpr ⟨p, hp, ?_⟩
  have hc : (!(p.2.removeClient cid).clients.isEmpty && (p.2.removeClient cid).current != p.2.current) = true := by
    simp only [hne, Bool.not_false, Bool.true_and, bne_iff_ne, ne_eq]; exact hcur
  simp only [hc, if_true, extractGroup_share_key hk, hi]
  simp

/-! ### `rewindRequests` -/

theorem mem_ainsert_iff_key {β : Type} {k : String} {v : β} {l : List (String × β)} (h : (alookup k l).isSome = true)
    {p : String × β} (hp : p ∈ ainsert k v l) : (p = (k, v) ∧ ∃ q ∈ l, q.1 = k) ∨ (p ∈ l ∧ p.1 ≠ k) := by
  unfold ainsert at hp
  simp only [h, if_true] at hp
  obtain ⟨q, hq, e⟩ := List.mem_map.mp hp
  split at e
  · rename_i hk; exact .inl ⟨e.symm, q, hq, hk⟩
  · rename_i hk; subst e; exact .inr ⟨hq, hk⟩

/-- `rewindRequests` only sets cursors of existing groups, and only for a request of the group that
    has a retransmission cursor -/
theorem rewindRequests_entries (retx : List (Nat × Cursor)) : ∀ (rs : List DataRequest) (sh : List (String × SharedGroup))
    (acc : List DataRequest),
    ((rewindRequests sh retx rs acc).1.map (·.1) = sh.map (·.1)) ∧
    ∀ p' ∈ (rewindRequests sh retx rs acc).1, ∃ p ∈ sh, p'.1 = p.1 ∧ p'.2.clients = p.2.clients ∧ p'.2.idx = p.2.idx ∧
      (p'.2.cursor = p.2.cursor ∨ ∃ r ∈ rs, r.group = some p.1 ∧ (nlookup r.filterIdx retx).isSome = true)
  | [], sh, acc => ⟨rfl, fun p' hp => ⟨p', hp, rfl, rfl, rfl, .inl rfl⟩⟩
  | r :: rest, sh, acc => by
    unfold rewindRequests
    cases hl : nlookup r.filterIdx retx with
    | none =>
      simp only []
      obtain ⟨a, b⟩ := rewindRequests_entries retx rest sh _
      refine ⟨a, fun p' hp' => ?_⟩
      obtain ⟨p, hp, e1, e2, e3, e4⟩ := b p' hp'
      exact ⟨p, hp, e1, e2, e3, e4.imp id fun ⟨x, hx, y⟩ => ⟨x, List.mem_cons_of_mem _ hx, y⟩⟩
    | some cur =>
      simp only []
      cases hg : r.group with
      | none =>
        simp only []
        obtain ⟨a, b⟩ := rewindRequests_entries retx rest sh _
        refine ⟨a, fun p' hp' => ?_⟩
        obtain ⟨p, hp, e1, e2, e3, e4⟩ := b p' hp'
        exact ⟨p, hp, e1, e2, e3, e4.imp id fun ⟨x, hx, y⟩ => ⟨x, List.mem_cons_of_mem _ hx, y⟩⟩
      | some g =>
        simp only []
        cases hgl : alookup g sh with
        | none =>
          simp only []
          obtain ⟨a, b⟩ := rewindRequests_entries retx rest sh _
          refine ⟨a, fun p' hp' => ?_⟩
          obtain ⟨p, hp, e1, e2, e3, e4⟩ := b p' hp'
          exact ⟨p, hp, e1, e2, e3, e4.imp id fun ⟨x, hx, y⟩ => ⟨x, List.mem_cons_of_mem _ hx, y⟩⟩
        | some grp =>
          simp only []
          obtain ⟨a, b⟩ := rewindRequests_entries retx rest (ainsert g { grp with cursor := cur } sh) _
          have hsome : (alookup g sh).isSome = true := by rw [hgl]; rfl
          refine ⟨by rw [a, keys_ainsert, hsome]; rfl, fun p' hp' => ?_⟩
          obtain ⟨p, hp, e1, e2, e3, e4⟩ := b p' hp'
          rcases mem_ainsert_iff_key hsome hp with ⟨rfl, q, hq, hqk⟩ | ⟨hp0, hne⟩
          · -- the entry that was set by `r`: relate it to an original entry with key `g`
            have hmem := mem_of_alookup hgl
            refine ⟨(g, grp), hmem, e1, e2, e3, .inr ⟨r, by simp, hg, by rw [hl]; rfl⟩⟩
          · exact ⟨p, hp0, e1, e2, e3, e4.imp id fun ⟨x, hx, y⟩ => ⟨x, List.mem_cons_of_mem _ hx, y⟩⟩

/-- the log of a request that sets a group back is in `rewoundLogs` -/
theorem mem_rewoundLogs {sh : List (String × SharedGroup)} {retx : List (Nat × Cursor)} {rs : List DataRequest}
    {r : DataRequest} {p : String × SharedGroup} (hr : r ∈ rs) (hp : p ∈ sh) (hg : r.group = some p.1)
    (hx : (nlookup r.filterIdx retx).isSome = true) : r.filterIdx ∈ rewoundLogs sh retx rs := by
  unfold rewoundLogs
  refine List.mem_filterMap.mpr ⟨r, hr, ?_⟩
  have h2 : (alookup p.1 sh).isSome = true := by
    cases hl : alookup p.1 sh with
    | some _ => rfl
    | none => exact absurd rfl (alookup_eq_none_mem.mp hl p hp)
  cases h1 : nlookup r.filterIdx retx with
  | none => rw [h1] at hx; cases hx
  | some cur =>
    rw [hg]
    simp only [Option.bind_some]
    cases h3 : alookup p.1 sh with
    | none => rw [h3] at h2; cases h2
    | some _ => rfl

/-! ### `rejoinGroups` -/

/-- `rejoinGroups`: existing groups gain the client at the end (once per restored request of the
    group); new groups start with the client as only member, turn index 0 -/
theorem rejoinGroups_entries (strategy : Strategy) (cid : String) : ∀ (rs : List DataRequest) (sh : List (String × SharedGroup)),
    (sh.map (·.1)).Nodup →
    ((rejoinGroups strategy cid rs sh).map (·.1)).Nodup ∧
    ∀ p' ∈ rejoinGroups strategy cid rs sh,
      (∃ p ∈ sh, p'.1 = p.1 ∧ p'.2.cursor = p.2.cursor ∧ p'.2.idx = p.2.idx ∧ ∃ n, p'.2.clients = p.2.clients ++ List.replicate n cid) ∨
      (p'.2.idx = 0 ∧ (∃ n, p'.2.clients = List.replicate (n + 1) cid) ∧ ∃ r ∈ rs, r.group = some p'.1)
  | [], sh, hn => ⟨hn, fun p' hp => .inl ⟨p', hp, rfl, rfl, rfl, 0, by simp⟩⟩
  | r :: rest, sh, hn => by
    unfold rejoinGroups
    cases hg : r.group with
    | none =>
      simp only []
      obtain ⟨a, b⟩ := rejoinGroups_entries strategy cid rest sh hn
      refine ⟨a, fun p' hp' => (b p' hp').imp id fun ⟨x, y, r', hr', e⟩ => ⟨x, y, r', List.mem_cons_of_mem _ hr', e⟩⟩
    | some g =>
      simp only []
      obtain ⟨a, b⟩ := rejoinGroups_entries strategy cid rest
        (ainsert g { (alookup g sh).getD { cursor := r.cursor, strategy := strategy } with
          clients := ((alookup g sh).getD { cursor := r.cursor, strategy := strategy }).clients ++ [cid] } sh)
        (nodup_keys_ainsert hn)
      refine ⟨a, fun p' hp' => ?_⟩
      rcases b p' hp' with ⟨p, hp, e1, e2, e3, n, e4⟩ | ⟨e1, e2, r', hr', e3⟩
      · rcases mem_ainsert hp with hp0 | rfl
        · exact .inl ⟨p, hp0, e1, e2, e3, n, e4⟩
        · cases hl : alookup g sh with
          | some grp =>
            simp only [hl, Option.getD_some] at e1 e2 e3 e4
            refine .inl ⟨(g, grp), mem_of_alookup hl, e1, e2, e3, n + 1, ?_⟩
            rw [e4, List.append_assoc]
            congr 1
          | none =>
            simp only [hl, Option.getD_none] at e1 e2 e3 e4
            refine .inr ⟨e3, ⟨n, ?_⟩, r, by simp, by rw [hg, e1]⟩
            rw [e4]
            simp [List.replicate_succ]
      · exact .inr ⟨e1, e2, r', List.mem_cons_of_mem _ hr', e3⟩

end Router
