/-
C03, request conservation through `handle_disconnection` (tracker and parked requests are collected
into the saved session, one copy each; nothing of the closed connection stays behind) and
`handle_new_connection` (a restored tracker passes `check_tracker_duplicates`; a slot id that is
reused finds no stale request).
-/
import Proofs.Lemmas.Router.Rp4_Subs
import Proofs.Lemmas.Router.Rp3_SessionThm
namespace Router
open Router.Rp3

theorem rewindOne_key (retx : List (Nat × Cursor)) (r : DataRequest) : (rewindOne retx r).key = r.key := by
  obtain ⟨a, b, _⟩ := rewindOne_fields retx r
  unfold DataRequest.key; rw [a, b]

theorem atGroupCursor_key (sh : List (String × SharedGroup)) (r : DataRequest) : (atGroupCursor sh r).key = r.key := by
  obtain ⟨a, b, _⟩ := atGroupCursor_fields sh r
  unfold DataRequest.key; rw [a, b]

theorem savedRequests_keys (s : RState) (id : Nat) (c : Conn) :
    (savedRequests s id c).map (·.key) = (c.tracker.requests ++ (datalogClean s.datalog id).2).map (·.key) := by
  unfold savedRequests
  simp only [List.map_map]
  apply List.map_congr_left
  intro r _
  simp [rewindOne_key, atGroupCursor_key]

theorem key_fst (r : DataRequest) : r.key.1 = r.filter := rfl

/-- the requests `DataLog::clean(id)` collects are the parked requests of `id` -/
theorem datalogClean_collected (d : DataLog) (id : Nat) :
    ((datalogClean d id).2.map (·.key)).Perm (wkeys d id) := by
  rw [datalogClean_eq]
  simp only []
  unfold wkeys
  induction d.native with
  | nil => exact .refl _
  | cons fd l ih =>
    simp only [List.flatMap_cons, List.map_append]
    exact (cleanFd_keys id fd).2.2.1.append ih

/-- and the other connections keep theirs -/
theorem datalogClean_wkeys (d : DataLog) (id : Nat) :
    (∀ j, j ≠ id → (wkeys (datalogClean d id).1 j).Perm (wkeys d j)) ∧ wkeys (datalogClean d id).1 id = [] := by
  rw [datalogClean_eq]
  simp only []
  unfold wkeys
  simp only [flatMap_map_eq]
  refine ⟨fun j hj => perm_flatMap_congr fun fd _ => (cleanFd_keys id fd).1 j hj, ?_⟩
  induction d.native with
  | nil => rfl
  | cons fd l ih => simp only [List.flatMap_cons, (cleanFd_keys id fd).2.1, ih, List.append_nil]

/-- `handle_disconnection` keeps request conservation (no notification pending, as between two
    steps and after the drain in `handle_device_payload`): the closed connection's tracked and parked
    requests become the saved tracker, one copy each; nothing with its id stays in the waiter lists -/
theorem handleDisconnection_rc {s s' : RState} {id : Nat} {r : Option String} (h : RC s)
    (hn : s.notifications = []) (hd : handleDisconnection s id r = .ok s') : RC s' := by
  cases hc : getConn s id with
  | none => rw [handleDisconnection_missing s id r hc] at hd; cases hd; exact h
  | some c =>
    obtain ⟨hgrv, _, _, _, _⟩ := handleDisconnection_spec hc hd
    rw [Router.handleDisconnection_eq] at hd
    simp only [hc] at hd
    refine RCX.view ?_ (wakeParked_move hd)
    have wf := wakeParked_wakeFrame hd
    obtain ⟨k1, _, _, _, _, _, k7, k8, _⟩ := hdFinal_fields s id c r
    obtain ⟨hK, hW, hG⟩ := (RC.iff s).mp h
    have hget : ∀ j, getConn (hdFinal s id c r) j = if j = id then none else getConn s j := fun j => by
      unfold getConn; rw [k1, Slab.get?_remove]
    have hfi : (hdFinal s id c r).datalog.filterIndexes = s.datalog.filterIndexes := by
      rw [k8, datalogClean_eq]
    obtain ⟨cw1, cw2⟩ := datalogClean_wkeys s.datalog id
    have hkeys_id : keysOf (hdFinal s id c r) id = [] := by
      unfold keysOf trackerKeys notifKeys
      rw [hget, waiterKeys_eq, k8, cw2, k7, hn]; simp [pickK_nil]
    have hkeys : ∀ j, j ≠ id → (keysOf (hdFinal s id c r) j).Perm (keysOf s j) := fun j hj => by
      unfold keysOf trackerKeys notifKeys
      rw [hget, waiterKeys_eq, waiterKeys_eq, k8, k7]
      simp only [hj, if_false]
      exact ((cw1 j hj).append_left _).append_right _
    refine (RC.iff _).mpr ⟨?_, ?_, ?_⟩
    · refine hK.of_sub (fun j => ?_) (fun j k hk hs => ?_) (fun k hk => by rw [hfi]; exact hk)
      · by_cases hj : j = id
        · subst hj; exact ⟨keysOf s j, by rw [hkeys_id]; simp⟩
        · exact ⟨[], by simpa using (hkeys j hj).symm⟩
      · by_cases hj : j = id
        · subst hj; rw [hkeys_id] at hk; simp at hk
        · unfold subsOf at hs ⊢; rw [hget]; simp only [hj, if_false]; exact hs
    · intro i fd' hfd' w hw
      rw [k8, datalogClean_eq] at hfd'
      simp only [List.getElem?_map, Option.map_eq_some_iff] at hfd'
      obtain ⟨fd, hfd, rfl⟩ := hfd'
      exact hW i fd hfd w ((cleanFd_keys id fd).2.2.2 w hw)
    · rw [← wf.graveyard, hgrv, hfi]
      intro p hp ss hss
      rcases mem_ainsert hp with hp | rfl
      · exact hG p hp ss hss
      · -- the session saved for the closed connection
        simp only [] at hss
        unfold savedSession at hss
        split at hss
        · cases hss
        · simp only [Option.some.injEq] at hss; subst hss
          have hperm : ((savedRequests s id c).map (·.key)).Perm (trackerKeys s id ++ waiterKeys s id) := by
            rw [savedRequests_keys, List.map_append]
            unfold trackerKeys; rw [hc]
            exact (datalogClean_collected s.datalog id).append_left _
          have hsub : ∀ k ∈ (savedRequests s id c).map (·.key), k ∈ keysOf s id := fun k hk => by
            unfold keysOf; exact List.mem_append_left _ (hperm.mem_iff.mp hk)
          refine ⟨?_, fun q hq => ?_⟩
          · show ((savedRequests s id c).map (·.filter)).Nodup
            have e : (savedRequests s id c).map (·.filter) = ((savedRequests s id c).map (·.key)).map (·.1) := by
              simp [List.map_map, Function.comp_def, key_fst]
            rw [e, ((hperm.map (·.1)).nodup_iff)]
            have := hK.nodup id
            unfold keysOf at this
            rw [List.map_append] at this
            exact (List.nodup_append.mp this).1
          · have hq' : q.key ∈ keysOf s id := hsub _ (List.mem_map_of_mem (f := (·.key)) hq)
            refine ⟨?_, hK.idx id _ hq'⟩
            have := hK.subs id _ hq'
            unfold subsOf at this; rw [hc] at this
            exact this

/-! ### CONNECT -/

/-- what a restored tracker and subscription set satisfy -/
theorem hnRestored_ok {s : RState} (h : RC s) (spec : ConnectSpec) :
    ((hnTracker spec (hnRestored s spec)).requests.map (·.filter)).Nodup ∧
    ∀ r ∈ (hnTracker spec (hnRestored s spec)).requests,
      r.filter ∈ hnSubs (hnRestored s spec) ∧ KeyOK s.datalog.filterIndexes r.key := by
  have hG := ((RC.iff s).mp h).2.2
  unfold hnRestored
  split
  · exact ⟨by simp [hnTracker], fun r hr => by simp [hnTracker] at hr⟩
  · unfold hnSession
    cases hl : alookup spec.clientId s.graveyard with
    | none => exact ⟨by simp [hnTracker], fun r hr => by simp [hnTracker] at hr⟩
    | some v =>
      cases v with
      | none => exact ⟨by simp [hnTracker], fun r hr => by simp [hnTracker] at hr⟩
      | some ss => exact hG _ (mem_of_alookup hl) ss rfl

/-- the registration proper: the restored tracker passes
    `debug_assert!(check_tracker_duplicates(..).is_none())`, and request conservation is kept — the slot
    id the connection gets (fresh or reused) owns no request before -/
theorem hnRegister_rc {s : RState} {spec : ConnectSpec} (h : RC s) (ha : AdmInv s)
    (hnone : alookup spec.clientId s.connectionMap = none) (hroom : s.conns.len < s.config.maxConnections) :
    Good (fun msg => msg ≠ dupNewConnection) RC (hnRegister s spec) := by
  rw [hnRegister_eq']
  obtain ⟨hnd, hreq⟩ := hnRestored_ok h spec
  have hno : trackerNoDup (hnTracker spec (hnRestored s spec)) = true := (trackerNoDup_iff _).mpr hnd
  rw [hno]
  simp only [Bool.not_true, Bool.false_eq_true, if_false]
  obtain ⟨hK, hW, hG⟩ := (RC.iff s).mp h
  obtain ⟨e1, e2, e3⟩ := hnPre_core s spec
  obtain ⟨f1, f2, f3, f4⟩ := hnPre_fields s spec
  obtain ⟨_, hvac, hnew, hold⟩ := AdmInv.register (conn' := { hnConn spec (hnRestored s spec) with
      acks := { committed := hnAcks spec (hnKey s spec) (hnSession s spec).isSome (hnRestored s spec) } })
    ha hnone hroom rfl e1 e2 e3
  have hnew' : getConn (hnPre s spec) (hnKey s spec) = some _ := hnew
  have hold' : ∀ j, j ≠ hnKey s spec → getConn (hnPre s spec) j = getConn s j := hold
  have hvac' : getConn s (hnKey s spec) = none := hvac
  -- the slot id owns nothing in `s`
  have hdead : keysOf s (hnKey s spec) = [] := by
    cases hk : keysOf s (hnKey s spec) with
    | nil => rfl
    | cons k l =>
      have := hK.subs (hnKey s spec) k (by rw [hk]; simp)
      unfold subsOf at this; rw [hvac'] at this; simp at this
  have hwn : waiterKeys s (hnKey s spec) = [] ∧ notifKeys s (hnKey s spec) = [] := by
    unfold keysOf at hdead
    simp only [List.append_eq_nil_iff] at hdead
    exact ⟨hdead.1.2, hdead.2⟩
  have hw : (hnPre s spec).datalog.native.map (·.waiters) = s.datalog.native.map (·.waiters) := by rw [f1]
  have hkeys : ∀ j, keysOf (hnPre s spec) j =
      if j = hnKey s spec then (hnTracker spec (hnRestored s spec)).requests.map (·.key) else keysOf s j := fun j => by
    by_cases hj : j = hnKey s spec
    · subst hj
      simp only [if_true]
      unfold keysOf
      have : waiterKeys (hnPre s spec) (hnKey s spec) = waiterKeys s (hnKey s spec) := by
        unfold waiterKeys; rw [f1]
      rw [this, hwn.1]
      unfold notifKeys; rw [f2]
      have : pickK (hnKey s spec) s.notifications = [] := hwn.2
      rw [this]
      unfold trackerKeys; rw [hnew']
      simp [hnConn]
    · simp only [hj, if_false]
      refine keysOf_congr ?_ hw f2
      unfold trackerKeys; rw [hold' j hj]
  have hpre : RC (hnPre s spec) := by
    refine (RC.iff _).mpr ⟨⟨fun j => ?_, fun j k hk => ?_, fun j k hk => ?_⟩, ?_, ?_⟩
    · rw [hkeys]
      split
      · simpa [List.map_map, Function.comp_def, key_fst] using hnd
      · exact hK.nodup j
    · rw [hkeys] at hk
      unfold subsOf
      by_cases hj : j = hnKey s spec
      · subst hj
        simp only [if_true] at hk
        rw [hnew']
        obtain ⟨r, hr, rfl⟩ := List.mem_map.mp hk
        exact (hreq r hr).1
      · simp only [hj, if_false] at hk
        rw [hold' j hj]
        exact hK.subs j k hk
    · rw [hkeys] at hk
      rw [f1]
      by_cases hj : j = hnKey s spec
      · subst hj
        simp only [if_true] at hk
        obtain ⟨r, hr, rfl⟩ := List.mem_map.mp hk
        exact (hreq r hr).2
      · simp only [hj, if_false] at hk
        exact hK.idx j k hk
    · unfold WIdx; rw [f1]; exact hW
    · rw [f4, f1]; intro p hp ss hss; exact hG p (mem_aremove hp) ss hss
  cases he : reschedule (hnPre s spec) (hnKey s spec) .init with
  | error e =>
    cases e with
    | badChoice m => trivial
    | panic m =>
      show m ≠ dupNewConnection
      unfold reschedule at he
      split at he
      · simp only [Except.error.injEq, Fail.panic.injEq] at he; subst he; decide
      · split at he
        · simp only [Except.error.injEq, Fail.panic.injEq] at he; subst he; decide
        · simp at he
  | ok s' => exact RCX.view hpre (reschedule_move he)

end Router
