/-
C01 `delivery_is_prefix`: the request loop of `consume` threads THE request of `(a, f)` through its
sweeps — what the loop forwards through `f` (`loopFwd`) is a `ReqRun` of that request.
-/
import Proofs.Lemmas.Router.Rp7_Fwd
namespace Router
open Router.Rp3
open CommitLog (Rep logC Issued U64)

theorem consumeLoop_thread {a : Nat} {f : String} {i : Nat} : ∀ (fuel : Nat) {s s' : RState}
    {requests skipped : List DataRequest} {r : DataRequest},
    consumeLoop s a fuel requests skipped = .ok s' →
    ((requests ++ skipped).map (·.filter)).Nodup → r ∈ requests ++ skipped →
    r.filter = f → r.group = none → r.filterIdx = i → ReqAt i s r.cursor →
    ∃ r', Own s' a r' ∧ r'.filter = f ∧ r'.group = none ∧ r'.filterIdx = i ∧
      ReqRun i s r (loopFwd f a fuel s requests skipped) s' r'
  | 0, s, s', requests, skipped, r, hc, _, hr, hf, hg, hi, _ => by
    simp only [consumeLoop] at hc
    simp only [loopFwd]
    exact ⟨r, ((trackv_add hc).1.own a r).mpr (.inr ⟨rfl, hr⟩), hf, hg, hi, reqRun_idle r (trackv_dkey hc)⟩
  | fuel + 1, s, s', [], skipped, r, hc, _, hr, hf, hg, hi, _ => by
    simp only [consumeLoop] at hc
    simp only [loopFwd]
    split at hc
    · simp at hc
    · rename_i s1 h1
      have e1 : dkey s1 = dkey s := by
        split at h1
        · exact pause_dkey h1
        · simp only [Except.ok.injEq] at h1; subst h1; rfl
      refine ⟨r, ((trackv_add hc).1.own a r).mpr (.inr ⟨rfl, by simpa using hr⟩), hf, hg, hi,
        reqRun_idle r ((trackv_dkey hc).trans e1)⟩
  | fuel + 1, s, s', req :: rest, skipped, r, hc, hnd, hr, hf, hg, hi, hat => by
    simp only [consumeLoop] at hc
    simp only [loopFwd]
    split at hc
    · simp at hc
    · rename_i s1 req1 st h1
      rw [h1]
      simp only []
      obtain ⟨c, hcn⟩ : ∃ c, getConn s a = some c := by
        cases hgc : getConn s a with
        | none => rw [Router.forwardDeviceData_eq, hgc] at h1; simp at h1
        | some c => exact ⟨c, rfl⟩
      have ef : req1.filter = req.filter := congrArg Prod.fst (forwardDeviceData_move h1).2
      have hk1 : dkey s1 = dkey s := forwardDeviceData_dkey h1
      have hk2 : dkey (noteTurn s s1 req1) = dkey s := (noteTurn_dkey s s1 req1).trans hk1
      have hnd' : req.filter ∉ (rest ++ skipped).map (·.filter) ∧ ((rest ++ skipped).map (·.filter)).Nodup := by
        simpa using hnd
      -- the threaded request after this sweep
      have key : ∃ (r1 : DataRequest) (d : List Nat), d = (if req.filter = f then sweepDelta s s1 a else []) ∧
          r1.filter = f ∧ r1.group = none ∧ r1.filterIdx = i ∧ ReqAt i (noteTurn s s1 req1) r1.cursor ∧
          (∀ more s'' r'', ReqRun i (noteTurn s s1 req1) r1 more s'' r'' → ReqRun i s r (d ++ more) s'' r'') ∧
          ((r1 = req1 ∧ ∀ x ∈ rest ++ skipped, x.filter ≠ f) ∨ r1 ∈ rest ++ skipped) := by
        by_cases hrq : r = req
        · subst hrq
          obtain ⟨_, _, g1, i1, _⟩ := plain_sweep_offsets hcn hg h1
          have hoffs := sweepDelta_spec hcn hg h1
          have run1 : ReqRun i s r (sweepDelta s s1 a ++ []) s1 req1 :=
            ReqRun.sweep hcn hg hi h1 hoffs (ReqRun.done s1 req1)
          obtain ⟨_, _, hat1⟩ := reqRun_contiguous run1 hat
          refine ⟨req1, sweepDelta s s1 a, by simp [hf], ef.trans hf, g1, i1.trans hi,
            reqAt_of_dkey hat1 (noteTurn_dkey s s1 req1), fun more s'' r'' run => ?_, .inl ⟨rfl, fun x hx e => ?_⟩⟩
          · exact ReqRun.sweep hcn hg hi h1 hoffs (ReqRun.other (fun _ h => reqAt_of_dkey h (noteTurn_dkey s s1 req1)) run)
          · exact hnd'.1 (by rw [hf, ← e]; exact List.mem_map_of_mem hx)
        · have hr' : r ∈ rest ++ skipped := by
            simp only [List.cons_append, List.mem_cons] at hr
            rcases hr with hr | hr
            · exact absurd hr hrq
            · exact hr
          have hne : req.filter ≠ f := fun e => hnd'.1 (by rw [e, ← hf]; exact List.mem_map_of_mem hr')
          refine ⟨r, [], by simp [hne], hf, hg, hi, reqAt_of_dkey hat hk2, fun more s'' r'' run => ?_, .inr hr'⟩
          exact ReqRun.other (fun _ h => reqAt_of_dkey h hk2) run
      obtain ⟨r1, d, hd, hf1, hg1, hi1, hat1, comp, hwhere⟩ := key
      rw [← hd]
      cases st with
      | bufferFull =>
        simp only [] at hc ⊢
        split at hc
        · simp at hc
        · rename_i s3 h3
          have hm : r1 ∈ rest ++ [req1] ++ skipped := by
            rcases hwhere with ⟨e, _⟩ | h
            · simp [e]
            · simp only [List.mem_append] at h ⊢; rcases h with h | h <;> simp [h]
          refine ⟨r1, ((trackv_add hc).1.own a r1).mpr (.inr ⟨rfl, hm⟩), hf1, hg1, hi1, ?_⟩
          have := comp [] s' r1 (reqRun_idle r1 ((trackv_dkey hc).trans (pause_dkey h3)))
          simpa using this
      | inflightFull =>
        simp only [] at hc ⊢
        split at hc
        · simp at hc
        · rename_i s3 h3
          have hm : r1 ∈ rest ++ [req1] ++ skipped := by
            rcases hwhere with ⟨e, _⟩ | h
            · simp [e]
            · simp only [List.mem_append] at h ⊢; rcases h with h | h <;> simp [h]
          refine ⟨r1, ((trackv_add hc).1.own a r1).mpr (.inr ⟨rfl, hm⟩), hf1, hg1, hi1, ?_⟩
          have := comp [] s' r1 (reqRun_idle r1 ((trackv_dkey hc).trans (pause_dkey h3)))
          simpa using this
      | filterCaughtup =>
        simp only [] at hc ⊢
        split at hc
        · simp at hc
        · rename_i s3 h3
          rw [h3]
          simp only []
          rcases hwhere with ⟨e, hno⟩ | hmem
          · subst e
            rw [loopFwd_none f a fuel s3 rest skipped hno]
            have ho3 : Own s3 a r1 := ((park_add h3).1.own a r1).mpr (.inr ⟨rfl, rfl⟩)
            refine ⟨r1, consumeLoop_own fuel hc a r1 ho3, hf1, hg1, hi1, ?_⟩
            exact comp [] s' r1 (reqRun_idle r1 ((consumeLoop_dkey fuel hc).trans (park_dkey h3)))
          · obtain ⟨r', o', f', g', i', run⟩ := consumeLoop_thread fuel hc hnd'.2 hmem hf1 hg1 hi1
              (reqAt_of_dkey hat1 (park_dkey h3))
            exact ⟨r', o', f', g', i', comp _ s' r' (ReqRun.other (fun _ h => reqAt_of_dkey h (park_dkey h3)) run)⟩
      | partialRead =>
        simp only [] at hc ⊢
        have hnd2 : (((rest ++ [req1]) ++ skipped).map (·.filter)).Nodup := by
          have : (((rest ++ [req1]) ++ skipped).map (·.filter)).Perm ((req :: rest ++ skipped).map (·.filter)) := by
            simp only [List.map_append, List.map_cons, List.map_nil, ef, List.cons_append]
            perm_count
          exact this.nodup_iff.mpr hnd
        have hm : r1 ∈ (rest ++ [req1]) ++ skipped := by
          rcases hwhere with ⟨e, _⟩ | h
          · simp [e]
          · simp only [List.mem_append] at h ⊢; rcases h with h | h <;> simp [h]
        obtain ⟨r', o', f', g', i', run⟩ := consumeLoop_thread fuel hc hnd2 hm hf1 hg1 hi1 hat1
        exact ⟨r', o', f', g', i', comp _ s' r' run⟩
      | skipRequest =>
        simp only [] at hc ⊢
        have hnd2 : ((rest ++ (skipped ++ [req1])).map (·.filter)).Nodup := by
          have : ((rest ++ (skipped ++ [req1])).map (·.filter)).Perm ((req :: rest ++ skipped).map (·.filter)) := by
            simp only [List.map_append, List.map_cons, List.map_nil, ef, List.cons_append]
            perm_count
          exact this.nodup_iff.mpr hnd
        have hm : r1 ∈ rest ++ (skipped ++ [req1]) := by
          rcases hwhere with ⟨e, _⟩ | h
          · simp [e]
          · simp only [List.mem_append] at h ⊢; rcases h with h | h <;> simp [h]
        obtain ⟨r', o', f', g', i', run⟩ := consumeLoop_thread fuel hc hnd2 hm hf1 hg1 hi1 hat1
        exact ⟨r', o', f', g', i', comp _ s' r' run⟩

end Router
