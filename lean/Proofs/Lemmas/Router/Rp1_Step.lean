/-
The shape of `handleDevicePayload`, `events` and `step`: a connection-preserving part followed by
at most one `handleDisconnection` of the event's own connection; `AdmInv` for every reachable state.
-/
import Proofs.Lemmas.Router.Rp1_Adm
namespace Router

theorem handleDevicePayload_split {s s' : RState} {id : Nat} (h : handleDevicePayload s id = .ok s') :
    ∃ s1, Shape (RA id) s s1 ∧ (s' = s1 ∨ ∃ r, handleDisconnection s1 id r = .ok s') := by
  unfold handleDevicePayload at h
  split at h
  · simp only [Except.ok.injEq] at h; subst h; exact ⟨s, Shape.refl _, .inl rfl⟩
  · rename_i c hc
    simp only [] at h
    split at h
    · simp at h
    · rename_i s1 fl h1
      have a : Shape (RA id) s s1 := Shape.congr_left (handlePackets_shape _ h1) rfl rfl rfl
      split at h
      · simp at h
      · rename_i s2 h2
        have b : Shape (RA id) s1 s2 := by
          split at h2
          · exact (reschedule_shape h2).rt_ra
          · simp only [Except.ok.injEq] at h2; subst h2; exact Shape.refl _
        split at h
        · simp at h
        · rename_i s3 h3
          have c3 : Shape (RA id) s2 s3 := by
            split at h3
            · exact Shape.congr_left (drainNotifications_shape _ h3).rt_ra rfl rfl rfl
            · simp only [Except.ok.injEq] at h3; subst h3; exact Shape.refl _
          split at h
          · simp at h
          rename_i s4 h4
          refine ⟨s4, ((a.trans b).trans c3).trans (wakeTurnMoved_shape h4).rt_ra, ?_⟩
          split at h
          · exact .inr ⟨_, h⟩
          · simp only [Except.ok.injEq] at h; exact .inl h.symm

theorem events_split {s s' : RState} {id : Nat} {ev : Event} (h : events s id ev = .ok s') :
    ∃ s1, Shape (RA id) s s1 ∧ (s' = s1 ∨ ∃ r, handleDisconnection s1 id r = .ok s') := by
  cases ev with
  | deviceData => exact handleDevicePayload_split h
  | ready =>
    simp only [events] at h
    split at h
    · exact ⟨s', (reschedule_shape h).rt_ra, .inl rfl⟩
    · simp only [Except.ok.injEq] at h; subst h; exact ⟨s, Shape.refl _, .inl rfl⟩
  | disconnect => exact ⟨s, Shape.refl _, .inr ⟨none, h⟩⟩
  | publishWill c => exact ⟨s', (handleLastWill_shape h).rt_ra, .inl rfl⟩
  | shadow f => exact ⟨s', (handleShadow_core h).shape, .inl rfl⟩
  | sendMeters => simp only [events, Except.ok.injEq] at h; subst h; exact ⟨s, Shape.refl _, .inl rfl⟩
  | sendAlerts => simp only [events, Except.ok.injEq] at h; subst h; exact ⟨s, Shape.refl _, .inl rfl⟩

/-- what one op is, in terms of the router functions -/
inductive StepCase (s s' : RState) : Op → Prop
  | connect (spec : ConnectSpec) (h : handleNewConnection s spec = .ok s') : StepCase s s' (.connect spec)
  | event (id : Nat) (ev : Event) (h : events s id ev = .ok s') : StepCase s s' (.event id ev)
  | consume (b : Bool) (h : Router.consume s = .ok (s', b)) : StepCase s s' .consume
  | push (l : Nat) (p : Packet) (h : CoreEq s s') : StepCase s s' (.push l p)
  | drain (l : Nat) (h : CoreEq s s') : StepCase s s' (.drain l)

theorem step_cases {s s' : RState} {op : Op} {out : Out} (h : step s op = .ok (s', out)) : StepCase s s' op := by
  cases op with
  | connect spec =>
    simp only [step] at h
    split at h
    · simp at h
    · rename_i s1 h1
      simp only [Except.ok.injEq, Prod.mk.injEq] at h; obtain ⟨rfl, _⟩ := h; exact .connect spec h1
  | push l p =>
    simp only [step] at h
    split at h
    all_goals
      simp only [Except.ok.injEq, Prod.mk.injEq] at h; obtain ⟨rfl, _⟩ := h; exact .push l p ⟨rfl, rfl, rfl⟩
  | event id e =>
    simp only [step] at h
    split at h
    · simp at h
    · rename_i s1 h1
      simp only [Except.ok.injEq, Prod.mk.injEq] at h; obtain ⟨rfl, _⟩ := h; exact .event id e h1
  | consume =>
    simp only [step] at h
    split at h
    · simp at h
    · rename_i s1 b h1
      simp only [Except.ok.injEq, Prod.mk.injEq] at h; obtain ⟨rfl, _⟩ := h; exact .consume b h1
  | drain l =>
    simp only [step] at h
    split at h
    · split at h
      all_goals
        simp only [Except.ok.injEq, Prod.mk.injEq] at h; obtain ⟨rfl, _⟩ := h; exact .drain l ⟨rfl, rfl, rfl⟩
    · simp only [Except.ok.injEq, Prod.mk.injEq] at h; obtain ⟨rfl, _⟩ := h; exact .drain l ⟨rfl, rfl, rfl⟩

theorem AdmInv.core {s s' : RState} (hi : AdmInv s) (h : CoreEq s s') : AdmInv s' := hi.congr h.1 h.2.1 h.2.2

theorem AdmInv.events {s s' : RState} {id : Nat} {ev : Event} (hi : AdmInv s) (h : events s id ev = .ok s') :
    AdmInv s' := by
  obtain ⟨s1, hs, h' | ⟨r, hd⟩⟩ := events_split h
  · subst h'; exact hi.shape hs.ra_rw
  · exact (hi.shape hs.ra_rw).handleDisconnection hd

theorem AdmInv.consume {s s' : RState} {b : Bool} (hi : AdmInv s) (h : consume s = .ok (s', b)) : AdmInv s' := by
  rcases consume_shape h with ⟨_, hc⟩ | ⟨id, _, hs⟩
  · exact hi.core hc
  · exact hi.shape hs

theorem AdmInv.step {s s' : RState} {op : Op} {out : Out} (hi : AdmInv s) (h : step s op = .ok (s', out)) :
    AdmInv s' := by
  cases step_cases h with
  | connect spec h' => exact hi.handleNewConnection h'
  | event id ev h' => exact hi.events h'
  | consume b h' => exact hi.consume h'
  | push l p h' => exact hi.core h'
  | drain l h' => exact hi.core h'

theorem AdmInv.reachable {cfg : Config} {s : RState} (hr : Reachable cfg s) : AdmInv s :=
  hr.induction AdmInv (AdmInv.init cfg) fun _ o _ _ _ hi h => (hi.oracle o).step h

/-- `config` never changes -/
theorem config_reachable {cfg : Config} {s : RState} (hr : Reachable cfg s) : s.config = cfg := by
  refine hr.induction (fun s => s.config = cfg) rfl fun s o op s' out hi h => ?_
  have key : s'.config = s.config := by
    have h0 := step_cases h
    clear h
    cases h0 with
    | connect spec h =>
      rw [handleNewConnection_eq] at h
      simp only [] at h
      split at h
      · simp only [Except.ok.injEq] at h; subst h; rfl
      · split at h
        · simp at h
        · rename_i s1 h1
          have e1 : s1.config = s.config := by
            unfold hnTakeover at h1
            split at h1
            · rcases handleDisconnection_effect h1 with ⟨_, rfl⟩ | ⟨c, _, _, _, _, _, e3, _, hw⟩
              · rfl
              · rw [(wakeParked_shape hw).config]; exact e3
            · simp only [Except.ok.injEq] at h1; subst h1; rfl
          split at h
          · simp only [Except.ok.injEq] at h; subst h; exact e1
          · obtain ⟨_, hr⟩ := hnRegister_ok h
            rw [(reschedule_shape hr).config, (hnPre_core s1 spec).2.2, e1]
    | event id ev h =>
      obtain ⟨s1, hs, h' | ⟨r, hd⟩⟩ := events_split h
      · subst h'; exact hs.config
      · rcases handleDisconnection_effect hd with ⟨_, rfl⟩ | ⟨c, _, _, _, _, _, e3, _, hw⟩
        · exact hs.config
        · rw [(wakeParked_shape hw).config, e3]; exact hs.config
    | consume b h =>
      rcases consume_shape h with ⟨_, hc⟩ | ⟨id, _, hs⟩
      · exact hc.2.1
      · exact hs.config
    | push l p h => exact h.2.1
    | drain l h => exact h.2.1
  rw [key]; exact hi

/-! ### the local `turn_moved` is empty between steps -/

theorem foldl_g_turnMoved (f : Ack → Ghost) : ∀ (acks : List Ack) (s : RState),
    (acks.foldl (fun s a => s.g (f a)) s).turnMoved = s.turnMoved
  | [], s => rfl
  | a :: r, s => by simp only [List.foldl_cons]; rw [foldl_g_turnMoved f r]; rfl

theorem hnPre_turnMoved (s : RState) (spec : ConnectSpec) : (hnPre s spec).turnMoved = s.turnMoved := by
  unfold hnPre
  simp only []
  rw [foldl_g_turnMoved]
  unfold hnWill
  split <;> (split <;> rfl)

theorem handleDisconnection_turnMoved {s s' : RState} {id : Nat} {r : Option String}
    (h : handleDisconnection s id r = .ok s') : s'.turnMoved = s.turnMoved := by
  rw [handleDisconnection_eq] at h
  split at h
  · simp only [Except.ok.injEq] at h; subst h; rfl
  · rw [(wakeParked_wakeFrame h).turnMoved]; exact (hdFinal_fields _ _ _ _).2.2.2.2.2.2.2.2

theorem handleNewConnection_turnMoved {s s' : RState} {spec : ConnectSpec}
    (h : handleNewConnection s spec = .ok s') : s'.turnMoved = s.turnMoved := by
  rw [handleNewConnection_eq] at h
  simp only [] at h
  split at h
  · simp only [Except.ok.injEq] at h; subst h; rfl
  · split at h
    · simp at h
    · rename_i s1 h1
      have e1 : s1.turnMoved = s.turnMoved := by
        unfold hnTakeover at h1
        split at h1
        · exact (handleDisconnection_turnMoved h1).trans rfl
        · simp only [Except.ok.injEq] at h1; subst h1; rfl
      split at h
      · simp only [Except.ok.injEq] at h; subst h; exact e1
      · obtain ⟨_, hr⟩ := hnRegister_ok h
        rw [(reschedule_wakeFrame hr).turnMoved, hnPre_turnMoved, e1]

theorem dlMatches_turnMoved {s s' : RState} {topic : String} {v : List Nat}
    (h : dlMatches s topic = .ok (s', v)) : s'.turnMoved = s.turnMoved := by
  unfold dlMatches at h
  split at h
  · simp only [Except.ok.injEq, Prod.mk.injEq] at h; obtain ⟨rfl, _⟩ := h; rfl
  · split at h
    · simp only [] at h
      split at h
      · simp only [Except.ok.injEq, Prod.mk.injEq] at h; obtain ⟨rfl, _⟩ := h; rfl
      · simp at h
    · simp at h

theorem appendToFilters_turnMoved : ∀ (idxs : List Nat) {s s' : RState} {p : Pub},
    appendToFilters s idxs p = .ok s' → s'.turnMoved = s.turnMoved
  | [], s, s', p, h => by simp only [appendToFilters, Except.ok.injEq] at h; subst h; rfl
  | i :: is, s, s', p, h => by
    simp only [appendToFilters] at h
    split at h
    · simp at h
    · rename_i s1 h1
      rw [appendToFilters_turnMoved is h]
      unfold appendToFilter at h1
      split at h1
      · simp at h1
      · simp only [Except.ok.injEq] at h1; subst h1
        split <;> rfl

theorem handleLastWill_turnMoved {s s' : RState} {cid : String} (h : handleLastWill s cid = .ok s') :
    s'.turnMoved = s.turnMoved := by
  unfold handleLastWill at h
  split at h
  · simp only [Except.ok.injEq] at h; subst h; rfl
  · simp only [] at h
    split at h
    · simp only [Except.ok.injEq] at h; subst h; rfl
    · split at h
      · simp at h
      · rename_i s2 idxs h2
        split at h
        · simp at h
        · rename_i s3 h3
          rw [(drainNotifications_wakeFrame _ h).turnMoved]
          show s3.turnMoved = _
          rw [appendToFilters_turnMoved idxs h3, dlMatches_turnMoved h2]
          show (updateRetained _ _ _).turnMoved = _
          unfold updateRetained
          split
          · rfl
          · split <;> rfl

theorem handleShadow_turnMoved {s s' : RState} {id : Nat} {f : String} (h : handleShadow s id f = .ok s') :
    s'.turnMoved = s.turnMoved := by
  unfold handleShadow at h
  split at h
  · simp only [Except.ok.injEq] at h; subst h; rfl
  · split at h
    · simp only [Except.ok.injEq] at h; subst h; rfl
    · split at h
      · simp only [Except.ok.injEq] at h; subst h; rfl
      · simp only [Except.ok.injEq] at h; subst h
        simp only [wakeLink]
        split <;> rfl

/-- one step leaves the local `turn_moved` empty if it starts empty: the two functions that fill it
    (`handle_device_payload` via UNSUBSCRIBE, `consume` via `noteTurn`) end with `wakeTurnMoved` -/
theorem turnMoved_step {s s' : RState} {op : Op} {out : Out} (h0 : s.turnMoved = [])
    (h : step s op = .ok (s', out)) : s'.turnMoved = [] := by
  cases op with
  | connect spec =>
    simp only [step] at h
    split at h
    · simp at h
    · rename_i s1 h1
      simp only [Except.ok.injEq, Prod.mk.injEq] at h; obtain ⟨rfl, _⟩ := h
      rw [handleNewConnection_turnMoved h1]; exact h0
  | push l p =>
    simp only [step] at h
    split at h
    all_goals
      simp only [Except.ok.injEq, Prod.mk.injEq] at h; obtain ⟨rfl, _⟩ := h; exact h0
  | drain l =>
    simp only [step] at h
    split at h
    · split at h
      all_goals
        simp only [Except.ok.injEq, Prod.mk.injEq] at h; obtain ⟨rfl, _⟩ := h; exact h0
    · simp only [Except.ok.injEq, Prod.mk.injEq] at h; obtain ⟨rfl, _⟩ := h; exact h0
  | consume =>
    simp only [step] at h
    split at h
    · simp at h
    · rename_i s1 b h1
      simp only [Except.ok.injEq, Prod.mk.injEq] at h; obtain ⟨rfl, _⟩ := h
      unfold consume at h1
      split at h1
      · simp only [Except.ok.injEq, Prod.mk.injEq] at h1; obtain ⟨rfl, _⟩ := h1; exact h0
      · simp only [] at h1
        split at h1
        · simp only [Except.ok.injEq, Prod.mk.injEq] at h1; obtain ⟨rfl, _⟩ := h1; exact h0
        · split at h1
          · simp at h1
          · split at h1
            · simp at h1
            · rename_i s3 hw
              simp only [Except.ok.injEq, Prod.mk.injEq] at h1; obtain ⟨rfl, _⟩ := h1
              exact wakeTurnMoved_turnMoved hw
  | event id ev =>
    simp only [step] at h
    split at h
    · simp at h
    · rename_i s1 h1
      simp only [Except.ok.injEq, Prod.mk.injEq] at h; obtain ⟨rfl, _⟩ := h
      cases ev with
      | deviceData =>
        simp only [events] at h1
        unfold handleDevicePayload at h1
        split at h1
        · simp only [Except.ok.injEq] at h1; subst h1; exact h0
        · simp only [] at h1
          split at h1
          · simp at h1
          · split at h1
            · simp at h1
            · split at h1
              · simp at h1
              · split at h1
                · simp at h1
                · rename_i s4 hw
                  have e4 := wakeTurnMoved_turnMoved hw
                  split at h1
                  · rw [handleDisconnection_turnMoved h1]; exact e4
                  · simp only [Except.ok.injEq] at h1; subst h1; exact e4
      | ready =>
        simp only [events] at h1
        split at h1
        · rw [(reschedule_wakeFrame h1).turnMoved]; exact h0
        · simp only [Except.ok.injEq] at h1; subst h1; exact h0
      | disconnect => simp only [events] at h1; rw [handleDisconnection_turnMoved h1]; exact h0
      | publishWill c => simp only [events] at h1; rw [handleLastWill_turnMoved h1]; exact h0
      | shadow f => simp only [events] at h1; rw [handleShadow_turnMoved h1]; exact h0
      | sendMeters => simp only [events, Except.ok.injEq] at h1; subst h1; exact h0
      | sendAlerts => simp only [events, Except.ok.injEq] at h1; subst h1; exact h0

/-- in every reachable state (between two steps) the local `turn_moved` is empty -/
theorem turnMoved_reachable {cfg : Config} {s : RState} (hr : Reachable cfg s) : s.turnMoved = [] :=
  hr.induction (fun s => s.turnMoved = []) rfl fun _ _ _ _ _ hi h => turnMoved_step (by exact hi) h

end Router
