/-
C20 — the commit-log-contents invariant (round 12): `IbufOkD` (hence `IbufOk`) is a step invariant. The
incoming buffer of a link is written by the link's `push` (one packet, in range by `OpOkD`), emptied by the
DeviceData event that reads it and by a CONNECT on that link; no other router function touches it.
-/
import Proofs.Lemmas.Router.Rp18_StoredInv
namespace Router
open Encode Codec

/-- every link's incoming buffer is the same -/
def IbufEq (s s' : RState) : Prop := ∀ l, (getLink s' l).ibuf = (getLink s l).ibuf

theorem IbufEq.refl (s : RState) : IbufEq s s := fun _ => rfl
theorem IbufEq.trans {a b c : RState} (h1 : IbufEq a b) (h2 : IbufEq b c) : IbufEq a c := fun l => (h2 l).trans (h1 l)
theorem IbufEq.of_links {s s' : RState} (h : s'.links = s.links) : IbufEq s s' := fun l => by
  unfold getLink; rw [h]

theorem IbufEq.setLink (s : RState) (l : Nat) (b : LinkBuf) (h : b.ibuf = (getLink s l).ibuf) : IbufEq s (setLink s l b) := by
  intro l'
  by_cases hl : l' = l
  · subst hl; rw [getLink_setLink_same]; exact h
  · rw [getLink_setLink_ne _ _ _ _ hl]

theorem IbufEq.pushNotifs (s : RState) (l : Nat) (ns : List Notif) : IbufEq s (pushNotifs s l ns) :=
  IbufEq.setLink s l _ rfl

theorem IbufEq.wakeLink (s : RState) (l : Nat) : IbufEq s (wakeLink s l) := by
  refine IbufEq.setLink s l _ ?_
  unfold LinkBuf.wake; split <;> rfl

/-- every packet waiting in `s'` is in range or was waiting on the same link in `s` -/
def ILe (n : Option Nat) (s s' : RState) : Prop :=
  ∀ l p, p ∈ (getLink s' l).ibuf → PacketOkD n p = true ∨ p ∈ (getLink s l).ibuf

theorem IbufEq.ile {n : Option Nat} {s s' : RState} (h : IbufEq s s') : ILe n s s' := fun l p hp => .inr (by rw [← h l]; exact hp)
theorem ILe.trans {n : Option Nat} {a b c : RState} (h1 : ILe n a b) (h2 : ILe n b c) : ILe n a c :=
  fun l p hp => (h2 l p hp).elim .inl (h1 l p)
theorem IbufOkD.ile {n : Option Nat} {s s' : RState} (h : IbufOkD n s) (g : ILe n s s') : IbufOkD n s' :=
  fun l p hp => (g l p hp).elim id (h l p)

/-- a link's buffers are replaced by ones with an empty incoming buffer -/
theorem ILe.clear {n : Option Nat} (s : RState) (l : Nat) (b : LinkBuf) (h : b.ibuf = []) : ILe n s (setLink s l b) := by
  intro l' p hp
  by_cases hl : l' = l
  · subst hl; rw [getLink_setLink_same, h] at hp; cases hp
  · rw [getLink_setLink_ne _ _ _ _ hl] at hp; exact .inr hp

/-! ### sweeps -/

theorem ackDeviceData_ibuf (s : RState) (id : Nat) : IbufEq s (ackDeviceData s id) := by
  unfold ackDeviceData
  split
  · exact IbufEq.refl s
  · split
    · exact IbufEq.refl s
    · exact ((IbufEq.pushNotifs s _ _).trans (IbufEq.wakeLink _ _)).trans (IbufEq.of_links rfl)

theorem fdPush_ibuf {s0 s1 : RState} {id : Nat} {c : Conn} {req' req1 : DataRequest} {grp : Option SharedGroup}
    {pubs : List (Pub × Option Cursor)} {cu : Bool} {st : ConsumeStatus}
    (h : fdPush s0 id c req' grp pubs cu = .ok (s1, req1, st)) : IbufEq s0 s1 := by
  unfold fdPush at h
  simp only [] at h
  split at h
  · simp at h
  · rename_i s3 h3
    have b : IbufEq s0 (pushNotifs (setConn s0 id { c with out := (fdOut c req' pubs).1, brokerAliases := (fdAliases c req'.filter).1 })
        c.link (fdOut c req' pubs).2) :=
      (IbufEq.of_links (s' := setConn s0 id { c with out := (fdOut c req' pubs).1, brokerAliases := (fdAliases c req'.filter).1 }) rfl).trans
        (IbufEq.pushNotifs _ _ _)
    have key : IbufEq s0 s3 := by
      unfold fdGroupUpd at h3
      split at h3
      · split at h3
        · simp only [Except.ok.injEq] at h3; subst h3; exact b
        · split at h3
          · simp at h3
          · rename_i s4 g2 hu
            simp only [Except.ok.injEq] at h3; subst h3
            exact b.trans (IbufEq.of_links (by show s4.links = _; rw [congrArg State.links (updateNextClient_toState hu).1]))
      · simp only [Except.ok.injEq] at h3; subst h3; exact b
    split at h
    · simp only [Except.ok.injEq, Prod.mk.injEq] at h; obtain ⟨rfl, _, _⟩ := h
      exact (key.trans (IbufEq.pushNotifs _ _ _)).trans (IbufEq.wakeLink _ _)
    · simp only [Except.ok.injEq, Prod.mk.injEq] at h; obtain ⟨rfl, _, _⟩ := h
      exact key.trans (IbufEq.wakeLink _ _)

theorem forwardDeviceData_ibuf {s s1 : RState} {id : Nat} {req req1 : DataRequest} {st : ConsumeStatus}
    (hf : forwardDeviceData s id req = .ok (s1, req1, st)) : IbufEq s s1 := by
  obtain ⟨c, hc⟩ : ∃ c, getConn s id = some c := by
    cases hg : getConn s id with
    | none => rw [Router.forwardDeviceData_eq, hg] at hf; simp at hf
    | some c => exact ⟨c, rfl⟩
  rcases sweep_branches hc hf with ⟨rfl, _⟩ | ⟨_, s0, rp, slots, fd, h0, _, hcase⟩
  · exact IbufEq.refl _
  · have a : IbufEq s s0 := IbufEq.of_links (by rw [(Rp3.fdRetained_only_oracle h0).1])
    rcases hcase with ⟨_, rfl, _⟩ | ⟨_, _, _, rfl, _⟩ | ⟨_, hp⟩
    · exact a
    · exact a
    · exact a.trans (fdPush_ibuf hp)

theorem consumeLoop_ibuf {id : Nat} : ∀ (fuel : Nat) {s s' : RState} {requests skipped : List DataRequest},
    consumeLoop s id fuel requests skipped = .ok s' → IbufEq s s'
  | 0, s, s', requests, skipped, hc => by
    simp only [consumeLoop] at hc
    exact IbufEq.of_links (trackv_frame hc).links
  | fuel + 1, s, s', requests, skipped, hc => by
    cases requests with
    | nil =>
      simp only [consumeLoop] at hc
      split at hc
      · simp at hc
      · rename_i s1 h1
        have a : IbufEq s s1 := by
          split at h1
          · exact IbufEq.of_links (pause_frame h1).links
          · simp only [Except.ok.injEq] at h1; subst h1; exact IbufEq.refl _
        exact a.trans (IbufEq.of_links (trackv_frame hc).links)
    | cons req rest =>
      simp only [consumeLoop] at hc
      split at hc
      · simp at hc
      · rename_i s1 req1 st h1
        have h2 : IbufEq s (noteTurn s s1 req1) :=
          (forwardDeviceData_ibuf h1).trans (IbufEq.of_links (noteTurn_frame s s1 req1).links)
        split at hc
        · split at hc
          · simp at hc
          · rename_i s3 h3
            exact h2.trans ((IbufEq.of_links (pause_frame h3).links).trans (IbufEq.of_links (trackv_frame hc).links))
        · split at hc
          · simp at hc
          · rename_i s3 h3
            exact h2.trans ((IbufEq.of_links (pause_frame h3).links).trans (IbufEq.of_links (trackv_frame hc).links))
        · split at hc
          · simp at hc
          · rename_i s3 h3
            exact (h2.trans (IbufEq.of_links (park_frame h3).links)).trans (consumeLoop_ibuf fuel hc)
        · exact h2.trans (consumeLoop_ibuf fuel hc)
        · exact h2.trans (consumeLoop_ibuf fuel hc)

theorem consume_ibuf {s s' : RState} {b : Bool} (hc : consume s = .ok (s', b)) : IbufEq s s' := by
  unfold consume at hc
  split at hc
  · simp only [Except.ok.injEq, Prod.mk.injEq] at hc; obtain ⟨rfl, _⟩ := hc
    exact IbufEq.of_links rfl
  · rename_i id rq hrq
    simp only [] at hc
    split at hc
    · simp only [Except.ok.injEq, Prod.mk.injEq] at hc; obtain ⟨rfl, _⟩ := hc
      exact IbufEq.of_links rfl
    · rename_i c hcn
      split at hc
      · simp at hc
      · rename_i s1 h1
        split at hc
        · simp at hc
        · rename_i s2 h2
          simp only [Except.ok.injEq, Prod.mk.injEq] at hc; obtain ⟨rfl, _⟩ := hc
          have la : IbufEq s ({ setConn { s with readyqueue := rq } id { c with tracker := { c.tracker with requests := [] } }
              with readyqueue := (setConn { s with readyqueue := rq } id { c with tracker := { c.tracker with requests := [] } }).readyqueue ++ [id] } : RState) :=
            IbufEq.of_links rfl
          exact ((la.trans (ackDeviceData_ibuf _ id)).trans (consumeLoop_ibuf _ h1)).trans
            (IbufEq.of_links (wakeTurnMoved_frame h2).links)

/-! ### events -/

theorem handleDisconnection_ibuf {s s' : RState} {id : Nat} {r : Option String}
    (h : handleDisconnection s id r = .ok s') : IbufEq s s' := by
  cases hc : getConn s id with
  | none => rw [handleDisconnection_missing s id r hc] at h; cases h; exact IbufEq.refl _
  | some c =>
    rw [Router.handleDisconnection_eq] at h
    simp only [hc] at h
    have h0 : IbufEq s (hdFinal s id c r) := by
      obtain ⟨_, _, _, _, _, k6, _, _, _⟩ := hdFinal_fields s id c r
      have a : IbufEq s (hdNotify s c r) := by
        cases r with
        | none => exact IbufEq.refl _
        | some x => exact (IbufEq.pushNotifs s _ _).trans (IbufEq.wakeLink _ _)
      exact a.trans (IbufEq.of_links k6)
    exact h0.trans (IbufEq.of_links (wakeParked_frame h).links)

theorem handlePackets_links {id : Nat} {cid : String} : ∀ (ps : List Packet) {s s' : RState} {fl fl' : Flags},
    handlePackets s id cid ps fl = .ok (s', fl') → s'.links = s.links
  | [], s, s', fl, fl', hp => by
    simp only [handlePackets, Except.ok.injEq, Prod.mk.injEq] at hp; obtain ⟨rfl, _⟩ := hp; rfl
  | p :: rest, s, s', fl, fl', hp => by
    simp only [handlePackets] at hp
    split at hp
    · simp at hp
    · rename_i s1 fl1 h1
      obtain ⟨as, _, ha, _⟩ := handlePacket_reply h1
      split at hp
      · simp only [Except.ok.injEq, Prod.mk.injEq] at hp; obtain ⟨rfl, _⟩ := hp; exact ha.links
      · exact (handlePackets_links rest hp).trans ha.links

/-- the DeviceData event empties the incoming buffer it reads and touches no other -/
theorem handleDevicePayload_ile {n : Option Nat} {s s' : RState} {id : Nat} (hp : handleDevicePayload s id = .ok s') :
    ILe n s s' := by
  unfold handleDevicePayload at hp
  split at hp
  · simp only [Except.ok.injEq] at hp; subst hp; exact (IbufEq.refl _).ile
  · rename_i c hc
    simp only [] at hp
    have g0 : ILe n s (setLink s c.link { getLink s c.link with ibuf := [] }) := ILe.clear s _ _ rfl
    split at hp
    · simp at hp
    · rename_i s1 fl h1
      have g1 := g0.trans (IbufEq.of_links (handlePackets_links _ h1)).ile
      split at hp
      · simp at hp
      · rename_i s2 h2
        have g2 : ILe n s s2 := by
          split at h2
          · exact g1.trans (IbufEq.of_links (reschedule_frame h2).links).ile
          · simp only [Except.ok.injEq] at h2; subst h2; exact g1
        split at hp
        · simp at hp
        · rename_i s3 h3
          have g3 : ILe n s s3 := by
            split at h3
            · exact g2.trans (IbufEq.of_links (s := s2) (by
                rw [(drainNotifications_frame _ h3).links])).ile
            · simp only [Except.ok.injEq] at h3; subst h3; exact g2
          split at hp
          · simp at hp
          · rename_i s4 h4
            have g4 := g3.trans (IbufEq.of_links (wakeTurnMoved_frame h4).links).ile
            split at hp
            · exact g4.trans (handleDisconnection_ibuf hp).ile
            · simp only [Except.ok.injEq] at hp; subst hp; exact g4

theorem handleLastWill_links {s s' : RState} {cid : String} (h : handleLastWill s cid = .ok s') : s'.links = s.links := by
  unfold handleLastWill at h
  split at h
  · simp only [Except.ok.injEq] at h; subst h; rfl
  · simp only [] at h
    split at h
    · simp only [Except.ok.injEq] at h; subst h; rfl
    · rename_i topic ht
      split at h
      · simp at h
      · rename_i s2 idxs h2
        split at h
        · simp at h
        · rename_i s3 h3
          rw [(drainNotifications_frame _ h).links]
          show s3.links = _
          rw [(appendToFilters_frame idxs h3).links, (dlMatches_frame h2).links]
          show (updateRetained _ _ _).links = _
          rw [(updateRetained_frame _ _ _).links]
          rfl

theorem handleShadow_ibuf {s s' : RState} {id : Nat} {f : String} (h : handleShadow s id f = .ok s') : IbufEq s s' := by
  unfold handleShadow at h
  split at h
  · simp only [Except.ok.injEq] at h; subst h; exact IbufEq.refl _
  · split at h
    · simp only [Except.ok.injEq] at h; subst h; exact IbufEq.refl _
    · split at h
      · simp only [Except.ok.injEq] at h; subst h; exact IbufEq.refl _
      · simp only [Except.ok.injEq] at h; subst h
        refine IbufEq.trans ?_ (IbufEq.wakeLink _ _)
        split
        · exact (IbufEq.pushNotifs _ _ _).trans (IbufEq.pushNotifs _ _ _)
        · exact IbufEq.pushNotifs _ _ _

/-! ### CONNECT, `step` -/

theorem foldl_g_links (f : Ack → Ghost) : ∀ (acks : List Ack) (s : RState),
    (acks.foldl (fun s a => s.g (f a)) s).links = s.links
  | [], _ => rfl
  | a :: r, s => by
    simp only [List.foldl_cons]
    exact foldl_g_links f r (s.g (f a))

theorem hnPre_links (s : RState) (spec : ConnectSpec) : (hnPre s spec).links = s.links := by
  unfold hnPre
  simp only []
  rw [foldl_g_links]
  unfold hnWill
  split <;> split <;> rfl

theorem handleNewConnection_ile {n : Option Nat} {s s' : RState} {spec : ConnectSpec}
    (h : handleNewConnection s spec = .ok s') : ILe n s s' := by
  rw [Router.handleNewConnection_eq] at h
  simp only [] at h
  have g0 : ILe n s (setLink s spec.link {}) := ILe.clear s _ _ rfl
  split at h
  · simp only [Except.ok.injEq] at h; subst h
    exact g0.trans (IbufEq.of_links rfl).ile
  · split at h
    · simp at h
    · rename_i s1 h1
      have g1 : ILe n s s1 := by
        unfold hnTakeover at h1
        split at h1
        · exact g0.trans (handleDisconnection_ibuf h1).ile
        · simp only [Except.ok.injEq] at h1; subst h1; exact g0
      split at h
      · simp only [Except.ok.injEq] at h; subst h
        exact g1.trans (IbufEq.of_links rfl).ile
      · obtain ⟨_, hre⟩ := hnRegister_ok h
        exact g1.trans (IbufEq.of_links ((reschedule_frame hre).links.trans (hnPre_links s1 spec))).ile

/-- one step whose op is in range adds only a packet in range to the incoming buffers -/
theorem step_ile {n : Option Nat} {s s' : RState} {op : Op} {out : Out} (hop : OpOkD n op = true)
    (hs : step s op = .ok (s', out)) : ILe n s s' := by
  cases step_cases hs with
  | connect spec hc => exact handleNewConnection_ile hc
  | push l p hcore =>
    have hp : PacketOkD n p = true := by
      simp only [OpOkD, Bool.and_eq_true] at hop; exact hop.2
    simp only [step] at hs
    split at hs
    · simp only [Except.ok.injEq, Prod.mk.injEq] at hs; obtain ⟨rfl, _⟩ := hs
      intro l' q hq
      by_cases hl : l' = l
      · subst hl
        rw [getLink_setLink_same] at hq
        rcases List.mem_append.mp hq with h1 | h1
        · exact .inr h1
        · simp only [List.mem_singleton] at h1; subst h1; exact .inl hp
      · rw [getLink_setLink_ne _ _ _ _ hl] at hq; exact .inr hq
    · simp only [Except.ok.injEq, Prod.mk.injEq] at hs; obtain ⟨rfl, _⟩ := hs; exact (IbufEq.refl _).ile
  | drain l hcore =>
    simp only [step] at hs
    split at hs
    · split at hs
      · simp only [Except.ok.injEq, Prod.mk.injEq] at hs; obtain ⟨rfl, _⟩ := hs
        exact (IbufEq.setLink s l { getLink s l with tokens := (getLink s l).tokens - 1, obuf := [] } rfl).ile
      · simp only [Except.ok.injEq, Prod.mk.injEq] at hs; obtain ⟨rfl, _⟩ := hs; exact (IbufEq.refl _).ile
    · simp only [Except.ok.injEq, Prod.mk.injEq] at hs; obtain ⟨rfl, _⟩ := hs; exact (IbufEq.refl _).ile
  | consume b hc => exact (consume_ibuf hc).ile
  | event id ev he =>
    cases ev with
    | deviceData => exact handleDevicePayload_ile he
    | ready =>
      simp only [events] at he
      split at he
      · exact (IbufEq.of_links (reschedule_frame he).links).ile
      · simp only [Except.ok.injEq] at he; subst he; exact (IbufEq.refl _).ile
    | disconnect => exact (handleDisconnection_ibuf (id := id) (r := none) he).ile
    | publishWill w =>
      have he' : handleLastWill s w = .ok s' := he
      exact (IbufEq.of_links (handleLastWill_links he')).ile
    | shadow f =>
      have he' : handleShadow s id f = .ok s' := he
      exact (handleShadow_ibuf he').ile
    | sendMeters => simp only [events, Except.ok.injEq] at he; subst he; exact (IbufEq.refl _).ile
    | sendAlerts => simp only [events, Except.ok.injEq] at he; subst he; exact (IbufEq.refl _).ile

/-- `IbufOkD` is kept by every step whose op is in range (oracle-update form) -/
theorem step_ibufOkD {n : Option Nat} {s s' : RState} {ch : List Choice} {op : Op} {out : Out} (hib : IbufOkD n s)
    (hop : OpOkD n op = true) (hs : step { s with oracle := ch } op = .ok (s', out)) : IbufOkD n s' :=
  IbufOkD.ile (s := { s with oracle := ch }) hib (step_ile hop hs)

/-! ### runs -/

/-- all ops of a run are in range -/
def OpsOkD (n : Option Nat) (ops : List (Op × List Choice)) : Prop := ∀ o ∈ ops, OpOkD n o.1 = true

theorem run_logsOk {n : Option Nat} : ∀ (ops : List (Op × List Choice)) (s s' : RState), OpsOkD n ops →
    LogsOk n s → IbufOkD n s → run s ops = .ok s' → LogsOk n s' ∧ IbufOkD n s'
  | [], s, s', _, h1, h2, h => by simp only [run, Except.ok.injEq] at h; subst h; exact ⟨h1, h2⟩
  | (op, ch) :: rest, s, s', hok, h1, h2, h => by
    simp only [run] at h
    split at h
    · simp at h
    · rename_i s1 out hs
      have hop := hok (op, ch) List.mem_cons_self
      exact run_logsOk rest s1 s' (fun o ho => hok o (List.mem_cons_of_mem _ ho))
        (step_logsOk h1 h2 hop hs) (step_ibufOkD h2 hop hs) h

theorem IbufOkD.init (n : Option Nat) (cfg : Config) : IbufOkD n (init cfg) :=
  fun l p hp => by simp [getLink, Router.init] at hp

/-- the invariant over runs: after any error-free run from the initial state all of whose ops are in range
    (`OpOkD n`), everything the router stores of a publish is in range (`LogsOk n`), and so is every packet
    waiting in an incoming buffer -/
theorem logsOk_of_run {n : Option Nat} {cfg : Config} {ops : List (Op × List Choice)} {s : RState}
    (hok : OpsOkD n ops) (h : run (init cfg) ops = .ok s) : LogsOk n s ∧ IbufOkD n s :=
  run_logsOk ops _ _ hok (LogsOk.init n cfg) (IbufOkD.init n cfg) h

theorem ConnsOk.init (cfg : Config) : ConnsOk (init cfg) :=
  fun j c h => by simp [getConn, Router.init, Slab.get?] at h

theorem run_inv {n : Option Nat} {cfg : Config} : ∀ (ops : List (Op × List Choice)) (s s' : RState), OpsOkD n ops →
    Reachable cfg s → LogsOk n s → IbufOkD n s → ConnsOk s → run s ops = .ok s' →
    Reachable cfg s' ∧ LogsOk n s' ∧ IbufOkD n s' ∧ ConnsOk s'
  | [], s, s', _, h0, h1, h2, h3, h => by simp only [run, Except.ok.injEq] at h; subst h; exact ⟨h0, h1, h2, h3⟩
  | (op, ch) :: rest, s, s', hok, h0, h1, h2, h3, h => by
    simp only [run] at h
    split at h
    · simp at h
    · rename_i s1 out hs
      have hop := hok (op, ch) List.mem_cons_self
      exact run_inv rest s1 s' (fun o ho => hok o (List.mem_cons_of_mem _ ho)) (h0.step hs)
        (step_logsOk h1 h2 hop hs) (step_ibufOkD h2 hop hs) (step_connsOk h0 h3 h2.ibufOk (OpOkD_opOkC hop) hs) h

/-- all three invariants C20 needs of a state, over runs whose ops are in range: what is stored is in range
    (`LogsOk`), the packets waiting are in range (`IbufOkD`), and the connection-side hypotheses (`ConnsOk`) -/
theorem inv_of_run {n : Option Nat} {cfg : Config} {ops : List (Op × List Choice)} {s : RState}
    (hok : OpsOkD n ops) (h : run (init cfg) ops = .ok s) :
    Reachable cfg s ∧ LogsOk n s ∧ IbufOkD n s ∧ ConnsOk s :=
  run_inv ops _ _ hok (reachable_init cfg) (LogsOk.init n cfg) (IbufOkD.init n cfg) (ConnsOk.init cfg) h

end Router
