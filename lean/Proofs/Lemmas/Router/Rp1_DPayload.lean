/-
C03: `DInv` through `handlePacket`, `handlePackets`, `handleDisconnection`, `handleDevicePayload`.
The extra loop invariant `newData = false → notifications = []` makes sure that every parked
request woken by an append is handed back to its tracker before the connection can be closed.
-/
import Proofs.Lemmas.Router.Rp1_DPackets
namespace Router
variable {A : String → Prop}

/-- the post-condition of one packet / a batch -/
def PQ (r : RState × Flags) : Prop := DInv r.1 ∧ (r.2.newData = false → r.1.notifications = [])

theorem hpPre_good {s : RState} {id : Nat} {p : Pub} {fl : Flags} (h : DInv s) (hl : Live s id) :
    Good A (fun r => DInv r.1 ∧ r.1.notifications = s.notifications ∧ r.2.1.newData = fl.newData)
      (hpPre s id p fl) := by
  obtain ⟨c, hc⟩ := hl.get
  unfold hpPre
  split
  · gbind (commitAck_good (a := .puback p.pkid) h hl) with s1 h1 q1
    exact ⟨q1.1, q1.2, rfl⟩
  · split
    · simp only [hc]
      exact ⟨h.of_set hc rfl (h.trk id c hc) rfl rfl rfl rfl rfl rfl, rfl, rfl⟩
    · exact ⟨h, rfl, rfl⟩

theorem handlePacket_good {s : RState} {id : Nat} {cid : String} {pkt : Packet} {fl : Flags}
    (hpf : (∃ a b c, pkt = .subscribe a b c) → A dupPrepareFilter) (h : DInv s)
    (hl : Live s id) (hn : fl.newData = false → s.notifications = []) :
    Good A PQ (handlePacket s id cid pkt fl) := by
  obtain ⟨c, hc⟩ := hl.get
  cases pkt with
  | publish p =>
    rw [handlePacket_publish]
    have hp := hpPre_good (A := A) (p := p) (fl := fl) h hl
    split
    · rename_i e he; exact Good.error_of he hp
    · rename_i s1 fl1 h1
      have q1 := Good.ok_of h1 hp
      exact ⟨q1.1, fun e => by rw [q1.2.1]; exact hn (q1.2.2 ▸ e)⟩
    · rename_i s1 fl1 h1
      have q1 := Good.ok_of h1 hp
      have l1 : Live s1 id := hl.shape (hpPre_shape h1)
      have ha := appendToCommitlog_good (A := A) (p := p) q1.1 l1
      split
      · rename_i e he; exact Good.error_of he ha
      · exact ⟨(Good.ok_of ‹_› ha).1, fun e => by simp at e⟩
      · rename_i s2 r h2
        have q2 := Good.ok_of h2 ha
        exact ⟨q2.1, fun e => by rw [q2.2 (by simp), q1.2.1]; exact hn (q1.2.2 ▸ e)⟩
      · rename_i s2 h2
        have q2 := Good.ok_of h2 ha
        exact ⟨q2.1, fun e => by rw [q2.2 (by simp), q1.2.1]; exact hn (q1.2.2 ▸ e)⟩
  | subscribe pkid subId filters =>
    simp only [handlePacket]
    have hsf := subscribeFilters_good (A := A) (id := id) (subId := subId) (hpf ⟨_, _, _, rfl⟩) filters (codes := []) (fl := fl) h hl
    split
    · rename_i e he; exact Good.error_of he hsf
    · rename_i s1 codes fl1 h1
      have q1 := Good.ok_of h1 hsf
      have l1 : Live s1 id := hl.shape (subscribeFilters_shape filters h1)
      gbind (commitAck_good (a := .suback pkid codes) q1.1 l1) with s2 h2 q2
      exact ⟨q2.1, fun e => by rw [q2.2, q1.2.1]; exact hn (q1.2.2 ▸ e)⟩
  | unsubscribe pkid filters =>
    simp only [handlePacket, hc]
    have huf := unsubscribeFilters_good (A := A) (id := id) filters (rs := []) h hl
    split
    · rename_i e he; exact Good.error_of he huf
    · rename_i s1 rs h1
      have q1 := Good.ok_of h1 huf
      have l1 : Live s1 id := hl.shape (unsubscribeFilters_shape filters h1)
      gbind (commitAck_good (a := .unsuback pkid rs) q1.1 l1) with s2 h2 q2
      exact ⟨q2.1, fun e => by rw [q2.2]; exact q1.2 (hn e)⟩
  | puback pkid =>
    simp only [handlePacket, hc]
    have h1 : DInv (setConn s id { c with out := (c.out.registerAck pkid).1 }) :=
      h.of_set hc rfl (h.trk id c hc) rfl rfl rfl rfl rfl rfl
    split
    · exact ⟨h1, hn⟩
    · have hc1 : getConn ((setConn s id { c with out := (c.out.registerAck pkid).1 }).g (.clientAcked id pkid)) id =
          some { c with out := (c.out.registerAck pkid).1 } := by
        show getConn (setConn s id _) id = _; rw [getConn_setConn_live hc]; simp
      gbind (reschedule_good (r := .incomingAck) (h1.congr rfl rfl rfl rfl rfl rfl rfl) hc1 (by simp)) with s2 h2 q2
      exact ⟨q2.1, fun e => by rw [q2.2]; exact hn e⟩
  | pubrec pkid =>
    simp only [handlePacket, hc]
    split
    · exact ⟨h.of_set hc rfl (h.trk id c hc) rfl rfl rfl rfl rfl rfl, hn⟩
    · have h1 := h.of_set (s' := ((setConn s id { c with out := { (c.out.registerAck pkid).1 with unackedPubrels := (c.out.registerAck pkid).1.unackedPubrels ++ [pkid] }, acks := { c.acks with committed := c.acks.committed ++ [Ack.pubrel pkid] } }).g (.clientAcked id pkid)).g (.committed id (.pubrel pkid))) hc rfl (h.trk id c hc) rfl rfl rfl rfl rfl rfl
      have l1 : Live (((setConn s id { c with out := { (c.out.registerAck pkid).1 with unackedPubrels := (c.out.registerAck pkid).1.unackedPubrels ++ [pkid] }, acks := { c.acks with committed := c.acks.committed ++ [Ack.pubrel pkid] } }).g (.clientAcked id pkid)).g (.committed id (.pubrel pkid))) id := by
        unfold Live; show (getConn (setConn s id _) id).isSome = true; rw [getConn_setConn_live hc]; simp
      obtain ⟨c1, hc1⟩ := l1.get
      gbind (reschedule_good (r := .incomingAck) h1 hc1 (by simp)) with s2 h2 q2
      exact ⟨q2.1, fun e => by rw [q2.2]; exact hn e⟩
  | pubrel pkid hasProps =>
    · simp only [handlePacket, hc]
      split
      · exact ⟨h.of_set hc rfl (h.trk id c hc) rfl rfl rfl rfl rfl rfl, hn⟩
      · rename_i p rest hrec
        have h1 := h.of_set (s' := (setConn s id { c with acks := { committed := c.acks.committed ++ [Ack.pubcomp pkid], recorded := rest } }).g (.committed id (.pubcomp pkid))) hc rfl (h.trk id c hc) rfl rfl rfl rfl rfl rfl
        have l1 : Live ((setConn s id { c with acks := { committed := c.acks.committed ++ [Ack.pubcomp pkid], recorded := rest } }).g (.committed id (.pubcomp pkid))) id := by
          unfold Live; show (getConn (setConn s id _) id).isSome = true; rw [getConn_setConn_live hc]; simp
        have ha := appendToCommitlog_good (A := A) (p := p) h1 l1
        split
        · rename_i e he; exact Good.error_of he ha
        · rename_i s2 r h2
          have q2 := Good.ok_of h2 ha
          exact ⟨q2.1, fun e => by rw [q2.2 (by simp)]; exact hn e⟩
        · rename_i s2 h2
          have q2 := Good.ok_of h2 ha
          have l2 : Live s2 id := l1.shape (appendToCommitlog_shape h2)
          obtain ⟨c2, hc2⟩ := l2.get
          gbind (reschedule_good (r := .incomingAck) q2.1 hc2 (by simp)) with s3 h3 q3
          exact ⟨q3.1, fun e => by simp at e⟩
  | pubcomp pkid =>
    simp only [handlePacket, hc]
    have h1 : DInv (setConn s id { c with out := (c.out.registerPubcomp pkid).1 }) :=
      h.of_set hc rfl (h.trk id c hc) rfl rfl rfl rfl rfl rfl
    split
    · exact ⟨h1, hn⟩
    · exact ⟨h1, hn⟩
  | pingreq =>
    simp only [handlePacket]
    gbind (commitAck_good (a := .pingresp) h hl) with s1 h1 q1
    exact ⟨q1.1, fun e => by rw [q1.2]; exact hn e⟩
  | disconnect =>
    simp only [handlePacket]
    exact ⟨h.congr rfl rfl rfl rfl rfl rfl rfl, hn⟩
  | other =>
    simp only [handlePacket]
    exact ⟨h, hn⟩

/-- the batch contains a SUBSCRIBE -/
def hasSubscribe (ps : List Packet) : Prop := ∃ p ∈ ps, ∃ a b c, p = Packet.subscribe a b c

theorem handlePackets_good {id : Nat} {cid : String} :
    ∀ (ps : List Packet) {s : RState} {fl : Flags}, (hasSubscribe ps → A dupPrepareFilter) → DInv s →
    Live s id → (fl.newData = false → s.notifications = []) → Good A PQ (handlePackets s id cid ps fl)
  | [], s, fl, _, h, _, hn => ⟨h, hn⟩
  | p :: rest, s, fl, hpf, h, hl, hn => by
    simp only [handlePackets]
    have hp := handlePacket_good (A := A) (cid := cid) (pkt := p) (fun ⟨a, b, c, e⟩ => hpf ⟨p, by simp, a, b, c, e⟩) h hl hn
    split
    · rename_i e he; exact Good.error_of he hp
    · rename_i s1 fl1 h1
      have q1 := Good.ok_of h1 hp
      split
      · exact q1
      · exact handlePackets_good rest (fun ⟨q, hq, x⟩ => hpf ⟨q, by simp [hq], x⟩) q1.1 (hl.shape (handlePacket_shape h1)) q1.2

end Router
