/-
`CursorSound` through `consume`, `handle_device_payload`, `handle_disconnection` and
`handle_new_connection`.
-/
import Proofs.Lemmas.Router.Rp5_Sweep
namespace Router
namespace Rp3
open CommitLog (Rep logC Issued SegMono U64)

theorem NoOverflow.of_dkey {s s' : RState} (h : NoOverflow s) (e : dkey s' = dkey s) : NoOverflow s' := by
  intro fd' hfd' hist hrep
  simp only [dkey, Prod.mk.injEq] at e
  obtain ⟨_, e2, _, _, e5⟩ := e
  have : fd'.log ∈ s.datalog.native.map (·.log) := by rw [← e2]; exact List.mem_map_of_mem hfd'
  obtain ⟨fd, hfd, el⟩ := List.mem_map.mp this
  rw [e5]
  exact h fd hfd hist (by rw [el]; exact hrep)

/-- the request loop of `consume` -/
theorem consumeLoop_cs {id : Nat} : ∀ (fuel : Nat) {s s' : RState} {requests skipped : List DataRequest},
    DLInv s → NoOverflow s → CS s → (∀ r ∈ requests ++ skipped, ReqOK s.datalog r) →
    consumeLoop s id fuel requests skipped = .ok s' → CS s'
  | 0, s, s', requests, skipped, _, _, h, hl, hc => by
    simp only [consumeLoop] at hc
    have m := trackv_cstep hc
    exact h.step m fun r hr => .inr ((hl r hr).mono m.mono)
  | fuel + 1, s, s', requests, skipped, hi, hno, h, hl, hc => by
    cases requests with
    | nil =>
      simp only [consumeLoop] at hc
      split at hc
      · simp at hc
      · rename_i s1 h1
        have a : CStep s s1 noReq := by
          split at h1
          · exact pause_cstep h1
          · simp only [Except.ok.injEq] at h1; subst h1; exact CStep.refl _
        have m := a.trans (trackv_cstep hc)
        refine h.step m fun r hr => ?_
        rcases hr with hr | hr
        · exact hr.elim
        · exact .inr ((hl r (by simpa using hr)).mono m.mono)
    | cons req rest =>
      simp only [consumeLoop] at hc
      split at hc
      · simp at hc
      · rename_i s1 req1 st h1
        obtain ⟨hs1, hr1⟩ := forwardDeviceData_cs hi h hno (hl req (by simp)) h1
        have hk1 : dkey s1 = dkey s := forwardDeviceData_dkey h1
        have hd1 : LogMono s.datalog s1.datalog := by
          simp only [dkey, Prod.mk.injEq] at hk1
          exact LogMono.of_eq hk1.2.1 hk1.2.2.1
        -- the state after `noteTurn`
        obtain ⟨tm, etm⟩ := noteTurn_eq s s1 req1
        have hk2 : dkey (noteTurn s s1 req1) = dkey s := (noteTurn_dkey s s1 req1).trans hk1
        have hi2 : DLInv (noteTurn s s1 req1) := hi.of_dkey hk2
        have hno2 : NoOverflow (noteTurn s s1 req1) := hno.of_dkey hk2
        have hs2 : CS (noteTurn s s1 req1) := hs1.step0 (noteTurn_cstep s s1 req1)
        have hd2 : (noteTurn s s1 req1).datalog = s1.datalog := by rw [etm]
        have hl2 : ∀ r ∈ rest ++ skipped, ReqOK (noteTurn s s1 req1).datalog r := fun r hr => by
          rw [hd2]; exact (hl r (by simp [List.mem_append.mp hr])).mono hd1
        have hr2 : ReqOK (noteTurn s s1 req1).datalog req1 := by rw [hd2]; exact hr1
        split at hc
        · split at hc
          · simp at hc
          · rename_i s3 h3
            have m := (pause_cstep h3).trans (trackv_cstep hc)
            refine hs2.step m fun r hr => ?_
            rcases hr with hr | hr
            · exact hr.elim
            · refine .inr (ReqOK.mono m.mono ?_)
              simp only [List.mem_append, List.mem_singleton] at hr
              rcases hr with (hr | hr) | hr
              · exact hl2 r (List.mem_append_left _ hr)
              · subst hr; exact hr2
              · exact hl2 r (List.mem_append_right _ hr)
        · split at hc
          · simp at hc
          · rename_i s3 h3
            have m := (pause_cstep h3).trans (trackv_cstep hc)
            refine hs2.step m fun r hr => ?_
            rcases hr with hr | hr
            · exact hr.elim
            · refine .inr (ReqOK.mono m.mono ?_)
              simp only [List.mem_append, List.mem_singleton] at hr
              rcases hr with (hr | hr) | hr
              · exact hl2 r (List.mem_append_left _ hr)
              · subst hr; exact hr2
              · exact hl2 r (List.mem_append_right _ hr)
        · split at hc
          · simp at hc
          · rename_i s3 h3
            have m := park_cstep h3
            have hk3 : dkey s3 = dkey s := (park_dkey h3).trans hk2
            refine consumeLoop_cs fuel (hi.of_dkey hk3) (hno.of_dkey hk3)
              (hs2.step m fun r hr => .inr (by subst hr; exact hr2.mono m.mono))
              (fun r hr => (hl2 r hr).mono m.mono) hc
        · refine consumeLoop_cs fuel hi2 hno2 hs2 (fun r hr => ?_) hc
          simp only [List.mem_append, List.mem_singleton] at hr
          rcases hr with (hr | hr) | hr
          · exact hl2 r (List.mem_append_left _ hr)
          · subst hr; exact hr2
          · exact hl2 r (List.mem_append_right _ hr)
        · refine consumeLoop_cs fuel hi2 hno2 hs2 (fun r hr => ?_) hc
          simp only [List.mem_append, List.mem_singleton] at hr
          rcases hr with hr | hr | hr
          · exact hl2 r (List.mem_append_left _ hr)
          · exact hl2 r (List.mem_append_right _ hr)
          · subst hr; exact hr2

theorem consume_cs {s s' : RState} {b : Bool} (hi : DLInv s) (hno : NoOverflow s) (h : CS s)
    (hc : consume s = .ok (s', b)) : CS s' := by
  unfold consume at hc
  split at hc
  · simp only [Except.ok.injEq, Prod.mk.injEq] at hc; obtain ⟨rfl, _⟩ := hc
    exact h.step0 (CStep.of_conns rfl rfl rfl rfl rfl)
  · rename_i id rq hq
    simp only [] at hc
    split at hc
    · simp only [Except.ok.injEq, Prod.mk.injEq] at hc; obtain ⟨rfl, _⟩ := hc
      exact h.step0 (CStep.of_conns rfl rfl rfl rfl rfl)
    · rename_i c hcn
      split at hc
      · simp at hc
      · rename_i s1 h1
        split at hc
        · simp at hc
        · rename_i s2 h2
          simp only [Except.ok.injEq, Prod.mk.injEq] at hc; obtain ⟨rfl, _⟩ := hc
          refine CS.step0 ?_ (wakeTurnMoved_cstep h2)
          have hcn' : getConn s id = some c := hcn
          have a : CStep s ({ setConn { s with readyqueue := rq } id { c with tracker := { c.tracker with requests := [] } }
              with readyqueue := (setConn { s with readyqueue := rq } id { c with tracker := { c.tracker with requests := [] } }).readyqueue ++ [id] } : RState) noReq :=
            CStep.of_set (c' := { c with tracker := { c.tracker with requests := [] } }) hcn' rfl
              (fun r hr => by simp at hr) (fun e he cur hcur => ⟨e, he, rfl, hcur⟩) rfl rfl rfl rfl
          have m := a.nn (ackDeviceData_cstep _ id)
          have hk : dkey (ackDeviceData ({ setConn { s with readyqueue := rq } id { c with tracker := { c.tracker with requests := [] } }
              with readyqueue := (setConn { s with readyqueue := rq } id { c with tracker := { c.tracker with requests := [] } }).readyqueue ++ [id] } : RState) id) = dkey s := by
            rw [ackDeviceData_dkey]; rfl
          refine consumeLoop_cs _ (hi.of_dkey hk) (hno.of_dkey hk) (h.step0 m) (fun r hr => ?_) h1
          simp only [List.append_nil] at hr
          exact (h.req r (.inl ⟨id, c, hcn', hr⟩)).mono m.mono

/-! ### one packet, a batch, a DeviceData event -/

theorem registerAck_sub (o : Outgoing) (pkid : Nat) : ∀ e ∈ (o.registerAck pkid).1.inflight, e ∈ o.inflight := by
  intro e he
  unfold Outgoing.registerAck at he
  split at he
  · exact he
  · rename_i h a b rest heq
    split at he
    · rw [heq]; exact List.mem_cons_of_mem _ he
    · exact he

/-- one packet other than SUBSCRIBE: nothing new is held afterwards -/
theorem handlePacket_cstep {s s' : RState} {id : Nat} {cid : String} {pkt : Packet} {fl fl' : Flags}
    (hns : ∀ a b c, pkt ≠ .subscribe a b c)
    (hi : DLInv s) (hp : handlePacket s id cid pkt fl = .ok (s', fl')) : CStep s s' noReq := by
  cases pkt with
  | publish p =>
    rw [handlePacket_publish] at hp
    split at hp
    · simp at hp
    · rename_i s1 fl1 h1
      simp only [Except.ok.injEq, Prod.mk.injEq] at hp; obtain ⟨rfl, _⟩ := hp
      exact hpPre_cstep h1
    · rename_i s1 fl1 h1
      have a := hpPre_cstep h1
      have hi1 : DLInv s1 := hi.of_dkey (hpPre_dkey h1)
      split at hp
      · simp at hp
      all_goals
        rename_i h2
        simp only [Except.ok.injEq, Prod.mk.injEq] at hp; obtain ⟨rfl, _⟩ := hp
        exact a.nn (appendToCommitlog_cstep hi1 h2)
  | subscribe pkid subId filters => exact absurd rfl (hns pkid subId filters)
  | unsubscribe pkid filters =>
    simp only [handlePacket] at hp
    split at hp
    · simp at hp
    · split at hp
      · simp at hp
      · rename_i s1 rs h1
        split at hp
        · simp at hp
        · rename_i s2 h2
          simp only [Except.ok.injEq, Prod.mk.injEq] at hp; obtain ⟨rfl, _⟩ := hp
          exact (unsubscribeFilters_cstep filters h1).nn (commitAck_cstep h2)
  | puback pkid =>
    simp only [handlePacket] at hp
    split at hp
    · simp at hp
    · rename_i c hc
      have a : CStep s (setConn s id { c with out := (c.out.registerAck pkid).1 }) noReq :=
        CStep.of_set (c' := { c with out := (c.out.registerAck pkid).1 }) hc rfl (fun r hr => .inl hr)
          (fun e he cur hcur => ⟨e, registerAck_sub _ _ e he, rfl, hcur⟩) rfl rfl rfl rfl
      split at hp
      · simp only [Except.ok.injEq, Prod.mk.injEq] at hp; obtain ⟨rfl, _⟩ := hp; exact a
      · split at hp
        · simp at hp
        · rename_i s2 h2
          simp only [Except.ok.injEq, Prod.mk.injEq] at hp; obtain ⟨rfl, _⟩ := hp
          have a' : CStep s ((setConn s id { c with out := (c.out.registerAck pkid).1 }).g (.clientAcked id pkid)) noReq :=
            a.nn (CStep.of_conns rfl rfl rfl rfl rfl)
          exact a'.nn (reschedule_cstep h2)
  | pubrec pkid =>
    simp only [handlePacket] at hp
    split at hp
    · simp at hp
    · rename_i c hc
      split at hp
      · simp only [Except.ok.injEq, Prod.mk.injEq] at hp; obtain ⟨rfl, _⟩ := hp
        exact CStep.of_set (c' := { c with out := (c.out.registerAck pkid).1 }) hc rfl (fun r hr => .inl hr)
          (fun e he cur hcur => ⟨e, registerAck_sub _ _ e he, rfl, hcur⟩) rfl rfl rfl rfl
      · split at hp
        · simp at hp
        · rename_i s2 h2
          simp only [Except.ok.injEq, Prod.mk.injEq] at hp; obtain ⟨rfl, _⟩ := hp
          refine CStep.nn ?_ (reschedule_cstep h2)
          exact CStep.of_set (c' := { c with out := _, acks := _ }) hc rfl (fun r hr => .inl hr)
            (fun e he cur hcur => ⟨e, registerAck_sub _ _ e he, rfl, hcur⟩) rfl rfl rfl rfl
  | pubrel pkid hp' =>
    simp only [handlePacket] at hp
    split at hp
    · simp at hp
    · rename_i c hc
      split at hp
      · simp only [Except.ok.injEq, Prod.mk.injEq] at hp; obtain ⟨rfl, _⟩ := hp
        exact CStep.of_set_same (c' := { c with acks := _ }) hc rfl rfl rfl rfl rfl rfl rfl
      · rename_i p rest hrec
        have a : CStep s ((setConn s id { c with acks := { committed := c.acks.committed ++ [Ack.pubcomp pkid], recorded := rest } }).g
            (.committed id (.pubcomp pkid))) noReq :=
          CStep.of_set_same (c' := { c with acks := _ }) hc rfl rfl rfl rfl rfl rfl rfl
        have hi1 : DLInv ((setConn s id { c with acks := { committed := c.acks.committed ++ [Ack.pubcomp pkid], recorded := rest } }).g
            (.committed id (.pubcomp pkid))) := hi.of_dkey rfl
        split at hp
        · simp at hp
        · rename_i h2
          simp only [Except.ok.injEq, Prod.mk.injEq] at hp; obtain ⟨rfl, _⟩ := hp
          exact a.nn (appendToCommitlog_cstep hi1 h2)
        · rename_i s2 h2
          split at hp
          · simp at hp
          · rename_i s3 h3
            simp only [Except.ok.injEq, Prod.mk.injEq] at hp; obtain ⟨rfl, _⟩ := hp
            exact (a.nn (appendToCommitlog_cstep hi1 h2)).nn (reschedule_cstep h3)
  | pubcomp pkid =>
    simp only [handlePacket] at hp
    split at hp
    · simp at hp
    · rename_i c hc
      have a : CStep s (setConn s id { c with out := (c.out.registerPubcomp pkid).1 }) noReq :=
        CStep.of_set_same (c' := { c with out := _ }) hc rfl rfl (registerPubcomp_out _ _).1 rfl rfl rfl rfl
      split at hp
      all_goals
        simp only [Except.ok.injEq, Prod.mk.injEq] at hp; obtain ⟨rfl, _⟩ := hp; exact a
  | pingreq =>
    simp only [handlePacket] at hp
    split at hp
    · simp at hp
    · rename_i s1 h1
      simp only [Except.ok.injEq, Prod.mk.injEq] at hp; obtain ⟨rfl, _⟩ := hp
      exact commitAck_cstep h1
  | disconnect =>
    simp only [handlePacket, Except.ok.injEq, Prod.mk.injEq] at hp; obtain ⟨rfl, _⟩ := hp
    exact CStep.of_conns rfl rfl rfl rfl rfl
  | other =>
    simp only [handlePacket, Except.ok.injEq, Prod.mk.injEq] at hp; obtain ⟨rfl, _⟩ := hp
    exact CStep.refl _

theorem handlePacket_cs {s s' : RState} {id : Nat} {cid : String} {pkt : Packet} {fl fl' : Flags}
    (hi : DLInv s) (h : CS s) (hp : handlePacket s id cid pkt fl = .ok (s', fl')) :
    CS s' ∧ LogMono s.datalog s'.datalog := by
  by_cases hsub : ∃ a b c, pkt = .subscribe a b c
  · obtain ⟨pkid, subId, filters, rfl⟩ := hsub
    simp only [handlePacket] at hp
    split at hp
    · simp at hp
    · rename_i s1 codes fl1 h1
      split at hp
      · simp at hp
      · rename_i s2 h2
        simp only [Except.ok.injEq, Prod.mk.injEq] at hp; obtain ⟨rfl, _⟩ := hp
        obtain ⟨a, b⟩ := subscribeFilters_cs filters hi h h1
        exact ⟨a.step0 (commitAck_cstep h2), b.trans (commitAck_cstep h2).mono⟩
  · have m := handlePacket_cstep (fun a b c e => hsub ⟨a, b, c, e⟩) hi hp
    exact ⟨h.step0 m, m.mono⟩

theorem handlePackets_cs {id : Nat} {cid : String} : ∀ (ps : List Packet) {s s' : RState} {fl fl' : Flags},
    DLInv s → CS s → handlePackets s id cid ps fl = .ok (s', fl') → CS s' ∧ LogMono s.datalog s'.datalog
  | [], s, s', fl, fl', _, h, hp => by
    simp only [handlePackets, Except.ok.injEq, Prod.mk.injEq] at hp; obtain ⟨rfl, _⟩ := hp; exact ⟨h, LogMono.refl _⟩
  | p :: rest, s, s', fl, fl', hi, h, hp => by
    simp only [handlePackets] at hp
    split at hp
    · simp at hp
    · rename_i s1 fl1 h1
      obtain ⟨a, m1⟩ := handlePacket_cs hi h h1
      split at hp
      · simp only [Except.ok.injEq, Prod.mk.injEq] at hp; obtain ⟨rfl, _⟩ := hp; exact ⟨a, m1⟩
      · obtain ⟨b, m2⟩ := handlePackets_cs rest (handlePacket_inv hi h1) a hp
        exact ⟨b, m1.trans m2⟩

/-! ### disconnection -/

theorem nlookup_append' {β} (k : Nat) (l r : List (Nat × β)) :
    nlookup k (l ++ r) = (nlookup k l).or (nlookup k r) := by
  induction l with
  | nil => simp [nlookup]
  | cons a l ih =>
    obtain ⟨k', v'⟩ := a
    by_cases h : k' = k
    · simp [nlookup, h]
    · simp [nlookup, h, ih]

/-! `retransmission_map` keeps the LEAST cursor per filter index -/

theorem cursorMin_cases (a b : Cursor) : cursorMin a b = a ∨ cursorMin a b = b := by
  unfold cursorMin; split
  · exact .inl rfl
  · exact .inr rfl

/-- the least of two optional cursors (`none` = no cursor yet) -/
def optMin : Option Cursor → Option Cursor → Option Cursor
  | some a, some b => some (cursorMin a b)
  | some a, none => some a
  | none, b => b

/-- the least cursor among `init` and the window entries of filter index `k` that carry one -/
def leastFrom (k : Nat) : List (Nat × Nat × Option Cursor) → Option Cursor → Option Cursor
  | [], init => init
  | (_, fi, cur) :: rest, init => leastFrom k rest (if fi = k then optMin init cur else init)

theorem nlookup_map_set {β} (k fi : Nat) (v : β) : ∀ (l : List (Nat × β)),
    nlookup k (l.map (fun p => if p.1 = fi then (fi, v) else p)) =
      if k = fi then (nlookup k l).map (fun _ => v) else nlookup k l
  | [] => by simp [nlookup]
  | (a, b) :: r => by
    simp only [List.map_cons, nlookup]
    have ih := nlookup_map_set k fi v r
    by_cases h1 : a = fi
    · subst h1
      by_cases h2 : a = k
      · subst h2; simp [nlookup]
      · have h3 : ¬ k = a := fun e => h2 e.symm
        simp only [if_true, nlookup, h2, if_false, h3] at ih ⊢
        exact ih
    · by_cases h2 : a = k
      · subst h2
        have h3 : ¬ a = fi := h1
        simp [h1, nlookup, h3]
      · simp only [h1, if_false, nlookup, h2]
        exact ih

/-- what `retransmission_map` computes, read at one filter index -/
theorem retx_leastFrom (k : Nat) : ∀ (l : List (Nat × Nat × Option Cursor)) (acc : List (Nat × Cursor)),
    nlookup k (retransmissionMap l acc) = leastFrom k l (nlookup k acc)
  | [], acc => rfl
  | (_, fi, some c) :: rest, acc => by
    simp only [retransmissionMap, leastFrom]
    split
    · rename_i least hl
      rw [retx_leastFrom k rest, nlookup_map_set]
      by_cases hk : fi = k
      · subst hk; simp [hl, optMin]
      · have : ¬ k = fi := fun e => hk e.symm
        simp [hk, this]
    · rename_i hn
      rw [retx_leastFrom k rest, nlookup_append']
      by_cases hk : fi = k
      · subst hk; simp [hn, optMin, nlookup]
      · simp only [hk, if_false, nlookup]
        cases nlookup k acc <;> rfl
  | (_, fi, none) :: rest, acc => by
    simp only [retransmissionMap, leastFrom]
    rw [retx_leastFrom k rest]
    by_cases hk : fi = k
    · simp only [hk, if_true]
      cases nlookup k acc <;> rfl
    · simp [hk]

theorem leastFrom_mem (k : Nat) (c : Cursor) : ∀ (l : List (Nat × Nat × Option Cursor)) (init : Option Cursor),
    leastFrom k l init = some c → init = some c ∨ ∃ e ∈ l, e.2.1 = k ∧ e.2.2 = some c
  | [], init, h => .inl h
  | (pk, fi, cur) :: rest, init, h => by
    simp only [leastFrom] at h
    rcases leastFrom_mem k c rest _ h with h1 | ⟨e, he, h1, h2⟩
    · by_cases hk : fi = k
      · simp only [hk, if_true] at h1
        cases init with
        | none =>
          simp only [optMin] at h1
          exact .inr ⟨(pk, fi, cur), by simp, hk, h1⟩
        | some i =>
          cases cur with
          | none => exact .inl h1
          | some c' =>
            simp only [optMin, Option.some.injEq] at h1
            rcases cursorMin_cases i c' with e | e
            · exact .inl (by rw [← h1, e])
            · exact .inr ⟨(pk, fi, some c'), by simp, hk, by rw [← h1, e]⟩
      · simp only [hk, if_false] at h1; exact .inl h1
    · exact .inr ⟨e, by simp [he], h1, h2⟩

/-- every entry of the retransmission map is the cursor of a window entry of that filter index -/
theorem retransmissionMap_mem (k : Nat) (c : Cursor) (l : List (Nat × Nat × Option Cursor)) (acc : List (Nat × Cursor))
    (h : nlookup k (retransmissionMap l acc) = some c) :
    nlookup k acc = some c ∨ ∃ e ∈ l, e.2.1 = k ∧ e.2.2 = some c := by
  rw [retx_leastFrom] at h
  exact leastFrom_mem k c l _ h

theorem removeFromGroups_mem {sh : List (String × SharedGroup)} {cid : String} {p : String × SharedGroup}
    (h : p ∈ removeFromGroups sh cid) : ∃ q ∈ sh, q.1 = p.1 ∧ q.2.cursor = p.2.cursor := by
  unfold removeFromGroups at h
  obtain ⟨q, hq, rfl⟩ := List.mem_map.mp (List.mem_filter.mp h).1
  exact ⟨q, hq, rfl, rfl⟩

/-- the groups after the rewind: as before, or moved to a window cursor of a request's log -/
theorem rewindRequests_shared (retx : List (Nat × Cursor)) : ∀ (rs : List DataRequest)
    (sh : List (String × SharedGroup)) (acc : List DataRequest),
    ∀ p ∈ (rewindRequests sh retx rs acc).1,
      (∃ q ∈ sh, q.1 = p.1 ∧ q.2.cursor = p.2.cursor) ∨
      (∃ r ∈ rs, r.group = some p.1 ∧ nlookup r.filterIdx retx = some p.2.cursor)
  | [], sh, acc, p, hp => by simp only [rewindRequests] at hp; exact .inl ⟨p, hp, rfl, rfl⟩
  | r :: rest, sh, acc, p, hp => by
    simp only [rewindRequests] at hp
    have lift : ((∃ q ∈ sh, q.1 = p.1 ∧ q.2.cursor = p.2.cursor) ∨
        (∃ r' ∈ rest, r'.group = some p.1 ∧ nlookup r'.filterIdx retx = some p.2.cursor)) →
        ((∃ q ∈ sh, q.1 = p.1 ∧ q.2.cursor = p.2.cursor) ∨
        (∃ r' ∈ r :: rest, r'.group = some p.1 ∧ nlookup r'.filterIdx retx = some p.2.cursor)) := fun h => by
      rcases h with h | ⟨r', hr', a, b⟩
      · exact .inl h
      · exact .inr ⟨r', by simp [hr'], a, b⟩
    split at hp
    · exact lift (rewindRequests_shared retx rest sh _ p hp)
    · rename_i c hc
      split at hp
      · exact lift (rewindRequests_shared retx rest sh _ p hp)
      · rename_i g hg
        split at hp
        · exact lift (rewindRequests_shared retx rest sh _ p hp)
        · rename_i grp hgrp
          rcases rewindRequests_shared retx rest _ _ p hp with ⟨q, hq, e1, e2⟩ | h
          · rcases mem_ainsert hq with hm | rfl
            · exact .inl ⟨q, hm, e1, e2⟩
            · refine .inr ⟨r, by simp, ?_, ?_⟩
              · rw [hg]; exact congrArg some e1
              · rw [hc]; exact congrArg some e2
          · exact lift (.inr h)

/-- shared groups and graveyard of the state `handle_disconnection` builds before the wake-up -/
theorem hdFinal_shared_graveyard (s : RState) (id : Nat) (c : Conn) (r : Option String) :
    (c.clean = true →
      (hdFinal s id c r).shared = removeFromGroups s.shared c.clientId ∧
      (hdFinal s id c r).graveyard = ainsert c.clientId none s.graveyard) ∧
    (c.clean = false →
      (hdFinal s id c r).shared =
        (rewindRequests (removeFromGroups s.shared c.clientId) (retransmissionMap c.out.inflight [])
          ((c.tracker.requests ++ (datalogClean s.datalog id).2).map (atGroupCursor s.shared)) []).1 ∧
      ∃ ss, (hdFinal s id c r).graveyard = ainsert c.clientId (some ss) s.graveyard ∧
        ss.tracker.requests =
          ((c.tracker.requests ++ (datalogClean s.datalog id).2).map (atGroupCursor s.shared)).map
            (rewindOne (retransmissionMap c.out.inflight []))) := by
  unfold hdFinal hdRemoved hdSaved
  refine ⟨fun hcl => ?_, fun hcl => ?_⟩
  · cases r <;> simp [hcl, hdNotify, RState.g, wakeLink, pushNotifs, setLink]
  · cases r <;>
    · simp only [hcl, Bool.not_false, if_true]
      exact ⟨rfl, _, rfl, by simp [rewindRequests_snd]; rfl⟩

/-- a request of a group adopts the group's cursor: issued for the same log -/
theorem atGroupCursor_ok {s : RState} (h : CS s) {r : DataRequest} (hr : ReqOK s.datalog r) :
    ReqOK s.datalog (atGroupCursor s.shared r) := by
  unfold atGroupCursor
  cases hg : r.group.bind (fun g => alookup g s.shared) with
  | none => exact hr
  | some grp =>
    obtain ⟨gname, hgn, hl⟩ := Option.bind_eq_some_iff.mp hg
    obtain ⟨i, a, b⟩ := h.grp (gname, grp) (mem_of_alookup hl)
    have := hr.2 gname hgn
    have e : i = r.filterIdx := by
      have a' : s.datalog.filterIdx? (gpath gname) = some i := a
      rw [this] at a'; exact (Option.some.inj a').symm
    subst e
    exact ⟨b, hr.2⟩

/-- a saved request is rewound to a window cursor of its log -/
theorem rewindOne_ok {s : RState} (h : CS s) {id : Nat} {c : Conn} (hc : getConn s id = some c) {r : DataRequest}
    (hr : ReqOK s.datalog r) : ReqOK s.datalog (rewindOne (retransmissionMap c.out.inflight []) r) := by
  unfold rewindOne
  cases hl : nlookup r.filterIdx (retransmissionMap c.out.inflight []) with
  | none => exact hr
  | some cur =>
    rcases retransmissionMap_mem _ _ _ _ hl with h0 | ⟨e, he, e1, e2⟩
    · simp [nlookup] at h0
    · exact ⟨h.win r.filterIdx cur ⟨id, c, hc, e, he, e1, e2⟩, hr.2⟩

/-- `handle_disconnection` keeps `CursorSound`: the saved requests continue at their group's cursor
    and are rewound to window cursors — all issued for the request's log —, a group whose member
    left is moved to such a window cursor at most -/
theorem handleDisconnection_cs {s s' : RState} {id : Nat} {r : Option String} (h : CS s)
    (hd : handleDisconnection s id r = .ok s') : CS s' := by
  rw [Router.handleDisconnection_eq] at hd
  split at hd
  · simp only [Except.ok.injEq] at hd; subst hd; exact h
  · rename_i c hc
    refine CS.step0 ?_ (wakeParked_cstep hd)
    obtain ⟨k1, _, _, _, _, _, k7, k8, _⟩ := hdFinal_fields s id c r
    obtain ⟨sg1, sg2⟩ := hdFinal_shared_graveyard s id c r
    have hget : ∀ j, getConn (hdFinal s id c r) j = if j = id then none else getConn s j := fun j => by
      unfold getConn; rw [k1, Slab.get?_remove]
    have hcol : ∀ q ∈ (datalogClean s.datalog id).2, allReqs s q := fun q hq => by
      rw [datalogClean_eq] at hq
      obtain ⟨fd, hfd, hq'⟩ := List.mem_flatMap.mp hq
      obtain ⟨_, _, c3⟩ := Router.waitersRemove_spec id (fd.waiters.length + 1) fd.waiters []
      rcases c3 q hq' with hnil | ⟨w, hw, e⟩
      · simp at hnil
      · exact .inr (.inl ⟨fd, hfd, w, hw, e⟩)
    have hsrc : ∀ q ∈ c.tracker.requests ++ (datalogClean s.datalog id).2, ReqOK s.datalog q := fun q hq => by
      rcases List.mem_append.mp hq with hq | hq
      · exact h.req q (.inl ⟨id, c, hc, hq⟩)
      · exact h.req q (hcol q hq)
    have hm : LogMono s.datalog (hdFinal s id c r).datalog := by
      rw [k8, datalogClean_eq]
      refine LogMono.of_eq ?_ rfl
      simp [List.map_map, Function.comp_def, cleanFd]
    refine h.transfer hm (fun q hq => .inl ?_) (fun fi cur hw => .inl ?_) (fun p hp ss hss q hq => ?_) (fun p hp => ?_)
    · rcases hq with ⟨j, d, hd', hmem⟩ | ⟨fd', hfd', w, hw, rfl⟩ | ⟨n, hn, rfl⟩
      · rw [hget] at hd'
        by_cases hj : j = id
        · simp [hj] at hd'
        · simp only [hj, if_false] at hd'; exact .inl ⟨j, d, hd', hmem⟩
      · rw [k8, datalogClean_eq] at hfd'
        obtain ⟨fd, hfd, rfl⟩ := List.mem_map.mp hfd'
        exact .inr (.inl ⟨fd, hfd, w, (cleanFd_keys id fd).2.2.2 w hw, rfl⟩)
      · rw [k7] at hn; exact .inr (.inr ⟨n, hn, rfl⟩)
    · obtain ⟨j, d, hd', rest⟩ := hw
      rw [hget] at hd'
      by_cases hj : j = id
      · simp [hj] at hd'
      · simp only [hj, if_false] at hd'; exact ⟨j, d, hd', rest⟩
    · cases hcl : c.clean with
      | true =>
        rw [(sg1 hcl).2] at hp
        rcases mem_ainsert hp with hp | rfl
        · exact .inl ⟨p, hp, ss, hss, hq⟩
        · cases hss
      | false =>
        obtain ⟨_, ss0, e1, e2⟩ := sg2 hcl
        rw [e1] at hp
        rcases mem_ainsert hp with hp | rfl
        · exact .inl ⟨p, hp, ss, hss, hq⟩
        · simp only [Option.some.injEq] at hss; subst hss
          rw [e2] at hq
          obtain ⟨q1, hq1, rfl⟩ := List.mem_map.mp hq
          obtain ⟨q0, hq0, rfl⟩ := List.mem_map.mp hq1
          exact .inr ((rewindOne_ok h hc (atGroupCursor_ok h (hsrc q0 hq0))).mono hm)
    · cases hcl : c.clean with
      | true =>
        rw [(sg1 hcl).1] at hp
        exact .inl (removeFromGroups_mem hp)
      | false =>
        rw [(sg2 hcl).1] at hp
        rcases rewindRequests_shared _ _ _ _ p hp with ⟨q, hq, e1, e2⟩ | ⟨q, hq, hg, hl⟩
        · obtain ⟨q', hq', e1', e2'⟩ := removeFromGroups_mem hq
          exact .inl ⟨q', hq', e1'.trans e1, e2'.trans e2⟩
        · obtain ⟨q0, hq0, rfl⟩ := List.mem_map.mp hq
          have hok := atGroupCursor_ok h (hsrc q0 hq0)
          rcases retransmissionMap_mem _ _ _ _ hl with h0 | ⟨e, he, e1, e2⟩
          · simp [nlookup] at h0
          · refine .inr ⟨(atGroupCursor s.shared q0).filterIdx, hm.fi _ _ (hok.2 p.1 hg), ?_⟩
            exact (h.win _ _ ⟨id, c, hc, e, he, e1, e2⟩).mono hm

end Rp3
end Router
