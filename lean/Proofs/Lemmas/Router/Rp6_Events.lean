/-
The invariant `QI` and the ownership of data requests through the events other than `consume`:
DeviceData, the last will, the shadow request.
-/
import Proofs.Lemmas.Router.Rp6_Session
import Proofs.Lemmas.Router.Rp4_NoPanic
namespace Router

/-- after `handle_disconnection(id)` there is no connection `id` -/
theorem handleDisconnection_gone {s s' : RState} {id : Nat} {r : Option String}
    (hd : handleDisconnection s id r = .ok s') : getConn s' id = none := by
  cases hc : getConn s id with
  | none => rw [handleDisconnection_missing s id r hc] at hd; cases hd; exact hc
  | some c =>
    rw [Router.handleDisconnection_eq] at hd
    simp only [hc] at hd
    have sh := wakeParked_shape hd
    rw [sh.none_iff]
    obtain ⟨k1, _⟩ := hdFinal_fields s id c r
    unfold getConn; rw [k1, Slab.get?_remove]; simp

/-- a DeviceData event: the invariant is kept. A connection loses requests only if it is the one
    that sent the batch, and then only those of the filters it unsubscribes — or all, when the batch
    ends its connection -/
theorem handleDevicePayload_qi {s s' : RState} {id : Nat} (hb : BInv s) (hr : RC s) (hq : QI s)
    (h : handleDevicePayload s id = .ok s') :
    QI s' ∧ s'.config = s.config ∧
    ∀ c, getConn s id = some c →
      Keeps (fun j r => ¬ (j = id ∧ (getConn s' id = none ∨ ∃ p ∈ (getLink s c.link).ibuf, r.filter ∈ pktUnsubs p))) s s' := by
  unfold handleDevicePayload at h
  split at h
  · rename_i hnone
    simp only [Except.ok.injEq] at h; subst h
    exact ⟨hq, rfl, fun c hc => by rw [hnone] at hc; cases hc⟩
  · rename_i c hc
    simp only [] at h
    have m0 : OEq s (setLink s c.link { getLink s c.link with ibuf := [] }) := OEq.of_conns rfl rfl rfl rfl rfl
    have h0 : DInv (setLink s c.link { getLink s c.link with ibuf := [] }) := hb.1.congr rfl rfl rfl rfl rfl rfl rfl
    have r0 : RC (setLink s c.link { getLink s c.link with ibuf := [] }) :=
      RCX.view hr (KMove.of_conns rfl rfl rfl rfl rfl)
    have l0 : Live (setLink s c.link { getLink s c.link with ibuf := [] }) id := Live.of_get (c := c) hc
    have hp := handlePackets_rc (id := id) (cid := c.clientId) (getLink s c.link).ibuf (fl := {}) h0 l0 (fun _ => hb.2) r0
    split at h
    · simp at h
    · rename_i s1 fl h1
      obtain ⟨q1, rc1⟩ := Good.ok_of h1 hp
      obtain ⟨qi1, k1, cf1⟩ := handlePackets_qi _ (hq.oeq m0) h1
      have l1 : Live s1 id := l0.shape (handlePackets_shape _ h1)
      obtain ⟨c1, hc1⟩ := l1.get
      have hr1 : Good NotPF (fun s2 => (DInv s2 ∧ s2.notifications = s1.notifications) ∧ RC s2)
          (if fl.forceAck then reschedule s1 id .freshData else .ok s1) := by
        split
        · exact (reschedule_good q1.1 hc1 (by simp)).and_ok fun s2 h2 => RCX.view rc1 (reschedule_move h2)
        · exact ⟨⟨q1.1, rfl⟩, rc1⟩
      split at h
      · simp at h
      · rename_i s2 h2
        obtain ⟨q2, rc2⟩ := Good.ok_of h2 hr1
        have m2 : OEq s1 s2 := by
          split at h2
          · exact reschedule_oeq h2
          · simp only [Except.ok.injEq] at h2; subst h2; exact OEq.refl _
        have hr2 : Good NotPF (fun s3 => BInv s3 ∧ RC s3)
            (if fl.newData then drainNotifications { s2 with notifications := [] } s2.notifications else .ok s2) := by
          split
          · exact (drain_all_good q2.1).and_ok fun s3 h3 => RCX.view rc2 (drain_all_move h3)
          · rename_i hnd
            exact ⟨⟨q2.1, by rw [q2.2]; exact q1.2 (by simpa using hnd)⟩, rc2⟩
        split at h
        · simp at h
        · rename_i s3 h3
          obtain ⟨q3, rc3⟩ := Good.ok_of h3 hr2
          have m3 : OEq s2 s3 := by
            split at h3
            · exact drain_all_oeq h3
            · simp only [Except.ok.injEq] at h3; subst h3; exact OEq.refl _
          have hr3 : Good NotPF (fun s4 => BInv s4 ∧ RC s4) (wakeTurnMoved s3) :=
            ((wakeTurnMoved_good q3.1).mono fun s' q => (⟨q.1, by rw [q.2]; exact q3.2⟩ : BInv s')).and_ok
              fun s4 h4 => RCX.view rc3 (wakeTurnMoved_move h4)
          split at h
          · simp at h
          · rename_i s4 h4
            obtain ⟨q4, rc4⟩ := Good.ok_of h4 hr3
            have m4 := wakeTurnMoved_oeq h4
            have m14 : OEq s1 s4 := (m2.trans m3).trans m4
            have qi4 := qi1.oeq m14
            have k4 : Keeps (fun j r => ¬ (j = id ∧ ∃ p ∈ (getLink s c.link).ibuf, r.filter ∈ pktUnsubs p)) s s4 :=
              ((m0.keeps _).trans k1).trans (m14.keeps _)
            have cf4 : s4.config = s.config := by rw [m14.cfg, cf1]; rfl
            split at h
            · obtain ⟨q5, k5, cf5⟩ := handleDisconnection_qi qi4 q4.2 h
              have hgone := handleDisconnection_gone h
              refine ⟨q5, by rw [cf5, cf4], fun c' hc' => ?_⟩
              rw [hc] at hc'; cases hc'
              intro j x ho hk
              have hj : j ≠ id := fun e => hk ⟨e, .inl hgone⟩
              exact k5 j x (k4 j x ho (fun hh => hj hh.1)) hj
            · simp only [Except.ok.injEq] at h; subst h
              refine ⟨qi4, cf4, fun c' hc' => ?_⟩
              rw [hc] at hc'; cases hc'
              exact k4.mono fun j x hk hh => hk ⟨hh.1, .inr hh.2⟩

theorem handleLastWill_oeq {s s' : RState} {cid : String} (h : handleLastWill s cid = .ok s') : OEq s s' := by
  unfold handleLastWill at h
  split at h
  · simp only [Except.ok.injEq] at h; subst h; exact OEq.refl _
  · simp only [] at h
    have r0 : OEq s (({ s with lastWills := aremove cid s.lastWills } : RState).g (.willFired cid)) :=
      OEq.of_conns rfl rfl rfl rfl rfl
    split at h
    · simp only [Except.ok.injEq] at h; subst h; exact r0
    · rename_i topic ht
      split at h
      · simp at h
      · rename_i s2 idxs h2
        split at h
        · simp at h
        · rename_i s3 h3
          refine OEq.trans ?_ (drain_all_oeq h)
          refine (OEq.trans ?_ (dlMatches_oeq h2)).trans (appendToFilters_oeq idxs h3)
          exact (r0.trans (updateRetained_oeq _ _ _)).trans (OEq.of_conns rfl rfl rfl rfl rfl)

theorem handleShadow_oeq {s s' : RState} {id : Nat} {f : String} (h : handleShadow s id f = .ok s') : OEq s s' := by
  have hc := handleShadow_core h
  unfold handleShadow at h
  split at h
  · simp only [Except.ok.injEq] at h; subst h; exact OEq.refl _
  · split at h
    · simp only [Except.ok.injEq] at h; subst h; exact OEq.refl _
    · split at h
      · simp only [Except.ok.injEq] at h; subst h; exact OEq.refl _
      · simp only [Except.ok.injEq] at h; subst h
        refine OEq.of_conns hc.1 ?_ ?_ ?_ ?_ <;> (simp only [wakeLink]; split <;> rfl)

end Router
