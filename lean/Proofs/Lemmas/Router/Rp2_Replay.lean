/-
C15, delivery side: what one `forward_device_data` writes to the link — the retained replay
(flagged, no cursor) ahead of the live entries (with their cursors), one forward per message.
-/
import Proofs.Lemmas.Router.Rp2_Fwd
import Proofs.Lemmas.Router.Rp2_Retained
namespace Router

/-- what a subscriber sees of a forward that matters for C15: retain flag, payload, log cursor
    (`none` = retained replay) -/
def Notif.content : Notif → Option (Bool × Bytes × Option Cursor)
  | .forward p cur => some (p.retain, p.payload, cur)
  | _ => none

theorem mkForward_retain_payload (qos : Nat) (alias : Option Nat) (ex : Bool) (sid : Option Nat) (p : Pub) :
    (mkForward qos alias ex sid p).retain = p.retain ∧ (mkForward qos alias ex sid p).payload = p.payload := by
  unfold mkForward
  cases alias <;> cases sid <;> cases ex <;> simp

theorem numberForwards_content (fi : Nat) : ∀ (ps : List (Pub × Option Cursor)) (o : Outgoing) (acc : List Notif),
    (numberForwards o fi ps acc).2.map Notif.content =
      acc.map Notif.content ++ ps.map (fun pc => some (pc.1.retain, pc.1.payload, pc.2))
  | [], o, acc => by simp [numberForwards]
  | (p, c) :: rest, o, acc => by
    simp only [numberForwards]
    rw [numberForwards_content fi rest]
    simp [Notif.content]

/-- one forward per message, in order, each keeping the message's retain flag, payload and cursor -/
theorem fwdNotifs_content (c : Conn) (req : DataRequest) (pubs : List (Pub × Option Cursor)) :
    (fwdNotifs c req pubs).2.map Notif.content = pubs.map (fun pc => some (pc.1.retain, pc.1.payload, pc.2)) := by
  unfold fwdNotifs
  simp only []
  split
  · simp only [List.map_map]
    apply List.map_congr_left
    intro pc _
    simp [Function.comp, Notif.content, (mkForward_retain_payload _ _ _ _ _).1, (mkForward_retain_payload _ _ _ _ _).2]
  · rw [numberForwards_content]
    simp only [List.map_nil, List.nil_append, List.map_map]
    apply List.map_congr_left
    intro pc _
    simp [Function.comp, (mkForward_retain_payload _ _ _ _ _).1, (mkForward_retain_payload _ _ _ _ _).2]

theorem wakeLink_obuf (s : RState) (l l' : Nat) : (getLink (wakeLink s l) l').obuf = (getLink s l').obuf := by
  unfold wakeLink
  by_cases h : l' = l
  · subst h; rw [getLink_setLink_same]; unfold LinkBuf.wake; split <;> rfl
  · rw [getLink_setLink_ne _ _ _ _ h]

theorem pushNotifs_obuf_same (s : RState) (l : Nat) (ns : List Notif) :
    (getLink (pushNotifs s l ns) l).obuf = (getLink s l).obuf ++ ns := by
  unfold pushNotifs; rw [getLink_setLink_same]

/-- the push step writes exactly the forwards of `publishes` (then possibly `Unschedule`) -/
theorem fwdPush_obuf {s s' : RState} {id : Nat} {c : Conn} {req req' : DataRequest} {grp : Option SharedGroup}
    {publishes : List (Pub × Option Cursor)} {caughtup : Bool} {st : ConsumeStatus}
    (h : fwdPush s id c req grp publishes caughtup = .ok (s', req', st)) :
    ∃ tail, (getLink s' c.link).obuf = (getLink s c.link).obuf ++ (fwdNotifs c req publishes).2 ++ tail ∧
      (tail = [] ∨ tail = [Notif.unschedule]) := by
  unfold fwdPush at h
  simp only [] at h
  split at h
  · simp at h
  · rename_i s3 hadv
    have a := fwdAdvance_spec hadv
    have e3 : (getLink s3 c.link).obuf = (getLink s c.link).obuf ++ (fwdNotifs c req publishes).2 := by
      have : getLink s3 c.link = getLink (pushNotifs (setConn s id
          { c with out := (fwdNotifs c req publishes).1, brokerAliases := (fwdAlias c req).1 }) c.link
          (fwdNotifs c req publishes).2) c.link := by unfold getLink; rw [a.links]
      rw [this, pushNotifs_obuf_same]; rfl
    split at h
    · simp only [Except.ok.injEq, Prod.mk.injEq] at h; obtain ⟨rfl, _⟩ := h
      exact ⟨[Notif.unschedule], by rw [wakeLink_obuf, pushNotifs_obuf_same, e3], .inr rfl⟩
    · simp only [Except.ok.injEq, Prod.mk.injEq] at h; obtain ⟨rfl, _⟩ := h
      exact ⟨[], by rw [wakeLink_obuf, e3]; simp, .inl rfl⟩

/-- the read step: either nothing is written (the request's turn is skipped, or there is nothing
    to send), or the forwards of `retained replay ++ log entries read from the cursor` -/
theorem fwdRead_obuf {s s' : RState} {id : Nat} {c : Conn} {req req' : DataRequest} {grp : Option SharedGroup}
    {rp : List (Pub × Option Cursor)} {slots : Nat} {st : ConsumeStatus}
    (h : fwdRead s id c req grp rp slots = .ok (s', req', st)) :
    s' = s ∨
    ∃ (fd : FilterData) (ns tail : List Notif), s.datalog.native[req.filterIdx]? = some fd ∧
      (getLink s' c.link).obuf = (getLink s c.link).obuf ++ ns ++ tail ∧
      (tail = [] ∨ tail = [Notif.unschedule]) ∧
      ns.map Notif.content =
        (rp ++ (fd.log.readv req.cursor slots).1.map (fun e => (e.1, some e.2))).map
          (fun pc => some (pc.1.retain, pc.1.payload, pc.2)) := by
  unfold fwdRead at h
  simp only [] at h
  split at h
  · simp at h
  · rename_i fd hfd
    split at h
    · simp only [Except.ok.injEq, Prod.mk.injEq] at h; obtain ⟨rfl, _⟩ := h; exact .inl rfl
    · split at h
      · simp only [Except.ok.injEq, Prod.mk.injEq] at h; obtain ⟨rfl, _⟩ := h; exact .inl rfl
      · obtain ⟨tail, e, ht⟩ := fwdPush_obuf h
        exact .inr ⟨fd, _, tail, hfd, e, ht, fwdNotifs_content _ _ _⟩

/-- `forward_device_data` for a request whose replay flag is set: unless the inflight window is
    full, the retained messages matching the filter are read (`readRetained`), truncated to the
    free window, and — unless the sweep writes nothing at all — forwarded first, each with its
    retain flag and payload and with no cursor, followed by the live log entries read from the
    request's cursor, each with its own cursor -/
theorem forwardDeviceData_replay {s s' : RState} {id : Nat} {c : Conn} {req req' : DataRequest} {st : ConsumeStatus}
    (hc : getConn s id = some c) (hfr : req.forwardRetained = true)
    (h : forwardDeviceData s id req = .ok (s', req', st)) :
    (st = .inflightFull ∧ s' = s) ∨
    ∃ (s1 : RState) (ps : List Pub) (slots : Nat),
      readRetained s req.filter = .ok (s1, ps) ∧
      ((getLink s' c.link).obuf = (getLink s c.link).obuf ∨
       ∃ (live : List (Pub × Cursor)) (ns tail : List Notif),
        (getLink s' c.link).obuf = (getLink s c.link).obuf ++ ns ++ tail ∧
        (tail = [] ∨ tail = [Notif.unschedule]) ∧
        ns.map Notif.content =
          (ps.take slots).map (fun p => some (p.retain, p.payload, none)) ++
          live.map (fun e => some (e.1.retain, e.1.payload, some e.2))) := by
  rw [forwardDeviceData_eq_rp2] at h
  simp only [hc] at h
  have hf := fwdReq_fields (fwdGroup s req) req
  split at h
  · simp only [Except.ok.injEq, Prod.mk.injEq] at h; obtain ⟨rfl, _, rfl⟩ := h
    exact .inl ⟨rfl, rfl⟩
  · split at h
    · simp at h
    · rename_i s1 rp slots' hr
      obtain ⟨h1, _, hcase⟩ := fwdRetained_spec hr
      rcases hcase with ⟨hff, _, _⟩ | ⟨_, ps, hrr, hrp⟩
      · rw [hf.1, hfr] at hff; cases hff
      · rw [hf.2.1] at hrr
        refine .inr ⟨s1, ps, fwdSlots s c (fwdGroup s req) (fwdReq (fwdGroup s req) req), hrr, ?_⟩
        have hl : ∀ l, getLink s1 l = getLink s l := fun l => by
          unfold getLink; rw [show s1.links = s.links from congrArg State.links h1]
        rcases fwdRead_obuf h with rfl | ⟨fd, ns, tail, _, e, ht, hcont⟩
        · exact .inl (by rw [hl])
        · refine .inr ⟨(fd.log.readv (fwdReq (fwdGroup s req) req).cursor slots').1, ns, tail, by rw [e, hl], ht, ?_⟩
          rw [hcont, hrp]
          simp only [List.map_append, List.map_map, List.map_take]
          rfl

end Router
