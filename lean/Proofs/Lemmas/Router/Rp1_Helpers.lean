/-
The shape (Rp1_Shape.lean) of every non-structural helper of the router model.
-/
import Proofs.Lemmas.Router.Rp1_Shape
import Proofs.Lemmas.Router.Rp1_Decomp
namespace Router

/-- `conns`, `config` and `connectionMap` are untouched -/
def CoreEq (s s' : RState) : Prop :=
  s'.conns = s.conns ∧ s'.config = s.config ∧ s'.connectionMap = s.connectionMap

theorem CoreEq.refl (s : RState) : CoreEq s s := ⟨rfl, rfl, rfl⟩
theorem CoreEq.trans {a b c : RState} (h1 : CoreEq a b) (h2 : CoreEq b c) : CoreEq a c :=
  ⟨h2.1.trans h1.1, h2.2.1.trans h1.2.1, h2.2.2.trans h1.2.2⟩
theorem CoreEq.shape {R : Nat → Conn → Conn → Prop} [ConnRel R] {s s' : RState} (h : CoreEq s s') :
    Shape R s s' := Shape.of_eq h.1 h.2.1 h.2.2
theorem CoreEq.getConn {s s' : RState} (h : CoreEq s s') (j : Nat) : getConn s' j = getConn s j := by
  unfold Router.getConn; rw [h.1]

theorem RO.self {id : Nat} {c c' : Conn} (h1 : c.sameId c') (h2 : c'.out = c.out) : RO id id c c' :=
  ⟨h1, h2, fun h => absurd rfl h⟩
theorem RW.self {id : Nat} {c c' : Conn} (h1 : c.sameId c') : RW id id c c' :=
  ⟨h1, fun h => absurd rfl h⟩

/-! ### scheduler -/

theorem reschedule_shape {s s' : RState} {id : Nat} {r : SchedReason}
    (h : reschedule s id r = .ok s') : Shape RT s s' := by
  unfold reschedule at h
  split at h
  · simp at h
  · rename_i c hc
    split at h
    · simp at h
    · rename_i t woke ht
      simp only [Except.ok.injEq] at h
      subst h
      have := Shape.setConn (R := RT) hc (RT.mk id c t)
      split
      · exact this.congr rfl rfl rfl
      · exact this

theorem track_shape {s s' : RState} {id : Nat} {r : DataRequest}
    (h : track s id r = .ok s') : Shape RT s s' := by
  unfold track at h
  split at h
  · simp at h
  · rename_i c hc
    simp only [Except.ok.injEq] at h
    subst h
    exact Shape.setConn hc (RT.mk id c _)

theorem trackv_shape {s s' : RState} {id : Nat} {rs : List DataRequest}
    (h : trackv s id rs = .ok s') : Shape RT s s' := by
  unfold trackv at h
  split at h
  · simp at h
  · rename_i c hc
    simp only [Except.ok.injEq] at h
    subst h
    exact Shape.setConn hc (RT.mk id c _)

theorem pause_shape {s s' : RState} {id : Nat} {r : PauseReason}
    (h : pause s id r = .ok s') : Shape RT s s' := by
  unfold pause at h
  split at h
  · simp at h
  · split at h
    · simp at h
    · rename_i c hc
      simp only [Except.ok.injEq] at h
      subst h
      have hc' : getConn { s with readyqueue := s.readyqueue.dropLast } id = some c := hc
      exact (Shape.setConn (R := RT) hc' (RT.mk id c _)).congr_left rfl rfl rfl

theorem park_core {s s' : RState} {id : Nat} {r : DataRequest}
    (h : park s id r = .ok s') : CoreEq s s' := by
  unfold park at h
  split at h
  · simp at h
  · simp only [Except.ok.injEq] at h
    subst h
    exact ⟨rfl, rfl, rfl⟩

theorem drainNotifications_shape : ∀ (ns : List (Nat × DataRequest)) {s s' : RState},
    drainNotifications s ns = .ok s' → Shape RT s s'
  | [], s, s', h => by simp only [drainNotifications, Except.ok.injEq] at h; subst h; exact Shape.refl s
  | (id, r) :: rest, s, s', h => by
    simp only [drainNotifications] at h
    split at h
    · simp at h
    · rename_i s1 h1
      split at h
      · simp at h
      · rename_i s2 h2
        exact ((track_shape h1).trans (reschedule_shape h2)).trans (drainNotifications_shape rest h)

/-! ### wake-up of the parked members of a group whose turn moved -/

theorem clearWaiters_core (s : RState) (i : Nat) (fd : FilterData) : CoreEq s (clearWaiters s i fd) := ⟨rfl, rfl, rfl⟩

theorem noteTurn_core (s0 s1 : RState) (req : DataRequest) : CoreEq s1 (noteTurn s0 s1 req) := by
  unfold noteTurn
  split
  · split
    · exact ⟨rfl, rfl, rfl⟩
    · exact CoreEq.refl _
  · exact CoreEq.refl _

theorem wakeParked_shape {s s' : RState} {logs : List Nat} (h : wakeParked s logs = .ok s') : Shape RT s s' :=
  wakeParked_rel (Shape RT) Shape.refl (fun _ _ _ => Shape.trans)
    (fun s i fd _ => (clearWaiters_core s i fd).shape) (fun _ _ ns h => drainNotifications_shape ns h) h

theorem wakeTurnMoved_shape {s s' : RState} (h : wakeTurnMoved s = .ok s') : Shape RT s s' :=
  wakeTurnMoved_rel (Shape RT) Shape.refl (fun _ _ _ => Shape.trans)
    (fun s i fd _ => (clearWaiters_core s i fd).shape) (fun _ _ ns h => drainNotifications_shape ns h)
    (fun _ => Shape.of_eq rfl rfl rfl) h

/-! ### datalog -/

theorem dlMatches_core {s s' : RState} {topic : String} {v : List Nat}
    (h : dlMatches s topic = .ok (s', v)) : CoreEq s s' := by
  unfold dlMatches at h
  split at h
  · simp only [Except.ok.injEq, Prod.mk.injEq] at h; obtain ⟨rfl, _⟩ := h; exact CoreEq.refl _
  · split at h
    · simp only [] at h
      split at h
      · simp only [Except.ok.injEq, Prod.mk.injEq] at h; obtain ⟨rfl, _⟩ := h; exact ⟨rfl, rfl, rfl⟩
      · simp at h
    · simp at h

theorem appendToFilter_core {s s' : RState} {idx : Nat} {p : Pub}
    (h : appendToFilter s idx p = .ok s') : CoreEq s s' := by
  unfold appendToFilter at h
  split at h
  · simp at h
  · simp only [Except.ok.injEq] at h
    subst h
    split <;> exact ⟨rfl, rfl, rfl⟩

theorem appendToFilters_core : ∀ (idxs : List Nat) {s s' : RState} {p : Pub},
    appendToFilters s idxs p = .ok s' → CoreEq s s'
  | [], s, s', p, h => by simp only [appendToFilters, Except.ok.injEq] at h; subst h; exact CoreEq.refl _
  | i :: is, s, s', p, h => by
    simp only [appendToFilters] at h
    split at h
    · simp at h
    · rename_i s1 h1
      exact (appendToFilter_core h1).trans (appendToFilters_core is h)

theorem updateRetained_core (s : RState) (topic : String) (p : Pub) : CoreEq s (updateRetained s topic p) := by
  unfold updateRetained
  split
  · exact ⟨rfl, rfl, rfl⟩
  · split <;> exact ⟨rfl, rfl, rfl⟩

theorem nextNativeOffset_core (s : RState) (filter : String) : CoreEq s (nextNativeOffset s filter).1 := by
  unfold nextNativeOffset
  split <;> exact ⟨rfl, rfl, rfl⟩

theorem readRetained_core {s s' : RState} {f : String} {ps : List Pub}
    (h : readRetained s f = .ok (s', ps)) : CoreEq s s' := by
  unfold readRetained at h
  simp only [] at h
  split at h
  · split at h
    · simp only [Except.ok.injEq, Prod.mk.injEq] at h; obtain ⟨rfl, _⟩ := h; exact ⟨rfl, rfl, rfl⟩
    · simp at h
  · simp at h

theorem updateNextClient_core {s s' : RState} {g g' : SharedGroup}
    (h : updateNextClient s g = .ok (s', g')) : CoreEq s s' := by
  unfold updateNextClient at h
  split at h
  · simp only [Except.ok.injEq, Prod.mk.injEq] at h; obtain ⟨rfl, _⟩ := h; exact CoreEq.refl _
  · split at h
    · simp at h
    · simp only [Except.ok.injEq, Prod.mk.injEq] at h; obtain ⟨rfl, _⟩ := h; exact CoreEq.refl _
  · split at h
    · simp at h
    · split at h
      · split at h
        · simp only [Except.ok.injEq, Prod.mk.injEq] at h; obtain ⟨rfl, _⟩ := h; exact ⟨rfl, rfl, rfl⟩
        · simp at h
      · simp at h

/-! ### acks -/

theorem commitAck_shape {s s' : RState} {id : Nat} {a : Ack}
    (h : commitAck s id a = .ok s') : Shape (RO id) s s' := by
  unfold commitAck at h
  split at h
  · simp at h
  · rename_i c hc
    simp only [Except.ok.injEq] at h
    subst h
    exact Shape.of_set hc rfl rfl rfl (RO.self ⟨rfl, rfl, rfl, rfl⟩ rfl)

theorem ackDeviceData_shape (s : RState) (id : Nat) : Shape (RO id) s (ackDeviceData s id) := by
  unfold ackDeviceData
  split
  · exact Shape.refl s
  · rename_i c hc
    split
    · exact Shape.refl s
    · exact Shape.of_set hc rfl rfl rfl (RO.self ⟨rfl, rfl, rfl, rfl⟩ rfl)

/-! ### publish path -/

/-- the tail shared by `append_to_commitlog` and `handle_last_will` -/
theorem appendTail_core {s1 s' : RState} {g : Ghost} {topic : String} {p p' : Pub}
    (h : (match dlMatches ((updateRetained s1 topic p).g g) topic with
      | Except.error e => Except.error e
      | Except.ok (s, idxs) =>
        match appendToFilters s idxs p' with
        | Except.error e => Except.error e
        | Except.ok s => (Except.ok s : M RState)) = Except.ok s') : CoreEq s1 s' := by
  split at h
  · simp at h
  · rename_i s2 idxs h2
    split at h
    · simp at h
    · rename_i s3 h3
      simp only [Except.ok.injEq] at h; subst h
      have a : CoreEq s1 ((updateRetained s1 topic p).g g) := updateRetained_core s1 topic p
      exact (a.trans (dlMatches_core h2)).trans (appendToFilters_core idxs h3)

theorem appendToCommitlog_shape {s s' : RState} {id : Nat} {p : Pub} {e : Option AppendErr}
    (h : appendToCommitlog s id p = .ok (s', e)) : Shape (RO id) s s' := by
  unfold appendToCommitlog at h
  split at h
  · simp at h
  · rename_i c hc
    simp only [] at h
    split at h
    · simp only [Except.ok.injEq, Prod.mk.injEq] at h; obtain ⟨rfl, _⟩ := h; exact Shape.refl _
    · split at h
      · simp only [Except.ok.injEq, Prod.mk.injEq] at h; obtain ⟨rfl, _⟩ := h; exact Shape.refl _
      · rename_i s1 p1 hr
        have h1 : Shape (RO id) s s1 := by
          split at hr
          · simp only [Except.ok.injEq, Prod.mk.injEq] at hr; obtain ⟨rfl, _⟩ := hr; exact Shape.refl _
          · split at hr
            · simp at hr
            · split at hr
              · split at hr
                · simp at hr
                · simp only [Except.ok.injEq, Prod.mk.injEq] at hr; obtain ⟨rfl, _⟩ := hr; exact Shape.refl _
              · split at hr
                · simp at hr
                · simp only [Except.ok.injEq, Prod.mk.injEq] at hr; obtain ⟨rfl, _⟩ := hr
                  exact Shape.of_set hc rfl rfl rfl (RO.self ⟨rfl, rfl, rfl, rfl⟩ rfl)
        refine h1.trans ?_
        split at h
        · simp only [Except.ok.injEq, Prod.mk.injEq] at h; obtain ⟨rfl, _⟩ := h; exact Shape.refl _
        · rename_i topic ht
          split at h
          · simp at h
          · rename_i s2 idxs h2
            split at h
            · simp at h
            · rename_i s3 h3
              simp only [Except.ok.injEq, Prod.mk.injEq] at h; obtain ⟨rfl, _⟩ := h
              have a : CoreEq s1 ((updateRetained s1 topic p1).g (Ghost.accepted (some id) p1 topic)) :=
                updateRetained_core s1 topic p1
              exact ((a.trans (dlMatches_core h2)).trans (appendToFilters_core idxs h3)).shape

/-! ### subscribe / unsubscribe -/

theorem pfTail_shape {s s' : RState} {id : Nat} (h : pfTail s id = .ok s') : Shape RT s s' := by
  unfold pfTail at h
  split at h
  · simp at h
  · rename_i s1 h1
    have := reschedule_shape h1
    split at h
    · simp only [Except.ok.injEq] at h; subst h; exact this
    · split at h
      · simp only [Except.ok.injEq] at h; subst h; exact this
      · simp at h

theorem pfConn_rel (id : Nat) (c : Conn) (path : String) (subId : Option Nat) : RO id id c (pfConn c path subId) := by
  cases subId <;> exact RO.self ⟨rfl, rfl, rfl, rfl⟩ rfl

theorem prepareFilter_shape {s s' : RState} {id : Nat} {cursor : Cursor} {idx : Nat} {f : SubFilter}
    {group : Option String} {subId : Option Nat}
    (h : prepareFilter s id cursor idx f group subId = .ok s') : Shape (RO id) s s' := by
  rw [prepareFilter_eq] at h
  split at h
  · simp at h
  · rename_i c hc
    simp only [] at h
    have hr := pfConn_rel id c f.path subId
    split at h
    · simp only [Except.ok.injEq] at h; subst h
      exact Shape.of_set hc rfl rfl rfl hr
    · split at h
      · simp at h
      · rename_i s2 h2
        have a : Shape (RO id) s (setConn ((pfState s id cursor f.path group c.clientId).g
            (.subscribed id f.path f.qos idx cursor group true)) id
            { pfConn c f.path subId with subscriptions := c.subscriptions ++ [f.path] }) :=
          Shape.of_set hc rfl rfl rfl ⟨hr.1, hr.2.1, fun h => absurd rfl h⟩
        exact (a.trans ((track_shape h2).mono fun _ _ _ => RT.toRO)).trans ((pfTail_shape h).mono fun _ _ _ => RT.toRO)

theorem subscribeFilters_shape {id : Nat} {subId : Option Nat} : ∀ (fs : List SubFilter) {s s' : RState}
    {codes codes' : List Nat} {fl fl' : Flags},
    subscribeFilters s id subId fs codes fl = .ok (s', codes', fl') → Shape (RO id) s s'
  | [], s, s', codes, codes', fl, fl', h => by
    simp only [subscribeFilters, Except.ok.injEq, Prod.mk.injEq] at h
    obtain ⟨rfl, _⟩ := h; exact Shape.refl _
  | f :: rest, s, s', codes, codes', fl, fl', h => by
    rw [subscribeFilters_cons] at h
    split at h
    · simp only [Except.ok.injEq, Prod.mk.injEq] at h; obtain ⟨rfl, _⟩ := h; exact Shape.refl _
    · split at h
      · simp only [Except.ok.injEq, Prod.mk.injEq] at h; obtain ⟨rfl, _⟩ := h; exact Shape.refl _
      · simp only [] at h
        split at h
        · simp at h
        · rename_i s1 h1
          have a : Shape (RO id) s (nextNativeOffset s (sfFilter f.path)).1 := (nextNativeOffset_core s _).shape
          exact (a.trans (prepareFilter_shape h1)).trans (subscribeFilters_shape rest h)

theorem RU.self {id : Nat} {c c' : Conn} (h1 : c.sameId c') (h2 : c.out.forgot c'.out) : RU id id c c' :=
  ⟨h1, h2, fun h => absurd rfl h⟩

/-- UNSUBSCRIBE of one filter: the window of `id` may forget cursors (`unsubOut`), nothing else
    of the `RO` shape changes -/
theorem ufState_shape {s : RState} {id : Nat} {ids : List Nat} {c : Conn} {f : String}
    (hc : getConn s id = some c) : Shape (RU id) s (ufState s id ids c f) :=
  Shape.of_set hc rfl rfl rfl (RU.self ⟨rfl, rfl, rfl, rfl⟩ (unsubOut_spec _ _ _ _))

theorem unsubscribeFilters_shape {id : Nat} : ∀ (fs : List String) {s s' : RState} {rs rs' : List Bool},
    unsubscribeFilters s id fs rs = .ok (s', rs') → Shape (RU id) s s'
  | [], s, s', rs, rs', h => by
    simp only [unsubscribeFilters, Except.ok.injEq, Prod.mk.injEq] at h
    obtain ⟨rfl, _⟩ := h; exact Shape.refl _
  | f :: rest, s, s', rs, rs', h => by
    rw [unsubscribeFilters_cons] at h
    split at h
    · exact unsubscribeFilters_shape rest h
    · split at h
      · exact unsubscribeFilters_shape rest h
      · split at h
        · simp at h
        · rename_i c hc
          split at h
          · exact Shape.congr_left (unsubscribeFilters_shape rest h) rfl rfl rfl
          · exact (ufState_shape hc).trans (unsubscribeFilters_shape rest h)

end Router
