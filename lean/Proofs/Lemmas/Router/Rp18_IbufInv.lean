/-
C20 (round 12): the frame pass over the links' INCOMING buffers. `IbufSub s s'`: every packet waiting in a
link's incoming buffer after was waiting in that link's incoming buffer before. Every router function keeps it
except the link-side push (`step (.push l p)`, which appends `p`); `handle_new_connection` starts from a fresh
empty link, `handle_device_payload` takes the batch out. Hence `IbufOk` (every waiting packet is `PacketOk`) is
kept by every step whose op is in range (`OpOkC`), and `IbufOk` and `ConnsOk` hold after every run whose ops
are all in range (`OpsOk`).
-/
import Proofs.Lemmas.Router.Rp17_EmittableInv
import Proofs.Lemmas.Router.Rp2_Consume
import Proofs.Lemmas.Router.Rp2_Payload
import Proofs.Lemmas.Router.Rp2_Subs
namespace Router

/-- every packet waiting in a link's incoming buffer in `s'` was waiting in that link's buffer in `s` -/
def IbufSub (s s' : RState) : Prop := ∀ l, ∀ p ∈ (getLink s' l).ibuf, p ∈ (getLink s l).ibuf

theorem IbufSub.refl (s : RState) : IbufSub s s := fun _ _ h => h

theorem IbufSub.trans {a b c : RState} (h1 : IbufSub a b) (h2 : IbufSub b c) : IbufSub a c :=
  fun l p h => h1 l p (h2 l p h)

theorem IbufSub.of_links {s s' : RState} (h : s'.links = s.links) : IbufSub s s' := fun l p hp => by
  rw [getLink_of_links h] at hp; exact hp

theorem IbufSub.of_frame {s s' : RState} (h : AckFrame s s') : IbufSub s s' := IbufSub.of_links h.links

theorem IbufSub.of_toState {s s' : RState} (h : s'.toState = s.toState) : IbufSub s s' :=
  IbufSub.of_links (congrArg State.links h)

/-- `setLink` with a buffer whose incoming part is contained in the old one -/
theorem IbufSub.setLink (s : RState) (l : Nat) (b : LinkBuf) (h : ∀ p ∈ b.ibuf, p ∈ (getLink s l).ibuf) :
    IbufSub s (setLink s l b) := by
  intro l' p hp
  by_cases hl : l' = l
  · subst hl; rw [getLink_setLink_same] at hp; exact h p hp
  · rw [getLink_setLink_ne _ _ _ _ hl] at hp; exact hp

theorem IbufSub.pushNotifs (s : RState) (l : Nat) (ns : List Notif) : IbufSub s (pushNotifs s l ns) := by
  unfold Router.pushNotifs
  exact IbufSub.setLink _ _ _ (fun _ hp => hp)

theorem IbufSub.wakeLink (s : RState) (l : Nat) : IbufSub s (wakeLink s l) := by
  unfold Router.wakeLink
  refine IbufSub.setLink _ _ _ (fun p hp => ?_)
  unfold LinkBuf.wake at hp
  split at hp <;> exact hp

theorem IbufSub.setConn (s : RState) (id : Nat) (c : Conn) : IbufSub s (setConn s id c) := IbufSub.of_links rfl

theorem IbufSub.g (s : RState) (e : Ghost) : IbufSub s (s.g e) := IbufSub.of_links rfl

/-- `IbufOk` goes along `IbufSub` -/
theorem IbufOk.sub {s s' : RState} (h : IbufOk s) (hs : IbufSub s s') : IbufOk s' :=
  fun l p hp => h l p (hs l p hp)

/-! ### scheduler, wake-ups -/

theorem reschedule_ibufSub {s s' : RState} {id : Nat} {r : SchedReason} (h : reschedule s id r = .ok s') :
    IbufSub s s' := IbufSub.of_frame (reschedule_frame h)

theorem track_ibufSub {s s' : RState} {id : Nat} {r : DataRequest} (h : track s id r = .ok s') : IbufSub s s' :=
  IbufSub.of_frame (track_frame h)

theorem trackv_ibufSub {s s' : RState} {id : Nat} {rs : List DataRequest} (h : trackv s id rs = .ok s') :
    IbufSub s s' := IbufSub.of_frame (trackv_frame h)

theorem pause_ibufSub {s s' : RState} {id : Nat} {r : PauseReason} (h : pause s id r = .ok s') : IbufSub s s' :=
  IbufSub.of_frame (pause_frame h)

theorem park_ibufSub {s s' : RState} {id : Nat} {r : DataRequest} (h : park s id r = .ok s') : IbufSub s s' :=
  IbufSub.of_frame (park_frame h)

theorem drainNotifications_ibufSub {s s' : RState} {ns : List (Nat × DataRequest)}
    (h : drainNotifications s ns = .ok s') : IbufSub s s' := IbufSub.of_frame (drainNotifications_frame ns h)

theorem wakeParked_ibufSub {s s' : RState} {logs : List Nat} (h : wakeParked s logs = .ok s') : IbufSub s s' :=
  IbufSub.of_links (wakeParked_wakeFrame h).links

theorem wakeTurnMoved_ibufSub {s s' : RState} (h : wakeTurnMoved s = .ok s') : IbufSub s s' :=
  IbufSub.of_frame (wakeTurnMoved_frame h)

theorem noteTurn_ibufSub (s0 s1 : RState) (req : DataRequest) : IbufSub s1 (noteTurn s0 s1 req) :=
  IbufSub.of_frame (noteTurn_frame s0 s1 req)

/-! ### datalog -/

theorem dlMatches_ibufSub {s s' : RState} {topic : String} {v : List Nat} (h : dlMatches s topic = .ok (s', v)) :
    IbufSub s s' := IbufSub.of_frame (dlMatches_frame h)

theorem nextNativeOffset_ibufSub (s : RState) (filter : String) : IbufSub s (nextNativeOffset s filter).1 :=
  IbufSub.of_frame (nextNativeOffset_frame s filter)

theorem appendToFilter_ibufSub {s s' : RState} {idx : Nat} {p : Pub} (h : appendToFilter s idx p = .ok s') :
    IbufSub s s' := IbufSub.of_frame (appendToFilter_frame h)

theorem appendToFilters_ibufSub {s s' : RState} {idxs : List Nat} {p : Pub} (h : appendToFilters s idxs p = .ok s') :
    IbufSub s s' := IbufSub.of_frame (appendToFilters_frame idxs h)

theorem updateRetained_ibufSub (s : RState) (topic : String) (p : Pub) : IbufSub s (updateRetained s topic p) :=
  IbufSub.of_frame (updateRetained_frame s topic p)

theorem appendToCommitlog_ibufSub {s s' : RState} {id : Nat} {p : Pub} {e : Option AppendErr}
    (h : appendToCommitlog s id p = .ok (s', e)) : IbufSub s s' := IbufSub.of_frame (appendToCommitlog_frame h)

theorem readRetained_ibufSub {s s' : RState} {filter : String} {ps : List Pub}
    (h : readRetained s filter = .ok (s', ps)) : IbufSub s s' := IbufSub.of_toState (readRetained_toState h).1

theorem updateNextClient_ibufSub {s s' : RState} {g g' : SharedGroup} (h : updateNextClient s g = .ok (s', g')) :
    IbufSub s s' := IbufSub.of_toState (updateNextClient_toState h).1

/-! ### packets -/

theorem commitAck_ibufSub {s s' : RState} {id : Nat} {a : Ack} (h : commitAck s id a = .ok s') : IbufSub s s' := by
  unfold commitAck at h
  split at h
  · simp at h
  · simp only [Except.ok.injEq] at h; subst h; exact IbufSub.of_links rfl

theorem prepareFilter_ibufSub {s s' : RState} {id : Nat} {cursor : Cursor} {idx : Nat} {f : SubFilter}
    {group : Option String} {subId : Option Nat} (h : prepareFilter s id cursor idx f group subId = .ok s') :
    IbufSub s s' := IbufSub.of_frame (prepareFilter_frame h)

theorem subscribeFilters_ibufSub {id : Nat} {subId : Option Nat} {fs : List SubFilter} {s s' : RState}
    {codes codes' : List Nat} {fl fl' : Flags} (h : subscribeFilters s id subId fs codes fl = .ok (s', codes', fl')) :
    IbufSub s s' := IbufSub.of_frame (subscribeFilters_frame id subId fs h)

theorem unsubscribeFilters_ibufSub {id : Nat} {fs : List String} {s s' : RState} {rs rs' : List Bool}
    (h : unsubscribeFilters s id fs rs = .ok (s', rs')) : IbufSub s s' :=
  IbufSub.of_frame (unsubscribeFilters_frame id fs h).1

/-- one packet: the link buffers are untouched -/
theorem handlePacket_ibufSub {s s' : RState} {id : Nat} {cid : String} {pkt : Packet} {fl fl' : Flags}
    (h : handlePacket s id cid pkt fl = .ok (s', fl')) : IbufSub s s' := by
  obtain ⟨_, _, ha, _⟩ := handlePacket_reply h
  exact IbufSub.of_links ha.links

theorem handlePackets_ibufSub {id : Nat} {cid : String} {ps : List Packet} {s s' : RState} {fl fl' : Flags}
    (h : handlePackets s id cid ps fl = .ok (s', fl')) : IbufSub s s' := by
  obtain ⟨_, _, _, _, ha, _⟩ := handlePackets_replies id cid ps h
  exact IbufSub.of_links ha.links

/-! ### `handle_disconnection` -/

theorem hdNotify_ibufSub (s : RState) (c : Conn) (r : Option String) : IbufSub s (hdNotify s c r) := by
  cases r with
  | none => exact IbufSub.refl _
  | some r => exact (IbufSub.pushNotifs _ _ _).trans (IbufSub.wakeLink _ _)

theorem hdFinal_ibufSub (s : RState) (id : Nat) (c : Conn) (r : Option String) : IbufSub s (hdFinal s id c r) :=
  (hdNotify_ibufSub s c r).trans (IbufSub.of_links (hdFinal_fields s id c r).2.2.2.2.2.1)

theorem handleDisconnection_ibufSub {s s' : RState} {id : Nat} {r : Option String}
    (h : handleDisconnection s id r = .ok s') : IbufSub s s' := by
  rw [Router.handleDisconnection_eq] at h
  split at h
  · simp only [Except.ok.injEq] at h; subst h; exact IbufSub.refl _
  · rename_i c hc
    exact (hdFinal_ibufSub s id c r).trans (wakeParked_ibufSub h)

/-! ### `handle_new_connection` -/

theorem ghostFold_links (f : Ack → Ghost) : ∀ (acks : List Ack) (s : RState),
    (acks.foldl (fun s a => s.g (f a)) s).links = s.links
  | [], _ => rfl
  | a :: r, s => by simp only [List.foldl_cons]; rw [ghostFold_links f r]; rfl

theorem hnPre_links_eq (s : RState) (spec : ConnectSpec) : (hnPre s spec).links = s.links := by
  unfold hnPre
  simp only []
  rw [ghostFold_links]
  unfold hnWill
  split <;> (split <;> rfl)

theorem hnTakeover_ibufSub {s s' : RState} {spec : ConnectSpec} (h : hnTakeover s spec = .ok s') : IbufSub s s' := by
  unfold hnTakeover at h
  split at h
  · exact handleDisconnection_ibufSub h
  · simp only [Except.ok.injEq] at h; subst h; exact IbufSub.refl _

theorem hnRegister_ibufSub {s s' : RState} {spec : ConnectSpec} (h : hnRegister s spec = .ok s') : IbufSub s s' := by
  obtain ⟨_, hre⟩ := hnRegister_ok h
  exact (IbufSub.of_links (hnPre_links_eq s spec)).trans (reschedule_ibufSub hre)

/-- CONNECT: the link starts with fresh, empty buffers -/
theorem handleNewConnection_ibufSub {s s' : RState} {spec : ConnectSpec} (h : handleNewConnection s spec = .ok s') :
    IbufSub s s' := by
  rw [Router.handleNewConnection_eq] at h
  simp only [] at h
  have s0 : IbufSub s (Router.setLink s spec.link {}) := IbufSub.setLink _ _ _ (fun p hp => by cases hp)
  split at h
  · simp only [Except.ok.injEq] at h; subst h
    exact s0.trans (IbufSub.g _ _)
  · split at h
    · simp at h
    · rename_i s1 h1
      have t1 := s0.trans (hnTakeover_ibufSub h1)
      split at h
      · simp only [Except.ok.injEq] at h; subst h
        exact t1.trans (IbufSub.g _ _)
      · exact t1.trans (hnRegister_ibufSub h)

/-! ### `handle_device_payload` -/

/-- DeviceData: the batch is taken out of the connection's link, nothing is put in -/
theorem handleDevicePayload_ibufSub {s s' : RState} {id : Nat} (h : handleDevicePayload s id = .ok s') :
    IbufSub s s' := by
  unfold handleDevicePayload at h
  split at h
  · simp only [Except.ok.injEq] at h; subst h; exact IbufSub.refl _
  · rename_i c hc
    simp only [] at h
    have q0 : IbufSub s (Router.setLink s c.link { getLink s c.link with ibuf := [] }) :=
      IbufSub.setLink _ _ _ (fun p hp => by cases hp)
    split at h
    · simp at h
    · rename_i s1 fl h1
      have q1 := q0.trans (handlePackets_ibufSub h1)
      split at h
      · simp at h
      · rename_i s2 h2
        have q2 : IbufSub s s2 := by
          split at h2
          · exact q1.trans (reschedule_ibufSub h2)
          · simp only [Except.ok.injEq] at h2; subst h2; exact q1
        split at h
        · simp at h
        · rename_i s3 h3
          have q3 : IbufSub s s3 := by
            split at h3
            · exact (q2.trans (IbufSub.of_links (s' := { s2 with notifications := [] }) rfl)).trans
                (drainNotifications_ibufSub h3)
            · simp only [Except.ok.injEq] at h3; subst h3; exact q2
          split at h
          · simp at h
          · rename_i s4 h4
            have q4 := q3.trans (wakeTurnMoved_ibufSub h4)
            split at h
            · exact q4.trans (handleDisconnection_ibufSub h)
            · simp only [Except.ok.injEq] at h; subst h; exact q4

/-! ### `consume` -/

theorem fwdRetained_ibufSub {s s1 : RState} {req : DataRequest} {slots slots' : Nat}
    {rp : List (Pub × Option Cursor)} (h : fwdRetained s req slots = .ok (s1, rp, slots')) : IbufSub s s1 :=
  IbufSub.of_toState (fwdRetained_spec h).1

theorem fwdAdvance_ibufSub {s s' : RState} {req : DataRequest} {grp : Option SharedGroup}
    (h : fwdAdvance s req grp = .ok s') : IbufSub s s' := IbufSub.of_links (fwdAdvance_spec h).links

theorem fwdPush_ibufSub {s s' : RState} {id : Nat} {c : Conn} {req req' : DataRequest} {grp : Option SharedGroup}
    {publishes : List (Pub × Option Cursor)} {caughtup : Bool} {st : ConsumeStatus}
    (h : fwdPush s id c req grp publishes caughtup = .ok (s', req', st)) : IbufSub s s' := by
  unfold fwdPush at h
  simp only [] at h
  split at h
  · simp at h
  · rename_i s3 hadv
    have f2 : IbufSub s s3 :=
      ((IbufSub.setConn s id _).trans (IbufSub.pushNotifs _ _ _)).trans (fwdAdvance_ibufSub hadv)
    split at h
    · simp only [Except.ok.injEq, Prod.mk.injEq] at h; obtain ⟨rfl, _, _⟩ := h
      exact (f2.trans (IbufSub.pushNotifs _ _ _)).trans (IbufSub.wakeLink _ _)
    · simp only [Except.ok.injEq, Prod.mk.injEq] at h; obtain ⟨rfl, _, _⟩ := h
      exact f2.trans (IbufSub.wakeLink _ _)

theorem fwdRead_ibufSub {s s' : RState} {id : Nat} {c : Conn} {req req' : DataRequest} {grp : Option SharedGroup}
    {rp : List (Pub × Option Cursor)} {slots : Nat} {st : ConsumeStatus}
    (h : fwdRead s id c req grp rp slots = .ok (s', req', st)) : IbufSub s s' := by
  unfold fwdRead at h
  simp only [] at h
  split at h
  · simp at h
  · split at h
    · simp only [Except.ok.injEq, Prod.mk.injEq] at h; obtain ⟨rfl, _, _⟩ := h; exact IbufSub.refl _
    · split at h
      · simp only [Except.ok.injEq, Prod.mk.injEq] at h; obtain ⟨rfl, _, _⟩ := h; exact IbufSub.refl _
      · exact fwdPush_ibufSub h

/-- one sweep of one request: forwards / unschedule are appended to the OUTGOING buffer of the connection's
    link, the wake token is set; no incoming buffer changes -/
theorem forwardDeviceData_ibufSub {s s' : RState} {id : Nat} {req req' : DataRequest} {st : ConsumeStatus}
    (h : forwardDeviceData s id req = .ok (s', req', st)) : IbufSub s s' := by
  rw [forwardDeviceData_eq_rp2] at h
  split at h
  · simp at h
  · simp only [] at h
    split at h
    · simp only [Except.ok.injEq, Prod.mk.injEq] at h; obtain ⟨rfl, _, _⟩ := h; exact IbufSub.refl _
    · split at h
      · simp at h
      · rename_i s1 rp slots hr
        exact (fwdRetained_ibufSub hr).trans (fwdRead_ibufSub h)

theorem ackDeviceData_ibufSub (s : RState) (id : Nat) : IbufSub s (ackDeviceData s id) := by
  unfold ackDeviceData
  split
  · exact IbufSub.refl _
  · simp only []
    split
    · exact IbufSub.refl _
    · exact ((IbufSub.pushNotifs _ _ _).trans (IbufSub.wakeLink _ _)).trans (IbufSub.setConn _ _ _)

/-- the request loop of one sweep -/
theorem consumeLoop_ibufSub (id : Nat) : ∀ (fuel : Nat) (reqs skipped : List DataRequest) {s s' : RState},
    consumeLoop s id fuel reqs skipped = .ok s' → IbufSub s s'
  | 0, reqs, skipped, s, s', h => by
    simp only [consumeLoop] at h
    exact trackv_ibufSub h
  | fuel + 1, [], skipped, s, s', h => by
    simp only [consumeLoop] at h
    split at h
    · simp at h
    · rename_i s1 h1
      have f1 : IbufSub s s1 := by
        split at h1
        · exact pause_ibufSub h1
        · simp only [Except.ok.injEq] at h1; subst h1; exact IbufSub.refl _
      exact f1.trans (trackv_ibufSub h)
  | fuel + 1, req :: rest, skipped, s, s', h => by
    simp only [consumeLoop] at h
    split at h
    · simp at h
    · rename_i s1 req1 st hf
      have f1 : IbufSub s (noteTurn s s1 req1) := (forwardDeviceData_ibufSub hf).trans (noteTurn_ibufSub s s1 req1)
      cases st with
      | bufferFull =>
        simp only [] at h
        split at h
        · simp at h
        · rename_i s2 h2
          exact (f1.trans (pause_ibufSub h2)).trans (trackv_ibufSub h)
      | inflightFull =>
        simp only [] at h
        split at h
        · simp at h
        · rename_i s2 h2
          exact (f1.trans (pause_ibufSub h2)).trans (trackv_ibufSub h)
      | filterCaughtup =>
        simp only [] at h
        split at h
        · simp at h
        · rename_i s2 h2
          exact (f1.trans (park_ibufSub h2)).trans (consumeLoop_ibufSub id fuel rest skipped h)
      | partialRead =>
        simp only [] at h
        exact f1.trans (consumeLoop_ibufSub id fuel _ skipped h)
      | skipRequest =>
        simp only [] at h
        exact f1.trans (consumeLoop_ibufSub id fuel rest _ h)

/-- `consume()`: the flush, every sweep of every request of the served connection, the wake-ups -/
theorem consume_ibufSub {s s' : RState} {b : Bool} (h : consume s = .ok (s', b)) : IbufSub s s' := by
  unfold consume at h
  split at h
  · simp only [Except.ok.injEq, Prod.mk.injEq] at h; obtain ⟨rfl, _⟩ := h; exact IbufSub.of_links rfl
  · simp only [] at h
    split at h
    · simp only [Except.ok.injEq, Prod.mk.injEq] at h; obtain ⟨rfl, _⟩ := h; exact IbufSub.of_links rfl
    · split at h
      · simp at h
      · rename_i s2 hloop
        split at h
        · simp at h
        · rename_i s3 hw
          simp only [Except.ok.injEq, Prod.mk.injEq] at h; obtain ⟨rfl, _⟩ := h
          refine IbufSub.trans ?_ (wakeTurnMoved_ibufSub hw)
          refine IbufSub.trans ?_ (consumeLoop_ibufSub _ _ _ _ hloop)
          refine IbufSub.trans ?_ (ackDeviceData_ibufSub _ _)
          exact IbufSub.of_links rfl

/-! ### will, shadow -/

theorem handleLastWill_ibufSub {s s' : RState} {cid : String} (h : handleLastWill s cid = .ok s') : IbufSub s s' := by
  unfold handleLastWill at h
  split at h
  · simp only [Except.ok.injEq] at h; subst h; exact IbufSub.refl _
  · simp only [] at h
    split at h
    · simp only [Except.ok.injEq] at h; subst h; exact IbufSub.of_links rfl
    · rename_i topic ht
      split at h
      · simp at h
      · rename_i s2 idxs h2
        split at h
        · simp at h
        · rename_i s3 h3
          refine IbufSub.trans ?_ (drainNotifications_ibufSub h)
          refine IbufSub.trans ?_ (IbufSub.of_links (s := s3) rfl)
          refine IbufSub.trans ?_ (appendToFilters_ibufSub h3)
          refine IbufSub.trans ?_ (dlMatches_ibufSub h2)
          refine IbufSub.trans ?_ (IbufSub.g _ _)
          refine IbufSub.trans ?_ (updateRetained_ibufSub _ _ _)
          exact IbufSub.of_links rfl

theorem handleShadow_ibufSub {s s' : RState} {id : Nat} {f : String} (h : handleShadow s id f = .ok s') :
    IbufSub s s' := by
  unfold handleShadow at h
  split at h
  · simp only [Except.ok.injEq] at h; subst h; exact IbufSub.refl _
  · split at h
    · simp only [Except.ok.injEq] at h; subst h; exact IbufSub.refl _
    · split at h
      · simp only [Except.ok.injEq] at h; subst h; exact IbufSub.refl _
      · simp only [Except.ok.injEq] at h; subst h
        refine IbufSub.trans ?_ (IbufSub.wakeLink _ _)
        split
        · exact (IbufSub.pushNotifs _ _ _).trans (IbufSub.pushNotifs _ _ _)
        · exact IbufSub.pushNotifs _ _ _

/-! ### events, ops -/

theorem events_ibufSub {s s' : RState} {id : Nat} {ev : Event} (h : events s id ev = .ok s') : IbufSub s s' := by
  cases ev with
  | deviceData => exact handleDevicePayload_ibufSub h
  | ready =>
    simp only [events] at h
    split at h
    · exact reschedule_ibufSub h
    · simp only [Except.ok.injEq] at h; subst h; exact IbufSub.refl _
  | disconnect => exact handleDisconnection_ibufSub (id := id) (r := none) h
  | publishWill w => exact handleLastWill_ibufSub (cid := w) h
  | shadow f => exact handleShadow_ibufSub (id := id) (f := f) h
  | sendMeters => simp only [events, Except.ok.injEq] at h; subst h; exact IbufSub.refl _
  | sendAlerts => simp only [events, Except.ok.injEq] at h; subst h; exact IbufSub.refl _

/-- every op other than a link-side push keeps `IbufSub` -/
theorem step_ibufSub {s s' : RState} {op : Op} {out : Out} (hnp : ∀ l p, op ≠ .push l p)
    (hs : step s op = .ok (s', out)) : IbufSub s s' := by
  cases op with
  | push l p => exact absurd rfl (hnp l p)
  | connect spec =>
    cases step_cases hs with
    | connect _ hc => exact handleNewConnection_ibufSub hc
  | event id ev =>
    cases step_cases hs with
    | event _ _ he => exact events_ibufSub he
  | consume =>
    cases step_cases hs with
    | consume b hc => exact consume_ibufSub hc
  | drain l =>
    simp only [step] at hs
    split at hs
    · split at hs
      · simp only [Except.ok.injEq, Prod.mk.injEq] at hs; obtain ⟨rfl, _⟩ := hs
        exact IbufSub.setLink _ _ _ (fun _ hp => hp)
      · simp only [Except.ok.injEq, Prod.mk.injEq] at hs; obtain ⟨rfl, _⟩ := hs; exact IbufSub.refl _
    · simp only [Except.ok.injEq, Prod.mk.injEq] at hs; obtain ⟨rfl, _⟩ := hs; exact IbufSub.refl _

/-- the frame pass in one statement: a packet waiting in a link's incoming buffer after a step was waiting
    there before, or it is the packet the step pushed to that link -/
theorem step_ibuf_cases {s s' : RState} {op : Op} {out : Out} (hs : step s op = .ok (s', out)) :
    ∀ l, ∀ p ∈ (getLink s' l).ibuf, p ∈ (getLink s l).ibuf ∨ op = .push l p := by
  intro l p hp
  cases op with
  | push l0 p0 =>
    simp only [step] at hs
    split at hs
    · simp only [Except.ok.injEq, Prod.mk.injEq] at hs; obtain ⟨rfl, _⟩ := hs
      by_cases hl : l = l0
      · subst hl
        rw [getLink_setLink_same] at hp
        rcases List.mem_append.mp hp with h0 | h0
        · exact .inl h0
        · simp only [List.mem_singleton] at h0; subst h0; exact .inr rfl
      · rw [getLink_setLink_ne _ _ _ _ hl] at hp; exact .inl hp
    · simp only [Except.ok.injEq, Prod.mk.injEq] at hs; obtain ⟨rfl, _⟩ := hs; exact .inl hp
  | connect spec => exact .inl (step_ibufSub (fun _ _ e => by cases e) hs l p hp)
  | event id ev => exact .inl (step_ibufSub (fun _ _ e => by cases e) hs l p hp)
  | consume => exact .inl (step_ibufSub (fun _ _ e => by cases e) hs l p hp)
  | drain l0 => exact .inl (step_ibufSub (fun _ _ e => by cases e) hs l p hp)

/-- one step whose op is in range keeps the packets waiting in the links' incoming buffers in range -/
theorem step_ibufOk {s s' : RState} {op : Op} {out : Out} (hib : IbufOk s) (hop : OpOkC op = true)
    (hs : step s op = .ok (s', out)) : IbufOk s' := by
  intro l p hp
  rcases step_ibuf_cases hs l p hp with h0 | h0
  · exact hib l p h0
  · subst h0; exact hop

/-- the form used by `run`: the op's oracle is installed first -/
theorem step_ibufOk_oracle {s s' : RState} {ch : List Choice} {op : Op} {out : Out} (hib : IbufOk s)
    (hop : OpOkC op = true) (hs : step { s with oracle := ch } op = .ok (s', out)) : IbufOk s' :=
  step_ibufOk (s := { s with oracle := ch }) hib hop hs

/-! ### runs whose ops are all in range -/

/-- every op of the run is in range: pushed packets are `PacketOk`, CONNECTs have `topic_alias_max < 65536` -/
def OpsOk (ops : List (Op × List Choice)) : Prop := ∀ o ∈ ops, OpOkC o.1 = true

theorem OpsOk.nil : OpsOk [] := fun _ h => by cases h

theorem OpsOk.cons {o : Op × List Choice} {ops : List (Op × List Choice)} (h : OpsOk (o :: ops)) :
    OpOkC o.1 = true ∧ OpsOk ops :=
  ⟨h o List.mem_cons_self, fun x hx => h x (List.mem_cons_of_mem _ hx)⟩

theorem OpsOk.append {a b : List (Op × List Choice)} (ha : OpsOk a) (hb : OpsOk b) : OpsOk (a ++ b) := fun o ho => by
  rcases List.mem_append.mp ho with h | h
  · exact ha o h
  · exact hb o h

instance (ops : List (Op × List Choice)) : Decidable (OpsOk ops) :=
  inferInstanceAs (Decidable (∀ o ∈ ops, OpOkC o.1 = true))

theorem init_ibufOk (cfg : Config) : IbufOk (init cfg) :=
  fun l p hp => by simp [getLink, init] at hp

theorem init_connsOk (cfg : Config) : ConnsOk (init cfg) :=
  fun j c h => by simp [getConn, init, Slab.get?] at h

/-- a run in range from a reachable state that satisfies `IbufOk` and `ConnsOk` ends in such a state -/
theorem run_ibufOk_connsOk {cfg : Config} : ∀ (ops : List (Op × List Choice)) {s s' : RState},
    Reachable cfg s → IbufOk s → ConnsOk s → OpsOk ops → run s ops = .ok s' → IbufOk s' ∧ ConnsOk s'
  | [], s, s', _, hi, hc, _, h => by
    simp only [run, Except.ok.injEq] at h; subst h; exact ⟨hi, hc⟩
  | (op, ch) :: rest, s, s', hr, hi, hc, hok, h => by
    simp only [run] at h
    split at h
    · simp at h
    · rename_i s1 out h1
      have hop : OpOkC op = true := hok.cons.1
      exact run_ibufOk_connsOk rest (hr.step h1) (step_ibufOk_oracle hi hop h1) (step_connsOk hr hc hi hop h1)
        hok.cons.2 h

/-- `IbufOk` and `ConnsOk` are invariants of the runs whose ops are all in range -/
theorem reachableOk_ibufOk_connsOk {cfg : Config} {ops : List (Op × List Choice)} {s : RState}
    (h : run (init cfg) ops = .ok s) (hok : OpsOk ops) : IbufOk s ∧ ConnsOk s :=
  run_ibufOk_connsOk ops (reachable_init cfg) (init_ibufOk cfg) (init_connsOk cfg) hok h

/-- reachable by a run whose ops are all in range -/
def ReachableOk (cfg : Config) (s : RState) : Prop := ∃ ops, OpsOk ops ∧ run (init cfg) ops = .ok s

theorem ReachableOk.reachable {cfg : Config} {s : RState} (h : ReachableOk cfg s) : Reachable cfg s := by
  obtain ⟨ops, _, hr⟩ := h; exact ⟨ops, hr⟩

theorem reachableOk_init (cfg : Config) : ReachableOk cfg (init cfg) := ⟨[], OpsOk.nil, rfl⟩

theorem ReachableOk.step {cfg : Config} {s s' : RState} {ch : List Choice} {op : Op} {out : Out}
    (hr : ReachableOk cfg s) (hop : OpOkC op = true) (h : Router.step { s with oracle := ch } op = .ok (s', out)) :
    ReachableOk cfg s' := by
  obtain ⟨ops, hok, hops⟩ := hr
  refine ⟨ops ++ [(op, ch)], hok.append (fun o ho => ?_), ?_⟩
  · simp only [List.mem_singleton] at ho; subst ho; exact hop
  · rw [run_append ops _ _ _ hops]
    simp [run, h]

theorem ReachableOk.ibufOk {cfg : Config} {s : RState} (h : ReachableOk cfg s) : IbufOk s := by
  obtain ⟨ops, hok, hr⟩ := h; exact (reachableOk_ibufOk_connsOk hr hok).1

theorem ReachableOk.connsOk {cfg : Config} {s : RState} (h : ReachableOk cfg s) : ConnsOk s := by
  obtain ⟨ops, hok, hr⟩ := h; exact (reachableOk_ibufOk_connsOk hr hok).2

end Router
