/-
`forward_device_data` cut into pieces (definitionally equal to the model's function), and what
each piece does to connections, links and the request (C06 flush order, C15 replay flag).
-/
import Proofs.Lemmas.Router.Rp2_Flush
namespace Router

def fwdGroup (s : RState) (req : DataRequest) : Option SharedGroup :=
  req.group.bind (fun g => alookup g s.shared)

def fwdReq (grp : Option SharedGroup) (req : DataRequest) : DataRequest :=
  match grp with | some g => { req with cursor := g.cursor } | none => req

def fwdSlots (s : RState) (c : Conn) (grp : Option SharedGroup) (req : DataRequest) : Nat :=
  let slots := if req.qos ≠ 0 then c.out.freeSlots else s.config.maxOutgoingPacketCount
  match grp with
  | some g => if g.strategy = .roundRobin then 1 else slots
  | none => slots

def fwdRetained (s : RState) (req : DataRequest) (slots : Nat) : M (RState × List (Pub × Option Cursor) × Nat) :=
  if req.forwardRetained then
    match readRetained s req.filter with
    | .error e => .error e
    | .ok (s, ps) =>
      let ps := ps.take slots
      .ok (s, ps.map (fun p => (p, none)), slots - ps.length)
  else .ok (s, [], slots)

def fwdAdvance (s : RState) (req : DataRequest) (grp : Option SharedGroup) : M RState :=
  match req.group, grp with
  | some gname, some _ =>
    match alookup gname s.shared with
    | none => .ok s
    | some g =>
      match updateNextClient s g with
      | .error e => .error e
      | .ok (s, g) => .ok { s with shared := ainsert gname { g with cursor := req.cursor } s.shared }
  | _, _ => .ok s

/-- the broker alias used for this filter: an existing one, or a newly allocated one -/
def fwdAlias (c : Conn) (req : DataRequest) : Option BrokerAliases × Option Nat :=
  match (aliasesFor c req.filter).bind (fun b => alookup req.filter b.aliases) with
  | some a => (c.brokerAliases, some a)
  | none => match aliasesFor c req.filter with
    | none => (c.brokerAliases, none)
    | some b => let (b', a) := b.setNew req.filter; (some b', a)

/-- the forwards of one sweep, numbered and recorded in the inflight window when QoS > 0 -/
def fwdNotifs (c : Conn) (req : DataRequest) (publishes : List (Pub × Option Cursor)) : Outgoing × List Notif :=
  let existing := (aliasesFor c req.filter).bind (fun b => alookup req.filter b.aliases)
  let subId := alookup req.filter c.subscriptionIds
  let fwds := publishes.map (fun pc => (mkForward req.qos (fwdAlias c req).2 existing.isSome subId pc.1, pc.2))
  if req.qos = 0 then (c.out, fwds.map (fun pc => Notif.forward pc.1 pc.2))
  else numberForwards c.out req.filterIdx fwds []

/-- push the forwards, advance the group, wake the link -/
def fwdPush (s : RState) (id : Nat) (c : Conn) (req : DataRequest) (grp : Option SharedGroup)
    (publishes : List (Pub × Option Cursor)) (caughtup : Bool) : M (RState × DataRequest × ConsumeStatus) :=
  let s := setConn s id { c with out := (fwdNotifs c req publishes).1, brokerAliases := (fwdAlias c req).1 }
  let s := pushNotifs s c.link (fwdNotifs c req publishes).2
  let len := (getLink s c.link).obuf.length
  match fwdAdvance s req grp with
  | .error e => .error e
  | .ok s =>
    if len ≥ MAX_CHANNEL_CAPACITY - 1 then
      .ok (wakeLink (pushNotifs s c.link [Notif.unschedule]) c.link, req, .bufferFull)
    else
      .ok (wakeLink s c.link, req, if caughtup then .filterCaughtup else .partialRead)

def posNext : CLog.Pos → Cursor × Bool
  | .next _ e => (e, false)
  | .done _ e => (e, true)

def fwdSkip (grp : Option SharedGroup) (c : Conn) : Bool :=
  match grp with
  | some g => some c.clientId != g.current
  | none => false

def fwdRead (s : RState) (id : Nat) (c : Conn) (req : DataRequest) (grp : Option SharedGroup)
    (retainedPubs : List (Pub × Option Cursor)) (slots : Nat) : M (RState × DataRequest × ConsumeStatus) :=
  let req := { req with forwardRetained := false }
  match s.datalog.native[req.filterIdx]? with
  | none => .error (.panic "datalog.native.get(filter_idx).unwrap()")
  | some fd =>
    let r := fd.log.readv req.cursor slots
    let publishes := retainedPubs ++ r.1.map (fun e => (e.1, some e.2))
    if fwdSkip grp c then .ok (s, req, if (posNext r.2).2 then .filterCaughtup else .skipRequest) else
    let req := { req with cursor := (posNext r.2).1 }
    if publishes.isEmpty then .ok (s, req, .filterCaughtup) else
    fwdPush s id c req grp publishes (posNext r.2).2

theorem forwardDeviceData_eq_rp2 (s : RState) (id : Nat) (req : DataRequest) :
    forwardDeviceData s id req =
      match getConn s id with
      | none => .error (.panic "connections[id]")
      | some c =>
        let grp := fwdGroup s req
        let req := fwdReq grp req
        if req.qos ≠ 0 && c.out.freeSlots = 0 then .ok (s, req, .inflightFull) else
        match fwdRetained s req (fwdSlots s c grp req) with
        | .error e => .error e
        | .ok (s, retainedPubs, slots) => fwdRead s id c req grp retainedPubs slots := by
  unfold forwardDeviceData
  rfl

/-! ### specs of the pieces -/

theorem fwdReq_fields (grp : Option SharedGroup) (req : DataRequest) :
    (fwdReq grp req).forwardRetained = req.forwardRetained ∧ (fwdReq grp req).filter = req.filter ∧
    (fwdReq grp req).qos = req.qos ∧ (fwdReq grp req).group = req.group ∧
    (fwdReq grp req).filterIdx = req.filterIdx := by
  unfold fwdReq; cases grp <;> exact ⟨rfl, rfl, rfl, rfl, rfl⟩

theorem fwdRetained_spec {s s1 : RState} {req : DataRequest} {slots slots' : Nat}
    {rp : List (Pub × Option Cursor)} (h : fwdRetained s req slots = .ok (s1, rp, slots')) :
    s1.toState = s.toState ∧ s1.ghost = s.ghost ∧
    ((req.forwardRetained = false ∧ rp = [] ∧ s1 = s) ∨
     (req.forwardRetained = true ∧ ∃ ps, readRetained s req.filter = .ok (s1, ps) ∧
        rp = (ps.take slots).map (fun p => (p, none)))) := by
  unfold fwdRetained at h
  split at h
  · rename_i hfr
    split at h
    · simp at h
    · rename_i s2 ps hrr
      simp only [Except.ok.injEq, Prod.mk.injEq] at h
      obtain ⟨rfl, rfl, _⟩ := h
      have := readRetained_toState hrr
      exact ⟨this.1, this.2, .inr ⟨hfr, ps, hrr, rfl⟩⟩
  · rename_i hfr
    simp only [Except.ok.injEq, Prod.mk.injEq] at h
    obtain ⟨rfl, rfl, _⟩ := h
    exact ⟨rfl, rfl, .inl ⟨by simpa using hfr, rfl, rfl⟩⟩

/-- advancing the group's turn changes `shared` (and consumes an oracle choice) only -/
structure SharedOnly (s s' : RState) : Prop where
  conns : s'.conns = s.conns
  links : s'.links = s.links
  datalog : s'.datalog = s.datalog
  ghost : s'.ghost = s.ghost
  lastWills : s'.lastWills = s.lastWills
  readyqueue : s'.readyqueue = s.readyqueue
  notifications : s'.notifications = s.notifications

theorem fwdAdvance_spec {s s' : RState} {req : DataRequest} {grp : Option SharedGroup}
    (h : fwdAdvance s req grp = .ok s') : SharedOnly s s' := by
  unfold fwdAdvance at h
  split at h
  · split at h
    · simp only [Except.ok.injEq] at h; subst h; exact ⟨rfl, rfl, rfl, rfl, rfl, rfl, rfl⟩
    · split at h
      · simp at h
      · rename_i s2 g2 hu
        simp only [Except.ok.injEq] at h; subst h
        have := (updateNextClient_toState hu).1
        have e1 : s2.conns = s.conns := congrArg State.conns this
        have e2 : s2.links = s.links := congrArg State.links this
        have e3 : s2.datalog = s.datalog := congrArg State.datalog this
        have e4 : s2.lastWills = s.lastWills := congrArg State.lastWills this
        have e5 : s2.readyqueue = s.readyqueue := congrArg State.readyqueue this
        have e6 : s2.notifications = s.notifications := congrArg State.notifications this
        exact ⟨e1, e2, e3, (updateNextClient_toState hu).2, e4, e5, e6⟩
  · simp only [Except.ok.injEq] at h; subst h; exact ⟨rfl, rfl, rfl, rfl, rfl, rfl, rfl⟩

theorem fwdNotifs_noAck (c : Conn) (req : DataRequest) (publishes : List (Pub × Option Cursor)) :
    ∀ n ∈ (fwdNotifs c req publishes).2, n.isAck = false := by
  unfold fwdNotifs
  simp only []
  split
  · intro n hn
    simp only [List.mem_map] at hn
    obtain ⟨_, _, rfl⟩ := hn; rfl
  · exact numberForwards_notifs _ _ _ _ (by simp)

/-- the notifications `fwdPush` writes are forwards -/
theorem fwdPush_sweep {s s' : RState} {id : Nat} {c : Conn} {req req' : DataRequest} {grp : Option SharedGroup}
    {publishes : List (Pub × Option Cursor)} {caughtup : Bool} {st : ConsumeStatus}
    (hc : getConn s id = some c)
    (h : fwdPush s id c req grp publishes caughtup = .ok (s', req', st)) :
    SweepFrame s s' c.link ∧ req' = req ∧ st ≠ .inflightFull := by
  unfold fwdPush at h
  simp only [] at h
  split at h
  · simp at h
  · rename_i s3 hadv
    have a := fwdAdvance_spec hadv
    have f2 : SweepFrame s s3 c.link := by
      refine SweepFrame.trans ?_ (SweepFrame.of_eq a.links a.conns c.link)
      exact (SweepFrame.of_frame (AckFrame.setConn hc
          (c' := { c with out := (fwdNotifs c req publishes).1, brokerAliases := (fwdAlias c req).1 }) rfl) c.link).trans
        (SweepFrame.pushNotifs _ _ _ (fwdNotifs_noAck c req publishes))
    split at h
    · simp only [Except.ok.injEq, Prod.mk.injEq] at h; obtain ⟨rfl, rfl, rfl⟩ := h
      refine ⟨(f2.trans (SweepFrame.pushNotifs _ _ _ ?_)).trans (SweepFrame.wakeLink _ _), rfl, by simp⟩
      intro n hn; simp at hn; subst hn; rfl
    · simp only [Except.ok.injEq, Prod.mk.injEq] at h; obtain ⟨rfl, rfl, rfl⟩ := h
      refine ⟨f2.trans (SweepFrame.wakeLink _ _), rfl, ?_⟩
      split <;> simp

theorem fwdRead_spec {s s' : RState} {id : Nat} {c : Conn} {req req' : DataRequest} {grp : Option SharedGroup}
    {rp : List (Pub × Option Cursor)} {slots : Nat} {st : ConsumeStatus}
    (hc : getConn s id = some c)
    (h : fwdRead s id c req grp rp slots = .ok (s', req', st)) :
    SweepFrame s s' c.link ∧ req'.forwardRetained = false ∧ req'.filter = req.filter ∧
      req'.group = req.group ∧ req'.qos = req.qos ∧ req'.filterIdx = req.filterIdx ∧ st ≠ .inflightFull := by
  unfold fwdRead at h
  simp only [] at h
  split at h
  · simp at h
  · split at h
    · simp only [Except.ok.injEq, Prod.mk.injEq] at h; obtain ⟨rfl, rfl, rfl⟩ := h
      refine ⟨SweepFrame.refl _ _, rfl, rfl, rfl, rfl, rfl, ?_⟩
      split <;> simp
    · split at h
      · simp only [Except.ok.injEq, Prod.mk.injEq] at h; obtain ⟨rfl, rfl, rfl⟩ := h
        exact ⟨SweepFrame.refl _ _, rfl, rfl, rfl, rfl, rfl, by simp⟩
      · obtain ⟨f, e, hst⟩ := fwdPush_sweep hc h
        subst e
        exact ⟨f, rfl, rfl, rfl, rfl, rfl, hst⟩

/-- `forward_device_data`: connections keep their ack logs, only the swept connection's link is
    written, and only with forwards / unschedule; the request comes back with its replay flag
    cleared unless the sweep stopped on a full inflight window before reading anything -/
theorem forwardDeviceData_spec {s s' : RState} {id : Nat} {c : Conn} {req req' : DataRequest} {st : ConsumeStatus}
    (hc : getConn s id = some c) (h : forwardDeviceData s id req = .ok (s', req', st)) :
    SweepFrame s s' c.link ∧ req'.filter = req.filter ∧ req'.group = req.group ∧ req'.qos = req.qos ∧
    req'.filterIdx = req.filterIdx ∧
    ((st = .inflightFull ∧ s' = s ∧ req'.forwardRetained = req.forwardRetained) ∨
     (st ≠ .inflightFull ∧ req'.forwardRetained = false)) := by
  rw [forwardDeviceData_eq_rp2] at h
  simp only [hc] at h
  have hf := fwdReq_fields (fwdGroup s req) req
  split at h
  · simp only [Except.ok.injEq, Prod.mk.injEq] at h; obtain ⟨rfl, rfl, rfl⟩ := h
    exact ⟨SweepFrame.refl _ _, hf.2.1, hf.2.2.2.1, hf.2.2.1, hf.2.2.2.2, .inl ⟨rfl, rfl, hf.1⟩⟩
  · split at h
    · simp at h
    · rename_i s1 rp slots hr
      obtain ⟨h1, _, _⟩ := fwdRetained_spec hr
      have hc1 : getConn s1 id = some c := by
        unfold getConn; rw [show s1.conns = s.conns from congrArg State.conns h1]; exact hc
      obtain ⟨f, e1, e2, e3, e4, e5, hst⟩ := fwdRead_spec hc1 h
      exact ⟨(SweepFrame.of_toState h1 c.link).trans f, e2.trans hf.2.1, e3.trans hf.2.2.2.1,
        e4.trans hf.2.2.1, e5.trans hf.2.2.2.2, .inr ⟨hst, e1⟩⟩

end Router
