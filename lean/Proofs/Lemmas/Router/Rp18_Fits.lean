/-
C20 — the commit-log-contents invariant (round 12): the frame limit. A stored publish whose payload is within
the bound `m` fits a frame in every forward the router can build from it (`FitsForward`), given a bound on the
encoded length of its pass-through properties: normalisation never makes a property list longer.
-/
import Proofs.Lemmas.Encode
import Proofs.Lemmas.Router.Rp18_StoredInv
namespace Codec.V5

theorem propListLen_append (a b : Props) : propListLen (a ++ b) = propListLen a + propListLen b := by
  induction a with
  | nil => simp [propListLen]
  | cons x xs ih => simp only [List.cons_append, propListLen, ih]; omega

theorem propListLen_filter_split (q : Property → Bool) (ps : Props) :
    propListLen (ps.filter q) + propListLen (ps.filter (fun p => !q p)) = propListLen ps := by
  induction ps with
  | nil => rfl
  | cons x xs ih =>
    simp only [List.filter_cons]
    cases q x <;> simp only [Bool.not_false, Bool.not_true, if_true, Bool.false_eq_true, if_false, propListLen] <;> omega

theorem propListLen_mem {x : Property} {ps : Props} (h : x ∈ ps) : propListLen [x] ≤ propListLen ps := by
  induction ps with
  | nil => cases h
  | cons y ys ih =>
    simp only [propListLen] at ih ⊢
    rcases List.mem_cons.mp h with rfl | h
    · omega
    · have := ih h; omega

theorem propListLen_block_le (e : Nat × Kind × Bool) (ps : Props) :
    propListLen (block e ps) ≤ propListLen (ps.filter (fun p => p.id == e.1)) := by
  unfold block
  split
  · exact Nat.le_refl _
  · split
    · next x hx => exact propListLen_mem (List.mem_of_getLast? hx)
    · simp [propListLen]

theorem normalize_filter_ne (a : Nat) : ∀ (spec : PropSpec), (∀ e ∈ spec, e.1 ≠ a) → ∀ (ps : Props),
    normalize spec (ps.filter (fun p => !(p.id == a))) = normalize spec ps
  | [], _, _ => rfl
  | e :: spec, h, ps => by
    rw [normalize_cons, normalize_cons, normalize_filter_ne a spec (fun x hx => h x (List.mem_cons_of_mem _ hx))]
    congr 1
    apply block_congr
    rw [List.filter_filter]
    apply List.filter_congr
    intro p _
    have hne := h e List.mem_cons_self
    by_cases hp : p.id = e.1
    · have : ¬ p.id = a := fun h' => hne (hp ▸ h')
      simp [hp, hne]
    · simp [hp]

/-- normalisation (last occurrence of an `Option` field, all of a `Vec` field) does not lengthen the list -/
theorem propListLen_normalize_le : ∀ (spec : PropSpec), (spec.map (·.1)).Nodup → ∀ (ps : Props),
    propListLen (normalize spec ps) ≤ propListLen ps
  | [], _, ps => by simp [normalize, propListLen]
  | e :: spec, hnd, ps => by
    simp only [List.map_cons, List.nodup_cons] at hnd
    rw [normalize_cons, propListLen_append]
    have h1 := propListLen_block_le e ps
    have hne : ∀ x ∈ spec, x.1 ≠ e.1 := fun x hx he => hnd.1 (List.mem_map.mpr ⟨x, hx, he⟩)
    have h2 := propListLen_normalize_le spec hnd.2 (ps.filter (fun p => !(p.id == e.1)))
    rw [normalize_filter_ne e.1 spec hne] at h2
    have h3 := propListLen_filter_split (fun p => p.id == e.1) ps
    omega

theorem publishSpec_nodup : (publishSpec.map (·.1)).Nodup := by decide

end Codec.V5

namespace Router
open Encode Codec

theorem lenLen_le (x : Nat) : lenLen x ≤ 4 := by
  unfold lenLen; split <;> (try split) <;> (try split) <;> omega

theorem fwdList_len {p : Pub} (ha : p.alias = none) (hs : p.subIds = []) (qos : Nat) (alias : Option Nat) (ex : Bool)
    (sid : Option Nat) (extra : Props) :
    V5.propListLen (fwdList (mkForward qos alias ex sid p) extra) ≤ V5.propListLen extra + 8 := by
  unfold fwdList mkForward
  cases alias <;> cases ex <;> cases sid <;>
    simp [ha, hs, V5.propListLen_append, V5.propListLen, V5.pvalLen] <;> (have := lenLen_le ‹Nat›; omega)

theorem mkForward_topic_len {p : Pub} (ht : p.topic.length ≤ 65535) (qos : Nat) (alias : Option Nat) (ex : Bool)
    (sid : Option Nat) : (mkForward qos alias ex sid p).topic.length ≤ 65535 := by
  unfold mkForward
  cases alias <;> cases ex <;> cases sid <;> simp [ht]

/-- the frame limit from the payload bound: a stored publish with payload ≤ `m` whose pass-through
    properties encode to ≤ `k` bytes fits a frame in every forward built from it when
    `65551 + k + m ≤ 268435455` (2 + topic ≤ 65535 + packet id 2 + properties length prefix ≤ 4 + alias 3 +
    one subscription identifier ≤ 5) -/
theorem StoredP.fitsForward {m k : Nat} {p : Pub} (h : StoredP (some m) p) {extra : Props}
    (hk : V5.propListLen extra ≤ k) (hb : 65551 + k + m ≤ remainingLimit) : FitsForward p extra := by
  have hcore := h.core
  simp only [StoredCore, Bool.and_eq_true, decide_eq_true_eq, Option.isNone_iff_eq_none, List.isEmpty_iff] at hcore
  obtain ⟨⟨⟨ha, hs⟩, _⟩, ht⟩ := hcore
  have hsz : p.payload.length ≤ m := by simpa [fits] using h.size
  intro qos alias ex sid pk
  have h1 := mkForward_topic_len ht qos alias ex sid
  have h2 : V5.propsLen (forwardProps (mkForward qos alias ex sid p) extra) ≤ k + 12 := by
    rw [forwardProps_eq]
    split
    · simp only [V5.propsLen]
      have a := V5.propListLen_normalize_le V5.publishSpec V5.publishSpec_nodup (fwdList (mkForward qos alias ex sid p) extra)
      have b := fwdList_len ha hs qos alias ex sid extra
      have c := lenLen_le (V5.propListLen (V5.normalize V5.publishSpec (fwdList (mkForward qos alias ex sid p) extra)))
      omega
    · simp only [V5.propsLen]; omega
  unfold V5.publishLen
  split <;> omega

/-- with no pass-through properties: `extra = []` -/
theorem StoredP.fitsForward_nil {m : Nat} {p : Pub} (h : StoredP (some m) p) (hb : 65551 + m ≤ remainingLimit) :
    FitsForward p [] :=
  h.fitsForward (k := 0) (by simp [V5.propListLen]) (by omega)

end Router
