/-
C15: the retained map (unique keys, every stored publish flagged), the replay read, and the replay
flag of the request `prepare_filter` creates.
-/
import Proofs.Lemmas.Router.Rp2_Subs
import Proofs.Lemmas.Router.Rp2_Fwd
namespace Router

/-! ### association lists with unique keys -/

theorem alookup_none_iff {β} (k : String) : ∀ (l : List (String × β)), alookup k l = none ↔ k ∉ l.map (·.1)
  | [] => by simp [alookup]
  | (k', v) :: r => by
    by_cases h : k' = k
    · subst h; simp [alookup]
    · have ih := alookup_none_iff k r
      have h' : ¬ k = k' := fun e => h e.symm
      simp [alookup, h, h', ih]

theorem alookup_of_mem {β} : ∀ (l : List (String × β)) (k : String) (v : β),
    (l.map (·.1)).Nodup → (k, v) ∈ l → alookup k l = some v
  | [], _, _, _, h => by simp at h
  | (k', v') :: r, k, v, hn, hm => by
    simp only [List.map_cons, List.nodup_cons] at hn
    simp only [List.mem_cons, Prod.mk.injEq] at hm
    rcases hm with ⟨rfl, rfl⟩ | hm
    · simp [alookup]
    · have hne : ¬ k' = k := by
        intro e; subst e
        exact hn.1 (List.mem_map.mpr ⟨(k', v), hm, rfl⟩)
      simp [alookup, hne, alookup_of_mem r k v hn.2 hm]

theorem alookup_mem {β} : ∀ (l : List (String × β)) (k : String) (v : β), alookup k l = some v → (k, v) ∈ l
  | [], _, _, h => by simp [alookup] at h
  | (k', v') :: r, k, v, h => by
    by_cases e : k' = k
    · subst e; simp [alookup] at h; subst h; simp
    · simp [alookup, e] at h
      exact List.mem_cons_of_mem _ (alookup_mem r k v h)

theorem ainsert_keys {β} (k : String) (v : β) (l : List (String × β)) :
    (ainsert k v l).map (·.1) = if (alookup k l).isSome then l.map (·.1) else l.map (·.1) ++ [k] := by
  unfold ainsert
  split
  · rw [List.map_map]
    apply List.map_congr_left
    intro p _
    by_cases h : p.1 = k <;> simp [h]
  · simp

theorem ainsert_nodup {β} (k : String) (v : β) (l : List (String × β)) (h : (l.map (·.1)).Nodup) :
    ((ainsert k v l).map (·.1)).Nodup := by
  rw [ainsert_keys]
  split
  · exact h
  · rename_i hs
    have : alookup k l = none := by
      cases hl : alookup k l with
      | none => rfl
      | some _ => simp [hl] at hs
    have hk := (alookup_none_iff k l).mp this
    rw [List.nodup_append]
    refine ⟨h, by simp, ?_⟩
    intro a ha b hb
    simp at hb; subst hb
    intro e; subst e; exact hk ha

theorem aremove_nodup {β} (k : String) (l : List (String × β)) (h : (l.map (·.1)).Nodup) :
    ((aremove k l).map (·.1)).Nodup := by
  unfold aremove
  exact List.Nodup.sublist (List.Sublist.map _ List.filter_sublist) h

theorem ainsert_mem {β} (k : String) (v : β) (l : List (String × β)) (p : String × β)
    (h : p ∈ ainsert k v l) : p = (k, v) ∨ p ∈ l := by
  unfold ainsert at h
  split at h
  · simp only [List.mem_map] at h
    obtain ⟨q, hq, e⟩ := h
    by_cases hk : q.1 = k
    · simp [hk] at e; exact .inl e.symm
    · simp [hk] at e; subst e; exact .inr hq
  · simp at h
    rcases h with h | h
    · exact .inr h
    · exact .inl h

/-! ### the retained map -/

/-- at most one retained message per topic -/
def RetainedKeysUnique (s : RState) : Prop := (s.datalog.retained.map (·.1)).Nodup

/-- every stored retained message carries the retain flag (and a payload) -/
def RetainedFlagged (s : RState) : Prop :=
  ∀ p ∈ s.datalog.retained, p.2.retain = true ∧ p.2.payload ≠ []

theorem updateRetained_keysUnique (s : RState) (topic : String) (p : Pub) (h : RetainedKeysUnique s) :
    RetainedKeysUnique (updateRetained s topic p) := by
  unfold updateRetained RetainedKeysUnique
  simp only []
  split
  · exact aremove_nodup _ _ h
  · split
    · exact ainsert_nodup _ _ _ h
    · exact h

theorem updateRetained_flagged (s : RState) (topic : String) (p : Pub) (h : RetainedFlagged s) :
    RetainedFlagged (updateRetained s topic p) := by
  unfold updateRetained RetainedFlagged
  simp only []
  split
  · intro q hq
    exact h q ((List.mem_filter.mp hq).1)
  · rename_i h1
    split
    · rename_i h2
      intro q hq
      rcases ainsert_mem _ _ _ _ hq with rfl | hq
      · refine ⟨h2, ?_⟩
        simp only [h2, Bool.true_and] at h1
        intro he; apply h1
        have he' : p.payload = [] := he
        simp [he']
      · exact h q hq
    · exact h

/-- the stored retained message of a retained, non-empty publish is the publish as sent, flag set -/
theorem updateRetained_stores_flagged (s : RState) (topic : String) (p : Pub)
    (hr : p.retain = true) (hp : p.payload ≠ []) :
    alookup topic (updateRetained s topic p).datalog.retained = some p := by
  rw [updateRetained_lookup_same]
  have : p.payload.isEmpty = false := by
    cases h : p.payload with
    | nil => exact absurd h hp
    | cons _ _ => rfl
  simp [hr, this]

/-! ### the replay read -/

theorem filterMap_congr' {α β} {f g : α → Option β} : ∀ (l : List α), (∀ x ∈ l, f x = g x) →
    l.filterMap f = l.filterMap g
  | [], _ => rfl
  | a :: l, h => by
    simp only [List.filterMap_cons, h a (List.mem_cons_self)]
    rw [filterMap_congr' l (fun x hx => h x (List.mem_cons_of_mem _ hx))]

theorem sameMembers_perm {α} [DecidableEq α] {a b : List α} (h : sameMembers a b = true) : a.Perm b := by
  unfold sameMembers at h
  simp only [Bool.and_eq_true, beq_iff_eq, List.all_eq_true] at h
  rw [List.perm_iff_count]
  intro x
  by_cases ha : x ∈ a
  · exact h.1 x ha
  · by_cases hb : x ∈ b
    · exact h.2 x hb
    · rw [List.count_eq_zero_of_not_mem ha, List.count_eq_zero_of_not_mem hb]

/-- the retained messages whose topic matches the filter, in map order -/
def matchingRetained (s : RState) (filter : String) : List Pub :=
  (s.datalog.retained.filter (fun p => topicMatches p.1 filter)).map (·.2)

/-- `read_retained_messages`: the list returned is exactly `order.filterMap lookup`; with unique
    keys it is a permutation of the matching retained messages — each exactly once, none else —
    whatever iteration order the hash map produced -/
theorem readRetained_spec {s s' : RState} {filter : String} {ps : List Pub}
    (h : readRetained s filter = .ok (s', ps)) :
    ∃ order rest, s.oracle = .retained order :: rest ∧
      ps = order.filterMap (fun t => alookup t s.datalog.retained) ∧
      order.Perm ((s.datalog.retained.filter (fun p => topicMatches p.1 filter)).map (·.1)) ∧
      (RetainedKeysUnique s → ps.Perm (matchingRetained s filter)) := by
  unfold readRetained at h
  split at h
  · rename_i order rest hor
    simp only [] at h
    split at h
    · rename_i hs
      simp only [Except.ok.injEq, Prod.mk.injEq] at h
      obtain ⟨_, rfl⟩ := h
      have hperm := sameMembers_perm hs
      refine ⟨order, rest, hor, rfl, hperm, ?_⟩
      intro hu
      have h1 := hperm.filterMap (fun t => alookup t s.datalog.retained)
      refine h1.trans (List.Perm.of_eq ?_)
      unfold matchingRetained
      rw [List.filterMap_map]
      rw [← List.filterMap_eq_map]
      apply filterMap_congr'
      intro e he
      simp only [Function.comp]
      exact alookup_of_mem _ _ _ hu ((List.mem_filter.mp he).1)
    · simp at h
  · simp at h

/-- every replayed message comes from the retained map, so it is flagged when the map is -/
theorem readRetained_flagged {s s' : RState} {filter : String} {ps : List Pub}
    (h : readRetained s filter = .ok (s', ps)) (hf : RetainedFlagged s) : ∀ p ∈ ps, p.retain = true := by
  obtain ⟨order, rest, _, rfl, _, _⟩ := readRetained_spec h
  intro p hp
  simp only [List.mem_filterMap] at hp
  obtain ⟨t, _, hl⟩ := hp
  exact (hf _ (alookup_mem _ _ _ hl)).1

/-! ### the replay flag of a new request -/

theorem tryReady_requests {t t' : Tracker} {r : SchedReason} {w : Bool} (h : t.tryReady r = some (t', w)) :
    t'.requests = t.requests := by
  unfold Tracker.tryReady at h
  split at h
  · simp only [Option.some.injEq, Prod.mk.injEq] at h; obtain ⟨rfl, _⟩ := h; rfl
  · split at h <;> (split at h <;>
      first
      | (simp only [Option.some.injEq, Prod.mk.injEq] at h; obtain ⟨rfl, _⟩ := h; rfl)
      | simp at h)

theorem reschedule_requests {s s' : RState} {id : Nat} {r : SchedReason} (h : reschedule s id r = .ok s')
    (j : Nat) : requestsOf s' j = requestsOf s j := by
  unfold reschedule at h
  split at h
  · simp at h
  · rename_i c hc
    split at h
    · simp at h
    · rename_i t woke htr
      simp only [Except.ok.injEq] at h; subst h
      have key : requestsOf (setConn s id { c with tracker := t }) j = requestsOf s j := by
        unfold requestsOf
        by_cases hj : j = id
        · subst hj
          rw [getConn_setConn_same _ _ _ (getConn_lt hc), hc]
          simp [tryReady_requests htr]
        · rw [getConn_setConn_ne _ _ _ _ hj]
      split <;> exact key

theorem track_requests {s s' : RState} {id : Nat} {r : DataRequest} {c : Conn} (hc : getConn s id = some c)
    (h : track s id r = .ok s') : requestsOf s' id = some (c.tracker.requests ++ [r]) := by
  unfold track at h
  simp only [hc, Except.ok.injEq] at h; subst h
  simp [requestsOf, getConn_setConn_same _ _ _ (getConn_lt hc)]

/-- `prepare_filter`, filter new for the connection: exactly one request is created, at the back
    of the tracker, and it asks for the retained replay iff the subscription is not a shared one -/
theorem prepareFilter_new_request {s s' : RState} {id : Nat} {cursor : Cursor} {idx : Nat} {f : SubFilter}
    {group : Option String} {subId : Option Nat} {c : Conn} (hc : getConn s id = some c)
    (hnew : c.subscriptions.contains f.path = false)
    (h : prepareFilter s id cursor idx f group subId = .ok s') :
    requestsOf s' id = some (c.tracker.requests ++ [newRequest cursor idx f group]) := by
  obtain ⟨s1, h1, h2⟩ := prepareFilter_new s s' id cursor idx f group subId c hc hnew h
  rw [reschedule_requests h2]
  have hcb : getConn (prepBook s id cursor f group c) id = some c := by rw [prepBook_getConn]; exact hc
  have hg : getConn (setConn ((prepBook s id cursor f group c).g (.subscribed id f.path f.qos idx cursor group true)) id
      { prepConn f subId c with subscriptions := c.subscriptions ++ [f.path] }) id =
      some { prepConn f subId c with subscriptions := c.subscriptions ++ [f.path] } :=
    getConn_setConn_same _ _ _ (getConn_lt (s := (prepBook s id cursor f group c).g _) hcb)
  rw [track_requests hg h1]
  simp [(prepConn_view f subId c).2.2]

/-- `prepare_filter`, filter already subscribed by the connection: no request is created — the
    tracker, the parked requests (`notifications`, waiters in `datalog`) and the ready queue are
    untouched -/
theorem prepareFilter_repeated_no_request {s s' : RState} {id : Nat} {cursor : Cursor} {idx : Nat} {f : SubFilter}
    {group : Option String} {subId : Option Nat} {c : Conn} (hc : getConn s id = some c)
    (hin : c.subscriptions.contains f.path = true)
    (h : prepareFilter s id cursor idx f group subId = .ok s') :
    requestsOf s' id = some c.tracker.requests ∧ s'.notifications = s.notifications ∧
    s'.datalog = s.datalog ∧ s'.readyqueue = s.readyqueue ∧
    (∀ j, j ≠ id → getConn s' j = getConn s j) := by
  rw [prepareFilter_repeated s id cursor idx f group subId c hc hin] at h
  simp only [Except.ok.injEq] at h; subst h
  have hb := prepBook_same s id cursor f group c
  have hcb : getConn (prepBook s id cursor f group c) id = some c := by rw [prepBook_getConn]; exact hc
  refine ⟨?_, hb.2.1, hb.1, hb.2.2.1, ?_⟩
  · show requestsOf (setConn (prepBook s id cursor f group c) id (prepConn f subId c)) id = _
    simp [requestsOf, getConn_setConn_same _ _ _ (getConn_lt hcb), (prepConn_view f subId c).2.2]
  · intro j hj
    show getConn (setConn (prepBook s id cursor f group c) id (prepConn f subId c)) j = _
    rw [getConn_setConn_ne _ _ _ _ hj, prepBook_getConn]

theorem commitAck_requests {s s' : RState} {id : Nat} {a : Ack} (h : commitAck s id a = .ok s') (j : Nat) :
    requestsOf s' j = requestsOf s j := by
  unfold commitAck at h
  split at h
  · simp at h
  · rename_i c hc
    simp only [Except.ok.injEq] at h; subst h
    show requestsOf (setConn s id _) j = _
    unfold requestsOf
    by_cases hj : j = id
    · subst hj; rw [getConn_setConn_same _ _ _ (getConn_lt hc), hc]; rfl
    · rw [getConn_setConn_ne _ _ _ _ hj]

/-- SUBSCRIBE with one acceptable filter: a request is created iff the filter is new for the
    connection, and it asks for the retained replay iff the filter is not a shared one -/
theorem subscribe_one_filter_request {s s' : RState} {id : Nat} {cid : String} {pkid : Nat} {subId : Option Nat}
    {f : SubFilter} {fl fl' : Flags} {c : Conn} (hc : getConn s id = some c)
    (hv : validSubscription f.path = true) (hs : subId ≠ some 0)
    (h : handlePacket s id cid (.subscribe pkid subId [f]) fl = .ok (s', fl')) :
    (c.subscriptions.contains f.path = true → requestsOf s' id = some c.tracker.requests) ∧
    (c.subscriptions.contains f.path = false → ∃ idx cursor,
      requestsOf s' id = some (c.tracker.requests ++
        [{ filter := f.path, filterIdx := idx, qos := f.qos, cursor := cursor,
           forwardRetained := (extractGroup f.path).isNone, group := (extractGroup f.path).map (·.1) }])) := by
  simp only [handlePacket] at h
  split at h
  · simp at h
  · rename_i s1 codes fl1 hsf
    split at h
    · simp at h
    · rename_i s2 hca
      simp only [Except.ok.injEq, Prod.mk.injEq] at h; obtain ⟨rfl, _⟩ := h
      have hreq := commitAck_requests hca id
      simp only [subscribeFilters, hv, Bool.not_true, Bool.false_eq_true, if_false, hs] at hsf
      split at hsf
      · simp at hsf
      · rename_i s3 hpf
        simp only [Except.ok.injEq, Prod.mk.injEq] at hsf; obtain ⟨rfl, _, _⟩ := hsf
        rw [hreq]
        -- `next_native_offset` leaves the connections alone
        have hn : ∀ flt, getConn (nextNativeOffset s flt).1 id = some c := by
          intro flt
          have := (nextNativeOffset_frame s flt).conns
          unfold nextNativeOffset
          split <;> exact hc
        cases hg : extractGroup f.path with
        | none =>
          simp only [hg] at hpf
          refine ⟨fun hin => ?_, fun hnew => ?_⟩
          · exact (prepareFilter_repeated_no_request (hn _) hin hpf).1
          · exact ⟨_, _, prepareFilter_new_request (hn _) hnew hpf⟩
        | some gp =>
          obtain ⟨g, pth⟩ := gp
          simp only [hg] at hpf
          refine ⟨fun hin => ?_, fun hnew => ?_⟩
          · exact (prepareFilter_repeated_no_request (hn _) hin hpf).1
          · exact ⟨_, _, prepareFilter_new_request (hn _) hnew hpf⟩

end Router
