/-
`CursorSound` through a sweep (`forward_device_data`): the request adopts its group's cursor (issued
for the same log), the read from an issued cursor yields entries whose tags are issued and an
issued continuation, which becomes the request's cursor, the group's cursor, and — per forwarded
entry — the cursors recorded in the outgoing window. Needs the no-overflow bound of C13.
-/
import Proofs.Lemmas.Router.Rp5_Steps
namespace Router
namespace Rp3
open CommitLog (Rep logC Issued SegMono U64)

/-- no filter log is within `MAX_INFLIGHT + max_outgoing_packet_count` entries of `2^64` (the bound of
    the C13 read theorems: the entry count cannot overflow `u64`) -/
def NoOverflow (s : RState) : Prop :=
  ∀ fd ∈ s.datalog.native, ∀ hist, Rep (logC fd.log) hist →
    hist.length + (MAX_INFLIGHT + s.config.maxOutgoingPacketCount) < U64

/-- the entries a read returns carry issued cursors, and the continuation is issued -/
theorem clog_readv_issued (l : CLog.Log Pub) (hist : List Pub) (h : Rep (logC l) hist) (c : Cursor) (n : Nat)
    (hi : Issued (logC l) c) (hU : hist.length + n < U64) :
    (∀ e ∈ (l.readv c n).1, Issued (logC l) e.2) ∧ Issued (logC l) (posNext (l.readv c n).2).1 := by
  obtain ⟨e1, _, e3, _, _⟩ := clog_readv_spec l hist h c n hi hU
  refine ⟨fun e he => ?_, e3⟩
  rw [e1] at he
  exact CommitLog.issued_of_holds h.wf (CommitLog.expectedRead_tags (logC l) hist h c n e he).1

/-- the window after numbering: old entries, and one entry of the request's log per forward -/
theorem numberForwards_inflight (fi : Nat) : ∀ (ps : List (Pub × Option Cursor)) (o : Outgoing) (acc : List Notif),
    ∀ e ∈ (numberForwards o fi ps acc).1.inflight, e ∈ o.inflight ∨ (e.2.1 = fi ∧ ∃ pc ∈ ps, e.2.2 = pc.2)
  | [], o, acc, e, he => by simp only [numberForwards] at he; exact .inl he
  | (p, c) :: rest, o, acc, e, he => by
    simp only [numberForwards] at he
    rcases numberForwards_inflight fi rest _ _ e he with h | ⟨h1, pc, hpc, h2⟩
    · rcases List.mem_append.mp h with h | h
      · exact .inl h
      · simp only [List.mem_singleton] at h; subst h
        exact .inr ⟨rfl, (p, c), by simp, rfl⟩
    · exact .inr ⟨h1, pc, by simp [hpc], h2⟩

theorem fdSlots_bound (s : RState) (c : Conn) (qos : Nat) (grp : Option SharedGroup) :
    fdSlots s c qos grp ≤ MAX_INFLIGHT + s.config.maxOutgoingPacketCount := by
  unfold fdSlots Outgoing.freeSlots
  split
  · split
    · simp only [MAX_INFLIGHT]; omega
    · split <;> omega
  · split <;> omega

theorem fdRetained_only_oracle {s s' : RState} {req : DataRequest} {slots slots' : Nat} {ps : List (Pub × Option Cursor)}
    (h : fdRetained s req slots = .ok (s', ps, slots')) :
    s' = { s with oracle := s'.oracle } ∧ (∀ pc ∈ ps, pc.2 = none) ∧ slots' ≤ slots := by
  unfold fdRetained at h
  split at h
  · split at h
    · simp at h
    · rename_i s1 ps1 h1
      simp only [Except.ok.injEq, Prod.mk.injEq] at h
      obtain ⟨rfl, rfl, rfl⟩ := h
      exact ⟨readRetained_only_oracle h1, fun pc hpc => by
        obtain ⟨p, _, rfl⟩ := List.mem_map.mp hpc; rfl, Nat.sub_le _ _⟩
  · simp only [Except.ok.injEq, Prod.mk.injEq] at h
    obtain ⟨rfl, rfl, rfl⟩ := h
    exact ⟨rfl, fun pc hpc => by simp at hpc, Nat.le_refl _⟩

theorem updateNextClient_only_oracle {s s' : RState} {g g' : SharedGroup} (h : updateNextClient s g = .ok (s', g')) :
    s' = { s with oracle := s'.oracle } ∧ g'.cursor = g.cursor := by
  unfold updateNextClient at h
  split at h
  · simp only [Except.ok.injEq, Prod.mk.injEq] at h; obtain ⟨rfl, rfl⟩ := h; exact ⟨rfl, rfl⟩
  · split at h
    · simp at h
    · simp only [Except.ok.injEq, Prod.mk.injEq] at h; obtain ⟨rfl, rfl⟩ := h; exact ⟨rfl, rfl⟩
  · split at h
    · simp at h
    · split at h
      · split at h
        · simp only [Except.ok.injEq, Prod.mk.injEq] at h; obtain ⟨rfl, rfl⟩ := h; exact ⟨rfl, rfl⟩
        · simp at h
      · simp at h

/-- the group's turn and cursor advance: the new cursor is the request's (issued) continuation -/
theorem fdGroupUpd_cs {s s' : RState} {req : DataRequest} {grp : Option SharedGroup} (h : CS s)
    (hreq : ReqOK s.datalog req) (hu : fdGroupUpd s req grp = .ok s') : CS s' ∧ s'.datalog = s.datalog := by
  unfold fdGroupUpd at hu
  cases hgn : req.group with
  | none => simp only [hgn, Except.ok.injEq] at hu; subst hu; exact ⟨h, rfl⟩
  | some gname =>
    cases grp with
    | none => simp only [hgn, Except.ok.injEq] at hu; subst hu; exact ⟨h, rfl⟩
    | some g0 =>
      simp only [hgn] at hu
      split at hu
      · simp only [Except.ok.injEq] at hu; subst hu; exact ⟨h, rfl⟩
      · rename_i g hg
        split at hu
        · simp at hu
        · rename_i s1 g1 h1
          simp only [Except.ok.injEq] at hu; subst hu
          obtain ⟨e1, _⟩ := updateNextClient_only_oracle h1
          refine ⟨?_, by rw [e1]⟩
          rw [e1]
          refine h.transfer (LogMono.refl _) (fun r hr => .inl hr) (fun fi cur hw => .inl hw)
            (fun p hp ss hss r hr => .inl ⟨p, hp, ss, hss, hr⟩) (fun p hp => ?_)
          rcases mem_ainsert hp with hm | rfl
          · exact .inl ⟨p, hm, rfl, rfl⟩
          · exact .inr ⟨req.filterIdx, hreq.2 gname hgn, hreq.1⟩

/-- the push phase of a sweep: the forwards' cursors (issued for the request's log) enter the
    window, the request's cursor becomes the group's -/
theorem fdPush_cs {s s' : RState} {id : Nat} {c : Conn} {req req' : DataRequest} {grp : Option SharedGroup}
    {pubs : List (Pub × Option Cursor)} {cu : Bool} {st : ConsumeStatus} (h : CS s) (hc : getConn s id = some c)
    (hreq : ReqOK s.datalog req)
    (hpubs : ∀ pc ∈ pubs, ∀ cur, pc.2 = some cur → IssuedAt s.datalog req.filterIdx cur)
    (hp : fdPush s id c req grp pubs cu = .ok (s', req', st)) : CS s' ∧ req' = req ∧ s'.datalog = s.datalog := by
  unfold fdPush at hp
  simp only [] at hp
  split at hp
  · simp at hp
  · rename_i s2 h2
    have hget := getConn_setConn_live hc { c with out := (fdOut c req pubs).1, brokerAliases := (fdAliases c req.filter).1 }
    have hA : CS (pushNotifs (setConn s id { c with out := (fdOut c req pubs).1, brokerAliases := (fdAliases c req.filter).1 })
        c.link (fdOut c req pubs).2) := by
      refine h.transfer (LogMono.refl _) (fun r hr => .inl ?_) (fun fi cur hw => ?_)
        (fun p hp' ss hss r hr => .inl ⟨p, hp', ss, hss, hr⟩) (fun p hp' => .inl ⟨p, hp', rfl, rfl⟩)
      · rcases hr with ⟨j, d, hd, hm⟩ | hr
        · have hd' : getConn (setConn s id _) j = some d := hd
          rw [hget] at hd'
          by_cases hj : j = id
          · subst hj; simp only [if_true, Option.some.injEq] at hd'; subst hd'
            exact .inl ⟨j, c, hc, hm⟩
          · simp only [hj, if_false] at hd'; exact .inl ⟨j, d, hd', hm⟩
        · exact .inr hr
      · obtain ⟨j, d, hd, e, he, h1', h2'⟩ := hw
        have hd' : getConn (setConn s id _) j = some d := hd
        rw [hget] at hd'
        by_cases hj : j = id
        · subst hj; simp only [if_true, Option.some.injEq] at hd'; subst hd'
          simp only [] at he
          unfold fdOut at he
          split at he
          · exact .inl ⟨j, c, hc, e, he, h1', h2'⟩
          · rcases numberForwards_inflight _ _ _ _ e he with hm | ⟨hfi, pc, hpc, hcur⟩
            · exact .inl ⟨j, c, hc, e, hm, h1', h2'⟩
            · refine .inr ?_
              unfold fdFwds at hpc
              obtain ⟨pc0, hpc0, rfl⟩ := List.mem_map.mp hpc
              simp only [] at hcur
              rw [h2'] at hcur
              rw [← h1', hfi]
              exact hpubs pc0 hpc0 cur hcur.symm
        · simp only [hj, if_false] at hd'; exact .inl ⟨j, d, hd', e, he, h1', h2'⟩
    obtain ⟨hB, hd2⟩ := fdGroupUpd_cs hA (show ReqOK s.datalog req from hreq) h2
    have hd2' : s2.datalog = s.datalog := hd2
    split at hp
    all_goals
      simp only [Except.ok.injEq, Prod.mk.injEq] at hp; obtain ⟨rfl, rfl, _⟩ := hp
      exact ⟨hB.step0 (CStep.of_conns rfl rfl rfl rfl rfl), rfl, hd2'⟩

/-- a sweep keeps `CursorSound`, and hands back a sound request -/
theorem forwardDeviceData_cs {s s' : RState} {id : Nat} {req req' : DataRequest} {st : ConsumeStatus}
    (hi : DLInv s) (h : CS s) (hno : NoOverflow s) (hreq : ReqOK s.datalog req)
    (hf : forwardDeviceData s id req = .ok (s', req', st)) : CS s' ∧ ReqOK s'.datalog req' := by
  rw [Router.forwardDeviceData_eq] at hf
  split at hf
  · simp at hf
  · rename_i c hc
    simp only [] at hf
    -- the request adopts its group's cursor
    have hreq0 : ReqOK s.datalog (fdReq0 req (fdGrp s req)) := by
      unfold fdGrp
      cases hg : req.group.bind (fun g => alookup g s.shared) with
      | none => exact hreq
      | some g =>
        obtain ⟨gname, hgn, hl⟩ := Option.bind_eq_some_iff.mp hg
        obtain ⟨i, a, b⟩ := h.grp (gname, g) (mem_of_alookup hl)
        have := hreq.2 gname hgn
        have e : i = req.filterIdx := by
          have a' : s.datalog.filterIdx? (gpath gname) = some i := a
          rw [this] at a'; exact (Option.some.inj a').symm
        subst e
        exact ⟨b, hreq.2⟩
    generalize hr0 : fdReq0 req (fdGrp s req) = req0 at hf hreq0
    split at hf
    · simp only [Except.ok.injEq, Prod.mk.injEq] at hf; obtain ⟨rfl, rfl, _⟩ := hf
      exact ⟨h, hreq0⟩
    · split at hf
      · simp at hf
      · rename_i s1 rp slots h1
        obtain ⟨e1, hrp, hsl⟩ := fdRetained_only_oracle h1
        have hs1 : CS s1 := by rw [e1]; exact h.step0 (CStep.of_conns rfl rfl rfl rfl rfl)
        have hd1 : s1.datalog = s.datalog := by rw [e1]
        have hc1 : getConn s1 id = some c := by rw [e1]; exact hc
        split at hf
        · simp at hf
        · rename_i fd hfd
          have hfd' : s.datalog.native[req0.filterIdx]? = some fd := by rw [← hd1]; exact hfd
          obtain ⟨fd0, hfd0, hiss0⟩ := hreq0.1
          rw [hfd'] at hfd0; cases hfd0
          obtain ⟨hist, hrep⟩ := hi.logs fd.log (List.mem_map.mpr ⟨fd, List.mem_of_getElem? hfd', rfl⟩)
          have hU : hist.length + slots < U64 := by
            have := hno fd (List.mem_of_getElem? hfd') hist hrep
            have := fdSlots_bound s c req0.qos (fdGrp s req)
            omega
          obtain ⟨hent, hnext⟩ := clog_readv_issued fd.log hist hrep req0.cursor slots hiss0 hU
          have hreq0' : ReqOK s1.datalog { req0 with forwardRetained := false } := by rw [hd1]; exact hreq0
          have hreq1 : ReqOK s1.datalog { req0 with forwardRetained := false, cursor := (fdPos (fd.log.readv req0.cursor slots).2).1 } := by
            rw [hd1]; exact ⟨⟨fd, hfd', hnext⟩, hreq0.2⟩
          split at hf
          · simp only [Except.ok.injEq, Prod.mk.injEq] at hf; obtain ⟨rfl, rfl, _⟩ := hf
            exact ⟨hs1, hreq0'⟩
          · split at hf
            · simp only [Except.ok.injEq, Prod.mk.injEq] at hf; obtain ⟨rfl, rfl, _⟩ := hf
              exact ⟨hs1, hreq1⟩
            · have hpub : ∀ pc ∈ rp ++ (fd.log.readv req0.cursor slots).1.map (fun e => (e.1, some e.2)), ∀ cur,
                  pc.2 = some cur → IssuedAt s1.datalog req0.filterIdx cur := by
                intro pc hpc cur hcur
                rcases List.mem_append.mp hpc with hm | hm
                · rw [hrp pc hm] at hcur; cases hcur
                · obtain ⟨en, hen, rfl⟩ := List.mem_map.mp hm
                  simp only [Option.some.injEq] at hcur
                  rw [hd1]
                  exact ⟨fd, hfd', hcur ▸ hent en hen⟩
              obtain ⟨a, b, d⟩ := fdPush_cs hs1 hc1 hreq1 hpub hf
              exact ⟨a, by rw [b, d]; exact hreq1⟩

end Rp3
end Router
