/-
Runs of the router model and the invariants of C15 / C16 that hold in every reachable state.
`run2 s ops` folds `step` over a list of (operation, oracle choices for it), installing the choices
before each operation and stopping at the first error (panic or inadmissible oracle choice).
-/
import Proofs.Lemmas.Router.Rp2_Hist2
namespace Router

def run2 (s : RState) : List (Op × List Choice) → RState
  | [] => s
  | (op, choices) :: rest =>
    match step { s with oracle := choices } op with
    | .error _ => s
    | .ok (s', _) => run2 s' rest

/-- reachable from the initial state of a broker with configuration `cfg` -/
def Reachable2 (cfg : Config) (s : RState) : Prop := ∃ ops, run2 (init cfg) ops = s

/-- every run2 is a chain of history steps -/
theorem run_hist : ∀ (ops : List (Op × List Choice)) (s : RState), Hist s (run2 s ops)
  | [], s => Hist.refl s
  | (op, choices) :: rest, s => by
    simp only [run2]
    split
    · exact Hist.refl s
    · rename_i s' o hs
      have h0 : Hist s { s with oracle := choices } := Hist.of_boring (Boring.of_eq rfl rfl rfl)
      exact (h0.trans (step_hist hs)).trans (run_hist rest s')

/-- the whole-history invariants: retained map well formed; every copy ever appended to a filter
    log is unflagged; per client, wills fired so far + will currently stored ≤ wills registered;
    the retained message of every topic is what the accepted publishes so far dictate -/
structure HistInv (s : RState) : Prop where
  ret : RetOK s
  copies : ∀ e ∈ appendedEvents s.ghost, e.2.retain = false
  wills : ∀ cid, firedCount cid s.ghost + stored s.lastWills cid ≤ setCount cid s.ghost
  latest : ∀ t, alookup t s.datalog.retained = retainedSpec t none (acceptedEvents s.ghost)

theorem HistInv.init (cfg : Config) : HistInv (init cfg) :=
  ⟨⟨List.nodup_nil, fun _ h => absurd h (List.not_mem_nil)⟩,
   fun _ h => absurd h (List.not_mem_nil),
   fun cid => by simp [Router.init, firedCount, setCount, stored, alookup],
   fun t => by simp [Router.init, acceptedEvents, retainedSpec, alookup]⟩

theorem HistInv.step {s s' : RState} (hi : HistInv s) (h : Hist s s') : HistInv s' := by
  obtain ⟨evs, g, p, w, r⟩ := h.ghost
  refine ⟨h.ret hi.ret, ?_, ?_, ?_⟩
  · intro e he
    rw [g, appendedEvents_append] at he
    rcases List.mem_append.mp he with h1 | h1
    · exact hi.copies e h1
    · exact p e h1
  · intro cid
    have := hi.wills cid; have := w cid
    rw [g, firedCount_append, setCount_append]
    omega
  · intro t
    rw [r t, g, acceptedEvents_append, retainedSpec_append, ← hi.latest t]

theorem reachable_histInv {cfg : Config} {s : RState} (h : Reachable2 cfg s) : HistInv s := by
  obtain ⟨ops, rfl⟩ := h
  exact (HistInv.init cfg).step (run_hist ops _)

/-! kernel-executable form of `run2` (see the end of Rp1_Decomp.lean) for closed examples -/

def run2X (s : RState) : List (Op × List Choice) → RState
  | [] => s
  | (op, choices) :: rest =>
    match stepX { s with oracle := choices } op with
    | .error _ => s
    | .ok (s', _) => run2X s' rest

theorem run2_eq_run2X : ∀ (ops : List (Op × List Choice)) (s : RState), run2 s ops = run2X s ops
  | [], s => rfl
  | (op, ch) :: rest, s => by
    simp only [run2, run2X, step_eqX]
    split
    · rfl
    · exact run2_eq_run2X rest _

theorem Reachable2.ofX {cfg : Config} {s : RState} (ops : List (Op × List Choice))
    (h : run2X (init cfg) ops = s) : Reachable2 cfg s := ⟨ops, by rw [run2_eq_run2X]; exact h⟩

end Router
