/-
C03, request conservation: for every connection, the data requests it owns — in its tracker, parked
in the waiter lists of the filter logs, or on their way back in `notifications` — are at most one
per filter, belong to a subscription of the connection, and carry the index of their filter's log;
a saved session's tracker satisfies the same. This is what the two dev-profile assertions
`debug_assert!(check_tracker_duplicates(..).is_none())` check.
This file: the keys `(filter, filter_idx)` of the requests a connection owns, list lemmas
(`swap_remove_back`, `Waiters::remove` as permutations), the invariant `RC` and its frame lemmas.
-/
import Proofs.Lemmas.Router.Rp1_DConnect
namespace Router

abbrev RKey := String × Nat

/-- what the invariant reads of a request: the filter and the index of the filter's log (cursor,
    QoS, replay flag change along the way) -/
def DataRequest.key (r : DataRequest) : RKey := (r.filter, r.filterIdx)

/-- keys of the requests of connection `id` in a waiter list / in `notifications` -/
def pickK (id : Nat) (l : List (Nat × DataRequest)) : List RKey :=
  (l.filter (fun w => w.1 == id)).map (fun w => w.2.key)

def trackerKeys (s : RState) (id : Nat) : List RKey :=
  match getConn s id with
  | some c => c.tracker.requests.map (·.key)
  | none => []

def waiterKeys (s : RState) (id : Nat) : List RKey := s.datalog.native.flatMap (fun fd => pickK id fd.waiters)
def notifKeys (s : RState) (id : Nat) : List RKey := pickK id s.notifications

/-- the requests connection `id` owns: tracked, parked, notified -/
def keysOf (s : RState) (id : Nat) : List RKey := trackerKeys s id ++ waiterKeys s id ++ notifKeys s id

def subsOf (s : RState) (id : Nat) : List String :=
  match getConn s id with
  | some c => c.subscriptions
  | none => []

/-- the key's index is the index of the log its filter reads (`$share/<g>/<path>` reads `<path>`);
    `fi`: `datalog.filter_indexes` -/
def KeyOK (fi : List (String × Nat)) (k : RKey) : Prop := alookup (logPath k.1) fi = some k.2

/-! ### list lemmas -/

theorem pickK_nil (id : Nat) : pickK id [] = [] := rfl

theorem pickK_append (id : Nat) (a b : List (Nat × DataRequest)) : pickK id (a ++ b) = pickK id a ++ pickK id b := by
  simp [pickK, List.filter_append]

theorem pickK_cons (id : Nat) (w : Nat × DataRequest) (l : List (Nat × DataRequest)) :
    pickK id (w :: l) = if w.1 = id then w.2.key :: pickK id l else pickK id l := by
  unfold pickK
  by_cases h : w.1 = id
  · simp [h]
  · simp [h]

theorem pickK_perm {id : Nat} {a b : List (Nat × DataRequest)} (h : a.Perm b) : (pickK id a).Perm (pickK id b) :=
  (h.filter _).map _

theorem mem_pickK {id : Nat} {l : List (Nat × DataRequest)} {k : RKey} :
    k ∈ pickK id l ↔ ∃ w ∈ l, w.1 = id ∧ w.2.key = k := by
  simp [pickK, List.mem_map, List.mem_filter, and_assoc]

theorem pickK_filter_other (id : Nat) (l : List (Nat × DataRequest)) (p : Nat × DataRequest → Bool)
    (hp : ∀ w ∈ l, w.1 = id → p w = true) : pickK id (l.filter p) = pickK id l := by
  induction l with
  | nil => rfl
  | cons w l ih =>
    have ih' := ih fun x hx => hp x (List.mem_cons_of_mem _ hx)
    by_cases hw : w.1 = id
    · have := hp w (by simp) hw
      simp only [List.filter_cons, this, if_true, pickK_cons, hw, ih']
    · by_cases hpw : p w = true
      · simp only [List.filter_cons, hpw, if_true, pickK_cons, hw, if_false, ih']
      · simp only [List.filter_cons, hpw, Bool.false_eq_true, if_false, pickK_cons, hw, ih']

theorem set_perm {α : Type} : ∀ (l : List α) (i : Nat) (h : i < l.length) (x : α), (l[i] :: l.set i x).Perm (x :: l)
  | a :: l, 0, _, x => List.Perm.swap _ _ _
  | a :: l, i + 1, h, x => by
    simp only [List.getElem_cons_succ, List.set_cons_succ]
    have ih := set_perm l i (by simpa using h) x
    exact (List.Perm.swap _ _ _).trans ((ih.cons a).trans (List.Perm.swap _ _ _))

/-- `swap_remove_back(i)` removes exactly the entry at `i` (the order of the others may change) -/
theorem swapRemoveBack_perm {α : Type} (l : List α) (i : Nat) (hi : i < l.length) :
    l.Perm (l[i] :: swapRemoveBack l i) := by
  have hne : l ≠ [] := fun e => by subst e; simp at hi
  obtain ⟨init, last, rfl⟩ : ∃ init last, l = init ++ [last] :=
    ⟨l.dropLast, l.getLast hne, (List.dropLast_concat_getLast hne).symm⟩
  unfold swapRemoveBack
  simp only [List.getLast?_append, List.getLast?_singleton, Option.some_or, List.length_append, List.length_cons,
    List.length_nil, Nat.zero_add, Nat.add_right_cancel_iff]
  by_cases hlast : i = init.length
  · subst hlast
    simp only [if_true, List.dropLast_concat]
    rw [List.getElem_append_right (Nat.le_refl _)]
    simp only [Nat.sub_self, List.getElem_cons_zero]
    exact List.perm_append_singleton _ _
  · have hlt : i < init.length := by simp at hi; omega
    simp only [hlast, if_false]
    rw [List.getElem_append_left hlt, List.set_append_left _ _ hlt, List.dropLast_concat]
    exact (List.perm_append_singleton _ _).trans (set_perm init i hlt last).symm

/-- `Waiters::remove(id)` splits the waiter list into the entries of `id` (collected, in some order)
    and the others (kept, in some order) -/
theorem waitersRemove_perm (id : Nat) : ∀ (fuel : Nat) (ws : List (Nat × DataRequest)) (acc : List DataRequest),
    ws.length < fuel →
    ∃ removed : List (Nat × DataRequest),
      ws.Perm (removed ++ (waitersRemove fuel ws id acc).1) ∧ (∀ w ∈ removed, w.1 = id) ∧
      (waitersRemove fuel ws id acc).2 = acc ++ removed.map (·.2) ∧
      (∀ w ∈ (waitersRemove fuel ws id acc).1, w.1 ≠ id)
  | 0, ws, acc, h => by omega
  | fuel + 1, ws, acc, h => by
    simp only [waitersRemove]
    split
    · rename_i hnone
      refine ⟨[], by simp, by simp, by simp, fun w hw e => ?_⟩
      have := List.findIdx?_eq_none_iff.mp hnone w hw
      simp [e] at this
    · rename_i i hi
      obtain ⟨hlt, hp, _⟩ := List.findIdx?_eq_some_iff_getElem.mp hi
      rw [List.getElem?_eq_getElem hlt]
      simp only []
      have hne : ws ≠ [] := fun e => by subst e; simp at hlt
      have hlen : (swapRemoveBack ws i).length < fuel := by
        have := (swapRemoveBack_perm ws i hlt).length_eq
        simp only [List.length_cons] at this; omega
      obtain ⟨removed, p1, p2, p3, p4⟩ := waitersRemove_perm id fuel (swapRemoveBack ws i) (acc ++ [ws[i].2]) hlen
      refine ⟨ws[i] :: removed, ?_, ?_, ?_, p4⟩
      · exact (swapRemoveBack_perm ws i hlt).trans (by simpa using p1.cons ws[i])
      · intro w hw
        rcases List.mem_cons.mp hw with rfl | hw
        · simpa using hp
        · exact p2 w hw
      · rw [p3]; simp

theorem pickK_none {id : Nat} {l : List (Nat × DataRequest)} (h : ∀ w ∈ l, w.1 ≠ id) : pickK id l = [] := by
  unfold pickK
  rw [List.filter_eq_nil_iff.mpr]
  · rfl
  · intro w hw; simpa using h w hw

theorem pickK_all {id : Nat} {l : List (Nat × DataRequest)} (h : ∀ w ∈ l, w.1 = id) :
    pickK id l = l.map (fun w => w.2.key) := by
  unfold pickK
  rw [List.filter_eq_self.mpr]
  intro w hw; simpa using h w hw

/-- `DataLog::clean(id)`, per filter log: the other connections keep their parked requests, `id`
    keeps none, and the collected requests are `id`'s parked ones -/
theorem cleanFd_keys (id : Nat) (fd : FilterData) :
    (∀ j, j ≠ id → (pickK j (cleanFd id fd).waiters).Perm (pickK j fd.waiters)) ∧
    pickK id (cleanFd id fd).waiters = [] ∧
    (((waitersRemove (fd.waiters.length + 1) fd.waiters id []).2).map (·.key)).Perm (pickK id fd.waiters) ∧
    (∀ w ∈ (cleanFd id fd).waiters, w ∈ fd.waiters) := by
  obtain ⟨removed, p1, p2, p3, p4⟩ := waitersRemove_perm id (fd.waiters.length + 1) fd.waiters [] (by omega)
  refine ⟨fun j hj => ?_, pickK_none p4, ?_, fun w hw => ?_⟩
  · have := pickK_perm (id := j) p1
    have e : pickK j removed = [] := pickK_none (fun w hw e => hj (by rw [← e]; exact p2 w hw))
    rw [pickK_append, e, List.nil_append] at this
    exact this.symm
  · have := pickK_perm (id := id) p1
    have e : pickK id (waitersRemove (fd.waiters.length + 1) fd.waiters id []).1 = [] := pickK_none p4
    rw [pickK_append, e, List.append_nil, pickK_all p2] at this
    rw [p3]; simp only [List.nil_append, List.map_map]
    exact this.symm
  · exact p1.mem_iff.mpr (List.mem_append_right _ hw)

theorem perm_flatMap_congr {α β : Type} {l : List α} {f g : α → List β} (h : ∀ a ∈ l, (f a).Perm (g a)) :
    (l.flatMap f).Perm (l.flatMap g) := by
  induction l with
  | nil => exact .refl _
  | cons a l ih =>
    simp only [List.flatMap_cons]
    exact (h a (by simp)).append (ih fun b hb => h b (List.mem_cons_of_mem _ hb))

theorem flatMap_map_eq {α β γ : Type} (l : List α) (f : α → β) (g : β → List γ) :
    (l.map f).flatMap g = l.flatMap (fun a => g (f a)) := by
  induction l with
  | nil => rfl
  | cons a l ih => simp [ih]

/-- replacing one element of a list under `flatMap` -/
theorem flatMap_set_perm {α β : Type} (l : List α) (i : Nat) (a x : α) (f : α → List β) (h : l[i]? = some a) :
    (f a ++ (l.set i x).flatMap f).Perm (f x ++ l.flatMap f) := by
  induction l generalizing i with
  | nil => simp at h
  | cons b l ih =>
    cases i with
    | zero =>
      simp only [List.getElem?_cons_zero, Option.some.injEq] at h; subst h
      simp only [List.set_cons_zero, List.flatMap_cons]
      exact (List.perm_append_comm_assoc _ _ _)
    | succ i =>
      simp only [List.getElem?_cons_succ] at h
      simp only [List.set_cons_succ, List.flatMap_cons]
      have := ih i h
      exact (List.perm_append_comm_assoc _ _ _).trans ((this.append_left (f b)).trans (List.perm_append_comm_assoc _ _ _))

/-! ### the invariant -/

/-- request conservation, on abstract data: `K id` the keys connection `id` owns, `S id` its
    subscriptions, `fi` the filter index map -/
structure KInv (K : Nat → List RKey) (S : Nat → List String) (fi : List (String × Nat)) : Prop where
  /-- at most one request per filter -/
  nodup : ∀ id, ((K id).map (·.1)).Nodup
  /-- only for subscribed filters (in particular none for an id without connection) -/
  subs : ∀ id, ∀ k ∈ K id, k.1 ∈ S id
  /-- with the index of the filter's log -/
  idx : ∀ id, ∀ k ∈ K id, KeyOK fi k

/-- a saved session's tracker: one request per filter, for saved subscriptions, valid index -/
def SavedOK (fi : List (String × Nat)) (ss : SessionState) : Prop :=
  ((ss.tracker.requests.map (·.filter)).Nodup) ∧
  ∀ r ∈ ss.tracker.requests, r.filter ∈ ss.subscriptions ∧ KeyOK fi r.key

/-- every parked request sits in the waiter list of the log its `filter_idx` names -/
def WIdx (s : RState) : Prop :=
  ∀ (i : Nat) (fd : FilterData), s.datalog.native[i]? = some fd → ∀ w ∈ fd.waiters, w.2.filterIdx = i

/-- request conservation with a list `ex` of keys that connection `o` holds outside the state (the
    local `requests` / `skipped` of `consume`) -/
structure RCX (s : RState) (o : Nat) (ex : List RKey) : Prop where
  k : KInv (fun id => keysOf s id ++ (if id = o then ex else [])) (subsOf s) s.datalog.filterIndexes
  widx : WIdx s
  grv : ∀ p ∈ s.graveyard, ∀ ss, p.2 = some ss → SavedOK s.datalog.filterIndexes ss

/-- request conservation -/
def RC (s : RState) : Prop := RCX s 0 []

theorem KInv.of_perm {K K' : Nat → List RKey} {S : Nat → List String} {fi : List (String × Nat)}
    (h : KInv K S fi) (hp : ∀ id, (K' id).Perm (K id)) : KInv K' S fi :=
  ⟨fun id => (((hp id).map _).nodup_iff).mpr (h.nodup id),
   fun id k hk => h.subs id k ((hp id).mem_iff.mp hk),
   fun id k hk => h.idx id k ((hp id).mem_iff.mp hk)⟩

/-- a sub-multiset of the keys, the same or more subscriptions, a compatible index map -/
theorem KInv.of_sub {K K' : Nat → List RKey} {S S' : Nat → List String} {fi fi' : List (String × Nat)}
    (h : KInv K S fi) (hp : ∀ id, ∃ rem, (K id).Perm (K' id ++ rem))
    (hs : ∀ id, ∀ k ∈ K' id, k.1 ∈ S id → k.1 ∈ S' id)
    (hf : ∀ k, KeyOK fi k → KeyOK fi' k) : KInv K' S' fi' := by
  refine ⟨fun id => ?_, fun id k hk => ?_, fun id k hk => ?_⟩
  · obtain ⟨rem, p⟩ := hp id
    have := ((p.map (·.1)).nodup_iff).mp (h.nodup id)
    rw [List.map_append] at this
    exact (List.nodup_append.mp this).1
  · obtain ⟨rem, p⟩ := hp id
    exact hs id k hk (h.subs id k (p.mem_iff.mpr (List.mem_append_left _ hk)))
  · obtain ⟨rem, p⟩ := hp id
    exact hf k (h.idx id k (p.mem_iff.mpr (List.mem_append_left _ hk)))

theorem RC.iff (s : RState) : RC s ↔ KInv (keysOf s) (subsOf s) s.datalog.filterIndexes ∧ WIdx s ∧
    ∀ p ∈ s.graveyard, ∀ ss, p.2 = some ss → SavedOK s.datalog.filterIndexes ss := by
  constructor
  · intro h
    refine ⟨h.k.of_perm fun id => ?_, h.widx, h.grv⟩
    simp
  · intro ⟨a, b, c⟩
    exact ⟨a.of_perm fun id => by simp, b, c⟩

theorem RCX.nil_iff (s : RState) (o : Nat) : RCX s o [] ↔ RC s := by
  constructor
  · intro h; exact ⟨h.k.of_perm fun id => by simp, h.widx, h.grv⟩
  · intro h; exact ⟨h.k.of_perm fun id => by simp, h.widx, h.grv⟩

/-! ### what the keys depend on -/

/-- the part of a connection the invariant reads -/
def cviewOf (s : RState) (j : Nat) : Option (List RKey × List String) :=
  (getConn s j).map (fun c => (c.tracker.requests.map (·.key), c.subscriptions))

theorem trackerKeys_of_cview {s s' : RState} {j : Nat} (h : cviewOf s' j = cviewOf s j) :
    trackerKeys s' j = trackerKeys s j ∧ subsOf s' j = subsOf s j := by
  unfold cviewOf at h
  unfold trackerKeys subsOf
  cases h1 : getConn s' j <;> cases h2 : getConn s j <;> simp_all

theorem cviewOf_setConn {s : RState} {id : Nat} {c : Conn} (hc : getConn s id = some c) (c' : Conn) (j : Nat) :
    cviewOf (setConn s id c') j =
      if j = id then some (c'.tracker.requests.map (·.key), c'.subscriptions) else cviewOf s j := by
  unfold cviewOf
  rw [getConn_setConn_live hc]
  split <;> rfl

theorem cviewOf_of_conns {s s' : RState} (h : s'.conns = s.conns) (j : Nat) : cviewOf s' j = cviewOf s j := by
  unfold cviewOf getConn; rw [h]

/-- the frame lemma: the invariant reads the trackers' requests and the subscriptions of the
    connections, the waiter lists, `notifications`, the graveyard and `filter_indexes` -/
theorem RCX.congr {s s' : RState} {o : Nat} {ex : List RKey} (h : RCX s o ex)
    (hc : ∀ j, cviewOf s' j = cviewOf s j)
    (hw : s'.datalog.native.map (·.waiters) = s.datalog.native.map (·.waiters))
    (hn : s'.notifications = s.notifications) (hg : s'.graveyard = s.graveyard)
    (hf : s'.datalog.filterIndexes = s.datalog.filterIndexes) : RCX s' o ex := by
  have hwk : ∀ id, waiterKeys s' id = waiterKeys s id := fun id => by
    unfold waiterKeys
    have := congrArg (fun l => l.flatMap (fun ws => pickK id ws)) hw
    simpa [flatMap_map_eq] using this
  have hk : ∀ id, keysOf s' id = keysOf s id := fun id => by
    unfold keysOf notifKeys; rw [(trackerKeys_of_cview (hc id)).1, hwk, hn]
  have hs : subsOf s' = subsOf s := funext fun id => (trackerKeys_of_cview (hc id)).2
  refine ⟨?_, ?_, ?_⟩
  · rw [hf, hs]; simp only [hk]; exact h.k
  · intro i fd hfd w hw'
    have e : (s'.datalog.native.map (·.waiters))[i]? = some fd.waiters := by simp [hfd]
    rw [hw] at e
    simp only [List.getElem?_map, Option.map_eq_some_iff] at e
    obtain ⟨fd0, h0, e0⟩ := e
    exact h.widx i fd0 h0 w (e0 ▸ hw')
  · rw [hg, hf]; exact h.grv

theorem RC.congr {s s' : RState} (h : RC s)
    (hc : ∀ j, cviewOf s' j = cviewOf s j)
    (hw : s'.datalog.native.map (·.waiters) = s.datalog.native.map (·.waiters))
    (hn : s'.notifications = s.notifications) (hg : s'.graveyard = s.graveyard)
    (hf : s'.datalog.filterIndexes = s.datalog.filterIndexes) : RC s' := RCX.congr h hc hw hn hg hf

/-- replacing a live connection by one with the same tracked requests and subscriptions -/
theorem RCX.of_set {s s' : RState} {o : Nat} {ex : List RKey} {id : Nat} {c c' : Conn} (h : RCX s o ex)
    (hc : getConn s id = some c) (hconns : s'.conns = s.conns.set id c')
    (hr : c'.tracker.requests.map (·.key) = c.tracker.requests.map (·.key)) (hsub : c'.subscriptions = c.subscriptions)
    (hw : s'.datalog.native.map (·.waiters) = s.datalog.native.map (·.waiters))
    (hn : s'.notifications = s.notifications) (hg : s'.graveyard = s.graveyard)
    (hf : s'.datalog.filterIndexes = s.datalog.filterIndexes) : RCX s' o ex := by
  refine h.congr (fun j => ?_) hw hn hg hf
  have e : cviewOf s' j = cviewOf (setConn s id c') j := cviewOf_of_conns (s := setConn s id c') hconns j
  rw [e, cviewOf_setConn hc]
  split
  · rename_i hj; subst hj
    unfold cviewOf; rw [hc]; simp [hr, hsub]
  · rfl

end Router
