/-
C03: `DInv` through the publish / subscribe / unsubscribe paths of `handle_device_payload`.
-/
import Proofs.Lemmas.Router.Rp1_DHelpers
namespace Router
variable {A : String → Prop}

theorem appendToCommitlog_good {s : RState} {id : Nat} {p : Pub} (h : DInv s) (hl : Live s id) :
    Good A (fun r => DInv r.1 ∧ (r.2 ≠ none → r.1.notifications = s.notifications)) (appendToCommitlog s id p) := by
  obtain ⟨c, hc⟩ := hl.get
  unfold appendToCommitlog
  simp only [hc]
  split
  · exact ⟨h, fun _ => rfl⟩
  · split
    · exact ⟨h, fun _ => rfl⟩
    · rename_i s1 p1 hr
      have h1 : DInv s1 ∧ s1.notifications = s.notifications := by
        split at hr
        · simp only [Except.ok.injEq, Prod.mk.injEq] at hr; obtain ⟨rfl, _⟩ := hr; exact ⟨h, rfl⟩
        · split at hr
          · simp at hr
          · split at hr
            · split at hr
              · simp at hr
              · simp only [Except.ok.injEq, Prod.mk.injEq] at hr; obtain ⟨rfl, _⟩ := hr; exact ⟨h, rfl⟩
            · split at hr
              · simp at hr
              · simp only [Except.ok.injEq, Prod.mk.injEq] at hr; obtain ⟨rfl, _⟩ := hr
                exact ⟨h.of_set hc rfl (h.trk id c hc) rfl rfl rfl rfl rfl rfl, rfl⟩
      split
      · exact ⟨h1.1, fun _ => h1.2⟩
      · rename_i topic _
        have hu := updateRetained_dinv h1.1 topic p1
        have hu' : DInv ((updateRetained s1 topic p1).g (Ghost.accepted (some id) p1 topic)) :=
          hu.1.congr rfl rfl rfl rfl rfl rfl rfl
        gbind2 (dlMatches_good (topic := topic) hu') with s2 idxs h2 q2
        gbind (appendToFilters_good idxs (p := { p1 with retain := false }) q2.1 q2.2.1) with s3 h3 q3
        exact ⟨q3, fun hne => (hne rfl).elim⟩

theorem nextNativeOffset_dinv {s : RState} (h : DInv s) (filter : String) :
    DInv (nextNativeOffset s filter).1 ∧ (nextNativeOffset s filter).2.1 < N (nextNativeOffset s filter).1 ∧
    (nextNativeOffset s filter).1.notifications = s.notifications ∧
    (nextNativeOffset s filter).1.conns = s.conns := by
  unfold nextNativeOffset
  split
  · rename_i idx hidx
    exact ⟨h, h.fidx _ (mem_of_alookup hidx), rfl, rfl⟩
  · simp only []
    have hN : ∀ k, k < N s → k < (s.datalog.native ++ [({ filter := filter, log := CLog.Log.new s.config.maxSegmentSize s.config.maxSegmentCount } : FilterData)]).length :=
      fun k hk => by simp only [List.length_append, List.length_cons, List.length_nil]; unfold N at hk; omega
    refine ⟨⟨?_, ?_, ?_, ?_, ?_, ?_, h.grp⟩, ?_, by first | rfl | trivial, by first | rfl | trivial⟩
    · intro q hq
      rcases List.mem_append.mp hq with hq | hq
      · exact hN _ (h.fidx q hq)
      · simp only [List.mem_singleton] at hq; subst hq
        show s.datalog.native.length < (s.datalog.native ++ [_]).length
        simp
    · intro q hq i hi
      obtain ⟨q0, hq0, e⟩ := List.mem_map.mp hq
      split at e
      · subst e
        rcases List.mem_append.mp hi with hi | hi
        · exact hN _ (h.pf q0 hq0 i hi)
        · simp only [List.mem_singleton] at hi; subst hi
          show s.datalog.native.length < (s.datalog.native ++ [_]).length
          simp
      · subst e; exact hN _ (h.pf _ hq0 i hi)
    · intro j c hc r hr; exact hN _ (h.trk j c hc r hr)
    · intro fd hfd w hw
      rcases List.mem_append.mp hfd with hfd | hfd
      · exact ⟨hN _ (h.wt fd hfd w hw).1, (h.wt fd hfd w hw).2⟩
      · simp only [List.mem_singleton] at hfd; subst hfd; simp at hw
    · intro n hn; exact ⟨hN _ (h.ntf n hn).1, (h.ntf n hn).2⟩
    · intro q hq ss hss; exact ⟨fun r hr => hN _ ((h.grv q hq ss hss).1 r hr), (h.grv q hq ss hss).2⟩
    · show s.datalog.native.length < (s.datalog.native ++ [_]).length
      simp

theorem pfShared_nonempty {s : RState} (h : DInv s) (cursor : Cursor) (cid : String) (group : Option String) :
    ∀ p ∈ pfShared s cursor cid group, p.2.clients ≠ [] := by
  intro p hp
  unfold pfShared at hp
  split at hp
  · exact h.grp p hp
  · rcases mem_ainsert hp with hp | rfl
    · exact h.grp p hp
    · simp

theorem track_N {s s' : RState} {id : Nat} {r : DataRequest} (h : track s id r = .ok s') : N s' = N s := by
  unfold track at h
  split at h
  · simp at h
  · simp only [Except.ok.injEq] at h; subst h; rfl

theorem reschedule_N {s s' : RState} {id : Nat} {r : SchedReason} (h : reschedule s id r = .ok s') : N s' = N s := by
  unfold N; rw [(reschedule_rq h).1]

theorem pfTail_good {s : RState} {id : Nat} (hpf : A dupPrepareFilter) (h : DInv s) (hl : Live s id) :
    Good A (fun s' => DInv s' ∧ s'.notifications = s.notifications) (pfTail s id) := by
  obtain ⟨c, hc⟩ := hl.get
  unfold pfTail
  gbind (reschedule_good (r := .newFilter) h hc (by simp)) with s1 h1 q1
  split
  · exact q1
  · split
    · exact q1
    · exact hpf

theorem prepareFilter_good {s : RState} {id : Nat} {cursor : Cursor} {idx : Nat} {f : SubFilter}
    {group : Option String} {subId : Option Nat} (hpf : A dupPrepareFilter) (h : DInv s) (hl : Live s id)
    (hi : idx < N s) :
    Good A (fun s' => DInv s' ∧ s'.notifications = s.notifications)
      (prepareFilter s id cursor idx f group subId) := by
  obtain ⟨c, hc⟩ := hl.get
  rw [prepareFilter_eq]
  simp only [hc]
  have h1 : DInv (pfState s id cursor f.path group c.clientId) :=
    (h.with_shared _ (pfShared_nonempty h cursor c.clientId group)).congr rfl rfl rfl rfl rfl rfl rfl
  have hc1 : getConn (pfState s id cursor f.path group c.clientId) id = some c := hc
  have ht : (pfConn c f.path subId).tracker = c.tracker := by cases subId <;> rfl
  have hr1 : ReqsOK (N (pfState s id cursor f.path group c.clientId)) (pfConn c f.path subId).tracker.requests := by
    rw [ht]; exact h.trk id c hc
  split
  · exact ⟨h1.of_set hc1 rfl hr1 rfl rfl rfl rfl rfl rfl, rfl⟩
  · have h2 : DInv (setConn ((pfState s id cursor f.path group c.clientId).g
          (.subscribed id f.path f.qos idx cursor group true)) id
          { pfConn c f.path subId with subscriptions := c.subscriptions ++ [f.path] }) :=
      h1.of_set hc1 rfl hr1 rfl rfl rfl rfl rfl rfl
    have hc1' : getConn ((pfState s id cursor f.path group c.clientId).g
          (.subscribed id f.path f.qos idx cursor group true)) id = some c := hc
    have l2 : Live (setConn ((pfState s id cursor f.path group c.clientId).g
          (.subscribed id f.path f.qos idx cursor group true)) id
          { pfConn c f.path subId with subscriptions := c.subscriptions ++ [f.path] }) id := by
      unfold Live; rw [getConn_setConn_live hc1']; simp
    gbind (track_good (r := pfReq idx f cursor group) h2 l2 hi) with s3 h3 q3
    refine (pfTail_good hpf q3.1 (l2.shape (track_shape h3))).mono fun s' q => ⟨q.1, ?_⟩
    rw [q.2, q3.2]; rfl

theorem subscribeFilters_good {id : Nat} {subId : Option Nat} (hpf : A dupPrepareFilter) :
    ∀ (fs : List SubFilter) {s : RState} {codes : List Nat} {fl : Flags}, DInv s → Live s id →
    Good A (fun r => DInv r.1 ∧ r.1.notifications = s.notifications ∧ r.2.2.newData = fl.newData)
      (subscribeFilters s id subId fs codes fl)
  | [], s, codes, fl, h, _ => ⟨h, rfl, rfl⟩
  | f :: rest, s, codes, fl, h, hl => by
    rw [subscribeFilters_cons]
    split
    · exact ⟨h, rfl, rfl⟩
    · split
      · exact ⟨h, rfl, rfl⟩
      · simp only []
        obtain ⟨hn, hidx, hnt, hcn⟩ := nextNativeOffset_dinv h (sfFilter f.path)
        have ln : Live (nextNativeOffset s (sfFilter f.path)).1 id := by
          unfold Live getConn at hl ⊢; rw [hcn]; exact hl
        gbind (prepareFilter_good (cursor := (nextNativeOffset s (sfFilter f.path)).2.2) (f := f)
          (group := sfGroup f.path) (subId := subId) hpf hn ln hidx) with s1 h1 q1
        refine (subscribeFilters_good hpf rest q1.1 (ln.shape (prepareFilter_shape h1))).mono fun r q => ⟨q.1, ?_, q.2.2⟩
        rw [q.2.1, q1.2, hnt]

/-! ### unsubscribe -/

theorem mem_swapRemoveBack {α : Type} {l : List α} {i : Nat} {x : α} (h : x ∈ swapRemoveBack l i) : x ∈ l := by
  unfold swapRemoveBack at h
  split at h
  · exact h
  · rename_i last hlast
    split at h
    · exact List.dropLast_subset _ h
    · have := List.dropLast_subset _ h
      rcases List.mem_or_eq_of_mem_set this with h' | rfl
      · exact h'
      · exact List.mem_of_getLast? hlast

theorem ufShared_nonempty {s : RState} (h : DInv s) (f cid : String) : ∀ p ∈ ufShared s f cid, p.2.clients ≠ [] := by
  intro p hp
  unfold ufShared at hp
  split at hp
  · exact h.grp p hp
  · split at hp
    · exact h.grp p hp
    · rename_i g hg
      simp only [] at hp
      split at hp
      · exact h.grp p (mem_aremove hp)
      · rename_i hne
        rcases mem_ainsert hp with hp | rfl
        · exact h.grp p hp
        · exact fun e => hne (by simp [show (g.removeClient cid).clients = [] from e])

theorem removeWaiterFor_dinv {s : RState} (h : DInv s) (id : Nat) (f : String) (ns : List (Nat × DataRequest))
    (hns : ∀ n ∈ ns, n.2.filterIdx < N s ∧ Live s n.1) (g1 : List Ghost) :
    DInv ({ s with datalog := removeWaiterFor s.datalog id f, notifications := ns, ghost := g1 } : RState) := by
  unfold removeWaiterFor
  simp only []
  split
  next => exact (h.with_notifications ns hns).congr rfl rfl rfl rfl rfl rfl rfl
  next idx hidx =>
    split
    next => exact (h.with_notifications ns hns).congr rfl rfl rfl rfl rfl rfl rfl
    next fd hfd =>
      split
      next => exact (h.with_notifications ns hns).congr rfl rfl rfl rfl rfl rfl rfl
      next i hi =>
        refine h.native_set idx _ (fun w hw => ?_) ns hns g1
        exact h.wt fd (List.mem_of_getElem? hfd) w (mem_swapRemoveBack hw)

/-- the state of `unsubscribeFilters` before the slab / datalog / notification updates -/
def ufState1 (s : RState) (id : Nat) (ids : List Nat) (c : Conn) (f : String) : RState :=
  { s with subscriptionMap := ainsert f (ids.filter (· ≠ id)) s.subscriptionMap, shared := ufShared s f c.clientId,
           turnMoved := ufTurnMoved s f c.clientId }

theorem ufState_dinv {s : RState} {id : Nat} {ids : List Nat} {c : Conn} {f : String} (h : DInv s)
    (hc : getConn s id = some c) :
    DInv (ufState s id ids c f) ∧ (s.notifications = [] → (ufState s id ids c f).notifications = []) ∧
    Live (ufState s id ids c f) id := by
  have h1 : DInv (ufState1 s id ids c f) :=
    (h.with_shared _ (ufShared_nonempty h f c.clientId)).congr rfl rfl rfl rfl rfl rfl rfl
  have hc1 : getConn (ufState1 s id ids c f) id = some c := hc
  have h2 := h1.of_set (s' := setConn _ id (ufConn s.datalog c f)) hc1 rfl
    (show ReqsOK _ (c.tracker.requests.filter _) from (h.trk id c hc).filter _) rfl rfl rfl rfl rfl rfl
  have l2 : Live (setConn (ufState1 s id ids c f) id (ufConn s.datalog c f)) id := by
    unfold Live; rw [getConn_setConn_live hc1]; simp
  refine ⟨?_, fun e => ?_, l2⟩
  · unfold ufState
    simp only [RState.g]
    exact removeWaiterFor_dinv h2 id f _ (fun n hn => h2.ntf n (List.mem_filter.mp hn).1) _
  · unfold ufState
    show List.filter _ s.notifications = []
    rw [e]; rfl

theorem unsubscribeFilters_good {id : Nat} : ∀ (fs : List String) {s : RState} {rs : List Bool}, DInv s →
    Live s id →
    Good A (fun r => DInv r.1 ∧ (s.notifications = [] → r.1.notifications = []))
      (unsubscribeFilters s id fs rs)
  | [], s, rs, h, _ => ⟨h, fun e => e⟩
  | f :: rest, s, rs, h, hl => by
    rw [unsubscribeFilters_cons]
    split
    · exact unsubscribeFilters_good rest h hl
    · split
      · exact unsubscribeFilters_good rest h hl
      · split
        · rename_i hnone
          obtain ⟨c, hc⟩ := hl.get
          rw [hc] at hnone; simp at hnone
        · rename_i c hc
          split
          · exact unsubscribeFilters_good (s := { s with subscriptionMap := ainsert f (List.filter (· ≠ id) ‹List Nat›) s.subscriptionMap }) rest (h.congr rfl rfl rfl rfl rfl rfl rfl) hl
          · obtain ⟨hu, hn, hl'⟩ := ufState_dinv (ids := ‹List Nat›) (f := f) h hc
            exact (unsubscribeFilters_good rest hu hl').mono fun r q => ⟨q.1, fun e => q.2 (hn e)⟩

end Router
