/-
SUBSCRIBE / UNSUBSCRIBE loops: frame (ack logs, links untouched), the granted codes / reasons
they return, and what `prepare_filter` does to the tracker (C06 SUBACK/UNSUBACK, C15 replay flag).
-/
import Proofs.Lemmas.Router.Rp2_Frame
namespace Router

/-- the tracker's requests of a connection -/
def requestsOf (s : RState) (id : Nat) : Option (List DataRequest) := (getConn s id).map (·.tracker.requests)

/-- the request `prepare_filter` creates for a new subscription -/
def newRequest (cursor : Cursor) (idx : Nat) (f : SubFilter) (group : Option String) : DataRequest :=
  { filter := f.path, filterIdx := idx, qos := f.qos, cursor := cursor,
    forwardRetained := group.isNone, group := group }

/-- state after the bookkeeping common to both branches of `prepare_filter` -/
def prepBook (s : RState) (id : Nat) (cursor : Cursor) (f : SubFilter) (group : Option String) (c : Conn) : RState :=
  let smap := match alookup f.path s.subscriptionMap with
    | some ids => ainsert f.path (if ids.contains id then ids else ids ++ [id]) s.subscriptionMap
    | none => s.subscriptionMap ++ [(f.path, [id])]
  let s := { s with subscriptionMap := smap }
  match group with
  | none => s
  | some g =>
    let grp := (alookup g s.shared).getD { cursor := cursor, strategy := s.config.strategy }
    { s with shared := ainsert g { grp with clients := grp.clients ++ [c.clientId] } s.shared }

def prepConn (f : SubFilter) (subId : Option Nat) (c : Conn) : Conn :=
  match subId with
  | some i => { c with subscriptionIds := ainsert f.path i c.subscriptionIds }
  | none => c

theorem prepBook_getConn (s : RState) (id : Nat) (cursor : Cursor) (f : SubFilter) (group : Option String)
    (c : Conn) (j : Nat) : getConn (prepBook s id cursor f group c) j = getConn s j := by
  unfold prepBook; cases group <;> rfl

theorem prepBook_frame (s : RState) (id : Nat) (cursor : Cursor) (f : SubFilter) (group : Option String)
    (c : Conn) : AckFrame s (prepBook s id cursor f group c) := by
  unfold prepBook; cases group <;> exact AckFrame.of_eq rfl rfl

theorem prepBook_same (s : RState) (id : Nat) (cursor : Cursor) (f : SubFilter) (group : Option String)
    (c : Conn) : (prepBook s id cursor f group c).datalog = s.datalog ∧
      (prepBook s id cursor f group c).notifications = s.notifications ∧
      (prepBook s id cursor f group c).readyqueue = s.readyqueue ∧
      (prepBook s id cursor f group c).lastWills = s.lastWills := by
  unfold prepBook; cases group <;> exact ⟨rfl, rfl, rfl, rfl⟩

theorem prepConn_view (f : SubFilter) (subId : Option Nat) (c : Conn) :
    (prepConn f subId c).view = c.view ∧ (prepConn f subId c).subscriptions = c.subscriptions ∧
    (prepConn f subId c).tracker = c.tracker := by
  unfold prepConn; cases subId <;> exact ⟨rfl, rfl, rfl⟩

/-- `prepare_filter` for a filter the connection already has: bookkeeping only -/
theorem prepareFilter_repeated (s : RState) (id : Nat) (cursor : Cursor) (idx : Nat) (f : SubFilter)
    (group : Option String) (subId : Option Nat) (c : Conn) (hc : getConn s id = some c)
    (hin : c.subscriptions.contains f.path = true) :
    prepareFilter s id cursor idx f group subId =
      .ok ((setConn (prepBook s id cursor f group c) id (prepConn f subId c)).g
            (.subscribed id f.path f.qos idx cursor group false)) := by
  unfold prepareFilter
  simp only [getConn] at hc ⊢
  simp only [hc]
  cases group <;> cases subId <;> simp only [hin, if_true, prepBook, prepConn] <;> rfl

/-- `prepare_filter` for a new filter: the request is tracked and the connection rescheduled -/
theorem prepareFilter_new (s s' : RState) (id : Nat) (cursor : Cursor) (idx : Nat) (f : SubFilter)
    (group : Option String) (subId : Option Nat) (c : Conn) (hc : getConn s id = some c)
    (hnew : c.subscriptions.contains f.path = false)
    (h : prepareFilter s id cursor idx f group subId = .ok s') :
    ∃ s1, track (setConn ((prepBook s id cursor f group c).g (.subscribed id f.path f.qos idx cursor group true)) id
              { prepConn f subId c with subscriptions := c.subscriptions ++ [f.path] }) id
            (newRequest cursor idx f group) = .ok s1 ∧
          reschedule s1 id .newFilter = .ok s' := by
  unfold prepareFilter at h
  have hc0 := hc
  simp only [getConn] at hc0
  simp only [getConn, hc0] at h
  cases group <;> cases subId <;>
    simp only [hnew, Bool.false_eq_true, if_false] at h <;>
    simp only [prepBook, prepConn, newRequest] <;>
    (split at h
     · simp at h
     · rename_i s1 h1
       split at h
       · simp at h
       · rename_i s2 h2
         refine ⟨s1, h1, ?_⟩
         split at h
         · simp only [Except.ok.injEq] at h; subst h; exact h2
         · split at h
           · simp only [Except.ok.injEq] at h; subst h; exact h2
           · simp at h)

theorem prepareFilter_frame {s s' : RState} {id : Nat} {cursor : Cursor} {idx : Nat} {f : SubFilter}
    {group : Option String} {subId : Option Nat}
    (h : prepareFilter s id cursor idx f group subId = .ok s') : AckFrame s s' := by
  cases hc : getConn s id with
  | none =>
    unfold prepareFilter at h
    simp only [getConn] at hc
    simp only [getConn, hc] at h
    simp at h
  | some c =>
    have hb := prepBook_frame s id cursor f group c
    have hcb : getConn (prepBook s id cursor f group c) id = some c := by rw [prepBook_getConn]; exact hc
    cases hin : c.subscriptions.contains f.path with
    | true =>
      rw [prepareFilter_repeated s id cursor idx f group subId c hc hin] at h
      simp only [Except.ok.injEq] at h; subst h
      have := AckFrame.setConn hcb (prepConn_view f subId c).1
      exact hb.trans ⟨this.links, this.conns⟩
    | false =>
      obtain ⟨s1, h1, h2⟩ := prepareFilter_new s s' id cursor idx f group subId c hc hin h
      have hv : ({ prepConn f subId c with subscriptions := c.subscriptions ++ [f.path] } : Conn).view = c.view :=
        (prepConn_view f subId c).1
      have hg : getConn ((prepBook s id cursor f group c).g (.subscribed id f.path f.qos idx cursor group true)) id = some c := hcb
      have f1 : AckFrame (prepBook s id cursor f group c)
          ((prepBook s id cursor f group c).g (.subscribed id f.path f.qos idx cursor group true)) :=
        AckFrame.of_eq rfl rfl
      exact (((hb.trans f1).trans (AckFrame.setConn hg hv)).trans (track_frame h1)).trans (reschedule_frame h2)

/-! ### SUBSCRIBE loop -/

theorem subscribeFilters_frame (id : Nat) (subId : Option Nat) : ∀ (fs : List SubFilter) {s s' : RState}
    {codes codes' : List Nat} {fl fl' : Flags},
    subscribeFilters s id subId fs codes fl = .ok (s', codes', fl') → AckFrame s s'
  | [], s, s', codes, codes', fl, fl', h => by
    simp only [subscribeFilters, Except.ok.injEq, Prod.mk.injEq] at h; obtain ⟨rfl, _⟩ := h; exact AckFrame.refl _
  | f :: rest, s, s', codes, codes', fl, fl', h => by
    simp only [subscribeFilters] at h
    split at h
    · simp only [Except.ok.injEq, Prod.mk.injEq] at h; obtain ⟨rfl, _⟩ := h; exact AckFrame.refl _
    · split at h
      · simp only [Except.ok.injEq, Prod.mk.injEq] at h; obtain ⟨rfl, _⟩ := h; exact AckFrame.refl _
      · split at h
        · simp at h
        · rename_i s1 h1
          exact ((nextNativeOffset_frame s _).trans (prepareFilter_frame h1)).trans
            (subscribeFilters_frame id subId rest h)

/-- the loop never touches `forceAck`, `newData`, `stop` -/
theorem subscribeFilters_flags (id : Nat) (subId : Option Nat) : ∀ (fs : List SubFilter) {s s' : RState}
    {codes codes' : List Nat} {fl fl' : Flags},
    subscribeFilters s id subId fs codes fl = .ok (s', codes', fl') →
      fl'.forceAck = fl.forceAck ∧ fl'.newData = fl.newData ∧ fl'.stop = fl.stop
  | [], s, s', codes, codes', fl, fl', h => by
    simp only [subscribeFilters, Except.ok.injEq, Prod.mk.injEq] at h; obtain ⟨_, _, rfl⟩ := h; exact ⟨rfl, rfl, rfl⟩
  | f :: rest, s, s', codes, codes', fl, fl', h => by
    simp only [subscribeFilters] at h
    split at h
    · simp only [Except.ok.injEq, Prod.mk.injEq] at h; obtain ⟨_, _, rfl⟩ := h; exact ⟨rfl, rfl, rfl⟩
    · split at h
      · simp only [Except.ok.injEq, Prod.mk.injEq] at h; obtain ⟨_, _, rfl⟩ := h; exact ⟨rfl, rfl, rfl⟩
      · split at h
        · simp at h
        · exact subscribeFilters_flags id subId rest h

/-- the granted codes are the requested QoS of a prefix of the filters, in order … -/
theorem subscribeFilters_codes_prefix (id : Nat) (subId : Option Nat) : ∀ (fs : List SubFilter) {s s' : RState}
    {codes codes' : List Nat} {fl fl' : Flags},
    subscribeFilters s id subId fs codes fl = .ok (s', codes', fl') →
      ∃ k, k ≤ fs.length ∧ codes' = codes ++ (fs.take k).map (·.qos) ∧
        (k < fs.length → fl'.disconnect = true)
  | [], s, s', codes, codes', fl, fl', h => by
    simp only [subscribeFilters, Except.ok.injEq, Prod.mk.injEq] at h; obtain ⟨_, rfl, _⟩ := h
    exact ⟨0, Nat.le_refl _, by simp, by simp⟩
  | f :: rest, s, s', codes, codes', fl, fl', h => by
    simp only [subscribeFilters] at h
    split at h
    · simp only [Except.ok.injEq, Prod.mk.injEq] at h; obtain ⟨_, rfl, rfl⟩ := h
      exact ⟨0, Nat.zero_le _, by simp, fun _ => rfl⟩
    · split at h
      · simp only [Except.ok.injEq, Prod.mk.injEq] at h; obtain ⟨_, rfl, rfl⟩ := h
        exact ⟨0, Nat.zero_le _, by simp, fun _ => rfl⟩
      · split at h
        · simp at h
        · obtain ⟨k, hk, hcodes, hd⟩ := subscribeFilters_codes_prefix id subId rest h
          refine ⟨k + 1, by simp; omega, ?_, ?_⟩
          · rw [hcodes]; simp
          · intro hlt; apply hd; simp at hlt; omega

/-- … and of all of them when every filter is acceptable (no `$`-filter other than `$share`, no
    subscription identifier 0) -/
theorem subscribeFilters_codes_all (id : Nat) (subId : Option Nat) (hsub : subId ≠ some 0) :
    ∀ (fs : List SubFilter) {s s' : RState} {codes codes' : List Nat} {fl fl' : Flags},
    (∀ f ∈ fs, validSubscription f.path = true) →
    subscribeFilters s id subId fs codes fl = .ok (s', codes', fl') →
      codes' = codes ++ fs.map (·.qos) ∧ fl' = fl
  | [], s, s', codes, codes', fl, fl', _, h => by
    simp only [subscribeFilters, Except.ok.injEq, Prod.mk.injEq] at h; obtain ⟨_, rfl, rfl⟩ := h
    simp
  | f :: rest, s, s', codes, codes', fl, fl', hv, h => by
    simp only [subscribeFilters] at h
    have hvf : validSubscription f.path = true := hv f (List.mem_cons_self)
    simp only [hvf, Bool.not_true, Bool.false_eq_true, if_false, hsub] at h
    split at h
    · simp at h
    · obtain ⟨hcodes, hfl⟩ := subscribeFilters_codes_all id subId hsub rest
        (fun g hg => hv g (List.mem_cons_of_mem _ hg)) h
      refine ⟨?_, hfl⟩
      rw [hcodes]; simp

/-! ### UNSUBSCRIBE loop -/

/-- leave the group of a shared subscription; drop the group if now empty -/
def unsubGroup (s : RState) (f cid : String) : RState :=
  match extractGroup f with
  | none => s
  | some (gname, path) =>
    match alookup gname s.shared with
    | none => s
    | some g =>
      let g' := g.removeClient cid
      if g'.clients.isEmpty then { s with shared := aremove gname s.shared }
      else
        let moved := if g'.current != g.current then (s.datalog.filterIdx? path).toList else []
        { s with shared := ainsert gname g' s.shared, turnMoved := s.turnMoved ++ moved }

def unsubConn (d : DataLog) (c : Conn) (f : String) : Conn :=
  { c with subscriptions := c.subscriptions.filter (· ≠ f),
           brokerAliases := c.brokerAliases.map (fun b => BrokerAliases.removeAlias b f),
           subscriptionIds := aremove f c.subscriptionIds,
           tracker := { c.tracker with requests := c.tracker.requests.filter (·.filter ≠ f) },
           out := unsubOut d (c.subscriptions.filter (· ≠ f)) c.out f }

/-- the state after one filter of an UNSUBSCRIBE was removed -/
def unsubOne (s : RState) (id : Nat) (f : String) (ids : List Nat) (c : Conn) : RState :=
  let s : RState := { s with subscriptionMap := ainsert f (ids.filter (· ≠ id)) s.subscriptionMap }
  let s := unsubGroup s f c.clientId
  let s := setConn s id (unsubConn s.datalog c f)
  let s : RState := { s with datalog := removeWaiterFor s.datalog id f }
  let s : RState := { s with notifications := s.notifications.filter (fun n => !(n.1 == id && n.2.filter == f)) }
  s.g (.unsubscribed id f)

theorem unsubscribeFilters_cons_rp2 (s : RState) (id : Nat) (f : String) (rest : List String) (rs : List Bool) :
    unsubscribeFilters s id (f :: rest) rs =
      match alookup f s.subscriptionMap with
      | none => unsubscribeFilters s id rest (rs ++ [false])
      | some ids =>
        if !ids.contains id then unsubscribeFilters s id rest (rs ++ [false]) else
        match getConn s id with
        | none => .error (.panic "connections.get_mut(id).unwrap()")
        | some c =>
          if !c.subscriptions.contains f then
            unsubscribeFilters { s with subscriptionMap := ainsert f (ids.filter (· ≠ id)) s.subscriptionMap }
              id rest (rs ++ [false]) else
          unsubscribeFilters (unsubOne s id f ids c) id rest (rs ++ [true]) := by
  rw [unsubscribeFilters]
  cases alookup f s.subscriptionMap with
  | none => rfl
  | some ids =>
    simp only []
    split
    · rfl
    · show (match getConn s id with | none => _ | some c => _) = _
      cases getConn s id with
      | none => rfl
      | some c =>
        simp only []
        split
        · rfl
        · rfl

theorem unsubGroup_same (s : RState) (f cid : String) :
    (unsubGroup s f cid).conns = s.conns ∧ (unsubGroup s f cid).links = s.links ∧
    (unsubGroup s f cid).datalog = s.datalog ∧ (unsubGroup s f cid).lastWills = s.lastWills ∧
    (unsubGroup s f cid).ghost = s.ghost ∧ (unsubGroup s f cid).notifications = s.notifications ∧
    (unsubGroup s f cid).readyqueue = s.readyqueue := by
  unfold unsubGroup
  split
  · simp
  · split
    · simp
    · simp only []
      split <;> simp

theorem unsubOne_frame (s : RState) (id : Nat) (f : String) (ids : List Nat) (c : Conn)
    (hc : getConn s id = some c) : AckFrame s (unsubOne s id f ids c) := by
  have hg := unsubGroup_same { s with subscriptionMap := ainsert f (ids.filter (· ≠ id)) s.subscriptionMap } f c.clientId
  have f1 : AckFrame s (unsubGroup { s with subscriptionMap := ainsert f (ids.filter (· ≠ id)) s.subscriptionMap } f c.clientId) :=
    AckFrame.of_eq hg.2.1 hg.1
  have hc1 : getConn (unsubGroup { s with subscriptionMap := ainsert f (ids.filter (· ≠ id)) s.subscriptionMap } f c.clientId) id = some c := by
    unfold getConn; rw [hg.1]; exact hc
  exact AckFrame.congr (f1.trans (AckFrame.setConn hc1 (c' := unsubConn _ c f) rfl)) rfl rfl

theorem unsubscribeFilters_frame (id : Nat) : ∀ (fs : List String) {s s' : RState} {rs rs' : List Bool},
    unsubscribeFilters s id fs rs = .ok (s', rs') → AckFrame s s' ∧ rs'.length = rs.length + fs.length ∧
      ∃ tl, rs' = rs ++ tl
  | [], s, s', rs, rs', h => by
    simp only [unsubscribeFilters, Except.ok.injEq, Prod.mk.injEq] at h; obtain ⟨rfl, rfl⟩ := h
    exact ⟨AckFrame.refl _, by simp, [], by simp⟩
  | f :: rest, s, s', rs, rs', h => by
    rw [unsubscribeFilters_cons_rp2] at h
    split at h
    · obtain ⟨a, b, tl, c⟩ := unsubscribeFilters_frame id rest h
      exact ⟨a, by simp at b ⊢; omega, [false] ++ tl, by rw [c]; simp⟩
    · split at h
      · obtain ⟨a, b, tl, c⟩ := unsubscribeFilters_frame id rest h
        exact ⟨a, by simp at b ⊢; omega, [false] ++ tl, by rw [c]; simp⟩
      · split at h
        · simp at h
        · rename_i c hc
          split at h
          · obtain ⟨a, b, tl, c⟩ := unsubscribeFilters_frame id rest h
            exact ⟨AckFrame.precomp a rfl rfl, by simp at b ⊢; omega, [false] ++ tl, by rw [c]; simp⟩
          · obtain ⟨a, b, tl, e⟩ := unsubscribeFilters_frame id rest h
            exact ⟨(unsubOne_frame s id f _ c hc).trans a, by simp at b ⊢; omega, [true] ++ tl, by rw [e]; simp⟩

end Router
