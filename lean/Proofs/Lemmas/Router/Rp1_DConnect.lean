/-
C03: `handle_new_connection` under `DInv` + the slab invariant: the restored tracker (if any) holds
valid requests and is `Paused(Busy)`, so `reschedule(id, Init)` passes its assertion; then the
whole-step theorem.
-/
import Proofs.Lemmas.Router.Rp1_DConsume
namespace Router
variable {A : String → Prop}

theorem hnRegister_eq' (s : RState) (spec : ConnectSpec) :
    hnRegister s spec =
      if !trackerNoDup (hnTracker spec (hnRestored s spec)) then
        .error (.panic "debug_assert check_tracker_duplicates (new connection)")
      else reschedule (hnPre s spec) (hnKey s spec) .init := by
  have e : (hnWill { s with graveyard := aremove spec.clientId s.graveyard } spec).conns = s.conns := (hnWill_core _ spec).1
  unfold hnRegister hnPre hnKey
  simp only []
  rw [e]

theorem hnWill_fields (s : RState) (spec : ConnectSpec) :
    (hnWill s spec).datalog = s.datalog ∧ (hnWill s spec).notifications = s.notifications ∧
    (hnWill s spec).shared = s.shared ∧ (hnWill s spec).graveyard = s.graveyard := by
  unfold hnWill; split <;> exact ⟨rfl, rfl, rfl, rfl⟩

theorem foldl_g_fields (f : Ack → Ghost) : ∀ (acks : List Ack) (s : RState),
    (acks.foldl (fun s a => s.g (f a)) s).datalog = s.datalog ∧
    (acks.foldl (fun s a => s.g (f a)) s).notifications = s.notifications ∧
    (acks.foldl (fun s a => s.g (f a)) s).shared = s.shared ∧
    (acks.foldl (fun s a => s.g (f a)) s).graveyard = s.graveyard
  | [], s => ⟨rfl, rfl, rfl, rfl⟩
  | a :: r, s => by
    simp only [List.foldl_cons]
    exact foldl_g_fields f r (s.g (f a))

theorem hnPre_fields (s : RState) (spec : ConnectSpec) :
    (hnPre s spec).datalog = s.datalog ∧ (hnPre s spec).notifications = s.notifications ∧
    (hnPre s spec).shared =
      rejoinGroups s.config.strategy spec.clientId (hnTracker spec (hnRestored s spec)).requests s.shared ∧
    (hnPre s spec).graveyard = aremove spec.clientId s.graveyard := by
  have e := hnWill_fields { s with graveyard := aremove spec.clientId s.graveyard } spec
  have ec := (hnWill_core { s with graveyard := aremove spec.clientId s.graveyard } spec).2.1
  unfold hnPre
  simp only []
  refine ⟨?_, ?_, ?_, ?_⟩
  · rw [(foldl_g_fields _ _ _).1]; split <;> exact e.1
  · rw [(foldl_g_fields _ _ _).2.1]; split <;> exact e.2.1
  · rw [(foldl_g_fields _ _ _).2.2.1]
    split <;>
    · show rejoinGroups _ _ _ _ = _
      rw [ec, e.2.2.1]
  · rw [(foldl_g_fields _ _ _).2.2.2]; split <;> exact e.2.2.2

/-- a resumed session rejoining its groups leaves no group empty -/
theorem rejoinGroups_nonempty (st : Strategy) (client : String) : ∀ (rs : List DataRequest)
    (sh : List (String × SharedGroup)), (∀ p ∈ sh, p.2.clients ≠ []) →
    ∀ p ∈ rejoinGroups st client rs sh, p.2.clients ≠ []
  | [], sh, h => h
  | r :: rest, sh, h => by
    simp only [rejoinGroups]
    split
    · exact rejoinGroups_nonempty st client rest sh h
    · refine rejoinGroups_nonempty st client rest _ fun p hp => ?_
      rcases mem_ainsert hp with hp | rfl
      · exact h p hp
      · simp

/-- the tracker of a new connection: valid requests, `Paused(Busy)` -/
theorem hnTracker_ok {s : RState} (h : DInv s) (spec : ConnectSpec) :
    ReqsOK (N s) (hnTracker spec (hnRestored s spec)).requests ∧
    (hnTracker spec (hnRestored s spec)).status = .paused .busy := by
  unfold hnRestored
  split
  · exact ⟨ReqsOK.nil _, rfl⟩
  · unfold hnSession
    cases hl : alookup spec.clientId s.graveyard with
    | none => exact ⟨ReqsOK.nil _, rfl⟩
    | some v =>
      cases v with
      | none => exact ⟨ReqsOK.nil _, rfl⟩
      | some ss => exact h.grv _ (mem_of_alookup hl) ss rfl

theorem hnRegister_good {s : RState} {spec : ConnectSpec} (hnc : spec.clean = false → A dupNewConnection)
    (h : BInv s) (ha : AdmInv s)
    (hnone : alookup spec.clientId s.connectionMap = none) (hroom : s.conns.len < s.config.maxConnections) :
    Good A BInv (hnRegister s spec) := by
  rw [hnRegister_eq']
  split
  · rename_i hdup
    refine hnc ?_
    cases hcl : spec.clean with
    | false => rfl
    | true =>
      have : hnRestored s spec = none := by unfold hnRestored; simp [hcl]
      rw [this] at hdup
      exact absurd hdup (by simp [hnTracker, trackerNoDup])
  · obtain ⟨e1, e2, e3⟩ := hnPre_core s spec
    obtain ⟨f1, f2, f3, f4⟩ := hnPre_fields s spec
    obtain ⟨_, _, hnew, hold⟩ := AdmInv.register (conn' := { hnConn spec (hnRestored s spec) with
        acks := { committed := hnAcks spec (hnKey s spec) (hnSession s spec).isSome (hnRestored s spec) } })
      ha hnone hroom rfl e1 e2 e3
    have hnew' : getConn (hnPre s spec) (hnKey s spec) = some _ := hnew
    have hold' : ∀ j, j ≠ hnKey s spec → getConn (hnPre s spec) j = getConn s j := hold
    obtain ⟨tr, tb⟩ := hnTracker_ok h.1 spec
    have hN : N (hnPre s spec) = N s := by unfold N; rw [f1]
    have hlive : ∀ j, Live s j → Live (hnPre s spec) j := fun j hj => by
      unfold Live at hj ⊢
      by_cases e : j = hnKey s spec
      · rw [e, hnew']; rfl
      · rw [hold' j e]; exact hj
    have hd : DInv (hnPre s spec) := by
      refine ⟨?_, ?_, ?_, ?_, ?_, ?_, ?_⟩
      · rw [hN, f1]; exact h.1.fidx
      · rw [hN, f1]; exact h.1.pf
      · intro j d hd'
        rw [hN]
        by_cases e : j = hnKey s spec
        · rw [e, hnew'] at hd'
          simp only [Option.some.injEq] at hd'; subst hd'
          exact tr
        · rw [hold' j e] at hd'; exact h.1.trk j d hd'
      · rw [hN, f1]; intro fd hfd w hw; exact ⟨(h.1.wt fd hfd w hw).1, hlive _ (h.1.wt fd hfd w hw).2⟩
      · rw [f2, h.2]; intro n hn; simp at hn
      · rw [hN, f4]; intro p hp ss hss; exact h.1.grv p (mem_aremove hp) ss hss
      · rw [f3]; exact rejoinGroups_nonempty _ _ _ _ h.1.grp
    refine (reschedule_good hd hnew' (fun _ => tb)).mono fun s' q => ⟨q.1, ?_⟩
    rw [q.2, f2]; exact h.2

theorem handleNewConnection_good {s : RState} {spec : ConnectSpec} (hnc : spec.clean = false → A dupNewConnection)
    (h : BInv s)
    (ha : AdmInv s) :
    Good A BInv (handleNewConnection s spec) := by
  rw [handleNewConnection_eq]
  simp only []
  have h0 : BInv (setLink s spec.link {}) := ⟨h.1.congr rfl rfl rfl rfl rfl rfl rfl, h.2⟩
  have a0 : AdmInv (setLink s spec.link {}) := ha.congr rfl rfl rfl
  split
  · exact ⟨h0.1.congr rfl rfl rfl rfl rfl rfl rfl, h0.2⟩
  · have ht : Good A BInv (hnTakeover (setLink s spec.link {}) spec) := by
      unfold hnTakeover
      split
      · exact handleDisconnection_good h0
      · exact h0
    split
    · rename_i e he; exact Good.error_of he ht
    · rename_i s1 h1
      have q1 := Good.ok_of h1 ht
      obtain ⟨a1, hnone, _⟩ := hnTakeover_spec a0 h1
      split
      · exact ⟨q1.1.congr rfl rfl rfl rfl rfl rfl rfl, q1.2⟩
      · rename_i hroom
        exact hnRegister_good hnc q1 a1 hnone (by omega)

/-- the invariants used for panic-freedom, together -/
structure Inv2 (s : RState) : Prop where
  inv1 : Inv1 s
  binv : BInv s

/-- which panic messages an op kind can still produce under the invariant: only the two
    `check_tracker_duplicates` debug assertions, and only for CONNECT / DeviceData respectively -/
def opAllowed (s : RState) : Op → String → Prop
  | .connect spec, msg => spec.clean = false ∧ msg = dupNewConnection
  | .event id .deviceData, msg => batchHasSubscribe s id ∧ msg = dupPrepareFilter
  | _, _ => False

theorem step_good {s : RState} {op : Op} (h : Inv2 s) : Good (opAllowed s op) (fun r => BInv r.1) (step s op) := by
  cases op with
  | connect spec =>
    simp only [step]
    gbind (handleNewConnection_good (A := opAllowed s (.connect spec)) (spec := spec) (fun hc => ⟨hc, rfl⟩) h.binv h.inv1.adm) with s1 h1 q1
    exact q1
  | push l p =>
    simp only [step]
    split
    · exact ⟨h.binv.1.congr rfl rfl rfl rfl rfl rfl rfl, h.binv.2⟩
    · exact h.binv
  | event id e =>
    simp only [step]
    have he : Good (opAllowed s (.event id e)) BInv (events s id e) :=
      events_good (fun hd hb => by subst hd; exact ⟨hb, rfl⟩) h.binv
    gbind he with s1 h1 q1
    exact q1
  | consume =>
    simp only [step]
    have hc := consume_good (A := opAllowed s .consume) h.binv
    split
    · rename_i e he; exact Good.error_of he hc
    · rename_i s1 b h1
      have q1 : BInv (s1, b).1 := Good.ok_of (P := fun (r : RState × Bool) => BInv r.1) h1 hc
      exact q1
  | drain l =>
    simp only [step]
    split
    · split
      · exact ⟨h.binv.1.congr rfl rfl rfl rfl rfl rfl rfl, h.binv.2⟩
      · exact h.binv
    · exact h.binv

theorem Inv2.init (cfg : Config) : Inv2 (init cfg) := ⟨⟨AdmInv.init cfg, AllOut.init cfg⟩, DInv.init cfg, rfl⟩

theorem Inv2.oracle {s : RState} (h : Inv2 s) (o : List Choice) : Inv2 { s with oracle := o } :=
  ⟨⟨h.inv1.adm.oracle o, h.inv1.out.congr rfl⟩, h.binv.1.congr rfl rfl rfl rfl rfl rfl rfl, h.binv.2⟩

theorem Inv2.step {s s' : RState} {op : Op} {out : Out} (h : Inv2 s) (hs : step s op = .ok (s', out)) : Inv2 s' :=
  ⟨h.inv1.step hs, (Good.ok_of (P := fun (r : RState × Out) => BInv r.1) hs (step_good h) : BInv (s', out).1)⟩

theorem Inv2.reachable {cfg : Config} {s : RState} (hr : Reachable cfg s) : Inv2 s :=
  hr.induction Inv2 (Inv2.init cfg) fun _ o _ _ _ hi h => (hi.oracle o).step h

end Router
