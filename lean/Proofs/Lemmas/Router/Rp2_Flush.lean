/-
C06 `ack_order_and_owner`: a sweep (`consume`) writes the pending replies of the swept connection,
in order, to that connection's link before anything else, and nothing but forwards / unschedule
after them; no other link is written.
-/
import Proofs.Lemmas.Router.Rp2_Frame
namespace Router

theorem getLink_setLink_ne (s : RState) (l l' : Nat) (b : LinkBuf) (h : l' ≠ l) :
    getLink (setLink s l b) l' = getLink s l' := by
  unfold getLink setLink
  by_cases hl : l < s.links.length
  · simp only [hl, if_true]
    rw [List.getElem?_set_ne (Ne.symm h)]
  · simp only [hl, if_false]
    have hle : s.links.length ≤ l := Nat.le_of_not_lt hl
    by_cases h1 : l' < s.links.length
    · rw [List.append_assoc, List.getElem?_append_left h1]
    · have h1' : s.links.length ≤ l' := Nat.le_of_not_lt h1
      rw [List.getElem?_eq_none h1', List.append_assoc, List.getElem?_append_right h1']
      by_cases h2 : l' - s.links.length < l - s.links.length
      · rw [List.getElem?_append_left (by simpa using h2)]
        simp [h2]
      · rw [List.getElem?_append_right (by simpa using Nat.le_of_not_lt h2)]
        simp only [List.length_replicate]
        have : l' - s.links.length - (l - s.links.length) ≠ 0 := by omega
        cases hk : l' - s.links.length - (l - s.links.length) with
        | zero => exact absurd hk this
        | succ n => simp

def Notif.isAck : Notif → Bool
  | .ack _ => true
  | _ => false

/-- link `l` got notifications appended, none of them an ack; all other links are untouched -/
structure LinkExt (s s' : RState) (l : Nat) : Prop where
  others : ∀ l', l' ≠ l → getLink s' l' = getLink s l'
  own : ∃ ns, (getLink s' l).obuf = (getLink s l).obuf ++ ns ∧ ∀ n ∈ ns, n.isAck = false

theorem LinkExt.refl (s : RState) (l : Nat) : LinkExt s s l := ⟨fun _ _ => rfl, [], by simp, by simp⟩

theorem LinkExt.trans {a b c : RState} {l : Nat} (h1 : LinkExt a b l) (h2 : LinkExt b c l) : LinkExt a c l := by
  refine ⟨fun l' hl => (h2.others l' hl).trans (h1.others l' hl), ?_⟩
  obtain ⟨n1, e1, p1⟩ := h1.own
  obtain ⟨n2, e2, p2⟩ := h2.own
  refine ⟨n1 ++ n2, by rw [e2, e1, List.append_assoc], ?_⟩
  intro n hn
  rcases List.mem_append.mp hn with h | h
  · exact p1 n h
  · exact p2 n h

theorem LinkExt.of_links {s s' : RState} (h : s'.links = s.links) (l : Nat) : LinkExt s s' l := by
  have : ∀ l', getLink s' l' = getLink s l' := fun l' => by unfold getLink; rw [h]
  exact ⟨fun l' _ => this l', [], by rw [this]; simp, by simp⟩

theorem LinkExt.pushNotifs (s : RState) (l : Nat) (ns : List Notif) (h : ∀ n ∈ ns, n.isAck = false) :
    LinkExt s (pushNotifs s l ns) l := by
  unfold Router.pushNotifs
  exact ⟨fun l' hl => getLink_setLink_ne _ _ _ _ hl, ns, by rw [getLink_setLink_same], h⟩

theorem LinkExt.wakeLink (s : RState) (l : Nat) : LinkExt s (wakeLink s l) l := by
  unfold Router.wakeLink
  refine ⟨fun l' hl => getLink_setLink_ne _ _ _ _ hl, [], ?_, by simp⟩
  rw [getLink_setLink_same]; unfold LinkBuf.wake; split <;> simp

/-- the sweep's view: connections keep their ack logs / link / client id, link `l` is extended -/
structure SweepFrame (s s' : RState) (l : Nat) : Prop where
  conns : ConnFrame s s'
  link : LinkExt s s' l

theorem SweepFrame.refl (s : RState) (l : Nat) : SweepFrame s s l := ⟨ConnFrame.refl s, LinkExt.refl s l⟩

theorem SweepFrame.trans {a b c : RState} {l : Nat} (h1 : SweepFrame a b l) (h2 : SweepFrame b c l) :
    SweepFrame a c l := ⟨h1.conns.trans h2.conns, h1.link.trans h2.link⟩

theorem SweepFrame.of_frame {s s' : RState} (h : AckFrame s s') (l : Nat) : SweepFrame s s' l :=
  ⟨h.conns, LinkExt.of_links h.links l⟩

theorem SweepFrame.of_eq {s s' : RState} (hl : s'.links = s.links) (hc : s'.conns = s.conns) (l : Nat) :
    SweepFrame s s' l := SweepFrame.of_frame (AckFrame.of_eq hl hc) l

theorem SweepFrame.pushNotifs (s : RState) (l : Nat) (ns : List Notif) (h : ∀ n ∈ ns, n.isAck = false) :
    SweepFrame s (pushNotifs s l ns) l := ⟨ConnFrame.of_conns rfl, LinkExt.pushNotifs s l ns h⟩

theorem SweepFrame.wakeLink (s : RState) (l : Nat) : SweepFrame s (wakeLink s l) l :=
  ⟨ConnFrame.of_conns rfl, LinkExt.wakeLink s l⟩

/-! ### the pieces of `forward_device_data` -/

theorem numberForwards_notifs (fi : Nat) : ∀ (ps : List (Pub × Option Cursor)) (o : Outgoing) (acc : List Notif),
    (∀ n ∈ acc, n.isAck = false) → ∀ n ∈ (numberForwards o fi ps acc).2, n.isAck = false
  | [], o, acc, h => by simpa [numberForwards] using h
  | (p, c) :: rest, o, acc, h => by
    simp only [numberForwards]
    apply numberForwards_notifs fi rest
    intro n hn
    rcases List.mem_append.mp hn with h' | h'
    · exact h n h'
    · simp at h'; subst h'; rfl

theorem readRetained_toState {s s' : RState} {filter : String} {ps : List Pub}
    (h : readRetained s filter = .ok (s', ps)) : s'.toState = s.toState ∧ s'.ghost = s.ghost := by
  unfold readRetained at h
  split at h
  · simp only [] at h
    split at h
    · simp only [Except.ok.injEq, Prod.mk.injEq] at h; obtain ⟨rfl, _⟩ := h; exact ⟨rfl, rfl⟩
    · simp at h
  · simp at h

theorem updateNextClient_toState {s s' : RState} {g g' : SharedGroup}
    (h : updateNextClient s g = .ok (s', g')) : s'.toState = s.toState ∧ s'.ghost = s.ghost := by
  unfold updateNextClient at h
  split at h
  · simp only [Except.ok.injEq, Prod.mk.injEq] at h; obtain ⟨rfl, _⟩ := h; exact ⟨rfl, rfl⟩
  · split at h
    · simp at h
    · simp only [Except.ok.injEq, Prod.mk.injEq] at h; obtain ⟨rfl, _⟩ := h; exact ⟨rfl, rfl⟩
  · split at h
    · simp at h
    · split at h
      · split at h
        · simp only [Except.ok.injEq, Prod.mk.injEq] at h; obtain ⟨rfl, _⟩ := h; exact ⟨rfl, rfl⟩
        · simp at h
      · simp at h

theorem SweepFrame.of_toState {s s' : RState} (h : s'.toState = s.toState) (l : Nat) : SweepFrame s s' l :=
  SweepFrame.of_eq (congrArg State.links h) (congrArg State.conns h) l

end Router
