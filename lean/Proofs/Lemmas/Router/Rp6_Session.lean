/-
The invariant `QI` and the ownership of data requests through `handle_disconnection` and
`handle_new_connection`.
-/
import Proofs.Lemmas.Router.Rp6_Packets
namespace Router
open Router.Rp3

/-- the requests `Waiters::remove(id)` collects from one waiter list -/
def collectedFd (id : Nat) (fd : FilterData) : List DataRequest :=
  (waitersRemove (fd.waiters.length + 1) fd.waiters id []).2

theorem cleanFd_mem (id : Nat) (fd : FilterData) :
    (∀ w ∈ (cleanFd id fd).waiters, w ∈ fd.waiters) ∧
    (∀ w ∈ fd.waiters, w.1 ≠ id → w ∈ (cleanFd id fd).waiters) ∧
    (∀ r, (id, r) ∈ fd.waiters → r ∈ collectedFd id fd) ∧
    (∀ r ∈ collectedFd id fd, (id, r) ∈ fd.waiters) := by
  obtain ⟨removed, p1, p2, p3, p4⟩ := waitersRemove_perm id (fd.waiters.length + 1) fd.waiters [] (by omega)
  refine ⟨fun w hw => p1.mem_iff.mpr (List.mem_append_right _ hw), fun w hw hne => ?_, fun r hr => ?_, fun r hr => ?_⟩
  · rcases List.mem_append.mp (p1.mem_iff.mp hw) with h | h
    · exact absurd (p2 w h) hne
    · exact h
  · unfold collectedFd; rw [p3]
    rcases List.mem_append.mp (p1.mem_iff.mp hr) with h | h
    · simp only [List.nil_append, List.mem_map]; exact ⟨(id, r), h, rfl⟩
    · exact absurd rfl (p4 _ h)
  · unfold collectedFd at hr; rw [p3] at hr
    simp only [List.nil_append, List.mem_map] at hr
    obtain ⟨w, hw, rfl⟩ := hr
    have := p2 w hw
    have e : w = (id, w.2) := by rw [← this]
    rw [← e]
    exact p1.mem_iff.mpr (List.mem_append_left _ hw)

theorem datalogClean_collected_mem (d : DataLog) (id : Nat) (r : DataRequest) :
    r ∈ (datalogClean d id).2 ↔ ∃ fd ∈ d.native, (id, r) ∈ fd.waiters := by
  rw [Router.datalogClean_eq]
  simp only [List.mem_flatMap]
  constructor
  · rintro ⟨fd, hfd, hr⟩; exact ⟨fd, hfd, (cleanFd_mem id fd).2.2.2 r hr⟩
  · rintro ⟨fd, hfd, hr⟩; exact ⟨fd, hfd, (cleanFd_mem id fd).2.2.1 r hr⟩

theorem parked_iff_mem {s : RState} {j : Nat} {r : DataRequest} : Parked s j r ↔ ∃ fd ∈ s.datalog.native, (j, r) ∈ fd.waiters := by
  unfold Parked ParkedAt
  constructor
  · rintro ⟨i, fd, h, hm⟩; exact ⟨fd, List.mem_of_getElem? h, hm⟩
  · rintro ⟨fd, h, hm⟩
    obtain ⟨i, hi⟩ := List.mem_iff_getElem?.mp h
    exact ⟨i, fd, hi, hm⟩

theorem savedRequests_mem (s : RState) (id : Nat) (c : Conn) (q : DataRequest) (hq : q ∈ savedRequests s id c) :
    ∃ r0, (r0 ∈ c.tracker.requests ∨ r0 ∈ (datalogClean s.datalog id).2) ∧ q.filter = r0.filter ∧ q.group = r0.group := by
  unfold savedRequests at hq
  simp only [List.map_map, List.mem_map, List.mem_append, Function.comp] at hq
  obtain ⟨r0, h0, rfl⟩ := hq
  obtain ⟨a1, _, _, a4, _⟩ := rewindOne_fields (retransmissionMap c.out.inflight []) (atGroupCursor s.shared r0)
  obtain ⟨b1, _, _, b4, _⟩ := atGroupCursor_fields s.shared r0
  exact ⟨r0, h0, a1.trans b1, a4.trans b4⟩

theorem savedRequests_of (s : RState) (id : Nat) (c : Conn) (r0 : DataRequest)
    (h0 : r0 ∈ c.tracker.requests ∨ r0 ∈ (datalogClean s.datalog id).2) :
    ∃ q ∈ savedRequests s id c, q.filter = r0.filter := by
  refine ⟨rewindOne (retransmissionMap c.out.inflight []) (atGroupCursor s.shared r0), ?_, ?_⟩
  · unfold savedRequests
    simp only [List.map_map, List.mem_map, List.mem_append, Function.comp]
    exact ⟨r0, h0, rfl⟩
  · exact (rewindOne_fields _ _).1.trans (atGroupCursor_fields _ _).1

/-- `handle_disconnection` (no notification pending): the invariant is kept — the saved session
    covers every subscription of the closed connection —, the other connections keep their requests -/
theorem handleDisconnection_qi {s s' : RState} {id : Nat} {r : Option String} (hq : QI s)
    (hn : s.notifications = []) (hd : handleDisconnection s id r = .ok s') :
    QI s' ∧ Keeps (fun j _ => j ≠ id) s s' ∧ s'.config = s.config := by
  cases hc : getConn s id with
  | none =>
    rw [handleDisconnection_missing s id r hc] at hd; cases hd
    exact ⟨hq, fun _ _ h _ => h, rfl⟩
  | some c =>
    obtain ⟨hgrv, _, _, hcfg, _⟩ := handleDisconnection_spec hc hd
    rw [Router.handleDisconnection_eq] at hd
    simp only [hc] at hd
    have mw := wakeParked_oeq hd
    have wf := wakeParked_wakeFrame hd
    obtain ⟨k1, _, _, _, _, _, k7, k8, _⟩ := hdFinal_fields s id c r
    have hget : ∀ j, getConn (hdFinal s id c r) j = if j = id then none else getConn s j := fun j => by
      unfold getConn; rw [k1, Slab.get?_remove]
    have hnat : (hdFinal s id c r).datalog.native = s.datalog.native.map (cleanFd id) := by
      rw [k8, Router.datalogClean_eq]
    have hgF : (hdFinal s id c r).graveyard = ainsert c.clientId (savedSession s id c) s.graveyard := by
      rw [← wf.graveyard, hgrv]
    have bwd : ∀ j x, Own (hdFinal s id c r) j x → Own s j x := by
      intro j x ho
      rcases ho with ⟨c', hc', hm⟩ | ⟨i, fd', hfd', hm⟩ | ho
      · rw [hget] at hc'
        split at hc'
        · cases hc'
        · exact .inl ⟨c', hc', hm⟩
      · rw [hnat] at hfd'
        simp only [List.getElem?_map, Option.map_eq_some_iff] at hfd'
        obtain ⟨fd, hfd, rfl⟩ := hfd'
        exact .inr (.inl ⟨i, fd, hfd, (cleanFd_mem id fd).1 _ hm⟩)
      · unfold Notified at ho; rw [k7] at ho; exact .inr (.inr ho)
    have fwd : ∀ j x, Own s j x → j ≠ id → Own (hdFinal s id c r) j x := by
      intro j x ho hj
      rcases ho with ⟨c', hc', hm⟩ | ⟨i, fd, hfd, hm⟩ | ho
      · refine .inl ⟨c', ?_, hm⟩
        rw [hget]; simp only [hj, if_false]; exact hc'
      · refine .inr (.inl ⟨i, cleanFd id fd, ?_, (cleanFd_mem id fd).2.1 _ hm hj⟩)
        rw [hnat]; simp [hfd]
      · unfold Notified at ho; rw [hn] at ho; cases ho
    have wsub : WSub s (hdFinal s id c r) := by
      intro i fd' hfd'
      rw [hnat] at hfd'
      simp only [List.getElem?_map, Option.map_eq_some_iff] at hfd'
      obtain ⟨fd, hfd, rfl⟩ := hfd'
      exact .inr ⟨fd, hfd, rfl, (cleanFd_mem id fd).1⟩
    have qF : QI (hdFinal s id c r) := by
      refine ⟨fun j f hf => ?_, fun j x hx => hq.gt j x (bwd j x hx), hq.pe.wsub wsub, ?_⟩
      · unfold subsOf at hf
        rw [hget] at hf
        by_cases hj : j = id
        · simp [hj] at hf
        · simp only [hj, if_false] at hf
          obtain ⟨x, hx, e⟩ := hq.cover j f hf
          exact ⟨x, fwd j x hx hj, e⟩
      · rw [hgF]
        intro p hp ss hss
        rcases mem_ainsert hp with hp | rfl
        · exact hq.grv p hp ss hss
        · simp only [] at hss
          unfold savedSession at hss
          split at hss
          · cases hss
          · simp only [Option.some.injEq] at hss; subst hss
            refine ⟨fun f hf => ?_, fun q hq' => ?_⟩
            · -- every subscription of the closed connection has a saved request
              have hf' : f ∈ subsOf s id := by unfold subsOf; rw [hc]; exact hf
              obtain ⟨x, hx, e⟩ := hq.cover id f hf'
              have h0 : x ∈ c.tracker.requests ∨ x ∈ (datalogClean s.datalog id).2 := by
                rcases hx with ⟨c', hc', hm⟩ | hp | hx
                · rw [hc] at hc'; cases hc'; exact .inl hm
                · exact .inr ((datalogClean_collected_mem _ _ _).mpr (parked_iff_mem.mp hp))
                · unfold Notified at hx; rw [hn] at hx; cases hx
              obtain ⟨q, hq1, hq2⟩ := savedRequests_of s id c x h0
              exact ⟨q, hq1, hq2.trans e⟩
            · obtain ⟨r0, h0, e1, e2⟩ := savedRequests_mem s id c q hq'
              have hown : Own s id r0 := by
                rcases h0 with h0 | h0
                · exact .inl ⟨c, hc, h0⟩
                · exact .inr (.inl (parked_iff_mem.mpr ((datalogClean_collected_mem _ _ _).mp h0)))
              have := hq.gt id r0 hown
              unfold GT at this ⊢
              rw [e1, e2]; exact this
    refine ⟨qF.oeq mw, fun j x ho hj => (mw.own j x).mpr (fwd j x ho hj), hcfg⟩

/-! ### CONNECT -/

theorem hnRestored_qi {s : RState} (hq : QI s) (spec : ConnectSpec) :
    (∀ f ∈ hnSubs (hnRestored s spec), ∃ r ∈ (hnTracker spec (hnRestored s spec)).requests, r.filter = f) ∧
    ∀ r ∈ (hnTracker spec (hnRestored s spec)).requests, GT r := by
  unfold hnRestored
  split
  · exact ⟨fun f hf => by simp [hnSubs] at hf, fun r hr => by simp [hnTracker] at hr⟩
  · unfold hnSession
    cases hl : alookup spec.clientId s.graveyard with
    | none => exact ⟨fun f hf => by simp [hnSubs] at hf, fun r hr => by simp [hnTracker] at hr⟩
    | some v =>
      cases v with
      | none => exact ⟨fun f hf => by simp [hnSubs] at hf, fun r hr => by simp [hnTracker] at hr⟩
      | some ss => exact hq.grv _ (mem_of_alookup hl) ss rfl

/-- the registration proper: the new connection owns the restored requests; nobody loses any -/
theorem hnRegister_qi {s s' : RState} {spec : ConnectSpec} (hq : QI s) (ha : AdmInv s)
    (hnone : alookup spec.clientId s.connectionMap = none) (hroom : s.conns.len < s.config.maxConnections)
    (h : hnRegister s spec = .ok s') : QI s' ∧ Keeps (fun _ _ => True) s s' ∧ s'.config = s.config := by
  obtain ⟨_, hre⟩ := hnRegister_ok h
  have mr := reschedule_oeq hre
  obtain ⟨hcov, hgt⟩ := hnRestored_qi hq spec
  obtain ⟨e1, e2, e3⟩ := hnPre_core s spec
  obtain ⟨f1, f2, f3, f4⟩ := hnPre_fields s spec
  obtain ⟨_, hvac, hnew, hold⟩ := AdmInv.register (conn' := { hnConn spec (hnRestored s spec) with
      acks := { committed := hnAcks spec (hnKey s spec) (hnSession s spec).isSome (hnRestored s spec) } })
    ha hnone hroom rfl e1 e2 e3
  have hnew' : getConn (hnPre s spec) (hnKey s spec) = some _ := hnew
  have hold' : ∀ j, j ≠ hnKey s spec → getConn (hnPre s spec) j = getConn s j := hold
  have hvac' : getConn s (hnKey s spec) = none := hvac
  have hnat : (hnPre s spec).datalog.native = s.datalog.native := by rw [f1]
  have fwd : ∀ j x, Own s j x → Own (hnPre s spec) j x := by
    intro j x ho
    rcases ho with ⟨c', hc', hm⟩ | hp | ho
    · have hj : j ≠ hnKey s spec := fun e => by rw [e, hvac'] at hc'; cases hc'
      exact .inl ⟨c', by rw [hold' j hj]; exact hc', hm⟩
    · exact .inr (.inl ((parked_of_native hnat j x).mpr hp))
    · exact .inr (.inr (by unfold Notified at ho ⊢; rw [f2]; exact ho))
  have bwd : ∀ j x, Own (hnPre s spec) j x →
      Own s j x ∨ (j = hnKey s spec ∧ x ∈ (hnTracker spec (hnRestored s spec)).requests) := by
    intro j x ho
    rcases ho with ⟨c', hc', hm⟩ | hp | ho
    · by_cases hj : j = hnKey s spec
      · subst hj; rw [hnew'] at hc'; cases hc'
        exact .inr ⟨rfl, hm⟩
      · rw [hold' j hj] at hc'; exact .inl (.inl ⟨c', hc', hm⟩)
    · exact .inl (.inr (.inl ((parked_of_native hnat j x).mp hp)))
    · exact .inl (.inr (.inr (by unfold Notified at ho ⊢; rw [f2] at ho; exact ho)))
  have qP : QI (hnPre s spec) := by
    refine ⟨fun j f hf => ?_, fun j x hx => ?_, hq.pe.wsub (WSub.of_native hnat), ?_⟩
    · unfold subsOf at hf
      by_cases hj : j = hnKey s spec
      · subst hj
        rw [hnew'] at hf
        obtain ⟨x, hx, e⟩ := hcov f hf
        exact ⟨x, .inl ⟨_, hnew', hx⟩, e⟩
      · rw [hold' j hj] at hf
        obtain ⟨x, hx, e⟩ := hq.cover j f hf
        exact ⟨x, fwd j x hx, e⟩
    · rcases bwd j x hx with h | ⟨_, h⟩
      · exact hq.gt j x h
      · exact hgt x h
    · rw [f4]; intro p hp ss hss; exact hq.grv p (mem_aremove hp) ss hss
  exact ⟨qP.oeq mr, fun j x ho _ => (mr.own j x).mpr (fwd j x ho), by rw [mr.cfg, e3]⟩

/-- a CONNECT: the invariant is kept; only the connection taken over (same client id) loses its requests -/
theorem handleNewConnection_qi {s s' : RState} {spec : ConnectSpec} (hb : BInv s) (ha : AdmInv s) (hq : QI s)
    (h : handleNewConnection s spec = .ok s') :
    QI s' ∧ Keeps (fun j _ => alookup spec.clientId s.connectionMap ≠ some j) s s' ∧ s'.config = s.config := by
  rw [Router.handleNewConnection_eq] at h
  simp only [] at h
  have m0 : OEq s (setLink s spec.link {}) := OEq.of_conns rfl rfl rfl rfl rfl
  have a0 : AdmInv (setLink s spec.link {}) := ha.congr rfl rfl rfl
  have q0 := hq.oeq m0
  split at h
  · simp only [Except.ok.injEq] at h; subst h
    have m1 : OEq s ((setLink s spec.link {}).g (.notRegistered spec.link)) := m0.trans (OEq.of_conns rfl rfl rfl rfl rfl)
    exact ⟨hq.oeq m1, m1.keeps _, m1.cfg⟩
  · split at h
    · simp at h
    · rename_i s1 h1
      obtain ⟨a1, hnone, c1⟩ := hnTakeover_spec a0 h1
      have t1 : QI s1 ∧ Keeps (fun j _ => alookup spec.clientId s.connectionMap ≠ some j) s s1 ∧ s1.config = s.config := by
        unfold hnTakeover at h1
        split at h1
        · rename_i old hold
          obtain ⟨q, k, c⟩ := handleDisconnection_qi q0 hb.2 h1
          refine ⟨q, fun j x ho hk => k j x ((m0.own j x).mpr ho) fun e => hk ?_, c⟩
          have : alookup spec.clientId s.connectionMap = some old := hold
          rw [this, e]
        · simp only [Except.ok.injEq] at h1; subst h1
          exact ⟨q0, m0.keeps _, rfl⟩
      obtain ⟨q1, k1, cf1⟩ := t1
      split at h
      · simp only [Except.ok.injEq] at h; subst h
        have m2 : OEq s1 (s1.g (.notRegistered spec.link)) := OEq.of_conns rfl rfl rfl rfl rfl
        exact ⟨q1.oeq m2, k1.trans (m2.keeps _), by rw [m2.cfg, cf1]⟩
      · rename_i hroom
        obtain ⟨q2, k2, c2⟩ := hnRegister_qi q1 a1 hnone (by omega) h
        exact ⟨q2, k1.trans (k2.mono fun _ _ _ => trivial), by rw [c2, cf1]⟩

end Router
