/-
C20 — the commit-log-contents invariant (round 12): definitions.
What the router model STORES of a publish — entries of the filter logs (`datalog.native[i].log`), retained
messages, QoS 2 publishes recorded in an ack log until their PUBREL, topic-alias tables of the connections
(a later publish with an empty topic takes its topic from there), last wills — and the predicate `LogsOk`
saying that all of it is in the range `StoredOk` asks for. `Grow n s s'`: everything stored in `s'` is stored
in `s` or is in range; reflexive, transitive, and `LogsOk` is kept along it.
The optional bound `n` on the payload length is the part of the input range that makes the frame limit
(`FitsForward`) an invariant: the model does not bound payload sizes at `push`; `n = none` is "no bound".
-/
import Proofs.Lemmas.Router.Rp17_EmittableInv
namespace Router
open Encode Codec

/-! ### `ByteArray.toList` (no core lemma) and the topic a stored alias stands for -/

theorem byteArray_size_eq (bs : ByteArray) : bs.size = bs.data.toList.length := by
  cases bs; simp only [Array.length_toList]; rfl

theorem byteArray_toList_loop (bs : ByteArray) : ∀ (k i : Nat) (r : List UInt8), bs.size - i = k →
    ByteArray.toList.loop bs i r = r.reverse ++ bs.data.toList.drop i
  | 0, i, r, hk => by
    rw [ByteArray.toList.loop]
    have hi : ¬ i < bs.size := by omega
    have hd : bs.data.toList.drop i = [] := List.drop_eq_nil_of_le (by have := byteArray_size_eq bs; omega)
    simp [hi, hd]
  | k + 1, i, r, hk => by
    rw [ByteArray.toList.loop]
    have hi : i < bs.size := by omega
    simp only [hi, if_true]
    rw [byteArray_toList_loop bs k (i + 1) _ (by omega)]
    have hi' : i < bs.data.toList.length := by have := byteArray_size_eq bs; omega
    rw [List.drop_eq_getElem_cons hi']
    have hg : bs.get! i = bs.data.toList[i] := by
      cases bs with
      | mk d =>
        simp only [ByteArray.get!]
        have : i < d.size := by have := byteArray_size_eq ⟨d⟩; simp only [Array.length_toList] at this; omega
        simp [this]
    simp [hg]

theorem byteArray_toList (bs : ByteArray) : bs.toList = bs.data.toList := by
  unfold ByteArray.toList
  rw [byteArray_toList_loop bs bs.size 0 [] (by omega)]
  simp

/-- `String::from_utf8(bytes)?.as_bytes() == bytes` -/
theorem utf8?_toUTF8 {b : Bytes} {t : String} (h : utf8? b = some t) : t.toUTF8.toList = b := by
  unfold utf8? String.fromUTF8? at h
  split at h
  · cases h
    simp [String.fromUTF8, byteArray_toList]
  · cases h

/-! ### ranges -/

/-- optional bound on a payload length (`none`: no bound) -/
def fits (n : Option Nat) (len : Nat) : Bool :=
  match n with
  | none => true
  | some m => decide (len ≤ m)

/-- the part of `StoredOk` that does not mention the pass-through properties -/
def StoredCore (p : Pub) : Bool :=
  p.alias.isNone && p.subIds.isEmpty && decide (p.pkid < 65536) && decide (p.topic.length ≤ 65535)

theorem StoredOk_eq (p : Pub) (extra : Props) : StoredOk p extra = (StoredCore p && (p.hasProps || extra.isEmpty)) := rfl

/-- a publish as the router stores it in a filter log or as a retained message: `StoredCore`, QoS ≤ 2,
    payload within the bound -/
structure StoredP (n : Option Nat) (p : Pub) : Prop where
  core : StoredCore p = true
  qos : p.qos ≤ 2
  size : fits n p.payload.length = true

/-- a publish in input range (as the decoder delivers it, `PacketOk`), payload within the bound: what an
    ack log records for QoS 2 until the PUBREL -/
structure InP (n : Option Nat) (p : Pub) : Prop where
  pkid : p.pkid < 65536
  qos : p.qos ≤ 2
  topic : p.topic.length ≤ 65535
  size : fits n p.payload.length = true

/-- a topic an alias stands for: it came through a 16-bit length prefix -/
def TopicP (t : String) : Prop := t.toUTF8.toList.length ≤ 65535

structure WillP (n : Option Nat) (w : Will) : Prop where
  qos : w.qos ≤ 2
  topic : w.topic.length ≤ 65535
  size : fits n w.payload.length = true

/-- `PacketOk` and the payload bound -/
def PacketOkD (n : Option Nat) (pkt : Packet) : Bool :=
  PacketOk pkt && (match pkt with | .publish p => fits n p.payload.length | _ => true)

def willOk (n : Option Nat) (w : Will) : Bool :=
  decide (w.qos ≤ 2) && decide (w.topic.length ≤ 65535) && fits n w.payload.length

/-- input range of an op: `OpOkC` (pushed packet `PacketOk`, `topic_alias_max` a `u16`), and NEW: the payload
    of a pushed PUBLISH within the bound `n`, and the will of a CONNECT in the range of its Rust field types
    (QoS ≤ 2, topic through a 16-bit length prefix) with its payload within the bound. `OpOk` / `OpOkC` say
    nothing about wills and payload sizes. -/
def OpOkD (n : Option Nat) (op : Op) : Bool :=
  OpOkC op && (match op with
    | .push _ pkt => PacketOkD n pkt
    | .connect spec => (match spec.will with | some w => willOk n w | none => true)
    | _ => true)

/-- every link's incoming buffer holds packets in range, payloads within the bound -/
def IbufOkD (n : Option Nat) (s : RState) : Prop := ∀ l, ∀ p ∈ (getLink s l).ibuf, PacketOkD n p = true

theorem PacketOkD_ok {n : Option Nat} {pkt : Packet} (h : PacketOkD n pkt = true) : PacketOk pkt = true := by
  simp only [PacketOkD, Bool.and_eq_true] at h; exact h.1

theorem PacketOkD_none (pkt : Packet) : PacketOkD none pkt = PacketOk pkt := by
  cases pkt <;> simp [PacketOkD, fits]

theorem IbufOkD.ibufOk {n : Option Nat} {s : RState} (h : IbufOkD n s) : IbufOk s := fun l p hp => PacketOkD_ok (h l p hp)

theorem IbufOkD_none (s : RState) : IbufOkD none s ↔ IbufOk s := by
  unfold IbufOkD IbufOk; simp only [PacketOkD_none]

theorem OpOkD_opOkC {n : Option Nat} {op : Op} (h : OpOkD n op = true) : OpOkC op = true := by
  simp only [OpOkD, Bool.and_eq_true] at h; exact h.1

theorem PacketOkD_inP {n : Option Nat} {p : Pub} (h : PacketOkD n (.publish p) = true) : InP n p := by
  simp only [PacketOkD, PacketOk, Bool.and_eq_true, decide_eq_true_eq] at h
  exact ⟨h.1.1.1, h.1.1.2, h.1.2, h.2⟩

theorem willOk_willP {n : Option Nat} {w : Will} (h : willOk n w = true) : WillP n w := by
  simp only [willOk, Bool.and_eq_true, decide_eq_true_eq] at h
  exact ⟨h.1.1, h.1.2, h.2⟩

/-! ### what is stored -/

def logItems (l : CLog.Log Pub) : List Pub := l.segs.flatMap (·.data)

def InLogs (s : RState) (p : Pub) : Prop := ∃ l ∈ s.datalog.native.map (·.log), p ∈ logItems l
def InRetained (s : RState) (p : Pub) : Prop := ∃ t, (t, p) ∈ s.datalog.retained
def InRecorded (s : RState) (p : Pub) : Prop := ∃ id c, getConn s id = some c ∧ p ∈ c.acks.recorded
def InAliases (s : RState) (t : String) : Prop := ∃ id c a, getConn s id = some c ∧ (a, t) ∈ c.topicAliases
def InWills (s : RState) (w : Will) : Prop := ∃ cid, (cid, w) ∈ s.lastWills

/-- everything the router model stores of a publish is in range -/
structure LogsOk (n : Option Nat) (s : RState) : Prop where
  logs : ∀ p, InLogs s p → StoredP n p
  retained : ∀ p, InRetained s p → StoredP n p
  recorded : ∀ p, InRecorded s p → InP n p
  aliases : ∀ t, InAliases s t → TopicP t
  wills : ∀ w, InWills s w → WillP n w

/-- everything stored in `s'` is stored in `s` or in range -/
structure Grow (n : Option Nat) (s s' : RState) : Prop where
  logs : ∀ p, InLogs s' p → StoredP n p ∨ InLogs s p
  retained : ∀ p, InRetained s' p → StoredP n p ∨ InRetained s p
  recorded : ∀ p, InRecorded s' p → InP n p ∨ InRecorded s p
  aliases : ∀ t, InAliases s' t → TopicP t ∨ InAliases s t
  wills : ∀ w, InWills s' w → WillP n w ∨ InWills s w

theorem Grow.refl (n : Option Nat) (s : RState) : Grow n s s :=
  ⟨fun _ h => .inr h, fun _ h => .inr h, fun _ h => .inr h, fun _ h => .inr h, fun _ h => .inr h⟩

theorem Grow.trans {n : Option Nat} {a b c : RState} (h1 : Grow n a b) (h2 : Grow n b c) : Grow n a c :=
  ⟨fun p h => (h2.logs p h).elim .inl (h1.logs p), fun p h => (h2.retained p h).elim .inl (h1.retained p),
   fun p h => (h2.recorded p h).elim .inl (h1.recorded p), fun p h => (h2.aliases p h).elim .inl (h1.aliases p),
   fun p h => (h2.wills p h).elim .inl (h1.wills p)⟩

theorem LogsOk.grow {n : Option Nat} {s s' : RState} (h : LogsOk n s) (g : Grow n s s') : LogsOk n s' :=
  ⟨fun p hp => (g.logs p hp).elim id (h.logs p), fun p hp => (g.retained p hp).elim id (h.retained p),
   fun p hp => (g.recorded p hp).elim id (h.recorded p), fun p hp => (g.aliases p hp).elim id (h.aliases p),
   fun p hp => (g.wills p hp).elim id (h.wills p)⟩

theorem LogsOk.init (n : Option Nat) (cfg : Config) : LogsOk n (init cfg) := by
  refine ⟨fun p h => ?_, fun p h => ?_, fun p h => ?_, fun t h => ?_, fun w h => ?_⟩
  · obtain ⟨l, hl, _⟩ := h; simp [Router.init] at hl
  · obtain ⟨t, ht⟩ := h; simp [Router.init] at ht
  · obtain ⟨id, c, hc, _⟩ := h; simp [getConn, Router.init, Slab.get?] at hc
  · obtain ⟨id, c, a, hc, _⟩ := h; simp [getConn, Router.init, Slab.get?] at hc
  · obtain ⟨cid, hc⟩ := h; simp [Router.init] at hc

/-! ### constructors of `Grow` -/

/-- the logs' contents, the retained messages, the wills and the connections are the same -/
theorem Grow.of_fields {n : Option Nat} {s s' : RState} (hc : s'.conns = s.conns)
    (hl : s'.datalog.native.map (·.log) = s.datalog.native.map (·.log))
    (hr : s'.datalog.retained = s.datalog.retained) (hw : s'.lastWills = s.lastWills) : Grow n s s' := by
  have hg : ∀ j, getConn s' j = getConn s j := fun j => by unfold getConn; rw [hc]
  refine ⟨fun p h => .inr ?_, fun p h => .inr ?_, fun p h => .inr ?_, fun t h => .inr ?_, fun w h => .inr ?_⟩
  · unfold InLogs at h ⊢; rw [← hl]; exact h
  · unfold InRetained at h ⊢; rw [← hr]; exact h
  · obtain ⟨id, c, h1, h2⟩ := h; exact ⟨id, c, by rw [← hg]; exact h1, h2⟩
  · obtain ⟨id, c, a, h1, h2⟩ := h; exact ⟨id, c, a, by rw [← hg]; exact h1, h2⟩
  · unfold InWills at h ⊢; rw [← hw]; exact h

/-- only the datalog outside the logs' contents / retained map and fields outside the footprint change -/
theorem Grow.of_conns {n : Option Nat} {s s' : RState} (hc : s'.conns = s.conns)
    (hl : s'.datalog.native.map (·.log) = s.datalog.native.map (·.log))
    (hr : s'.datalog.retained = s.datalog.retained) (hw : s'.lastWills = s.lastWills) : Grow n s s' :=
  Grow.of_fields hc hl hr hw

/-- one connection is replaced by one whose recorded publishes and alias table grow by items in range -/
theorem Grow.of_setg {n : Option Nat} {s s' : RState} {id : Nat} {c c' : Conn} (hc : getConn s id = some c)
    (hconns : s'.conns = s.conns.set id c')
    (hrec : ∀ p ∈ c'.acks.recorded, InP n p ∨ p ∈ c.acks.recorded)
    (hal : ∀ q ∈ c'.topicAliases, TopicP q.2 ∨ q ∈ c.topicAliases)
    (hl : s'.datalog.native.map (·.log) = s.datalog.native.map (·.log))
    (hr : s'.datalog.retained = s.datalog.retained) (hw : s'.lastWills = s.lastWills) : Grow n s s' := by
  have hget : ∀ j, getConn s' j = if j = id then some c' else getConn s j := fun j => by
    unfold getConn; rw [hconns]; exact Slab.get?_set_live hc j c'
  refine ⟨fun p h => .inr ?_, fun p h => .inr ?_, fun p h => ?_, fun t h => ?_, fun w h => .inr ?_⟩
  · unfold InLogs at h ⊢; rw [← hl]; exact h
  · unfold InRetained at h ⊢; rw [← hr]; exact h
  · obtain ⟨j, d, h1, h2⟩ := h
    rw [hget] at h1
    split at h1
    · cases h1
      exact (hrec p h2).elim .inl fun h3 => .inr ⟨id, c, hc, h3⟩
    · exact .inr ⟨j, d, h1, h2⟩
  · obtain ⟨j, d, a, h1, h2⟩ := h
    rw [hget] at h1
    split at h1
    · cases h1
      exact (hal (a, t) h2).elim .inl fun h3 => .inr ⟨id, c, a, hc, h3⟩
    · exact .inr ⟨j, d, a, h1, h2⟩
  · unfold InWills at h ⊢; rw [← hw]; exact h

/-- one connection is replaced by one with the same recorded publishes and alias table -/
theorem Grow.of_set {n : Option Nat} {s s' : RState} {id : Nat} {c c' : Conn} (hc : getConn s id = some c)
    (hconns : s'.conns = s.conns.set id c') (hrec : c'.acks.recorded = c.acks.recorded)
    (hal : c'.topicAliases = c.topicAliases)
    (hl : s'.datalog.native.map (·.log) = s.datalog.native.map (·.log))
    (hr : s'.datalog.retained = s.datalog.retained) (hw : s'.lastWills = s.lastWills) : Grow n s s' :=
  Grow.of_setg hc hconns (fun p hp => .inr (by rw [← hrec]; exact hp)) (fun q hq => .inr (by rw [← hal]; exact hq)) hl hr hw

theorem map_log_set {l : List FilterData} {i : Nat} {fd fd' : FilterData} (h : l[i]? = some fd) (e : fd'.log = fd.log) :
    (l.set i fd').map (·.log) = l.map (·.log) := by
  rw [List.map_set, e]
  apply List.ext_getElem?
  intro j
  rw [List.getElem?_set]
  split
  · rename_i hj; subst hj
    split
    · simp [h]
    · rename_i hlt
      simp only [List.length_map] at hlt
      simp [List.getElem?_eq_none (Nat.le_of_not_lt hlt)]
  · rfl

/-- one filter entry is replaced by one with the same log (waiter lists change) -/
theorem Grow.of_native_set {n : Option Nat} {s s' : RState} {i : Nat} {fd fd' : FilterData}
    (hfd : s.datalog.native[i]? = some fd) (hc : s'.conns = s.conns)
    (hnat : s'.datalog.native = s.datalog.native.set i fd') (hlog : fd'.log = fd.log)
    (hr : s'.datalog.retained = s.datalog.retained) (hw : s'.lastWills = s.lastWills) : Grow n s s' :=
  Grow.of_fields hc (by rw [hnat]; exact map_log_set hfd hlog) hr hw

end Router
